(* Model/Control.v — the CODE's encoding of control flow (interpreter/rt_statements.go,
   rt_func.go, func_provider.go rangeFunc/raise, rt_identifier.go executeFunction): every
   signal is an *error value* travelling the (res, err) channel.

     return v   -> &returnValue{RuntimeError{Type: ErrReturn}, v}           [RetVal v]
     break      -> RuntimeError{Type: ErrEndOfIteration}                    [RtErr TEndOfIteration]
     continue   -> RuntimeError{Type: ErrContinueIteration}                 [RtErr TContinueIteration]
     range()    -> bare ErrIsIterator / ErrEndOfIteration, wrapped by executeFunction into
                   RuntimeError{Type: that}                                 [RtErr TIsIterator / TEndOfIteration]
     raise(t..) -> RuntimeErrorWithDetail{Type: errors.New(t)}              [RaisedErr t]
     nofunc()   -> RuntimeError{Type: ErrUnknownConstruct}                  [RtErr TUnknownConstruct]

   A Go (res, err) result is [Some (trace, None)] for err == nil and [Some (trace, Some e)]
   otherwise; [None] = the fuel of this model ran out (nesting deeper than the fuel, or a
   range loop with more iterations than the fuel).

   The model is parameterised by a [variant]: [unchanged] follows the code as found,
   [repaired] the code after the fix: commits C04-*.patch; each switch names the branch
   that differs.  Props/C04.v proves the property for [repaired] and refutes it, with
   replayable witnesses, for [unchanged].  No proofs in this file. *)
From Ecal Require Export Model.ControlSyntax.

Inductive rttype : Type :=
| TUnknownConstruct | TEndOfIteration | TContinueIteration | TIsIterator | TReturn.

Inductive errval : Type :=
| RtErr (t : rttype)        (* *util.RuntimeError *)
| RaisedErr (t : nat)       (* *util.RuntimeErrorWithDetail from raise("T<t>", "D<t>", <t>) *)
| RetVal (v : nat).         (* *returnValue *)

Definition gores := option (trace * option errval).

Record variant : Type := mkVariant {
  (* F05: evalExcept tells the clause shapes apart by the NUMBER of children (1: bare,
     2: `except e`, else general) instead of by their kind *)
  v_except_by_count : bool;
  (* F06: tryRuntime.Eval offers every err != nil to the except clauses, also the
     return / break / continue signals *)
  v_signals_to_except : bool;
  (* F07: the condition loop does not clear ErrEndOfIteration (only the `in` loop does) *)
  v_cond_loop_keeps_break : bool;
  (* the deferred finally evaluation drops its own (res, err) *)
  v_finally_result_dropped : bool;
  (* rangeFunc ends at once when from == to *)
  v_range_eq_empty : bool;
  (* NOT a behaviour of the code as found: ifRuntime.Eval without the `if err == nil` around
     the guard evaluation, so that a later guard overwrites the error of an earlier one
     (kept as a switch to classify that regression in the correspondence check) *)
  v_if_guard_error_overwritten : bool
}.

Definition unchanged : variant := mkVariant true true true true true false.
Definition repaired : variant := mkVariant false false false false false false.

Definition mpre (t : trace) (r : gores) : gores :=
  match r with
  | None => None
  | Some (t', e) => Some (t ++ t', e)
  end.

(* `if eoi, ok := err.( *util.RuntimeError ); ok && eoi.Type == X { err = nil }` *)
Definition clear_type (x : rttype) (e : option errval) : option errval :=
  match e with
  | Some (RtErr t) =>
    match x, t with
    | TEndOfIteration, TEndOfIteration => None
    | TContinueIteration, TContinueIteration => None
    | TIsIterator, TIsIterator => None
    | _, _ => e
    end
  | _ => e
  end.

Definition mclear (x : rttype) (r : gores) : gores :=
  match r with
  | None => None
  | Some (t, e) => Some (t, clear_type x e)
  end.

(* errObj["type"] as tryRuntime.Eval computes it: Type.Error() for *RuntimeError and
   *RuntimeErrorWithDetail, "UnexpectedError" for anything else (a *returnValue is neither) *)
Definition objtype (e : errval) : ety :=
  match e with
  | RaisedErr t => EUser t
  | RtErr TUnknownConstruct => EUnknownConstruct
  | RetVal _ => EOther 1               (* "UnexpectedError" *)
  | RtErr TEndOfIteration => EOther 2  (* "End of iteration was reached" *)
  | RtErr TContinueIteration => EOther 3
  | RtErr TIsIterator => EOther 4
  | RtErr TReturn => EOther 5
  end.

(* the repaired code's test for "this err is a control signal, not an error" *)
Definition is_flow_signal (e : errval) : bool :=
  match e with
  | RetVal _ => true
  | RtErr TEndOfIteration | RtErr TContinueIteration => true
  | _ => false
  end.

(* children of an except node as the parser (ndTry) builds them *)
Inductive exchild : Type :=
| CString (t : ety)       (* NodeSTRING *)
| CAs                     (* NodeAS with the identifier as its child *)
| CIdent                  (* NodeIDENTIFIER *)
| CStatements (h : block).

Definition except_children (c : clause) : list exchild :=
  match c with
  | (tys, b, h) =>
    map CString tys ++
    match b with BNone => [] | BAs => [CAs] | BIdent => [CIdent] end ++
    [CStatements h]
  end.

(* the handler prologue caught(e<id>) the harness renders for a clause with a binder: it logs
   errObj["type"] when the variable was bound, and the null value otherwise *)
Definition prologue (b : binder) (bound : bool) (e : errval) : trace :=
  match b with
  | BNone => []
  | _ => [EvCaught (if bound then objtype e else EOther 0)]
  end.

Definition errval_of (k : errk) : errval :=
  match k with KUser t => RaisedErr t | KRuntime => RtErr TUnknownConstruct end.

(* guardRuntime.Eval: (events, guardres, err); on an error res is false *)
Definition mguard (g : guard) : trace * bool * option errval :=
  match g with
  | GBool b => ([], b, None)
  | GEval n GTrue => ([EvMark n], true, None)
  | GEval n GFalse => ([EvMark n], false, None)
  | GEval n (GFail k) => ([EvMark n], false, Some (errval_of k))
  end.

Section Exec.
  Variable V : variant.
  Variable ex : stmt -> gores.          (* child.Runtime.Eval, one level less fuel *)

  (* statementsRuntime.Eval: stops at the first error *)
  Fixpoint mblock (b : block) : gores :=
    match b with
    | [] => Some ([], None)
    | s :: b' =>
      match ex s with
      | None => None
      | Some (t, None) => mpre t (mblock b')
      | Some (t, Some e) => Some (t, Some e)
      end
    end.

  (* ifRuntime.Eval over (guard, block) child pairs; the parser turns `else` into a
     guard that is the constant true *)
  (* [err] is the loop-carried error variable: `for offset ... { if err == nil { guardres, err =
     guard.Eval ; if err == nil && guardres { return block.Eval } } } ; return nil, err` *)
  Fixpoint mif_pairs (err : option errval) (brs : list (guard * block)) : gores :=
    match brs with
    | [] => Some ([], err)
    | (g, b) :: brs' =>
      match err, v_if_guard_error_overwritten V with
      | Some _, false => mif_pairs err brs'            (* if err == nil fails: nothing happens *)
      | _, _ =>
        match mguard g with
        | (t, true, None) => mpre t (mblock b)
        | (t, _, e) => mpre t (mif_pairs e brs')
        end
      end
    end.

  Definition mif (brs : list (guard * block)) (els : option block) : gores :=
    mif_pairs None (brs ++ match els with Some b => [(GBool true, b)] | None => [] end).

  (* loopRuntime.Eval, NodeGUARD branch; the guard `c > 0` holds n times *)
  Fixpoint mcond_loop (n : nat) (fail : option (nat * errk)) (body : block) : gores :=
    match n with
    | O =>
      match fail with
      | None => Some ([], None)                  (* guardres false *)
      | Some (m, k) => Some ([EvMark m], Some (errval_of k))   (* the guard returns an error *)
      end
    | S n' =>
      match mblock body with
      | None => None
      | Some (t, e) =>
        match clear_type TContinueIteration e with
        | None => mpre t (mcond_loop n' fail body)   (* guard evaluated again *)
        | Some e' => Some (t, Some e')               (* for err == nil fails *)
        end
      end
    end.

  Definition mcond (n : nat) (fail : option (nat * errk)) (body : block) : gores :=
    if v_cond_loop_keeps_break V then mcond_loop n fail body
    else mclear TEndOfIteration (mcond_loop n fail body).

  (* handleIterator when the iterated expression returns an error that is not ErrIsIterator:
     getIterator returns it, `for err == nil` is not entered, it is not ErrEndOfIteration *)
  Definition msrc (n : nat) (k : errk) : gores :=
    mclear TEndOfIteration (Some ([EvMark n], Some (errval_of k))).

  (* handleIterator: [next] is the iterator function getIterator built (state explicit),
     already passed through getIteratorValue (ErrIsIterator cleared); [n] bounds the number
     of iterator calls *)
  Fixpoint miter {St A} (next : St -> (A * option errval) * St) (run : A -> gores)
           (n : nat) (st : St) : gores :=
    match n with
    | O => None
    | S n' =>
      match next st with
      | ((v, e0), st') =>
        match clear_type TIsIterator e0 with
        | Some err =>
          (* no assignment, no block; "check for continue" *)
          match clear_type TContinueIteration (Some err) with
          | None => miter next run n' st'
          | Some err' => Some ([], Some err')
          end
        | None =>
          match run v with
          | None => None
          | Some (t, e) =>
            match clear_type TContinueIteration e with
            | None => mpre t (miter next run n' st')
            | Some e' => Some (t, Some e')
            end
          end
        end
      end
    end.

  Definition mhandle_iterator {St A} (next : St -> (A * option errval) * St) (run : A -> gores)
             (n : nat) (st : St) : gores :=
    mclear TEndOfIteration (miter next run n st).

  (* getIterator, list / map branch: index and end are represented by the suffix
     valList[index+1:] still to be delivered *)
  Definition list_next {A} (dflt : A) (st : list A) : (A * option errval) * list A :=
    match st with
    | [] => ((dflt, Some (RtErr TEndOfIteration)), [])
    | x :: st' => ((x, None), st')
    end.

  (* rangeFunc.Run as seen through executeFunction (bare ErrIsIterator / ErrEndOfIteration
     become RuntimeErrors of that Type).  Instance state is[instanceID+"currVal"]: None before
     the first call (from/to/step are stored next to it and never change). *)
  Definition range_ended (from to cur : Z) : bool :=
    (Z.ltb from to && Z.ltb to cur) || (Z.ltb to from && Z.ltb cur to) ||
    (if v_range_eq_empty V then Z.eqb from to else Z.eqb from to && negb (Z.eqb cur from)).

  Definition range_call (from to step : Z) (st : option Z) : (Z * option errval) * option Z :=
    match st with
    | None => ((from, Some (RtErr TIsIterator)), Some from)
    | Some cur =>
      ((cur, Some (RtErr (if range_ended from to cur then TEndOfIteration else TIsIterator))),
       Some (cur + step)%Z)
    end.

  (* getIterator: the first evaluation of range(..) says ErrIsIterator, which makes every
     further evaluation of the same expression the iterator *)
  Definition mrange (n : nat) (run : Z -> gores) (from to step : Z) : gores :=
    match range_call from to step None with
    | ((_, Some (RtErr TIsIterator)), st) => mhandle_iterator (range_call from to step) run n st
    | _ => None (* unreachable: the first call always identifies as iterator *)
    end.

  (* map keys: the key set of the map literal, then sortutil.InterfaceStrings *)
  Fixpoint key_mem (k : key) (l : list key) : bool :=
    match l with [] => false | x :: l' => key_eqb k x || key_mem k l' end.

  Fixpoint map_keyset (ks : list key) : list key :=
    match ks with
    | [] => []
    | k :: ks' => if key_mem k ks' then map_keyset ks' else k :: map_keyset ks'
    end.

  Fixpoint sort_insert (k : key) (l : list key) : list key :=
    match l with
    | [] => [k]
    | x :: l' => if key_ltb k x then k :: l else x :: sort_insert k l'
    end.

  Definition go_sorted_keys (ks : list key) : list key :=
    fold_right sort_insert [] (map_keyset ks).

  (* tryRuntime.evalExcept: (handled?, bound?, handler) *)
  Fixpoint except_general (e : errval) (cs : list exchild) (ret : bool) (errvar : bool)
    : bool * option (bool * block) :=
    match cs with
    | [] => (ret, None)
    | CString t :: cs' =>
      except_general e cs' (if ret then true else ety_eqb t (objtype e)) errvar
    | CAs :: cs' => except_general e cs' ret (if ret then true else errvar)
    | CIdent :: cs' => except_general e cs' ret errvar
    | CStatements h :: cs' =>
      if ret then (true, Some (errvar, h)) else except_general e cs' ret errvar
    end.

  Fixpoint except_by_kind (e : errval) (cs : list exchild) (hastypes ret errvar : bool)
    : bool * option (bool * block) :=
    match cs with
    | [] => (ret, None)
    | CString t :: cs' =>
      except_by_kind e cs' true (if ret then true else ety_eqb t (objtype e)) errvar
    | CAs :: cs' => except_by_kind e cs' hastypes ret true
    | CIdent :: cs' => except_by_kind e cs' hastypes ret true
    | CStatements h :: cs' =>
      if ret || negb hastypes then (true, Some (errvar, h))
      else except_by_kind e cs' hastypes ret errvar
    end.

  Definition eval_except (e : errval) (c : clause) : bool * option (bool * block) :=
    let cs := except_children c in
    if v_except_by_count V then
      match cs with
      | [CStatements h] => (true, Some (false, h))
      | [first; CStatements h] =>
        (* evs.SetValue(except.Children[0].Token.Val, errObj): binds e only when the
           first child is the identifier *)
        (true, Some (match first with CIdent => true | _ => false end, h))
      | _ => except_general e cs false false
      end
    else except_by_kind e cs false false false.

  (* the loop over the except children of the try node: the first clause that says ok *)
  Fixpoint mclauses (t : trace) (e : errval) (cs : list clause) : gores :=
    match cs with
    | [] => Some (t, Some e)
    | c :: cs' =>
      match eval_except e c with
      | (true, Some (bound, h)) =>
        mpre (t ++ prologue (snd (fst c)) bound e) (mblock h)  (* err = newerror *)
      | (true, None) => Some (t, None)
      | (false, _) => mclauses t e cs'
      end
    end.

  Definition mtry_core (body : block) (cs : list clause) (oth : option block) : gores :=
    match mblock body with
    | None => None
    | Some (t, None) =>
      match oth with
      | None => Some (t, None)
      | Some ob => mpre t (mblock ob)
      end
    | Some (t, Some e) =>
      if negb (v_signals_to_except V) && is_flow_signal e then Some (t, Some e)
      else mclauses t e cs
    end.

  (* the deferred evaluation of the finally block *)
  Definition mfinally (r : gores) (fin : option block) : gores :=
    match fin with
    | None => r
    | Some fb =>
      match r with
      | None => None
      | Some (t, e) =>
        match mblock fb with
        | None => None
        | Some (tf, ef) =>
          if v_finally_result_dropped V then Some (t ++ tf, e)
          else match ef with
               | None => Some (t ++ tf, e)
               | Some _ => Some (t ++ tf, ef)
               end
        end
      end
    end.

  (* function.Run + the caller retv(f()) *)
  Definition mcall (body : block) : gores :=
    match mblock body with
    | None => None
    | Some (t, None) => Some (t ++ [EvRet None], None)
    | Some (t, Some (RetVal v)) => Some (t ++ [EvRet (Some v)], None)
    | Some (t, Some e) => Some (t, Some e)
    end.
End Exec.

Fixpoint mexec (V : variant) (fuel : nat) (s : stmt) : gores :=
  match fuel with
  | O => None
  | S f =>
    let ex := mexec V f in
    match s with
    | Mark n => Some ([EvMark n], None)
    | Raise t => Some ([], Some (RaisedErr t))
    | RuntimeErr => Some ([], Some (RtErr TUnknownConstruct))
    | Return v => Some ([], Some (RetVal v))
    | Break => Some ([], Some (RtErr TEndOfIteration))
    | Continue => Some ([], Some (RtErr TContinueIteration))
    | If brs els => mif V ex brs els
    | LoopCond n fail body => mcond V ex n fail body
    | LoopSrc n k _ => msrc n k
    | LoopRange from to step body =>
      mrange V f (fun v => mpre [EvIter v] (mblock ex body)) from to step
    | LoopList xs body =>
      mhandle_iterator (list_next 0%Z) (fun v => mpre [EvIter v] (mblock ex body)) (S (length xs)) xs
    | LoopMap ks body =>
      let l := go_sorted_keys ks in
      mhandle_iterator (list_next []) (fun k => mpre [EvKey k] (mblock ex body)) (S (length l)) l
    | Try body cs oth fin => mfinally V ex (mtry_core V ex body cs oth) fin
    | FuncCall body => mcall ex body
    end
  end.

Definition mprog (V : variant) (fuel : nat) (p : block) : gores := mblock (mexec V fuel) p.
