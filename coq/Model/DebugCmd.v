(* Model/DebugCmd.v — the debugger's text command interface (interpreter/debug.go,
   interpreter/debug_cmd.go of the REPAIRED tree, see fixes/C16-*.patch), branch by branch.

   HandleInput = strings.Fields + lookup in DebugCommandsMap + <command>.Run.  A word of the
   line is modelled by everything the commands ever ask about a word (token): is it a command
   name, what AssertNumParam / strings.Split(":")+Atoi / ParseBool / ToLower-switch /
   NamePattern make of it.  Every string is some token, so "all token lists" covers all lines.

   The debugger state is the part of ecalDebugger the commands read or write; thread side
   changes (VisitState, VisitStepIn/OutState, RecordThreadFinished) are events.  Go partial
   operations (slice expression, nil dereference) are explicit [RPanic] outcomes placed behind
   the guards the code has; the debugger lock is a counter of holders.  No proofs here. *)
From Coq Require Import List String ZArith NArith Bool.
Import ListNotations.
Open Scope string_scope.

(* ------------------------------------------------------------------ Go values vs. encoding/json *)

Inductive gval : Type :=
| GNull
| GBool (b : bool)
| GNum
| GStr
| GList (l : list gval)              (* []interface{} *)
| GMapS (vals : list gval)           (* map[string]T: keys are strings, only the values matter *)
| GMapI (kvs : list (gval * gval))   (* map[interface{}]interface{} — every ECAL map; encoding/json rejects the type *)
| GObj (enc : bool).                 (* any other Go value; enc = encoding/json accepts it (ECAL functions do, via MarshalJSON) *)

(* json.Marshal succeeds *)
Fixpoint encodable (v : gval) : bool :=
  match v with
  | GList l => forallb encodable l
  | GMapS m => forallb encodable m
  | GMapI _ => false
  | GObj e => e
  | _ => true
  end.

(* stringutil.ConvertToJSONMarshalableObject: maps with any keys become string-keyed maps,
   lists are converted element-wise, everything else is returned as it is *)
Fixpoint to_marshalable (v : gval) : gval :=
  match v with
  | GMapI m => GMapS (map (fun kv => match kv with (_, x) => to_marshalable x end) m)
  | GList l => GList (map to_marshalable l)
  | _ => v
  end.

(* the values an ECAL program can produce: scalars, functions, lists and maps of them *)
Fixpoint ecal_value (v : gval) : bool :=
  match v with
  | GList l => forallb ecal_value l
  | GMapS _ => false
  | GMapI m => forallb (fun kv => match kv with (k, x) => ecal_value k && ecal_value x end) m
  | GObj e => e
  | _ => true
  end.

(* scope.varsScope.ToJSONObject for one value: Marshal, else Marshal(Convert(..)), else a
   descriptive string *)
Definition scope_json (v : gval) : gval :=
  if encodable v then v
  else if encodable (to_marshalable v) then to_marshalable v
  else GStr.

(* ------------------------------------------------------------------ words of a command line *)

Inductive cmd := CBreakOnStart | CBreak | CRmBreak | CDisableBreak | CCont | CDescribe
               | CStatus | CExtract | CInject | CLockState.

Inductive conttype := CtResume | CtStepIn | CtStepOver | CtStepOut.

(* strings.Split(word, ":"):  one piece | more pieces, Atoi(piece 1) fails | Atoi gives line *)
Inductive target := TgNoColon | TgBadLine | TgLine (line : Z).

Record token := mkTok {
  k_cmd : option cmd;          (* DebugCommandsMap[word] *)
  k_num : option N;            (* AssertNumParam: ParseInt(word,10,0) converted to uint64 *)
  k_src : N;                   (* identity of strings.Split(word, ":")[0] *)
  k_target : target;
  k_bool : bool;               (* strconv.ParseBool, error ignored (false) *)
  k_cont : option conttype;    (* strings.ToLower(word) in the switch of contCommand *)
  k_name : bool                (* parser.NamePattern.MatchString(word) *)
}.

(* what the scopes and the expression evaluator answer (outside the debugger) *)
Record oracle := mkOracle {
  o_get : bool;                (* is.vs.GetValue(name) finds a value *)
  o_eval : option gval;        (* parse + validate + eval of the inject expression: a value or an error *)
  o_set : bool                 (* is.vs.SetValue(name, value) succeeds *)
}.

(* ------------------------------------------------------------------ debugger state *)

Inductive icmd := IStop | IStepIn | IStepOut | IStepOver | IResume | IKill.

Record istate := mkIS {        (* interrogationState *)
  i_running : bool;
  i_cmd : icmd;
  i_stepout : nat;             (* len(stepOutStack) *)
  i_node : bool;               (* node reference is set *)
  i_vs : list gval;            (* values of the thread's scope where it last stopped *)
  i_err : option gval;         (* err: None = nil, Some d = runtime error carrying user data d *)
  i_cond : nat                 (* holders of is.cond.L (the mutex of the thread's condition) between calls *)
}.

Record thread := mkT {         (* one key of callStacks / callStackVsSnapshots / interrogationStates *)
  t_id : N;
  t_stack : list (list gval);  (* call stack; per frame the scope snapshot taken on entry *)
  t_is : option istate
}.

Record dstate := mkD {
  d_bps : list ((N * Z) * bool);   (* breakPoints: "source:line" -> active *)
  d_bos : bool;                    (* breakOnStart *)
  d_sources : list N;
  d_threads : list thread;
  d_global : bool;                 (* globalScope != nil *)
  d_refs : bool;                   (* mutexLog / threadpool / mutexeOwners set (first evaluation happened) *)
  d_lock : nat                     (* holders of ed.lock *)
}.

(* all debugger locks: ed.lock and the condition mutex of every interrogated thread *)
Definition cond_held (t : thread) : nat :=
  match t_is t with Some i => i_cond i | None => 0 end.
Definition locks_total (s : dstate) : nat :=
  d_lock s + list_sum (map cond_held (d_threads s)).

Definition init (global : bool) : dstate := mkD [] false [] [] global false 0.

Inductive res :=
| ROk (j : gval)              (* (result, nil) *)
| RErr                        (* (nil, error) *)
| RPanic (site : string)      (* the Go code panics at this site *)
| RBlocked.                   (* the call waits for ed.lock *)

Definition set_threads (s : dstate) (ts : list thread) : dstate :=
  mkD (d_bps s) (d_bos s) (d_sources s) ts (d_global s) (d_refs s) (d_lock s).
Definition set_bps (s : dstate) (b : list ((N * Z) * bool)) : dstate :=
  mkD b (d_bos s) (d_sources s) (d_threads s) (d_global s) (d_refs s) (d_lock s).
Definition set_bos (s : dstate) (b : bool) : dstate :=
  mkD (d_bps s) b (d_sources s) (d_threads s) (d_global s) (d_refs s) (d_lock s).
Definition set_refs (s : dstate) : dstate :=
  mkD (d_bps s) (d_bos s) (d_sources s) (d_threads s) (d_global s) true (d_lock s).
Definition set_sources (s : dstate) (l : list N) : dstate :=
  mkD (d_bps s) (d_bos s) l (d_threads s) (d_global s) (d_refs s) (d_lock s).
Definition set_lock (s : dstate) (n : nat) : dstate :=
  mkD (d_bps s) (d_bos s) (d_sources s) (d_threads s) (d_global s) (d_refs s) n.

(* ed.lock.Lock()/RLock() ... defer Unlock(): the body runs with the lock held, the deferred
   release also runs when the body panics *)
Definition with_lock (s : dstate) (body : dstate -> dstate * res) : dstate * res :=
  match d_lock s with
  | O => let (s', r) := body (set_lock s 1) in (set_lock s' (pred (d_lock s')), r)
  | S _ => (s, RBlocked)
  end.

Definition find_thread (s : dstate) (tid : N) : option thread :=
  find (fun t => N.eqb (t_id t) tid) (d_threads s).

Definition upd_thread (tid : N) (f : thread -> thread) (ts : list thread) : list thread :=
  map (fun t => if N.eqb (t_id t) tid then f t else t) ts.

Definition set_is (t : thread) (i : option istate) : thread := mkT (t_id t) (t_stack t) i.

Definition bp_eqb (a b : N * Z) : bool := N.eqb (fst a) (fst b) && Z.eqb (snd a) (snd b).

Definition bp_remove (k : N * Z) (l : list ((N * Z) * bool)) :=
  filter (fun e => negb (bp_eqb (fst e) k)) l.
Definition bp_set (k : N * Z) (v : bool) (l : list ((N * Z) * bool)) := (k, v) :: bp_remove k l.
Definition bp_remove_source (src : N) (l : list ((N * Z) * bool)) :=
  filter (fun e => negb (N.eqb (fst (fst e)) src)) l.

(* ------------------------------------------------------------------ debugger methods *)

Definition SetBreakPoint (s : dstate) (src : N) (line : Z) (active : bool) : dstate * res :=
  with_lock s (fun s1 => (set_bps s1 (bp_set (src, line) active (d_bps s1)), ROk GNull)).

Definition RemoveBreakPoint (s : dstate) (src : N) (line : Z) : dstate * res :=
  with_lock s (fun s1 =>
    if (0 <? line)%Z then (set_bps s1 (bp_remove (src, line) (d_bps s1)), ROk GNull)
    else (set_bps s1 (bp_remove_source src (d_bps s1)), ROk GNull)).

(* stack[:len(stack)-1] — a slice expression, panics for an empty stack *)
Definition slice_but_last {A} (l : list A) : option nat :=
  match l with [] => None | _ :: r => Some (List.length r) end.

Definition Continue (s : dstate) (tid : N) (ct : conttype) : dstate * res :=
  with_lock s (fun s1 =>
    match find_thread s1 tid with
    | Some t =>
      match t_is t with
      | Some i =>
        if i_running i then (s1, ROk GNull)
        else
          (* is.cond.L.Lock(); defer is.cond.L.Unlock(): waits while somebody holds it; the
             deferred release runs on every path below (holders S n, then pred (S n) = n) *)
          match i_cond i with S _ => (s1, RBlocked) | O =>
          let go (c : icmd) (so : nat) :=
            (set_threads s1 (upd_thread tid
               (fun t' => set_is t' (Some (mkIS true c so (i_node i) (i_vs i) (i_err i) (pred (S (i_cond i)))))) (d_threads s1)),
             ROk GNull) in
          match ct with
          | CtResume => go IResume (i_stepout i)
          | CtStepIn => go IStepIn (i_stepout i)
          | CtStepOver => go IStepOver (i_stepout i)
          | CtStepOut =>
            if (0 <? List.length (t_stack t))%nat then
              match slice_but_last (t_stack t) with
              | Some n => go IStepOut n
              | None => (s1, RPanic "Continue: stack[:len(stack)-1]")
              end
            else go IResume (i_stepout i)          (* nothing to step out of on the top level *)
          end
          end
      | None => (s1, ROk GNull)
      end
    | None => (s1, ROk GNull)
    end).

(* RuntimeError(WithDetail).MarshalJSON via ToJSONObject: Source, Type, Detail, Node, Trace,
   Environment, Data — Data converted with ConvertToJSONMarshalableObject *)
Definition err_json (e : option gval) : gval :=
  match e with
  | None => GNull
  | Some d => GMapS [GStr; GStr; GStr; GObj true; GList []; GMapS []; to_marshalable d]
  end.

Definition frame_json (f : list gval) : gval := GMapS f.   (* snapshots were converted when taken *)

Definition Describe (s : dstate) (tid : N) : dstate * res :=
  with_lock s (fun s1 =>
    match find_thread s1 tid with
    | Some t =>
      match t_is t with
      | Some i =>
        let base := [GBool (i_running i); err_json (i_err i);
                     GList (map (fun _ => GStr) (t_stack t));
                     GList (map (fun _ => GObj true) (t_stack t));
                     GList (map frame_json (t_stack t));
                     GList (map frame_json (t_stack t))] in
        if i_running i then (s1, ROk (GMapS base))
        else if i_node i then
          (s1, ROk (GMapS (base ++ [GStr; GObj true; GMapS (map scope_json (i_vs i));
                                     GMapS (map scope_json (i_vs i))])))
        else (s1, RPanic "Describe: is.node.ToJSONObject() on a nil node")
      | None => (s1, ROk GNull)           (* nil map: JSON null *)
      end
    | None => (s1, ROk GNull)
    end).

Definition thread_status (t : thread) : gval :=
  match t_is t with
  | Some i => GMapS [GList (map (fun _ => GStr) (t_stack t)); GBool (i_running i); err_json (i_err i)]
  | None => GMapS [GList (map (fun _ => GStr) (t_stack t))]
  end.

Definition Status (s : dstate) : dstate * res :=
  with_lock s (fun s1 =>
    (s1, ROk (GMapS [GMapS (map (fun e => GBool (snd e)) (d_bps s1)); GBool (d_bos s1);
                     GMapS (map thread_status (d_threads s1));
                     GList (map (fun _ => GStr) (d_sources s1))]))).

(* no debugger lock is taken here; the references are nil until the first evaluation *)
Definition LockState (s : dstate) : dstate * res :=
  let log := if d_refs s then GList [] else GList [] in      (* guard: mutexLog != nil *)
  let threads := if d_refs s then GMapS [GNum; GObj true; GObj true] else GMapS [] in  (* guard: threadpool != nil *)
  let owners := if d_refs s then GMapS [] else GNull in
  (s, ROk (GMapS [log; owners; threads])).

Definition suspended (s : dstate) (tid : N) : option (thread * istate) :=
  match find_thread s tid with
  | Some t => match t_is t with
              | Some i => if i_running i then None else Some (t, i)
              | None => None
              end
  | None => None
  end.

Definition ExtractValue (s : dstate) (o : oracle) (tid : N) : dstate * res :=
  if negb (d_global s) then (s, RErr)
  else with_lock s (fun s1 =>
    match suspended s1 tid with
    | Some _ => if o_get o then (s1, ROk GNull) else (s1, RErr)
    | None => (s1, RErr)
    end).

Definition InjectValue (s : dstate) (o : oracle) (tid : N) : dstate * res :=
  if negb (d_global s) then (s, RErr)
  else with_lock s (fun s1 =>
    match suspended s1 tid with
    | Some (t, i) =>
      match o_eval o with
      | Some v =>
        if o_set o then
          (set_threads s1 (upd_thread tid
             (fun t' => set_is t' (Some (mkIS (i_running i) (i_cmd i) (i_stepout i) (i_node i) (v :: i_vs i) (i_err i) (i_cond i))))
             (d_threads s1)), ROk GNull)
        else (s1, RErr)
      | None => (s1, RErr)
      end
    | None => (s1, RErr)
    end).

(* ------------------------------------------------------------------ the commands' Run *)

Definition run_cmd (c : cmd) (s : dstate) (o : oracle) (args : list token) : dstate * res :=
  match c with
  | CBreakOnStart =>
    let b := match args with [] => true | a :: _ => k_bool a end in
    with_lock s (fun s1 => (set_bos s1 b, ROk GNull))
  | CBreak =>
    match args with
    | [] => (s, RErr)
    | a :: _ => match k_target a with
                | TgLine l => SetBreakPoint s (k_src a) l true
                | _ => (s, RErr)
                end
    end
  | CDisableBreak =>
    match args with
    | [] => (s, RErr)
    | a :: _ => match k_target a with
                | TgLine l => SetBreakPoint s (k_src a) l false
                | _ => (s, RErr)
                end
    end
  | CRmBreak =>
    match args with
    | [] => (s, RErr)
    | a :: _ => match k_target a with
                | TgLine l => RemoveBreakPoint s (k_src a) l
                | TgBadLine => (s, ROk GNull)
                | TgNoColon => RemoveBreakPoint s (k_src a) (-1)
                end
    end
  | CCont =>
    match args with
    | [a; b] =>
      match k_num a with
      | Some tid => match k_cont b with
                    | Some ct => Continue s tid ct
                    | None => (s, RErr)
                    end
      | None => (s, RErr)
      end
    | _ => (s, RErr)
    end
  | CDescribe =>
    match args with
    | [a] => match k_num a with
             | Some tid => Describe s tid
             | None => (s, RErr)
             end
    | _ => (s, RErr)
    end
  | CStatus => Status s
  | CExtract =>
    match args with
    | [a; b; c] =>
      match k_num a with
      | Some tid => if k_name b && k_name c then ExtractValue s o tid else (s, RErr)
      | None => (s, RErr)
      end
    | _ => (s, RErr)
    end
  | CInject =>
    match args with
    | a :: _ :: _ :: _ =>
      match k_num a with
      | Some tid => InjectValue s o tid
      | None => (s, RErr)
      end
    | _ => (s, RErr)
    end
  | CLockState => LockState s
  end.

(* HandleInput after strings.Fields *)
Definition handle (s : dstate) (o : oracle) (line : list token) : dstate * res :=
  match line with
  | [] => (s, ROk GNull)
  | w :: args =>
    match k_cmd w with
    | Some c => run_cmd c s o args
    | None => (s, RErr)
    end
  end.

(* ------------------------------------------------------------------ what the threads do *)

Inductive event :=
| EvStart (tid : N)                               (* first VisitState of a thread *)
| EvRefs                                          (* SetLockingState / SetThreadPool after a VisitState *)
| EvSource (src : N)                              (* RecordSource *)
| EvSuspend (tid : N) (vs : list gval)            (* stops at a break point / break on start / after a step *)
| EvSuspendErr (tid : N) (vs : list gval) (d : gval)   (* stops in VisitStepOutState on an error carrying data d *)
| EvCall (tid : N) (vs : list gval)               (* VisitStepInState *)
| EvReturn (tid : N)                              (* VisitStepOutState without error *)
| EvResumed (tid : N)                             (* a resumed thread reached another line: state dropped *)
| EvFinish (tid : N)                              (* RecordThreadFinished *)
| EvCmd (line : list token) (o : oracle).         (* a command line arrives *)

Definition can_move (t : thread) : bool :=
  match t_is t with Some i => i_running i | None => true end.

Definition step (s : dstate) (e : event) : dstate :=
  match e with
  | EvStart tid =>
    match find_thread s tid with
    | Some _ => s
    | None => set_threads s (mkT tid [] None :: d_threads s)
    end
  | EvRefs => set_refs s
  | EvSource src => set_sources s (src :: d_sources s)
  | EvSuspend tid vs =>
    set_bos (set_threads s (upd_thread tid (fun t =>
      if can_move t then
        match t_is t with
        | Some i => set_is t (Some (mkIS false (i_cmd i) (i_stepout i) true vs (i_err i) (i_cond i)))
        | None => set_is t (Some (mkIS false IStop 0 true vs None 0))
        end
      else t) (d_threads s))) false
  | EvSuspendErr tid vs d =>
    set_threads s (upd_thread tid (fun t =>
      if can_move t then
        match t_is t with
        | Some i => set_is t (Some (mkIS false (i_cmd i) (i_stepout i) true vs
                                      (match i_err i with Some x => Some x | None => Some d end) (i_cond i)))
        | None => set_is t (Some (mkIS false IStop 0 true vs (Some d) 0))
        end
      else t) (d_threads s))
  | EvCall tid vs =>
    set_threads s (upd_thread tid (fun t =>
      if can_move t then
        mkT (t_id t) (map scope_json vs :: t_stack t)
            (match t_is t with
             | Some i => Some (match i_cmd i with
                               | IStepIn => mkIS (i_running i) IStop (i_stepout i) (i_node i) (i_vs i) (i_err i) (i_cond i)
                               | IStepOver => mkIS (i_running i) IStepOut (List.length (t_stack t)) (i_node i) (i_vs i) (i_err i) (i_cond i)
                               | _ => i
                               end)
             | None => None
             end)
      else t) (d_threads s))
  | EvReturn tid =>
    set_threads s (upd_thread tid (fun t =>
      if can_move t then
        match t_stack t with
        | [] => t                       (* the interpreter pairs step-in and step-out *)
        | _ :: rest =>
          mkT (t_id t) rest
              (match t_is t with
               | Some i =>
                 Some (mkIS (i_running i)
                            (match i_cmd i with
                             | IStepOver | IStepOut => if Nat.eqb (List.length rest) (i_stepout i) then IStop else i_cmd i
                             | c => c
                             end)
                            (i_stepout i) (i_node i) (i_vs i) None (i_cond i))
               | None => None
               end)
        end
      else t) (d_threads s))
  | EvResumed tid =>
    set_threads s (upd_thread tid (fun t =>
      match t_is t with
      | Some i => if i_running i then
                    match i_cmd i with IResume | IKill => set_is t None | _ => t end
                  else t
      | None => t
      end) (d_threads s))
  | EvFinish tid =>
    set_threads s (filter (fun t =>
      negb (N.eqb (t_id t) tid &&
            match t_is t with Some i => negb (i_running i) | None => true end)) (d_threads s))
  | EvCmd line o => fst (handle s o line)
  end.

(* user data entering the state must be ECAL values *)
Definition valid_event (e : event) : bool :=
  match e with
  | EvSuspendErr _ _ d => ecal_value d
  | _ => true
  end.

Definition run (s : dstate) (h : list event) : dstate := fold_left step h s.
