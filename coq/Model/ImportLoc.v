(* Model/ImportLoc.v — util/import.go, FileImportLocator.Resolve and isSubpath.

   Go code followed:
     importPath := filepath.Clean(filepath.Join(il.Root, path))
     ok, err := isSubpath(il.Root, importPath)
         rel, err := filepath.Rel(root, sub)
         return err == nil && !strings.HasPrefix(rel, "../") && rel != "..", err
     if err == nil && !ok { err = "Import path is outside of code root" }
     if err == nil { b, err = ioutil.ReadFile(importPath) ... }

   The model returns the decision: [Some importPath] = this path is handed to ReadFile
   (what the file system then answers is not part of the decision), [None] = Resolve returns
   an error without touching the file system.  No proofs in this file. *)
From Ecal Require Export Model.PathClean.

Definition UPSLASH : bytes := [46; 46; 47].   (* "../" *)

(* isSubpath: None = Rel failed (err != nil), Some ok otherwise *)
Definition is_subpath (root sub : bytes) : option bool :=
  match rel root sub with
  | None => None
  | Some r => Some (negb (prefixb UPSLASH r) && negb (bytes_eqb r DOTDOT))
  end.

Definition resolve (root path : bytes) : option bytes :=
  let importPath := clean (join2 root path) in
  match is_subpath root importPath with
  | None => None              (* error of filepath.Rel *)
  | Some false => None        (* "Import path is outside of code root" *)
  | Some true => Some importPath
  end.
