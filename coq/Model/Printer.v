(* Model/Printer.v — C08.  Token-level model of parser.PrettyPrint (REPAIRED rule set, see
   /verif/fixes/C08-*.patch) and of the part of the Pratt parser that reads expressions back.

   The printer is modelled at the level the parser can observe: the sequence of lexer
   tokens (kind, value, raw-or-interpolating flag for strings) and the line breaks between
   them.  Indentation and spacing are not modelled; the correspondence check lexes the REAL
   output and compares token kinds, values and line structure.

   Tables come from gen/Grammar.v (binding powers, denotation kinds of parser.astNodeMap).
   No proofs in this file. *)
From Coq Require Import List String NArith Bool Arith.
From Ecal Require Import Common.Bytes Common.Ast gen.Tokens gen.Grammar.
Import ListNotations.
Local Open Scope string_scope.
Local Open Scope nat_scope.

(* ---------------------------------------------------------------------------------- *)
(* Tokens as the parser sees them *)

Inductive item : Type :=
| T (id : nat) (val : bytes) (allow : bool)   (* lexer token: LexToken.ID, Val, AllowEscapes *)
| NL.                                          (* the next token is on a later line *)

(* ---------------------------------------------------------------------------------- *)
(* parser.astNodeMap look-ups *)

Definition entry_of (id : nat) : option grammar_entry :=
  find (fun e => Nat.eqb (ge_token e) id) grammar_table.

Definition binding (id : nat) : nat :=
  match entry_of id with Some e => ge_binding e | None => 0 end.
Definition name_of (id : nat) : string :=
  match entry_of id with Some e => ge_name e | None => "" end.
Definition null_of (id : nat) : string :=
  match entry_of id with Some e => ge_null e | None => "" end.
Definition is_infix (id : nat) : bool :=
  match entry_of id with Some e => String.eqb (ge_left e) "ldInfix" | None => false end.
Definition is_prefix (id : nat) : bool := String.eqb (null_of id) "ndPrefix".
Definition is_term (id : nat) : bool := String.eqb (null_of id) "ndTerm".
Definition is_ident (id : nat) : bool := String.eqb (null_of id) "ndIdentifier".
Definition is_inner (id : nat) : bool := String.eqb (null_of id) "ndInner".

Definition infix_of (name : string) : option nat :=
  option_map ge_token
    (find (fun e => String.eqb (ge_name e) name && String.eqb (ge_left e) "ldInfix") grammar_table).
Definition prefix_of (name : string) : option nat :=
  option_map ge_token
    (find (fun e => String.eqb (ge_name e) name && String.eqb (ge_null e) "ndPrefix") grammar_table).
Definition term_of (name : string) : option nat :=
  option_map ge_token
    (find (fun e => String.eqb (ge_name e) name &&
                    (String.eqb (ge_null e) "ndTerm" || String.eqb (ge_null e) "ndIdentifier"))
          grammar_table).

(* role of a node: decided by its name and number of children exactly as the Go code does
   (len(Children) == 2 and binding > 0: infix; len == 1 and (binding > 0 or let): prefix) *)
Inductive cls : Type := CBin (id : nat) | CPre (id : nat) | CAtom (id : nat) | COther.

Definition classify_nc (name : string) (nc : nat) : cls :=
  match nc with
  | 2 => match infix_of name with Some id => CBin id | None => COther end
  | 1 => match prefix_of name with Some id => CPre id | None => COther end
  | 0 => match term_of name with Some id => CAtom id | None => COther end
  | _ => COther
  end.

Definition classify (n : node) : cls := classify_nc (n_name n) (length (n_children n)).

(* ---------------------------------------------------------------------------------- *)
(* Parenthesisation *)

(* the binding with which the parser reads an operand of this parent *)
Definition ctx_of (parent : cls) : nat :=
  match parent with
  | CBin p => binding p
  | CPre p => binding p + 20
  | _ => 0
  end.

(* bracketPrecedenceMap after the repair: every infix operator kind, not and let *)
Definition eligible (name : string) : bool :=
  match infix_of name with Some _ => true | None => String.eqb name NodeNOT || String.eqb name NodeLET end.

(* the one place where the repaired printer still drops brackets: a * (b / c) is printed
   a * b / c because an unedited test of /repo pins that output (known finding) *)
Definition exempt (p c : nat) : bool :=
  String.eqb (name_of p) NodeTIMES && String.eqb (name_of c) NodeDIV.

(* ppNeedsBrackets *)
Definition needs (parent : cls) (idx : nat) (child : node) : bool :=
  if eligible (n_name child) then
    match classify child with
    | CPre c => binding c + 20 <? ctx_of parent
    | CBin c =>
      match parent, idx with
      | CBin p, 0 => binding c <? binding p
      | CBin p, _ => if exempt p c then false else binding c <=? binding p
      | _, _ => binding c <=? ctx_of parent
      end
    | _ => false
    end
  else false.

(* the rule of the unrepaired printer: only plus/minus/and/or children, only when the
   parent binds strictly tighter, regardless of the side *)
Definition old_brackets : list string := [NodePLUS; NodeMINUS; NodeAND; NodeOR].
Definition binding_of_cls (c : cls) : nat :=
  match c with CBin p => binding p | CPre p => binding p | _ => 0 end.
Definition needs_old (parent : cls) (idx : nat) (child : node) : bool :=
  existsb (String.eqb (n_name child)) old_brackets &&
  (binding_of_cls (classify child) <? binding_of_cls parent).

(* ---------------------------------------------------------------------------------- *)
(* String literals at token level: which kind does the lexer see after printing? *)

Fixpoint has_byte (b : N) (v : bytes) : bool :=
  match v with [] => false | x :: r => N.eqb x b || has_byte b r end.

Definition raw_dq_ok (v : bytes) : bool :=
  negb (has_byte 10 v) && negb (has_byte 1 v) && negb (has_byte 34 v).
Definition raw_sq_ok (v : bytes) : bool :=
  negb (has_byte 10 v) && negb (has_byte 1 v) && negb (has_byte 39 v).
Definition raw_printable (v : bytes) : bool := raw_dq_ok v || raw_sq_ok v.

(* ppStringLiteral: a raw string stays raw unless it contains a newline (or both quotes) *)
Definition str_allow (v : bytes) (a : bool) : bool := a || negb (raw_printable v).
Definition str_allow_old (v : bytes) (a : bool) : bool := true.

(* ---------------------------------------------------------------------------------- *)
(* The printer *)

Definition kw (id : nat) : item := T id [] false.
Definition has_value (id : nat) : bool :=
  Nat.eqb id TokenSTRING || Nat.eqb id TokenNUMBER || Nat.eqb id TokenIDENTIFIER.

Definition block (k : list item) : list item := kw TokenLBRACE :: NL :: k ++ [kw TokenRBRACE].

Fixpoint join_comma (ks : list (list item)) : list item :=
  match ks with
  | [] => []
  | [k] => k
  | k :: r => k ++ kw TokenCOMMA :: join_comma r
  end.

Fixpoint join_multiline (ks : list (list item)) : list item :=
  match ks with
  | [] => []
  | [k] => k ++ [NL]
  | k :: r => k ++ kw TokenCOMMA :: NL :: join_multiline r
  end.

Fixpoint lines_of (ks : list (list item)) : list item :=
  match ks with [] => [] | k :: r => k ++ NL :: lines_of r end.

(* ppContinuesExpression: the printed statement starts with a token the parser would take as a
   continuation of the previous line (+ and - are prefix and infix operators, "(" after an
   identifier is a call); such a statement is printed with a leading ";" unless it is the
   first of its block (repair C08-5) *)
Definition continues (k : list item) : bool :=
  match k with
  | T id _ _ :: _ => Nat.eqb id TokenMINUS || Nat.eqb id TokenPLUS || Nat.eqb id TokenLPAREN
  | _ => false
  end.
Definition sep_of (k : list item) : list item := if continues k then [kw TokenSEMICOLON] else [].
Fixpoint lines_more (ks : list (list item)) : list item :=
  match ks with [] => [] | k :: r => sep_of k ++ k ++ NL :: lines_more r end.
Definition lines_sep (ks : list (list item)) : list item :=
  match ks with [] => [] | k :: r => k ++ NL :: lines_more r end.

Definition container (open close : nat) (threshold : nat) (ks : list (list item)) : list item :=
  if threshold <? length ks
  then kw open :: NL :: join_multiline ks ++ [kw close]
  else kw open :: join_comma ks ++ [kw close].

Fixpoint ident_tail (l : list (node * list item)) : list item :=
  match l with
  | [] => []
  | (c, k) :: r =>
    (if String.eqb (n_name c) NodeIDENTIFIER then kw TokenDOT :: k
     else if String.eqb (n_name c) NodeFUNCCALL then kw TokenLPAREN :: k ++ [kw TokenRPAREN]
     else if String.eqb (n_name c) NodeCOMPACCESS then k
     else []) ++ ident_tail r
  end.

Fixpoint except_heads (l : list (node * list item)) : list item :=
  match l with
  | [] => []
  | [_] => []
  | (c, k) :: (((c2, _) :: _) as r) =>
    k ++ (if negb (String.eqb (n_name c2) "as") && (2 <=? length r) then [kw TokenCOMMA] else [])
      ++ except_heads r
  end.

Definition first_child_name (n : node) : string :=
  match n_children n with c :: _ => n_name c | [] => "" end.

(* children of an if node after the first guard/statements pair *)
Fixpoint if_tail (l : list (node * list item)) : list item :=
  match l with
  | (g, kg) :: (_, ks) :: r =>
    (match r with
     | [] => if String.eqb (first_child_name g) NodeTRUE
             then kw TokenELSE :: block ks
             else kw TokenELIF :: kg ++ block ks
     | _ => kw TokenELIF :: kg ++ block ks
     end) ++ if_tail r
  | _ => []
  end.

Definition unmodelled : list item := [T TokenError [] false].

Fixpoint last_kid (ks : list (list item)) : list item :=
  match ks with [] => [] | [k] => k | _ :: r => last_kid r end.
Fixpoint middle_lines (ks : list (list item)) : list item :=
  match ks with [] => [] | [_] => [] | k :: r => k ++ NL :: middle_lines r end.

Definition assemble_special (semi : bool) (name : string) (v : bytes) (cs : list node) (ks : list (list item))
  : list item :=
  if String.eqb name NodeSTATEMENTS then (if semi then lines_sep ks else lines_of ks)
  else if String.eqb name NodeFUNCCALL then join_comma ks
  else if String.eqb name NodeLIST then container TokenLBRACK TokenRBRACK 4 ks
  else if String.eqb name NodeMAP then container TokenLBRACE TokenRBRACE 2 ks
  else if String.eqb name NodePARAMS then kw TokenLPAREN :: join_comma ks ++ [kw TokenRPAREN]
  else if String.eqb name NodeIDENTIFIER then T TokenIDENTIFIER v false :: ident_tail (combine cs ks)
  else if String.eqb name NodeIF then
    match ks with
    | kg :: kb :: _ => kw TokenIF :: kg ++ block kb ++ if_tail (skipn 2 (combine cs ks))
    | _ => unmodelled
    end
  else if String.eqb name NodeTRY then
    match ks with
    | k1 :: r => kw TokenTRY :: block k1 ++ concat r
    | _ => unmodelled
    end
  else if String.eqb name NodeEXCEPT then
    match ks with
    | [] => unmodelled
    | _ => kw TokenEXCEPT :: except_heads (combine cs ks) ++ block (last_kid ks)
    end
  else if String.eqb name NodeSINK then
    match ks with
    | k1 :: ((_ :: _) as r) =>
      kw TokenSINK :: k1 ++ NL :: middle_lines r ++ block (last_kid r) ++ [NL]
    | _ => unmodelled
    end
  else
    match ks with
    | [] => if String.eqb name NodeRETURN then [kw TokenRETURN] else unmodelled
    | [k1] =>
      if String.eqb name NodeCOMPACCESS then kw TokenLBRACK :: k1 ++ [kw TokenRBRACK]
      else if String.eqb name NodeGUARD then k1
      else if String.eqb name NodeRETURN then kw TokenRETURN :: k1
      else if String.eqb name NodeAS then kw TokenAS :: k1
      else if String.eqb name NodeOTHERWISE then kw TokenOTHERWISE :: block k1
      else if String.eqb name NodeFINALLY then kw TokenFINALLY :: block k1
      else unmodelled
    | [k1; k2] =>
      if String.eqb name NodeIMPORT then kw TokenIMPORT :: k1 ++ kw TokenAS :: k2
      else if String.eqb name NodeLOOP then kw TokenFOR :: k1 ++ block k2
      else if String.eqb name NodeFUNC then kw TokenFUNC :: k1 ++ block k2
      else if String.eqb name NodeMUTEX then kw TokenMUTEX :: k1 ++ block k2 ++ [NL]
      else unmodelled
    | [k1; k2; k3] =>
      if String.eqb name NodeFUNC then kw TokenFUNC :: k1 ++ k2 ++ block k3 else unmodelled
    | _ => unmodelled
    end.

Section Style.
  Variable needsf : cls -> nat -> node -> bool.      (* bracket rule *)
  Variable strk : bytes -> bool -> bool.             (* string kind after printing *)
  Variable semi : bool.                              (* statement separator where needed (C08-5) *)

  Definition assemble (par : cls) (name : string) (v : bytes) (a : bool)
             (cs : list node) (ks : list (list item)) : list item :=
    match par, ks with
    | CBin id, [k1; k2] => k1 ++ kw id :: k2
    | CPre id, [k1] => kw id :: k1
    | CAtom id, [] =>
      [T id (if has_value id then v else [])
         (if Nat.eqb id TokenSTRING then strk v a else false)]
    | _, _ => assemble_special semi name v cs ks
    end.

  Fixpoint pp_gen (n : node) : list item :=
    match n with
    | Node name v i a ln cs =>
      let par := classify_nc name (length cs) in
      let ks :=
          (fix go (idx : nat) (l : list node) {struct l} : list (list item) :=
             match l with
             | [] => []
             | c :: r =>
               (if needsf par idx c
                then kw TokenLPAREN :: pp_gen c ++ [kw TokenRPAREN]
                else pp_gen c) :: go (S idx) r
             end) 0 cs in
      assemble par name v a cs ks
    end.
End Style.

(* the repaired printer and a faithful model of the bracket / string rules before the repair *)
Definition pp : node -> list item := pp_gen needs str_allow true.
Definition pp_old : node -> list item := pp_gen needs_old str_allow_old false.
(* the repaired bracket / string rules without the statement separator (before C08-5) *)
Definition pp_nosemi : node -> list item := pp_gen needs str_allow false.

(* ---------------------------------------------------------------------------------- *)
(* The parser on expressions: parser.run with ndTerm / ndIdentifier (plain identifier) /
   ndPrefix / ndInner and ldInfix.  All tokens are taken to be on one line, so a token with a
   binding above the right binding that has no left denotation is an error.  Anything else
   (statements, lists, access chains) is outside this model: None. *)

Definition leaf (id : nat) (v : bytes) (a : bool) : node :=
  Node (name_of id) (if has_value id then v else []) (Nat.eqb id TokenIDENTIFIER)
       (if Nat.eqb id TokenSTRING then a else false) 0 [].
Definition mk (id : nat) (kids : list node) : node := Node (name_of id) [] false false 0 kids.

Definition starts_access (id : nat) : bool :=
  Nat.eqb id TokenDOT || Nat.eqb id TokenLPAREN || Nat.eqb id TokenLBRACK.

Fixpoint run (f : nat) (rb : nat) (ts : list item) {struct f} : option (node * list item) :=
  match f with
  | O => None
  | S f' =>
    match ts with
    | T id v a :: ts1 =>
      if is_term id then loop f' rb (leaf id v a) ts1
      else if is_ident id then
        match ts1 with
        | T id2 _ _ :: _ => if starts_access id2 then None else loop f' rb (leaf id v a) ts1
        | _ => loop f' rb (leaf id v a) ts1
        end
      else if is_prefix id then
        match run f' (binding id + 20) ts1 with
        | Some (x, ts2) => loop f' rb (mk id [x]) ts2
        | None => None
        end
      else if is_inner id then
        match run f' 0 ts1 with
        | Some (x, T id2 _ _ :: ts2) => if Nat.eqb id2 TokenRPAREN then loop f' rb x ts2 else None
        | _ => None
        end
      else None
    | _ => None
    end
  end
with loop (f : nat) (rb : nat) (left : node) (ts : list item) {struct f} : option (node * list item) :=
  match f with
  | O => None
  | S f' =>
    match ts with
    | T id v a :: ts1 =>
      if rb <? binding id then
        if is_infix id then
          match run f' (binding id) ts1 with
          | Some (r, ts2) => loop f' rb (mk id [left; r]) ts2
          | None => None
          end
        else None
      else Some (left, ts)
    | _ => Some (left, ts)
    end
  end.

Definition eof : item := T TokenEOF [] false.

(* parse a complete expression; the fuel |ts| + 2 is proved sufficient in PrinterProofs.v *)
Definition parse_expr (ts : list item) : option node :=
  match run (length ts + 2) 0 (ts ++ [eof]) with
  | Some (t, [T id _ _]) => if Nat.eqb id TokenEOF then Some t else None
  | _ => None
  end.

(* what the parser can keep of a tree: no positions, values only where the token has one *)
Fixpoint erase (n : node) : node :=
  match n with
  | Node name v i a ln cs =>
    match classify_nc name (length cs) with
    | CAtom id => Node name (if has_value id then v else []) (Nat.eqb id TokenIDENTIFIER)
                       (if Nat.eqb id TokenSTRING then a else false) 0 []
    | _ => Node name [] false false 0 (map erase cs)
    end
  end.

(* ---------------------------------------------------------------------------------- *)
(* String literals at byte level: ppStringLiteral / strconv.Quote on the modelled alphabet
   and the repaired lexValue / strconv.Unquote reading them back *)

Definition esc_byte (b : N) : bytes :=
  if N.eqb b 34 then [92; 34]%N
  else if N.eqb b 92 then [92; 92]%N
  else if N.eqb b 10 then [92; 110]%N
  else if N.eqb b 9 then [92; 116]%N
  else [b].

Definition quote (v : bytes) : bytes := 34%N :: flat_map esc_byte v ++ [34%N].

(* printable ASCII, newline, tab, and the bytes of multi-byte runes *)
Definition in_alphabet (b : N) : bool :=
  (N.leb 32 b && N.leb b 126) || N.eqb b 10 || N.eqb b 9 || (N.leb 128 b && N.leb b 255).

Definition print_literal (allow : bool) (v : bytes) : bytes :=
  if allow then quote v
  else if raw_dq_ok v then 114%N :: 34%N :: v ++ [34%N]
  else if raw_sq_ok v then 114%N :: 39%N :: v ++ [39%N]
  else quote v.

(* raw scan: up to the first end quote *)
Fixpoint scan_raw (q : N) (s : bytes) : option (bytes * bytes) :=
  match s with
  | [] => None
  | b :: r => if N.eqb b q then Some ([], r)
              else match scan_raw q r with Some (v, rest) => Some (b :: v, rest) | None => None end
  end.

(* escaped scan after the repair: a quote ends the literal unless it is escaped by a
   backslash that is not itself escaped *)
Fixpoint scan_esc (q : N) (escaped : bool) (s : bytes) : option (bytes * bytes) :=
  match s with
  | [] => None
  | b :: r =>
    if N.eqb b q && negb escaped then Some ([], r)
    else match scan_esc q (negb escaped && N.eqb b 92) r with
         | Some (v, rest) => Some (b :: v, rest)
         | None => None
         end
  end.

(* escaped scan before the repair: only the previous byte is looked at *)
Fixpoint scan_esc_old (q : N) (prev : N) (s : bytes) : option (bytes * bytes) :=
  match s with
  | [] => None
  | b :: r =>
    if N.eqb b q && negb (N.eqb prev 92) then Some ([], r)
    else match scan_esc_old q b r with
         | Some (v, rest) => Some (b :: v, rest)
         | None => None
         end
  end.

(* strconv.Unquote of "body" for the escapes the printer emits (others: None) *)
Fixpoint unquote (fuel : nat) (s : bytes) : option bytes :=
  match fuel with
  | O => None
  | S f =>
    match s with
    | [] => Some []
    | b :: r =>
      if N.eqb b 92 then
        match r with
        | c :: r' =>
          let out := if N.eqb c 110 then Some 10%N else if N.eqb c 116 then Some 9%N
                     else if N.eqb c 34 then Some 34%N else if N.eqb c 92 then Some 92%N
                     else None in
          match out, unquote f r' with
          | Some x, Some v => Some (x :: v)
          | _, _ => None
          end
        | [] => None
        end
      else if N.eqb b 34 || N.eqb b 10 then None
      else match unquote f r with Some v => Some (b :: v) | None => None end
    end
  end.

Fixpoint escape_dq (s : bytes) : bytes :=
  match s with
  | [] => []
  | b :: r => if N.eqb b 34 then 92%N :: 34%N :: escape_dq r else b :: escape_dq r
  end.

Section Lex.
  Variable scan : N -> bytes -> option (bytes * bytes).   (* the escaped scan in use *)

  (* lexValue: Some (Token.Val, Token.AllowEscapes, remaining input) or None (lexical error) *)
  Definition lex_literal_gen (s : bytes) : option (bytes * bool * bytes) :=
    match s with
    | b :: r =>
      if N.eqb b 114 then
        match r with
        | q :: r' => if N.eqb q 34 || N.eqb q 39
                     then match scan_raw q r' with
                          | Some (v, rest) => Some (v, false, rest)
                          | None => None
                          end
                     else None
        | [] => None
        end
      else if N.eqb b 34 || N.eqb b 39 then
        match scan b r with
        | Some (body, rest) =>
          let body' := if N.eqb b 39 then escape_dq body else body in
          match unquote (S (length body')) body' with
          | Some v => Some (v, true, rest)
          | None => None
          end
        | None => None
        end
      else None
    | [] => None
    end.
End Lex.

Definition lex_literal : bytes -> option (bytes * bool * bytes) :=
  lex_literal_gen (fun q => scan_esc q false).
Definition lex_literal_old : bytes -> option (bytes * bool * bytes) :=
  lex_literal_gen (fun q => scan_esc_old q 32).
