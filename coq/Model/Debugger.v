(* Model/Debugger.v — the ECAL debugger of interpreter/debug.go as far as property C15 needs it.
   No proofs in this file.

   Part A — the suspend / continue protocol (REPAIRED code, [proto_new]; the code before the
   repair is the same system with three regions changed, [proto_old]).  One model step per
   lock-delimited region of the Go code:

     thread (VisitState / VisitStepOutState), when it decided to suspend
        ed.lock.Lock(); ed.interrogationStates[tid] = is (running=false); ed.lock.Unlock()
            or, when already interrogated:  is.node = node; is.running = false   -- LSuspend  -> PReg
        verifhook.At("debug.suspend", tid)                                        (pc = PReg)
        is.cond.L.Lock()                                                          -- LThread: PReg -> PHold
        for !is.running { is.cond.Wait() }       check + Wait (releases L)        -- LThread: PHold -> PWait | PRun
                                                 woken: re-acquire L, check again -- LThread: PWoken -> PHold
        is.cond.L.Unlock(); verifhook.At("debug.resumed", tid)                    (pc = PRun, resumed+1)
        before the repair:  L.Lock(); Wait(); L.Unlock()  — no check at all:
                                                 PHold -> PWait always, PWoken -> PRun

     Continue(tid, k)    ed.lock.RLock() ... defer RUnlock
        if is, ok := ed.interrogationStates[tid]; ok && !is.running {             -- LContBegin (check)
           is.cond.L.Lock(); cmd := k (+ step-out stack); running = true;
           Broadcast(); L.Unlock() }                                              -- LContFinish (one region under L)
        before the repair: cmd and running=true were written in the first region, without L,
        the second region only broadcast.

     StopThreads         for every is: L.Lock(); if !running {cmd=Kill; running=true; Broadcast()}; L.Unlock()
                                                                                  -- LStopOne t (one region under L)
     breakpoint edits    under ed.lock                                            -- LBreak

   The condition's lock L of a thread is held by the thread exactly while pc = PHold; the
   command regions under L are atomic steps that are enabled only when pc <> PHold.
   sync.Cond: Broadcast wakes every goroutine that is inside Wait at that moment (PWait ->
   PWoken) and nobody else — a broadcast with no waiter is lost.
   ed.lock is a RWMutex: Continue holds the read lock from its check to its end, so the
   regions that need the write lock (registering a new interrogation state, deleting one)
   are not enabled while a Continue is in flight.

   Part B — the decision of VisitState / VisitStepInState / VisitStepOutState whether the
   calling thread suspends ([handle]).
   Part C — a program instrumented with the debugger ([cstep]): every program step is
   gated by the debugger (the thread must not be suspended) and lets the debugger observe
   the program state; debugger steps never write program state. *)
From Coq Require Export List Arith Bool.
From Ecal Require Export Common.Sched.
Export ListNotations.

(* ------------------------------------------------------------------------------------ *)
(* interrogation commands (debug.go) and continue types (util.ContType) *)
Inductive icmd := CStop | CStepIn | CStepOut | CStepOver | CResume | CKill.
Inductive ctype := KResume | KStepIn | KStepOver | KStepOut.

Definition icmd_eqb (a b : icmd) : bool :=
  match a, b with
  | CStop, CStop | CStepIn, CStepIn | CStepOut, CStepOut | CStepOver, CStepOver
  | CResume, CResume | CKill, CKill => true
  | _, _ => false
  end.

(* the switch of Continue: the command and the step-out target depth
   (stack[:len(stack)-1]; at depth 0 that slice expression panics in the unrepaired code —
   property C16; the C16 repair turns it into a Resume, which is what is modelled) *)
Definition cont_cmd (k : ctype) (depth sodepth : nat) : icmd * nat :=
  match k with
  | KResume => (CResume, sodepth)
  | KStepIn => (CStepIn, sodepth)
  | KStepOver => (CStepOver, sodepth)
  | KStepOut => match depth with O => (CResume, sodepth) | S d => (CStepOut, d) end
  end.

(* ------------------------------------------------------------------------------------ *)
(* Part A: protocol *)

Inductive pc :=
| PRun      (* executing the program (not inside a suspension) *)
| PReg      (* reported as suspended: registered / running=false, L not yet taken ("debug.suspend") *)
| PHold     (* holding cond.L, in front of the check / Wait *)
| PWait     (* inside cond.Wait, L released *)
| PWoken    (* notified, has to re-acquire L *)
| PDead.    (* runtime.Goexit after a Kill *)

Definition pc_eqb (a b : pc) : bool :=
  match a, b with
  | PRun, PRun | PReg, PReg | PHold, PHold | PWait, PWait | PWoken, PWoken | PDead, PDead => true
  | _, _ => false
  end.

Record thr := mkThr {
  t_pc : pc;
  t_reg : bool;        (* ed.interrogationStates[tid] exists *)
  t_running : bool;    (* is.running (true when there is no interrogation state) *)
  t_cmd : icmd;        (* is.cmd *)
  t_line : nat;        (* line of is.node *)
  t_depth : nat;       (* len(ed.callStacks[tid]) *)
  t_sodepth : nat;     (* len(is.stepOutStack) *)
  t_resumed : nat      (* number of suspensions the thread has left *)
}.

Definition thr0 : thr := mkThr PRun false true CStop 0 0 0 0.

Record dstate := mkD {
  threads : nat -> thr;
  inflight : list (nat * ctype);        (* Continue calls between their two regions *)
  bps : list (nat * bool)               (* ed.breakPoints: line -> active *)
}.

Definition dinit : dstate := mkD (fun _ => thr0) [] [].

Definition upd (f : nat -> thr) (t : nat) (v : thr) : nat -> thr :=
  fun x => if Nat.eqb x t then v else f x.

Inductive label :=
| LSuspend (t line : nat)            (* thread t decides to suspend at a node of this line *)
| LThread (t : nat)                  (* thread t: next region of the wait *)
| LUnreg (t : nat)                   (* thread t, cmd Resume/Kill, reached another line: deletes its state *)
| LCall (t : nat) | LRet (t : nat)   (* call stack push / pop (VisitStepIn/OutState) *)
| LContBegin (t : nat) (k : ctype)
| LContFinish (i : nat)              (* the i-th Continue in flight executes its region under L *)
| LStopOne (t : nat)
| LBreak (line : nat) (b : option bool).   (* Some true: set, Some false: disable, None: remove *)

Definition broadcast (p : pc) : pc := match p with PWait => PWoken | _ => p end.

Fixpoint remove_nth {A} (i : nat) (l : list A) : list A :=
  match l, i with
  | [], _ => []
  | _ :: r, O => r
  | x :: r, S j => x :: remove_nth j r
  end.

(* a Go map: one entry per line *)
Definition bp_set (l : nat) (b : option bool) (m : list (nat * bool)) : list (nat * bool) :=
  let rest := filter (fun e => negb (Nat.eqb (fst e) l)) m in
  match b with Some v => (l, v) :: rest | None => rest end.

Fixpoint bp_active (m : list (nat * bool)) (l : nat) : bool :=
  match m with
  | [] => false
  | (k, v) :: r => if Nat.eqb k l then v else bp_active r l
  end.

Definition is_nil {A} (l : list A) : bool := match l with [] => true | _ => false end.

Section Proto.
  Variable old : bool.     (* true: the protocol before the repair *)

  Definition thread_region (th : thr) : option thr :=
    match t_pc th with
    | PReg => Some (mkThr PHold (t_reg th) (t_running th) (t_cmd th) (t_line th) (t_depth th) (t_sodepth th) (t_resumed th))
    | PHold =>
        if negb old && t_running th
        then Some (mkThr PRun (t_reg th) (t_running th) (t_cmd th) (t_line th) (t_depth th) (t_sodepth th) (S (t_resumed th)))
        else Some (mkThr PWait (t_reg th) (t_running th) (t_cmd th) (t_line th) (t_depth th) (t_sodepth th) (t_resumed th))
    | PWoken =>
        if old
        then Some (mkThr PRun (t_reg th) (t_running th) (t_cmd th) (t_line th) (t_depth th) (t_sodepth th) (S (t_resumed th)))
        else Some (mkThr PHold (t_reg th) (t_running th) (t_cmd th) (t_line th) (t_depth th) (t_sodepth th) (t_resumed th))
    | PRun | PWait | PDead => None
    end.

  (* the writes of Continue to the interrogation state *)
  Definition cont_write (k : ctype) (th : thr) : thr :=
    let cs := cont_cmd k (t_depth th) (t_sodepth th) in
    mkThr (t_pc th) (t_reg th) true (fst cs) (t_line th) (t_depth th) (snd cs) (t_resumed th).

  Definition wake (th : thr) : thr :=
    mkThr (broadcast (t_pc th)) (t_reg th) (t_running th) (t_cmd th) (t_line th) (t_depth th) (t_sodepth th) (t_resumed th).

  Definition pstep (s : dstate) (l : label) : option dstate :=
    match l with
    | LSuspend t line =>
        let th := threads s t in
        match t_pc th with
        | PRun =>
            if t_reg th
            then Some (mkD (upd (threads s) t (mkThr PReg true false (t_cmd th) line (t_depth th) (t_sodepth th) (t_resumed th)))
                           (inflight s) (bps s))
            else if is_nil (inflight s)       (* registering needs the write lock *)
            then Some (mkD (upd (threads s) t (mkThr PReg true false CStop line (t_depth th) 0 (t_resumed th)))
                           (inflight s) (bps s))
            else None
        | _ => None
        end
    | LThread t =>
        match thread_region (threads s t) with
        | Some th' => Some (mkD (upd (threads s) t th') (inflight s) (bps s))
        | None => None
        end
    | LUnreg t =>
        let th := threads s t in
        match t_pc th with
        | PRun =>
            if t_reg th && is_nil (inflight s) && (icmd_eqb (t_cmd th) CResume || icmd_eqb (t_cmd th) CKill)
            then Some (mkD (upd (threads s) t
                             (mkThr (if icmd_eqb (t_cmd th) CKill then PDead else PRun) false true CStop 0
                                    (t_depth th) 0 (t_resumed th)))
                           (inflight s) (bps s))
            else None
        | _ => None
        end
    | LCall t =>
        let th := threads s t in
        match t_pc th with
        | PRun => Some (mkD (upd (threads s) t (mkThr PRun (t_reg th) (t_running th) (t_cmd th) (t_line th) (S (t_depth th)) (t_sodepth th) (t_resumed th)))
                            (inflight s) (bps s))
        | _ => None
        end
    | LRet t =>
        let th := threads s t in
        match t_pc th, t_depth th with
        | PRun, S d => Some (mkD (upd (threads s) t (mkThr PRun (t_reg th) (t_running th) (t_cmd th) (t_line th) d (t_sodepth th) (t_resumed th)))
                                 (inflight s) (bps s))
        | _, _ => None
        end
    | LContBegin t k =>
        let th := threads s t in
        if t_reg th && negb (t_running th)
        then Some (mkD (if old then upd (threads s) t (cont_write k th) else threads s)
                       (inflight s ++ [(t, k)]) (bps s))
        else Some s                                  (* the command does nothing *)
    | LContFinish i =>
        match nth_error (inflight s) i with
        | Some (t, k) =>
            let th := threads s t in
            if pc_eqb (t_pc th) PHold then None      (* L is held by the thread *)
            else Some (mkD (upd (threads s) t (wake (if old then th else cont_write k th)))
                           (remove_nth i (inflight s)) (bps s))
        | None => None
        end
    | LStopOne t =>
        let th := threads s t in
        if pc_eqb (t_pc th) PHold then None
        else if t_reg th && negb (t_running th)
        then Some (mkD (upd (threads s) t
                         (wake (mkThr (t_pc th) (t_reg th) true CKill (t_line th) (t_depth th) (t_sodepth th) (t_resumed th))))
                       (inflight s) (bps s))
        else Some s
    | LBreak line b => Some (mkD (threads s) (inflight s) (bp_set line b (bps s)))
    end.
End Proto.

Definition proto_new := pstep false.
Definition proto_old := pstep true.

(* what Status() reports as suspended *)
Definition reported_suspended (s : dstate) (t : nat) : bool :=
  t_reg (threads s t) && negb (t_running (threads s t)).

(* the thread is parked and nothing it can do by itself gets it out *)
Definition lost (s : dstate) (t : nat) : bool :=
  pc_eqb (t_pc (threads s t)) PWait && t_running (threads s t).

(* ------------------------------------------------------------------------------------ *)
(* Part B: does a visit suspend the thread? *)

Record istate := mkIs {
  i_cmd : icmd;
  i_line : nat;        (* line of is.node *)
  i_sodepth : nat;     (* len(is.stepOutStack) *)
  i_err : bool         (* is.err != nil *)
}.

Record dthr := mkDt {
  d_is : option istate;
  d_depth : nat;       (* len(callStacks[tid]) *)
  d_pos : nat          (* ghost: line the thread is at = line of the last visited node, or of the node
                          the debugger recorded last in is.node (suspension, error return) *)
}.

Record denv := mkEnv {
  e_bps : list (nat * bool);
  e_bos : bool;        (* breakOnStart *)
  e_boe : bool         (* breakOnError *)
}.

Inductive event :=
| EVisit (line : nat)                    (* VisitState on a node with a token *)
| EStepIn (line : nat)                   (* VisitStepInState, call node on this line *)
| EStepOut (line : nat) (err : bool).    (* VisitStepOutState, did the function return an error *)

(* Continue on a suspended thread *)
Definition apply_cont (k : ctype) (depth : nat) (i : istate) : istate :=
  let cs := cont_cmd k depth (i_sodepth i) in mkIs (fst cs) (i_line i) (snd cs) (i_err i).

(* VisitState.  Result: environment, interrogation state, did the thread suspend.
   k is the continue command that ends the suspension (used only if it suspends). *)
Definition visit_state (e : denv) (depth : nat) (o : option istate) (line : nat) (k : ctype)
  : denv * option istate * bool :=
  let fresh (e : denv) :=
    if bp_active (e_bps e) line || e_bos e
    then (mkEnv (e_bps e) false (e_boe e), Some (apply_cont k depth (mkIs CStop line 0 false)), true)
    else (e, None, false) in
  match o with
  | None => fresh e
  | Some i =>
      match i_cmd i with
      | CResume | CKill =>
          if negb (Nat.eqb (i_line i) line) then fresh e      (* state deleted, node visited again *)
          else (e, Some i, false)
      | CStop | CStepIn | CStepOver =>
          if negb (Nat.eqb (i_line i) line) || icmd_eqb (i_cmd i) CStop
          then (e, Some (apply_cont k depth (mkIs (i_cmd i) line (i_sodepth i) (i_err i))), true)
          else (e, Some i, false)
      | CStepOut => (e, Some i, false)
      end
  end.

Definition handle (e : denv) (d : dthr) (ev : event) (k : ctype) : denv * dthr * bool :=
  match ev with
  | EVisit line =>
      let '(e', o', s) := visit_state e (d_depth d) (d_is d) line k in
      (e', mkDt o' (d_depth d) line, s)
  | EStepIn line =>
      match d_is d with
      | None => (e, mkDt None (S (d_depth d)) (d_pos d), false)
      | Some i =>
          let '(e', o', s) :=
            if icmd_eqb (i_cmd i) CStop then visit_state e (d_depth d) (Some i) line k
            else (e, Some i, false) in
          let o'' := match o' with
                     | Some j => match i_cmd j with
                                 | CStepIn => Some (mkIs CStop (i_line j) (i_sodepth j) (i_err j))
                                 | CStepOver => Some (mkIs CStepOut (i_line j) (d_depth d) (i_err j))
                                 | _ => Some j
                                 end
                     | None => None
                     end in
          (e', mkDt o'' (S (d_depth d)) (if s then line else d_pos d), s)
      end
  | EStepOut line err =>
      let depth' := pred (d_depth d) in
      if e_boe e && err then
        match d_is d with
        | None => (mkEnv (e_bps e) false (e_boe e),
                   mkDt (Some (apply_cont k depth' (mkIs CStop line 0 true))) depth' line, true)
        | Some i =>
            if i_err i then (e, mkDt (Some (mkIs (i_cmd i) line (i_sodepth i) true)) depth' line, false)
            else (e, mkDt (Some (apply_cont k depth' (mkIs (i_cmd i) line (i_sodepth i) true))) depth' line, true)
        end
      else
        match d_is d with
        | None => (e, mkDt None depth' (d_pos d), false)
        | Some i =>
            let c := match i_cmd i with
                     | CStepOver | CStepOut => if Nat.eqb depth' (i_sodepth i) then CStop else i_cmd i
                     | c => c
                     end in
            (e, mkDt (Some (mkIs c (i_line i) (i_sodepth i) err)) depth' (d_pos d), false)
        end
  end.

(* a whole thread: events, the breakpoint edits + continue command used at each suspension;
   result = indices of the events at which the thread suspended *)
Definition edit := (nat * option bool)%type.

Fixpoint apply_edits (m : list (nat * bool)) (es : list edit) : list (nat * bool) :=
  match es with
  | [] => m
  | (l, b) :: r => apply_edits (bp_set l b m) r
  end.

Fixpoint run_events (e : denv) (d : dthr) (evs : list event) (cmds : list (list edit * ctype)) (idx : nat)
  : list nat :=
  match evs with
  | [] => []
  | ev :: rest =>
      let k := match cmds with (_, k) :: _ => k | [] => KResume end in
      let '(e', d', s) := handle e d ev k in
      if s then
        match cmds with
        | (eds, _) :: cmds' =>
            idx :: run_events (mkEnv (apply_edits (e_bps e') eds) (e_bos e') (e_boe e')) d' rest cmds' (S idx)
        | [] => idx :: run_events e' d' rest [] (S idx)
        end
      else run_events e' d' rest cmds (S idx)
  end.

Definition dthr0 : dthr := mkDt None 0 0.

(* ------------------------------------------------------------------------------------ *)
(* Part C: a program under the debugger.  Program state P with a step function per thread
   (None: that thread cannot step); debugger state D; [gate d t]: thread t is not held by
   the debugger; [observe]: what the debugger does with its own state at a node evaluation
   of thread t (it may read the program state); [dbg]: every other debugger transition
   (wait regions, commands, breakpoint edits). *)
Section Instrumented.
  Variables (P D L : Type).
  Variable prog : P -> nat -> option P.
  Variable gate : D -> nat -> bool.
  Variable observe : D -> P -> nat -> D.
  Variable dbg : D -> L -> option D.

  Inductive clabel := CProg (t : nat) | CDbg (l : L).

  Definition cstep (s : P * D) (l : clabel) : option (P * D) :=
    match l with
    | CProg t =>
        if gate (snd s) t then
          match prog (fst s) t with
          | Some p' => Some (p', observe (snd s) (fst s) t)
          | None => None
          end
        else None
    | CDbg dl =>
        match dbg (snd s) dl with
        | Some d' => Some (fst s, d')
        | None => None
        end
    end.

  Fixpoint erase (sched : list clabel) : list nat :=
    match sched with
    | [] => []
    | CProg t :: r => t :: erase r
    | CDbg _ :: r => erase r
    end.
End Instrumented.
Arguments CProg {L} t.
Arguments CDbg {L} l.
Arguments cstep {P D L} prog gate observe dbg s l.
Arguments erase {L} sched.
