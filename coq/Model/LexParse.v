(* Model/LexParse.v — the composition parser.Parse(name, input) = ParseWithRuntime over the
   tokens of Lex(name, input): the lexer model (Model/Lexer.v, property C18) feeding the parser
   model (Model/Parser.v, property C07).

   The two models were built independently and use different token records.  [to_ptok] maps a
   lexer token (Lexer.token, all eight LexToken fields) to the token the parser model reads
   (Parser.tok), field by field:

     ID              Lexer.t_id            -> Parser.t_id        unchanged
     Val             Lexer.t_val           -> Parser.t_val       unchanged, EXCEPT for TokenError,
                                                                 TokenPRECOMMENT, TokenPOSTCOMMENT: []
     Identifier      Lexer.t_ident  \
     AllowEscapes    Lexer.t_esc    /      -> Parser.t_flags     1 * Identifier + 2 * AllowEscapes
     Lline           Lexer.t_line : Z      -> Parser.t_line : nat   Z.to_nat (the lexer's line is
                                                                 line + 1 >= 1: no loss; proved for
                                                                 every token, EOF included:
                                                                 stream_lines_kept, Proofs/
                                                                 LexParseLines.v LexParseProofs.v)
     Lpos            Lexer.t_col  : Z      -> Parser.t_pos : Z   unchanged (the COLUMN; can be <= 0
                                                                 on the EOF token)
     Pos             Lexer.t_pos (byte offset)    dropped \  ParseWithRuntime reads neither: Pos only
     PrefixNewlines  Lexer.t_pnl                  dropped /  reaches ASTNode.ToJSON, PrefixNewlines
                                                             only the pretty printer (C08)

   The value of the three kinds of token whose text the parser never turns into a node:
     - an error token: Go's Val is the message text; Lexer.v keeps a one-byte error CLASS there
       (ErrIdentifier, ...); Parser.v's [next] looks at the ID only, returns ErrLexicalError at
       the token's line/column and builds no node from it.  Message text is not an observable
       of C07 (HOWTO: error classes and positions, not texts), so the value is dropped: [];
     - comment tokens: [next] skips them (their text only goes to Meta, which Parser.v does
       not model); dropped as well: [].
   This is exactly the projection harness/c07.go applies to the REAL token list (c07tok), so
   [map to_ptok ts] can be compared with it literally (Run/RunC07Lex.v does).

   No proofs in this file. *)
From Coq Require Import List Bool Arith ZArith.
From Ecal Require Import Common.Bytes Common.Outcome.
From Ecal Require Model.Lexer Model.Parser.
Import ListNotations.

(* the parser never reads the text of these *)
Definition val_dropped (id : nat) : bool :=
  (id =? Lexer.TokenError)%nat || (id =? Lexer.TokenPRECOMMENT)%nat || (id =? Lexer.TokenPOSTCOMMENT)%nat.

Definition flags_of (ident esc : bool) : nat :=
  ((if ident then 1 else 0) + (if esc then 2 else 0))%nat.

Definition to_ptok (t : Lexer.token) : Parser.tok :=
  Parser.T (Lexer.t_id t)
           (if val_dropped (Lexer.t_id t) then [] else Lexer.t_val t)
           (flags_of (Lexer.t_ident t) (Lexer.t_esc t))
           (Z.to_nat (Lexer.t_line t))
           (Lexer.t_col t).

(* what the parser's channel carries for a source text *)
Definition source_tokens (ts : list Lexer.token) : list Parser.tok := map to_ptok ts.

(* parser.Parse(name, input) with rp = nil, the code as it is in /repo (lexer: unchanged
   variant, parser: repaired variant = the code in /repo after the fix: commits), with the
   nesting fuel C07_parser_terminates proves sufficient ([Parser.parse] = parse_with repaired
   (|tokens| + 5)).  A lexer panic / fuel exhaustion is passed on; C18_lexer_terminates
   excludes both. *)
Definition parse_source (input : bytes) : outcome Parser.presult :=
  match Lexer.lex input with
  | Ok ts => Ok (Parser.parse (source_tokens ts))
  | Err e => Err e
  | Panic s => Panic s
  | OutOfFuel => OutOfFuel
  end.
