(* Model/Pool.v — the thread pool of engine/pool/threadpool.go as a labelled transition
   system for Common/Sched.v.

   The atomic steps are the lock-delimited regions of the (repaired) Go code; the labels
   are the events the verif hooks report from INSIDE these regions, so the same [step]
   function (a) defines the reachable states the theorems of Props/C09.v quantify over
   (every schedule, any number of workers / AddTask callers / tasks / resize calls) and
   (b) validates traces recorded on the running implementation (Run/RunC09.v).

   Threads:
     worker w      ThreadPoolWorker.run / getTask / idleTask.Run
     adder a       one call of AddTask
     env e         one call (or one wake-up) of SetWorkerCount / WaitAll / JoinAll

   Condition variable newTaskCond: [holder] is who owns newTaskCond.L, [tokens] counts
   wake-ups that were sent to goroutines inside Wait and are not yet consumed.  Signal adds
   one token unless every waiting worker already has one, Broadcast gives every waiting
   worker one; ANY waiting worker may consume a token (sync.Cond wakes in FIFO order; the
   model allows every order).  [tokens <= number of Waiting workers] is an invariant.

   The second half of the file is the protocol BEFORE the repair (signal without L, wait
   without re-check) reduced to the steps that matter, for the refutation witness. *)
From Coq Require Import List ZArith Bool Arith.
Import ListNotations.
Open Scope nat_scope.

(* ---------------------------------------------------------------- association lists *)

Definition b2n (b : bool) : nat := if b then 1 else 0.

Fixpoint lookup {A} (k : nat) (l : list (nat * A)) : option A :=
  match l with
  | [] => None
  | (k', v) :: r => if Nat.eqb k k' then Some v else lookup k r
  end.

Fixpoint update {A} (k : nat) (v : A) (l : list (nat * A)) : list (nat * A) :=
  match l with
  | [] => []
  | (k', v') :: r => if Nat.eqb k k' then (k', v) :: r else (k', v') :: update k v r
  end.

Fixpoint remove_key {A} (k : nat) (l : list (nat * A)) : list (nat * A) :=
  match l with
  | [] => []
  | (k', v') :: r => if Nat.eqb k k' then r else (k', v') :: remove_key k r
  end.

Fixpoint cnt {A} (p : A -> bool) (l : list (nat * A)) : nat :=
  match l with
  | [] => 0
  | (_, v) :: r => b2n (p v) + cnt p r
  end.

Fixpoint remove_first (t : nat) (q : list nat) : list nat :=
  match q with
  | [] => []
  | x :: r => if Nat.eqb t x then r else x :: remove_first t r
  end.

Fixpoint mem (t : nat) (q : list nat) : bool :=
  match q with
  | [] => false
  | x :: r => if Nat.eqb t x then true else mem t r
  end.

(* ---------------------------------------------------------------- state *)

Definition wid := nat.
Definition aid := nat.
Definition eid := nat.
Definition task := nat.

Inductive thread := TW (w : wid) | TA (a : aid) | TE (e : eid).

(* program counter of a worker: where it is between two lock regions *)
Inductive wpc :=
| Head                      (* loop head of run(): about to call getTask *)
| AfterKill (noidle : bool) (* getTask: workerKill was 0 (false) or -1 (true); before Pop *)
| PoppedNil                 (* Pop returned nil, idle task chosen; not yet registered idle *)
| IdleReg                   (* in workerIdleMap; idleTask.Run not yet holding L *)
| HoldL0                    (* holds L, before the re-check of workerKill *)
| KillRead0                 (* holds L, read workerKill = 0 *)
| DecidedWait               (* holds L, read queue size 0: will call Wait *)
| Waiting                   (* inside Wait: on the notify list, L released *)
| WokenNeedL                (* woken, re-acquiring L inside Wait *)
| HoldL2                    (* holds L, idleTask.Run is returning (deferred Unlock) *)
| AfterIdle                 (* L released, still in workerIdleMap *)
| Running (t : task)        (* popped task t, running it *)
| Exiting.                  (* getTask returned nil: deferred removal from workerMap pending *)
(* an exited worker is removed from the worker list *)

Inductive apc := APushed | AHoldL | ASignalled.          (* AddTask after Push *)
Inductive epc := EPending | EHoldL (pending : bool) | EHeld.
(* EPending: workerKill was set, the wake-up owed for it not yet sent;
   EHoldL p: inside wakeWorkers holding L, before Broadcast (p: it is the owed one);
   EHeld: after Broadcast, still holding L *)

Record state := mkState {
  queue : list task;
  kill : Z;
  holder : option thread;
  tokens : nat;
  workers : list (wid * wpc);
  adders : list (aid * apc);
  envs : list (eid * epc);
  added : list task;          (* history: every task ever pushed *)
  done : list task            (* history: every task whose Run was executed *)
}.

Definition init : state := mkState [] 0%Z None 0 [] [] [] [] [].

Definition set_queue s q := mkState q (kill s) (holder s) (tokens s) (workers s) (adders s) (envs s) (added s) (done s).
Definition set_kill s k := mkState (queue s) k (holder s) (tokens s) (workers s) (adders s) (envs s) (added s) (done s).
Definition set_holder s h := mkState (queue s) (kill s) h (tokens s) (workers s) (adders s) (envs s) (added s) (done s).
Definition set_tokens s n := mkState (queue s) (kill s) (holder s) n (workers s) (adders s) (envs s) (added s) (done s).
Definition set_workers s w := mkState (queue s) (kill s) (holder s) (tokens s) w (adders s) (envs s) (added s) (done s).
Definition set_adders s a := mkState (queue s) (kill s) (holder s) (tokens s) (workers s) a (envs s) (added s) (done s).
Definition set_envs s e := mkState (queue s) (kill s) (holder s) (tokens s) (workers s) (adders s) e (added s) (done s).
Definition set_added s a := mkState (queue s) (kill s) (holder s) (tokens s) (workers s) (adders s) (envs s) a (done s).
Definition set_done s d := mkState (queue s) (kill s) (holder s) (tokens s) (workers s) (adders s) (envs s) (added s) d.

(* classes of program counters *)
Definition isW (p : wpc) := match p with Waiting => true | _ => false end.
Definition isDW (p : wpc) := match p with DecidedWait => true | _ => false end.
Definition isKR (p : wpc) := match p with KillRead0 => true | _ => false end.
Definition isLo (p : wpc) := match p with HoldL0 | HoldL2 => true | _ => false end.
Definition isEx (p : wpc) := match p with Exiting => true | _ => false end.
Definition isRun (p : wpc) := match p with Running _ => true | _ => false end.
Definition isIdle (p : wpc) :=
  match p with
  | IdleReg | HoldL0 | KillRead0 | DecidedWait | Waiting | WokenNeedL | HoldL2 | AfterIdle => true
  | _ => false
  end.
(* a worker that will look at the queue / kill count again without being woken *)
Definition isGood (p : wpc) :=
  match p with DecidedWait | Waiting | Exiting => false | _ => true end.

Definition isAp (p : apc) := match p with APushed | AHoldL => true | _ => false end.   (* signal owed *)
Definition isAL (p : apc) := match p with AHoldL | ASignalled => true | _ => false end. (* holds L *)
Definition isEp (p : epc) := match p with EPending | EHoldL true => true | _ => false end. (* broadcast owed *)
Definition isEL (p : epc) := match p with EHoldL _ | EHeld => true | _ => false end.   (* holds L *)

Definition running (ws : list (wid * wpc)) : list task :=
  flat_map (fun x => match snd x with Running t => [t] | _ => [] end) ws.

(* ---------------------------------------------------------------- labels = observed events *)

Inductive label :=
(* SetWorkerCount / WaitAll / JoinAll *)
| LSpawn (e : eid) (w : wid)              (* grow: worker w started and put into workerMap *)
| LGrow (e : eid)                         (* grow: workerKill := 0 *)
| LSetKill (e : eid) (k : Z)              (* shrink: workerKill := k;  JoinAll: k = -1 *)
| LELock (e : eid) | LEBcast (e : eid) | LEUnlock (e : eid)    (* wakeWorkers *)
| LObsCount (e : eid) (n : nat)           (* SetWorkerCount read len(workerMap) = n *)
| LObsWait (e : eid) (wc ic qs : nat)     (* WaitAll read the three counts atomically *)
| LObsJoin (e : eid) (wc qs : nat)        (* JoinAll read the two counts atomically *)
(* AddTask *)
| LPush (a : aid) (t : task) | LALock (a : aid) | LSignal (a : aid) | LAUnlock (a : aid)
(* worker *)
| LKillCheck (w : wid) (k : Z)            (* getTask read workerKill = k (and decremented it if k > 0) *)
| LPop (w : wid) (r : option task)        (* getTask: result of queue.Pop *)
| LIdleReg (w : wid)
| LWLock (w : wid)
| LKillRead (w : wid) (k : Z)             (* idle re-check read workerKill = k *)
| LSizeRead (w : wid) (n : nat)           (* idle re-check read queue.Size() = n *)
| LWait (w : wid)                         (* enters Wait (on the notify list, releases L) *)
| LWake (w : wid)                         (* receives a wake-up *)
| LRelock (w : wid)                       (* Wait re-acquired L *)
| LWUnlock (w : wid)
| LIdleDereg (w : wid)
| LDone (w : wid) (t : task)              (* the task's Run was executed by w *)
| LExit (w : wid).                        (* removed from workerMap *)

Definition set_w (s : state) (w : wid) (p : wpc) : state := set_workers s (update w p (workers s)).
Definition set_a (s : state) (a : aid) (p : apc) : state := set_adders s (update a p (adders s)).
Definition set_e (s : state) (e : eid) (p : epc) : state := set_envs s (update e p (envs s)).

Definition free (s : state) : bool := match holder s with None => true | Some _ => false end.

Definition step (s : state) (l : label) : option state :=
  match l with
  | LSpawn e w =>
      match lookup w (workers s) with
      | None => Some (set_workers s ((w, Head) :: workers s))
      | Some _ => None
      end
  | LGrow e => Some (set_kill s 0%Z)
  | LSetKill e k =>
      match lookup e (envs s) with
      | None => Some (set_envs (set_kill s k) ((e, EPending) :: envs s))
      | Some _ => None
      end
  | LELock e =>
      if free s then
        match lookup e (envs s) with
        | None => Some (set_holder (set_envs s ((e, EHoldL false) :: envs s)) (Some (TE e)))
        | Some EPending => Some (set_holder (set_e s e (EHoldL true)) (Some (TE e)))
        | Some _ => None
        end
      else None
  | LEBcast e =>
      match lookup e (envs s) with
      | Some (EHoldL _) => Some (set_tokens (set_e s e EHeld) (cnt isW (workers s)))
      | _ => None
      end
  | LEUnlock e =>
      match lookup e (envs s) with
      | Some EHeld => Some (set_holder (set_envs s (remove_key e (envs s))) None)
      | _ => None
      end
  | LObsCount e n => if Nat.eqb n (length (workers s)) then Some s else None
  | LObsWait e wc ic qs =>
      if Nat.eqb wc (length (workers s)) && Nat.eqb ic (cnt isIdle (workers s))
         && Nat.eqb qs (length (queue s)) then Some s else None
  | LObsJoin e wc qs =>
      if Nat.eqb wc (length (workers s)) && Nat.eqb qs (length (queue s)) then Some s else None
  | LPush a t =>
      match lookup a (adders s) with
      | None => Some (set_added (set_adders (set_queue s (queue s ++ [t])) ((a, APushed) :: adders s))
                                (t :: added s))
      | Some _ => None
      end
  | LALock a =>
      if free s then
        match lookup a (adders s) with
        | Some APushed => Some (set_holder (set_a s a AHoldL) (Some (TA a)))
        | _ => None
        end
      else None
  | LSignal a =>
      match lookup a (adders s) with
      | Some AHoldL =>
          Some (set_tokens (set_a s a ASignalled)
                  (if Nat.ltb (tokens s) (cnt isW (workers s)) then S (tokens s) else tokens s))
      | _ => None
      end
  | LAUnlock a =>
      match lookup a (adders s) with
      | Some ASignalled => Some (set_holder (set_adders s (remove_key a (adders s))) None)
      | _ => None
      end
  | LKillCheck w k =>
      match lookup w (workers s) with
      | Some Head =>
          if Z.eqb k (kill s) then
            if Z.ltb 0 k then Some (set_w (set_kill s (k - 1)%Z) w Exiting)
            else Some (set_w s w (AfterKill (Z.eqb k (-1))))
          else None
      | _ => None
      end
  | LPop w r =>
      match lookup w (workers s) with
      | Some (AfterKill ni) =>
          match r with
          | Some t => if mem t (queue s)
                      then Some (set_w (set_queue s (remove_first t (queue s))) w (Running t))
                      else None
          | None => match queue s with
                    | [] => Some (set_w s w (if ni then Exiting else PoppedNil))
                    | _ :: _ => None
                    end
          end
      | _ => None
      end
  | LIdleReg w =>
      match lookup w (workers s) with
      | Some PoppedNil => Some (set_w s w IdleReg)
      | _ => None
      end
  | LWLock w =>
      if free s then
        match lookup w (workers s) with
        | Some IdleReg => Some (set_holder (set_w s w HoldL0) (Some (TW w)))
        | _ => None
        end
      else None
  | LKillRead w k =>
      match lookup w (workers s) with
      | Some HoldL0 =>
          if Z.eqb k (kill s) then Some (set_w s w (if Z.eqb k 0 then KillRead0 else HoldL2)) else None
      | _ => None
      end
  | LSizeRead w n =>
      match lookup w (workers s) with
      | Some KillRead0 =>
          if Nat.eqb n (length (queue s))
          then Some (set_w s w (if Nat.eqb n 0 then DecidedWait else HoldL2)) else None
      | _ => None
      end
  | LWait w =>
      match lookup w (workers s) with
      | Some DecidedWait => Some (set_holder (set_w s w Waiting) None)
      | _ => None
      end
  | LWake w =>
      match lookup w (workers s) with
      | Some Waiting =>
          match tokens s with
          | S n => Some (set_tokens (set_w s w WokenNeedL) n)
          | O => None
          end
      | _ => None
      end
  | LRelock w =>
      if free s then
        match lookup w (workers s) with
        | Some WokenNeedL => Some (set_holder (set_w s w HoldL2) (Some (TW w)))
        | _ => None
        end
      else None
  | LWUnlock w =>
      match lookup w (workers s) with
      | Some HoldL2 => Some (set_holder (set_w s w AfterIdle) None)
      | _ => None
      end
  | LIdleDereg w =>
      match lookup w (workers s) with
      | Some AfterIdle => Some (set_w s w Head)
      | _ => None
      end
  | LDone w t =>
      match lookup w (workers s) with
      | Some (Running t') =>
          if Nat.eqb t t' then Some (set_done (set_w s w Head) (t :: done s)) else None
      | _ => None
      end
  | LExit w =>
      match lookup w (workers s) with
      | Some Exiting => Some (set_workers s (remove_key w (workers s)))
      | _ => None
      end
  end.

(* Labels that continue something already started (a worker's next region, the rest of an
   AddTask, the wake-up owed after workerKill was set) as opposed to a NEW call into the
   pool from outside (LPush, LSetKill, LGrow, LSpawn, observations, a fresh wake-up). *)
Definition internal (s : state) (l : label) : bool :=
  match l with
  | LSpawn _ _ | LGrow _ | LSetKill _ _ | LObsCount _ _ | LObsWait _ _ _ _ | LObsJoin _ _ _ | LPush _ _ => false
  | LELock e => match lookup e (envs s) with Some _ => true | None => false end
  | _ => true
  end.

(* ================================================================================== *)
(* The protocol BEFORE the repair, reduced to the steps of the lost wake-up: Signal is sent
   without holding L and idleTask.Run waits without looking at the queue again. *)

Inductive opc := OHead | OPoppedNil | OWaiting | ORunning (t : task).

Record ostate := mkO {
  oqueue : list task;
  otokens : nat;
  oworkers : list (wid * opc);
  opending : nat;             (* AddTask calls between Push and Signal *)
  odone : list task
}.

Inductive olabel :=
| OPop (w : wid)              (* getTask: Pop, head of the queue or nil *)
| OWait (w : wid)             (* idle registration, L.Lock, Wait - no re-check *)
| OWake (w : wid)
| ODone (w : wid)
| OPush (t : task)            (* AddTask: Push *)
| OSignal.                    (* AddTask: Signal, L not held *)

Definition oisW (p : opc) := match p with OWaiting => true | _ => false end.

Definition ostep (s : ostate) (l : olabel) : option ostate :=
  match l with
  | OPop w =>
      match lookup w (oworkers s) with
      | Some OHead =>
          match oqueue s with
          | [] => Some (mkO [] (otokens s) (update w OPoppedNil (oworkers s)) (opending s) (odone s))
          | t :: q => Some (mkO q (otokens s) (update w (ORunning t) (oworkers s)) (opending s) (odone s))
          end
      | _ => None
      end
  | OWait w =>
      match lookup w (oworkers s) with
      | Some OPoppedNil => Some (mkO (oqueue s) (otokens s) (update w OWaiting (oworkers s)) (opending s) (odone s))
      | _ => None
      end
  | OWake w =>
      match lookup w (oworkers s), otokens s with
      | Some OWaiting, S n => Some (mkO (oqueue s) n (update w OHead (oworkers s)) (opending s) (odone s))
      | _, _ => None
      end
  | ODone w =>
      match lookup w (oworkers s) with
      | Some (ORunning t) => Some (mkO (oqueue s) (otokens s) (update w OHead (oworkers s)) (opending s) (t :: odone s))
      | _ => None
      end
  | OPush t => Some (mkO (oqueue s ++ [t]) (otokens s) (oworkers s) (S (opending s)) (odone s))
  | OSignal =>
      match opending s with
      | S n => Some (mkO (oqueue s)
                         (if Nat.ltb (otokens s) (cnt oisW (oworkers s)) then S (otokens s) else otokens s)
                         (oworkers s) n (odone s))
      | O => None
      end
  end.

(* a pool with n workers at the loop head, nothing queued *)
Fixpoint oworkers_init (n : nat) : list (wid * opc) :=
  match n with O => [] | S m => (m, OHead) :: oworkers_init m end.
Definition oinit (n : nat) : ostate := mkO [] 0 (oworkers_init n) 0 [].

(* a task is queued, workers exist, every one of them sleeps, no wake-up is under way and
   no AddTask is in flight: nothing will ever happen without a further call *)
Definition ostuck (s : ostate) : bool :=
  negb (Nat.eqb (length (oqueue s)) 0) && negb (Nat.eqb (length (oworkers s)) 0)
  && Nat.eqb (cnt oisW (oworkers s)) (length (oworkers s))
  && Nat.eqb (otokens s) 0 && Nat.eqb (opending s) 0.
