(* Model/StrInterp.v — string interpolation of interpreter/rt_value.go
   (stringValueRuntime.Eval), the single left-to-right pass.

   Go code followed (after the fix: commit for C14):
     rest := token value; out := ""
     loop: s := Index(rest,"{{"); if s<0 break
           e := Index(rest[s+2:],"}}"); if e<0 break
           code := rest[s+2:s+2+e]; replace := eval(code) or "#"+err
           out += rest[:s] + replace; rest = rest[s+2+e+2:]
     out += rest
   The evaluator (parse + validate + eval + fmt.Sprint, or the inline error marker)
   is the Section variable [ev]; the model also returns the list of codes handed to
   the evaluator, in order (the call log).  No proofs in this file. *)
From Ecal Require Export Common.Bytes.

Definition OPEN : bytes := [123; 123].   (* "{{" *)
Definition CLOSE : bytes := [125; 125].  (* "}}" *)

Section Interp.
  Variable ev : bytes -> bytes.

  Fixpoint interp (fuel : nat) (rest : bytes) : option (bytes * list bytes) :=
    match fuel with
    | O => None
    | S f =>
      match find_sub OPEN rest with
      | None => Some (rest, [])
      | Some (pre, after) =>
        match find_sub CLOSE after with
        | None => Some (rest, [])
        | Some (code, rest') =>
          match interp f rest' with
          | Some (out, log) => Some (pre ++ ev code ++ out, code :: log)
          | None => None
          end
        end
      end
    end.

  (* fuel that Props/C14 proves sufficient *)
  Definition interp_fuel (lit : bytes) : nat := S (length lit).

  (* Eval of a string node: raw strings (AllowEscapes = false) are returned untouched *)
  Definition eval_string (allow_escapes : bool) (lit : bytes) : option (bytes * list bytes) :=
    if allow_escapes then interp (interp_fuel lit) lit else Some (lit, []).
End Interp.
