(* Model/StrInterpOld.v — the string interpolation loop as it was BEFORE the repair
   (commit aa8dd86 in /repo), kept as the record of the finding: GetInfix searches the first
   "{{" and the first "}}" independently, the result is spliced back with
   strings.Replace(ret, "{{"+code+"}}", replace, 1) and the WHOLE string is scanned again.
   Go panics (slice bounds) and the endless loop are explicit outcomes. *)
From Ecal Require Import Common.Bytes Common.Outcome Model.StrInterp.
From Coq Require Import String.
Open Scope N_scope.

(* str[s:e] with Go's bounds check *)
Definition get_infix (str : bytes) : outcome (option bytes) :=
  match find_sub OPEN str with
  | None => Ok None
  | Some (a, _) =>
    let s := (List.length a + 2)%nat in
    match find_sub CLOSE str with
    | None => Ok None
    | Some (c, _) =>
      let e := List.length c in
      if (e <? s)%nat then Panic "rt_value.go GetInfix str[s:e]: slice bounds out of range"
      else let res := firstn (e - s) (skipn s str) in
           if bytes_eqb res str then Ok None else Ok (Some res)
    end
  end.

Definition replace_first (s old new : bytes) : bytes :=
  match find_sub old s with
  | Some (a, b) => a ++ new ++ b
  | None => s
  end.

Section Old.
  Variable ev : bytes -> bytes.
  Fixpoint interp_old (fuel : nat) (ret : bytes) (log : list bytes) : outcome (bytes * list bytes) :=
    match fuel with
    | O => OutOfFuel
    | S f =>
      match get_infix ret with
      | Panic s => Panic s
      | Err e => Err e
      | OutOfFuel => OutOfFuel
      | Ok None => Ok (ret, rev log)
      | Ok (Some code) =>
        interp_old f (replace_first ret (OPEN ++ code ++ CLOSE) (ev code)) (code :: log)
      end
    end.

  (* one round of the loop; a fixed point of it with a code found is an endless loop *)
  Definition old_round (ret : bytes) : outcome (option bytes) :=
    match get_infix ret with
    | Ok (Some code) => Ok (Some (replace_first ret (OPEN ++ code ++ CLOSE) (ev code)))
    | Ok None => Ok None
    | Panic s => Panic s
    | Err e => Err e
    | OutOfFuel => OutOfFuel
    end.
End Old.
