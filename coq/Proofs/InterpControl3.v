(* Proofs/InterpControl3.v — C04 on the unified interpreter model, part 3: the statements of
   Props/C04_interp.v about [eval] itself (the evaluator of the children is [eval fuel], the
   compound node is evaluated with [S fuel]), totality of the bookkeeping steps the statements
   name in their premises, and the example programs of the non-vacuity section. *)
From Coq Require Import List String NArith ZArith Bool Arith Lia.
From Ecal Require Import Common.Bytes Common.Ast gen.Tokens Model.Interp Proofs.InterpProofs
  Proofs.InterpControl Proofs.InterpControl2.
Import ListNotations.
Local Open Scope string_scope.
Local Open Scope list_scope.
Local Open Scope nat_scope.

Section C.
  Context {NO : NumOps}.

  Definition try_of tv ti ta tl (kids : list node) : node := Node NodeTRY tv ti ta tl kids.

  (* ================================================================ the bookkeeping steps are total *)
  (* NewChild: a scope index, or (dangling parent: no Go execution) RInvalid - never an error *)
  Lemma new_child_total sc key st :
    (exists c, fst (new_child sc key st) = ROk c) \/ (exists w, fst (new_child sc key st) = RInvalid w).
  Proof.
    unfold new_child, get_scope, get_st, bind, of_opt.
    destruct (nth_error (st_scopes st) sc) as [s|]; cbn; [|right; eauto].
    destruct (find_child st key (sc_children s)); cbn; left; eauto.
  Qed.
  Lemma alloc_is_total st :
    alloc_is st = (ROk (length (st_is st)),
                   mkSt (st_scopes st) (st_arrs st) (st_maps st) (st_funs st) (st_is st ++ [[]])).
  Proof. reflexivity. Qed.
  Lemma make_errobj_total e st : exists id st', make_errobj e st = (ROk (VMap id), st').
  Proof. unfold make_errobj, alloc_map, bind, get_st, put_st, ret. eauto. Qed.
  Lemma new_root_total st : exists st', new_root st = (ROk (length (st_scopes st)), st').
  Proof. unfold new_root, alloc_scope, bind, get_st, put_st, ret. eauto. Qed.

  Lemma bookkeeping_total scope key e st :
    ((exists c, fst (new_child scope key st) = ROk c) \/ (exists w, fst (new_child scope key st) = RInvalid w)) /\
    (exists id st', make_errobj e st = (ROk (VMap id), st')) /\
    (exists st', alloc_is st = (ROk (length (st_is st)), st')) /\
    (exists st', new_root st = (ROk (length (st_scopes st)), st')).
  Proof.
    repeat split; [apply new_child_total | apply make_errobj_total | eexists; apply alloc_is_total
                   | apply new_root_total].
  Qed.

  (* ================================================================ 1. finally *)
  Theorem finally_exactly_once :
    forall fuel path tv ti ta tl body clauses fv fi fa fl fb fkids sc is st fvs st0,
      is_name (last (body :: clauses) body) NodeFINALLY = false ->
      new_child sc (S (length clauses) :: path) st = (ROk fvs, st0) ->
      eval (S fuel) path
           (try_of tv ti ta tl (body :: clauses ++ [Node NodeFINALLY fv fi fa fl (fb :: fkids)])) sc is st =
      finally_after (eval (S fuel) path (try_of tv ti ta tl (body :: clauses)) sc is st0)
                    (eval fuel (0 :: S (length clauses) :: path) fb fvs is).
  Proof.
    intros until st0. intros Hl Hn. unfold try_of. rewrite !eval_try_eq.
    rewrite (eval_try_finally _ _ _ _ _ _ _ _ _ _ _ _ _ _ _ Hn).
    rewrite eval_try_plain by exact Hl. reflexivity.
  Qed.

  (* read backwards: whenever the try statement with a finally clause completes, the rest of it
     completed (value, error or signal) and the finally block was evaluated in its end state *)
  Theorem finally_on_every_exit :
    forall fuel path tv ti ta tl body clauses fv fi fa fl fb fkids sc is st fvs st0 x st',
      is_name (last (body :: clauses) body) NodeFINALLY = false ->
      new_child sc (S (length clauses) :: path) st = (ROk fvs, st0) ->
      eval (S fuel) path
           (try_of tv ti ta tl (body :: clauses ++ [Node NodeFINALLY fv fi fa fl (fb :: fkids)])) sc is st = (x, st') ->
      completed x = true ->
      exists r st1 fr,
        eval (S fuel) path (try_of tv ti ta tl (body :: clauses)) sc is st0 = (r, st1) /\
        completed r = true /\
        eval fuel (0 :: S (length clauses) :: path) fb fvs is st1 = (fr, st') /\
        completed fr = true /\
        x = match fr with ROk _ => r | _ => fr end.
  Proof.
    intros until st'. intros Hl Hn H Hx.
    rewrite (finally_exactly_once _ _ _ _ _ _ _ _ _ _ _ _ _ _ _ _ _ _ _ Hl Hn) in H.
    destruct (eval (S fuel) path (try_of tv ti ta tl (body :: clauses)) sc is st0) as [r st1].
    unfold finally_after in H. cbn [fst snd] in H.
    destruct (completed r) eqn:Hr.
    - destruct (eval fuel (0 :: S (length clauses) :: path) fb fvs is st1) as [fr st2] eqn:Hfr.
      exists r, st1, fr.
      destruct fr; injection H as <- <-; repeat split; try reflexivity; try exact Hr; try exact Hx;
        try exact Hfr.
    - injection H as <- <-. congruence.
  Qed.

  (* ================================================================ 2. signals pass except / otherwise *)
  Theorem signals_pass_except :
    forall fuel path tv ti ta tl body clauses sc is st tvs st0 e st1,
      is_name (last (body :: clauses) body) NodeFINALLY = false ->
      new_child sc path st = (ROk tvs, st0) ->
      eval fuel (0 :: path) body tvs is st0 = (RErr e, st1) ->
      is_flow e = true ->
      eval (S fuel) path (try_of tv ti ta tl (body :: clauses)) sc is st = (RErr e, st1).
  Proof.
    intros until st1. intros Hl Hn Hb Hf. unfold try_of. rewrite eval_try_eq.
    rewrite eval_try_plain by exact Hl. eapply try_main_signal; eassumption.
  Qed.

  (* ================================================================ 3. otherwise *)
  Theorem otherwise_after_normal_end :
    forall fuel path tv ti ta tl body pre ov oi oa ol ob okids post sc is st tvs st0 v st1 ovs st2,
      let oth := Node NodeOTHERWISE ov oi oa ol (ob :: okids) in
      is_name (last (body :: pre ++ oth :: post) body) NodeFINALLY = false ->
      new_child sc path st = (ROk tvs, st0) ->
      eval fuel (0 :: path) body tvs is st0 = (ROk v, st1) ->
      Forall (fun c => is_name c NodeOTHERWISE = false) pre ->
      new_child sc (S (length pre) :: path) st1 = (ROk ovs, st2) ->
      eval (S fuel) path (try_of tv ti ta tl (body :: pre ++ oth :: post)) sc is st =
      then_value (eval fuel (0 :: S (length pre) :: path) ob ovs is st2) v.
  Proof.
    intros until st2. intros oth Hl Hn Hb Hpre Ho. unfold try_of. rewrite eval_try_eq.
    rewrite eval_try_plain by exact Hl. eapply try_main_ok_otherwise; eassumption.
  Qed.

  Theorem no_otherwise_normal_end :
    forall fuel path tv ti ta tl body clauses sc is st tvs st0 v st1,
      is_name (last (body :: clauses) body) NodeFINALLY = false ->
      new_child sc path st = (ROk tvs, st0) ->
      eval fuel (0 :: path) body tvs is st0 = (ROk v, st1) ->
      Forall (fun c => is_name c NodeOTHERWISE = false) clauses ->
      eval (S fuel) path (try_of tv ti ta tl (body :: clauses)) sc is st = (ROk v, st1).
  Proof.
    intros until st1. intros Hl Hn Hb Hc. unfold try_of. rewrite eval_try_eq.
    rewrite eval_try_plain by exact Hl. eapply try_main_ok_no_otherwise; eassumption.
  Qed.

  Lemma last_replace_name {x x' : node} K (post : list node) d :
    is_name x K = is_name x' K ->
    forall l, is_name (last (l ++ x :: post) d) K = is_name (last (l ++ x' :: post) d) K.
  Proof.
    intros H. assert (B : is_name (last (x :: post) d) K = is_name (last (x' :: post) d) K).
    { destruct post; [exact H|reflexivity]. }
    induction l as [|a r IH]; [exact B|].
    cbn [app]. change (last (a :: r ++ x :: post) d) with
                 (match r ++ x :: post with [] => a | _ :: _ => last (r ++ x :: post) d end).
    change (last (a :: r ++ x' :: post) d) with
        (match r ++ x' :: post with [] => a | _ :: _ => last (r ++ x' :: post) d end).
    destruct (r ++ x :: post) eqn:E1; [destruct r; discriminate|].
    destruct (r ++ x' :: post) eqn:E2; [destruct r; discriminate|]. exact IH.
  Qed.

  (* the body ended with an error or a signal: the otherwise clause is not evaluated - it may be
     replaced by ANY other otherwise clause without changing result and end state *)
  Theorem otherwise_not_after_error :
    forall fuel path tv ti ta tl body pre ov oi oa ol okids ov' oi' oa' ol' okids' post sc is st tvs st0 e st1,
      is_name (last (body :: pre ++ Node NodeOTHERWISE ov oi oa ol okids :: post) body) NodeFINALLY = false ->
      new_child sc path st = (ROk tvs, st0) ->
      eval fuel (0 :: path) body tvs is st0 = (RErr e, st1) ->
      eval (S fuel) path (try_of tv ti ta tl (body :: pre ++ Node NodeOTHERWISE ov oi oa ol okids :: post)) sc is st =
      eval (S fuel) path (try_of tv ti ta tl (body :: pre ++ Node NodeOTHERWISE ov' oi' oa' ol' okids' :: post)) sc is st.
  Proof.
    intros until st1. intros Hl Hn Hb. unfold try_of. rewrite !eval_try_eq.
    rewrite eval_try_plain by exact Hl.
    rewrite eval_try_plain.
    - eapply try_main_err_indep; try eassumption; reflexivity.
    - rewrite <- Hl. symmetry. apply (last_replace_name NodeFINALLY post body (x:=Node NodeOTHERWISE ov oi oa ol okids)
                                        (x':=Node NodeOTHERWISE ov' oi' oa' ol' okids')
                                        eq_refl (body :: pre)).
  Qed.

  (* ================================================================ 4. except clauses *)
  Theorem first_matching_clause :
    forall fuel path tv ti ta tl body pre xv xi xa xl names binder var block post sc is
           st tvs st0 e st1 eo st2 evs st3 st4,
      let clause := Node NodeEXCEPT xv xi xa xl (names ++ binder ++ [block]) in
      is_name (last (body :: pre ++ clause :: post) body) NodeFINALLY = false ->
      new_child sc path st = (ROk tvs, st0) ->
      eval fuel (0 :: path) body tvs is st0 = (RErr e, st1) ->
      is_flow e = false ->
      Forall (passes (err_type_text e)) pre ->
      Forall plain_name names -> binder_of binder var -> is_name block NodeSTATEMENTS = true ->
      clause_matches names (err_type_text e) = true ->
      make_errobj e st1 = (ROk eo, st2) ->
      new_child sc (S (length pre) :: path) st2 = (ROk evs, st3) ->
      bind_errvar evs var eo st3 = (ROk tt, st4) ->
      eval (S fuel) path (try_of tv ti ta tl (body :: pre ++ clause :: post)) sc is st =
      handler_result (eval fuel (length names + length binder :: S (length pre) :: path) block evs is st4).
  Proof.
    intros until st4. intros clause Hl Hn Hb Hf Hpre Hnm Hbi Hbl Hm Ho Hc Hv. unfold try_of.
    rewrite eval_try_eq. rewrite eval_try_plain by exact Hl. eapply try_main_first_match; eassumption.
  Qed.

  Theorem unhandled_propagates_unchanged :
    forall fuel path tv ti ta tl body clauses sc is st tvs st0 e st1 eo st2,
      is_name (last (body :: clauses) body) NodeFINALLY = false ->
      new_child sc path st = (ROk tvs, st0) ->
      eval fuel (0 :: path) body tvs is st0 = (RErr e, st1) ->
      is_flow e = false ->
      Forall (passes (err_type_text e)) clauses ->
      make_errobj e st1 = (ROk eo, st2) ->
      eval (S fuel) path (try_of tv ti ta tl (body :: clauses)) sc is st = (RErr e, st2).
  Proof.
    intros until st2. intros Hl Hn Hb Hf Hpre Ho. unfold try_of.
    rewrite eval_try_eq. rewrite eval_try_plain by exact Hl. eapply try_main_no_match; eassumption.
  Qed.

  (* ================================================================ 5. the condition loop *)
  Definition loop_of tv ti ta tl (kids : list node) : node := Node NodeLOOP tv ti ta tl kids.

  Theorem loop_equation :
    forall fuel path tv ti ta tl g body more sc is0 st c st0 is st1,
      is_name g NodeGUARD = true ->
      new_child sc path st = (ROk c, st0) ->
      alloc_is st0 = (ROk is, st1) ->
      eval (S fuel) path (loop_of tv ti ta tl (g :: body :: more)) sc is0 st =
      loop_rounds (eval fuel) fuel path g body c is st1.
  Proof.
    intros until st1. intros Hg Hc Hi. unfold loop_of. rewrite eval_loop_eq.
    eapply eval_loop_guard; eassumption.
  Qed.

  (* the break signal never leaves a loop node, whatever its kind (condition, range, list, map) *)
  Definition nerr {A} (P : error -> Prop) (m : M A) : Prop :=
    forall st e st', m st = (RErr e, st') -> P e.
  Lemma nerr_ne {A} P (m : M A) : ne m -> nerr P m.
  Proof. intros H st e st' E. exfalso. apply (H st e). rewrite E. reflexivity. Qed.
  Lemma nerr_bind {A B} P (m : M A) (f : A -> M B) :
    nerr P m -> (forall a, nerr P (f a)) -> nerr P (bind m f).
  Proof.
    intros Hm Hf st e st' E. apply bind_err_inv in E. destruct E as [E|(a & st1 & _ & E)].
    - eapply Hm; exact E. - eapply Hf; exact E.
  Qed.
  Lemma nerr_fail {A} (P : error -> Prop) e : P e -> nerr P (@fail _ A e).
  Proof. intros H st e0 st' E. injection E as <- _. exact H. Qed.
  Lemma nerr_ret {A} P (a : A) : nerr P (ret a).
  Proof. intros st e st' E. discriminate. Qed.
  Lemma nerr_unmod {A} P w : nerr P (@unmod _ A w).
  Proof. intros st e st' E. discriminate. Qed.
  Lemma nerr_invalid {A} P w : nerr P (@invalid _ A w).
  Proof. intros st e st' E. discriminate. Qed.

  Definition not_break (e : error) : Prop := is_rt e T_EOI = false.

  Lemma ne_lift_go_index cells len i : ne (lift (go_index cells len i)).
  Proof.
    intros st e. unfold lift, go_index. destruct ((0 <=? i)%Z && (i <? Z.of_nat len)%Z); cbn; [|discriminate].
    destruct (nth_error cells (Z.to_nat i)); discriminate.
  Qed.
  Lemma ne_get_arr a : ne (get_arr a).
  Proof. unfold get_arr. apply ne_bind; [apply ne_get_st|intro; apply ne_of_opt]. Qed.
  Lemma ne_get_map a : ne (get_map a).
  Proof. unfold get_map. apply ne_bind; [apply ne_get_st|intro; apply ne_of_opt]. Qed.
  Lemma ne_alloc_arr c : ne (alloc_arr c).
  Proof. unfold alloc_arr. repeat first [apply ne_bind; [|intro] | apply ne_get_st | apply ne_put_st | apply ne_ret]. Qed.
  Lemma ne_alloc_is : ne alloc_is.
  Proof. unfold alloc_is. repeat first [apply ne_bind; [|intro] | apply ne_get_st | apply ne_put_st | apply ne_ret]. Qed.

  Section WithEv.
    Variable ev : evalT.

    Lemma ne_iter_next mode index ip it sc is : ne (iter_next ev mode index ip it sc is).
    Proof.
      destruct mode; cbn [iter_next].
      - apply ne_bind; [apply ne_attempt|]. intros [v|e]; [apply ne_ret|].
        destruct (is_rt e T_ISITER); apply ne_ret.
      - destruct (index <? len); [|apply ne_ret].
        apply ne_bind; [apply ne_get_arr|]. intro. apply ne_bind; [apply ne_lift_go_index|]. intro. apply ne_ret.
      - destruct (nth_error keys index); [|apply ne_ret].
        apply ne_bind; [apply ne_get_map|]. intro. apply ne_bind; [apply ne_alloc_arr|]. intro. apply ne_ret.
      - destruct (Nat.eqb index 0); apply ne_ret.
    Qed.

    Lemma nerr_assign_vars vars v sc : nerr not_break (assign_vars vars v sc).
    Proof.
      unfold assign_vars. apply nerr_bind; [apply nerr_ne, ne_attempt|].
      intros [u|e]; [apply nerr_ret|apply nerr_fail; reflexivity].
    Qed.

    Lemma nerr_iter_loop k : forall mode index p it body vars sc is,
        nerr not_break (iter_loop ev k mode index p it body vars sc is).
    Proof.
      induction k as [|k IH]; intros; [intros st e st' E; discriminate|].
      cbn [iter_loop]. apply nerr_bind; [apply nerr_ne, ne_iter_next|].
      assert (Hfin : forall e, nerr not_break (if is_rt e T_EOI then ret VNull else fail e)).
      { intros e. destruct (is_rt e T_EOI) eqn:E; [apply nerr_ret|apply nerr_fail; exact E]. }
      intros [v|e].
      - apply nerr_bind; [apply nerr_assign_vars|]. intros _.
        apply nerr_bind; [apply nerr_ne, ne_attempt|]. intros [u|e]; [apply IH|].
        destruct (is_rt e T_CONT); [apply IH|apply Hfin].
      - destruct (is_rt e T_CONT); [apply IH|apply Hfin].
    Qed.

    Lemma nerr_eval_loop f p cs sc is0 : nerr not_break (eval_loop ev f p cs sc is0).
    Proof.
      assert (Hfin : forall e, nerr not_break (if is_rt e T_EOI then ret VNull else fail e)).
      { intros e. destruct (is_rt e T_EOI) eqn:E; [apply nerr_ret|apply nerr_fail; exact E]. }
      unfold eval_loop. apply nerr_bind; [apply nerr_ne, ne_new_child|]. intros c.
      apply nerr_bind; [apply nerr_ne, ne_alloc_is|]. intros is.
      destruct cs as [|h [|body more]]; try apply nerr_invalid.
      destruct (is_name h NodeGUARD).
      { apply nerr_bind; [apply nerr_ne, ne_attempt|]. intros [u|e]; [apply nerr_ret|apply Hfin]. }
      destruct (is_name h NodeIN); [|apply nerr_ret].
      destruct (n_children h) as [|v [|it [|x r]]]; try apply nerr_invalid.
      apply nerr_bind; [apply nerr_ne, ne_attempt|]. intros [val|e].
      - destruct val; try apply nerr_iter_loop.
        apply nerr_bind; [apply nerr_ne, ne_get_map|]. intros m.
        apply nerr_bind; [apply nerr_ne, ne_get_st|]. intros s.
        destruct (all_some _); [|apply nerr_unmod].
        destruct (sort_keys l); [apply nerr_iter_loop|apply nerr_unmod].
      - destruct (is_rt e T_ISITER).
        + destruct (is_name it NodeIDENTIFIER); [apply nerr_iter_loop|apply nerr_unmod].
        + apply Hfin.
    Qed.
  End WithEv.

  Theorem break_never_leaves_a_loop :
    forall fuel path tv ti ta tl cs sc is st e st',
      eval fuel path (loop_of tv ti ta tl cs) sc is st = (RErr e, st') -> is_rt e T_EOI = false.
  Proof.
    intros until st'. intros H. destruct fuel as [|f]; [discriminate|].
    unfold loop_of in H. rewrite eval_loop_eq in H. eapply nerr_eval_loop. exact H.
  Qed.

  (* ================================================================ 6. if *)
  Definition if_of tv ti ta tl (kids : list node) : node := Node NodeIF tv ti ta tl kids.

  Theorem if_first_true_guard :
    forall fuel path tv ti ta tl pre g s r sc is st c st0 st1 st2,
      new_child sc path st = (ROk c, st0) ->
      falls_through (eval fuel) path c is 0 pre st0 st1 ->
      is_name g NodeGUARD = true ->
      eval fuel (length pre :: path) g c is st1 = (ROk (VBool true), st2) ->
      eval (S fuel) path (if_of tv ti ta tl (pre ++ g :: s :: r)) sc is st =
      eval fuel (S (length pre) :: path) s c is st2.
  Proof. intros. unfold if_of. rewrite eval_if_eq. eapply eval_if_first_true; eassumption. Qed.

  Theorem if_failing_guard_ends_if :
    forall fuel path tv ti ta tl pre g s r sc is st c st0 st1 e st2,
      new_child sc path st = (ROk c, st0) ->
      falls_through (eval fuel) path c is 0 pre st0 st1 ->
      is_name g NodeGUARD = true ->
      eval fuel (length pre :: path) g c is st1 = (RErr e, st2) ->
      eval (S fuel) path (if_of tv ti ta tl (pre ++ g :: s :: r)) sc is st = (RErr e, st2).
  Proof. intros. unfold if_of. rewrite eval_if_eq. eapply eval_if_failing_guard; eassumption. Qed.

  Theorem if_no_true_guard :
    forall fuel path tv ti ta tl cs sc is st c st0 st1,
      new_child sc path st = (ROk c, st0) ->
      falls_through (eval fuel) path c is 0 cs st0 st1 ->
      eval (S fuel) path (if_of tv ti ta tl cs) sc is st = (ROk VNull, st1).
  Proof. intros. unfold if_of. rewrite eval_if_eq. eapply eval_if_no_true_guard; eassumption. Qed.

  (* ================================================================ statements, return *)
  Definition stmts_of tv ti ta tl (kids : list node) : node := Node NodeSTATEMENTS tv ti ta tl kids.

  Lemma eval_stmts_eq f p tv ti ta tl cs sc is :
    eval (S f) p (stmts_of tv ti ta tl cs) sc is = eval_statements (eval f) p 0 cs sc is VNull.
  Proof. reflexivity. Qed.

  Theorem statements_stop_at_first_error :
    forall fuel path tv ti ta tl pre c post sc is st v1 st1 e st2,
      runs_through (eval fuel) path sc is 0 pre VNull st v1 st1 ->
      eval fuel (length pre :: path) c sc is st1 = (RErr e, st2) ->
      eval (S fuel) path (stmts_of tv ti ta tl (pre ++ c :: post)) sc is st = (RErr e, st2).
  Proof. intros. rewrite eval_stmts_eq. eapply eval_statements_stop; eassumption. Qed.

  Theorem statements_value_of_last :
    forall fuel path tv ti ta tl cs sc is st v1 st1,
      runs_through (eval fuel) path sc is 0 cs VNull st v1 st1 ->
      eval (S fuel) path (stmts_of tv ti ta tl cs) sc is st = (ROk v1, st1).
  Proof. intros. rewrite eval_stmts_eq. eapply eval_statements_all; eassumption. Qed.

  Theorem return_is_a_signal :
    forall fuel path tv ti ta tl c r sc is st,
      eval (S fuel) path (Node NodeRETURN tv ti ta tl (c :: r)) sc is st =
      match eval fuel (0 :: path) c sc is st with
      | (ROk v, st1) => (RErr (EReturn v), st1)
      | x => x
      end.
  Proof. intros. rewrite eval_return_eq. apply eval_return_value. Qed.
End C.
