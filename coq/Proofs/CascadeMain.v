(* Proofs/CascadeMain.v — the invariant holds in every reachable state; consequences. *)
From Coq Require Import Lia ZifyBool.
From Ecal Require Import Model.Cascade Spec.CascadeSpec Proofs.CascadeProofs Proofs.CascadeInv
  Proofs.CascadeInv2 Proofs.CascadeInv3.

Lemma no_tq_panic s : Inv s -> forall r q x, queues s r = Some (x :: q) ->
  forall m M cbs h, mons s m = Some M -> m_root M = r -> m_phase M = PPosting cbs h -> False.
Proof.
  intros I r q x Hq m M cbs h Hm Hr Hp.
  destruct (i_q1 s I r _ Hq) as [_ Q]. destruct (Q x (or_introl eq_refl)) as (Mx & A & B & C).
  destruct (i_root s I m M Hm) as [R HR].
  pose proof (i_poster s I m M R cbs h Hm Hp HR) as P.
  assert (U : unfinb (m_phase Mx) = true) by (rewrite C; reflexivity).
  rewrite Hr, <- B in HR. destruct (unfin_unposted s x Mx R I A U HR). lia.
Qed.

Lemma waiter_wg_pos s : Inv s -> forall m M R rest, mons s m = Some M ->
  m_phase M = PPosting (CbWaiter :: rest) false -> roots s (m_root M) = Some R -> (0 < r_wg R)%Z.
Proof.
  intros I m M R rest Hm Hp HR.
  destruct (i_rootmon s I _ R HR) as (M0 & Hm0 & _ & _ & _).
  destruct (i_waiter s I _ R M0 HR Hm0) as [LE _].
  pose proof (wsum_ge (w_pend CbWaiter (m_root M)) s m M (in_ids s m M I Hm) Hm) as G.
  unfold w_pend in G at 1. rewrite Nat.eqb_refl, Hp in G. simpl in G.
  rewrite (i_wg s I _ R HR). unfold regW in LE. unfold b2n in *.
  destruct (r_released R), (r_wait R), (r_apc R); simpl in *; lia.
Qed.

Lemma inv_Step s l s' : Inv s -> Step s l s' -> Inv s'.
Proof.
  intros I HS. constructor.
  - eapply pres_nodup; eauto.
  - eapply pres_ids; eauto.
  - eapply pres_root; eauto.
  - eapply pres_rootmon; eauto.
  - eapply pres_self; eauto.
  - eapply pres_count; eauto.
  - eapply pres_cross; eauto.
  - eapply pres_post; eauto.
  - eapply pres_poster; eauto.
  - eapply pres_waiter; eauto.
  - eapply pres_handler; eauto.
  - eapply pres_wg; eauto.
  - eapply pres_rel; eauto.
  - eapply pres_mon; eauto.
  - eapply pres_errs; eauto.
  - eapply pres_q1; eauto.
  - eapply pres_q2; eauto.
  - eapply pres_fresh; eauto.
  - eapply pres_panic; eauto using no_tq_panic, waiter_wg_pos.
Qed.

Lemma inv_step s l s' : Inv s -> step s l = Some s' -> Inv s'.
Proof. intros I H. apply step_Step in H as [_ HS]. eapply inv_Step; eauto. Qed.

Theorem reach_inv s : reach s -> Inv s.
Proof. apply (inv_reachable _ _ step Inv init init_inv inv_step). Qed.

(* ---------------------------------------------------------------- consequences *)
Lemma posted_quiet s r R : Inv s -> roots s r = Some R -> 1 <= r_posted R -> quiet s r.
Proof.
  intros I HR P m M Hm Hroot. destruct (unfinb (m_phase M)) eqn:U; [|reflexivity].
  rewrite <- Hroot in HR. destruct (unfin_unposted s m M R I Hm U HR). lia.
Qed.

Lemma thm_counts s : reach s -> forall r R, roots s r = Some R ->
  r_unf R = Z.of_nat (count_unf s r) /\
  (forall m M, mons s m = Some M -> m_root M = r -> unfinb (m_phase M) = true -> (1 <= r_unf R)%Z).
Proof.
  intros Hr r R HR. pose proof (reach_inv s Hr) as I. split; [apply (i_count s I r R HR)|].
  intros m M Hm Hroot U. rewrite (i_count s I r R HR). pose proof (unf_pos s m M I Hm U). rewrite Hroot in *. lia.
Qed.

Lemma thm_wait s : reach s -> spec_wait s.
Proof.
  intros Hr r R HR Hrel. pose proof (reach_inv s Hr) as I.
  eapply posted_quiet; eauto. eapply i_rel; eauto.
Qed.

Lemma thm_return s : reach s -> spec_return s.
Proof.
  intros Hr r R HR Hw Ht Ha. pose proof (reach_inv s Hr) as I.
  destruct (i_rootmon s I r R HR) as (M & _ & _ & _ & _ & A). rewrite Ha in A. tauto.
Qed.

Lemma thm_at_most_once s : reach s -> spec_at_most_once s.
Proof.
  intros Hr r R HR. pose proof (reach_inv s Hr) as I.
  pose proof (i_post s I r R HR). pose proof (crossed_le1 s r R I HR). pose proof (i_handler s I r R HR).
  unfold b2n in *. repeat split; [lia | destruct (r_trig R); lia |].
  intros P. eapply posted_quiet; eauto. lia.
Qed.

Lemma thm_all_finished s : reach s -> spec_all_finished s.
Proof. intros Hr r R HR P. eapply posted_quiet; eauto using reach_inv. Qed.

Lemma thm_errors s : reach s -> spec_errors s.
Proof.
  intros Hr r R HR P. pose proof (reach_inv s Hr) as I.
  destruct (i_errs s I r R HR) as [ND Q]. split; [exact ND|].
  pose proof (posted_quiet s r R I HR P) as QU.
  intros m. rewrite (Q m). split; intros (M & A & B & C); exists M; repeat split; auto.
  - pose proof (i_mon s I m M A) as OK. pose proof (QU m M A B) as U. unfold mon_ok in OK.
    destruct (m_phase M); simpl in U; try discriminate; tauto.
  - pose proof (i_mon s I m M A) as OK. pose proof (QU m M A B) as U. unfold mon_ok in OK.
    destruct (m_phase M); simpl in U; try discriminate; tauto.
Qed.

Lemma thm_no_panic s : reach s -> spec_no_panic s.
Proof. intros Hr. apply (i_panic s (reach_inv s Hr)). Qed.

Lemma settled_done s r : Inv s -> settledb s r = true ->
  exists R, roots s r = Some R /\ r_apc R = ARet /\
            forall m M, mons s m = Some M -> m_root M = r -> m_phase M = PDone.
Proof.
  intros I H. unfold settledb in H. destruct (roots s r) as [R|] eqn:HR; [|discriminate].
  destruct (r_apc R) eqn:A; try discriminate. exists R. repeat split; auto.
  intros m M Hm Hroot. rewrite forallb_forall in H.
  assert (Hin : In m (mons_of s r)).
  { unfold mons_of. apply filter_In. split; [eapply in_ids; eauto|]. rewrite Hm. apply Nat.eqb_eq. exact Hroot. }
  specialize (H m Hin). unfold doneb in H. rewrite Hm in H. destruct (m_phase M); try discriminate. reflexivity.
Qed.

Lemma thm_exactly_once s : reach s -> spec_exactly_once s.
Proof.
  intros Hr r R HR Hs. pose proof (reach_inv s Hr) as I.
  destruct (settled_done s r I Hs) as (R' & HR' & Hapc & Hd). rewrite HR in HR'. injection HR' as <-.
  assert (Z1 : count_unf s r = 0).
  { apply wsum_none. intros m M Hm. unfold w_unf. destruct (Nat.eqb_spec (m_root M) r); [|reflexivity].
    rewrite (Hd m M Hm e). reflexivity. }
  assert (Z2 : wsum (w_fz r) s = 0).
  { apply wsum_none. intros m M Hm. unfold w_fz. destruct (Nat.eqb_spec (m_root M) r); [|reflexivity].
    rewrite (Hd m M Hm e). reflexivity. }
  assert (Z3 : forall k, wsum (w_pend k r) s = 0).
  { intros k. apply wsum_none. intros m M Hm. unfold w_pend. destruct (Nat.eqb_spec (m_root M) r); [|reflexivity].
    rewrite (Hd m M Hm e). reflexivity. }
  pose proof (i_count s I r R HR) as C. pose proof (i_cross s I r R HR) as X. pose proof (i_post s I r R HR) as P.
  rewrite Z1 in C. rewrite C in X. simpl in X. rewrite Z2 in P.
  assert (P1 : r_posted R = 1) by lia.
  pose proof (i_handler s I r R HR) as Hh. rewrite Z3, P1 in Hh. simpl in Hh.
  split; [exact P1|]. split; [lia|].
  intros Hw Ht. destruct (i_rootmon s I r R HR) as (M & Hm & _ & _ & Hsk & _).
  destruct (i_waiter s I r R M HR Hm) as [_ EQ].
  assert (Sk : m_skipped M = false) by (destruct (m_skipped M); [specialize (Hsk eq_refl); congruence | reflexivity]).
  specialize (EQ Sk). rewrite Z3, P1 in EQ. simpl in EQ. unfold regW in EQ. rewrite Hapc, Hw in EQ.
  destruct (r_released R); [reflexivity | simpl in EQ; lia].
Qed.
