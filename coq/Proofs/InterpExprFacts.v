(* Proofs/InterpExprFacts.v — consequences of Proofs/InterpExpr.v: what the outcome combinators say
   case by case (failing operands, the second pass of the comparisons, and / or without short
   circuit), and the documented facts about the pure operator functions of Spec/InterpExprSpec.v. *)
From Coq Require Import List String NArith ZArith Bool Arith Lia.
From Ecal Require Import Common.Bytes Common.Ast gen.Tokens Model.Interp
  Spec.ExprGrammarSpec Spec.InterpExprSpec Proofs.InterpExpr.
Import ListNotations.
Local Open Scope nat_scope.

Section P.
  Context {NO : NumOps}.

  Definition is_val {A} (r : res A) : bool := match r with ROk _ => true | _ => false end.
  Definition is_num (v : value) : bool := match v with VNum _ => true | _ => false end.
  Definition is_boolv (v : value) : bool := match v with VBool _ => true | _ => false end.
  Definition is_list (v : value) : bool := match v with VList _ _ => true | _ => false end.
  (* a value whose content the model tracks *)
  Definition tracked (v : value) : bool := match v with VOpaque => false | _ => true end.

  (* ---------------------------------------------------------------- the combinators, case by case *)
  Lemma binary_outcome_first_stops (e1 e2 : M value) op st r st1 :
    e1 st = (r, st1) -> is_val r = false -> binary_outcome e1 e2 op st = (r, st1).
  Proof. intros H Hr. unfold binary_outcome. rewrite H. destruct r; try reflexivity. discriminate. Qed.

  Lemma binary_outcome_second_stops (e1 e2 : M value) op st v1 st1 r st2 :
    e1 st = (ROk v1, st1) -> e2 st1 = (r, st2) -> is_val r = false ->
    binary_outcome e1 e2 op st = (r, st2).
  Proof. intros H1 H2 Hr. unfold binary_outcome. rewrite H1, H2. destruct r; try reflexivity. discriminate. Qed.

  Lemma binary_outcome_values (e1 e2 : M value) op st v1 st1 v2 st2 :
    e1 st = (ROk v1, st1) -> e2 st1 = (ROk v2, st2) ->
    binary_outcome e1 e2 op st = (op st2 v1 v2, st2).
  Proof. intros H1 H2. unfold binary_outcome. rewrite H1, H2. reflexivity. Qed.

  Section Node.
    Variables (fuel : nat) (path : list nat) (v : bytes) (idf esc : bool) (ln : nat) (c1 c2 : node) (sc is : nat).
    Let e1 : M value := eval fuel (0 :: path) c1 sc is.
    Let e2 : M value := eval fuel (1 :: path) c2 sc is.
    Let node_of_op (o : binop) : node := Node (bin_name o) v idf esc ln [c1; c2].

    (* the first operand fails: its outcome is the node's, whatever the second operand is *)
    Theorem binary_first_operand_stops (o : binop) st r st1 :
      once_bin o = true -> e1 st = (r, st1) -> is_val r = false ->
      eval (S fuel) path (node_of_op o) sc is st = (r, st1).
    Proof.
      intros Ho H Hr. unfold node_of_op. rewrite eval_binary_once by exact Ho.
      eapply binary_outcome_first_stops; eassumption.
    Qed.

    Theorem binary_second_operand_stops (o : binop) st v1 st1 r st2 :
      once_bin o = true -> e1 st = (ROk v1, st1) -> e2 st1 = (r, st2) -> is_val r = false ->
      eval (S fuel) path (node_of_op o) sc is st = (r, st2).
    Proof.
      intros Ho H1 H2 Hr. unfold node_of_op. rewrite eval_binary_once by exact Ho.
      eapply binary_outcome_second_stops; eassumption.
    Qed.

    Theorem binary_operator_of_values (o : binop) st v1 st1 v2 st2 :
      once_bin o = true -> e1 st = (ROk v1, st1) -> e2 st1 = (ROk v2, st2) ->
      eval (S fuel) path (node_of_op o) sc is st = (op_bin o st2 v1 v2, st2).
    Proof.
      intros Ho H1 H2. unfold node_of_op. rewrite eval_binary_once by exact Ho.
      eapply binary_outcome_values; eassumption.
    Qed.

    (* ---- comparisons *)
    (* two numbers: compared numerically, operands evaluated once *)
    Theorem comparison_of_numbers (o : binop) st x st1 y st2 :
      is_cmp o = true -> e1 st = (ROk (VNum x), st1) -> e2 st1 = (ROk (VNum y), st2) ->
      eval (S fuel) path (node_of_op o) sc is st = (ROk (VBool (num_cmp o x y)), st2).
    Proof.
      intros Ho H1 H2. unfold node_of_op. rewrite eval_comparison by exact Ho.
      unfold comparison_outcome. fold e1 e2. rewrite H1, H2. reflexivity.
    Qed.

    (* an operand that is not a number: BOTH operands are evaluated a second time *)
    Theorem comparison_second_pass (o : binop) st v1 st1 v2 st2 :
      is_cmp o = true -> e1 st = (ROk v1, st1) -> e2 st1 = (ROk v2, st2) ->
      is_num v1 && is_num v2 = false ->
      eval (S fuel) path (node_of_op o) sc is st = binary_outcome e1 e2 (cmp_text o) st2.
    Proof.
      intros Ho H1 H2 Hn. unfold node_of_op. rewrite eval_comparison by exact Ho.
      unfold comparison_outcome. fold e1 e2. rewrite H1, H2.
      destruct v1; try reflexivity. destruct v2; try reflexivity. discriminate Hn.
    Qed.

    (* an operand whose evaluation ENDS IN AN ERROR VALUE is evaluated a second time as well *)
    Theorem comparison_failed_first_operand_evaluated_again (o : binop) st e st1 :
      is_cmp o = true -> e1 st = (RErr e, st1) ->
      eval (S fuel) path (node_of_op o) sc is st = binary_outcome e1 e2 (cmp_text o) st1.
    Proof.
      intros Ho H1. unfold node_of_op. rewrite eval_comparison by exact Ho.
      unfold comparison_outcome. fold e1 e2. rewrite H1. reflexivity.
    Qed.
    Theorem comparison_failed_second_operand_evaluated_again (o : binop) st v1 st1 e st2 :
      is_cmp o = true -> e1 st = (ROk v1, st1) -> e2 st1 = (RErr e, st2) ->
      eval (S fuel) path (node_of_op o) sc is st = binary_outcome e1 e2 (cmp_text o) st2.
    Proof.
      intros Ho H1 H2. unfold node_of_op. rewrite eval_comparison by exact Ho.
      unfold comparison_outcome. fold e1 e2. rewrite H1, H2. reflexivity.
    Qed.

    (* operands whose evaluation does not change the state (literals, variables, pure expressions):
       the comparison is the pure operator of their values *)
    Theorem comparison_of_stable_operands (o : binop) st v1 v2 :
      is_cmp o = true -> e1 st = (ROk v1, st) -> e2 st = (ROk v2, st) ->
      eval (S fuel) path (node_of_op o) sc is st = (op_bin o st v1 v2, st).
    Proof.
      intros Ho H1 H2. unfold node_of_op. rewrite eval_comparison by exact Ho.
      unfold comparison_outcome. fold e1 e2. rewrite H1, H2.
      assert (Hs : binary_outcome e1 e2 (cmp_text o) st = (cmp_text o st v1 v2, st))
        by (eapply binary_outcome_values; eassumption).
      destruct o; try discriminate Ho;
        (destruct v1; try exact Hs; destruct v2; try exact Hs; reflexivity).
    Qed.

    (* ---- and / or: NO short circuit.  Whatever boolean the first operand yields, the second
       operand is evaluated: its effects on the state stay, its failure is the node's outcome,
       and a second operand that is not a boolean is an error even where the first operand
       already decides the result *)
    Theorem and_or_evaluate_both_operands (o : binop) (b1 : bool) st st1 :
      is_boolop o = true -> e1 st = (ROk (VBool b1), st1) ->
      eval (S fuel) path (node_of_op o) sc is st =
      match e2 st1 with
      | (ROk v2, st2) =>
        (match v2 with
         | VBool b2 => ROk (VBool (match o with OAnd => andb b1 b2 | _ => orb b1 b2 end))
         | _ => RErr (rt_err T_NOTBOOL)
         end, st2)
      | stopped => stopped
      end.
    Proof.
      intros Ho H1. unfold node_of_op.
      rewrite eval_binary_once by (destruct o; try discriminate Ho; reflexivity).
      unfold binary_outcome. fold e1 e2. rewrite H1.
      destruct (e2 st1) as [r2 st2]. destruct r2 as [v2|e|s| |w|w]; try reflexivity.
      destruct o; try discriminate Ho; destruct v2; reflexivity.
    Qed.
  End Node.

  (* ---------------------------------------------------------------- the pure operator functions *)
  Lemma eq_spec_no_panic a b site : eq_spec a b <> RPanic site.
  Proof. destruct a, b; cbn; try discriminate. Qed.

  Lemma mem_spec_no_panic v items site : mem_spec v items <> RPanic site.
  Proof.
    induction items as [|i r IH]; cbn [mem_spec]; [discriminate|].
    pose proof (eq_spec_no_panic v i) as Hp.
    destruct (eq_spec v i) as [b|e|s| |w|w]; try discriminate.
    - destruct b; [discriminate|exact IH].
    - intros H. apply (Hp s). reflexivity.
  Qed.

  Lemma text2_no_panic f st a b site : text2 f st a b <> RPanic site.
  Proof. unfold text2. destruct (sprint 8 st a); [|discriminate]. destruct (sprint 8 st b); discriminate. Qed.

  Lemma in_spec_no_panic neg st a b site : in_spec neg st a b <> RPanic site.
  Proof.
    unfold in_spec, items_of. destruct b; try discriminate.
    destruct (nth_error (st_arrs st) arr) as [cells|]; [|discriminate].
    destruct (length cells <? len); [discriminate|].
    pose proof (mem_spec_no_panic a (firstn len cells)) as Hp.
    destruct (mem_spec a (firstn len cells)) as [r|e|s| |w|w]; try discriminate.
    intros H. apply (Hp s). reflexivity.
  Qed.

  Lemma rmap_no_panic {A B} (f : A -> B) (r : res A) :
    (forall s, r <> RPanic s) -> forall site, rmap f r <> RPanic site.
  Proof.
    intros H site. destruct r as [x|e|s| |w|w]; cbn [rmap]; try discriminate.
    intros _. exact (H s eq_refl).
  Qed.

  (* no operator application is a Go panic: `5 % 0`, `[1] == [1]`, `[1] in [[1]]` are error values *)
  Theorem op_bin_no_panic o st a b site : op_bin o st a b <> RPanic site.
  Proof.
    assert (E : forall f : bool -> value, rmap f (eq_spec a b) <> RPanic site)
      by (intros f; apply rmap_no_panic; intros s; apply eq_spec_no_panic).
    destruct o; cbn [op_bin]; unfold cmp_text;
      try first [ discriminate | apply text2_no_panic | apply in_spec_no_panic | apply E ].
    all: destruct a; try first [ discriminate | apply text2_no_panic ].
    all: destruct b; try first [ discriminate | apply text2_no_panic ].
    cbn [arith]. destruct (n_trunc x0 =? 0)%Z; discriminate.
  Qed.

  Theorem op_pre_no_panic o a site : op_pre o a <> RPanic site.
  Proof. destruct o, a; discriminate. Qed.

  (* the documented values on operands of the right kind *)
  Theorem op_bin_on_numbers st x y :
    op_bin OPlus st (VNum x) (VNum y) = ROk (VNum (n_add x y)) /\
    op_bin OMinus st (VNum x) (VNum y) = ROk (VNum (n_sub x y)) /\
    op_bin OTimes st (VNum x) (VNum y) = ROk (VNum (n_mul x y)) /\
    op_bin ODiv st (VNum x) (VNum y) = ROk (VNum (n_div x y)) /\
    op_bin ODivInt st (VNum x) (VNum y) = ROk (VNum (n_divint x y)) /\
    (n_trunc y <> 0%Z ->
     op_bin OModInt st (VNum x) (VNum y) = ROk (VNum (n_of_Z (Z.rem (n_trunc x) (n_trunc y))))) /\
    (n_trunc y = 0%Z -> op_bin OModInt st (VNum x) (VNum y) = RErr (rt_err T_RUNTIME)) /\
    op_bin OGeq st (VNum x) (VNum y) = ROk (VBool (n_leb y x)) /\
    op_bin OGt st (VNum x) (VNum y) = ROk (VBool (n_ltb y x)) /\
    op_bin OLeq st (VNum x) (VNum y) = ROk (VBool (n_leb x y)) /\
    op_bin OLt st (VNum x) (VNum y) = ROk (VBool (n_ltb x y)) /\
    op_bin OEq st (VNum x) (VNum y) = ROk (VBool (n_eqb x y)) /\
    op_bin ONeq st (VNum x) (VNum y) = ROk (VBool (negb (n_eqb x y))).
  Proof.
    repeat split; try reflexivity.
    - intros H. cbn [op_bin arith]. apply Z.eqb_neq in H. rewrite H. reflexivity.
    - intros H. cbn [op_bin arith]. rewrite H. reflexivity.
  Qed.

  Theorem op_bin_on_strings st a b :
    op_bin OGeq st (VStr a) (VStr b) = ROk (VBool (bytes_leb b a)) /\
    op_bin OGt st (VStr a) (VStr b) = ROk (VBool (bytes_ltb b a)) /\
    op_bin OLeq st (VStr a) (VStr b) = ROk (VBool (bytes_leb a b)) /\
    op_bin OLt st (VStr a) (VStr b) = ROk (VBool (bytes_ltb a b)) /\
    op_bin OEq st (VStr a) (VStr b) = ROk (VBool (bytes_eqb a b)) /\
    op_bin ONeq st (VStr a) (VStr b) = ROk (VBool (negb (bytes_eqb a b))) /\
    op_bin OHasPrefix st (VStr a) (VStr b) = ROk (VBool (prefixb b a)) /\
    op_bin OHasSuffix st (VStr a) (VStr b) = ROk (VBool (prefixb (rev b) (rev a))).
  Proof. repeat split; reflexivity. Qed.

  Theorem op_bin_on_booleans st x y :
    op_bin OAnd st (VBool x) (VBool y) = ROk (VBool (andb x y)) /\
    op_bin OOr st (VBool x) (VBool y) = ROk (VBool (orb x y)) /\
    op_bin OEq st (VBool x) (VBool y) = ROk (VBool (Bool.eqb x y)) /\
    op_pre PNot (VBool x) = ROk (VBool (negb x)).
  Proof. repeat split; reflexivity. Qed.

  (* an arithmetic / boolean operator on an operand of the wrong kind: the documented error, never
     a value *)
  Theorem op_bin_wrong_kind o st a b :
    (is_arith o = true -> is_num a && is_num b = false -> op_bin o st a b = RErr (rt_err T_NOTNUM)) /\
    (is_boolop o = true -> is_boolv a && is_boolv b = false -> op_bin o st a b = RErr (rt_err T_NOTBOOL)).
  Proof.
    split; intros Ho Hk; destruct o; try discriminate Ho;
      (destruct a; try reflexivity; destruct b; try reflexivity; discriminate Hk).
  Qed.
  Theorem op_pre_wrong_kind a :
    (is_num a = false -> op_pre PNeg a = RErr (rt_err T_NOTNUM) /\ op_pre PPos a = RErr (rt_err T_NOTNUM)) /\
    (is_boolv a = false -> op_pre PNot a = RErr (rt_err T_NOTBOOL)).
  Proof. split; intros H; destruct a; try discriminate H; repeat split; reflexivity. Qed.

  (* equality *)
  Theorem eq_spec_cases a b :
    (uncomparable a b = true -> eq_spec a b = RErr (rt_err T_RUNTIME)) /\
    (uncomparable a b = false -> tracked a && tracked b = true -> eq_spec a b = ROk (key_eqb a b)).
  Proof. split; intros H; [|intros Ht]; destruct a, b; try discriminate; reflexivity. Qed.

  (* membership needs a list on the right ... *)
  Theorem in_needs_a_list st a b :
    is_list b = false ->
    op_bin OIn st a b = RErr (rt_err T_NOTLIST) /\ op_bin ONotIn st a b = RErr (rt_err T_NOTLIST).
  Proof. intros H. destruct b; try discriminate H; split; reflexivity. Qed.

  (* ... and on a list whose items can all be compared with the value it is `exists an equal item` *)
  Definition plain_items (v : value) (items : list value) : bool :=
    forallb (fun i => negb (uncomparable v i) && tracked i) items.
  Lemma mem_spec_plain v items :
    tracked v = true -> plain_items v items = true ->
    mem_spec v items = ROk (existsb (key_eqb v) items).
  Proof.
    intros Hv. induction items as [|i r IH]; intros Hp; [reflexivity|].
    cbn [plain_items forallb] in Hp. apply andb_true_iff in Hp. destruct Hp as [Hi Hr].
    apply andb_true_iff in Hi. destruct Hi as [Hu Ht]. apply negb_true_iff in Hu.
    cbn [mem_spec existsb].
    destruct (eq_spec_cases v i) as [_ He]. rewrite He; [|exact Hu|rewrite Hv, Ht; reflexivity].
    destruct (key_eqb v i); [reflexivity|]. apply IH. exact Hr.
  Qed.
  Theorem in_on_plain_list st v a len cells :
    nth_error (st_arrs st) a = Some cells -> len <= length cells ->
    tracked v = true -> plain_items v (firstn len cells) = true ->
    op_bin OIn st v (VList a len) = ROk (VBool (existsb (key_eqb v) (firstn len cells))) /\
    op_bin ONotIn st v (VList a len) = ROk (VBool (negb (existsb (key_eqb v) (firstn len cells)))).
  Proof.
    intros Ha Hl Hv Hp. cbn [op_bin]. unfold in_spec, items_of. rewrite Ha.
    assert (E : (length cells <? len) = false) by (apply Nat.ltb_ge; exact Hl). rewrite E.
    rewrite (mem_spec_plain _ _ Hv Hp). cbn [rmap].
    destruct (existsb (key_eqb v) (firstn len cells)); split; reflexivity.
  Qed.

  (* on operands that are no references into the heap the operator does not read the state *)
  Lemma sprint_scalar d st st' a : is_scalar a = true -> sprint d st a = sprint d st' a.
  Proof. intros H. destruct a; try discriminate H; destruct d; reflexivity. Qed.
  Theorem op_bin_scalar_state_independent o st st' a b :
    is_scalar a = true -> is_scalar b = true -> op_bin o st a b = op_bin o st' a b.
  Proof.
    intros Ha Hb.
    assert (T : forall f, text2 f st a b = text2 f st' a b).
    { intros f. unfold text2. rewrite (sprint_scalar 8 st st' a Ha), (sprint_scalar 8 st st' b Hb). reflexivity. }
    destruct o; cbn [op_bin].
    1-6,9-10,13,18-20: reflexivity.
    1-4: unfold cmp_text; destruct a; try apply T; destruct b; try apply T; reflexivity.
    1,4: unfold in_spec, items_of; destruct b; try discriminate Hb; reflexivity.
    all: apply T.
  Qed.
End P.
