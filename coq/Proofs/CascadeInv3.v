(* Proofs/CascadeInv2.v — invariant preservation, third part. *)
From Coq Require Import Lia ZifyBool.
From Ecal Require Import Model.Cascade Spec.CascadeSpec Proofs.CascadeProofs Proofs.CascadeInv.

Lemma pres_q1 s l s' : Inv s -> Step s l s' -> forall r q, queues s' r = Some q -> NoDup q /\
  forall m, In m q -> exists M, mons s' m = Some M /\ m_root M = r /\ m_phase M = PQueued.
Proof.
  intros I HS. pose proof (i_q1 s I) as IQ.
  cases HS; splitcb; intros r0 q0 Hq0; lk;
    repeat match goal with A : queues s ?r = Some ?q |- _ => let N := fresh "ND" in let Q := fresh "Q" in destruct (IQ _ _ A) as [N Q]; revert A end; intros.
  all: try (split; [assumption|]; intros x Hx;
            match goal with Q : forall m, In m ?q -> _, Hx : In _ ?q |- _ => destruct (Q x Hx) as (Mx & Qa & Qb & Qc) end;
            lk; try congruence; eauto; fail).
  - (* PushOld *) split.
    + apply nodup_snoc; [assumption|]. intros C. destruct (Q m C) as (Mx & Qa & Qb & Qc). congruence.
    + intros x Hx. apply in_app_iff in Hx. destruct Hx as [Hx|[<-|[]]].
      * destruct (Q x Hx) as (Mx & Qa & Qb & Qc). lk; try congruence; eauto.
      * rewrite Nat.eqb_refl. eexists; split; [reflexivity|]. simpl. auto.
  - (* PushNew *) split; [constructor; [intros []|constructor]|]. intros x [<-|[]].
    rewrite Nat.eqb_refl. eexists; split; [reflexivity|]. simpl. auto.
  - (* Pop *) destruct (remove_nat_nodup m q ND) as [A B]. split; [exact A|].
    intros x Hx. assert (x <> m) by (intros ->; contradiction).
    apply remove_nat_in in Hx. destruct (Q x Hx) as (Mx & Qa & Qb & Qc). lk; try congruence; eauto.
  - split; [exact ND | intros y Hy; destruct (Q y Hy) as (My & Qa & Qb & Qc); eauto].
  - split; [exact ND | intros y Hy; destruct (Q y Hy) as (My & Qa & Qb & Qc); eauto].
Qed.

Lemma pres_q2 s l s' : Inv s -> Step s l s' -> forall m M, mons s' m = Some M -> m_phase M = PQueued ->
  exists q, queues s' (m_root M) = Some q /\ In m q.
Proof.
  intros I HS. pose proof (i_q2 s I) as IQ. pose proof (i_q1 s I) as IQ1.
  cases HS; splitcb; intros m1 M1 Hm1 Hp1; lk; try discriminate; try congruence; eauto.
  all: try (destruct (IQ _ _ Hm1 Hp1) as (qq & Qa & Qb); lk; dedup; try congruence; eauto; fail).
  all: try (eexists; split; [reflexivity|]; rewrite ?in_app_iff; simpl; auto; fail).
  all: try (destruct (IQ _ _ Hm1 Hp1) as (qq & Qa & Qb);
            repeat match goal with e : m_root _ = m_root _ |- _ => rewrite e in * end; dedup;
            repeat match goal with A : queues _ _ = _, B : queues _ _ = _ |- _ => rewrite A in B; inj end;
            try contradiction; try discriminate;
            eexists; split; [reflexivity|]; rewrite ?in_app_iff; simpl; auto using remove_nat_keep; fail).
  exfalso. destruct (IQ _ _ Hm1 Hp1) as (qq & Qa & Qb). rewrite H in Qa. injection Qa as <-. destruct Qb.
Qed.

Lemma ex_att_iff s s' r :
  (forall x, (exists M, mons s' x = Some M /\ m_root M = r /\ m_attached M = true) <->
             (exists M, mons s x = Some M /\ m_root M = r /\ m_attached M = true)) ->
  forall errs, (forall m, In m errs <-> exists M, mons s m = Some M /\ m_root M = r /\ m_attached M = true) ->
  (forall m, In m errs <-> exists M, mons s' m = Some M /\ m_root M = r /\ m_attached M = true).
Proof. intros H errs E m. rewrite (H m). apply E. Qed.

Definition has_att (s : state) (r x : nat) : Prop :=
  exists M, mons s x = Some M /\ m_root M = r /\ m_attached M = true.

Lemma errs_set_m s1 m M M' r : mons s1 m = Some M -> m_root M' = m_root M -> m_attached M' = m_attached M ->
  forall x, has_att (set_m s1 m M') r x <-> has_att s1 r x.
Proof.
  intros Hm Hr Ha x. unfold has_att; simpl; unfold upd. destruct (Nat.eqb_spec x m).
  - subst. split; intros (Mx & A & B & C).
    + injection A as <-. exists M. rewrite <- Hr, <- Ha. auto.
    + rewrite Hm in A. injection A as <-. exists M'. rewrite Hr, Ha. auto.
  - tauto.
Qed.

Lemma errs_add_m s1 c C r : mons s1 c = None -> m_attached C = false ->
  forall x, has_att (add_m s1 c C) r x <-> has_att s1 r x.
Proof.
  intros Hm Ha x. unfold has_att; simpl; unfold upd. destruct (Nat.eqb_spec x c).
  - subst. split; intros (Mx & A & B & D); [injection A as <-; congruence | congruence].
  - tauto.
Qed.

Lemma pres_errs s l s' : Inv s -> Step s l s' -> forall r R, roots s' r = Some R -> NoDup (r_errors R) /\
  forall m, In m (r_errors R) <-> has_att s' r m.
Proof.
  intros I HS. pose proof (i_errs s I) as IE.
  cases HS; splitcb; intros r0 RR Hr0.
  all: repeat match goal with A : roots (set_r _ _ _) _ = Some _ |- _ =>
         simpl in A; unfold upd in A; rewrite Nat.eqb_refl in A; injection A as A; subst end.
  all: try (match goal with
            | |- context[has_att (add_m (set_m ?s1 ?m ?M') ?c ?C) _] =>
              match goal with A : mons _ m = Some ?M, B : mons _ c = None |- _ =>
                assert (EQ : forall x, has_att (add_m (set_m s1 m M') c C) r0 x <-> has_att s1 r0 x)
                  by (intros x; rewrite (errs_add_m (set_m s1 m M') c C r0) by
                        (simpl; unfold upd; destruct (Nat.eqb_spec c m); [subst; congruence | exact B] || reflexivity);
                      apply (errs_set_m s1 m M M' r0 A eq_refl eq_refl)) end
            | |- context[has_att (add_m ?s1 ?c ?C) _] =>
              match goal with B : mons _ c = None |- _ =>
                pose proof (errs_add_m s1 c C r0 B eq_refl) as EQ end
            | |- context[has_att (set_m ?s1 ?m ?M') _] =>
              match goal with A : mons _ m = Some ?M |- _ =>
                pose proof (errs_set_m s1 m M M' r0 A eq_refl eq_refl) as EQ end
            end;
            simpl in Hr0; unfold upd in Hr0;
            repeat match goal with A : context[Nat.eqb ?a ?b] |- _ => destruct (Nat.eqb_spec a b); subst end; inj;
            match goal with A : roots _ _ = Some ?R |- NoDup (r_errors ?R') /\ _ =>
              destruct (IE _ _ A) as [N Q]; split; [exact N|]; intros x; rewrite (EQ x); apply Q end).
  all: try (simpl in Hr0; unfold upd in Hr0;
            repeat match goal with A : context[Nat.eqb ?a ?b] |- _ => destruct (Nat.eqb_spec a b); subst end; inj;
            match goal with A : roots _ _ = Some ?R |- NoDup (r_errors ?R') /\ _ =>
              destruct (IE _ _ A) as [N Q]; split; [exact N|]; exact Q end).
  - pose proof (errs_add_m (set_r s r (R0 w)) r (M0 r None) r0 H eq_refl) as EQ.
    simpl in Hr0; unfold upd in Hr0. destruct (Nat.eqb_spec r0 r).
    + subst. injection Hr0 as <-. simpl. split; [constructor|]. intros x. rewrite (EQ x). split; [intros []|].
      intros (Mx & A & B & C). simpl in A. destruct (i_root s I x Mx A) as [Rx HRx]. rewrite B in HRx. congruence.
    + destruct (IE _ _ Hr0) as [N Q]. split; [exact N|]. intros x. rewrite (EQ x). apply Q.
  - pose proof (i_mon s I m M H) as OK. unfold mon_ok in OK. rewrite H0 in OK. destruct OK as (Att & _).
    simpl in Hr0; unfold upd in Hr0. destruct (Nat.eqb_spec r0 (m_root M)).
    + subst. injection Hr0 as <-. simpl. destruct (IE _ _ H2) as [N Q]. split.
      * apply nodup_snoc; [exact N|]. intros C. apply Q in C. destruct C as (Mx & A & B & D).
        rewrite H in A. injection A as <-. congruence.
      * intros x. rewrite in_app_iff. unfold has_att; simpl; unfold upd. destruct (Nat.eqb_spec x m).
        -- subst. split; [intros _; eexists; split; [reflexivity|]; simpl; auto | intros _; right; left; reflexivity].
        -- rewrite (Q x). split; [intros [A|[A|[]]]; [exact A|congruence] | intros A; left; exact A].
    + destruct (IE _ _ Hr0) as [N Q]. split; [exact N|]. intros x. rewrite (Q x).
      unfold has_att; simpl; unfold upd. destruct (Nat.eqb_spec x m).
      * subst. split; intros (Mx & A & B & D).
        -- rewrite H in A. injection A as <-. congruence.
        -- injection A as <-. simpl in B. congruence.
      * tauto.
Qed.
