(* Proofs/StmtProofs.v — C08, statement level, part 2: the parser model Model/Parser.v reads
   the printed tokens of a statement tree back as the tree.  Key lemma by mutual structural
   induction on statements / blocks / elif-else tails, generalised over the continuation
   token (what follows a statement starts on a later line with a token that cannot continue
   an expression, or is a block end / the end of the file). *)
From Coq Require Import List String NArith Bool Arith Lia ZArith.
From Ecal Require Import Common.Bytes Common.Ast gen.Tokens gen.Grammar Spec.ParseSpec
     Model.Printer Proofs.PrinterProofs Model.StmtPrinter Spec.StmtFormatSpec Model.Parser
     Proofs.StmtState Proofs.StmtExpr.
Import ListNotations.
Local Open Scope string_scope.
Local Open Scope nat_scope.
Local Open Scope list_scope.

Arguments pp_stmt : simpl never.

Scheme stmt_mind := Induction for stmt Sort Prop
  with sblock_mind := Induction for sblock Sort Prop
  with iftail_mind := Induction for iftail Sort Prop
  with excepts_mind := Induction for StmtPrinter.excepts Sort Prop
  with oblock_mind := Induction for oblock Sort Prop.
Combined Scheme stmt_mutind from stmt_mind, sblock_mind, iftail_mind, excepts_mind, oblock_mind.

(* ---------------------------------------------------------------------------------- *)
(* trees up to positions *)

Lemma strip_setl ln t : strip (setl ln t) = strip t.
Proof.
  induction t as [name v i a l cs IH] using node_ind'. cbn [setl strip]. f_equal.
  rewrite map_map. induction IH as [|c cs Hc _ IHcs]; cbn [map]; [reflexivity|]. rewrite Hc, IHcs. reflexivity.
Qed.

Lemma strip_erase t : wf_expr t -> strip (erase t) = erase t.
Proof.
  induction 1 as [id v i a ln Ha Hs | id v i a ln l r Hi Hl IHl Hr IHr He | id v i a ln x Hp Hel Hx IHx].
  - rewrite erase_atom by assumption. reflexivity.
  - rewrite erase_bin by assumption. unfold mk. cbn [strip map]. rewrite IHl, IHr. reflexivity.
  - rewrite erase_pre by assumption. unfold mk. cbn [strip map]. rewrite IHx. reflexivity.
Qed.

Lemma strip_expr ln e : wfe e -> strip (setl ln (erase e)) = erase e.
Proof. intros H. rewrite strip_setl. apply strip_erase. apply wfe_wf; exact H. Qed.

(* ---------------------------------------------------------------------------------- *)
(* token kinds that start a statement, by computation on the table *)

Definition closers : list nat :=
  [TokenSEMICOLON; TokenRBRACE; TokenEOF; TokenDOT; TokenELIF; TokenELSE; TokenEXCEPT; TokenOTHERWISE;
   TokenFINALLY; TokenLBRACE; TokenRPAREN; TokenCOMMA].

Definition hstartb (id : nat) : bool :=
  known id && negb (existsb (Nat.eqb id) closers) &&
  (String.eqb (ge_left (entd false id)) "" || Nat.eqb id TokenMINUS || Nat.eqb id TokenPLUS).

Definition expr_start (id : nat) : bool :=
  is_term id || is_ident id || is_prefix id || (id =? TokenLPAREN).

Definition start_check (e : grammar_entry) : bool :=
  implb (expr_start (ge_token e)) (hstartb (ge_token e) || (ge_token e =? TokenEOF)).
Lemma starts_ok : forallb start_check grammar_table = true.
Proof. vm_compute. reflexivity. Qed.

Lemma expr_start_head_kind id : expr_start id = true -> head_kind id = true.
Proof.
  unfold expr_start, head_kind. intros H. rewrite !orb_true_iff in H. rewrite !orb_true_iff. tauto.
Qed.

Lemma expr_start_hstart id : expr_start id = true -> id <> TokenEOF -> hstartb id = true.
Proof.
  intros H Hne. destruct (head_kind_entry id (expr_start_head_kind id H)) as [e [Hin He]].
  pose proof starts_ok as K. rewrite forallb_forall in K. specialize (K e Hin).
  unfold start_check in K. rewrite He, H in K. cbn [implb] in K.
  apply orb_true_iff in K. destruct K as [K|K]; [exact K|]. apply Nat.eqb_eq in K. contradiction.
Qed.

(* first token of an expression of the guarded language *)
Lemma pp_head_wfe t : wfe t -> exists id v a r, pp t = Printer.T id v a :: r /\ expr_start id = true /\ id <> TokenEOF.
Proof.
  induction 1 as [id v i a ln Ha Hne Hs | id v i a ln l r Hi Hl IHl Hr IHr He | id v i a ln x Hp Hel Hx IHx].
  - rewrite pp_leaf, classify_atom by assumption. cbn [assemble]. do 4 eexists. split; [reflexivity|]. split; [|exact Hne].
    unfold expr_start. apply orb_true_iff in Ha. destruct Ha as [Ha|Ha]; rewrite Ha; rewrite ?orb_true_r; reflexivity.
  - rewrite pp_bin, classify_bin by assumption. cbn [assemble].
    destruct (needs (CBin id) 0 l); unfold wrap at 1.
    + cbn [app kw]. do 4 eexists. split; [reflexivity|]. split; [reflexivity|discriminate].
    + destruct IHl as (id1 & v1 & a1 & r1 & E & H1). rewrite E. cbn [app]. do 4 eexists. split; [reflexivity|exact H1].
  - rewrite pp_pre, classify_pre by assumption. cbn [assemble kw]. do 4 eexists. split; [reflexivity|]. split.
    + unfold expr_start. rewrite Hp, !orb_true_r. reflexivity.
    + intros ->. vm_compute in Hp. discriminate.
Qed.

(* first token of a statement *)
Lemma stmt_head s : wfS s -> exists id v a r, pp_stmt s = Printer.T id v a :: r /\ hstartb id = true.
Proof.
  destruct s; cbn [wfS]; intros W; unfold pp_stmt; fold pp_stmt; fold pp_lines; fold pp_tail; fold pp_excepts; fold pp_oblock;
    try (unfold kw; do 4 eexists; split; [reflexivity | vm_compute; reflexivity]); try contradiction.
  - destruct (pp_head_wfe e W) as (id & v & a & r & E & H1 & H2). rewrite E. do 4 eexists. split; [reflexivity|].
    apply expr_start_hstart; assumption.
Qed.

(* ---------------------------------------------------------------------------------- *)
(* the token after a statement *)

Definition sepT (ln : nat) (tc : tok) : Prop :=
  known (t_id tc) = true /\ ge_left (entd false (t_id tc)) = "" /\
  t_id tc <> TokenLPAREN /\ t_id tc <> TokenDOT /\ t_id tc <> TokenELIF /\ t_id tc <> TokenELSE /\
  (ln < t_line tc \/ ge_binding (entd false (t_id tc)) = 0).

Lemma lbrack_binding : ge_binding (entd false TokenLBRACK) = 150. Proof. vm_compute. reflexivity. Qed.

Lemma sepT_stop ln tc : sepT ln tc -> stopP 0 ln (cn false tc).
Proof.
  intros (K & Hl & Hp & Hd & _ & _ & Hln). unfold stopP, cn. cbn [fst snd].
  split; [|split; [exact Hd | split; [exact Hp|]]].
  - destruct Hln as [Hln|Hln]; [right; split; assumption | left; lia].
  - intros Hq. rewrite Hq in Hln. rewrite lbrack_binding in Hln. destruct Hln as [Hln|Hln]; [lia|discriminate].
Qed.

Definition cont_id (id : nat) : bool := Nat.eqb id TokenMINUS || Nat.eqb id TokenPLUS || Nat.eqb id TokenLPAREN.

Lemma continues_head id v a r : continues (Printer.T id v a :: r) = cont_id id.
Proof. reflexivity. Qed.

(* a statement start that is not + - ( cannot continue the previous line *)
Lemma hstart_sep id v a ln ln' : hstartb id = true -> cont_id id = false -> ln < ln' -> sepT ln (tk ln' id v a).
Proof.
  unfold hstartb, cont_id. rewrite !andb_true_iff, !negb_true_iff, !orb_false_iff. intros [[K C] L] [[S0 S1] S2] Hlt.
  rewrite S0, S1, !orb_false_r in L. apply String.eqb_eq in L.
  unfold sepT. cbn [tk t_id t_line]. apply Nat.eqb_neq in S2.
  assert (Hc : forall x, In x closers -> id <> x).
  { intros x Hx ->. assert (existsb (Nat.eqb x) closers = true) by (apply existsb_exists; exists x; split; [exact Hx | apply Nat.eqb_refl]). congruence. }
  repeat split; try assumption; try (apply Hc; unfold closers; simpl; tauto). left; exact Hlt.
Qed.

Lemma semi_sep ln ln' : ln < ln' -> sepT ln (tk ln' TokenSEMICOLON [] false).
Proof. intros H. unfold sepT. cbn [tk t_id t_line]. repeat split; try discriminate; try (vm_compute; reflexivity). left; exact H. Qed.

Lemma rbrace_sep ln ln' : ln < ln' -> sepT ln (tk ln' TokenRBRACE [] false).
Proof. intros H. unfold sepT. cbn [tk t_id t_line]. repeat split; try discriminate; try (vm_compute; reflexivity). left; exact H. Qed.

(* ---------------------------------------------------------------------------------- *)
(* layout facts *)

Lemma lay_length_le ln l : List.length (lay ln l) <= List.length l.
Proof. revert ln. induction l as [|[id v a|] l IH]; intros ln; cbn [lay List.length]; [lia | specialize (IH ln); lia | specialize (IH (S ln)); lia]. Qed.

Lemma lay_block ln X : lay ln (block X) = tk ln TokenLBRACE [] false :: lay (S ln) (X ++ [kw TokenRBRACE]).
Proof. reflexivity. Qed.

Lemma cur_pos_cons b t r : cur (pos b (t :: r)) = Some (cn b t).
Proof. reflexivity. Qed.

Lemma pos_cons b t r : pos b (t :: r) = st (Some (cn b t)) r b.
Proof. reflexivity. Qed.

Lemma sw_pos b ts : sw (pos b ts) = b.
Proof. destruct ts; reflexivity. Qed.

Lemma set_sw_pos ts : (match ts with t :: _ => t_id t <> TokenLBRACE | [] => True end) ->
  set_sw (pos false ts) true = pos true ts.
Proof. destruct ts as [|t r]; [reflexivity|]. intros H. cbn [pos]. rewrite set_sw_st, (cn_irrel true) by exact H. reflexivity. Qed.

Lemma known_hstart id : hstartb id = true -> known id = true.
Proof. unfold hstartb. rewrite !andb_true_iff. tauto. Qed.

(* ---------------------------------------------------------------------------------- *)
(* expressions, direct style *)

Lemma expr_run e f b ln tc k :
  wfe e -> known (t_id tc) = true -> stopP 0 ln (cn b tc) ->
  List.length (lay ln (pp e)) + List.length k <= f ->
  run V (S f) 0 (pos b (lay ln (pp e) ++ tc :: k)) =
  ROk (root_id e, setl ln (erase e)) (st (Some (cn b tc)) k b).
Proof.
  intros W K Hs Hf. apply (keyP e W); try assumption.
  - apply enter0. apply wfe_wf; exact W.
  - eapply stopP_mono; [exact Hs | lia].
  - intros kf Hkf. apply ld_loop_stop with (ln := ln); [exact Hs | apply n_line_setl | lia].
  - rewrite lay_length in Hf by (apply nls_pp; apply wfe_wf; exact W). exact Hf.
Qed.

Lemma stopP0 e ln c : stopP 0 ln c -> stopP (redge e) ln c.
Proof. intros H. eapply stopP_mono; [exact H | lia]. Qed.

(* the guard expression of if / elif / for: read with the guard flag set, up to the "{" *)
Lemma guard_brace_stop rb ln ln' : stopP rb ln (cn true (tk ln' TokenLBRACE [] false)).
Proof. unfold stopP, cn. cbn [fst snd tk t_id t_line]. split; [left; vm_compute; lia | repeat split; intros; discriminate]. Qed.

Lemma known_lbrace : known TokenLBRACE = true. Proof. vm_compute. reflexivity. Qed.

Lemma guard_expr g f ln ln' rest :
  wfe g -> List.length (lay ln (pp g)) + List.length rest <= f ->
  with_guard_brace (run V (S f)) (pos false (lay ln (pp g) ++ tk ln' TokenLBRACE [] false :: rest)) =
  ROk (root_id g, setl ln (erase g)) (st (Some (cn true (tk ln' TokenLBRACE [] false))) rest false).
Proof.
  intros W Hf. unfold with_guard_brace.
  destruct (pp_head_wfe g W) as (id & v & a & r & E & H1 & H2).
  assert (Hsw : set_sw (pos false (lay ln (pp g) ++ tk ln' TokenLBRACE [] false :: rest)) true
                = pos true (lay ln (pp g) ++ tk ln' TokenLBRACE [] false :: rest)).
  { apply set_sw_pos. rewrite E. cbn [lay app tk t_id]. apply head_kind_known. apply expr_start_head_kind; exact H1. }
  rewrite Hsw. rewrite (expr_run g f true ln); try assumption.
  - rewrite sw_pos. reflexivity.
  - exact known_lbrace.
  - apply guard_brace_stop.
Qed.
