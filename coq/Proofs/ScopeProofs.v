(* Proofs/ScopeProofs.v — lemmas about Model/Scope.v and Model/Builtins.v against
   Spec/ScopeSpec.v. *)
From Coq Require Import ZArith String Lia.
From Ecal Require Import Common.Bytes Common.Outcome Model.Scope Model.Builtins Spec.ScopeSpec.
Open Scope nat_scope.

(* ---- generic list facts ---------------------------------------------------------- *)
Lemma nth_error_list_upd_eq {A} (l : list A) i x :
  i < length l -> nth_error (list_upd l i x) i = Some x.
Proof.
  revert i; induction l as [|y l IH]; intros [|i] H; simpl in *; try lia; auto.
  apply IH; lia.
Qed.

Lemma nth_error_list_upd_neq {A} (l : list A) i j x :
  i <> j -> nth_error (list_upd l i x) j = nth_error l j.
Proof.
  revert i j; induction l as [|y l IH]; intros [|i] [|j] H; simpl; auto; try congruence.
Qed.

Lemma length_list_upd {A} (l : list A) i x : length (list_upd l i x) = length l.
Proof. revert i; induction l as [|y l IH]; intros [|i]; simpl; auto. Qed.

Lemma nth_list_upd_eq {A} (l : list A) i x d : i < length l -> nth i (list_upd l i x) d = x.
Proof.
  revert i; induction l as [|y l IH]; intros [|i] H; simpl in *; try lia; auto.
  apply IH; lia.
Qed.

Lemma nth_error_some_lt {A} (l : list A) i x : nth_error l i = Some x -> i < length l.
Proof. intros H. apply nth_error_Some. congruence. Qed.

(* ---- association lists ------------------------------------------------------------ *)
Section AssocFacts.
  Context {K V : Type} (eqb : K -> K -> bool).
  Hypothesis eqb_spec : forall a b, reflect (a = b) (eqb a b).

  Lemma assoc_get_set_eq k v (m : list (K * V)) : assoc_get eqb k (assoc_set eqb k v m) = Some v.
  Proof.
    induction m as [|[k' v'] m IH]; simpl.
    - destruct (eqb_spec k k); congruence.
    - destruct (eqb_spec k' k) as [->|Hn]; simpl.
      + destruct (eqb_spec k k); congruence.
      + destruct (eqb_spec k' k); congruence.
  Qed.

  Lemma assoc_get_set_neq k k2 v (m : list (K * V)) :
    k <> k2 -> assoc_get eqb k2 (assoc_set eqb k v m) = assoc_get eqb k2 m.
  Proof.
    intros Hn. induction m as [|[k' v'] m IH]; simpl.
    - destruct (eqb_spec k k2); congruence.
    - destruct (eqb_spec k' k) as [->|Hn']; simpl.
      + destruct (eqb_spec k k2); congruence.
      + destruct (eqb_spec k' k2); congruence.
  Qed.

  Lemma assoc_has_set_eq k v (m : list (K * V)) : assoc_has eqb k (assoc_set eqb k v m) = true.
  Proof. unfold assoc_has. rewrite assoc_get_set_eq. reflexivity. Qed.

  Lemma assoc_has_set_neq k k2 v (m : list (K * V)) :
    k <> k2 -> assoc_has eqb k2 (assoc_set eqb k v m) = assoc_has eqb k2 m.
  Proof. intros. unfold assoc_has. rewrite assoc_get_set_neq; auto. Qed.

  (* keys are unique *)
  Definition keys_nodup (m : list (K * V)) : Prop := NoDup (map fst m).

  Lemma assoc_get_none_notin k (m : list (K * V)) : assoc_get eqb k m = None -> ~ In k (map fst m).
  Proof.
    induction m as [|[k' v'] m IH]; simpl; auto.
    destruct (eqb_spec k' k); [discriminate|]. intros H [E|E]; [congruence|]. exact (IH H E).
  Qed.

  Lemma assoc_get_some_in k v (m : list (K * V)) : assoc_get eqb k m = Some v -> In k (map fst m).
  Proof.
    induction m as [|[k' v'] m IH]; simpl; [discriminate|].
    destruct (eqb_spec k' k); auto.
  Qed.

  Lemma assoc_set_keys k v (m : list (K * V)) :
    map fst (assoc_set eqb k v m) =
    if assoc_has eqb k m then map fst m else map fst m ++ [k].
  Proof.
    unfold assoc_has. induction m as [|[k' v'] m IH]; simpl; auto.
    destruct (eqb_spec k' k) as [->|Hn]; simpl; auto.
    rewrite IH. destruct (assoc_get eqb k m); reflexivity.
  Qed.

  Lemma assoc_set_nodup k v (m : list (K * V)) : keys_nodup m -> keys_nodup (assoc_set eqb k v m).
  Proof.
    unfold keys_nodup. intros H. rewrite assoc_set_keys. unfold assoc_has.
    destruct (assoc_get eqb k m) eqn:E; auto.
    apply assoc_get_none_notin in E. revert H E. generalize (map fst m) as l.
    induction l as [|a l IHl]; simpl; intros H E.
    - constructor; auto.
    - inversion H; subst. constructor.
      + rewrite in_app_iff. simpl. intros [?|[?|[]]]; [contradiction | subst; auto].
      + apply IHl; auto.
  Qed.

  Lemma assoc_set_length k v (m : list (K * V)) :
    length (assoc_set eqb k v m) = if assoc_has eqb k m then length m else S (length m).
  Proof.
    rewrite <- (map_length fst), assoc_set_keys. destruct (assoc_has eqb k m);
      rewrite ?app_length, map_length; simpl; lia.
  Qed.

  Lemma assoc_del_get_eq k (m : list (K * V)) : keys_nodup m -> assoc_get eqb k (assoc_del eqb k m) = None.
  Proof.
    unfold keys_nodup. induction m as [|[k' v'] m IH]; simpl; auto. intros H. inversion H; subst.
    destruct (eqb_spec k' k) as [->|Hn]; simpl.
    - destruct (assoc_get eqb k m) eqn:E; auto. apply assoc_get_some_in in E. contradiction.
    - destruct (eqb_spec k' k); [congruence|]. auto.
  Qed.

  Lemma assoc_del_get_neq k k2 (m : list (K * V)) :
    k <> k2 -> assoc_get eqb k2 (assoc_del eqb k m) = assoc_get eqb k2 m.
  Proof.
    intros Hn. induction m as [|[k' v'] m IH]; simpl; auto.
    destruct (eqb_spec k' k) as [->|Hn']; simpl.
    - destruct (eqb_spec k k2); congruence.
    - destruct (eqb_spec k' k2); auto.
  Qed.

  Lemma assoc_del_length k (m : list (K * V)) :
    length (assoc_del eqb k m) = if assoc_has eqb k m then pred (length m) else length m.
  Proof.
    unfold assoc_has. induction m as [|[k' v'] m IH]; simpl; auto.
    destruct (eqb_spec k' k); simpl; auto. rewrite IH.
    destruct (assoc_get eqb k m) eqn:E; auto. destruct m; simpl in *; [discriminate|lia].
  Qed.

  Lemma assoc_del_nodup k (m : list (K * V)) : keys_nodup m -> keys_nodup (assoc_del eqb k m).
  Proof.
    unfold keys_nodup. induction m as [|[k' v'] m IH]; simpl; auto. intros H. inversion H; subst.
    destruct (eqb_spec k' k); auto. simpl. constructor; auto.
    intros Hin. apply H2. clear - Hin eqb_spec. induction m as [|[k2 v2] m IH]; simpl in *; auto.
    destruct (eqb_spec k2 k); simpl in *; auto. destruct Hin; auto.
  Qed.
End AssocFacts.

Lemma key_eqb_spec a b : reflect (a = b) (key_eqb a b).
Proof.
  destruct a as [x|x], b as [y|y]; simpl; try (constructor; congruence).
  - destruct (Z.eqb_spec x y); constructor; congruence.
  - destruct (bytes_eqb_spec x y); constructor; congruence.
Qed.

(* ---- strings.Split ----------------------------------------------------------------- *)
Lemma split_dot_aux_nodot cur s : nodot s = true -> split_dot_aux cur s = [rev cur ++ s].
Proof.
  revert cur; induction s as [|c s IH]; intros cur H; simpl in *.
  - rewrite app_nil_r. reflexivity.
  - apply andb_true_iff in H as [Hc Hs]. apply negb_true_iff in Hc. rewrite Hc.
    rewrite IH; auto. simpl. rewrite <- app_assoc. reflexivity.
Qed.

Lemma split_dot_aux_app cur s r :
  nodot s = true -> split_dot_aux cur (s ++ DOT :: r) = (rev cur ++ s) :: split_dot_aux [] r.
Proof.
  revert cur; induction s as [|c s IH]; intros cur H; simpl in *.
  - rewrite ?N.eqb_refl, app_nil_r. reflexivity.
  - apply andb_true_iff in H as [Hc Hs]. apply negb_true_iff in Hc. rewrite Hc.
    rewrite IH; auto. simpl. rewrite <- app_assoc. reflexivity.
Qed.

Lemma split_dot_simple x : nodot x = true -> split_dot x = [x].
Proof. intros H. unfold split_dot. rewrite split_dot_aux_nodot; auto. Qed.

Lemma split_dot_join fs :
  fs <> [] -> forallb nodot fs = true -> split_dot (join_dot fs) = fs.
Proof.
  induction fs as [|f fs IH]; [congruence|]. intros _ H. simpl in H.
  apply andb_true_iff in H as [Hf Hfs]. destruct fs as [|g fs].
  - simpl. apply split_dot_simple; auto.
  - change (join_dot (f :: g :: fs)) with (f ++ DOT :: join_dot (g :: fs)).
    unfold split_dot. rewrite split_dot_aux_app; auto. simpl rev. simpl app at 1.
    f_equal. apply IH; auto. congruence.
Qed.

(* ---- getScopeForVariable = nearest enclosing definition ------------------------------ *)
Section LookupFacts.
  Variable scs : list scope.
  Hypothesis WF : wf_scopes scs.

  Lemma gsv_spec x : forall fuel s, s < fuel -> s < length scs ->
    (forall t, gsv fuel scs s x = Ok (Some t) <-> Resolves scs s x t) /\
    (gsv fuel scs s x = Ok None <-> Unbound scs s x) /\
    (exists r, gsv fuel scs s x = Ok r).
  Proof.
    induction fuel as [|fuel IH]; intros s Hf Hl; [lia|].
    simpl. destruct (nth_error scs s) as [sc|] eqn:Hs.
    2:{ apply nth_error_None in Hs. lia. }
    destruct (store_has x (sc_store sc)) eqn:Hh.
    - split; [|split].
      + intros t; split.
        * intros [= <-]. eapply R_here; eauto.
        * intros R. inversion R; subst; try congruence.
      + split; [discriminate|]. intros U. inversion U; subst; congruence.
      + eauto.
    - destruct (sc_parent sc) as [p|] eqn:Hp.
      + assert (Hps : p < s) by (eapply WF; eauto).
        destruct (IH p ltac:(lia) ltac:(lia)) as (IH1 & IH2 & IH3).
        split; [|split]; auto.
        * intros t; split.
          -- intros G. eapply R_up; eauto. apply IH1; auto.
          -- intros R. inversion R; subst; try congruence.
             apply IH1. replace p with p0 by congruence. auto.
        * split.
          -- intros G. eapply U_up; eauto. apply IH2; auto.
          -- intros U. inversion U; subst; try congruence.
             apply IH2. replace p with p0 by congruence. auto.
      + split; [|split].
        * intros t; split; [discriminate|]. intros R. inversion R; subst; congruence.
        * split; auto. intros _. eapply U_root; eauto.
        * eauto.
  Qed.

  Lemma resolves_has s x t : Resolves scs s x t ->
    exists sc, nth_error scs t = Some sc /\ store_has x (sc_store sc) = true.
  Proof. induction 1; eauto. Qed.

  Lemma resolves_chain s x t : Resolves scs s x t -> Chain scs s t.
  Proof. induction 1; [constructor | econstructor; eauto]. Qed.

  Lemma resolves_le s x t : Resolves scs s x t -> t <= s.
  Proof. induction 1; auto. assert (p < s) by (eapply WF; eauto). lia. Qed.

  Lemma resolves_det s x t1 t2 : Resolves scs s x t1 -> Resolves scs s x t2 -> t1 = t2.
  Proof.
    intros R1; revert t2; induction R1; intros t2 R2; inversion R2; subst; try congruence.
    apply IHR1. replace p with p0 by congruence. auto.
  Qed.

  Lemma resolves_not_unbound s x t : Resolves scs s x t -> Unbound scs s x -> False.
  Proof.
    induction 1; intros U; inversion U; subst; try congruence.
    all: try (apply IHResolves; replace p with p0 by congruence; auto).
  Qed.

  Lemma chain_le s t : Chain scs s t -> t <= s.
  Proof. induction 1; auto. assert (p < s) by (eapply WF; eauto). lia. Qed.

  Lemma unbound_chain_lacks p x i : Unbound scs p x -> Chain scs p i ->
    forall sc, nth_error scs i = Some sc -> store_has x (sc_store sc) = false.
  Proof.
    intros U C; revert U; induction C; intros U sc' Hn.
    - inversion U; subst; congruence.
    - inversion U; subst; try congruence.
      apply IHC; auto. replace p with p0 by congruence. auto.
  Qed.
End LookupFacts.

(* an update of one scope that is not on the chain of p leaves Unbound p x alone *)
Lemma unbound_upd scs p x t sc' :
  Unbound scs p x -> (forall i, Chain scs p i -> i <> t) -> Unbound (list_upd scs t sc') p x.
Proof.
  induction 1 as [s sc x Hn Hh Hp | s sc q x Hn Hh Hp U IH]; intros Hc.
  - eapply U_root; eauto. rewrite nth_error_list_upd_neq; auto.
    intros E. apply (Hc s); [constructor | auto].
  - eapply U_up; eauto.
    + rewrite nth_error_list_upd_neq; eauto. intros E. apply (Hc s); [constructor | auto].
    + apply IH. intros i Ci. apply Hc. econstructor; eauto.
Qed.

(* an update that keeps parent and the definedness of x leaves Unbound alone *)
Lemma unbound_upd_same scs p x t sc sc' :
  nth_error scs t = Some sc -> sc_parent sc' = sc_parent sc ->
  store_has x (sc_store sc') = store_has x (sc_store sc) ->
  Unbound scs p x -> Unbound (list_upd scs t sc') p x.
Proof.
  intros Ht Hp Hh. induction 1 as [s sc0 x Hn Hh0 Hp0 | s sc0 q x Hn Hh0 Hp0 U IH].
  - destruct (Nat.eq_dec t s) as [->|Hne].
    + eapply U_root; [apply nth_error_list_upd_eq; eapply nth_error_some_lt; eauto | |]; congruence.
    + eapply U_root; eauto. rewrite nth_error_list_upd_neq; auto.
  - destruct (Nat.eq_dec t s) as [->|Hne].
    + eapply U_up; [apply nth_error_list_upd_eq; eapply nth_error_some_lt; eauto | | |]; eauto; congruence.
    + eapply U_up; eauto. rewrite nth_error_list_upd_neq; auto.
Qed.

Lemma unbound_app scs extra p x : Unbound scs p x -> Unbound (scs ++ extra) p x.
Proof.
  induction 1.
  - eapply U_root; eauto. rewrite nth_error_app1; auto. eapply nth_error_some_lt; eauto.
  - eapply U_up; eauto. rewrite nth_error_app1; auto. eapply nth_error_some_lt; eauto.
Qed.

(* ---- store facts -------------------------------------------------------------------- *)
Lemma store_get_set_eq x v m : store_get x (store_set x v m) = Some v.
Proof. apply assoc_get_set_eq. apply bytes_eqb_spec. Qed.
Lemma store_get_set_neq x y v m : x <> y -> store_get y (store_set x v m) = store_get y m.
Proof. apply assoc_get_set_neq. apply bytes_eqb_spec. Qed.
Lemma store_has_set_eq x v m : store_has x (store_set x v m) = true.
Proof. apply assoc_has_set_eq. apply bytes_eqb_spec. Qed.
Lemma store_has_set_neq x y v m : x <> y -> store_has y (store_set x v m) = store_has y m.
Proof. apply assoc_has_set_neq. apply bytes_eqb_spec. Qed.

(* ---- set_simple: assignment ---------------------------------------------------------- *)
(* the scope an assignment to x from s writes to *)
Definition target_of (scs : list scope) (s : nat) (x : name) (t : nat) : Prop :=
  Resolves scs s x t \/ (Unbound scs s x /\ t = s).

Lemma set_simple_spec st s x v :
  wf_scopes (ss_scopes st) -> s < length (ss_scopes st) ->
  exists t sc, target_of (ss_scopes st) s x t /\ nth_error (ss_scopes st) t = Some sc /\
    set_simple st s x v = Ok (upd_scope st t (with_store sc (store_set x v (sc_store sc)))).
Proof.
  intros WF Hs. unfold set_simple, get_scope_for_variable.
  destruct (gsv_spec _ WF x (S s) s ltac:(lia) Hs) as (G1 & G2 & [r Hr]).
  rewrite Hr. simpl. destruct r as [t|].
  - apply G1 in Hr. destruct (resolves_has _ _ _ _ Hr) as (sc & Hn & _).
    exists t, sc. unfold get_scope. rewrite Hn. split; [left; auto | auto].
  - apply G2 in Hr. destruct (nth_error (ss_scopes st) s) as [sc|] eqn:Hn.
    2:{ apply nth_error_None in Hn. lia. }
    exists s, sc. unfold get_scope. rewrite Hn. split; [right; auto | auto].
Qed.

Lemma var_of_upd_eq scs t sc x v :
  nth_error scs t = Some sc ->
  var_of (list_upd scs t (with_store sc (store_set x v (sc_store sc)))) t x = Some v.
Proof.
  intros Hn. unfold var_of. rewrite nth_error_list_upd_eq by (eapply nth_error_some_lt; eauto).
  simpl. apply store_get_set_eq.
Qed.

Lemma var_of_upd_other scs t sc x v t' y :
  nth_error scs t = Some sc -> (t' <> t \/ y <> x) ->
  var_of (list_upd scs t (with_store sc (store_set x v (sc_store sc)))) t' y = var_of scs t' y.
Proof.
  intros Hn Hd. unfold var_of. destruct (Nat.eq_dec t t') as [<-|Hne].
  - rewrite nth_error_list_upd_eq by (eapply nth_error_some_lt; eauto). rewrite Hn. simpl.
    destruct Hd as [Hd|Hd]; [congruence|]. apply store_get_set_neq. congruence.
  - rewrite nth_error_list_upd_neq; auto.
Qed.

Lemma wf_upd_store scs t sc m :
  wf_scopes scs -> nth_error scs t = Some sc -> wf_scopes (list_upd scs t (with_store sc m)).
Proof.
  intros WF Hn i sc' p Hi Hp. destruct (Nat.eq_dec t i) as [<-|Hne].
  - rewrite nth_error_list_upd_eq in Hi by (eapply nth_error_some_lt; eauto).
    injection Hi as <-. simpl in Hp. eapply WF; eauto.
  - rewrite nth_error_list_upd_neq in Hi; auto. eapply WF; eauto.
Qed.

(* ---- by value: an assignment to y never changes what another name x denotes ----------- *)
Lemma gsv_upd_other scs t sc x y v : x <> y -> nth_error scs t = Some sc ->
  forall fuel s, gsv fuel (list_upd scs t (with_store sc (store_set y v (sc_store sc)))) s x = gsv fuel scs s x.
Proof.
  intros Hxy Hn. induction fuel as [|fuel IH]; intros s; simpl; auto.
  destruct (Nat.eq_dec t s) as [<-|Hne].
  - rewrite nth_error_list_upd_eq by (eapply nth_error_some_lt; eauto). rewrite Hn. simpl.
    rewrite store_has_set_neq by congruence.
    destruct (store_has x (sc_store sc)); auto. destruct (sc_parent sc); auto.
  - rewrite nth_error_list_upd_neq by auto.
    destruct (nth_error scs s) as [sc'|]; auto.
    destruct (store_has x (sc_store sc')); auto. destruct (sc_parent sc'); auto.
Qed.

Lemma get_simple_upd_other st t sc x y v s : x <> y -> nth_error (ss_scopes st) t = Some sc ->
  get_simple (upd_scope st t (with_store sc (store_set y v (sc_store sc)))) s x = get_simple st s x.
Proof.
  intros Hxy Hn. unfold get_simple, get_scope_for_variable, upd_scope. cbn [ss_scopes].
  rewrite gsv_upd_other; auto.
  destruct (gsv (S s) (ss_scopes st) s x) as [[t'|]| | |]; cbn [obind]; auto.
  unfold get_scope. cbn [ss_scopes]. destruct (Nat.eq_dec t t') as [<-|Hne].
  - rewrite nth_error_list_upd_eq by (eapply nth_error_some_lt; eauto). rewrite Hn. simpl.
    rewrite store_get_set_neq by congruence. reflexivity.
  - rewrite nth_error_list_upd_neq by auto. reflexivity.
Qed.

(* ---- assignment: nearest enclosing definition or else define here ---------------------- *)
Lemma assign_spec st s x v :
  wf_scopes (ss_scopes st) -> s < length (ss_scopes st) -> nodot x = true ->
  exists t st',
    set_value st s x v = Ok st' /\
    target_of (ss_scopes st) s x t /\
    var_of (ss_scopes st') t x = Some v /\
    (forall t' y, t' <> t \/ y <> x -> var_of (ss_scopes st') t' y = var_of (ss_scopes st) t' y) /\
    ss_heap st' = ss_heap st /\
    length (ss_scopes st') = length (ss_scopes st) /\
    wf_scopes (ss_scopes st').
Proof.
  intros WF Hs Hx. destruct (set_simple_spec st s x v WF Hs) as (t & sc & Ht & Hn & Hset).
  exists t, (upd_scope st t (with_store sc (store_set x v (sc_store sc)))).
  unfold set_value. rewrite split_dot_simple by auto. repeat split; auto.
  - apply var_of_upd_eq; auto.
  - intros t' y Hd. apply var_of_upd_other; auto.
  - simpl. apply length_list_upd.
  - simpl. apply wf_upd_store; auto.
Qed.

(* ---- let: always the current scope ---------------------------------------------------- *)
Lemma let_spec st s x v :
  wf_scopes (ss_scopes st) -> s < length (ss_scopes st) -> nodot x = true ->
  exists st',
    set_local_value st s x v = Ok st' /\
    var_of (ss_scopes st') s x = Some v /\
    (forall t' y, t' <> s \/ y <> x -> var_of (ss_scopes st') t' y = var_of (ss_scopes st) t' y) /\
    ss_heap st' = ss_heap st /\
    length (ss_scopes st') = length (ss_scopes st) /\
    wf_scopes (ss_scopes st').
Proof.
  intros WF Hs Hx. unfold set_local_value, get_scope.
  destruct (nth_error (ss_scopes st) s) as [sc|] eqn:Hn.
  2:{ apply nth_error_None in Hn. lia. }
  rewrite split_dot_simple by auto. simpl hd.
  set (st1 := upd_scope st s (with_store sc (store_set x VNull (sc_store sc)))).
  assert (Hn1 : nth_error (ss_scopes st1) s = Some (with_store sc (store_set x VNull (sc_store sc)))).
  { simpl. apply nth_error_list_upd_eq; auto. }
  unfold set_value. rewrite split_dot_simple by auto.
  unfold set_simple, get_scope_for_variable. cbn [gsv]. rewrite Hn1.
  cbn [sc_store with_store]. rewrite store_has_set_eq. cbn [obind]. unfold get_scope. rewrite Hn1.
  eexists; split; [reflexivity|].
  assert (Hl1 : s < length (ss_scopes st1)) by (simpl; rewrite length_list_upd; auto).
  repeat split.
  - unfold var_of. cbn [upd_scope ss_scopes]. rewrite nth_error_list_upd_eq by (simpl; rewrite ?length_list_upd; auto).
    cbn [sc_store with_store]. apply store_get_set_eq.
  - intros t' y Hd. unfold var_of. cbn [upd_scope ss_scopes]. destruct (Nat.eq_dec s t') as [<-|Hne].
    + rewrite nth_error_list_upd_eq by (simpl; rewrite ?length_list_upd; auto). rewrite Hn. cbn [sc_store with_store].
      destruct Hd as [Hd|Hd]; [congruence|].
      rewrite !store_get_set_neq by congruence. reflexivity.
    + rewrite nth_error_list_upd_neq by auto. simpl. rewrite nth_error_list_upd_neq by auto. reflexivity.
  - unfold st1. cbn [upd_scope ss_scopes]. rewrite !length_list_upd. reflexivity.
  - cbn [upd_scope ss_scopes]. apply (wf_upd_store _ s _ _ (wf_upd_store _ s sc _ WF Hn)).
    exact Hn1.
Qed.

(* ---- nothing defined in an inner scope is visible outside ------------------------------- *)
Lemma not_chain_later scs p s : wf_scopes scs -> p < s -> ~ Chain scs p s.
Proof. intros WF Hlt C. apply chain_le in C; auto. lia. Qed.

Lemma assign_keeps_unbound st s x v p st' :
  wf_scopes (ss_scopes st) -> s < length (ss_scopes st) -> nodot x = true ->
  Unbound (ss_scopes st) p x -> ~ Chain (ss_scopes st) p s ->
  set_value st s x v = Ok st' -> Unbound (ss_scopes st') p x.
Proof.
  intros WF Hs Hx U NC Hset.
  destruct (set_simple_spec st s x v WF Hs) as (t & sc & Ht & Hn & Hset').
  unfold set_value in Hset. rewrite split_dot_simple in Hset by auto.
  rewrite Hset' in Hset. injection Hset as <-. simpl.
  apply unbound_upd; auto. intros i Ci ->. destruct Ht as [R | [_ ->]]; [|auto].
  destruct (resolves_has _ _ _ _ R) as (sc' & Hn' & Hh).
  rewrite (unbound_chain_lacks _ _ _ _ U Ci _ Hn') in Hh. discriminate.
Qed.

Lemma assign_other_keeps_unbound st s x y v p st' :
  wf_scopes (ss_scopes st) -> s < length (ss_scopes st) -> nodot y = true -> x <> y ->
  Unbound (ss_scopes st) p x -> set_value st s y v = Ok st' -> Unbound (ss_scopes st') p x.
Proof.
  intros WF Hs Hy Hxy U Hset.
  destruct (set_simple_spec st s y v WF Hs) as (t & sc & Ht & Hn & Hset').
  unfold set_value in Hset. rewrite split_dot_simple in Hset by auto.
  rewrite Hset' in Hset. injection Hset as <-. simpl.
  eapply unbound_upd_same; eauto. simpl. apply store_has_set_neq. congruence.
Qed.

Lemma let_keeps_unbound st s x v p st' :
  wf_scopes (ss_scopes st) -> s < length (ss_scopes st) -> nodot x = true ->
  Unbound (ss_scopes st) p x -> ~ Chain (ss_scopes st) p s ->
  set_local_value st s x v = Ok st' -> Unbound (ss_scopes st') p x.
Proof.
  intros WF Hs Hx U NC Hset. unfold set_local_value, get_scope in Hset.
  destruct (nth_error (ss_scopes st) s) as [sc|] eqn:Hn; [|discriminate].
  rewrite split_dot_simple in Hset by auto. simpl hd in Hset.
  set (st1 := upd_scope st s (with_store sc (store_set x VNull (sc_store sc)))) in *.
  assert (U1 : Unbound (ss_scopes st1) p x).
  { simpl. apply unbound_upd; auto. intros i Ci ->. auto. }
  assert (WF1 : wf_scopes (ss_scopes st1)) by (simpl; apply wf_upd_store; auto).
  assert (NC1 : ~ Chain (ss_scopes st1) p s).
  { intros C. apply NC. clear - C Hn. simpl in C.
    induction C as [|q sc' q' t Hq Hp C IH]; [constructor|].
    destruct (Nat.eq_dec s q) as [<-|Hne].
    - rewrite nth_error_list_upd_eq in Hq by (eapply nth_error_some_lt; eauto).
      injection Hq as <-. simpl in Hp. econstructor; eauto.
    - rewrite nth_error_list_upd_neq in Hq by auto. econstructor; eauto. }
  eapply assign_keeps_unbound; eauto. simpl. rewrite length_list_upd. auto.
Qed.

Lemma let_other_keeps_unbound st s x y v p st' :
  wf_scopes (ss_scopes st) -> s < length (ss_scopes st) -> nodot y = true -> x <> y ->
  Unbound (ss_scopes st) p x -> set_local_value st s y v = Ok st' -> Unbound (ss_scopes st') p x.
Proof.
  intros WF Hs Hy Hxy U Hset. unfold set_local_value, get_scope in Hset.
  destruct (nth_error (ss_scopes st) s) as [sc|] eqn:Hn; [|discriminate].
  rewrite split_dot_simple in Hset by auto. simpl hd in Hset.
  eapply assign_other_keeps_unbound; [| | | | |exact Hset]; auto.
  - simpl. apply wf_upd_store; auto.
  - simpl. rewrite length_list_upd. auto.
  - simpl. eapply unbound_upd_same; eauto. simpl. apply store_has_set_neq. congruence.
Qed.

(* ---- write then read through an access path ---------------------------------------------- *)
Lemma list_index_lt len f i : list_index len f = Ok i -> i < len.
Proof.
  unfold list_index. destruct (atoi f) as [z|]; [|discriminate].
  set (z' := if (z <? 0)%Z then (Z.of_nat len + z)%Z else z).
  destruct ((0 <=? z')%Z && (z' <? Z.of_nat len)%Z) eqn:H; [|discriminate].
  apply andb_true_iff in H as [H0 H1]. apply Z.leb_le in H0. apply Z.ltb_lt in H1.
  intros [= <-]. lia.
Qed.

(* no access through a path can panic on a list index any more *)
Lemma list_index_no_panic len f : forall site, list_index len f <> Panic site.
Proof.
  intros site. unfold list_index. destruct (atoi f); [|discriminate].
  destruct (_ && _); discriminate.
Qed.

Lemma map_field_key_set m f v :
  map_field_key (map_set (map_field_key m f) v m) f = map_field_key m f.
Proof.
  unfold map_field_key. destruct (atoi f) as [i|]; auto.
  destruct (map_has (KNum i) m) eqn:Hh.
  - unfold map_has, map_set. rewrite (assoc_has_set_eq _ key_eqb_spec). reflexivity.
  - unfold map_has, map_set in *. rewrite (assoc_has_set_neq _ key_eqb_spec) by congruence.
    rewrite Hh. reflexivity.
Qed.

(* the container reached by the write is read back with the value written *)
Lemma write_then_read_step h c f v h' :
  write_field h c f v = Ok h' -> read_step h' c f = Ok v.
Proof.
  unfold write_field, read_step. destruct c as [| | | |a|]; try discriminate.
  destruct (nth_error h a) as [[l|m]|] eqn:Ha; try discriminate.
  - destruct (list_index (length l) f) as [i| | |] eqn:Hi; try discriminate. cbn [obind].
    intros [= <-]. rewrite nth_error_list_upd_eq by (eapply nth_error_some_lt; eauto).
    rewrite length_list_upd, Hi. cbn [obind]. apply list_index_lt in Hi.
    rewrite nth_list_upd_eq; auto.
  - intros [= <-]. rewrite nth_error_list_upd_eq by (eapply nth_error_some_lt; eauto).
    rewrite map_field_key_set. unfold map_get, map_set.
    rewrite (assoc_get_set_eq _ key_eqb_spec). reflexivity.
Qed.

Lemma read_path_app h c fs f :
  read_path h c (fs ++ [f]) = obind (read_path h c fs) (fun c' => read_step h c' f).
Proof.
  revert c; induction fs as [|g fs IH]; intros c; simpl.
  - destruct (read_step h c f); reflexivity.
  - destruct (read_step h c g); simpl; auto.
Qed.

Lemma removelast_snoc {A} (l : list A) x : removelast (l ++ [x]) = l.
Proof. apply removelast_last. Qed.
Lemma last_snoc {A} (l : list A) x d : last (l ++ [x]) d = x.
Proof. apply last_last. Qed.

Lemma get_simple_same_scopes st h s x : get_simple (mkSS (ss_scopes st) h) s x = get_simple st s x.
Proof. reflexivity. Qed.

(* General form (also the aliasing law): a successful write through the path rooted at y
   is read back through the same path rooted at any name x that denotes the same value —
   provided the write did not redirect its own access path ([Hpath]; vacuous for c.k and
   c[k], where [fields] is empty). *)
Lemma write_read_via_root st s y x fields f v st' :
  nodot y = true -> nodot x = true -> forallb nodot fields = true -> nodot f = true ->
  set_value st s (join_dot (y :: fields ++ [f])) v = Ok st' ->
  get_simple st s x = get_simple st s y ->
  (forall c c', get_simple st s y = Ok (c, true) -> walk_path (ss_heap st) c fields = Ok c' ->
                read_path (ss_heap st') c fields = Ok c') ->
  get_value st' s (join_dot (x :: fields ++ [f])) = Ok (v, negb (is_null v)).
Proof.
  intros Hy Hx Hfs Hf Hset Halias Hpath.
  assert (Hall : forall r, nodot r = true -> forallb nodot (r :: fields ++ [f]) = true).
  { intros r Hr. simpl. rewrite Hr, forallb_app, Hfs. simpl. rewrite Hf. reflexivity. }
  unfold set_value in Hset. rewrite split_dot_join in Hset by (auto; congruence).
  unfold get_value. rewrite split_dot_join by (auto; congruence).
  remember (fields ++ [f]) as l eqn:Hl. destruct l as [|g rest]; [destruct fields; discriminate|].
  cbv iota in Hset |- *. rewrite Hl in *. clear Hl g rest.
  destruct (get_simple st s y) as [[c ok]| | |] eqn:Hgy; try discriminate. cbn [obind] in Hset.
  destruct ok; cbn [negb] in Hset; [|discriminate].
  rewrite removelast_snoc, last_snoc in Hset.
  destruct (walk_path (ss_heap st) c fields) as [c'| | |] eqn:Hw; try discriminate. cbn [obind] in Hset.
  destruct (write_field (ss_heap st) c' f v) as [h'| | |] eqn:Hwf; try discriminate. cbn [obind] in Hset.
  injection Hset as <-.
  rewrite get_simple_same_scopes, Halias. cbn [obind negb ss_heap].
  rewrite read_path_app.
  pose proof (Hpath c c' eq_refl Hw) as Hp. cbn [ss_heap] in Hp. rewrite Hp. cbn [obind].
  rewrite (write_then_read_step _ _ _ _ _ Hwf). reflexivity.
Qed.

(* ---- the list / map built-ins against the list and finite-map reference ------------------ *)
Lemma firstn_app_le {A} (l r : list A) n : n <= length l -> firstn n (l ++ r) = firstn n l.
Proof. intros. rewrite firstn_app. replace (n - length l) with 0 by lia. simpl. apply app_nil_r. Qed.

Lemma list_upd_app_mid {A} (a : list A) x b y : list_upd (a ++ x :: b) (length a) y = a ++ y :: b.
Proof. induction a; simpl; auto. rewrite IHa. reflexivity. Qed.

Lemma go_copy_insert (a b : list val) z v :
  list_upd (go_copy_within ((a ++ b) ++ [z]) (S (length a)) (length a)) (length a) v = a ++ v :: b.
Proof.
  unfold go_copy_within. rewrite !app_length. simpl length.
  replace (Nat.min (length a + length b + 1 - S (length a)) (length a + length b + 1 - length a))
    with (length b) by lia.
  rewrite <- app_assoc. rewrite skipn_app_length.
  rewrite (firstn_app_le b [z] (length b)) by lia. rewrite firstn_all.
  destruct (b ++ [z]) as [|y bz] eqn:Hbz; [destruct b; discriminate|].
  assert (Hlen : length (y :: bz) = length b + 1) by (rewrite <- Hbz, app_length; simpl; lia).
  assert (E3 : firstn (S (length a)) (a ++ y :: bz) = a ++ [y]).
  { rewrite firstn_app. rewrite firstn_all2 by lia.
    replace (S (length a) - length a) with 1 by lia. reflexivity. }
  rewrite E3.
  assert (E4 : skipn (S (length a) + length b) (a ++ y :: bz) = []).
  { apply skipn_all2. rewrite app_length. simpl in *. lia. }
  rewrite E4, app_nil_r. rewrite <- app_assoc. simpl.
  apply list_upd_app_mid.
Qed.

Lemma go_add_at_refines l v i :
  (0 <= i <= Z.of_nat (length l))%Z ->
  go_add_at l v i = Ok (insert_at l (Z.to_nat i) v).
Proof.
  intros Hi. unfold go_add_at.
  rewrite (proj2 (Z.leb_le 0 i)) by lia. rewrite (proj2 (Z.leb_le i (Z.of_nat (length l)))) by lia.
  cbn [andb]. f_equal.
  set (n := Z.to_nat i). assert (Hn : n <= length l) by lia.
  unfold insert_at.
  assert (Ha : length (firstn n l) = n) by (rewrite firstn_length; lia).
  pose proof (go_copy_insert (firstn n l) (skipn n l) (VNum 0) v) as G.
  rewrite firstn_skipn, Ha in G. exact G.
Qed.

Lemma go_add_at_errors l v i :
  (i < 0 \/ Z.of_nat (length l) < i)%Z -> exists e, go_add_at l v i = Err e.
Proof.
  intros Hi. unfold go_add_at.
  destruct ((0 <=? i)%Z && (i <=? Z.of_nat (length l))%Z) eqn:E; [|eauto].
  apply andb_true_iff in E as [E0 E1]. apply Z.leb_le in E0, E1. lia.
Qed.

Lemma go_del_at_refines l i :
  (0 <= i < Z.of_nat (length l))%Z -> go_del_at l i = Ok (remove_at l (Z.to_nat i)).
Proof.
  intros Hi. unfold go_del_at, remove_at.
  rewrite (proj2 (Z.leb_le 0 i)) by lia. rewrite (proj2 (Z.ltb_lt i (Z.of_nat (length l)))) by lia.
  cbn [andb]. replace (Z.to_nat (i + 1)) with (S (Z.to_nat i)) by lia. reflexivity.
Qed.

Lemma go_del_at_errors l i :
  (i < 0 \/ Z.of_nat (length l) <= i)%Z -> exists e, go_del_at l i = Err e.
Proof.
  intros Hi. unfold go_del_at.
  destruct ((0 <=? i)%Z && (i <? Z.of_nat (length l))%Z) eqn:E; [|eauto].
  apply andb_true_iff in E as [E0 E1]. apply Z.leb_le in E0. apply Z.ltb_lt in E1. lia.
Qed.

Lemma go_concat_refines ls : go_concat ls = concat ls.
Proof.
  unfold go_concat. assert (G : forall acc, fold_left (fun a l => a ++ l) ls acc = acc ++ concat ls).
  { induction ls as [|l ls IH]; intros acc; simpl; [rewrite app_nil_r; auto|].
    rewrite IH, app_assoc. reflexivity. }
  apply G.
Qed.

(* del(m, k) removes exactly the entry that m[k] reads; every other key keeps its value *)
Lemma go_map_del_spec m k :
  keys_nodup m ->
  let k0 := map_field_key m (key_text k) in
  map_get k0 (go_map_del m k) = None /\
  (forall k', k' <> k0 -> map_get k' (go_map_del m k) = map_get k' m) /\
  length (go_map_del m k) = (if map_has k0 m then pred (length m) else length m) /\
  keys_nodup (go_map_del m k).
Proof.
  intros ND k0. unfold go_map_del, map_get, map_del, map_has. fold k0. repeat split.
  - apply (assoc_del_get_eq _ key_eqb_spec); auto.
  - intros k' Hk. apply (assoc_del_get_neq _ key_eqb_spec). congruence.
  - apply (assoc_del_length _ key_eqb_spec).
  - apply (assoc_del_nodup _ key_eqb_spec); auto.
Qed.

(* m[k] := v on a map: the key read back, all other keys, the size *)
Lemma map_write_spec m f v :
  keys_nodup m ->
  let k0 := map_field_key m f in
  let m' := map_set k0 v m in
  map_get k0 m' = Some v /\
  (forall k', k' <> k0 -> map_get k' m' = map_get k' m) /\
  length m' = (if map_has k0 m then length m else S (length m)) /\
  keys_nodup m'.
Proof.
  intros ND k0 m'. unfold m', map_get, map_set, map_has. repeat split.
  - apply (assoc_get_set_eq _ key_eqb_spec).
  - intros k' Hk. apply (assoc_get_set_neq _ key_eqb_spec). congruence.
  - apply (assoc_set_length _ key_eqb_spec).
  - apply (assoc_set_nodup _ key_eqb_spec); auto.
Qed.

(* ---- sequences of scope operations ---------------------------------------------------------- *)
Lemma set_value_keeps st s path v st' :
  wf_scopes (ss_scopes st) -> s < length (ss_scopes st) ->
  set_value st s path v = Ok st' ->
  wf_scopes (ss_scopes st') /\ length (ss_scopes st') = length (ss_scopes st) /\
  (forall p x, Unbound (ss_scopes st) p x -> ~ Chain (ss_scopes st) p s -> Unbound (ss_scopes st') p x).
Proof.
  intros WF Hs Hset. unfold set_value in Hset.
  destruct (split_dot path) as [|r [|g rest]]; [discriminate| |].
  - destruct (set_simple_spec st s r v WF Hs) as (t & sc & Ht & Hn & Hset').
    rewrite Hset' in Hset. injection Hset as <-. simpl. repeat split.
    + apply wf_upd_store; auto.
    + apply length_list_upd.
    + intros p x U NC. destruct (bytes_eqb_spec r x) as [->|Hne].
      * apply unbound_upd; auto. intros i Ci ->. destruct Ht as [R | [_ ->]]; [|auto].
        destruct (resolves_has _ _ _ _ R) as (sc' & Hn' & Hh).
        rewrite (unbound_chain_lacks _ _ _ _ U Ci _ Hn') in Hh. discriminate.
      * eapply unbound_upd_same; eauto. simpl. apply store_has_set_neq. congruence.
  - destruct (get_simple st s r) as [[c ok]| | |]; try discriminate. cbn [obind] in Hset.
    destruct ok; cbn [negb] in Hset; [|discriminate].
    destruct (walk_path _ _ _); try discriminate. cbn [obind] in Hset.
    destruct (write_field _ _ _ _); try discriminate. cbn [obind] in Hset.
    injection Hset as <-. simpl. auto.
Qed.

Lemma chain_upd_store scs s sc m p t :
  nth_error scs s = Some sc -> Chain (list_upd scs s (with_store sc m)) p t -> Chain scs p t.
Proof.
  intros Hn C. induction C as [|q sc' q' t Hq Hp C IH]; [constructor|].
  destruct (Nat.eq_dec s q) as [<-|Hne].
  - rewrite nth_error_list_upd_eq in Hq by (eapply nth_error_some_lt; eauto).
    injection Hq as <-. simpl in Hp. econstructor; eauto.
  - rewrite nth_error_list_upd_neq in Hq by auto. econstructor; eauto.
Qed.

Lemma set_local_value_keeps st s path v st' :
  wf_scopes (ss_scopes st) -> s < length (ss_scopes st) ->
  set_local_value st s path v = Ok st' ->
  wf_scopes (ss_scopes st') /\ length (ss_scopes st') = length (ss_scopes st) /\
  (forall p x, Unbound (ss_scopes st) p x -> ~ Chain (ss_scopes st) p s -> Unbound (ss_scopes st') p x).
Proof.
  intros WF Hs Hset. unfold set_local_value, get_scope in Hset.
  destruct (nth_error (ss_scopes st) s) as [sc|] eqn:Hn; [|discriminate].
  set (x0 := hd [] (split_dot path)) in *.
  set (st1 := upd_scope st s (with_store sc (store_set x0 VNull (sc_store sc)))) in *.
  assert (WF1 : wf_scopes (ss_scopes st1)) by (simpl; apply wf_upd_store; auto).
  assert (Hs1 : s < length (ss_scopes st1)) by (simpl; rewrite length_list_upd; auto).
  destruct (set_value_keeps st1 s path v st' WF1 Hs1 Hset) as (W & L & K).
  repeat split; auto.
  - rewrite L. simpl. apply length_list_upd.
  - intros p x U NC. apply K.
    + simpl. apply unbound_upd; auto. intros i Ci ->. auto.
    + intros C. apply NC. simpl in C. eapply chain_upd_store; eauto.
Qed.

Lemma wf_app_new scs nm parent :
  wf_scopes scs -> (forall q, parent = Some q -> q < length scs) ->
  wf_scopes (scs ++ [mkScope nm parent [] []]).
Proof.
  intros WF Hp i sc p Hi Hpar. destruct (Nat.lt_ge_cases i (length scs)) as [Hlt|Hge].
  - rewrite nth_error_app1 in Hi by auto. eapply WF; eauto.
  - rewrite nth_error_app2 in Hi by auto. destruct (i - length scs) as [|k] eqn:E.
    + simpl in Hi. injection Hi as <-. simpl in Hpar. apply Hp in Hpar. lia.
    + simpl in Hi. destruct k; discriminate.
Qed.

Lemma wf_upd_children scs s sc cs :
  wf_scopes scs -> nth_error scs s = Some sc ->
  wf_scopes (list_upd scs s (mkScope (sc_name sc) (sc_parent sc) cs (sc_store sc))).
Proof.
  intros WF Hn i sc' p Hi Hp. destruct (Nat.eq_dec s i) as [<-|Hne].
  - rewrite nth_error_list_upd_eq in Hi by (eapply nth_error_some_lt; eauto).
    injection Hi as <-. simpl in Hp. eapply WF; eauto.
  - rewrite nth_error_list_upd_neq in Hi; auto. eapply WF; eauto.
Qed.

Definition op_inside (p : nat) (op : sop) : Prop :=
  match op with
  | OSet s _ _ | OLet s _ _ => p < s
  | _ => True
  end.

Lemma step_keeps st op st' p x :
  wf_scopes (ss_scopes st) -> op_inside p op -> step st op = Ok st' ->
  Unbound (ss_scopes st) p x ->
  wf_scopes (ss_scopes st') /\ length (ss_scopes st) <= length (ss_scopes st') /\
  Unbound (ss_scopes st') p x.
Proof.
  intros WF Hin Hstep U. destruct op as [nm [q|]|s nm|s path v|s path v|c]; simpl in Hstep.
  - destruct (q <? length (ss_scopes st)) eqn:Hq; [|discriminate]. injection Hstep as <-.
    apply Nat.ltb_lt in Hq. simpl. rewrite app_length. simpl. repeat split; try lia.
    + apply wf_app_new; auto. intros q' [= <-]. auto.
    + apply unbound_app; auto.
  - injection Hstep as <-. simpl. rewrite app_length. simpl. repeat split; try lia.
    + apply wf_app_new; auto. discriminate.
    + apply unbound_app; auto.
  - unfold new_child, get_scope in Hstep.
    destruct (nth_error (ss_scopes st) s) as [sc|] eqn:Hn; [|discriminate].
    destruct (find_child _ _ _).
    + simpl in Hstep. injection Hstep as <-. auto.
    + simpl in Hstep. injection Hstep as <-. simpl. rewrite app_length, length_list_upd. simpl.
      repeat split; try lia.
      * apply wf_app_new.
        -- apply wf_upd_children; auto.
        -- intros q [= <-]. rewrite length_list_upd. eapply nth_error_some_lt; eauto.
      * apply unbound_app. eapply unbound_upd_same; eauto.
  - destruct (s <? length (ss_scopes st)) eqn:Hs; [|discriminate]. apply Nat.ltb_lt in Hs.
    destruct (set_value_keeps _ _ _ _ _ WF Hs Hstep) as (W & L & K). repeat split; auto; try lia.
    apply K; auto. apply not_chain_later; auto.
  - destruct (s <? length (ss_scopes st)) eqn:Hs; [|discriminate]. apply Nat.ltb_lt in Hs.
    destruct (set_local_value_keeps _ _ _ _ _ WF Hs Hstep) as (W & L & K). repeat split; auto; try lia.
    apply K; auto. apply not_chain_later; auto.
  - injection Hstep as <-. simpl. auto.
Qed.

Lemma run_ops_keeps ops : forall st st' p x,
  wf_scopes (ss_scopes st) -> Forall (op_inside p) ops -> run_ops st ops = Ok st' ->
  Unbound (ss_scopes st) p x ->
  wf_scopes (ss_scopes st') /\ length (ss_scopes st) <= length (ss_scopes st') /\
  Unbound (ss_scopes st') p x.
Proof.
  induction ops as [|op ops IH]; intros st st' p x WF Hin Hrun U; simpl in Hrun.
  - injection Hrun as <-. auto.
  - inversion Hin; subst. destruct (step st op) as [st1| | |] eqn:Hs; try discriminate.
    cbn [obind] in Hrun. destruct (step_keeps _ _ _ _ _ WF H1 Hs U) as (W1 & L1 & U1).
    destruct (IH _ _ _ _ W1 H2 Hrun U1) as (W2 & L2 & U2). repeat split; auto. lia.
Qed.

Lemma wf_empty : wf_scopes [].
Proof. intros i sc p H. destruct i; discriminate. Qed.
