(* Proofs/StmtTop2.v — C08, statement level, extended guards (Spec/StmtFormatSpec2.v: try /
   except / otherwise / finally and func allowed): the mutual induction over statements /
   blocks / elif-else tails / except clauses / optional blocks, "no printed token is EOF", the
   top-level statement loop and ParseWithRuntime on the printed program (as Proofs/StmtTop.v,
   for [wfP2]). *)
From Coq Require Import List String NArith Bool Arith Lia ZArith.
From Ecal Require Import Common.Bytes Common.Ast gen.Tokens gen.Grammar Spec.ParseSpec
     Model.Printer Proofs.PrinterProofs Model.StmtPrinter Spec.StmtFormatSpec Spec.StmtFormatSpec2 Model.Parser
     Proofs.StmtState Proofs.StmtExpr Proofs.StmtProofs Proofs.StmtKey Proofs.StmtNoEof Proofs.StmtTop
     Proofs.StmtKey2 Proofs.StmtTry Proofs.StmtFunc.
Import ListNotations.
Local Open Scope string_scope.
Local Open Scope nat_scope.
Local Open Scope list_scope.

(* ---------------------------------------------------------------------------------- *)
(* the mutual induction *)

Theorem stmt_key2 :
  (forall s, PS2 s) /\ (forall b, PB2 b) /\ (forall r, PT2 r) /\
  (forall (e : StmtPrinter.excepts), PX2 e) /\ (forall (o : oblock), PO2 o).
Proof.
  apply stmt_mutind.
  - apply ps_expr2.
  - apply ps_return0_2.
  - apply ps_return1_2.
  - intros g b [_ Hb] r Hr. apply ps_if2; assumption.
  - intros g b [_ Hb]. apply ps_for2; assumption.
  - intros x b [_ Hb]. apply ps_mutex2; assumption.
  - intros b [_ Hb] ex Hx ow Ho fin Hf. apply ps_try2; assumption.
  - intros x ps b [_ Hb]. apply ps_func2; assumption.
  - split; [apply lines_nil2 | apply pis_nil2].
  - intros s Hs b [Hl _]. split; [apply lines_cons2 | apply pis_cons2]; assumption.
  - apply pt_none2.
  - intros b [_ Hb]. apply pt_else2; assumption.
  - intros g b [_ Hb] r Hr. apply pt_elif2; assumption.
  - apply px_nil.
  - intros names bind b [_ Hb] r Hr. apply px_cons; assumption.
  - apply po_none.
  - intros b [_ Hb]. apply po_some; assumption.
Qed.

Lemma ps_all2 s : PS2 s. Proof. apply stmt_key2. Qed.

(* ---------------------------------------------------------------------------------- *)
(* no printed token is the end-of-file token *)

Lemma ne_names names bind : no_eof_token (pp_names names bind) = true.
Proof.
  induction names as [|p r IH]; [reflexivity|]. destruct r as [|p2 r'].
  - cbn [pp_names]. destruct bind; reflexivity.
  - change (pp_names (p :: p2 :: r') bind) with (strt p :: kw TokenCOMMA :: pp_names (p2 :: r') bind).
    rewrite !ne_cons, IH. reflexivity.
Qed.

Lemma ne_bind bind : no_eof_token (pp_bind bind) = true.
Proof. destruct bind; reflexivity. Qed.

Lemma ne_join ps : Forall wfe ps -> no_eof_token (join_comma (map pp ps)) = true.
Proof.
  induction 1 as [|p r Hp Hr IH]; [reflexivity|]. destruct r as [|p2 r'].
  - cbn [map join_comma]. apply ne_expr; exact Hp.
  - cbn [map] in *. rewrite join_comma_cons2, ne_app, ne_cons, IH, (ne_expr p Hp). reflexivity.
Qed.

Definition NS2 (s : stmt) : Prop := wfS2 s -> no_eof_token (pp_stmt s) = true.
Definition NB2 (b : sblock) : Prop := wfB2 b -> no_eof_token (pp_lines b) = true /\ no_eof_token (pp_more b) = true.
Definition NT2 (r : iftail) : Prop := wfT2 r -> no_eof_token (pp_tail r) = true.
Definition NX2 (ex : StmtPrinter.excepts) : Prop := wfX2 ex -> no_eof_token (pp_excepts ex) = true.
Definition NO2 (o : oblock) : Prop := wfO2 o -> forall id, id <> TokenEOF -> no_eof_token (pp_oblock id o) = true.

Theorem no_eof_all2 :
  (forall s, NS2 s) /\ (forall b, NB2 b) /\ (forall r, NT2 r) /\
  (forall (e : StmtPrinter.excepts), NX2 e) /\ (forall (o : oblock), NO2 o).
Proof.
  apply stmt_mutind.
  - intros e W. apply ne_expr; exact W.
  - intros _. reflexivity.
  - intros e W. change (pp_stmt (SReturn1 e)) with (kw TokenRETURN :: pp e). rewrite ne_cons, (ne_expr e W). reflexivity.
  - intros g b Hb r Hr W. cbn [wfS2] in W. destruct W as (Wg & Wb & Wr).
    change (pp_stmt (SIf g b r)) with (kw TokenIF :: pp g ++ block (pp_lines b) ++ pp_tail r).
    rewrite ne_cons, !ne_app, (ne_expr g Wg), (ne_block _ (proj1 (Hb Wb))), (Hr Wr). reflexivity.
  - intros g b Hb W. cbn [wfS2] in W. destruct W as (Wg & Wb).
    change (pp_stmt (SFor g b)) with (kw TokenFOR :: pp g ++ block (pp_lines b)).
    rewrite ne_cons, !ne_app, (ne_expr g Wg), (ne_block _ (proj1 (Hb Wb))). reflexivity.
  - intros x b Hb W. cbn [wfS2] in W.
    change (pp_stmt (SMutex x b)) with (kw TokenMUTEX :: identt x :: block (pp_lines b) ++ [NL]).
    rewrite !ne_cons, !ne_app, (ne_block _ (proj1 (Hb W))). reflexivity.
  - intros b Hb ex Hx ow Ho fin Hf W. cbn [wfS2] in W. destruct W as (Wb & Wx & Wo & Wf).
    change (pp_stmt (STry b ex ow fin)) with
      (kw TokenTRY :: block (pp_lines b) ++ pp_excepts ex ++ pp_oblock TokenOTHERWISE ow ++ pp_oblock TokenFINALLY fin).
    rewrite ne_cons, !ne_app, (ne_block _ (proj1 (Hb Wb))), (Hx Wx), (Ho Wo TokenOTHERWISE), (Hf Wf TokenFINALLY) by discriminate.
    reflexivity.
  - intros x ps b Hb W. cbn [wfS2] in W. destruct W as (Wps & Wb).
    change (pp_stmt (SFunc x ps b)) with
      (kw TokenFUNC :: identt x :: kw TokenLPAREN :: join_comma (map pp ps) ++ kw TokenRPAREN :: block (pp_lines b)).
    rewrite !ne_cons, ne_app, ne_cons, (ne_join ps Wps), (ne_block _ (proj1 (Hb Wb))). reflexivity.
  - intros _. split; reflexivity.
  - intros s Hs b Hb W. cbn [wfB2] in W. destruct W as (Ws & Wb). destruct (Hb Wb) as [_ Hm].
    cbn [pp_lines pp_more]. rewrite !ne_app, !ne_cons, ne_sep, (Hs Ws), Hm. split; reflexivity.
  - intros _. reflexivity.
  - intros b Hb W. cbn [wfT2] in W. cbn [pp_tail]. rewrite ne_cons, (ne_block _ (proj1 (Hb W))). reflexivity.
  - intros g b Hb r Hr W. cbn [wfT2] in W. destruct W as (Wg & Wb & Wr & _).
    cbn [pp_tail]. rewrite ne_cons, !ne_app, (ne_expr g Wg), (ne_block _ (proj1 (Hb Wb))), (Hr Wr). reflexivity.
  - intros _. reflexivity.
  - intros names bind b Hb r Hr W. cbn [wfX2] in W. destruct W as (_ & Wb & Wr).
    cbn [pp_excepts]. rewrite ne_cons, !ne_app, ne_names, ne_bind, (ne_block _ (proj1 (Hb Wb))), (Hr Wr). reflexivity.
  - intros _ id _. reflexivity.
  - intros b Hb W id Hid. cbn [wfO2] in W. cbn [pp_oblock]. rewrite ne_cons, (ne_kw id Hid), (ne_block _ (proj1 (Hb W))). reflexivity.
Qed.

Lemma no_eof_prog2 b : wfB2 b -> no_eof_token (pp_prog b) = true.
Proof.
  intros W. destruct no_eof_all2 as (HS & HB & _). destruct b as [|s [|s2 r]].
  - reflexivity.
  - cbn [wfB2] in W. cbn [pp_prog]. apply HS. apply W.
  - change (pp_prog (BCons s (BCons s2 r))) with (pp_lines (BCons s (BCons s2 r))). apply HB; exact W.
Qed.

(* ---------------------------------------------------------------------------------- *)
(* the top-level statement loop *)

Lemma eof_sep2' ln e : t_id e = TokenEOF -> sepT2 ln e.
Proof. intros H. split; [apply eof_sep'; exact H|]. rewrite H. repeat split; discriminate. Qed.

Lemma eof_sep2 ln le epos : sepT2 ln (eoft le epos).
Proof. apply eof_sep2'. reflexivity. Qed.

Lemma top_head2 r ln2 e : wfB2 r -> t_id e = TokenEOF ->
  exists tc2 k2, lay ln2 (pp_more r) ++ [e] = tc2 :: k2 /\
    (r = BNil -> tc2 = e /\ k2 = []) /\
    (r <> BNil -> (forall ln, ln < ln2 -> sepT2 ln tc2 /\ ln < t_line tc2) /\ (t_id tc2 =? TokenEOF) = false).
Proof.
  intros W He. destruct r as [|s r].
  - cbn [pp_more lay app]. do 2 eexists. split; [reflexivity|]. split; [auto | congruence].
  - cbn [wfB2] in W. destruct W as (Ws & Wr).
    destruct (stmt_head2 s Ws) as (id & v & a & rr & E & H).
    rewrite lay_top_more, lay_sep. destruct (continues (pp_stmt s)) eqn:C.
    + cbn [app]. do 2 eexists. split; [reflexivity|]. split; [discriminate|]. intros _. split; [|reflexivity].
      intros ln Hl. split; [apply semi_sep2; exact Hl | exact Hl].
    + rewrite E in *. cbn [lay app]. do 2 eexists. split; [reflexivity|]. split; [discriminate|].
      rewrite continues_head in C. intros _. split.
      * intros ln Hl. split; [apply hstart_sep2; assumption | exact Hl].
      * cbn [tk t_id]. apply (hstart_not id TokenEOF H). unfold closers; simpl; tauto.
Qed.

Lemma top_lines2 r : wfB2 r -> last_is_return0 r = false ->
  forall fuel kf n acc ln e,
    t_id e = TokenEOF -> n_line (snd n) < ln ->
    List.length (lay ln (pp_more r)) + 1 < fuel ->
    List.length (lay ln (pp_more r)) + 1 <= kf ->
    exists trs,
      top_new V fuel kf n acc (pos false (lay ln (pp_more r) ++ [e])) = ROk (acc ++ trs) (st (Some (cn false e)) [] false)
      /\ map strip trs = embed_block r.
Proof.
  induction r as [|s r IH]; intros W Hlast fuel kf n acc ln e He Hn Hfuel Hkf; destruct n as [ni nd]; cbn [snd] in Hn.
  - exists []. cbn [pp_more lay app pos]. rewrite app_nil_r. split; [|reflexivity].
    destruct kf as [|kf]; [cbn [pp_more lay List.length] in Hkf; lia|].
    cbn [top_new]. unfold has_more. rewrite cur_st. cbn [cn fst]. rewrite He. reflexivity.
  - cbn [wfB2] in W. destruct W as (Ws & Wr).
    pose proof (len_of _ _ (lay_top_more ln s r [])) as Hl0. rewrite !app_nil_r, !app_length in Hl0.
    rewrite Hl0 in Hfuel, Hkf. clear Hl0.
    rewrite lay_top_more. set (ln2 := S (ln + nls (pp_stmt s))) in *.
    destruct (top_head2 r ln2 e Wr He) as (tc2 & k2 & E2 & Hnil & Hcons). rewrite E2.
    assert (Hlen2 : List.length (lay ln2 (pp_more r)) + 1 = S (List.length k2)).
    { pose proof (len_of _ _ E2) as H. rewrite app_length in H. cbn [List.length] in H. exact H. }
    destruct (cur_stmt2 s ln (tc2 :: k2) false Ws) as (id & v & a & Hst & _ & Hcur).
    pose proof (lay_stmt_pos2 s ln Ws) as Hpos.
    destruct kf as [|kf]; [lia|]. destruct fuel as [|fuel]; [lia|].
    apply Nat.ltb_lt in Hn.
    assert (Hstep : top_new V (S fuel) (S kf) (ni, nd) acc
                      (pos false (lay ln (sep_of (pp_stmt s)) ++ lay ln (pp_stmt s) ++ tc2 :: k2)) =
                    (do n', s2 <- run V (S fuel) 0 (pos false (lay ln (pp_stmt s) ++ tc2 :: k2));
                     top_new V (S fuel) kf n' (acc ++ [snd n']) s2)).
    { rewrite lay_sep. destruct (continues (pp_stmt s)).
      - cbn [app]. cbn [top_new]. unfold has_more. rewrite cur_pos_cons. cbn [cn fst semit tk t_id Nat.eqb TokenSEMICOLON TokenEOF].
        unfold with_cur. rewrite cur_pos_cons. cbn [cn fst semit tk t_id Nat.eqb TokenSEMICOLON]. rewrite pos_cons.
        rewrite skipToken_pos by (try reflexivity; apply headk_stmt2; exact Ws). reflexivity.
      - cbn [app]. cbn [top_new]. unfold has_more. rewrite Hcur. cbn [cn fst tk t_id t_line].
        rewrite (hstart_not id TokenEOF Hst) by (unfold closers; simpl; tauto).
        rewrite (hstart_not id TokenSEMICOLON Hst) by (unfold closers; simpl; tauto).
        rewrite Hn. unfold with_cur. rewrite Hcur. cbn [cn fst tk t_id].
        rewrite (hstart_not id TokenSEMICOLON Hst) by (unfold closers; simpl; tauto). reflexivity. }
    rewrite Hstep.
    assert (Hsep : sepT2 ln tc2 /\ (s = SReturn0 -> ln < t_line tc2)).
    { destruct r as [|s' r'].
      - destruct (Hnil eq_refl) as [-> _]. split; [apply eof_sep2'; exact He|].
        intros ->. cbn in Hlast. discriminate.
      - destruct Hcons as (Hc1 & _); [discriminate|]. destruct (Hc1 ln ltac:(unfold ln2; lia)) as [H1 H2]. split; [exact H1 | intros _; exact H2]. }
    destruct Hsep as [Hs2 Hr0].
    destruct (ps_all2 s Ws fuel ln tc2 k2 Hs2 Hr0 ltac:(lia)) as (i & tr & Erun & Hstrip & Hline).
    rewrite Erun. cbn [rbind snd].
    change (st (Some (cn false tc2)) k2 false) with (pos false (tc2 :: k2)). rewrite <- E2.
    assert (Hlast' : last_is_return0 r = false).
    { destruct r as [|s' r']; [reflexivity|]. rewrite last_ret_cons in Hlast by discriminate. exact Hlast. }
    destruct (IH Wr Hlast' (S fuel) kf (i, tr) (acc ++ [tr]) ln2 e He) as (trs & Eloop & Hmap).
    + cbn [snd]. rewrite Hline. unfold ln2. lia.
    + lia.
    + lia.
    + rewrite Eloop. exists (tr :: trs). split; [rewrite <- app_assoc; reflexivity|].
      cbn [map embed_block]. rewrite Hstrip, Hmap. reflexivity.
Qed.

(* ---------------------------------------------------------------------------------- *)
(* ParseWithRuntime on the printed program *)

Theorem prog_roundtrip2 b : wfP2 b ->
  forall l0 le epos,
  exists t', parsed (parse (source_tokens l0 le epos (pp_prog b))) = Some t' /\ strip t' = embed_prog b.
Proof.
  intros (Hne & W & Hlast) l0 le epos. pose proof (no_eof_prog2 b W) as Hno.
  unfold source_tokens, parse, parse_with. fold (eoft le epos).
  rewrite (la_init_st (lay l0 (pp_prog b)) (eoft le epos) eq_refl (no_eof_lay l0 _ Hno)).
  set (all := lay l0 (pp_prog b) ++ [eoft le epos]).
  change (mkSt (firstn 3 all) (skipn 3 all) None false) with (st None all false).
  destruct b as [|s r]; [congruence|]. cbn [wfB2] in W. destruct W as (Ws & Wr).
  assert (Hhead : headk all).
  { unfold all. destruct r; cbn [pp_prog]; [|rewrite lay_top_cons]; apply headk_stmt2; exact Ws. }
  rewrite advance_pos by exact Hhead.
  unfold parse_fuel. replace (List.length all + 5) with (S (List.length all + 4)) by lia.
  destruct r as [|s2 r].
  - (* one statement *)
    unfold all in *. cbn [pp_prog] in *.
    assert (Hr0 : s = SReturn0 -> l0 < t_line (eoft le epos)) by (intros ->; cbn in Hlast; discriminate).
    destruct (ps_all2 s Ws (List.length (lay l0 (pp_stmt s) ++ [eoft le epos]) + 4) l0 (eoft le epos) [] (eof_sep2 l0 le epos) Hr0
                ltac:(rewrite app_length; cbn [List.length]; lia)) as (i & tr & Erun & Hstrip & Hline).
    rewrite Erun. unfold has_more. rewrite cur_st. cbn [cn fst eoft t_id Nat.eqb TokenEOF negb finish].
    exists tr. split; [reflexivity | exact Hstrip].
  - (* several statements *)
    set (rr := BCons s2 r) in *. assert (Hrr : rr <> BNil) by discriminate.
    change (pp_prog (BCons s rr)) with (pp_lines (BCons s rr)) in *. unfold all in *. clear all.
    rewrite lay_top_cons. set (ln2 := S (l0 + nls (pp_stmt s))) in *.
    destruct (top_head2 rr ln2 (eoft le epos) Wr eq_refl) as (tc2 & k2 & E2 & _ & Hcons). rewrite E2.
    destruct (Hcons Hrr) as (Hc1 & Hc2). destruct (Hc1 l0 ltac:(unfold ln2; lia)) as [Hs2 Hl2].
    assert (Hlen2 : List.length (lay ln2 (pp_more rr)) + 1 = S (List.length k2)).
    { pose proof (len_of _ _ E2) as H. rewrite app_length in H. cbn [List.length] in H. exact H. }
    rewrite app_length. cbn [List.length].
    set (F := List.length (lay l0 (pp_stmt s)) + S (List.length k2) + 4) in *.
    destruct (ps_all2 s Ws F l0 tc2 k2 Hs2 (fun _ => Hl2) ltac:(unfold F; lia)) as (i & tr & Erun & Hstrip & Hline).
    rewrite Erun.
    assert (Hmore : has_more (st (Some (cn false tc2)) k2 false) (@Some rnode (i, tr)) = true).
    { unfold has_more. rewrite cur_st. cbn [cn fst]. rewrite Hc2. destruct (t_id tc2 =? TokenSEMICOLON); [reflexivity|].
      rewrite Hline. apply Nat.ltb_lt. exact Hl2. }
    rewrite Hmore. change (v_propagate V) with true. cbv iota. cbn [snd].
    rewrite fuel_of_st.
    change (st (Some (cn false tc2)) k2 false) with (pos false (tc2 :: k2)). rewrite <- E2.
    assert (Hlast' : last_is_return0 rr = false) by (rewrite last_ret_cons in Hlast by exact Hrr; exact Hlast).
    destruct (top_lines2 rr Wr Hlast' (S F) (S (List.length k2)) (i, tr) [tr] ln2 (eoft le epos) eq_refl) as (trs & Eloop & Hmap).
    + cbn [snd]. rewrite Hline. unfold ln2. lia.
    + unfold F. lia.
    + lia.
    + rewrite Eloop. cbn [rbind]. rewrite cur_st. cbn [cn fst eoft t_id Nat.eqb TokenEOF negb finish].
      eexists. split; [reflexivity|]. rewrite strip_constructed. cbn [app map embed_prog embed_block].
      rewrite Hstrip, Hmap. reflexivity.
Qed.
