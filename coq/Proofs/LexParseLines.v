(* Proofs/LexParseLines.v — every token the lexer model sends, the EOF token included, carries
   a line >= 1 (every token is made by [stamp]: Lline = line + 1 with line a Go int that is
   only ever incremented).  C18's theorems exempt the EOF token, whose POSITION is a recorded
   observation; for the adapter [to_ptok] (Model/LexParse.v) only the sign matters: the
   parser model keeps lines as [nat], so [Z.to_nat] loses nothing on any token.

   One pass over every function of Model/Lexer.v that touches the channel [l_out]: the
   functions either leave it alone or push a [stamp]. *)
From Coq Require Import List Bool Arith ZArith Lia.
From Ecal Require Import Common.Bytes Common.Outcome Model.Lexer.
Import ListNotations.
Local Open Scope nat_scope.

Definition lpos (t : token) : Prop := (1 <= t_line t)%Z.
Definition LP (l : lexer) : Prop := Forall lpos (l_out l).

Ltac dif := match goal with |- (if ?c then _ else _) = _ -> _ => destruct c end.
Ltac dob E :=
  match goal with |- obind ?c _ = _ -> _ => destruct c eqn:E; cbn [obind]; try (intros; discriminate) end.

Section LinePos.
  Variables is_space is_control is_number : rune -> bool.
  Variable keeps : bool.
  Variable input : bytes.

  Lemma LP_out l l' : l_out l' = l_out l -> LP l -> LP l'.
  Proof. unfold LP. intros ->. auto. Qed.

  Lemma next0_out l : l_out (snd (next0 input l)) = l_out l.
  Proof.
    unfold next0. destruct (ilen input <=? l_pos l); [reflexivity|].
    destruct (decode_rune _). reflexivity.
  Qed.

  Ltac nx := match goal with |- context [next0 input ?l] =>
    generalize (next0_out l); destruct (next0 input l) as [? ?]; cbn [snd fst]; intro end.

  Lemma backup_out l w l' : backup l w = Ok l' -> l_out l' = l_out l.
  Proof. unfold backup. dif; [discriminate|]. intros [= <-]. reflexivity. Qed.

  Lemma block_end_out r l l' : block_end r l = Ok l' -> l_out l' = l_out l.
  Proof. unfold block_end. dif; [intros [= <-]; reflexivity | apply backup_out]. Qed.

  Lemma stamp_lpos l id v i e : lpos (stamp l id v i e).
  Proof. unfold lpos, stamp. cbn [t_line]. lia. Qed.

  Lemma push_LP l t : lpos t -> LP l -> LP (push l t).
  Proof. intros H1 H2. unfold LP, push. cbn [l_out]. constructor; assumption. Qed.

  Lemma emitTV_LP l id v i e : LP l -> LP (emitTokenAndValue l id v i e).
  Proof. apply push_LP, stamp_lpos. Qed.

  Lemma emitError_LP l c : LP l -> LP (emitError l c).
  Proof. apply push_LP, stamp_lpos. Qed.

  Lemma emitEOF_LP l : LP l -> LP (emitEOF l).
  Proof. apply emitTV_LP. Qed.

  Lemma emitToken_LP l id l' : emitToken input l id = Ok l' -> LP l -> LP l'.
  Proof.
    unfold emitToken. dif; [intros [= <-]; apply emitTV_LP|].
    dob E. intros [= <-]. apply push_LP, stamp_lpos.
  Qed.

  Lemma set_line_lastnl_LP l a b : LP l -> LP (set_line_lastnl l a b).
  Proof. apply LP_out. reflexivity. Qed.

  (* ---- skipWhiteSpace *)
  Lemma sws_loop_LP : forall fuel r l b l',
    sws_loop is_space is_control input fuel r l = Ok (b, l') -> LP l -> LP l'.
  Proof.
    induction fuel as [|f IH]; intros r l b l'; cbn [sws_loop]; dif; try discriminate.
    - dob E. intros [= <- <-]. apply LP_out. eapply backup_out; eauto.
    - assert (Ho1 : l_out (if (r =? 10)%Z then count_newline l else l) = l_out l)
        by (destruct (r =? 10)%Z; reflexivity).
      revert Ho1. generalize (if (r =? 10)%Z then count_newline l else l). intros l1 Ho1.
      nx. dif.
      + intros [= <- <-] HL. apply emitEOF_LP. apply (LP_out l); [congruence | exact HL].
      + intros HR HL. apply (IH _ _ _ _ HR). apply (LP_out l); [congruence | exact HL].
    - dob E. intros [= <- <-]. apply LP_out. eapply backup_out; eauto.
  Qed.

  Lemma sws_LP l b l' : skipWhiteSpace is_space is_control input l = Ok (b, l') -> LP l -> LP l'.
  Proof.
    unfold skipWhiteSpace. nx. intros HR HL. apply (sws_loop_LP _ _ _ _ _ HR).
    apply (LP_out l); [cbn [set_skipped l_out]; congruence | exact HL].
  Qed.

  (* ---- the block scanners leave the channel alone *)
  Lemma ltb_loop_out : forall fuel interp r l l',
    ltb_loop is_space is_control input fuel interp r l = Ok l' -> l_out l' = l_out l.
  Proof.
    induction fuel as [|f IH]; intros interp r l l'; cbn [ltb_loop]; dif;
      try apply block_end_out; try discriminate.
    dif; [apply backup_out|]. dif; [apply backup_out|].
    nx. intros HR. rewrite (IH _ _ _ _ HR). assumption.
  Qed.

  Lemma lexTextBlock_out l interp l' :
    lexTextBlock is_space is_control input l interp = Ok l' -> l_out l' = l_out l.
  Proof.
    unfold lexTextBlock. nx. dif.
    - nx. intros [= <-]. congruence.
    - dif; [intros [= <-]; assumption|]. intros HR. rewrite (ltb_loop_out _ _ _ _ _ HR). assumption.
  Qed.

  Lemma lnb_loop_out : forall fuel r l l',
    lnb_loop is_space is_control is_number input fuel r l = Ok l' -> l_out l' = l_out l.
  Proof.
    induction fuel as [|f IH]; intros r l l'; cbn [lnb_loop]; dif;
      try apply block_end_out; try discriminate.
    dif.
    - dif; [|apply block_end_out]. dif; [apply block_end_out|].
      nx. rewrite !next0_out in *. intros HR. rewrite (IH _ _ _ HR). assumption.
    - nx. intros HR. rewrite (IH _ _ _ HR). assumption.
  Qed.

  Lemma lexNumberBlock_out l l' :
    lexNumberBlock is_space is_control is_number input l = Ok l' -> l_out l' = l_out l.
  Proof. unfold lexNumberBlock. nx. intros HR. rewrite (lnb_loop_out _ _ _ _ HR). assumption. Qed.

  (* ---- lexToken *)
  Lemma lexToken_LP l nxt l' :
    lexToken is_space is_control is_number input l = Ok (nxt, l') -> LP l -> LP l'.
  Proof.
    unfold lexToken. cbv zeta.
    dif; [intros [= <- <-]; auto|]. dif; [intros [= <- <-]; auto|].
    dob E1. apply lexNumberBlock_out in E1. cbn [startNew l_out] in E1.
    dob E2. dif.
    { intros [= <- <-] HL. apply emitTV_LP. apply (LP_out l); assumption. }
    dob E3.
    match type of E3 with (if ?c then _ else _) = _ => destruct c end;
      [apply backup_out in E3 | injection E3 as E3; apply (f_equal l_out) in E3].
    all: dob E4; apply lexTextBlock_out in E4; dob E5.
    all: match goal with |- match ?c with _ => _ end = _ -> _ => destruct c end.
    all: try (dob E6; intros [= <- <-] HL; apply (emitToken_LP _ _ _ E6); apply (LP_out l); solve [congruence | exact HL]).
    all: dif; intros [= <- <-] HL; first [apply emitError_LP | apply emitTV_LP]; apply (LP_out l); solve [congruence | exact HL].
  Qed.

  (* ---- lexValue *)
  Lemma lv_loop_LP : forall fuel allow endT r esc ln nl l nxt l',
    lv_loop input fuel allow endT r esc ln nl l = Ok (nxt, l') -> LP l -> LP l'.
  Proof.
    induction fuel as [|f IH]; intros allow endT r esc ln nl l nxt l'; cbn [lv_loop]; dif; try discriminate.
    2: { nx. dif.
         - intros [= <- <-] HL. apply emitError_LP. apply (LP_out l); assumption.
         - intros HR HL. apply (IH _ _ _ _ _ _ _ _ _ HR). apply (LP_out l); assumption. }
    all: dif; dob E.
    all: try (intros [= <- <-] HL; apply set_line_lastnl_LP, emitTV_LP; exact HL).
    all: match goal with |- match ?c with _ => _ end = _ -> _ => destruct c end;
      intros [= <- <-] HL; first [apply emitError_LP; exact HL | apply set_line_lastnl_LP, emitTV_LP; exact HL].
  Qed.

  Lemma lexValue_LP l nxt l' : lexValue input l = Ok (nxt, l') -> LP l -> LP l'.
  Proof.
    unfold lexValue. cbv zeta. nx.
    match goal with |- context [if ?c then snd (next0 input ?x) else ?x] =>
      assert (Ho : l_out (if c then snd (next0 input x) else x) = l_out x)
        by (destruct c; [apply next0_out | reflexivity]);
      revert Ho; generalize (if c then snd (next0 input x) else x); intros l1 Ho end.
    nx. intros HR HL. apply (lv_loop_LP _ _ _ _ _ _ _ _ _ _ HR).
    apply (LP_out l); [cbn [startNew l_out] in *; congruence | exact HL].
  Qed.

  (* ---- lexComment *)
  Lemma lc_line_loop_out : forall fuel r l r' l',
    lc_line_loop input fuel r l = Ok (r', l') -> l_out l' = l_out l.
  Proof.
    induction fuel as [|f IH]; intros r l r' l'; cbn [lc_line_loop]; dif; try discriminate.
    - intros [= <- <-]. reflexivity.
    - nx. intros HR. rewrite (IH _ _ _ _ HR). assumption.
    - intros [= <- <-]. reflexivity.
  Qed.

  Lemma lc_block_loop_LP : forall fuel r ln nl l nxt l',
    lc_block_loop input fuel r ln nl l = Ok (nxt, l') -> LP l -> LP l'.
  Proof.
    induction fuel as [|f IH]; intros r ln nl l nxt l'; cbn [lc_block_loop]; dif; try discriminate.
    2: { nx. dif.
         - intros [= <- <-] HL. apply emitError_LP. apply (LP_out l); assumption.
         - intros HR HL. apply (IH _ _ _ _ _ _ HR). apply (LP_out l); assumption. }
    all: dob E; intros [= <- <-] HL; apply set_line_lastnl_LP;
      apply (LP_out (emitTokenAndValue l TokenPRECOMMENT a false false)); [apply next0_out | apply emitTV_LP; exact HL].
  Qed.

  Lemma lexComment_LP l nxt l' : lexComment keeps input l = Ok (nxt, l') -> LP l -> LP l'.
  Proof.
    unfold lexComment. nx. dif.
    - dob E1. destruct a as [r' l1]. apply lc_line_loop_out in E1. cbn [startNew l_out] in E1.
      dob E2. dif; intros [= <- <-] HL; try apply set_line_lastnl_LP; apply emitTV_LP;
        apply (LP_out l); try congruence; exact HL.
    - cbv zeta. nx. intros HR HL. apply (lc_block_loop_LP _ _ _ _ _ _ _ HR).
      apply (LP_out l); [|exact HL]. cbn [startNew l_out] in *. rewrite ?next0_out in *. congruence.
  Qed.

  (* ---- run *)
  Lemma step_LP st l nxt l' :
    step is_space is_control is_number keeps input st l = Ok (nxt, l') -> LP l -> LP l'.
  Proof. destruct st; cbn [step]; [apply lexToken_LP | apply lexValue_LP | apply lexComment_LP]. Qed.

  Lemma run_loop_LP : forall fuel st l l',
    run_loop is_space is_control is_number keeps input fuel st l = Ok l' -> LP l -> LP l'.
  Proof.
    induction fuel as [|f IH]; intros st l l'; cbn [run_loop]; [discriminate|].
    dob E1. destruct a as [nxt l1]. dob E2. destruct a as [more l2].
    pose proof (fun H => sws_LP _ _ _ E2 (step_LP _ _ _ _ E1 H)) as H2.
    dif; [intros [= <-]; exact H2|]. destruct nxt as [st'|]; [|intros [= <-]; exact H2].
    intros HR HL. apply (IH _ _ _ HR). apply H2. exact HL.
  Qed.

  Lemma run_LP l : run is_space is_control is_number keeps input = Ok l -> LP l.
  Proof.
    unfold run. dob E. destruct a as [more l0].
    assert (H0 : LP l0) by (apply (sws_LP _ _ _ E); constructor).
    dif; [intros HR; apply (run_loop_LP _ _ _ _ HR); exact H0 | intros [= <-]; exact H0].
  Qed.

  Theorem lex_with_lines_positive ts :
    lex_with is_space is_control is_number keeps input = Ok ts -> Forall lpos ts.
  Proof.
    unfold lex_with. dob E. intros [= <-]. apply Forall_rev. exact (run_LP _ E).
  Qed.
End LinePos.
