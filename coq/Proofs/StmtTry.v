(* Proofs/StmtTry.v — C08, statement level, extended guards: try / except / otherwise / finally
   against the full parser model (ndTry, excepts, except_names, optional_block of
   Model/Parser.v).  Induction statements [PX2] (the except clauses) and [PO2] (an optional
   otherwise / finally block), and the statement case [ps_try2]. *)
From Coq Require Import List String NArith Bool Arith Lia ZArith.
From Ecal Require Import Common.Bytes Common.Ast gen.Tokens gen.Grammar Spec.ParseSpec
     Model.Printer Proofs.PrinterProofs Model.StmtPrinter Spec.StmtFormatSpec Spec.StmtFormatSpec2 Model.Parser
     Proofs.StmtState Proofs.StmtExpr Proofs.StmtProofs Proofs.StmtKey Proofs.StmtKey2.
Import ListNotations.
Local Open Scope string_scope.
Local Open Scope nat_scope.
Local Open Scope list_scope.

(* ---------------------------------------------------------------------------------- *)
(* token facts by computation *)

Lemma known_except : known TokenEXCEPT = true. Proof. vm_compute. reflexivity. Qed.
Lemma known_otherwise : known TokenOTHERWISE = true. Proof. vm_compute. reflexivity. Qed.
Lemma known_finally : known TokenFINALLY = true. Proof. vm_compute. reflexivity. Qed.
Lemma known_as : known TokenAS = true. Proof. vm_compute. reflexivity. Qed.
Lemma known_ident : known TokenIDENTIFIER = true. Proof. vm_compute. reflexivity. Qed.
Lemma known_string : known TokenSTRING = true. Proof. vm_compute. reflexivity. Qed.
Lemma known_comma : known TokenCOMMA = true. Proof. vm_compute. reflexivity. Qed.

Lemma null_den_try runf c s : ge_null (snd c) = "ndTry" -> null_den V runf c s = ndTry V runf c s.
Proof. intros H. unfold null_den. rewrite H. reflexivity. Qed.

(* the head of a token list is not [id] *)
Definition nhead (id : nat) (K : list tok) : Prop :=
  match K with t :: _ => t_id t <> id | [] => True end.

Lemma is_tok_false (c : cnode) k b id : t_id (fst c) <> id -> is_not_end_and_token (st (Some c) k b) id = false.
Proof.
  destruct c as [t e]. cbn [fst]. intros H. unfold is_not_end_and_token. rewrite cur_st.
  apply Nat.eqb_neq in H. rewrite H. apply andb_false_r.
Qed.

Lemma is_tok_false_pos K id : headk K -> nhead id K -> is_not_end_and_token (pos false K) id = false.
Proof. destruct K as [|t r]; [intros []|]. intros _ H. rewrite pos_cons. apply is_tok_false. exact H. Qed.

(* ---------------------------------------------------------------------------------- *)
(* error names of an except clause *)

Definition strtok (ln : nat) (p : bytes * bool) : tok := tk ln TokenSTRING (fst p) (str_allow (fst p) (snd p)).
Definition strnode (ln : nat) (p : bytes * bool) : node :=
  Node NodeSTRING (fst p) false (str_allow (fst p) (snd p)) ln [].

Lemma lay_strt ln p r : lay ln (strt p :: r) = strtok ln p :: lay ln r.
Proof. reflexivity. Qed.

Lemma strnode_rn ln p : snd (rn (cn false (strtok ln p)) []) = strnode ln p.
Proof. unfold rn, cn, strtok. cbn [fst snd]. rewrite mk_node_tk. reflexivity. Qed.

Lemma strip_strnode ln p : wfname p -> strip (strnode ln p) = strn p.
Proof. unfold wfname, strnode, strn. intros ->. reflexivity. Qed.

Lemma strip_strnodes ln names : Forall wfname names -> map strip (map (strnode ln) names) = map strn names.
Proof. induction 1 as [|p r Hp _ IH]; [reflexivity|]. cbn [map]. rewrite strip_strnode by exact Hp. rewrite IH. reflexivity. Qed.

Lemma nls_names names bind : nls (pp_names names bind) = 0.
Proof.
  induction names as [|p r IH]; [reflexivity|]. destruct r as [|p2 r'].
  - cbn [pp_names]. destruct bind; reflexivity.
  - change (pp_names (p :: p2 :: r') bind) with (strt p :: kw TokenCOMMA :: pp_names (p2 :: r') bind).
    cbn [nls strt kw]. exact IH.
Qed.

Lemma nls_bind bind : nls (pp_bind bind) = 0.
Proof. destruct bind; reflexivity. Qed.

Lemma names_len names bind ln : List.length names <= List.length (lay ln (pp_names names bind)).
Proof.
  induction names as [|p r IH]; [cbn; lia|]. destruct r as [|p2 r'].
  - cbn [pp_names]. rewrite lay_strt. cbn [List.length]. lia.
  - change (pp_names (p :: p2 :: r') bind) with (strt p :: kw TokenCOMMA :: pp_names (p2 :: r') bind).
    rewrite lay_strt, lay_kw. cbn [List.length] in *. lia.
Qed.

(* what follows the names: `as`, the variable, or the "{" *)
Definition Rhead (R : list tok) : Prop :=
  match R with
  | t :: _ => known (t_id t) = true /\ (t_id t = TokenAS \/ t_id t = TokenIDENTIFIER \/ t_id t = TokenLBRACE)
  | [] => False
  end.

Lemma Rhead_headk R : Rhead R -> headk R.
Proof. destruct R; [intros []|]. intros [H _]. exact H. Qed.

Lemma Rhead_nocomma t R : Rhead (t :: R) -> (t_id t =? TokenCOMMA) = false.
Proof. intros [_ [H|[H|H]]]; rewrite H; reflexivity. Qed.

Lemma stop_names (c : cnode) k :
  (t_id (fst c) = TokenAS \/ t_id (fst c) = TokenIDENTIFIER \/ t_id (fst c) = TokenLBRACE) ->
  is_not_end_and_not_tokens (st (Some c) k false) [TokenAS; TokenIDENTIFIER; TokenLBRACE] = false.
Proof.
  destruct c as [t e]. cbn [fst]. intros H. unfold is_not_end_and_not_tokens. rewrite cur_st.
  apply andb_false_iff. right. destruct H as [H|[H|H]]; rewrite H; reflexivity.
Qed.

Lemma headk_names names bind ln R : Rhead R -> headk (lay ln (pp_names names bind) ++ R).
Proof.
  intros HR. destruct names as [|p [|p2 r]].
  - apply Rhead_headk. exact HR.
  - cbn [pp_names]. rewrite lay_strt. exact known_string.
  - change (pp_names (p :: p2 :: r) bind) with (strt p :: kw TokenCOMMA :: pp_names (p2 :: r) bind).
    rewrite lay_strt. exact known_string.
Qed.

(* one name *)
Lemma names_step kf acc ln p REST : headk REST ->
  except_names V (S kf) acc (pos false (strtok ln p :: REST)) =
  with_cur (pos false REST) "ndTry: p.node.Token" (fun t _ =>
    if t_id t =? TokenCOMMA then
      do _, s2 <- skipToken V TokenCOMMA (pos false REST); except_names V kf (acc ++ [strnode ln p]) s2
    else except_names V kf (acc ++ [strnode ln p]) (pos false REST)).
Proof.
  intros HK. cbn [except_names]. rewrite pos_cons.
  assert (E : is_not_end_and_not_tokens (st (Some (cn false (strtok ln p))) REST false)
                [TokenAS; TokenIDENTIFIER; TokenLBRACE] = true) by reflexivity.
  rewrite E. rewrite acceptChild_pos by (try reflexivity; exact HK). cbn [rbind].
  rewrite strnode_rn. reflexivity.
Qed.

Lemma names_step_comma kf acc ln p REST : headk REST ->
  except_names V (S kf) acc (pos false (strtok ln p :: kwt ln TokenCOMMA :: REST)) =
  except_names V kf (acc ++ [strnode ln p]) (pos false REST).
Proof.
  intros HK. rewrite names_step by exact known_comma. unfold with_cur. rewrite cur_pos_cons.
  cbn [cn fst kwt tk t_id]. rewrite Nat.eqb_refl. rewrite pos_cons.
  rewrite skipToken_pos by (try reflexivity; exact HK). reflexivity.
Qed.

Lemma names_step_last kf acc ln p R : Rhead R ->
  except_names V (S kf) acc (pos false (strtok ln p :: R)) =
  except_names V kf (acc ++ [strnode ln p]) (pos false R).
Proof.
  intros HR. rewrite names_step by (apply Rhead_headk; exact HR).
  destruct R as [|t R']; [destruct HR|]. unfold with_cur. rewrite cur_pos_cons. cbn [cn fst].
  rewrite (Rhead_nocomma t R' HR). reflexivity.
Qed.

Lemma names_run names : forall bind kf acc ln R,
  Rhead R -> List.length names + 1 <= kf ->
  except_names V kf acc (pos false (lay ln (pp_names names bind) ++ R)) =
  ROk (acc ++ map (strnode ln) names) (pos false R).
Proof.
  induction names as [|p r IH]; intros bind kf acc ln R HR Hk.
  - cbn [pp_names lay app map]. rewrite app_nil_r. destruct kf as [|kf]; [cbn [List.length] in Hk; lia|].
    cbn [except_names]. destruct R as [|t R']; [destruct HR|]. rewrite pos_cons.
    rewrite stop_names by (cbn [cn fst]; apply HR). reflexivity.
  - destruct kf as [|kf]; [cbn [List.length] in Hk; lia|]. cbn [List.length] in Hk.
    assert (Hend : except_names V kf (acc ++ [strnode ln p]) (pos false R) =
                   ROk (acc ++ map (strnode ln) [p]) (pos false R) \/ r <> []).
    { destruct r as [|p2 r']; [left|right; discriminate].
      pose proof (IH EBNone kf (acc ++ [strnode ln p]) ln R HR ltac:(cbn [List.length]; lia)) as E.
      cbn [pp_names lay app map] in E. rewrite E, app_nil_r. reflexivity. }
    destruct r as [|p2 r'].
    + destruct Hend as [Hend|Hend]; [|congruence]. cbn [pp_names]. destruct bind as [| x | x]; cbn [app]; rewrite lay_strt; cbn [lay app].
      * rewrite names_step_last by exact HR. exact Hend.
      * rewrite names_step_last by exact HR. exact Hend.
      * unfold kw. cbn [lay app]. fold (kwt ln TokenCOMMA).
        rewrite names_step_comma by (apply Rhead_headk; exact HR). exact Hend.
    + change (pp_names (p :: p2 :: r') bind) with (strt p :: kw TokenCOMMA :: pp_names (p2 :: r') bind).
      rewrite lay_strt, lay_kw. cbn [app].
      rewrite names_step_comma by (apply headk_names; exact HR).
      rewrite (IH bind kf (acc ++ [strnode ln p]) ln R HR) by (cbn [List.length] in *; lia).
      rewrite <- app_assoc. reflexivity.
Qed.

(* ---------------------------------------------------------------------------------- *)
(* the variable of an except clause *)

Definition bind_parse (s2 : pst) : res (list node) :=
  with_cur s2 "ndTry: p.node.Token" (fun t _ =>
    if t_id t =? TokenAS then
      match cur s2 with
      | None => RPanic "ndTry: as"
      | Some asn =>
        do _, s3 <- acceptChild V TokenAS s2;
        do v, s4 <- acceptChild V TokenIDENTIFIER s3;
        ROk [snd (rn asn [v])] s4
      end
    else if t_id t =? TokenIDENTIFIER then
      do v, s3 <- acceptChild V TokenIDENTIFIER s2; ROk [v] s3
    else ROk [] s2).

Lemma excepts_S runf k acc s :
  excepts V runf (S k) acc s =
  if is_not_end_and_token s TokenEXCEPT then
    match cur s with
    | None => RPanic "ndTry: except"
    | Some ex =>
      do _, s1 <- acceptChild V TokenEXCEPT s;
      do names, s2 <- except_names V (fuel_of s1) [] s1;
      do bind, s3 <- bind_parse s2;
      do body, s4 <- pis V runf s3;
      excepts V runf k (acc ++ [snd (rn ex (names ++ bind ++ [body]))]) s4
    end
  else ROk acc s.
Proof. reflexivity. Qed.

Definition identnode (ln : nat) (x : bytes) : node := Node NodeIDENTIFIER x true false ln [].

Definition bind_trees (ln : nat) (b : ebind) : list node :=
  match b with
  | EBNone => []
  | EBAs x => [Node NodeAS [] false false ln [identnode ln x]]
  | EBId x => [identnode ln x]
  end.

Lemma strip_bind ln b : map strip (bind_trees ln b) = bind_nodes b.
Proof. destruct b; reflexivity. Qed.

Lemma identnode_rn ln x : snd (rn (cn false (tk ln TokenIDENTIFIER x false)) []) = identnode ln x.
Proof. unfold rn, cn. cbn [fst snd]. rewrite mk_node_tk. reflexivity. Qed.

Lemma bind_run bind ln R :
  bind_parse (pos false (lay ln (pp_bind bind) ++ kwt ln TokenLBRACE :: R)) =
  ROk (bind_trees ln bind) (pos false (kwt ln TokenLBRACE :: R)).
Proof.
  destruct bind as [| x | x]; unfold pp_bind, kw, identt; cbn [lay app bind_trees]; unfold bind_parse, with_cur; rewrite !cur_pos_cons.
  - reflexivity.
  - cbn [cn fst]. change (t_id (tk ln TokenAS [] false) =? TokenAS) with true. cbv iota.
    rewrite pos_cons. rewrite acceptChild_pos by (try reflexivity; exact known_ident). cbn [rbind].
    rewrite pos_cons. rewrite acceptChild_pos by (try reflexivity; exact known_lbrace). cbn [rbind].
    rewrite identnode_rn. unfold rn, cn. cbn [fst snd]. rewrite mk_node_tk. reflexivity.
  - cbn [cn fst].
    change (t_id (tk ln TokenIDENTIFIER x false) =? TokenAS) with false.
    change (t_id (tk ln TokenIDENTIFIER x false) =? TokenIDENTIFIER) with true. cbv iota.
    rewrite pos_cons. rewrite acceptChild_pos by (try reflexivity; exact known_lbrace). cbn [rbind].
    rewrite identnode_rn. reflexivity.
Qed.

Lemma Rhead_bind bind ln R : Rhead (lay ln (pp_bind bind) ++ kwt ln TokenLBRACE :: R).
Proof.
  destruct bind; cbn [pp_bind lay app Rhead kw identt tk kwt t_id]; (split; [vm_compute; reflexivity|]); tauto.
Qed.

(* ---------------------------------------------------------------------------------- *)
(* except clauses *)

Definition PX2 (ex : StmtPrinter.excepts) : Prop :=
  wfX2 ex -> forall f kf acc ln K,
    headk K -> nhead TokenEXCEPT K ->
    List.length (lay ln (pp_excepts ex)) + List.length K <= f ->
    List.length (lay ln (pp_excepts ex)) + 1 <= kf ->
    exists trs,
      excepts V (run V f) kf acc (pos false (lay ln (pp_excepts ex) ++ K)) = ROk (acc ++ trs) (pos false K)
      /\ map strip trs = embed_excepts ex.

Lemma lay_except ln names bind X REST K :
  lay ln (kw TokenEXCEPT :: pp_names names bind ++ pp_bind bind ++ block X ++ REST) ++ K =
  kwt ln TokenEXCEPT :: lay ln (pp_names names bind) ++ lay ln (pp_bind bind) ++
    kwt ln TokenLBRACE :: lay (S ln) (X ++ [kw TokenRBRACE]) ++ lay (S (ln + nls X)) REST ++ K.
Proof.
  rewrite lay_kw. cbn [app]. f_equal. rewrite lay_app0 by apply nls_names. rewrite lay_app0 by apply nls_bind.
  rewrite <- !app_assoc. f_equal. f_equal. apply lay_block_rest.
Qed.

Lemma headk_excepts ex ln K : headk K -> headk (lay ln (pp_excepts ex) ++ K).
Proof. intros H. destruct ex; cbn [pp_excepts]; [exact H|]. rewrite lay_kw. exact known_except. Qed.

Lemma px_nil : PX2 ENil.
Proof.
  intros _ f kf acc ln K HK Hn _ Hkf. exists []. rewrite app_nil_r. split; [|reflexivity].
  cbn [pp_excepts lay app]. destruct kf as [|kf]; [cbn [pp_excepts lay List.length] in Hkf; lia|].
  rewrite excepts_S. rewrite is_tok_false_pos by assumption. reflexivity.
Qed.

Lemma name_except : name_of TokenEXCEPT = NodeEXCEPT. Proof. reflexivity. Qed.

Lemma px_cons names bind b r : PPis2 b -> PX2 r -> PX2 (ECons names bind b r).
Proof.
  intros IHb IHr W f kf acc ln K HK Hn Hf Hkf. cbn [wfX2] in W. destruct W as (Wn & Wb & Wr).
  cbn [pp_excepts] in *.
  pose proof (len_of _ _ (lay_except ln names bind (pp_lines b) (pp_excepts r) [])) as Hl0. rewrite !app_nil_r in Hl0.
  cbn [List.length] in Hl0. rewrite !app_length in Hl0. cbn [List.length] in Hl0. rewrite !app_length in Hl0.
  rewrite Hl0 in Hf, Hkf. clear Hl0.
  rewrite lay_except. set (lnT := S (ln + nls (pp_lines b))) in *.
  set (KR := lay lnT (pp_excepts r) ++ K) in *.
  set (R := lay ln (pp_bind bind) ++ kwt ln TokenLBRACE :: lay (S ln) (pp_lines b ++ [kw TokenRBRACE]) ++ KR).
  assert (HR : Rhead R) by apply Rhead_bind.
  destruct kf as [|kf]; [lia|].
  rewrite excepts_S. rewrite pos_cons. rewrite cn_kw by discriminate.
  rewrite is_tok_true by reflexivity. rewrite cur_st.
  rewrite acceptChild_pos by (try reflexivity; apply headk_names; exact HR). cbn [rbind].
  assert (Hne : lay ln (pp_names names bind) ++ R <> []).
  { unfold R. destruct (lay ln (pp_names names bind)); [|discriminate]. destruct (lay ln (pp_bind bind)); discriminate. }
  rewrite fuel_of_pos by exact Hne.
  rewrite (names_run names bind _ [] ln R HR).
  2:{ rewrite app_length. pose proof (names_len names bind ln). unfold R. rewrite app_length. cbn [List.length]. lia. }
  cbn [rbind app]. unfold R. rewrite bind_run. cbn [rbind]. rewrite pos_cons.
  assert (HKR : headk KR) by (apply headk_excepts; exact HK).
  destruct (IHb Wb f (S ln) (cn false (kwt ln TokenLBRACE)) KR eq_refl HKR
              ltac:(unfold KR; rewrite app_length; lia)) as (trsb & Epis & Hmapb).
  rewrite Epis. cbn [rbind].
  destruct (IHr Wr f kf (acc ++ [snd (rn (kwt ln TokenEXCEPT, entd false TokenEXCEPT)
                                    (map (strnode ln) names ++ bind_trees ln bind ++ [constructed TokenSTATEMENTS trsb]))])
                lnT K HK Hn ltac:(lia) ltac:(lia)) as (trs & Erec & Hmap).
  unfold KR. rewrite Erec. eexists. split; [rewrite <- app_assoc; reflexivity|].
  cbn [app map embed_excepts]. rewrite Hmap. f_equal.
  unfold rn. cbn [fst snd]. rewrite mk_node_kw by discriminate. rewrite entd_name, name_except.
  cbn [strip]. unfold knode. f_equal. rewrite !map_app. cbn [map]. rewrite strip_strnodes by exact Wn.
  rewrite strip_bind, strip_constructed, Hmapb. reflexivity.
Qed.

(* ---------------------------------------------------------------------------------- *)
(* otherwise / finally *)

Definition PO2 (o : oblock) : Prop :=
  wfO2 o -> forall id f ln K,
    id = TokenOTHERWISE \/ id = TokenFINALLY ->
    headk K -> nhead id K ->
    List.length (lay ln (pp_oblock id o)) + List.length K <= f ->
    exists trs,
      optional_block V (run V f) id (pos false (lay ln (pp_oblock id o) ++ K)) = ROk trs (pos false K)
      /\ map strip trs = embed_oblock (name_of id) o.

Lemma po_none : PO2 ONone.
Proof.
  intros _ id f ln K _ HK Hn _. exists []. split; [|reflexivity].
  cbn [pp_oblock lay app]. destruct K as [|t r]; [destruct HK|]. cbn [nhead] in Hn.
  unfold optional_block. rewrite cur_pos_cons. cbn [cn]. apply Nat.eqb_neq in Hn. rewrite Hn. reflexivity.
Qed.

Lemma po_some b : PPis2 b -> PO2 (OSome b).
Proof.
  intros IHb W id f ln K Hid HK Hn Hf. cbn [wfO2] in W. cbn [pp_oblock] in *. rewrite lay_kw in *.
  pose proof (lay_block_rest ln (pp_lines b) [] []) as Hl0. cbn [lay] in Hl0. rewrite !app_nil_r in Hl0.
  rewrite Hl0 in Hf. cbn [List.length] in Hf.
  cbn [app]. pose proof (lay_block_rest ln (pp_lines b) [] K) as Hl. cbn [lay app] in Hl. rewrite app_nil_r in Hl. rewrite Hl. clear Hl Hl0.
  assert (Hid' : id <> TokenLBRACE /\ id <> TokenIDENTIFIER) by (destruct Hid as [->| ->]; split; discriminate).
  destruct Hid' as [Hi1 Hi2].
  unfold optional_block. rewrite pos_cons, cur_st. rewrite cn_kw by exact Hi1.
  cbn [kwt tk t_id]. rewrite Nat.eqb_refl. fold (kwt ln id).
  rewrite acceptChild_pos by (try reflexivity; exact known_lbrace). cbn [rbind]. rewrite pos_cons.
  destruct (IHb W f (S ln) (cn false (kwt ln TokenLBRACE)) K eq_refl HK ltac:(lia)) as (trsb & Epis & Hmapb).
  rewrite Epis. cbn [rbind]. eexists. split; [reflexivity|].
  unfold rn. cbn [fst snd map]. rewrite mk_node_kw by exact Hi2. rewrite entd_name.
  cbn [strip map embed_oblock]. rewrite strip_constructed, Hmapb. reflexivity.
Qed.

Lemma headk_oblock id o ln K : known id = true -> headk K -> headk (lay ln (pp_oblock id o) ++ K).
Proof. intros Hk H. destruct o; cbn [pp_oblock]; [exact H|]. rewrite lay_kw. exact Hk. Qed.

Lemma nhead_oblock id' id o ln K : id <> id' -> nhead id' K -> nhead id' (lay ln (pp_oblock id o) ++ K).
Proof. intros Hne H. destruct o; cbn [pp_oblock]; [exact H|]. rewrite lay_kw. exact Hne. Qed.

Lemma nhead_excepts id' ex ln K : TokenEXCEPT <> id' -> nhead id' K -> nhead id' (lay ln (pp_excepts ex) ++ K).
Proof. intros Hne H. destruct ex; cbn [pp_excepts]; [exact H|]. rewrite lay_kw. exact Hne. Qed.

Lemma oblock_nonempty id o ln tc k : lay ln (pp_oblock id o) ++ tc :: k <> [].
Proof. destruct (lay ln (pp_oblock id o)); discriminate. Qed.

(* ---------------------------------------------------------------------------------- *)
(* try *)

Lemma lay_try ln X A B C K :
  lay ln (kw TokenTRY :: block X ++ A ++ B ++ C) ++ K =
  kwt ln TokenTRY :: kwt ln TokenLBRACE :: lay (S ln) (X ++ [kw TokenRBRACE]) ++
    lay (S (ln + nls X)) A ++ lay (S (ln + nls X) + nls A) B ++ lay (S (ln + nls X) + nls A + nls B) C ++ K.
Proof.
  rewrite lay_kw. cbn [app]. f_equal. rewrite lay_block_rest. f_equal. f_equal.
  rewrite !lay_app, <- !app_assoc. reflexivity.
Qed.

Lemma name_try : name_of TokenTRY = NodeTRY. Proof. reflexivity. Qed.
Lemma name_otherwise : name_of TokenOTHERWISE = NodeOTHERWISE. Proof. reflexivity. Qed.
Lemma name_finally : name_of TokenFINALLY = NodeFINALLY. Proof. reflexivity. Qed.

Lemma ps_try2 b ex ow fin : PPis2 b -> PX2 ex -> PO2 ow -> PO2 fin -> PS2 (STry b ex ow fin).
Proof.
  intros IHb IHx IHo IHf W f ln tc k Hs0 _ Hf. pose proof (proj1 Hs0) as Hs.
  destruct Hs0 as (_ & Hne1 & Hne2 & Hne3). cbn [wfS2] in W. destruct W as (Wb & Wx & Wo & Wf).
  pose proof Hs as (Kt & _).
  change (pp_stmt (STry b ex ow fin)) with
    (kw TokenTRY :: block (pp_lines b) ++ pp_excepts ex ++ pp_oblock TokenOTHERWISE ow ++ pp_oblock TokenFINALLY fin) in *.
  pose proof (len_of _ _ (lay_try ln (pp_lines b) (pp_excepts ex) (pp_oblock TokenOTHERWISE ow) (pp_oblock TokenFINALLY fin) [])) as Hl0.
  rewrite !app_nil_r in Hl0. cbn [List.length] in Hl0. rewrite !app_length in Hl0.
  rewrite Hl0 in Hf. clear Hl0.
  rewrite lay_try.
  set (lnX := S (ln + nls (pp_lines b))) in *. set (lnO := lnX + nls (pp_excepts ex)) in *.
  set (lnF := lnO + nls (pp_oblock TokenOTHERWISE ow)) in *.
  set (KF := lay lnF (pp_oblock TokenFINALLY fin) ++ tc :: k) in *.
  set (KO := lay lnO (pp_oblock TokenOTHERWISE ow) ++ KF) in *.
  set (KX := lay lnX (pp_excepts ex) ++ KO) in *.
  assert (HKF : headk KF) by (apply headk_oblock; [exact known_finally | exact Kt]).
  assert (HKO : headk KO) by (apply headk_oblock; [exact known_otherwise | exact HKF]).
  assert (HKX : headk KX) by (apply headk_excepts; exact HKO).
  assert (HnO : nhead TokenEXCEPT KO).
  { apply nhead_oblock; [discriminate|]. apply nhead_oblock; [discriminate|]. exact Hne1. }
  assert (HnF : nhead TokenOTHERWISE KF) by (apply nhead_oblock; [discriminate | exact Hne2]).
  assert (HlenKF : List.length KF = List.length (lay lnF (pp_oblock TokenFINALLY fin)) + S (List.length k))
    by (unfold KF; rewrite app_length; reflexivity).
  assert (HlenKO : List.length KO = List.length (lay lnO (pp_oblock TokenOTHERWISE ow)) + List.length KF)
    by (unfold KO; rewrite app_length; reflexivity).
  assert (HlenKX : List.length KX = List.length (lay lnX (pp_excepts ex)) + List.length KO)
    by (unfold KX; rewrite app_length; reflexivity).
  rewrite (run_kw f ln TokenTRY "ndTry") by (try discriminate; try reflexivity; exact known_lbrace).
  rewrite null_den_try by reflexivity. unfold ndTry. rewrite pos_cons.
  destruct (IHb Wb f (S ln) (cn false (kwt ln TokenLBRACE)) KX eq_refl HKX ltac:(lia)) as (trsb & Epis & Hmapb).
  rewrite Epis. cbn [rbind].
  assert (HneX : KX <> []) by (destruct KX; [destruct HKX | discriminate]).
  rewrite fuel_of_pos by exact HneX.
  destruct (IHx Wx f (List.length KX) [] lnX KO HKO HnO ltac:(lia) ltac:(destruct KO; [destruct HKO|]; cbn [List.length] in *; lia))
    as (trsx & Eex & Hmapx).
  fold KX in Eex. rewrite Eex. cbn [rbind app].
  destruct (IHo Wo TokenOTHERWISE f lnO KF (or_introl eq_refl) HKF HnF ltac:(lia)) as (trso & Eo & Hmapo).
  fold KO in Eo. rewrite Eo. cbn [rbind].
  destruct (IHf Wf TokenFINALLY f lnF (tc :: k) (or_intror eq_refl) Kt Hne3 ltac:(cbn [List.length]; lia)) as (trsf & Ef & Hmapf).
  fold KF in Ef. rewrite Ef. cbn [rbind pos].
  rewrite finish_stmt with (ln := ln); [| exact Hs | unfold rn; cbn [snd fst]; rewrite mk_node_kw by discriminate; reflexivity].
  unfold rn. cbn [fst snd]. rewrite mk_node_kw by discriminate. do 2 eexists. split; [reflexivity|]. split; [|reflexivity].
  rewrite entd_name, name_try. cbn [strip map embed]. rewrite strip_constructed, !map_app, Hmapb, Hmapx, Hmapo, Hmapf.
  rewrite name_otherwise, name_finally. reflexivity.
Qed.
