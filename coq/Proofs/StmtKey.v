(* Proofs/StmtKey.v — C08, statement level, part 3: the key lemma for statements, blocks and
   elif / else tails (mutual structural induction), against Model/Parser.v. *)
From Coq Require Import List String NArith Bool Arith Lia ZArith.
From Ecal Require Import Common.Bytes Common.Ast gen.Tokens gen.Grammar Spec.ParseSpec
     Model.Printer Proofs.PrinterProofs Model.StmtPrinter Spec.StmtFormatSpec Model.Parser
     Proofs.StmtState Proofs.StmtExpr Proofs.StmtProofs.
Import ListNotations.
Local Open Scope string_scope.
Local Open Scope nat_scope.
Local Open Scope list_scope.

(* ---------------------------------------------------------------------------------- *)
(* the statements of the induction *)

Definition PS (s : stmt) : Prop :=
  wfS s -> forall f ln tc k,
    sepT ln tc -> (s = SReturn0 -> ln < t_line tc) ->
    List.length (lay ln (pp_stmt s)) + List.length k <= f ->
    exists i tr,
      run V (S f) 0 (pos false (lay ln (pp_stmt s) ++ tc :: k)) = ROk (i, tr) (st (Some (cn false tc)) k false)
      /\ strip tr = embed s /\ n_line tr = ln.

Definition rbrace (ln : nat) : tok := tk ln TokenRBRACE [] false.

(* the statement loop of a block, after a statement [n] *)
Definition PLines (b : sblock) : Prop :=
  wfB b -> forall f kf n acc ln K,
    n_line (snd n) < ln -> headk K ->
    List.length (lay ln (pp_more b ++ [kw TokenRBRACE])) + List.length K <= f ->
    List.length (lay ln (pp_more b ++ [kw TokenRBRACE])) + List.length K <= kf ->
    exists trs,
      stmts_new V (run V f) kf n acc (pos false (lay ln (pp_more b ++ [kw TokenRBRACE]) ++ K))
      = ROk (acc ++ trs) (pos false (rbrace (ln + nls (pp_more b)) :: K))
      /\ map strip trs = embed_block b.

(* parseInnerStatements, standing on the "{" *)
Definition PPis (b : sblock) : Prop :=
  wfB b -> forall f ln (c : cnode) K,
    t_id (fst c) = TokenLBRACE -> headk K ->
    List.length (lay ln (pp_lines b ++ [kw TokenRBRACE])) + List.length K <= f ->
    exists trs,
      pis V (run V f) (st (Some c) (lay ln (pp_lines b ++ [kw TokenRBRACE]) ++ K) false)
      = ROk (constructed TokenSTATEMENTS trs) (pos false K)
      /\ map strip trs = embed_block b.

Definition PB (b : sblock) : Prop := PLines b /\ PPis b.

(* the rest of ndGuard after the first guard / block pair *)
Definition guard_tail (runf : nat -> pst -> res rnode) (c : cnode) (kf : nat) (gs : list node) (s1 : pst) : res rnode :=
  do cs, s2 <- elifs V runf kf gs s1;
  with_cur s2 "ndGuard: p.node.Token" (fun t _ =>
    if t_id t =? TokenELSE then
      do _, s3 <- skipToken V TokenELSE s2;
      do body, s4 <- pis V runf s3;
      ROk (rn c (cs ++ [constructed TokenGUARD [constructed TokenTRUE []]; body])) s4
    else ROk (rn c cs) s2).

Lemma ndGuard_eq runf c s :
  ndGuard V runf c s = (do gs, s1 <- guard_and_statements V runf s; guard_tail runf c (fuel_of s1) gs s1).
Proof. reflexivity. Qed.

Definition PT (r : iftail) : Prop :=
  wfT r -> forall f kf c acc ln tc k,
    known (t_id tc) = true -> t_id tc <> TokenELIF -> t_id tc <> TokenELSE ->
    List.length (lay ln (pp_tail r)) + S (List.length k) <= f ->
    List.length (lay ln (pp_tail r)) + S (List.length k) <= kf ->
    exists trs,
      guard_tail (run V f) c kf acc (pos false (lay ln (pp_tail r) ++ tc :: k))
      = ROk (rn c (acc ++ trs)) (st (Some (cn false tc)) k false)
      /\ map strip trs = embed_tail r.

(* ---------------------------------------------------------------------------------- *)
(* small facts *)

Lemma known_rbrace : known TokenRBRACE = true. Proof. vm_compute. reflexivity. Qed.

Lemma headk_stmt s ln rest : wfS s -> headk (lay ln (pp_stmt s) ++ rest).
Proof.
  intros W. destruct (stmt_head s W) as (id & v & a & r & E & H). rewrite E. cbn [lay app headk tk t_id].
  apply known_hstart; exact H.
Qed.

Lemma cur_stmt s ln rest b : wfS s ->
  exists id v a, hstartb id = true /\ head_id (pp_stmt s) = id /\
                 cur (pos b (lay ln (pp_stmt s) ++ rest)) = Some (cn b (tk ln id v a)).
Proof.
  intros W. destruct (stmt_head s W) as (id & v & a & r & E & H). exists id, v, a. rewrite E. auto.
Qed.

Lemma hstart_not id x : hstartb id = true -> In x closers -> (id =? x) = false.
Proof.
  unfold hstartb. rewrite !andb_true_iff, negb_true_iff. intros [[_ C] _] Hx.
  apply Nat.eqb_neq. intros ->.
  assert (existsb (Nat.eqb x) closers = true) by (apply existsb_exists; exists x; split; [exact Hx | apply Nat.eqb_refl]).
  congruence.
Qed.

Lemma lay_stmt_pos s ln : wfS s -> 1 <= List.length (lay ln (pp_stmt s)).
Proof. intros W. destruct (stmt_head s W) as (id & v & a & r & E & H). rewrite E. cbn [lay List.length]. lia. Qed.

(* layout of the lines of a block *)
Definition semit (ln : nat) : tok := tk ln TokenSEMICOLON [] false.

Lemma nls_sep k : nls (sep_of k) = 0.
Proof. unfold sep_of. destruct (continues k); reflexivity. Qed.

Lemma lay_sep ln k : lay ln (sep_of k) = if continues k then [semit ln] else [].
Proof. unfold sep_of. destruct (continues k); reflexivity. Qed.

Lemma lay_lines_cons ln s r K :
  lay ln (pp_lines (BCons s r) ++ [kw TokenRBRACE]) ++ K =
  lay ln (pp_stmt s) ++ lay (S (ln + nls (pp_stmt s))) (pp_more r ++ [kw TokenRBRACE]) ++ K.
Proof.
  cbn [pp_lines]. rewrite <- !app_assoc. rewrite lay_app. cbn [app lay]. rewrite <- app_assoc.
  reflexivity.
Qed.

Lemma lay_more_cons ln s r K :
  lay ln (pp_more (BCons s r) ++ [kw TokenRBRACE]) ++ K =
  lay ln (sep_of (pp_stmt s)) ++ lay ln (pp_stmt s) ++ lay (S (ln + nls (pp_stmt s))) (pp_more r ++ [kw TokenRBRACE]) ++ K.
Proof.
  cbn [pp_more]. rewrite <- !app_assoc. rewrite lay_app0 by apply nls_sep. rewrite lay_app. cbn [app lay].
  rewrite <- !app_assoc. reflexivity.
Qed.

Lemma lay_lines_cons_len ln s r :
  List.length (lay ln (pp_lines (BCons s r) ++ [kw TokenRBRACE])) =
  List.length (lay ln (pp_stmt s)) + List.length (lay (S (ln + nls (pp_stmt s))) (pp_more r ++ [kw TokenRBRACE])).
Proof.
  pose proof (lay_lines_cons ln s r []) as H. rewrite !app_nil_r in H. rewrite H, app_length. reflexivity.
Qed.

Lemma lay_more_cons_len ln s r :
  List.length (lay ln (pp_more (BCons s r) ++ [kw TokenRBRACE])) =
  List.length (lay ln (sep_of (pp_stmt s))) + (List.length (lay ln (pp_stmt s)) +
    List.length (lay (S (ln + nls (pp_stmt s))) (pp_more r ++ [kw TokenRBRACE]))).
Proof.
  pose proof (lay_more_cons ln s r []) as H. rewrite !app_nil_r in H. rewrite H, !app_length. reflexivity.
Qed.

Lemma nls_more_cons s r : nls (pp_more (BCons s r)) = S (nls (pp_stmt s) + nls (pp_more r)).
Proof. cbn [pp_more]. rewrite !nls_app, nls_sep. cbn [nls]. lia. Qed.

(* the head of the remaining lines of a block (";", a statement or the closing brace) separates *)
Lemma more_head (E : list item) r ln2 K (e : tok) :
  wfB r -> lay ln2 E = [e] -> (forall ln, ln < ln2 -> sepT ln e /\ ln < t_line e) ->
  (t_id e =? TokenSEMICOLON) = false ->
  exists tc2 k2, lay ln2 (pp_more r ++ E) ++ K = tc2 :: k2 /\
    (forall ln, ln < ln2 -> sepT ln tc2 /\ ln < t_line tc2) /\
    (r = BNil -> tc2 = e) /\
    (r <> BNil -> (t_id tc2 =? TokenEOF) = false).
Proof.
  intros W HE Hsep Hns. destruct r as [|s r].
  - cbn [pp_more app]. rewrite HE. cbn [app]. do 2 eexists. split; [reflexivity|]. split; [exact Hsep|]. split; [auto | congruence].
  - cbn [wfB] in W. destruct W as (Ws & Wr).
    destruct (stmt_head s Ws) as (id & v & a & rr & E1 & H).
    cbn [pp_more]. rewrite <- !app_assoc. rewrite lay_app0 by apply nls_sep. rewrite lay_sep.
    destruct (continues (pp_stmt s)) eqn:C.
    + cbn [app]. do 2 eexists. split; [reflexivity|]. split; [|split; [discriminate | intros _; reflexivity]].
      intros ln Hl. split; [apply semi_sep; exact Hl | exact Hl].
    + cbn [app]. rewrite E1 in *. cbn [lay app]. do 2 eexists. split; [reflexivity|].
      rewrite continues_head in C. split; [|split; [discriminate|]].
      * intros ln Hl. split; [apply hstart_sep; assumption | exact Hl].
      * intros _. cbn [tk t_id]. apply (hstart_not id TokenEOF H). unfold closers; simpl; tauto.
Qed.

Lemma lines_head r ln2 K : wfB r ->
  exists tc2 k2, lay ln2 (pp_more r ++ [kw TokenRBRACE]) ++ K = tc2 :: k2 /\
    (forall ln, ln < ln2 -> sepT ln tc2 /\ ln < t_line tc2) /\ (t_id tc2 =? TokenEOF) = false.
Proof.
  intros W. destruct (more_head [kw TokenRBRACE] r ln2 K (rbrace ln2) W eq_refl) as (tc2 & k2 & E & Hs & Hn & Hc).
  - intros ln H. split; [apply rbrace_sep; exact H | exact H].
  - reflexivity.
  - exists tc2, k2. split; [exact E|]. split; [exact Hs|].
    destruct r; [rewrite (Hn eq_refl); reflexivity | apply Hc; discriminate].
Qed.

Lemma strip_constructed id trs : strip (constructed id trs) = knode (cname id) (map strip trs).
Proof. reflexivity. Qed.

(* ---------------------------------------------------------------------------------- *)
(* blocks from statements *)

Lemma lines_nil : PLines BNil.
Proof.
  intros _ f kf n acc ln K Hn HK Hf Hkf. destruct n as [ni nd]. cbn [snd] in Hn. exists []. split; [|reflexivity].
  cbn [pp_more app lay kw List.length] in Hkf.
  cbn [pp_more app lay kw nls]. rewrite Nat.add_0_r, app_nil_r. fold (rbrace ln). cbn [app].
  destruct kf as [|kf]; [lia|]. cbn [stmts_new]. unfold has_more. rewrite cur_pos_cons. cbn [cn fst rbrace tk t_id t_line].
  cbn [Nat.eqb TokenRBRACE TokenEOF TokenSEMICOLON].
  apply Nat.ltb_lt in Hn. rewrite Hn. unfold with_cur. rewrite cur_pos_cons. cbn [cn fst rbrace tk t_id].
  reflexivity.
Qed.

Lemma lines_cons s r : PS s -> PLines r -> PLines (BCons s r).
Proof.
  intros IHs IHr W f kf n acc ln K Hn HK Hf Hkf. destruct n as [ni nd]. cbn [snd] in Hn. cbn [wfB] in W. destruct W as (Ws & Wr).
  rewrite lay_more_cons. rewrite lay_more_cons_len in Hf, Hkf. set (ln2 := S (ln + nls (pp_stmt s))) in *.
  destruct (lines_head r ln2 K Wr) as (tc2 & k2 & E2 & Hsep & _). rewrite E2.
  assert (Hlen2 : List.length (lay ln2 (pp_more r ++ [kw TokenRBRACE])) + List.length K = S (List.length k2)).
  { rewrite <- app_length, E2. reflexivity. }
  destruct (Hsep ln ltac:(unfold ln2; lia)) as [Hs2 Hl2].
  destruct (cur_stmt s ln (tc2 :: k2) false Ws) as (id & v & a & Hst & _ & Hcur).
  pose proof (lay_stmt_pos s ln Ws) as Hpos.
  destruct kf as [|kf]; [lia|]. destruct f as [|f]; [lia|].
  apply Nat.ltb_lt in Hn.
  assert (Hstep : stmts_new V (run V (S f)) (S kf) (ni, nd) acc
                    (pos false (lay ln (sep_of (pp_stmt s)) ++ lay ln (pp_stmt s) ++ tc2 :: k2)) =
                  (do n', s2 <- run V (S f) 0 (pos false (lay ln (pp_stmt s) ++ tc2 :: k2));
                   stmts_new V (run V (S f)) kf n' (acc ++ [snd n']) s2)).
  { rewrite lay_sep. destruct (continues (pp_stmt s)).
    - cbn [app]. cbn [stmts_new]. unfold has_more. rewrite cur_pos_cons. cbn [cn fst semit tk t_id Nat.eqb TokenSEMICOLON TokenEOF].
      unfold with_cur. rewrite cur_pos_cons. cbn [cn fst semit tk t_id Nat.eqb TokenSEMICOLON]. rewrite pos_cons.
      rewrite skipToken_pos by (try reflexivity; apply headk_stmt; exact Ws). reflexivity.
    - cbn [app]. cbn [stmts_new]. unfold has_more. rewrite Hcur. cbn [cn fst tk t_id t_line].
      rewrite (hstart_not id TokenEOF Hst) by (unfold closers; simpl; tauto).
      rewrite (hstart_not id TokenSEMICOLON Hst) by (unfold closers; simpl; tauto).
      rewrite Hn. unfold with_cur. rewrite Hcur. cbn [cn fst tk t_id].
      rewrite (hstart_not id TokenSEMICOLON Hst) by (unfold closers; simpl; tauto).
      rewrite (hstart_not id TokenRBRACE Hst) by (unfold closers; simpl; tauto). reflexivity. }
  rewrite Hstep.
  destruct (IHs Ws f ln tc2 k2 Hs2 (fun _ => Hl2) ltac:(lia)) as (i & tr & Erun & Hstrip & Hline).
  rewrite Erun. cbn [rbind snd].
  change (st (Some (cn false tc2)) k2 false) with (pos false (tc2 :: k2)). rewrite <- E2.
  destruct (IHr Wr (S f) kf (i, tr) (acc ++ [tr]) ln2 K) as (trs & Eloop & Hmap).
  - cbn [snd]. rewrite Hline. unfold ln2. lia.
  - exact HK.
  - lia.
  - lia.
  - rewrite Eloop. exists (tr :: trs). split.
    + rewrite <- app_assoc. cbn [app]. rewrite nls_more_cons. unfold ln2. f_equal. f_equal. f_equal. unfold rbrace. f_equal. lia.
    + cbn [map embed_block]. rewrite Hstrip, Hmap. reflexivity.
Qed.

Lemma pis_nil : PPis BNil.
Proof.
  intros _ f ln c K Hc HK Hf. exists []. split; [|reflexivity].
  cbn [pp_lines app lay kw]. fold (rbrace ln). unfold pis.
  rewrite skipToken_pos by (try exact Hc; exact known_rbrace). cbn [rbind]. rewrite cur_pos_cons.
  cbn [cn fst rbrace tk t_id Nat.eqb TokenRBRACE]. rewrite pos_cons. cbn [rbind].
  rewrite skipToken_pos by (try reflexivity; exact HK). reflexivity.
Qed.

Lemma pis_cons s r : PS s -> PLines r -> PPis (BCons s r).
Proof.
  intros IHs IHr W f ln c K Hc HK Hf. cbn [wfB] in W. destruct W as (Ws & Wr).
  rewrite lay_lines_cons. rewrite lay_lines_cons_len in Hf. set (ln2 := S (ln + nls (pp_stmt s))) in *.
  destruct (lines_head r ln2 K Wr) as (tc2 & k2 & E2 & Hsep & Hneof). rewrite E2.
  assert (Hlen2 : List.length (lay ln2 (pp_more r ++ [kw TokenRBRACE])) + List.length K = S (List.length k2)).
  { rewrite <- app_length, E2. reflexivity. }
  destruct (Hsep ln ltac:(unfold ln2; lia)) as [Hs2 Hl2].
  destruct (cur_stmt s ln (tc2 :: k2) false Ws) as (id & v & a & Hst & _ & Hcur).
  pose proof (lay_stmt_pos s ln Ws) as Hpos.
  destruct f as [|f]; [lia|].
  unfold pis. rewrite skipToken_pos by (try exact Hc; apply headk_stmt; exact Ws). cbn [rbind].
  rewrite Hcur. cbn [cn fst tk t_id].
  rewrite (hstart_not id TokenRBRACE Hst) by (unfold closers; simpl; tauto).
  change (v_propagate V) with true. cbv iota.
  destruct (IHs Ws f ln tc2 k2 Hs2 (fun _ => Hl2) ltac:(lia)) as (i & tr & Erun & Hstrip & Hline).
  rewrite Erun. cbn [rbind snd]. rewrite cur_st.
  cbn [cn fst]. rewrite Hneof. rewrite fuel_of_st.
  change (st (Some (cn false tc2)) k2 false) with (pos false (tc2 :: k2)). rewrite <- E2.
  destruct (IHr Wr (S f) (S (List.length k2)) (i, tr) [tr] ln2 K) as (trs & Eloop & Hmap).
  - cbn [snd]. rewrite Hline. unfold ln2. lia.
  - exact HK.
  - lia.
  - lia.
  - rewrite Eloop. cbn [rbind]. rewrite pos_cons.
    rewrite skipToken_pos by (try reflexivity; exact HK). cbn [rbind].
    exists (tr :: trs). split; [reflexivity|]. cbn [map embed_block]. rewrite Hstrip, Hmap. reflexivity.
Qed.

(* ---------------------------------------------------------------------------------- *)
(* keyword tokens *)

Definition kwt (ln id : nat) : tok := tk ln id [] false.

Lemma cn_kw b ln id : id <> TokenLBRACE -> cn b (kwt ln id) = (kwt ln id, entd false id).
Proof. intros H. unfold cn, kwt. cbn [tk t_id]. rewrite entd_irrel by exact H. reflexivity. Qed.

Lemma lay_kw ln id r : lay ln (kw id :: r) = kwt ln id :: lay ln r.
Proof. reflexivity. Qed.

Lemma null_den_return runf c s : ge_null (snd c) = "ndReturn" -> null_den V runf c s = ndReturn runf c s.
Proof. intros H. unfold null_den. rewrite H. reflexivity. Qed.
Lemma null_den_guard runf c s : ge_null (snd c) = "ndGuard" -> null_den V runf c s = ndGuard V runf c s.
Proof. intros H. unfold null_den. rewrite H. reflexivity. Qed.
Lemma null_den_loop runf c s : ge_null (snd c) = "ndLoop" -> null_den V runf c s = ndLoop V runf c s.
Proof. intros H. unfold null_den. rewrite H. reflexivity. Qed.
Lemma null_den_mutex runf c s : ge_null (snd c) = "ndMutex" -> null_den V runf c s = ndMutex V runf c s.
Proof. intros H. unfold null_den. rewrite H. reflexivity. Qed.

Lemma mk_node_kw name ln id cs : id <> TokenIDENTIFIER -> mk_node name (kwt ln id) cs = Node name [] false false ln cs.
Proof. intros H. unfold kwt. rewrite mk_node_tk. apply Nat.eqb_neq in H. rewrite H. reflexivity. Qed.

(* run on a keyword statement: dispatch to its null denotation, then the loop stops *)
Lemma run_kw f ln id nd rest :
  id <> TokenLBRACE -> ge_null (entd false id) = nd -> nd <> "" -> headk rest ->
  run V (S f) 0 (pos false (kwt ln id :: rest)) =
  (do left, s2 <- null_den V (run V f) (kwt ln id, entd false id) (pos false rest);
   ld_loop V (run V f) (fuel_of s2) 0 left s2).
Proof.
  intros Hid Hn Hne Hk. rewrite run_S. cbn [pos]. rewrite cn_kw by exact Hid.
  rewrite run_body_st; [reflexivity | exact Hk | cbn [snd]; rewrite Hn; exact Hne].
Qed.

Lemma finish_stmt f ln left tc k :
  sepT ln tc -> n_line (snd left) = ln ->
  ld_loop V (run V f) (fuel_of (st (Some (cn false tc)) k false)) 0 left (st (Some (cn false tc)) k false)
  = ROk left (st (Some (cn false tc)) k false).
Proof.
  intros Hs Hl. apply ld_loop_stop with (ln := ln); [apply sepT_stop; exact Hs | exact Hl | rewrite fuel_of_st; lia].
Qed.

(* ---------------------------------------------------------------------------------- *)
(* statement kinds *)

Lemma ps_expr e : PS (SExpr e).
Proof.
  intros W f ln tc k Hs _ Hf. cbn [wfS] in W. unfold pp_stmt in *.
  exists (root_id e), (setl ln (erase e)). split; [|split].
  - apply expr_run; try assumption; [apply Hs | apply sepT_stop; exact Hs].
  - cbn [embed]. apply strip_expr; exact W.
  - apply n_line_setl.
Qed.

Lemma ps_return0 : PS SReturn0.
Proof.
  intros _ f ln tc k Hs Hl _. specialize (Hl eq_refl). unfold pp_stmt. rewrite lay_kw. cbn [lay app].
  pose proof Hs as (Kt & _).
  rewrite (run_kw f ln TokenRETURN "ndReturn") by (try discriminate; try reflexivity; exact Kt).
  rewrite null_den_return by reflexivity. unfold ndReturn, with_cur. rewrite cur_pos_cons. cbn [cn fst kwt tk t_line].
  destruct (Nat.eqb_spec ln (t_line tc)) as [Hq|_]; [lia|]. cbn [rbind]. rewrite pos_cons.
  rewrite finish_stmt with (ln := ln); [| exact Hs | unfold rn; cbn [snd fst]; rewrite mk_node_kw by discriminate; reflexivity].
  unfold rn. cbn [fst snd]. rewrite mk_node_kw by discriminate. do 2 eexists. split; [reflexivity|]. split; reflexivity.
Qed.

Lemma ps_return1 e : PS (SReturn1 e).
Proof.
  intros W f ln tc k Hs _ Hf. cbn [wfS] in W. unfold pp_stmt in *. rewrite lay_kw in *. cbn [app List.length] in *.
  pose proof Hs as (Kt & _).
  rewrite (run_kw f ln TokenRETURN "ndReturn") by (try discriminate; try reflexivity; apply headk_lay_pp; apply wfe_wf; exact W).
  rewrite null_den_return by reflexivity. unfold ndReturn, with_cur.
  destruct (pp_head_wfe e W) as (id & v & a & r & E & H1 & H2).
  assert (Hcur : cur (pos false (lay ln (pp e) ++ tc :: k)) = Some (cn false (tk ln id v a))) by (rewrite E; reflexivity).
  rewrite Hcur. cbn [cn fst kwt tk t_line]. rewrite Nat.eqb_refl.
  destruct f as [|f]; [lia|].
  rewrite expr_run by (try assumption; try (apply sepT_stop; exact Hs); lia).
  cbn [rbind snd].
  rewrite finish_stmt with (ln := ln); [| exact Hs | unfold rn; cbn [snd fst]; rewrite mk_node_kw by discriminate; reflexivity].
  unfold rn. cbn [fst snd]. rewrite mk_node_kw by discriminate. do 2 eexists. split; [reflexivity|]. split; [|reflexivity].
  cbn [strip map embed]. rewrite strip_expr by exact W. reflexivity.
Qed.

(* ---------------------------------------------------------------------------------- *)
(* layout of  <guard expression> { lines } rest *)

Lemma nls_block X : nls (block X) = S (nls X).
Proof. unfold block, kw. cbn [nls]. rewrite nls_app. cbn [nls]. lia. Qed.

Lemma lay_guard_block ln g X REST K : wf_expr g ->
  lay ln (pp g ++ block X ++ REST) ++ K =
  lay ln (pp g) ++ kwt ln TokenLBRACE :: lay (S ln) (X ++ [kw TokenRBRACE]) ++ lay (S (ln + nls X)) REST ++ K.
Proof.
  intros W. rewrite lay_app0 by (apply nls_pp; exact W). rewrite lay_app, lay_block, nls_block.
  rewrite <- !app_assoc. cbn [app]. rewrite <- plus_n_Sm. reflexivity.
Qed.

Lemma lay_guard_block0 ln g X K : wf_expr g ->
  lay ln (pp g ++ block X) ++ K = lay ln (pp g) ++ kwt ln TokenLBRACE :: lay (S ln) (X ++ [kw TokenRBRACE]) ++ K.
Proof.
  intros W. pose proof (lay_guard_block ln g X [] K W) as H. cbn [lay app] in H. rewrite app_nil_r in H. exact H.
Qed.

Lemma lay_block_rest ln X REST K :
  lay ln (block X ++ REST) ++ K =
  kwt ln TokenLBRACE :: lay (S ln) (X ++ [kw TokenRBRACE]) ++ lay (S (ln + nls X)) REST ++ K.
Proof.
  rewrite lay_app, lay_block, nls_block. rewrite <- !app_assoc. cbn [app]. rewrite <- plus_n_Sm. reflexivity.
Qed.

Lemma len_of {A} (a b : list A) : a = b -> List.length a = List.length b.
Proof. intros ->. reflexivity. Qed.

Lemma fuel_of_pos b K : K <> [] -> fuel_of (pos b K) = List.length K.
Proof. destruct K; [congruence|]. intros _. cbn [pos]. rewrite fuel_of_st. reflexivity. Qed.

Lemma known_kw_tail : known TokenELSE = true /\ known TokenELIF = true.
Proof. split; vm_compute; reflexivity. Qed.

Lemma headk_tail r ln tc k : known (t_id tc) = true -> headk (lay ln (pp_tail r) ++ tc :: k).
Proof.
  intros K. destruct r; cbn [pp_tail]; [exact K | |]; rewrite lay_kw; cbn [app headk kwt tk t_id]; apply known_kw_tail.
Qed.

Lemma tail_nonempty r ln tc k : lay ln (pp_tail r) ++ tc :: k <> [].
Proof. destruct (lay ln (pp_tail r)); discriminate. Qed.

(* ---------------------------------------------------------------------------------- *)
(* elif / else tails *)

Lemma is_elif_false c k b : t_id (fst c) <> TokenELIF -> is_not_end_and_token (st (Some c) k b) TokenELIF = false.
Proof.
  destruct c as [t e]. cbn [fst]. intros H. unfold is_not_end_and_token. rewrite cur_st.
  apply Nat.eqb_neq in H. rewrite H. apply andb_false_r.
Qed.

Lemma is_tok_true (c : cnode) id k b : t_id (fst c) = id -> String.eqb (ge_name (snd c)) NodeEOF = false ->
  is_not_end_and_token (st (Some c) k b) id = true.
Proof.
  destruct c as [t e]. cbn [fst snd]. intros H1 H2. unfold is_not_end_and_token. rewrite cur_st, H2, H1, Nat.eqb_refl. reflexivity.
Qed.

Lemma pt_none : PT INone.
Proof.
  intros _ f kf c acc ln tc k Kt Hne1 Hne2 Hf Hkf. exists []. split; [|reflexivity].
  cbn [pp_tail lay app pos]. rewrite app_nil_r. cbn [pp_tail lay List.length] in Hkf.
  destruct kf as [|kf]; [lia|]. unfold guard_tail. cbn [elifs].
  rewrite is_elif_false by exact Hne1. cbn [rbind]. unfold with_cur. rewrite cur_st. cbn [cn].
  apply Nat.eqb_neq in Hne2. rewrite Hne2. reflexivity.
Qed.

Lemma pt_else b : PPis b -> PT (IElse b).
Proof.
  intros IHb W f kf c acc ln tc k Kt Hne1 Hne2 Hf Hkf. cbn [wfT] in W.
  cbn [pp_tail] in *. rewrite lay_kw in *.
  pose proof (lay_block_rest ln (pp_lines b) [] []) as Hl0. cbn [lay] in Hl0. rewrite !app_nil_r in Hl0.
  rewrite Hl0 in Hf, Hkf. cbn [List.length] in Hf, Hkf.
  cbn [app]. pose proof (lay_block_rest ln (pp_lines b) [] (tc :: k)) as Hl. cbn [lay app] in Hl.
  rewrite app_nil_r in Hl. rewrite Hl. clear Hl Hl0.
  destruct kf as [|kf]; [lia|]. unfold guard_tail. cbn [elifs]. cbn [pos]. rewrite cn_kw by discriminate.
  rewrite is_elif_false by (cbn [fst kwt tk t_id]; discriminate). cbn [rbind]. unfold with_cur. rewrite cur_st.
  cbn [kwt tk t_id Nat.eqb TokenELSE].
  rewrite skipToken_pos by (try reflexivity; cbn [headk kwt tk t_id]; exact known_lbrace). cbn [rbind pos].
  destruct (IHb W f (S ln) (cn false (kwt ln TokenLBRACE)) (tc :: k) eq_refl Kt ltac:(cbn [List.length]; lia)) as (trs & Epis & Hmap).
  rewrite Epis. cbn [rbind pos].
  eexists. split; [reflexivity|]. cbn [map embed_tail]. rewrite !strip_constructed. cbn [map]. rewrite !strip_constructed, Hmap. reflexivity.
Qed.

Lemma pt_elif g b r : PPis b -> PT r -> PT (IElif g b r).
Proof.
  intros IHb IHr W f kf c acc ln tc k Kt Hne1 Hne2 Hf Hkf. cbn [wfT] in W. destruct W as (Wg & Wb & Wr & _).
  pose proof (wfe_wf g Wg) as Wg'.
  cbn [pp_tail] in *. rewrite lay_kw in *.
  pose proof (len_of _ _ (lay_guard_block ln g (pp_lines b) (pp_tail r) [] Wg')) as Hl0. rewrite !app_nil_r in Hl0.
  rewrite !app_length in Hl0. cbn [List.length] in Hl0. rewrite !app_length in Hl0.
  cbn [List.length] in Hf, Hkf. rewrite Hl0 in Hf, Hkf. clear Hl0.
  cbn [app]. rewrite lay_guard_block by exact Wg'. set (lnT := S (ln + nls (pp_lines b))) in *.
  destruct kf as [|kf]; [lia|]. destruct f as [|f]; [lia|].
  unfold guard_tail. cbn [elifs]. cbn [pos]. rewrite cn_kw by discriminate.
  rewrite is_tok_true by reflexivity.
  rewrite skipToken_pos by (try reflexivity; apply headk_lay_pp; exact Wg'). cbn [rbind].
  unfold guard_and_statements. unfold kwt.
  rewrite guard_expr by (try exact Wg; rewrite ?app_length; cbn [List.length]; rewrite ?app_length; cbn [List.length]; lia).
  cbn [rbind].
  destruct (IHb Wb (S f) (S ln) (cn true (tk ln TokenLBRACE [] false)) (lay lnT (pp_tail r) ++ tc :: k) eq_refl
                (headk_tail r lnT tc k Kt) ltac:(rewrite app_length; cbn [List.length]; lia)) as (trsb & Epis & Hmapb).
  unfold kwt in *. rewrite Epis. cbn [rbind snd].
  destruct (IHr Wr (S f) kf c (acc ++ [constructed TokenGUARD [setl ln (erase g)]; constructed TokenSTATEMENTS trsb]) lnT tc k Kt Hne1 Hne2
                ltac:(lia) ltac:(lia)) as (trs & Etail & Hmap).
  unfold guard_tail in Etail. rewrite Etail.
  eexists. split; [rewrite <- app_assoc; reflexivity|].
  cbn [app map embed_tail]. rewrite !strip_constructed. cbn [map]. rewrite strip_expr by exact Wg. rewrite Hmapb, Hmap. reflexivity.
Qed.

(* ---------------------------------------------------------------------------------- *)
(* if / for / mutex *)

Lemma ps_if g b r : PPis b -> PT r -> PS (SIf g b r).
Proof.
  intros IHb IHr W f ln tc k Hs _ Hf. cbn [wfS] in W. destruct W as (Wg & Wb & Wr).
  pose proof (wfe_wf g Wg) as Wg'. pose proof Hs as (Kt & _ & _ & _ & Hne1 & Hne2 & _).
  change (pp_stmt (SIf g b r)) with (kw TokenIF :: pp g ++ block (pp_lines b) ++ pp_tail r) in *.
  rewrite lay_kw in *.
  pose proof (len_of _ _ (lay_guard_block ln g (pp_lines b) (pp_tail r) [] Wg')) as Hl0. rewrite !app_nil_r in Hl0.
  rewrite !app_length in Hl0. cbn [List.length] in Hl0. rewrite !app_length in Hl0.
  cbn [List.length] in Hf. rewrite Hl0 in Hf. clear Hl0.
  cbn [app]. rewrite lay_guard_block by exact Wg'. set (lnT := S (ln + nls (pp_lines b))) in *.
  destruct f as [|f]; [lia|].
  rewrite (run_kw (S f) ln TokenIF "ndGuard") by (try discriminate; try reflexivity; apply headk_lay_pp; exact Wg').
  rewrite null_den_guard by reflexivity. rewrite ndGuard_eq.
  unfold guard_and_statements. change (kwt ln TokenLBRACE) with (tk ln TokenLBRACE [] false).
  rewrite guard_expr by (try exact Wg; rewrite ?app_length; cbn [List.length]; rewrite ?app_length; cbn [List.length]; lia).
  cbn [rbind].
  destruct (IHb Wb (S f) (S ln) (cn true (tk ln TokenLBRACE [] false)) (lay lnT (pp_tail r) ++ tc :: k) eq_refl
                (headk_tail r lnT tc k Kt) ltac:(rewrite app_length; cbn [List.length]; lia)) as (trsb & Epis & Hmapb).
  rewrite Epis. cbn [rbind snd]. rewrite fuel_of_pos by apply tail_nonempty.
  destruct (IHr Wr (S f) (List.length (lay lnT (pp_tail r) ++ tc :: k)) (kwt ln TokenIF, entd false TokenIF)
                [constructed TokenGUARD [setl ln (erase g)]; constructed TokenSTATEMENTS trsb] lnT tc k Kt Hne1 Hne2
                ltac:(lia) ltac:(rewrite app_length; cbn [List.length]; lia)) as (trs & Etail & Hmap).
  rewrite Etail. cbn [rbind].
  rewrite finish_stmt with (ln := ln); [| exact Hs | unfold rn; cbn [snd fst]; rewrite mk_node_kw by discriminate; reflexivity].
  unfold rn. cbn [fst snd]. rewrite mk_node_kw by discriminate. do 2 eexists. split; [reflexivity|]. split; [|reflexivity].
  rewrite entd_name. cbn [strip app map embed]. rewrite !strip_constructed. cbn [map]. rewrite strip_expr by exact Wg.
  rewrite Hmapb, Hmap. reflexivity.
Qed.

Lemma root_in_name g : wfe g -> root_id g = TokenIN -> True.
Proof. trivial. Qed.

Lemma ps_for g b : PPis b -> PS (SFor g b).
Proof.
  intros IHb W f ln tc k Hs _ Hf. cbn [wfS] in W. destruct W as (Wg & Wb).
  pose proof (wfe_wf g Wg) as Wg'. pose proof Hs as (Kt & _).
  change (pp_stmt (SFor g b)) with (kw TokenFOR :: pp g ++ block (pp_lines b)) in *.
  rewrite lay_kw in *.
  pose proof (len_of _ _ (lay_guard_block0 ln g (pp_lines b) [] Wg')) as Hl0. rewrite !app_nil_r in Hl0.
  rewrite !app_length in Hl0. cbn [List.length] in Hl0.
  cbn [List.length] in Hf. rewrite Hl0 in Hf. clear Hl0.
  cbn [app]. rewrite lay_guard_block0 by exact Wg'.
  destruct f as [|f]; [lia|].
  rewrite (run_kw (S f) ln TokenFOR "ndLoop") by (try discriminate; try reflexivity; apply headk_lay_pp; exact Wg').
  rewrite null_den_loop by reflexivity. unfold ndLoop. change (kwt ln TokenLBRACE) with (tk ln TokenLBRACE [] false).
  rewrite guard_expr by (try exact Wg; rewrite ?app_length; cbn [List.length]; lia).
  cbn [rbind fst snd].
  destruct (IHb Wb (S f) (S ln) (cn true (tk ln TokenLBRACE [] false)) (tc :: k) eq_refl Kt
                ltac:(cbn [List.length]; lia)) as (trsb & Epis & Hmapb).
  rewrite Epis. cbn [rbind pos].
  rewrite finish_stmt with (ln := ln); [| exact Hs | unfold rn; cbn [snd fst]; rewrite mk_node_kw by discriminate; reflexivity].
  unfold rn. cbn [fst snd]. rewrite mk_node_kw by discriminate. do 2 eexists. split; [reflexivity|]. split; [|reflexivity].
  rewrite entd_name. cbn [strip map embed]. rewrite !strip_constructed. rewrite Hmapb.
  destruct (root_id g =? TokenIN); [rewrite strip_expr by exact Wg; reflexivity|].
  rewrite strip_constructed. cbn [map]. rewrite strip_expr by exact Wg. reflexivity.
Qed.

Lemma ps_mutex x b : PPis b -> PS (SMutex x b).
Proof.
  intros IHb W f ln tc k Hs _ Hf. cbn [wfS] in W. pose proof Hs as (Kt & _).
  change (pp_stmt (SMutex x b)) with (kw TokenMUTEX :: identt x :: block (pp_lines b) ++ [NL]) in *.
  rewrite lay_kw in *. unfold identt in *. cbn [lay] in *.
  pose proof (lay_block_rest ln (pp_lines b) [NL] []) as Hl0. cbn [lay] in Hl0. rewrite !app_nil_r in Hl0.
  rewrite Hl0 in Hf. cbn [List.length] in Hf.
  cbn [app]. pose proof (lay_block_rest ln (pp_lines b) [NL] (tc :: k)) as Hl. cbn [lay app] in Hl. rewrite Hl. clear Hl Hl0.
  destruct f as [|f]; [lia|].
  rewrite (run_kw (S f) ln TokenMUTEX "ndMutex") by (try discriminate; try reflexivity; vm_compute; reflexivity).
  rewrite null_den_mutex by reflexivity. unfold ndMutex. cbn [pos].
  rewrite acceptChild_pos by (try reflexivity; cbn [headk kwt tk t_id]; exact known_lbrace). cbn [rbind pos].
  destruct (IHb W (S f) (S ln) (cn false (kwt ln TokenLBRACE)) (tc :: k) eq_refl Kt
                ltac:(cbn [List.length]; lia)) as (trsb & Epis & Hmapb).
  rewrite Epis. cbn [rbind pos].
  rewrite finish_stmt with (ln := ln); [| exact Hs | unfold rn; cbn [snd fst]; rewrite mk_node_kw by discriminate; reflexivity].
  unfold rn. cbn [fst snd]. rewrite mk_node_kw by discriminate. do 2 eexists. split; [reflexivity|]. split; [|reflexivity].
  rewrite entd_name. cbn [strip map embed]. rewrite !strip_constructed. rewrite Hmapb.
  cbn [cn fst snd tk t_id]. fold (tk ln TokenIDENTIFIER x false). rewrite mk_node_tk, entd_name. reflexivity.
Qed.

(* ---------------------------------------------------------------------------------- *)
(* the mutual induction *)

Theorem stmt_key :
  (forall s, PS s) /\ (forall b, PB b) /\ (forall r, PT r) /\
  (forall (e : StmtPrinter.excepts), True) /\ (forall (o : oblock), True).
Proof.
  apply stmt_mutind; try (intros; exact I).
  - apply ps_expr.
  - apply ps_return0.
  - apply ps_return1.
  - intros g b [_ Hb] r Hr. apply ps_if; assumption.
  - intros g b [_ Hb]. apply ps_for; assumption.
  - intros x b [_ Hb]. apply ps_mutex; assumption.
  - intros b _ ex _ ow _ fin _ W. destruct W.
  - intros x ps b _ W. destruct W.
  - split; [apply lines_nil | apply pis_nil].
  - intros s Hs b [Hl _]. split; [apply lines_cons | apply pis_cons]; assumption.
  - apply pt_none.
  - intros b [_ Hb]. apply pt_else; assumption.
  - intros g b [_ Hb] r Hr. apply pt_elif; assumption.
Qed.
