(* Proofs/LexerProofs.v — the lexer model, for every input and every classifier triple that
   calls a newline a space and not a number:  (1) it never panics and never runs out of
   fuel (lex_total), (2) every token except EOF carries the line/column of its byte offset
   (positions_true), (3) the token list ends with EOF or an error token, and these occur
   nowhere else (lex_shape).  Method: one total-correctness lemma per Go function, with the
   invariant "line/lastnl are the newline count / last newline offset of the text before
   the current position" (T) carried through all of them. *)
From Coq Require Import ZArith Lia ZifyBool ZifyN ZifyNat.
From Ecal Require Import Common.Bytes Common.Outcome Model.Lexer Spec.PositionSpec Proofs.LexerBase.
Open Scope nat_scope.

Definition normal (t : token) : Prop := t_id t <> TokenEOF /\ t_id t <> TokenError.

Section Proofs.
  Variables is_space is_control is_number : rune -> bool.
  Variable keeps : bool.       (* v_line_comment_keeps_lastnl: true = the code in /repo *)
  Variable input : bytes.
  Hypothesis Hnl : is_space 10%Z = true.
  Hypothesis Hnum : is_number 10%Z = false.
  Notation len := (length input).
  Notation nonsp := (nonspace is_space is_control).
  Notation pk := (peek_at input).

  (* line / lastnl describe the text before offset p *)
  (* the column bookkeeping is right when the repair is in, or when the text has no '#' at
     all (then the line-comment branch is never entered); the line bookkeeping always is *)
  Definition no_hash : Prop := forall i, nth i input 0%N <> 35%N.
  Definition G : Prop := keeps = false \/ no_hash.

  Definition T (l : lexer) (p : nat) : Prop :=
    l_line l = nl_count input p /\ (G -> l_lastnl l = nl_last input p).

  Definition tok_ok (t : token) : Prop :=
    t_id t = TokenEOF
    \/ (t_line t = (1 + Z.of_nat (nl_count input (t_pos t)))%Z
        /\ (G -> t_col t = (1 + Z.of_nat (t_pos t) - Z.of_nat (nl_last input (t_pos t)))%Z)
        /\ t_pos t <= len).

  Definition out_ok (l : lexer) : Prop := Forall tok_ok (l_out l).

  Lemma T_frame l l' p : frame l l' -> T l p -> T l' p.
  Proof. unfold frame, T. intuition congruence. Qed.

  Lemma T_no_nl l a b : a <= b -> no_nl input a b -> T l a -> T l b.
  Proof.
    unfold T. intros H1 H2 [X Y]. destruct (no_nl_same input a b H1 H2).
    split; [congruence | intros g; specialize (Y g); congruence].
  Qed.

  Lemma T_no_nl_back l a b : a <= b -> no_nl input a b -> T l b -> T l a.
  Proof.
    unfold T. intros H1 H2 [X Y]. destruct (no_nl_same input a b H1 H2).
    split; [congruence | intros g; specialize (Y g); congruence].
  Qed.

  Lemma nonsp_not_nl r : nonsp r = true -> r <> 10%Z /\ r <> RuneEOF.
  Proof.
    unfold nonspace. intros H. split.
    - intros ->. rewrite Hnl in H. discriminate.
    - intros ->. rewrite Z.eqb_refl, !andb_false_r in H. discriminate.
  Qed.

  Lemma stamp_ok l id v i e : T l (l_start l) -> l_start l <= len -> tok_ok (stamp l id v i e).
  Proof.
    intros [H1 H2] H. right. unfold stamp. cbn [t_line t_col t_pos]. split; [rewrite H1; lia|].
    split; [intros g; rewrite (H2 g); lia | exact H].
  Qed.

  (* what a state function may do to the channel: nothing or one ordinary token when it
     names a successor; one token when it stops, an error or (comment at EOF) an ordinary one *)
  Definition pushed (l l' : lexer) (nxt : option lstate) : Prop :=
    match nxt with
    | Some _ => l_out l' = l_out l \/ exists t, l_out l' = t :: l_out l /\ normal t
    | None => exists t, l_out l' = t :: l_out l /\ (t_id t = TokenError \/ (normal t /\ len <= l_pos l'))
    end.

  (* ---------------------------------------------------------------- skipWhiteSpace *)
  Definition sws_post (p : nat) (r : rune) (l : lexer) (b : bool) (l' : lexer) : Prop :=
    l_start l' = l_start l
    /\ (b = true -> l_out l' = l_out l /\ p <= l_pos l' < len /\ nonsp (pk (l_pos l') 1) = true
                    /\ (T l p -> T l' (l_pos l')) /\ (nonsp r = true -> l_pos l' = p))
    /\ (b = false -> (exists t, l_out l' = t :: l_out l /\ t_id t = TokenEOF))
    /\ (len <= p -> b = false).

  Lemma sws_loop_ok : forall fuel p r l, Hd input p r l -> p <= len -> len - p < fuel ->
    exists b l', sws_loop is_space is_control input fuel r l = Ok (b, l') /\ sws_post p r l b l'.
  Proof.
    induction fuel as [|f IH]; intros p r l HH Hp Hf; [lia|].
    cbn [sws_loop].
    destruct (is_space r || is_control r || (r =? RuneEOF)%Z) eqn:Ec.
    - (* a space: consume *)
      set (l1 := if (r =? 10)%Z then count_newline l else l).
      assert (Hl1 : l_pos l1 = l_pos l /\ l_start l1 = l_start l /\ l_out l1 = l_out l)
        by (subst l1; destruct (r =? 10)%Z; auto).
      destruct Hl1 as (Hp1 & Hs1 & Ho1).
      destruct (next0_Hd input l1) as [HH2 Hfr]. destruct (next0 input l1) as [r' l2]. cbn [fst snd] in *.
      assert (Hns : nonsp r = false).
      { unfold nonspace. destruct (is_space r), (is_control r), (r =? RuneEOF)%Z; simpl in *; congruence. }
      destruct (Z.eqb_spec r' RuneEOF) as [E'|E'].
      + exists false, (emitEOF l2). split; [reflexivity|]. unfold sws_post, emitEOF, emitTokenAndValue, push.
        cbn [l_start l_out]. destruct Hfr as (_&_&_&Hs&Ho). repeat split; try congruence.
        * eexists. split; [rewrite Ho, Ho1; reflexivity | reflexivity].
      + (* r' was read at l_pos l; r itself was not EOF *)
        destruct (Hd_adv _ _ _ _ HH2 E') as [A2 P2].
        assert (Er : r <> RuneEOF).
        { intros ->. destruct (Hd_eof _ _ _ _ HH eq_refl) as [? ?]. destruct A2. lia. }
        destruct (Hd_adv _ _ _ _ HH Er) as [A P].
        destruct (IH (l_pos l1) r' l2 HH2) as (b & l' & Hrun & Hpost).
        { destruct A2; lia. } { destruct A as (?&?&?); lia. }
        exists b, l'. split; [exact Hrun|].
        destruct Hpost as (Q1 & Q2 & Q3 & Q4). destruct Hfr as (F1&F2&F3&F4&F5).
        unfold sws_post. split; [congruence|]. split; [|split].
        * intros ->. destruct (Q2 eq_refl) as (R1&R2&R3&R4&R5).
          split; [congruence|]. split; [destruct A as (?&?&?); lia|]. split; [exact R3|].
          split; [|congruence].
          intros HT. apply R4. apply (T_frame l1 l2); [repeat split; assumption|].
          rewrite Hp1, P. destruct A as (A1&A2'&A3&A4&A5&A6&A7&A8). subst l1.
          destruct (Z.eqb_spec r 10) as [->|Hne].
          -- destruct (A5 eq_refl) as [W N]. unfold T, count_newline. cbn [l_line l_lastnl l_pos].
             rewrite W, P, W, Nat.add_1_r. destruct (nl_step_nl input p N) as [-> ->].
             destruct HT as [-> _]. auto.
          -- apply (T_no_nl l p); [lia | auto | exact HT].
        * intros ->. destruct (Q3 eq_refl) as (t & Ht & Hid). exists t. split; congruence.
        * intros Hlen. destruct A. lia.
    - (* not a space: back up *)
      assert (Hns : nonsp r = true).
      { unfold nonspace. destruct (is_space r), (is_control r), (r =? RuneEOF)%Z; simpl in *; congruence. }
      destruct (nonsp_not_nl _ Hns) as [_ Er].
      rewrite (backup_Hd input p r l HH Er). cbn [obind].
      destruct (Hd_adv _ _ _ _ HH Er) as [A P]. destruct A as (A1&A2&A3&A4&A5&A6&A7&A8).
      exists true, (set_pos l p). split; [reflexivity|]. unfold sws_post. cbn [set_pos l_start l_out l_pos].
      repeat split; try lia; try congruence; auto;
        match goal with H : T _ _ |- _ => destruct H; auto end.
  Qed.

  Lemma sws_ok l : l_pos l <= len ->
    exists b l', skipWhiteSpace is_space is_control input l = Ok (b, l')
                 /\ sws_post (l_pos l) (pk (l_pos l) 1) l b l'.
  Proof.
    intros Hp. unfold skipWhiteSpace.
    destruct (next0_Hd input l) as [HH Hfr]. destruct (next0 input l) as [r l1]. cbn [fst snd] in *.
    destruct (sws_loop_ok (S (ilen input)) (l_pos l) r (set_skipped l1 0)) as (b & l' & Hrun & Hpost).
    { destruct HH as [?|[? ?]]; [left|right; split]; assumption. } { exact Hp. } { unfold ilen. lia. }
    exists b, l'. split; [exact Hrun|].
    assert (Er : r = pk (l_pos l) 1).
    { destruct HH as [(?&->&?)|[A ?]]; [rewrite peek_at_eof by assumption; reflexivity|].
      destruct A as (_&_&_&_&_&_&_&A8). auto. }
    rewrite <- Er. destruct Hfr as (F1&F2&F3&F4&F5). destruct Hpost as (Q1&Q2&Q3&Q4).
    unfold sws_post. cbn [set_skipped l_start l_out] in *. split; [congruence|]. split; [|split; [|exact Q4]].
    - intros ->. destruct (Q2 eq_refl) as (R1&R2&R3&R4&R5).
      split; [congruence|]. split; [lia|]. split; [exact R3|]. split; [|exact R5].
      intros HT. apply R4. unfold T in *. cbn [l_line l_lastnl set_skipped]. rewrite F1, F2. exact HT.
    - intros ->. destruct (Q3 eq_refl) as (t & Ht & Hid). exists t. split; congruence.
  Qed.

  (* ---------------------------------------------------------------- the two block scanners *)
  Lemma frame_set_pos l p : frame l (set_pos l p).
  Proof. repeat split. Qed.

  Lemma block_end_ok p r l : Hd input p r l ->
    exists l', block_end r l = Ok l' /\ frame l l' /\ l_pos l' = p.
  Proof.
    intros HH. unfold block_end. destruct (Z.eqb_spec r RuneEOF) as [E|E].
    - exists l. destruct (Hd_eof _ _ _ _ HH E). repeat split; auto.
    - rewrite (backup_Hd input p r l HH E). exists (set_pos l p). repeat split.
  Qed.

  Lemma next0_step l : exists r' l', next0 input l = (r', l') /\ Hd input (l_pos l) r' l' /\ frame l l'.
  Proof.
    destruct (next0_Hd input l) as [H1 H2]. destruct (next0 input l) as [r' l'].
    exists r', l'. auto.
  Qed.

  Lemma Hd_no_nl p r l : Hd input p r l -> r <> 10%Z -> p <= l_pos l /\ no_nl input p (l_pos l).
  Proof.
    intros [(?&?&->)|[A ->]] Hr.
    - split; [lia | apply no_nl_empty].
    - destruct A as (_&_&_&_&_&A6&_). split; [lia | auto].
  Qed.

  Lemma Hd_le p r l : Hd input p r l -> p <= len -> l_pos l <= len.
  Proof. intros [(?&?&->)|[A ->]] Hle; [lia | destruct A as (?&?&?&_); lia]. Qed.

  Lemma Hd_progress p r l : Hd input p r l -> r <> RuneEOF -> p < l_pos l.
  Proof. intros HH E. destruct (Hd_adv _ _ _ _ HH E) as [(?&?&?) ->]. lia. Qed.

  Definition blk (p0 : nat) (l l' : lexer) : Prop :=
    frame l l' /\ p0 <= l_pos l' <= len /\ no_nl input p0 (l_pos l').

  Lemma lnb_loop_ok p0 : forall fuel p r l, Hd input p r l -> p0 <= p <= len -> no_nl input p0 p ->
    len - p < fuel ->
    exists l', lnb_loop is_space is_control is_number input fuel r l = Ok l' /\ blk p0 l l'.
  Proof.
    induction fuel as [|f IH]; intros p r l HH Hp Hn Hf; [lia|].
    cbn [lnb_loop].
    assert (Hend : exists l', block_end r l = Ok l' /\ blk p0 l l').
    { destruct (block_end_ok p r l HH) as (l' & E & Fr & P). exists l'. split; [exact E|].
      split; [exact Fr|]. rewrite P. split; [lia | exact Hn]. }
    destruct (nonsp r) eqn:Ens; [|exact Hend].
    destruct (nonsp_not_nl _ Ens) as [R10 REOF].
    destruct (Hd_no_nl _ _ _ HH R10) as [Hq Hnq]. pose proof (Hd_progress _ _ _ HH REOF) as Hpr.
    pose proof (Hd_le _ _ _ HH (proj2 Hp)) as Hle.
    assert (Hnq' : no_nl input p0 (l_pos l)) by (eapply no_nl_app; eauto).
    destruct (negb (is_number r) && negb (r =? 46)%Z).
    - destruct (r =? 101)%Z; [|exact Hend].
      destruct (negb (peek input l 1 =? 43)%Z || negb (is_number (peek input l 2))) eqn:Ee; [exact Hend|].
      apply orb_false_iff in Ee. destruct Ee as [E1 E2]. apply negb_false_iff in E1, E2.
      apply Z.eqb_eq in E1. unfold peek in E1, E2.
      destruct (next0_step l) as (ra & la & Ea & Ha & Fa). rewrite Ea. cbn [snd].
      destruct (next0_step la) as (rb & lb & Eb & Hb & Fb). rewrite Eb. cbn [snd].
      destruct (next0_step lb) as (rc & lc & Ec & Hc & Fc). rewrite Ec.
      (* the + *)
      assert (Ra : ra = 43%Z /\ l_pos la = l_pos l + 1 /\ l_pos l < len).
      { destruct Ha as [(Hge&_&_)|[A P]].
        - rewrite peek_at_eof in E1 by exact Hge. discriminate.
        - destruct A as (A1&_&_&_&_&_&A7&A8). rewrite E1 in A8. subst ra.
          destruct A7 as [W _]; [lia|]. rewrite W in P. auto. }
      destruct Ra as (-> & Pa & Hlt).
      destruct (Hd_no_nl _ _ _ Ha ltac:(lia)) as [_ Hna].
      (* the digit *)
      assert (Rb : l_pos la <= l_pos lb <= len /\ no_nl input (l_pos la) (l_pos lb)).
      { destruct Hb as [(Hge&_&P)|[A P]].
        - rewrite P. split; [lia | apply no_nl_empty].
        - assert (rb <> 10%Z).
          { destruct A as (A1&_&_&_&_&_&_&A8). rewrite Pa in A8, A1.
            rewrite <- peek_at_2 in A8 by lia. rewrite A8 in E2. intros ->. congruence. }
          destruct A as (A1&A2&A3&A4&A5&A6&A7&A8). rewrite P. split; [lia | auto]. }
      destruct Rb as [Hb1 Hb2].
      destruct (IH (l_pos lb) rc lc Hc) as (l' & Hrun & B).
      { lia. } { eapply no_nl_app; [exact Hnq'|]. eapply no_nl_app; [exact Hna | exact Hb2]. } { lia. }
      exists l'. split; [exact Hrun|]. destruct B as (B1&B2&B3). split; [|split; assumption].
      eapply frame_trans; [exact Fa|]. eapply frame_trans; [exact Fb|]. eapply frame_trans; [exact Fc | exact B1].
    - destruct (next0_step l) as (ra & la & Ea & Ha & Fa). rewrite Ea.
      destruct (IH (l_pos l) ra la Ha) as (l' & Hrun & B); [lia | exact Hnq' | lia |].
      exists l'. split; [exact Hrun|]. destruct B as (B1&B2&B3). split; [|split; assumption].
      eapply frame_trans; eauto.
  Qed.

  Lemma lnb_ok l : l_pos l <= len ->
    exists l', lexNumberBlock is_space is_control is_number input l = Ok l' /\ blk (l_pos l) l l'.
  Proof.
    intros Hp. unfold lexNumberBlock. destruct (next0_step l) as (r & l1 & E & H1 & F1). rewrite E.
    destruct (lnb_loop_ok (l_pos l) (S (ilen input)) (l_pos l) r l1 H1) as (l' & Hrun & B).
    { lia. } { apply no_nl_empty. } { unfold ilen. lia. }
    exists l'. split; [exact Hrun|]. destruct B as (B1&B2&B3). split; [|split; assumption].
    eapply frame_trans; eauto.
  Qed.

  (* symbols contain no newline *)
  Lemma lookup_in t k v : lookup t k = Some v -> In k (map fst t).
  Proof.
    induction t as [|[k' v'] t IH]; simpl; [discriminate|].
    destruct (bytes_eqb_spec k' k) as [->|]; [auto | intros H; right; auto].
  Qed.

  Lemma sym_keys_no_nl : forall k, In k (map fst SymbolMap) -> ~ In 10%N k.
  Proof.
    assert (H : forallb (fun k => negb (existsb (N.eqb 10) k)) (map fst SymbolMap) = true) by (vm_compute; reflexivity).
    intros k Hk Hin. rewrite forallb_forall in H. specialize (H k Hk). apply negb_true_iff in H.
    assert (existsb (N.eqb 10) k = true) by (apply existsb_exists; exists 10%N; split; [exact Hin | reflexivity]).
    congruence.
  Qed.

  Lemma is_sym2_no_nl r : is_sym2 r 10%Z = false.
  Proof.
    unfold is_sym2. destruct (ascii_byte r) as [b|]; [|reflexivity].
    change (ascii_byte 10%Z) with (Some 10%N). cbv beta iota.
    destruct (lookup SymbolMap [b; 10%N]) eqn:E; [|reflexivity].
    exfalso. apply (sym_keys_no_nl _ (lookup_in _ _ _ E)). simpl. auto.
  Qed.

  Lemma ltb_loop_ok p0 : forall fuel p r l, Hd input p r l -> p0 <= p <= len -> no_nl input p0 p ->
    (p = p0 -> nonsp r = true /\ is_sym1 r = false /\ is_sym2 r (peek input l 1) = false) ->
    len - p < fuel ->
    exists l', ltb_loop is_space is_control input fuel true r l = Ok l' /\ blk p0 l l' /\ p0 < l_pos l'.
  Proof.
    induction fuel as [|f IH]; intros p r l HH Hp Hn H0 Hf; [lia|].
    cbn [ltb_loop andb].
    destruct (nonsp r) eqn:Ens.
    - destruct (nonsp_not_nl _ Ens) as [R10 REOF].
      destruct (Hd_no_nl _ _ _ HH R10) as [Hq Hnq]. pose proof (Hd_progress _ _ _ HH REOF) as Hpr.
      pose proof (Hd_le _ _ _ HH (proj2 Hp)) as Hle.
      assert (Hback : (is_sym1 r = true \/ is_sym2 r (peek input l 1) = true) ->
                      exists l', backup l 0 = Ok l' /\ blk p0 l l' /\ p0 < l_pos l').
      { intros Hs. rewrite (backup_Hd input p r l HH REOF). exists (set_pos l p).
        split; [reflexivity|]. split; [split; [apply frame_set_pos | cbn [set_pos l_pos]; split; [lia | exact Hn]]|].
        cbn [set_pos l_pos]. destruct (Nat.eq_dec p p0) as [E|E]; [|lia].
        destruct (H0 E) as (_&S1&S2). destruct Hs; congruence. }
      destruct (is_sym1 r) eqn:S1; [apply Hback; auto|].
      destruct (is_sym2 r (peek input l 1)) eqn:S2; [apply Hback; auto|].
      destruct (next0_step l) as (ra & la & Ea & Ha & Fa). rewrite Ea.
      destruct (IH (l_pos l) ra la Ha) as (l' & Hrun & B & Pr).
      { lia. } { eapply no_nl_app; eauto. } { intros E. lia. } { lia. }
      exists l'. split; [exact Hrun|]. split; [|exact Pr]. destruct B as (B1&B2&B3). split; [|split; assumption].
      eapply frame_trans; eauto.
    - destruct (block_end_ok p r l HH) as (l' & E & Fr & P). exists l'. split; [exact E|].
      unfold blk. rewrite P. split; [split; [exact Fr | split; [lia | exact Hn]]|].
      destruct (Nat.eq_dec p p0) as [E0|E0]; [|lia]. destruct (H0 E0) as (C&_). congruence.
  Qed.

  Lemma ltb_ok l : l_pos l <= len -> nonsp (pk (l_pos l) 1) = true ->
    exists l', lexTextBlock is_space is_control input l true = Ok l' /\ blk (l_pos l) l l' /\ l_pos l < l_pos l'.
  Proof.
    intros Hp Hns. unfold lexTextBlock. cbn [andb].
    destruct (next0_step l) as (r & l1 & E & H1 & F1). rewrite E.
    assert (Er : r = pk (l_pos l) 1).
    { destruct H1 as [(?&->&?)|[A ?]]; [rewrite peek_at_eof by assumption; reflexivity|].
      destruct A as (_&_&_&_&_&_&_&A8). auto. }
    rewrite <- Er in Hns. destruct (nonsp_not_nl _ Hns) as [R10 REOF].
    destruct (Hd_no_nl _ _ _ H1 R10) as [Hq Hnq]. pose proof (Hd_progress _ _ _ H1 REOF) as Hpr.
    pose proof (Hd_le _ _ _ H1 Hp) as Hle.
    destruct (is_sym2 r (peek input l1 1)) eqn:S2.
    - destruct (next0_step l1) as (rb & lb & Eb & Hb & Fb). rewrite Eb. cbn [snd].
      exists lb. split; [reflexivity|].
      assert (Rb : l_pos l1 <= l_pos lb <= len /\ no_nl input (l_pos l1) (l_pos lb)).
      { destruct Hb as [(Hge&_&P)|[A P]].
        - rewrite P. split; [lia | apply no_nl_empty].
        - assert (rb <> 10%Z).
          { destruct A as (_&_&_&_&_&_&_&A8). unfold peek in S2. rewrite A8 in S2. intros ->.
            rewrite is_sym2_no_nl in S2. discriminate. }
          destruct A as (A1&A2&A3&A4&A5&A6&A7&A8). rewrite P. split; [lia | auto]. }
      destruct Rb as [Hb1 Hb2].
      split; [split; [eapply frame_trans; eauto | split; [lia | eapply no_nl_app; eauto]] | lia].
    - destruct (is_sym1 r) eqn:S1.
      + exists l1. split; [reflexivity|]. split; [split; [exact F1 | split; [lia | exact Hnq]] | lia].
      + destruct (ltb_loop_ok (l_pos l) (S (ilen input)) (l_pos l) r l1 H1) as (l' & Hrun & B & Pr).
        { lia. } { apply no_nl_empty. } { intros _. auto. } { unfold ilen. lia. }
        exists l'. split; [exact Hrun|]. split; [|exact Pr]. destruct B as (B1&B2&B3). split; [|split; assumption].
        eapply frame_trans; eauto.
  Qed.

  (* ---------------------------------------------------------------- lexToken *)
  Definition pre_st (st : lstate) (p : nat) : Prop :=
    match st with
    | SComment => pk p 1 = 35%Z \/ (pk p 1 = 47%Z /\ pk p 2 = 42%Z)
    | _ => True
    end.

  Lemma push_ok l t : out_ok l -> tok_ok t -> out_ok (push l t).
  Proof. intros H1 H2. unfold out_ok, push. cbn [l_out]. constructor; assumption. Qed.

  Lemma out_ok_frame l l' : frame l l' -> out_ok l -> out_ok l'.
  Proof. intros (_&_&_&_&E) H. unfold out_ok. rewrite E. exact H. Qed.

  Lemma encode_rune_nonempty r : encode_rune r <> [].
  Proof. unfold encode_rune. repeat match goal with |- context [if ?c then _ else _] => destruct c end; discriminate. Qed.

  Lemma lower_bytes_nil s : lower_bytes s = [] -> s = [].
  Proof.
    destruct s as [|b t]; [reflexivity|]. unfold lower_bytes. cbn [lower_aux].
    destruct (decode_rune (b :: t)) as [r w]. intros H. apply app_eq_nil in H. destruct H as [H _].
    exfalso. exact (encode_rune_nonempty _ H).
  Qed.

  Lemma lookup_val t k v : lookup t k = Some v -> In v (map snd t).
  Proof.
    induction t as [|[k' v'] t IH]; simpl; [discriminate|].
    destruct (bytes_eqb k' k); [intros [= ->]; auto | intros H; right; auto].
  Qed.

  Lemma table_ids_normal t k v : (t = KeywordMap \/ t = SymbolMap) -> lookup t k = Some v -> 2 <= v.
  Proof.
    assert (H1 : forallb (fun v => 2 <=? v) (map snd KeywordMap) = true) by (vm_compute; reflexivity).
    assert (H2 : forallb (fun v => 2 <=? v) (map snd SymbolMap) = true) by (vm_compute; reflexivity).
    intros [->| ->] E; apply lookup_val in E; rewrite forallb_forall in H1, H2;
      [specialize (H1 _ E) | specialize (H2 _ E)]; lia.
  Qed.

  Definition step_post (l : lexer) (nxt : option lstate) (l' : lexer) : Prop :=
    out_ok l' /\ pushed l l' nxt /\ l_pos l' <= len
    /\ match nxt with
       | Some SToken => T l' (l_pos l') /\ l_pos l < l_pos l'
       | Some st => l' = l /\ pre_st st (l_pos l)
       | None => True
       end.

  Lemma slice_start_pos l : l_start l <= l_pos l <= len ->
    slice input (zstart l) (zpos l) = Ok (text_at input (l_start l) (l_pos l - l_start l)).
  Proof.
    intros H. unfold zstart, zpos. rewrite slice_ok by lia. do 2 f_equal; lia.
  Qed.

  Lemma lexToken_ok l : l_pos l < len -> nonsp (pk (l_pos l) 1) = true -> T l (l_pos l) -> out_ok l ->
    exists nxt l', lexToken is_space is_control is_number input l = Ok (nxt, l') /\ step_post l nxt l'.
  Proof.
    intros Hp Hns HT Ho. unfold lexToken, peek.
    set (n1 := pk (l_pos l) 1). set (n2 := pk (l_pos l) 2).
    destruct (((n1 =? 47) && (n2 =? 42) || (n1 =? 35))%Z) eqn:C1.
    { exists (Some SComment), l. split; [reflexivity|]. repeat split; auto; try lia. left; reflexivity.
      cbn [pre_st]. fold n1 n2. lia. }
    destruct (((n1 =? 34) || (n1 =? 39) || (n1 =? 114) && ((n2 =? 34) || (n2 =? 39)))%Z) eqn:C2.
    { exists (Some SValue), l. split; [reflexivity|]. repeat split; auto; try lia. left; reflexivity. }
    set (p := l_pos l) in *.
    destruct (lnb_ok (startNew l)) as (l1 & E1 & (F1 & P1 & N1)); [cbn [startNew l_pos]; lia|].
    rewrite E1. cbn [obind]. cbn [startNew l_pos] in P1, N1. fold p in P1, N1.
    assert (S1 : l_start l1 = p) by (destruct F1 as (_&_&_&->&_); reflexivity).
    assert (O1 : l_out l1 = l_out l) by (destruct F1 as (_&_&_&_&->); reflexivity).
    assert (T1 : T l1 p) by (apply (T_frame (startNew l)); [exact F1 | exact HT]).
    rewrite slice_start_pos by lia. cbn [obind]. rewrite S1.
    set (cand := text_at input p (l_pos l1 - p)).
    assert (Hc : cand = [] -> l_pos l1 = p).
    { intros E. assert (L : length cand = l_pos l1 - p) by (apply text_at_length; lia). rewrite E in L. simpl in L. lia. }
    assert (Hc' : l_pos l1 = p -> lower_bytes cand = []).
    { intros E. subst cand. rewrite E, Nat.sub_diag. reflexivity. }
    assert (Emit : forall l3 id v i e, frame l1 l3 -> out_ok (push l3 (stamp l3 id v i e))).
    { intros l3 id v i e F3. apply push_ok.
      - unfold out_ok. destruct F3 as (_&_&_&_&E3). rewrite E3, O1. exact Ho.
      - apply stamp_ok; destruct F3 as (A&B&_&C&_); [|lia]. unfold T in *. rewrite A, B, C, S1. exact T1. }
    destruct (number_pattern (lower_bytes cand) && parse_float_ok (lower_bytes cand)) eqn:Cn.
    { (* a number *)
      exists (Some SToken), (emitTokenAndValue l1 TokenNUMBER (lower_bytes cand) false false).
      split; [reflexivity|]. unfold emitTokenAndValue.
      split; [apply Emit, frame_refl|]. split.
      { right. eexists. split; [cbn [push l_out]; rewrite O1; reflexivity|]. split; discriminate. }
      cbn [push l_pos]. split; [lia|]. split.
      - apply (T_no_nl _ p); [lia | exact N1 |]. unfold T in *. cbn [push l_line l_lastnl]. exact T1.
      - destruct (Nat.eq_dec (l_pos l1) p) as [E|E]; [|lia]. rewrite (Hc' E) in Cn. discriminate. }
    (* back to the start *)
    assert (B : exists l2, (if 0 <? length (lower_bytes cand) then backup l1 (l_pos l1 - p) else Ok l1) = Ok l2
                           /\ frame l1 l2 /\ l_pos l2 = p).
    { destruct (Nat.ltb_spec 0 (length (lower_bytes cand))) as [L|L].
      - assert (l_pos l1 <> p) by (intros E; rewrite (Hc' E) in L; simpl in L; lia).
        rewrite backup_n by lia. exists (set_pos l1 (l_pos l1 - (l_pos l1 - p))).
        split; [reflexivity|]. split; [apply frame_set_pos | cbn [set_pos l_pos]; lia].
      - exists l1. split; [reflexivity|]. split; [apply frame_refl|]. apply Hc.
        apply lower_bytes_nil. destruct (lower_bytes cand); [reflexivity | simpl in L; lia]. }
    destruct B as (l2 & E2 & F2 & P2). rewrite E2. cbn [obind].
    destruct (ltb_ok l2) as (l3 & E3 & (F3 & P3 & N3) & Pr3); [lia | rewrite P2; exact Hns |].
    rewrite E3. cbn [obind]. rewrite P2 in *.
    assert (F13 : frame l1 l3) by (eapply frame_trans; eauto).
    assert (S3 : l_start l3 = p) by (destruct F13 as (_&_&_&->&_); exact S1).
    assert (O3 : l_out l3 = l_out l) by (destruct F13 as (_&_&_&_&->); exact O1).
    assert (T3 : T l3 (l_pos l3)).
    { apply (T_no_nl _ p); [lia | exact N3 |]. apply (T_frame l1); assumption. }
    rewrite slice_start_pos by lia. cbn [obind]. rewrite S3.
    set (ident := text_at input p (l_pos l3 - p)).
    set (tk := match lookup KeywordMap (lower_bytes ident) with
               | Some t => Some t | None => lookup SymbolMap (lower_bytes ident) end).
    assert (Htk : forall t, tk = Some t -> 2 <= t).
    { subst tk. intros t. destruct (lookup KeywordMap (lower_bytes ident)) eqn:K.
      - intros [= <-]. eapply table_ids_normal; [left; reflexivity | exact K].
      - intros K'. eapply table_ids_normal; [right; reflexivity | exact K']. }
    destruct tk as [t|].
    { specialize (Htk t eq_refl). unfold emitToken.
      destruct (Nat.eqb_spec t TokenEOF) as [Et|Et]; [unfold TokenEOF in Et; lia|].
      rewrite slice_start_pos by lia. cbn [obind].
      eexists (Some SToken), _. split; [reflexivity|].
      split; [apply Emit; exact F13|]. split.
      { right. eexists. split; [cbn [push l_out]; rewrite O3; reflexivity|].
        split; cbn [stamp t_id]; unfold TokenEOF, TokenError; lia. }
      cbn [push l_pos]. split; [lia|]. split; [|lia].
      unfold T in *. cbn [push l_line l_lastnl]. exact T3. }
    destruct (negb (name_pattern (lower_bytes ident))).
    { eexists None, _. split; [reflexivity|]. unfold emitError.
      split; [apply Emit; exact F13|]. split.
      { eexists. split; [cbn [push l_out]; rewrite O3; reflexivity|]. left; reflexivity. }
      cbn [push l_pos]. split; [lia | exact I]. }
    eexists (Some SToken), _. split; [reflexivity|]. unfold emitTokenAndValue.
    split; [apply Emit; exact F13|]. split.
    { right. eexists. split; [cbn [push l_out]; rewrite O3; reflexivity|]. split; discriminate. }
    cbn [push l_pos]. split; [lia|]. split; [|lia].
    unfold T in *. cbn [push l_line l_lastnl]. exact T3.
  Qed.

  (* ---------------------------------------------------------------- lexValue *)
  Definition tracks (ln nl p : nat) : Prop := ln = nl_count input p /\ (G -> nl = nl_last input p).

  (* the line bookkeeping of the string and block-comment loops, one rune further *)
  Lemma tracks_step q r l ln nl : Hd input q r l -> tracks ln nl q ->
    tracks (if (r =? 10)%Z then S ln else ln) (if (r =? 10)%Z then l_pos l else nl) (l_pos l).
  Proof.
    intros HH [H1 H2]. destruct (Z.eqb_spec r 10) as [->|Hne].
    - destruct (Hd_adv _ _ _ _ HH ltac:(discriminate)) as [A P]. destruct A as (_&_&_&_&A5&_).
      destruct (A5 eq_refl) as [W N]. unfold tracks. rewrite P, W, Nat.add_1_r. destruct (nl_step_nl input q N) as [-> ->].
      split; [congruence | intros _; reflexivity].
    - destruct (Hd_no_nl _ _ _ HH Hne) as [Hle Hn]. destruct (no_nl_same input q (l_pos l) Hle Hn).
      split; [congruence | intros g; specialize (H2 g); congruence].
  Qed.

  Definition loop_post (q : nat) (l : lexer) (nxt : option lstate) (l' : lexer) : Prop :=
    out_ok l' /\ pushed l l' nxt /\ l_pos l' <= len
    /\ match nxt with
       | Some SToken => T l' (l_pos l') /\ q < l_pos l'
       | Some _ => False
       | None => True
       end.

  Lemma emit_error_post q l cls : out_ok l -> T l (l_start l) -> l_start l <= len -> l_pos l <= len ->
    loop_post q l None (emitError l cls).
  Proof.
    intros Ho HT Hs Hp. unfold loop_post, emitError. split; [apply push_ok; [exact Ho | apply stamp_ok; assumption]|].
    split; [eexists; split; [reflexivity | left; reflexivity]|]. split; [exact Hp | exact I].
  Qed.

  Lemma lv_loop_ok (allow : bool) (endT : rune) : endT <> RuneEOF -> endT <> 10%Z ->
    forall fuel q r (escaped : bool) ln nl l, Hd input q r l -> q <= len ->
      l_start l + (if allow then 1 else 2) <= q -> tracks ln nl q -> T l (l_start l) -> out_ok l ->
      len - q < fuel ->
      exists nxt l', lv_loop input fuel allow endT r escaped ln nl l = Ok (nxt, l') /\ loop_post q l nxt l'.
  Proof.
    intros HE1 HE2. induction fuel as [|f IH]; intros q r escaped ln nl l HH Hq Hs Htr HT Ho Hf; [lia|].
    cbn [lv_loop]. pose proof (Hd_le _ _ _ HH Hq) as Hle.
    destruct ((negb allow && negb (r =? endT)%Z) || (allow && (negb (r =? endT)%Z || escaped))) eqn:Cc.
    - pose proof (tracks_step q r l ln nl HH Htr) as Htr'.
      destruct (next0_step l) as (r' & l' & E & H' & F'). rewrite E.
      assert (Fl : T l' (l_start l') /\ out_ok l' /\ l_start l' = l_start l).
      { destruct F' as (A&B&_&C&D). unfold T, out_ok in *. rewrite A, B, C, D. auto. }
      destruct Fl as (HT' & Ho' & Hs').
      destruct (Z.eqb_spec r' RuneEOF) as [E'|E'].
      + eexists None, _. split; [reflexivity|].
        pose proof (emit_error_post q l' ErrUnclosedString Ho' HT' ltac:(lia) (Hd_le _ _ _ H' Hle)) as Q.
        destruct Q as (Q1&Q2&Q3&Q4). split; [exact Q1|]. split; [|split; [exact Q3 | exact I]].
        destruct Q2 as (t & Q2 & Q2'). exists t. split; [|exact Q2']. destruct F' as (_&_&_&_&<-). exact Q2.
      + assert (Er : r <> RuneEOF).
        { intros ->. destruct (Hd_eof _ _ _ _ HH eq_refl) as [? ?].
          destruct (Hd_adv _ _ _ _ H' E') as [(?&_) _]. lia. }
        pose proof (Hd_progress _ _ _ HH Er) as Hpr.
        destruct (IH (l_pos l) r' (negb escaped && (r =? 92)%Z) _ _ l' H' Hle ltac:(destruct allow; lia) Htr' HT' Ho' ltac:(lia))
          as (nxt & l'' & Hrun & Q).
        exists nxt, l''. split; [exact Hrun|]. destruct Q as (Q1&Q2&Q3&Q4).
        split; [exact Q1|]. split; [|split; [exact Q3|]].
        * destruct F' as (_&_&_&_&Fo). unfold pushed in *. rewrite Fo in Q2. exact Q2.
        * destruct nxt as [[| |]|]; auto. destruct Q4. split; [assumption | lia].
    - (* the closing quote *)
      assert (Er : r = endT).
      { destruct allow; cbn [negb andb orb] in Cc; destruct (Z.eqb_spec r endT); auto; discriminate. }
      subst r. destruct (Hd_adv _ _ _ _ HH HE1) as [A P]. pose proof (Hd_progress _ _ _ HH HE1) as Hpr.
      assert (Htr' : tracks ln nl (l_pos l)).
      { pose proof (tracks_step q endT l ln nl HH Htr) as X.
        destruct (Z.eqb_spec endT 10); [contradiction | exact X]. }
      assert (Fin : forall v e, loop_post q l (Some SToken)
                (set_line_lastnl (emitTokenAndValue l TokenSTRING v false e) ln nl)).
      { intros v e. unfold loop_post, emitTokenAndValue. split; [|split; [|split]].
        - apply (push_ok l); [exact Ho | apply stamp_ok; [exact HT | lia]].
        - right. eexists. split; [reflexivity | split; discriminate].
        - exact Hle.
        - split; [exact Htr' | cbn [set_line_lastnl push l_pos]; lia]. }
      destruct allow.
      + unfold zstart, zpos. rewrite slice_ok by lia. cbn [obind].
        match goal with |- context [unquote ?x] => destruct (unquote x) end.
        * eexists _, _. split; [reflexivity | apply Fin].
        * eexists _, _. split; [reflexivity|]. pose proof (emit_error_post q l ErrUnquote Ho HT ltac:(lia) Hle) as Q. exact Q.
      + unfold zstart, zpos. rewrite slice_ok by lia. cbn [obind].
        eexists _, _. split; [reflexivity | apply Fin].
  Qed.

  Lemma lexValue_ok l : l_pos l < len -> nonsp (pk (l_pos l) 1) = true -> T l (l_pos l) -> out_ok l ->
    exists nxt l', lexValue input l = Ok (nxt, l') /\ step_post l nxt l' /\ (nxt = Some SToken \/ nxt = None).
  Proof.
    intros Hp Hns HT Ho. unfold lexValue. set (p := l_pos l) in *.
    destruct (next0_step (startNew l)) as (r & la & Ea & Ha & Fa). rewrite Ea. cbn [startNew l_pos] in Ha. fold p in Ha.
    assert (Er : r = pk p 1).
    { destruct Ha as [(?&->&?)|[A ?]]; [rewrite peek_at_eof by assumption; reflexivity|].
      destruct A as (_&_&_&_&_&_&_&A8). auto. }
    rewrite <- Er in Hns. destruct (nonsp_not_nl _ Hns) as [R10 REOF].
    destruct (Hd_no_nl _ _ _ Ha R10) as [_ Hna]. pose proof (Hd_progress _ _ _ Ha REOF) as Hpa.
    pose proof (Hd_le _ _ _ Ha ltac:(lia)) as Hla.
    set (q := peek input la 1).
    set (raw := ((r =? 114) && ((q =? 34) || (q =? 39)))%Z).
    (* after the opening quote(s) *)
    assert (B : exists l1, (if raw then snd (next0 input la) else la) = l1 /\ frame la l1
                /\ p + (if negb raw then 1 else 2) <= l_pos l1 <= len /\ no_nl input p (l_pos l1)).
    { destruct raw eqn:Eraw.
      - destruct (next0_step la) as (rb & lb & Eb & Hb & Fb). rewrite Eb. cbn [snd negb].
        exists lb. split; [reflexivity|]. split; [exact Fb|].
        assert (Rb : rb = q /\ l_pos la = p + 1).
        { subst raw q. unfold peek in *. destruct Hb as [(Hge&_&_)|[A _]].
          - rewrite peek_at_eof in Eraw by exact Hge. cbn in Eraw. lia.
          - destruct A as (_&_&_&_&_&_&_&A8). split; [auto|].
            destruct (Hd_adv _ _ _ _ Ha REOF) as [(_&_&_&_&_&_&A7&_) Pa]. destruct A7 as [W _]; [lia|]. lia. }
        destruct Rb as [-> Pa]. assert (Hq : q <> 10%Z /\ q <> RuneEOF) by (subst raw; unfold RuneEOF; lia).
        destruct (Hd_no_nl _ _ _ Hb (proj1 Hq)) as [_ Hnb]. pose proof (Hd_progress _ _ _ Hb (proj2 Hq)).
        split; [split; [lia | exact (Hd_le _ _ _ Hb Hla)] | eapply no_nl_app; eauto].
      - exists la. split; [reflexivity|]. split; [apply frame_refl|]. cbn [negb]. split; [lia | exact Hna]. }
    destruct B as (l1 & E1 & F1 & P1 & N1). rewrite E1.
    destruct (next0_step l1) as (r1 & l2 & E2 & H2 & F2). rewrite E2.
    assert (F02 : frame (startNew l) l2) by (eapply frame_trans; [exact Fa|]; eapply frame_trans; eauto).
    assert (S2 : l_start l2 = p) by (destruct F02 as (_&_&_&->&_); reflexivity).
    assert (T2 : T l2 p) by (apply (T_frame (startNew l)); [exact F02 | exact HT]).
    assert (O2 : l_out l2 = l_out l) by (destruct F02 as (_&_&_&_&->); reflexivity).
    assert (Hend : (if raw then q else r) <> RuneEOF /\ (if raw then q else r) <> 10%Z).
    { destruct raw eqn:Eraw; [subst raw; unfold RuneEOF; lia | auto]. }
    destruct (lv_loop_ok (negb raw) (if raw then q else r) (proj1 Hend) (proj2 Hend)
                (S (ilen input)) (l_pos l1) r1 false (l_line l2) (l_lastnl l2) l2 H2)
      as (nxt & l' & Hrun & Q).
    { lia. } { rewrite S2. lia. }
    { destruct T2 as [A B]. destruct (no_nl_same input p (l_pos l1) ltac:(lia) N1) as [C D].
      split; [congruence | intros g; specialize (B g); congruence]. }
    { rewrite S2. exact T2. } { unfold out_ok. rewrite O2. exact Ho. } { unfold ilen. lia. }
    exists nxt, l'. split; [exact Hrun|]. destruct Q as (Q1&Q2&Q3&Q4).
    split; [split; [exact Q1 | split; [|split; [exact Q3|]]]|].
    - unfold pushed in *. rewrite O2 in Q2. exact Q2.
    - destruct nxt as [[| |]|]; try contradiction; auto. destruct Q4. split; [assumption|lia].
    - destruct nxt as [[| |]|]; try contradiction; auto.
  Qed.

  (* ---------------------------------------------------------------- lexComment *)
  Lemma lc_line_loop_ok : forall fuel q r l, Hd input q r l -> q <= len -> len - q < fuel ->
    exists r' l' q', lc_line_loop input fuel r l = Ok (r', l') /\ frame l l' /\ Hd input q' r' l'
      /\ q <= q' <= len /\ (r' = 10%Z \/ r' = RuneEOF) /\ (T l q -> T l' q')
      /\ ((r' = r /\ l' = l) \/ l_pos l <= q').
  Proof.
    induction fuel as [|f IH]; intros q r l HH Hq Hf; [lia|].
    cbn [lc_line_loop].
    destruct (negb (r =? 10)%Z && negb (r =? RuneEOF)%Z) eqn:C.
    - assert (R : r <> 10%Z /\ r <> RuneEOF) by (unfold RuneEOF in *; lia). destruct R as [R10 REOF].
      destruct (Hd_no_nl _ _ _ HH R10) as [Hle Hn]. pose proof (Hd_progress _ _ _ HH REOF) as Hpr.
      pose proof (Hd_le _ _ _ HH Hq) as Hl.
      destruct (next0_step l) as (ra & la & Ea & Ha & Fa). rewrite Ea.
      destruct (IH (l_pos l) ra la Ha Hl ltac:(lia)) as (r' & l' & q' & Hrun & F & H' & Hq' & Hr' & HT' & _).
      exists r', l', q'. split; [exact Hrun|]. split; [eapply frame_trans; eauto|]. split; [exact H'|].
      split; [lia|]. split; [exact Hr'|]. split; [|right; lia].
      intros HT. apply HT'. apply (T_frame l); [exact Fa|]. apply (T_no_nl l q); assumption.
    - exists r, l, q. split; [reflexivity|]. split; [apply frame_refl|]. split; [exact HH|].
      split; [lia|]. split; [unfold RuneEOF in *; lia|]. split; [auto | left; auto].
  Qed.

  Lemma lc_block_loop_ok : forall fuel q r ln nl l, Hd input q r l -> q <= len ->
      l_start l <= q -> tracks ln nl q -> T l (l_start l) -> out_ok l -> len - q < fuel ->
      exists nxt l', lc_block_loop input fuel r ln nl l = Ok (nxt, l') /\ loop_post q l nxt l'.
  Proof.
    induction fuel as [|f IH]; intros q r ln nl l HH Hq Hs Htr HT Ho Hf; [lia|].
    cbn [lc_block_loop]. pose proof (Hd_le _ _ _ HH Hq) as Hle.
    destruct (negb (r =? 42)%Z || negb (peek input l 1 =? 47)%Z) eqn:Cc.
    - pose proof (tracks_step q r l ln nl HH Htr) as Htr'.
      destruct (next0_step l) as (r' & l' & E & H' & F'). rewrite E.
      assert (Fl : T l' (l_start l') /\ out_ok l' /\ l_start l' = l_start l).
      { destruct F' as (A&B&_&C&D). unfold T, out_ok in *. rewrite A, B, C, D. auto. }
      destruct Fl as (HT' & Ho' & Hs').
      destruct (Z.eqb_spec r' RuneEOF) as [E'|E'].
      + eexists None, _. split; [reflexivity|].
        pose proof (emit_error_post q l' ErrUnclosedComment Ho' HT' ltac:(lia) (Hd_le _ _ _ H' Hle)) as Q.
        destruct Q as (Q1&Q2&Q3&Q4). split; [exact Q1|]. split; [|split; [exact Q3 | exact I]].
        destruct Q2 as (t & Q2 & Q2'). exists t. split; [|exact Q2']. destruct F' as (_&_&_&_&<-). exact Q2.
      + assert (Er : r <> RuneEOF).
        { intros ->. destruct (Hd_eof _ _ _ _ HH eq_refl) as [? ?].
          destruct (Hd_adv _ _ _ _ H' E') as [(?&_) _]. lia. }
        pose proof (Hd_progress _ _ _ HH Er) as Hpr.
        destruct (IH (l_pos l) r' _ _ l' H' Hle ltac:(lia) Htr' HT' Ho' ltac:(lia))
          as (nxt & l'' & Hrun & Q).
        exists nxt, l''. split; [exact Hrun|]. destruct Q as (Q1&Q2&Q3&Q4).
        split; [exact Q1|]. split; [|split; [exact Q3|]].
        * destruct F' as (_&_&_&_&Fo). unfold pushed in *. rewrite Fo in Q2. exact Q2.
        * destruct nxt as [[| |]|]; auto. destruct Q4. split; [assumption | lia].
    - (* star slash *)
      assert (R : r = 42%Z /\ peek input l 1 = 47%Z) by lia. destruct R as [-> Pk].
      assert (REOF : 42%Z <> RuneEOF) by discriminate.
      destruct (Hd_adv _ _ _ _ HH REOF) as [A P]. pose proof (Hd_progress _ _ _ HH REOF) as Hpr.
      assert (Htr' : tracks ln nl (l_pos l)).
      { pose proof (tracks_step q 42%Z l ln nl HH Htr) as X. exact X. }
      unfold zstart, zpos. rewrite slice_ok by lia. cbn [obind].
      set (le := emitTokenAndValue l TokenPRECOMMENT _ false false).
      destruct (next0_step le) as (rb & lb & Eb & Hb & Fb). rewrite Eb. cbn [snd].
      assert (Ple : l_pos le = l_pos l) by reflexivity.
      assert (Rb : l_pos le <= l_pos lb <= len /\ no_nl input (l_pos le) (l_pos lb)).
      { destruct Hb as [(Hge&_&Pb)|[Ab Pb]].
        - rewrite Pb. split; [lia | apply no_nl_empty].
        - assert (rb <> 10%Z).
          { destruct Ab as (_&_&_&_&_&_&_&A8). unfold peek in Pk. rewrite Ple in A8. rewrite A8 in Pk. lia. }
          destruct Ab as (A1&A2&A3&A4&A5&A6&A7&A8). rewrite Pb. split; [lia | auto]. }
      destruct Rb as [Rb1 Rb2].
      eexists (Some SToken), _. split; [reflexivity|]. unfold loop_post.
      assert (Ob : l_out lb = stamp l TokenPRECOMMENT (text_at input (Z.to_nat (Z.of_nat (l_start l)))
                      (Z.to_nat (Z.of_nat (l_pos l) - 1 - Z.of_nat (l_start l)))) false false :: l_out l).
      { destruct Fb as (_&_&_&_&->). reflexivity. }
      split; [|split; [|split]].
      + unfold out_ok. cbn [set_line_lastnl l_out]. rewrite Ob. constructor; [apply stamp_ok; [exact HT | lia] | exact Ho].
      + right. eexists. split; [cbn [set_line_lastnl l_out]; exact Ob | split; discriminate].
      + cbn [set_line_lastnl l_pos]. lia.
      + cbn [set_line_lastnl l_pos]. split; [|lia]. unfold T. cbn [set_line_lastnl l_line l_lastnl l_pos].
        destruct Htr' as [X Y]. destruct (no_nl_same input (l_pos le) (l_pos lb) ltac:(lia) Rb2) as [C D].
        rewrite Ple in C, D. split; [congruence | intros g; specialize (Y g); congruence].
  Qed.

  Lemma lexComment_ok l : l_pos l < len -> nonsp (pk (l_pos l) 1) = true -> T l (l_pos l) -> out_ok l ->
    pre_st SComment (l_pos l) ->
    exists nxt l', lexComment keeps input l = Ok (nxt, l') /\ step_post l nxt l' /\ (nxt = Some SToken \/ nxt = None).
  Proof.
    intros Hp Hns HT Ho Hpre. unfold lexComment. set (p := l_pos l) in *.
    destruct (next0_step l) as (r & la & Ea & Ha & Fa). rewrite Ea. fold p in Ha.
    assert (Er : r = pk p 1).
    { destruct Ha as [(?&->&?)|[A ?]]; [rewrite peek_at_eof by assumption; reflexivity|].
      destruct A as (_&_&_&_&_&_&_&A8). auto. }
    rewrite <- Er in Hns. destruct (nonsp_not_nl _ Hns) as [R10 REOF].
    destruct (Hd_no_nl _ _ _ Ha R10) as [_ Hna].
    destruct (Hd_adv _ _ _ _ Ha REOF) as [Aa Pa].
    assert (Ta : T la (l_pos la)) by (apply (T_no_nl la p); [lia | exact Hna | apply (T_frame l); assumption]).
    assert (Oa : l_out la = l_out l) by (destruct Fa as (_&_&_&_&->); reflexivity).
    destruct (Z.eqb_spec r 35) as [E35|E35].
    - (* line comment *)
      rewrite E35 in *. assert (Wa : l_pos la = p + 1) by (destruct Aa as (_&_&_&_&_&_&A7&_); destruct A7; lia).
      assert (N35 : nth p input 0%N = 35%N) by (destruct Aa as (_&_&_&_&_&_&A7&_); destruct A7 as [_ X]; [lia | exact X]).
      destruct (lc_line_loop_ok (S (ilen input)) p 35%Z (startNew la))
        as (r' & l' & q' & Hrun & F & H' & Hq' & Hr' & HT' & Hdisj).
      { destruct Ha as [?|[? ?]]; [left|right; split]; assumption. } { lia. } { unfold ilen. lia. }
      rewrite Hrun. cbn [obind].
      assert (Hq2 : p + 1 <= q').
      { destruct Hdisj as [[X _]|X]; [destruct Hr'; subst r'; discriminate | cbn [startNew l_pos] in X; lia]. }
      pose proof (Hd_le _ _ _ H' ltac:(lia)) as Hl'.
      assert (S' : l_start l' = p + 1) by (destruct F as (_&_&_&->&_); cbn [startNew l_start]; exact Wa).
      assert (O' : l_out l' = l_out l) by (destruct F as (_&_&_&_&->); exact Oa).
      assert (Ts : T l' (p + 1)).
      { apply (T_frame (startNew la)); [exact F|]. rewrite <- Wa. exact Ta. }
      assert (Tq : T l' q').
      { apply HT'. apply (T_no_nl_back _ p (p + 1)); [lia | rewrite <- Wa; exact Hna |].
        rewrite <- Wa. exact Ta. }
      assert (Hpos : q' <= l_pos l') by (destruct H' as [(?&?&->)|[? ->]]; lia).
      rewrite slice_start_pos by lia. cbn [obind].
      assert (Hok : tok_ok (stamp l' TokenPOSTCOMMENT (text_at input (l_start l') (l_pos l' - l_start l')) false false)).
      { apply stamp_ok; [rewrite S'; exact Ts | lia]. }
      destruct (Z.eqb_spec r' RuneEOF) as [E'|E'].
      + eexists None, _. split; [reflexivity|]. split; [|auto]. unfold step_post, emitTokenAndValue.
        split; [apply push_ok; [unfold out_ok; rewrite O'; exact Ho | exact Hok]|].
        split; [|split; [exact Hl' | exact I]].
        eexists. split; [cbn [push l_out]; rewrite O'; reflexivity|]. right. split; [split; discriminate|].
        cbn [push l_pos]. destruct (Hd_eof _ _ _ _ H' E'). lia.
      + destruct Hr' as [->|?]; [|contradiction].
        destruct (Hd_adv _ _ _ _ H' E') as [A' P']. destruct A' as (_&_&_&_&A5&_). destruct (A5 eq_refl) as [W' N'].
        eexists (Some SToken), _. split; [reflexivity|]. split; [|auto]. unfold step_post, emitTokenAndValue.
        split; [apply (push_ok l'); [unfold out_ok; rewrite O'; exact Ho | exact Hok]|].
        split; [right; eexists; split; [cbn [set_line_lastnl push l_out]; rewrite O'; reflexivity | split; discriminate]|].
        cbn [set_line_lastnl push l_pos]. split; [exact Hl'|]. split; [|lia].
        unfold T. cbn [set_line_lastnl push l_line l_lastnl l_pos]. rewrite P', W', Nat.add_1_r.
        destruct (nl_step_nl input q' N') as [-> ->]. destruct Tq as [-> _]. split; [reflexivity|].
        intros [Hk|Hh]; [rewrite Hk; reflexivity | exfalso; exact (Hh p N35)].
    - (* block comment *)
      cbn [pre_st] in Hpre. fold p in Hpre. rewrite <- Er in Hpre.
      destruct Hpre as [?|[R47 P2]]; [contradiction|]. rewrite R47 in *.
      assert (Wa : l_pos la = p + 1) by (destruct Aa as (_&_&_&_&_&_&A7&_); destruct A7; lia).
      assert (Hp2 : p + 1 < len).
      { destruct (Nat.lt_ge_cases (p + 1) len); [assumption|]. rewrite peek_at_2_short in P2 by lia. discriminate. }
      destruct (next0_step la) as (rb & lb & Eb & Hb & Fb). rewrite Eb. cbn [snd].
      assert (Rb : rb = 42%Z).
      { destruct Hb as [(Hge&_&_)|[A _]]; [lia|]. destruct A as (_&_&_&_&_&_&_&A8).
        rewrite Wa, <- peek_at_2 in A8 by lia. congruence. }
      subst rb. destruct (Hd_adv _ _ _ _ Hb ltac:(discriminate)) as [Ab Pb].
      assert (Wb : l_pos lb = p + 2) by (destruct Ab as (_&_&_&_&_&_&A7&_); destruct A7; lia).
      destruct (Hd_no_nl _ _ _ Hb ltac:(discriminate)) as [_ Hnb].
      assert (Tb : T lb (p + 2)).
      { rewrite <- Wb. apply (T_no_nl lb (l_pos la)); [lia | exact Hnb | apply (T_frame la); assumption]. }
      assert (Ob : l_out lb = l_out l) by (destruct Fb as (_&_&_&_&->); exact Oa).
      destruct (next0_step (startNew lb)) as (rc & lc & Ec & Hc & Fc). rewrite Ec.
      cbn [startNew l_pos] in Hc. rewrite Wb in Hc.
      assert (Sc : l_start lc = p + 2) by (destruct Fc as (_&_&_&->&_); cbn [startNew l_start]; exact Wb).
      assert (Oc : l_out lc = l_out l) by (destruct Fc as (_&_&_&_&->); exact Ob).
      assert (Tc : T lc (p + 2)) by (apply (T_frame (startNew lb)); [exact Fc | exact Tb]).
      destruct (lc_block_loop_ok (S (ilen input)) (p + 2) rc (l_line lb) (l_lastnl lb) lc Hc)
        as (nxt & l' & Hrun & Q).
      { lia. } { lia. } { exact Tb. } { rewrite Sc. exact Tc. } { unfold out_ok. rewrite Oc. exact Ho. }
      { unfold ilen. lia. }
      exists nxt, l'. split; [exact Hrun|]. destruct Q as (Q1&Q2&Q3&Q4).
      split; [split; [exact Q1 | split; [|split; [exact Q3|]]]|].
      + unfold pushed in *. rewrite Oc in Q2. exact Q2.
      + destruct nxt as [[| |]|]; try contradiction; auto. destruct Q4. split; [assumption|lia].
      + destruct nxt as [[| |]|]; try contradiction; auto.
  Qed.

  (* ---------------------------------------------------------------- run *)
  Definition ends_ok (out : list token) : Prop :=
    exists t rest, out = t :: rest /\
      ((t_id t = TokenEOF /\ (Forall normal rest \/
          exists e rest', rest = e :: rest' /\ t_id e = TokenError /\ Forall normal rest'))
       \/ (t_id t = TokenError /\ Forall normal rest)).

  Definition Inv (st : lstate) (l : lexer) : Prop :=
    l_pos l < len /\ nonsp (pk (l_pos l) 1) = true /\ T l (l_pos l) /\ out_ok l
    /\ pre_st st (l_pos l) /\ Forall normal (l_out l).

  Lemma step_ok st l : Inv st l ->
    exists nxt l', step is_space is_control is_number keeps input st l = Ok (nxt, l') /\ step_post l nxt l'
                   /\ (st <> SToken -> nxt = Some SToken \/ nxt = None).
  Proof.
    intros (I1&I2&I3&I4&I5&I6). destruct st; cbn [step].
    - destruct (lexToken_ok l I1 I2 I3 I4) as (nxt & l' & E & Q). exists nxt, l'. split; [exact E|]. split; [exact Q | congruence].
    - destruct (lexValue_ok l I1 I2 I3 I4) as (nxt & l' & E & Q & D). exists nxt, l'. auto.
    - destruct (lexComment_ok l I1 I2 I3 I4 I5) as (nxt & l' & E & Q & D). exists nxt, l'. auto.
  Qed.

  Definition weight (st : lstate) (l : lexer) : nat :=
    2 * (len - l_pos l) + match st with SToken => 1 | _ => 0 end.

  Lemma run_loop_ok : forall fuel st l, Inv st l -> weight st l < fuel ->
    exists l', run_loop is_space is_control is_number keeps input fuel st l = Ok l' /\ out_ok l' /\ ends_ok (l_out l').
  Proof.
    induction fuel as [|f IH]; intros st l HI Hw; [lia|].
    cbn [run_loop]. destruct (step_ok st l HI) as (nxt & l1 & E1 & (P1&P2&P3&P4) & P5). rewrite E1. cbn [obind].
    destruct (sws_ok l1 P3) as (b & l2 & E2 & (Q1&Q2&Q3&Q4)). rewrite E2. cbn [obind].
    destruct HI as (I1&I2&I3&I4&I5&I6).
    assert (N1 : forall st', nxt = Some st' -> Forall normal (l_out l1)).
    { intros st' ->. cbn [pushed] in P2. destruct P2 as [->|(t & -> & Ht)]; [exact I6 | constructor; assumption]. }
    destruct b; cbn [negb].
    - destruct (Q2 eq_refl) as (R1&R2&R3&R4&R5).
      destruct nxt as [st'|].
      + (* continue *)
        apply IH.
        * unfold Inv. split; [lia|]. split; [exact R3|]. split.
          { apply R4. destruct st'; [exact (proj1 P4) | destruct P4 as [-> _]; exact I3 ..]. }
          split; [unfold out_ok; rewrite R1; exact P1|]. split; [|rewrite R1; eauto].
          destruct st'; cbn [pre_st]; auto. destruct P4 as [-> Hpre]. rewrite (R5 I2). exact Hpre.
        * unfold weight in *. destruct st'.
          -- destruct P4 as [_ Hlt]. destruct st; lia.
          -- destruct P4 as [-> _]. rewrite (R5 I2). destruct st; [lia | destruct (P5 ltac:(discriminate)); discriminate ..].
          -- destruct P4 as [-> _]. rewrite (R5 I2). destruct st; [lia | destruct (P5 ltac:(discriminate)); discriminate ..].
      + exists l2. split; [reflexivity|]. split; [unfold out_ok; rewrite R1; exact P1|].
        cbn [pushed] in P2. destruct P2 as (t & Ht & [He|[_ Hge]]).
        * exists t, (l_out l). split; [congruence|]. right. auto.
        * specialize (Q4 Hge). discriminate.
    - exists l2. split; [reflexivity|]. destruct (Q3 eq_refl) as (t & Ht & Hid).
      split; [unfold out_ok; rewrite Ht; constructor; [left; exact Hid | exact P1]|].
      exists t, (l_out l1). split; [exact Ht|]. left. split; [exact Hid|].
      destruct nxt as [st'|]; [left; eauto|].
      cbn [pushed] in P2. destruct P2 as (e & He & [Hee|[Hn _]]).
      + right. exists e, (l_out l). auto.
      + left. rewrite He. constructor; assumption.
  Qed.

  Lemma run_ok : exists l', run is_space is_control is_number keeps input = Ok l' /\ out_ok l' /\ ends_ok (l_out l').
  Proof.
    unfold run. destruct (sws_ok lexer0 ltac:(cbn; lia)) as (b & l & E & (Q1&Q2&Q3&Q4)). rewrite E. cbn [obind].
    destruct b.
    - destruct (Q2 eq_refl) as (R1&R2&R3&R4&R5). apply run_loop_ok.
      + unfold Inv. split; [lia|]. split; [exact R3|]. split; [apply R4; split; [reflexivity | intros _; reflexivity]|].
        split; [unfold out_ok; rewrite R1; constructor|]. split; [exact I | rewrite R1; constructor].
      + unfold weight, run_fuel, ilen. lia.
    - exists l. split; [reflexivity|]. destruct (Q3 eq_refl) as (t & Ht & Hid). cbn [lexer0 l_out] in Ht.
      split; [unfold out_ok; rewrite Ht; constructor; [left; exact Hid | constructor]|].
      exists t, []. split; [exact Ht|]. left. split; [exact Hid | left; constructor].
  Qed.
End Proofs.

(* ------------------------------------------------------------------ the results, in list order *)
Definition classifiers_ok (is_space is_number : rune -> bool) : Prop :=
  is_space 10%Z = true /\ is_number 10%Z = false.

Definition is_eof (t : token) : Prop := t_id t = TokenEOF.
Definition is_error (t : token) : Prop := t_id t = TokenError.

(* the list ends with EOF, with an error, or with an error followed by EOF; before that
   there are only ordinary tokens *)
Definition well_ended (ts : list token) : Prop :=
  exists body tail, ts = body ++ tail /\ Forall normal body
    /\ ((exists t, tail = [t] /\ (is_eof t \/ is_error t))
        \/ (exists e t, tail = [e; t] /\ is_error e /\ is_eof t)).

Section Results.
  Variables is_space is_control is_number : rune -> bool.
  Variable keeps : bool.
  Hypothesis HC : classifiers_ok is_space is_number.

  Theorem lex_with_total input : exists ts, lex_with is_space is_control is_number keeps input = Ok ts.
  Proof.
    destruct HC as [H1 H2]. destruct (run_ok is_space is_control is_number keeps input H1 H2) as (l & E & _).
    unfold lex_with. rewrite E. eexists. reflexivity.
  Qed.

  Lemma lex_with_tok_ok input ts : lex_with is_space is_control is_number keeps input = Ok ts ->
    forall t, In t ts -> tok_ok keeps input t.
  Proof.
    destruct HC as [H1 H2]. destruct (run_ok is_space is_control is_number keeps input H1 H2) as (l & E & Ho & _).
    unfold lex_with. rewrite E. cbn [obind]. intros [= <-] t Hin.
    apply in_rev in Hin. unfold out_ok in Ho. rewrite Forall_forall in Ho. exact (Ho t Hin).
  Qed.

  (* lines: both variants, every input *)
  Theorem lex_with_lines input ts : lex_with is_space is_control is_number keeps input = Ok ts ->
    forall t, In t ts -> t_id t <> TokenEOF ->
      t_line t = (1 + Z.of_nat (nl_count input (t_pos t)))%Z /\ t_pos t <= length input.
  Proof.
    intros H t Hin Hne. destruct (lex_with_tok_ok input ts H t Hin) as [?|(A&_&B)]; [contradiction | auto].
  Qed.

  (* line and column: with the repair, or when the text contains no '#' *)
  Theorem lex_with_positions input ts : G keeps input ->
    lex_with is_space is_control is_number keeps input = Ok ts ->
    forall t, In t ts -> t_id t <> TokenEOF ->
      (t_line t, t_col t) = linecol input (t_pos t) /\ t_pos t <= length input.
  Proof.
    intros g H t Hin Hne. destruct (lex_with_tok_ok input ts H t Hin) as [?|(A&B&C)]; [contradiction|].
    split; [|exact C]. unfold linecol. rewrite A, (B g). reflexivity.
  Qed.

  Theorem lex_with_well_ended input ts : lex_with is_space is_control is_number keeps input = Ok ts -> well_ended ts.
  Proof.
    destruct HC as [H1 H2]. destruct (run_ok is_space is_control is_number keeps input H1 H2) as (l & E & _ & He).
    unfold lex_with. rewrite E. cbn [obind]. intros [= <-].
    destruct He as (t & rest & -> & [[Ht [Hn|(e & rest' & -> & He & Hn)]]|[Ht Hn]]); cbn [rev].
    - exists (rev rest), [t]. split; [reflexivity|]. split; [apply Forall_rev; exact Hn|]. left. exists t. auto.
    - exists (rev rest'), [e; t]. split; [rewrite <- app_assoc; reflexivity|]. split; [apply Forall_rev; exact Hn|].
      right. exists e, t. auto.
    - exists (rev rest), [t]. split; [reflexivity|]. split; [apply Forall_rev; exact Hn|]. left. exists t. auto.
  Qed.
End Results.

Lemma uni_classifiers_ok : classifiers_ok uni_is_space uni_is_number.
Proof. split; vm_compute; reflexivity. Qed.

Lemma no_hash_of_not_in input : ~ In 35%N input -> no_hash input.
Proof.
  intros H i E. apply H. destruct (Nat.lt_ge_cases i (length input)) as [L|L].
  - rewrite <- E. apply nth_In. exact L.
  - rewrite nth_overflow in E by exact L. discriminate.
Qed.

(* the guard of the position theorem, per variant *)
Lemma G_repaired input : G false input.
Proof. left. reflexivity. Qed.

Lemma G_no_hash keeps input : ~ In 35%N input -> G keeps input.
Proof. intros H. right. apply no_hash_of_not_in. exact H. Qed.
