(* Proofs/InterpScope2.v — C05 on the UNIFIED interpreter model, part 2:
   5. the call frame of a user function (function.Run = run_closure / exec_function),
   6. containers are references (set_value / get_value with an access path),
   7. the assignment statements `x := e` and `let x := e` of [eval] reduce to the scope operations.
   Vocabulary and part 1: Proofs/InterpScope.v. *)
From Coq Require Import List String NArith ZArith Bool Arith Lia ZifyNat ZifyN ZifyBool.
From Ecal Require Import Common.Bytes Common.Ast gen.Tokens Spec.ParseSpec Model.Interp Proofs.InterpShape
  Proofs.InterpInv Proofs.InterpInv8 Proofs.InterpScope.
Import ListNotations.
Local Open Scope string_scope.
Local Open Scope list_scope.
Local Open Scope nat_scope.

Lemma list_upd_snoc {A} (l : list A) a b : list_upd (l ++ [a]) (length l) b = l ++ [b].
Proof. induction l as [|y r IH]; cbn; [reflexivity|]. f_equal. exact IH. Qed.

Section Sc2.
  Context {NO : NumOps}.

  (* ================================================================ states that agree below an index *)
  Definition scopes_agree (n : nat) (st st' : state) : Prop :=
    forall j, j < n -> nth_error (st_scopes st') j = nth_error (st_scopes st) j.

  Lemma chain_from_agree n st st' : scopes_acyclic st -> scopes_agree n st st' ->
    forall d s, s < n -> chain_from d st' s = chain_from d st s.
  Proof.
    intros Hac Ha. induction d as [|d IH]; intros s Hs; [reflexivity|]. rewrite !chain_from_S.
    rewrite (Ha s Hs). destruct (nth_error (st_scopes st) s) as [sc|] eqn:E; [|reflexivity]. f_equal.
    destruct (sc_parent sc) as [p|] eqn:Ep; [|reflexivity].
    assert (p < s) by (apply Hac; unfold parent_of; rewrite E; exact Ep). apply IH. lia.
  Qed.
  Lemma binding_agree n st st' j x : scopes_agree n st st' -> j < n -> binding st' j x = binding st j x.
  Proof. intros Ha Hj. unfold binding, vars_of. rewrite (Ha j Hj). reflexivity. Qed.
  Lemma lookup_chain_agree n st st' x c : scopes_agree n st st' -> Forall (fun j => j < n) c ->
    lookup_chain st' x c = lookup_chain st x c.
  Proof.
    intros Ha H. induction H as [|j r Hj Hr IH]; cbn [lookup_chain]; [reflexivity|].
    rewrite (binding_agree n st st' j x Ha Hj). rewrite IH. reflexivity.
  Qed.

  (* ================================================================ 5. the call frame *)
  (* what function.Run does with the result of the body *)
  Definition call_outcome (r : res value * state) : res callres * state :=
    match r with
    | (ROk v, st) => (ROk (v, None), st)
    | (RErr (EReturn v), st) => (ROk (v, None), st)
    | (RErr e, st) => (ROk (VNull, Some e), st)
    | (RPanic s, st) => (RPanic s, st)
    | (RFuel, st) => (RFuel, st)
    | (RUnmod w, st) => (RUnmod w, st)
    | (RInvalid w, st) => (RInvalid w, st)
    end.

  (* the name a parameter node binds without evaluating anything: an identifier, or a preset
     (name = default) whose argument was supplied *)
  Definition static_param (nargs idx : nat) (p : node) : option bytes :=
    if is_name p NodeIDENTIFIER then Some (n_val p)
    else if is_name p NodePRESET then
      match n_children p with
      | c0 :: _ :: _ => if idx <? nargs then Some (n_val c0) else None
      | _ => None
      end
    else None.
  Fixpoint static_names (nargs idx : nat) (ps : list node) : option (list bytes) :=
    match ps with
    | [] => Some []
    | p :: r =>
      match static_param nargs idx p, static_names nargs (S idx) r with
      | Some x, Some xs => if simple_name x then Some (x :: xs) else None
      | _, _ => None
      end
    end.

  (* the variable table of the frame: parameter number i gets argument number i, null when the
     call has fewer arguments; surplus arguments are dropped *)
  Fixpoint param_vars (idx : nat) (names : list bytes) (args : list value) (acc : list (bytes * value))
    : list (bytes * value) :=
    match names with
    | [] => acc
    | x :: r => param_vars (S idx) r args (v_set x (nth idx args VNull) acc)
    end.

  (* the state in which the body of closure f runs when called with args from state st *)
  Definition frame_state (st : state) (f : closure) (vars : list (bytes * value)) : state :=
    mkSt (st_scopes st ++ [mkScope [] (Some (cl_scope f)) [] vars])
         (st_arrs st) (st_maps st) (st_funs st) (st_is st ++ [[]]).

  Definition decl_offset (decl : node) : nat :=
    match n_children decl with h :: _ => if is_name h NodeIDENTIFIER then 1 else 0 | [] => 0 end.

  Section WithEv.
    Variable ev : evalT.

    (* the state while the parameters are bound: the fresh ROOT scope (no parent yet) *)
    Definition binding_state (st : state) (vars : list (bytes * value)) : state :=
      mkSt (st_scopes st ++ [mkScope [] None [] vars]) (st_arrs st) (st_maps st) (st_funs st) (st_is st).

    Lemma binding_state_acyclic st vars : scopes_acyclic st -> scopes_acyclic (binding_state st vars).
    Proof.
      intros Hac i p. unfold parent_of, binding_state. cbn [st_scopes].
      destruct (Nat.lt_ge_cases i (length (st_scopes st))) as [L|L].
      - rewrite nth_error_app1 by exact L. apply Hac.
      - rewrite nth_error_app2 by exact L. destruct (i - length (st_scopes st)) as [|[|k]]; cbn; discriminate.
    Qed.
    Lemma set_var_binding_state st vars x v :
      set_var (binding_state st vars) (length (st_scopes st)) x v = binding_state st (v_set x v vars).
    Proof.
      unfold set_var, binding_state. cbn [st_scopes st_arrs st_maps st_funs st_is].
      rewrite nth_snoc_new. rewrite list_upd_snoc. reflexivity.
    Qed.
    Lemma assign_target_binding_state st vars x : scopes_acyclic st ->
      assign_target (binding_state st vars) (length (st_scopes st)) x = length (st_scopes st).
    Proof.
      intros Hac. unfold assign_target.
      rewrite (scope_chain_unfold _ _ (binding_state_acyclic st vars Hac))
        by (unfold binding_state; cbn; rewrite app_length; cbn; lia).
      unfold parent_of at 1. unfold binding_state at 2. cbn [st_scopes]. rewrite nth_snoc_new. cbn [sc_parent lookup_chain].
      destruct (binding (binding_state st vars) (length (st_scopes st)) x); reflexivity.
    Qed.

    (* binding the parameters writes the fresh scope only, whatever the declaration scope or any
       other scope defines: the fresh scope has no parent while the parameters are bound *)
    Lemma bind_params_static ppath args dvs is st : scopes_acyclic st ->
      forall ps idx names vars,
        static_names (length args) idx ps = Some names ->
        bind_params ev ppath idx ps args (length (st_scopes st)) dvs is (binding_state st vars) =
        (ROk tt, binding_state st (param_vars idx names args vars)).
    Proof.
      intros Hac. induction ps as [|p r IH]; intros idx names vars Hn; cbn [static_names] in Hn.
      - injection Hn as <-. reflexivity.
      - destruct (static_param (length args) idx p) as [x|] eqn:Ep; [|discriminate].
        destruct (static_names (length args) (S idx) r) as [xs|] eqn:Er; [|discriminate].
        destruct (simple_name x) eqn:Ex; [|discriminate]. injection Hn as <-.
        cbn [bind_params param_vars].
        assert (Hset : forall v, attempt (set_value (length (st_scopes st)) x v) (binding_state st vars) =
                                 (ROk (inl tt), binding_state st (v_set x v vars))).
        { intros v. apply attempt_ok.
          rewrite (set_value_simple_eq _ _ x v (binding_state_acyclic st vars Hac)); [|unfold binding_state; cbn; rewrite app_length; cbn; lia|exact Ex].
          rewrite assign_target_binding_state by exact Hac. rewrite set_var_binding_state. reflexivity. }
        unfold static_param in Ep.
        destruct (is_name p NodeIDENTIFIER) eqn:E1.
        + injection Ep as <-.
          rewrite (bind_ok _ _ _ _ _ (bind_ok _ _ _ _ _ (Hset _))).
          apply IH. exact Er.
        + destruct (is_name p NodePRESET) eqn:E2; [|discriminate].
          destruct (n_children p) as [|c0 [|c1 rest]] eqn:Ec; try discriminate.
          destruct (idx <? length args) eqn:Ei; [|discriminate]. injection Ep as <-.
          unfold bind at 1 2 3. unfold ret at 1. rewrite (Hset _). apply IH. exact Er.
    Qed.

    (* THE CALL FRAME.  The body runs in scope number |scopes| (new), whose parent is the closure's
       DECLARATION scope, whose variables are exactly the parameters, with a new instance state;
       no other scope, no heap object is touched before the body starts; the caller's scope is not
       even an input of the call. *)
    Lemma run_closure_frame f args is st params body names :
      scopes_acyclic st ->
      nth_error (n_children (cl_decl f)) (decl_offset (cl_decl f)) = Some params ->
      nth_error (n_children (cl_decl f)) (S (decl_offset (cl_decl f))) = Some body ->
      static_names (length args) 0 (n_children params) = Some names ->
      run_closure ev f args is st =
      call_outcome (ev (S (decl_offset (cl_decl f)) :: cl_path f) body (length (st_scopes st)) (length (st_is st))
                       (frame_state st f (param_vars 0 names args []))).
    Proof.
      intros Hac Hp Hb Hn. unfold run_closure. cbv zeta.
      change (match n_children (cl_decl f) with
              | [] => 0
              | h :: _ => if is_name h NodeIDENTIFIER then 1 else 0
              end) with (decl_offset (cl_decl f)).
      rewrite Hp, Hb. unfold new_root. rewrite (bind_ok _ _ _ _ _ (alloc_scope_eq _ _)).
      change (mkSt (st_scopes st ++ [mkScope [] None [] []]) (st_arrs st) (st_maps st) (st_funs st) (st_is st))
        with (binding_state st []).
      rewrite (bind_ok _ _ _ _ _ (attempt_ok _ _ _ _ (bind_params_static _ args (cl_scope f) is st Hac _ 0 names [] Hn))).
      unfold set_parent.
      assert (E : nth_error (st_scopes (binding_state st (param_vars 0 names args []))) (length (st_scopes st)) =
                  Some (mkScope [] None [] (param_vars 0 names args []))) by (unfold binding_state; cbn; apply nth_snoc_new).
      rewrite (bind_ok _ _ _ _ _ (bind_ok _ _ _ _ _ (get_scope_eq _ _ _ E))).
      rewrite (bind_ok _ _ _ _ _ (alloc_is_eq _)).
      unfold binding_state. cbn [st_scopes st_arrs st_maps st_funs st_is sc_key sc_children sc_vars].
      rewrite list_upd_snoc. unfold frame_state, bind, attempt, call_outcome.
      destruct (ev _ body _ _ _) as [x st5].
      destruct x as [v|e|s| |w|w]; try reflexivity. destruct e; reflexivity.
    Qed.

    (* executeFunction on a closure: the same, a plain error of the call reported as "Runtime error" *)
    Lemma exec_function_frame id self f args is st params body names :
      scopes_acyclic st ->
      nth_error (st_funs st) id = Some f ->
      nth_error (n_children (cl_decl f)) (decl_offset (cl_decl f)) = Some params ->
      nth_error (n_children (cl_decl f)) (S (decl_offset (cl_decl f))) = Some body ->
      static_names (length args) 0 (n_children params) = Some names ->
      exec_function ev (FClosure id) self args is st =
      match call_outcome (ev (S (decl_offset (cl_decl f)) :: cl_path f) body (length (st_scopes st)) (length (st_is st))
                             (frame_state st f (param_vars 0 names args []))) with
      | (ROk r, st') => (ROk (fst r, match snd r with Some EPlain => e_runtime | x => x end), st')
      | (RErr e, st') => (RErr e, st')
      | (RPanic s, st') => (RPanic s, st')
      | (RFuel, st') => (RFuel, st')
      | (RUnmod w, st') => (RUnmod w, st')
      | (RInvalid w, st') => (RInvalid w, st')
      end.
    Proof.
      intros Hac Hf Hp Hb Hn. cbn [exec_function]. rewrite (bind_ok _ _ _ _ _ (get_fun_eq _ _ _ Hf)).
      unfold bind at 1. rewrite (run_closure_frame f args is st params body names Hac Hp Hb Hn).
      destruct (call_outcome _) as [x st']. destruct x; reflexivity.
    Qed.

    (* a parameter with a default whose argument is missing: the default expression is evaluated
       in the DECLARATION scope dvs (not in the frame, not in the caller's scope) *)
    Lemma bind_params_default ppath idx p c0 c1 rest r args fvs dvs is st :
      is_name p NodeIDENTIFIER = false -> is_name p NodePRESET = true -> n_children p = c0 :: c1 :: rest ->
      length args <= idx ->
      bind_params ev ppath idx (p :: r) args fvs dvs is st =
      bind (ev (1 :: idx :: ppath) c1 dvs is)
           (fun v => bind (attempt (set_value fvs (n_val c0) v))
                          (fun _ => bind_params ev ppath (S idx) r args fvs dvs is)) st.
    Proof.
      intros E1 E2 Ec Hi. cbn [bind_params]. rewrite E1, E2, Ec.
      destruct (idx <? length args) eqn:E; [apply Nat.ltb_lt in E; lia|].
      unfold bind. destruct (ev (1 :: idx :: ppath) c1 dvs is st) as [x st1]. destruct x; try reflexivity.
      destruct (attempt (set_value fvs (n_val c0) a) st1) as [y st2]. destruct y; reflexivity.
    Qed.
  End WithEv.

  (* ---- what code running in the frame sees *)
  Lemma frame_state_acyclic st f vars : scopes_acyclic st -> cl_scope f < length (st_scopes st) ->
    scopes_acyclic (frame_state st f vars).
  Proof.
    intros Hac Hc i p. unfold parent_of, frame_state. cbn [st_scopes].
    destruct (Nat.lt_ge_cases i (length (st_scopes st))) as [L|L].
    - rewrite nth_error_app1 by exact L. apply Hac.
    - rewrite nth_error_app2 by exact L. destruct (i - length (st_scopes st)) as [|[|k]] eqn:E; cbn; try discriminate.
      intros H. injection H as <-. lia.
  Qed.
  Lemma frame_state_agree st f vars : scopes_agree (length (st_scopes st)) st (frame_state st f vars).
  Proof. intros j Hj. unfold frame_state. cbn [st_scopes]. apply nth_error_app1. exact Hj. Qed.

  Lemma frame_state_chain st f vars : scopes_acyclic st -> cl_scope f < length (st_scopes st) ->
    scope_chain (frame_state st f vars) (length (st_scopes st)) =
    length (st_scopes st) :: scope_chain st (cl_scope f).
  Proof.
    intros Hac Hc. rewrite (scope_chain_unfold _ _ (frame_state_acyclic st f vars Hac Hc))
      by (unfold frame_state; cbn; rewrite app_length; cbn; lia).
    unfold parent_of. unfold frame_state at 1. cbn [st_scopes]. rewrite nth_snoc_new. cbn [sc_parent]. f_equal.
    unfold scope_chain. apply (chain_from_agree (length (st_scopes st)) st _ Hac (frame_state_agree st f vars)). exact Hc.
  Qed.
  Lemma frame_state_vars st f vars : vars_of (frame_state st f vars) (length (st_scopes st)) = vars.
  Proof. unfold vars_of, frame_state. cbn [st_scopes]. rewrite nth_snoc_new. reflexivity. Qed.

  (* a simple name read in the frame: the parameter of that name, else what the DECLARATION scope
     sees (in the state of the call) *)
  Lemma frame_state_read st f vars y :
    scopes_acyclic st -> cl_scope f < length (st_scopes st) -> simple_name y = true ->
    get_value (length (st_scopes st)) y (frame_state st f vars) =
    (match v_get y vars with
     | Some v => ROk v
     | None => fst (get_value (cl_scope f) y st)
     end, frame_state st f vars).
  Proof.
    intros Hac Hc Hy.
    rewrite (get_value_simple_eq _ _ y (frame_state_acyclic st f vars Hac Hc))
      by (try exact Hy; unfold frame_state; cbn; rewrite app_length; cbn; lia).
    rewrite (frame_state_chain st f vars Hac Hc). cbn [lookup_chain].
    unfold binding at 1. rewrite frame_state_vars.
    destruct (v_get y vars) as [v|]; [reflexivity|].
    rewrite (get_value_simple_eq st _ y Hac Hc Hy). cbn [fst].
    rewrite (lookup_chain_agree (length (st_scopes st)) st _ y _ (frame_state_agree st f vars)); [reflexivity|].
    rewrite Forall_forall. intros j Hj. apply (scope_chain_bound st _ j Hac Hj).
  Qed.

  (* ================================================================ 6. containers are references *)
  Lemma split_dot_aux_two x k : simple_name x = true -> simple_name k = true ->
    forall cur, split_dot_aux cur (x ++ DOT :: k) = [rev cur ++ x; k].
  Proof.
    intros Hx Hk. induction x as [|c r IH]; intros cur; cbn [app split_dot_aux].
    - rewrite N.eqb_refl. rewrite (split_dot_aux_simple k Hk). rewrite app_nil_r. reflexivity.
    - cbn in Hx. apply andb_true_iff in Hx. destruct Hx as [H1 H2].
      destruct (N.eqb c DOT); [discriminate|]. rewrite (IH H2). cbn [rev]. rewrite <- app_assoc. reflexivity.
  Qed.
  (* the access string x.k *)
  Definition dotted (x k : bytes) : bytes := x ++ DOT :: k.
  Lemma split_dot_two x k : simple_name x = true -> simple_name k = true -> split_dot (dotted x k) = [x; k].
  Proof. intros Hx Hk. unfold split_dot, dotted. rewrite (split_dot_aux_two x k Hx Hk). reflexivity. Qed.

  Lemma m_get_m_set_found k v m w : m_get k m = Some w -> m_get k (m_set k v m) = Some v.
  Proof.
    induction m as [|[k' u] r IH]; cbn [m_get m_set]; [discriminate|].
    destruct (key_eqb k' k) eqn:E; cbn [m_get]; rewrite E; [reflexivity|exact IH].
  Qed.
  Lemma m_get_m_set_refl k v m : key_eqb k k = true -> m_get k (m_set k v m) = Some v.
  Proof.
    intros R. induction m as [|[k' u] r IH]; cbn [m_get m_set]; [rewrite R; reflexivity|].
    destruct (key_eqb k' k) eqn:E; cbn [m_get]; rewrite E; [reflexivity|exact IH].
  Qed.
  Lemma m_get_m_set_diff k1 k2 v m :
    (forall k', key_eqb k' k1 = true -> key_eqb k' k2 = false) -> key_eqb k1 k2 = false ->
    m_get k2 (m_set k1 v m) = m_get k2 m.
  Proof.
    intros H1 H2. induction m as [|[k' u] r IH]; cbn [m_get m_set]; [rewrite H2; reflexivity|].
    destruct (key_eqb k' k1) eqn:E; cbn [m_get].
    - rewrite (H1 _ E). reflexivity.
    - destruct (key_eqb k' k2); [reflexivity|exact IH].
  Qed.
  Lemma m_get_m_set_other k1 k2 v m :
    (forall k', key_eqb k' k1 = true -> key_eqb k' k2 = false) ->
    (forall k', key_eqb k' k2 = true -> key_eqb k' k1 = false) -> key_eqb k1 k2 = false ->
    m_get k2 (m_set k1 v m) = m_get k2 m.
  Proof. intros H1 _ H2. apply m_get_m_set_diff; assumption. Qed.

  (* the key a field text addresses is stable under the write, and the write is read back *)
  Lemma map_field_write_read m f v :
    let m' := m_set (map_field_key m f) v m in
    map_field_key m' f = map_field_key m f /\ m_get (map_field_key m' f) m' = Some v.
  Proof.
    cbv zeta.
    assert (K : (exists i w, atoi f = Some i /\ m_get (VNum (n_of_Z i)) m = Some w /\
                             map_field_key m f = VNum (n_of_Z i)) \/
                (map_field_key m f = VStr f /\ forall i, atoi f = Some i -> m_get (VNum (n_of_Z i)) m = None)).
    { unfold map_field_key. destruct (atoi f) as [i|]; [|right; split; [reflexivity|discriminate]].
      destruct (m_get (VNum (n_of_Z i)) m) as [w|] eqn:E.
      - left. exists i, w. auto.
      - right. split; [reflexivity|]. intros i' H. injection H as <-. exact E. }
    destruct K as [(i & w & Ea & Eg & ->)|[-> Hn]].
    - assert (E2 := m_get_m_set_found _ v _ _ Eg).
      assert (E3 : map_field_key (m_set (VNum (n_of_Z i)) v m) f = VNum (n_of_Z i))
        by (unfold map_field_key; rewrite Ea, E2; reflexivity).
      rewrite E3. split; [reflexivity|exact E2].
    - assert (E3 : map_field_key (m_set (VStr f) v m) f = VStr f).
      { unfold map_field_key. destruct (atoi f) as [i|]; [|reflexivity].
        rewrite m_get_m_set_diff; [rewrite (Hn i eq_refl); reflexivity| |reflexivity].
        intros k' H. destruct k'; cbn in *; try discriminate; reflexivity. }
      rewrite E3. split; [reflexivity|]. apply m_get_m_set_refl. cbn. apply bytes_eqb_refl.
  Qed.

  (* the state after entry `key` of map number id was written: st_maps changes at id only *)
  Definition set_map_entry (st : state) (id : nat) (m : list (value * value)) : state :=
    mkSt (st_scopes st) (st_arrs st) (list_upd (st_maps st) id m) (st_funs st) (st_is st).
  Definition set_arr_cells (st : state) (a : nat) (cells : list value) : state :=
    mkSt (st_scopes st) (list_upd (st_arrs st) a cells) (st_maps st) (st_funs st) (st_is st).

  Lemma lookup_simple_found st s x c : scopes_acyclic st -> s < length (st_scopes st) ->
    (exists t, lookup_chain st x (scope_chain st s) = Some (t, c)) ->
    lookup_simple s x st = (ROk (c, true), st).
  Proof. intros Hac Hs (t & E). rewrite (lookup_simple_eq st s x Hac Hs). rewrite E. reflexivity. Qed.

  (* `x.k := v` where x holds a map: the map OBJECT is updated; no scope, no variable changes *)
  Lemma set_value_map_field st s x k v id m :
    scopes_acyclic st -> s < length (st_scopes st) -> simple_name x = true -> simple_name k = true ->
    (exists t, lookup_chain st x (scope_chain st s) = Some (t, VMap id)) ->
    nth_error (st_maps st) id = Some m ->
    set_value s (dotted x k) v st = (ROk tt, set_map_entry st id (m_set (map_field_key m k) v m)).
  Proof.
    intros Hac Hs Hx Hk Hl Hm. unfold set_value. rewrite (split_dot_two x k Hx Hk).
    rewrite (bind_ok _ _ _ _ _ (lookup_simple_found st s x _ Hac Hs Hl)). cbn [snd fst negb removelast access_container last].
    rewrite (bind_ok _ _ _ _ _ (eq_refl : ret (VMap id) st = (ROk (VMap id), st))).
    rewrite (bind_ok _ _ _ _ _ (get_map_eq _ _ _ Hm)). rewrite set_map_eq. reflexivity.
  Qed.

  (* `y.k` where y holds a map *)
  Lemma get_value_map_field st s y k id m :
    scopes_acyclic st -> s < length (st_scopes st) -> simple_name y = true -> simple_name k = true ->
    (exists t, lookup_chain st y (scope_chain st s) = Some (t, VMap id)) ->
    nth_error (st_maps st) id = Some m ->
    get_value s (dotted y k) st =
    (ROk (match m_get (map_field_key m k) m with Some v => v | None => VNull end), st).
  Proof.
    intros Hac Hs Hy Hk Hl Hm. unfold get_value. rewrite (split_dot_two y k Hy Hk).
    rewrite (bind_ok _ _ _ _ _ (lookup_simple_found st s y _ Hac Hs Hl)). cbn [snd fst access_get].
    rewrite (bind_ok _ _ _ _ _ (bind_ok _ _ _ _ _ (get_map_eq _ _ _ Hm))). reflexivity.
  Qed.

  (* a state with the same scope arena: same chains, same bindings *)
  Lemma chain_from_scopes_eq st st' : st_scopes st' = st_scopes st ->
    forall d s, chain_from d st' s = chain_from d st s.
  Proof.
    intros H. induction d as [|d IH]; intros s; [reflexivity|]. rewrite !chain_from_S. rewrite H.
    destruct (nth_error (st_scopes st) s) as [sc|]; [|reflexivity]. f_equal.
    destruct (sc_parent sc); [apply IH|reflexivity].
  Qed.
  Lemma lookup_chain_scopes_eq st st' : st_scopes st' = st_scopes st ->
    forall x c, lookup_chain st' x c = lookup_chain st x c.
  Proof.
    intros H x c. induction c as [|i r IH]; cbn [lookup_chain]; [reflexivity|].
    unfold binding, vars_of. rewrite H. fold (vars_of st i). fold (binding st i x). rewrite IH. reflexivity.
  Qed.
  Lemma lookup_scopes_eq st st' s x c : st_scopes st' = st_scopes st ->
    (exists t, lookup_chain st x (scope_chain st s) = Some (t, c)) ->
    (exists t, lookup_chain st' x (scope_chain st' s) = Some (t, c)).
  Proof.
    intros H (t & E). exists t. unfold scope_chain. rewrite (chain_from_scopes_eq st st' H).
    rewrite (lookup_chain_scopes_eq st st' H). exact E.
  Qed.

  (* ALIASING: two names (anywhere) that hold the same map; a field written through one is read
     through the other; nothing but that one map object changes *)
  Lemma map_by_reference st s1 x s2 y k v id m :
    scopes_acyclic st -> s1 < length (st_scopes st) -> s2 < length (st_scopes st) ->
    simple_name x = true -> simple_name y = true -> simple_name k = true ->
    (exists t, lookup_chain st x (scope_chain st s1) = Some (t, VMap id)) ->
    (exists t, lookup_chain st y (scope_chain st s2) = Some (t, VMap id)) ->
    nth_error (st_maps st) id = Some m ->
    let st' := set_map_entry st id (m_set (map_field_key m k) v m) in
    set_value s1 (dotted x k) v st = (ROk tt, st') /\
    get_value s2 (dotted y k) st' = (ROk v, st') /\
    st_scopes st' = st_scopes st /\ st_arrs st' = st_arrs st /\ st_funs st' = st_funs st /\ st_is st' = st_is st /\
    length (st_maps st') = length (st_maps st) /\
    (forall id', id' <> id -> nth_error (st_maps st') id' = nth_error (st_maps st) id').
  Proof.
    intros Hac H1 H2 Hx Hy Hk Lx Ly Hm st'. split; [apply set_value_map_field; assumption|]. split.
    - assert (Hm' : nth_error (st_maps st') id = Some (m_set (map_field_key m k) v m)).
      { unfold st', set_map_entry. cbn [st_maps]. apply nth_list_upd_same. apply nth_error_Some. congruence. }
      rewrite (get_value_map_field st' s2 y k id _ Hac H2 Hy Hk (lookup_scopes_eq st st' _ _ _ eq_refl Ly) Hm').
      destruct (map_field_write_read m k v) as [_ E]. cbv zeta in E. rewrite E. reflexivity.
    - repeat split; try reflexivity.
      + unfold st', set_map_entry. cbn [st_maps]. apply length_list_upd.
      + intros id' N. unfold st', set_map_entry. cbn [st_maps]. apply nth_list_upd_other. exact N.
  Qed.

  (* lists: `x.i := v` where x holds the slice (a, len) writes cell i of ARRAY a *)
  Lemma go_index_in cells len i : (0 <= i < Z.of_nat len)%Z -> len <= length cells ->
    exists w, go_index cells len i = ROk w /\ nth_error cells (Z.to_nat i) = Some w.
  Proof.
    intros Hi Hl. unfold go_index.
    destruct ((0 <=? i)%Z && (i <? Z.of_nat len)%Z) eqn:E; [|lia].
    destruct (nth_error cells (Z.to_nat i)) as [w|] eqn:E2; [eauto|]. apply nth_error_None in E2. lia.
  Qed.
  Lemma list_index_range len f i : list_index len f = Some i -> (0 <= i < Z.of_nat len)%Z.
  Proof.
    unfold list_index. destruct (atoi f) as [z|]; [|discriminate].
    destruct ((0 <=? (if (z <? 0)%Z then (Z.of_nat len + z)%Z else z))%Z &&
              ((if (z <? 0)%Z then (Z.of_nat len + z)%Z else z) <? Z.of_nat len)%Z) eqn:E; [|discriminate].
    intros H. injection H as <-. lia.
  Qed.

  Lemma set_value_list_field st s x k v a len cells i :
    scopes_acyclic st -> s < length (st_scopes st) -> simple_name x = true -> simple_name k = true ->
    (exists t, lookup_chain st x (scope_chain st s) = Some (t, VList a len)) ->
    nth_error (st_arrs st) a = Some cells -> len <= length cells ->
    list_index len k = Some i ->
    set_value s (dotted x k) v st = (ROk tt, set_arr_cells st a (list_upd cells (Z.to_nat i) v)).
  Proof.
    intros Hac Hs Hx Hk Hl Ha Hlen Hi. unfold set_value. rewrite (split_dot_two x k Hx Hk).
    rewrite (bind_ok _ _ _ _ _ (lookup_simple_found st s x _ Hac Hs Hl)). cbn [snd fst negb removelast access_container last].
    rewrite (bind_ok _ _ _ _ _ (eq_refl : ret (VList a len) st = (ROk (VList a len), st))).
    rewrite Hi. rewrite (bind_ok _ _ _ _ _ (get_arr_eq _ _ _ Ha)).
    destruct (go_index_in cells len i (list_index_range _ _ _ Hi) Hlen) as (w & Ew & _).
    unfold bind at 1. unfold lift. rewrite Ew. rewrite set_arr_eq. reflexivity.
  Qed.
  Lemma get_value_list_field st s y k a len cells i :
    scopes_acyclic st -> s < length (st_scopes st) -> simple_name y = true -> simple_name k = true ->
    (exists t, lookup_chain st y (scope_chain st s) = Some (t, VList a len)) ->
    nth_error (st_arrs st) a = Some cells ->
    list_index len k = Some i ->
    get_value s (dotted y k) st = (go_index cells len i, st).
  Proof.
    intros Hac Hs Hy Hk Hl Ha Hi. unfold get_value. rewrite (split_dot_two y k Hy Hk).
    rewrite (bind_ok _ _ _ _ _ (lookup_simple_found st s y _ Hac Hs Hl)). cbn [snd fst access_get].
    rewrite Hi. unfold bind at 1. rewrite (bind_ok _ _ _ _ _ (get_arr_eq _ _ _ Ha)). unfold lift, ret.
    destruct (go_index cells len i); reflexivity.
  Qed.

  (* ALIASING for lists: the element written through x is read through every name y that holds a
     slice of the same array which is long enough to contain the index *)
  Lemma list_by_reference st s1 x s2 y k v a len len2 cells i :
    scopes_acyclic st -> s1 < length (st_scopes st) -> s2 < length (st_scopes st) ->
    simple_name x = true -> simple_name y = true -> simple_name k = true ->
    (exists t, lookup_chain st x (scope_chain st s1) = Some (t, VList a len)) ->
    (exists t, lookup_chain st y (scope_chain st s2) = Some (t, VList a len2)) ->
    nth_error (st_arrs st) a = Some cells -> len <= length cells -> len2 <= length cells ->
    list_index len k = Some i -> list_index len2 k = Some i ->
    let st' := set_arr_cells st a (list_upd cells (Z.to_nat i) v) in
    set_value s1 (dotted x k) v st = (ROk tt, st') /\
    get_value s2 (dotted y k) st' = (ROk v, st') /\
    st_scopes st' = st_scopes st /\ st_maps st' = st_maps st /\ st_funs st' = st_funs st /\ st_is st' = st_is st /\
    length (st_arrs st') = length (st_arrs st) /\
    (forall a', a' <> a -> nth_error (st_arrs st') a' = nth_error (st_arrs st) a').
  Proof.
    intros Hac H1 H2 Hx Hy Hk Lx Ly Ha Hl1 Hl2 Hi1 Hi2 st'.
    split; [eapply set_value_list_field; eassumption|]. split.
    - assert (Ha' : nth_error (st_arrs st') a = Some (list_upd cells (Z.to_nat i) v)).
      { unfold st', set_arr_cells. cbn [st_arrs]. apply nth_list_upd_same. apply nth_error_Some. congruence. }
      rewrite (get_value_list_field st' s2 y k a len2 _ i Hac H2 Hy Hk (lookup_scopes_eq st st' _ _ _ eq_refl Ly) Ha' Hi2).
      pose proof (list_index_range _ _ _ Hi2) as R.
      destruct (go_index_in (list_upd cells (Z.to_nat i) v) len2 i R ltac:(rewrite length_list_upd; exact Hl2)) as (w & Ew & En).
      rewrite Ew. rewrite nth_list_upd_same in En by lia. injection En as <-. reflexivity.
    - repeat split; try reflexivity.
      + unfold st', set_arr_cells. cbn [st_arrs]. apply length_list_upd.
      + intros a' N. unfold st', set_arr_cells. cbn [st_arrs]. apply nth_list_upd_other. exact N.
  Qed.

  (* SCALARS are values: y := (what x holds); x := v2; y still holds the old value *)
  Lemma copy_is_by_value st s x y v2 : scopes_acyclic st -> s < length (st_scopes st) ->
    simple_name x = true -> simple_name y = true -> x <> y ->
    let w := value_of (lookup_chain st x (scope_chain st s)) in
    fst (bind (set_value s y w) (fun _ => bind (set_value s x v2) (fun _ => get_value s y)) st) = ROk w.
  Proof.
    intros Hac Hs Hx Hy N w. unfold bind at 1. rewrite (set_value_simple_eq st s y w Hac Hs Hy).
    set (t1 := assign_target st s y). set (st1 := set_var st t1 y w).
    assert (Ht1 : t1 < length (st_scopes st)) by (apply assign_target_alloc; assumption).
    assert (Hac1 : scopes_acyclic st1) by (apply set_var_acyclic; exact Hac).
    assert (Hs1 : s < length (st_scopes st1)) by (unfold st1; rewrite set_var_length; exact Hs).
    unfold bind at 1. rewrite (set_value_simple_eq st1 s x v2 Hac1 Hs1 Hx).
    set (t2 := assign_target st1 s x).
    assert (Ht2 : t2 < length (st_scopes st1)) by (apply assign_target_alloc; assumption).
    destruct (read_after_write st1 t2 x v2 s y Hac1 Ht2 Hs1 Hy) as (R1 & _). rewrite (R1 N).
    rewrite (get_value_simple_eq st1 s y Hac1 Hs1 Hy). unfold st1. rewrite scope_chain_set_var.
    rewrite (lookup_chain_written_visible st t1 y w _ Ht1 (assign_target_first_on st s y Hac Hs)). reflexivity.
  Qed.
End Sc2.
