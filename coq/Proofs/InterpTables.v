(* Proofs/InterpTables.v — the DISPATCH TABLES of the interpreter model (Model/Interp.v) against the
   dispatch tables of the code, regenerated from /repo on every run (gen/Providers.v, written by
   translator/providers: providerMap, ECALRuntimeProvider.Runtime's fall-back, InbuildFuncMap,
   the stdlib symbols).

   Part A (general, for every node, state, fuel, evaluator and number implementation): what
   [eval_node] / [validate_node] / [resolve_fobj] do is a function of the CLASS of the node kind,
   and the class is computed from lists: [interp_component_kinds] (the kinds with a branch of
   their own in eval_node's chain), [void_kinds], [unmodelled_kinds] (Interp.v's own
   definitions), anything else = invalidRuntime.  [interp_component_kinds] is typed here once
   (eval_node is an if-chain, not a table) and PROVED exact: a kind outside the three lists gets
   the invalidRuntime answer on every input ([eval_node_by_class]); every kind inside
   [interp_component_kinds] gets another answer on some input ([component_kinds_dispatched]).

   Part B (table facts, closed terms decided by vm_compute over the regenerated table; they are
   re-checked whenever the table moves):
     provider_map_classified    every key of providerMap is, in the model, a component kind whose Go
                                constructor is the expected one, a void kind iff the constructor is
                                voidRuntimeInst, the invalid class iff it is invalidRuntimeInst, or
                                an unmodelled kind (answer RUnmod); Runtime's fall-back is
                                invalidRuntimeInst; nothing else writes providerMap
     dispatched_kinds_in_provider_map   every kind the model dispatches on is a key of providerMap
     builtins_permutation       modelled_builtins ++ unmodelled_builtins is a permutation of
                                InbuildFuncMap's keys ++ the three logging names
     ... (see each lemma)

   No proofs about the evaluation of a component are made here: this file pins the SHAPE of the
   dispatch, so that a new node kind / built-in / stdlib package or a re-mapped runtime component
   in /repo breaks a lemma instead of leaving the model silently behind. *)
From Coq Require Import List String NArith ZArith Bool Arith Ascii Permutation.
From Ecal Require Import Common.Bytes Common.Ast gen.Tokens gen.Providers Model.Interp.
Import ListNotations.
Local Open Scope string_scope.
Local Open Scope list_scope.
Local Open Scope nat_scope.

(* ------------------------------------------------------------------------------------------ *)
(* Part A: the model's dispatch as a function of lists                                         *)

(* the kinds with a branch of their own in eval_node, in the order of the chain *)
Definition interp_component_kinds : list string :=
  [NodeNUMBER; NodeSTRING; NodeTRUE; NodeFALSE; NodeNULL; NodeIDENTIFIER; NodeLIST; NodeMAP; NodePLUS; NodeMINUS;
   NodeTIMES; NodeDIV; NodeDIVINT; NodeMODINT; NodeGEQ; NodeGT; NodeLEQ; NodeLT; NodeEQ; NodeNEQ; NodeAND; NodeOR;
   NodeNOT; NodeIN; NodeNOTIN; NodeHASPREFIX; NodeHASSUFFIX; NodeLIKE; NodeASSIGN; NodeLET; NodeSTATEMENTS; NodeIF;
   NodeGUARD; NodeLOOP; NodeBREAK; NodeCONTINUE; NodeRETURN; NodeTRY; NodeFUNC; NodeMUTEX].

(* answered by the model with a value or an error (voidRuntime included) / with RUnmod *)
Definition interp_modelled_kinds : list string := interp_component_kinds ++ void_kinds.
Definition interp_unmodelled_kinds : list string := unmodelled_kinds.
Definition interp_dispatched_kinds : list string := interp_modelled_kinds ++ interp_unmodelled_kinds.

Inductive kclass := KComponent | KVoid | KUnmod | KInvalid.

Definition mem (k : string) (l : list string) : bool := existsb (fun s => String.eqb k s) l.

Definition kind_class (k : string) : kclass :=
  if mem k interp_component_kinds then KComponent
  else if mem k void_kinds then KVoid
  else if mem k unmodelled_kinds then KUnmod
  else KInvalid.

Lemma mem_In k l : mem k l = true <-> In k l.
Proof.
  unfold mem. rewrite existsb_exists. split.
  - intros [x [Hin He]]. apply String.eqb_eq in He. subst. exact Hin.
  - intros Hin. exists k. split; [exact Hin | apply String.eqb_refl].
Qed.

Lemma void_unmod_disjoint : forall k, mem k void_kinds = true -> mem k unmodelled_kinds = false.
Proof.
  intros k H. apply mem_In in H. unfold void_kinds in H. cbn [In] in H.
  repeat (destruct H as [H|H]; [subst k; vm_compute; reflexivity|]). contradiction.
Qed.

Section A.
  Context {NO : NumOps}.

  (* eval_node: void kinds evaluate to nil, unmodelled kinds to RUnmod, every kind outside the
     lists to invalidRuntime's error - on EVERY input *)
  Theorem eval_node_by_class :
    forall (ev : evalT) (fuel : nat) (path : list nat) (n : node) (sc is : nat),
      match kind_class (n_name n) with
      | KComponent => True
      | KVoid => eval_node ev fuel path n sc is = ret VNull
      | KUnmod => eval_node ev fuel path n sc is = unmod "sink / import"
      | KInvalid => eval_node ev fuel path n sc is = fail (rt_err T_INVCONS)
      end.
  Proof.
    intros ev fuel path n sc is.
    unfold kind_class.
    destruct (mem (n_name n) interp_component_kinds) eqn:Hc; [exact I|].
    unfold mem, interp_component_kinds in Hc. cbn [existsb] in Hc.
    repeat (apply orb_false_elim in Hc; let H := fresh "Hk" in destruct Hc as [H Hc]).
    unfold eval_node. cbv beta zeta.
    repeat match goal with H : String.eqb (n_name n) _ = false |- _ => rewrite H; clear H end.
    unfold mem.
    destruct (existsb (fun s => String.eqb (n_name n) s) void_kinds); [reflexivity|].
    destruct (existsb (fun s => String.eqb (n_name n) s) unmodelled_kinds); reflexivity.
  Qed.

  (* validate_node: the same classes (voidRuntime and the core components without a check of
     their own validate; invalidRuntime.Validate is an error) *)
  Theorem validate_node_by_class :
    forall n : node,
      match kind_class (n_name n) with
      | KComponent => True
      | KVoid => validate_node n = VOk
      | KUnmod => validate_node n = VUnmod "sink / import"
      | KInvalid => validate_node n = VErr (rt_err T_INVCONS)
      end.
  Proof.
    intros n.
    unfold kind_class.
    destruct (mem (n_name n) interp_component_kinds) eqn:Hc; [exact I|].
    unfold mem, interp_component_kinds in Hc. cbn [existsb] in Hc.
    repeat (apply orb_false_elim in Hc; let H := fresh "Hk" in destruct Hc as [H Hc]).
    unfold validate_node. cbv beta zeta. cbn [existsb].
    repeat match goal with H : String.eqb (n_name n) _ = false |- _ => rewrite H; clear H end.
    cbn [orb].
    destruct (mem (n_name n) void_kinds) eqn:Hv.
    - pose proof (void_unmod_disjoint _ Hv) as Hd. unfold mem in Hv, Hd.
      destruct (existsb (fun s => String.eqb (n_name n) s) unmodelled_kinds) eqn:Hu.
      + rewrite Hd in Hu. discriminate.
      + rewrite Hv. reflexivity.
    - unfold mem in *. rewrite Hv.
      destruct (existsb (fun s => String.eqb (n_name n) s) unmodelled_kinds); reflexivity.
  Qed.
End A.

(* ---- the converse: every listed component kind really has a branch of its own.  The
   invalidRuntime answer does not depend on the input, so ONE input with another answer shows
   that the kind is dispatched.  Probes are evaluated with a trivial number implementation. *)
Definition unit_ops : NumOps :=
  Build_NumOps unit (fun _ => Some tt) (fun _ => Some (Some tt)) (fun _ _ => tt) (fun _ _ => tt)
               (fun _ _ => tt) (fun _ _ => tt) (fun _ _ => tt) (fun _ => tt) (fun _ => 0%Z) (fun _ => tt)
               (fun _ _ => false) (fun _ _ => true) (fun _ _ => true) (fun _ => None).

Definition probe_leaf : node := Node NodeNULL [] false false 0 [].
Definition probe_nodes (k : string) : list node :=
  [Node k [] false false 0 []; Node k [] false false 0 [probe_leaf]; Node k [] false false 0 [probe_leaf; probe_leaf]].
Definition probe_ev : @evalT unit_ops := fun _ _ _ _ => @ret unit_ops _ (@VNull unit_ops).

Definition is_invalid_answer {NO : NumOps} (r : res value) : bool :=
  match r with
  | RErr (ERt ty VNull) => bytes_eqb ty T_INVCONS
  | _ => false
  end.
Definition is_invalid_vres {NO : NumOps} (r : vres) : bool :=
  match r with
  | VErr (ERt ty VNull) => bytes_eqb ty T_INVCONS
  | _ => false
  end.

Definition eval_probe_ok (k : string) : bool :=
  existsb (fun n => negb (@is_invalid_answer unit_ops (fst (@eval_node unit_ops probe_ev 0 [] n 0 0 (@init_state unit_ops)))))
          (probe_nodes k).
Definition validate_probe_ok (k : string) : bool :=
  existsb (fun n => negb (@is_invalid_vres unit_ops (@validate_node unit_ops n))) (probe_nodes k).

Lemma eval_probes_all : forallb eval_probe_ok interp_component_kinds = true.
Proof. vm_compute. reflexivity. Qed.
Lemma validate_probes_all : forallb validate_probe_ok interp_component_kinds = true.
Proof. vm_compute. reflexivity. Qed.

Lemma probe_name k n : In n (probe_nodes k) -> n_name n = k.
Proof.
  unfold probe_nodes. cbn [In]. intros [H|[H|[H|H]]]; try contradiction; subst n; reflexivity.
Qed.

Theorem component_kinds_dispatched :
  forall k, In k interp_component_kinds ->
    exists (NO : NumOps) (ev : evalT) (fuel : nat) (path : list nat) (n : node) (sc is : nat) (st : state),
      n_name n = k /\ fst (eval_node ev fuel path n sc is st) <> RErr (rt_err T_INVCONS).
Proof.
  intros k Hin.
  pose proof eval_probes_all as Hall. rewrite forallb_forall in Hall. specialize (Hall k Hin).
  unfold eval_probe_ok in Hall. apply existsb_exists in Hall. destruct Hall as [n [Hn Hok]].
  exists unit_ops, probe_ev, 0, [], n, 0, 0, (@init_state unit_ops).
  split; [exact (probe_name k n Hn)|].
  intros Heq. rewrite Heq in Hok. vm_compute in Hok. discriminate.
Qed.

Theorem component_kinds_validated :
  forall k, In k interp_component_kinds ->
    exists (NO : NumOps) (n : node), n_name n = k /\ validate_node n <> VErr (rt_err T_INVCONS).
Proof.
  intros k Hin.
  pose proof validate_probes_all as Hall. rewrite forallb_forall in Hall. specialize (Hall k Hin).
  unfold validate_probe_ok in Hall. apply existsb_exists in Hall. destruct Hall as [n [Hn Hok]].
  exists unit_ops, n.
  split; [exact (probe_name k n Hn)|].
  intros Heq. rewrite Heq in Hok. vm_compute in Hok. discriminate.
Qed.

(* ------------------------------------------------------------------------------------------ *)
(* Part B: facts about the REGENERATED tables (gen/Providers.v)                                 *)

(* what the model's component branches follow (header of Model/Interp.v: provider.go, rt_*.go):
   node kind -> the Go constructor providerMap is expected to hold for it *)
Definition expected_components : list (string * string) :=
  [(NodeNUMBER, "numberValueRuntimeInst"); (NodeSTRING, "stringValueRuntimeInst"); (NodeTRUE, "trueRuntimeInst");
   (NodeFALSE, "falseRuntimeInst"); (NodeNULL, "nullRuntimeInst"); (NodeIDENTIFIER, "identifierRuntimeInst");
   (NodeLIST, "listValueRuntimeInst"); (NodeMAP, "mapValueRuntimeInst"); (NodePLUS, "plusOpRuntimeInst");
   (NodeMINUS, "minusOpRuntimeInst"); (NodeTIMES, "timesOpRuntimeInst"); (NodeDIV, "divOpRuntimeInst");
   (NodeDIVINT, "divintOpRuntimeInst"); (NodeMODINT, "modintOpRuntimeInst"); (NodeGEQ, "greaterequalOpRuntimeInst");
   (NodeGT, "greaterOpRuntimeInst"); (NodeLEQ, "lessequalOpRuntimeInst"); (NodeLT, "lessOpRuntimeInst");
   (NodeEQ, "equalOpRuntimeInst"); (NodeNEQ, "notequalOpRuntimeInst"); (NodeAND, "andOpRuntimeInst");
   (NodeOR, "orOpRuntimeInst"); (NodeNOT, "notOpRuntimeInst"); (NodeIN, "inOpRuntimeInst");
   (NodeNOTIN, "notinOpRuntimeInst"); (NodeHASPREFIX, "beginswithOpRuntimeInst");
   (NodeHASSUFFIX, "endswithOpRuntimeInst"); (NodeLIKE, "likeOpRuntimeInst"); (NodeASSIGN, "assignmentRuntimeInst");
   (NodeLET, "letRuntimeInst"); (NodeSTATEMENTS, "statementsRuntimeInst"); (NodeIF, "ifRuntimeInst");
   (NodeGUARD, "guardRuntimeInst"); (NodeLOOP, "loopRuntimeInst"); (NodeBREAK, "breakRuntimeInst");
   (NodeCONTINUE, "continueRuntimeInst"); (NodeRETURN, "returnRuntimeInst"); (NodeTRY, "tryRuntimeInst");
   (NodeFUNC, "funcRuntimeInst"); (NodeMUTEX, "mutexRuntimeInst")].

Definition C_VOID : string := "voidRuntimeInst".
Definition C_INVALID : string := "invalidRuntimeInst".

(* an expectation for every component kind, in the order of eval_node's chain *)
Lemma expected_components_keys : map fst expected_components = interp_component_kinds.
Proof. reflexivity. Qed.

Definition pair_eqb (a b : string * string) : bool := String.eqb (fst a) (fst b) && String.eqb (snd a) (snd b).
Definition pair_mem (a : string * string) (l : list (string * string)) : bool := existsb (pair_eqb a) l.

Lemma pair_mem_In a l : pair_mem a l = true -> In a l.
Proof.
  unfold pair_mem. rewrite existsb_exists. intros [x [Hin He]]. unfold pair_eqb in He.
  apply andb_true_iff in He. destruct He as [H1 H2]. apply String.eqb_eq in H1. apply String.eqb_eq in H2.
  destruct a, x. cbn [fst snd] in *. subst. exact Hin.
Qed.

Fixpoint nodupb (l : list string) : bool :=
  match l with
  | [] => true
  | x :: r => negb (mem x r) && nodupb r
  end.

(* (a) + (c): one entry of providerMap against the model's class of its kind *)
Definition entry_ok (e : string * string) : bool :=
  let (k, c) := e in
  match kind_class k with
  | KComponent => pair_mem (k, c) expected_components
  | KVoid => String.eqb c C_VOID
  | KUnmod => negb (String.eqb c C_VOID) && negb (String.eqb c C_INVALID)
  | KInvalid => String.eqb c C_INVALID
  end.

Lemma provider_map_entries_ok : forallb entry_ok provider_map = true.
Proof. vm_compute. reflexivity. Qed.

Lemma provider_map_keys_unique : nodupb (map fst provider_map) = true.
Proof. vm_compute. reflexivity. Qed.

Theorem provider_map_classified :
  forall k c, In (k, c) provider_map ->
    match kind_class k with
    | KComponent => In (k, c) expected_components
    | KVoid => c = C_VOID
    | KUnmod => c <> C_VOID /\ c <> C_INVALID
    | KInvalid => c = C_INVALID
    end.
Proof.
  intros k c Hin.
  pose proof provider_map_entries_ok as Hall. rewrite forallb_forall in Hall. specialize (Hall _ Hin).
  unfold entry_ok in Hall.
  destruct (kind_class k).
  - apply pair_mem_In. exact Hall.
  - apply String.eqb_eq. exact Hall.
  - apply andb_true_iff in Hall. destruct Hall as [H1 H2].
    apply negb_true_iff in H1. apply negb_true_iff in H2.
    apply String.eqb_neq in H1. apply String.eqb_neq in H2. split; assumption.
  - apply String.eqb_eq. exact Hall.
Qed.

(* the fall-back of ECALRuntimeProvider.Runtime for a kind outside providerMap is the component
   the model's last branch follows; the literal is the only writer of the table *)
Lemma provider_default_is_invalid : provider_default = C_INVALID.
Proof. reflexivity. Qed.
Lemma provider_map_only_literal : provider_map_other_writes = [].
Proof. reflexivity. Qed.

(* (b) every kind the model dispatches on is a key of providerMap *)
Lemma dispatched_kinds_are_keys : forallb (fun k => mem k (map fst provider_map)) interp_dispatched_kinds = true.
Proof. vm_compute. reflexivity. Qed.

Theorem dispatched_kinds_in_provider_map :
  forall k, In k interp_dispatched_kinds -> In k (map fst provider_map).
Proof.
  intros k Hin. pose proof dispatched_kinds_are_keys as Hall. rewrite forallb_forall in Hall.
  apply mem_In. exact (Hall k Hin).
Qed.

(* (c) spelled out: the table holds the expected constructor for every component kind *)
Lemma expected_components_present : forallb (fun e => pair_mem e provider_map) expected_components = true.
Proof. vm_compute. reflexivity. Qed.

Theorem expected_components_in_provider_map :
  forall k c, In (k, c) expected_components -> In (k, c) provider_map.
Proof.
  intros k c Hin. pose proof expected_components_present as Hall. rewrite forallb_forall in Hall.
  apply pair_mem_In. exact (Hall _ Hin).
Qed.

Lemma kind_class_invalid_of_not_dispatched k : ~ In k interp_dispatched_kinds -> kind_class k = KInvalid.
Proof.
  intros Hn. unfold kind_class.
  destruct (mem k interp_component_kinds) eqn:H1.
  { exfalso. apply Hn. apply mem_In in H1. unfold interp_dispatched_kinds, interp_modelled_kinds.
    apply in_or_app. left. apply in_or_app. left. exact H1. }
  destruct (mem k void_kinds) eqn:H2.
  { exfalso. apply Hn. apply mem_In in H2. unfold interp_dispatched_kinds, interp_modelled_kinds.
    apply in_or_app. left. apply in_or_app. right. exact H2. }
  destruct (mem k unmodelled_kinds) eqn:H3.
  { exfalso. apply Hn. apply mem_In in H3. unfold interp_dispatched_kinds, interp_unmodelled_kinds.
    apply in_or_app. right. exact H3. }
  reflexivity.
Qed.

Section B.
  Context {NO : NumOps}.

  (* the composition of Part A with the table: what the model does with a node whose kind is a
     key of providerMap *)
  Theorem dispatch_covers_provider_map :
    forall k c, In (k, c) provider_map ->
    forall (ev : evalT) (fuel : nat) (path : list nat) (n : node) (sc is : nat), n_name n = k ->
      (In k interp_component_kinds /\ In (k, c) expected_components)
      \/ (c = C_VOID /\ eval_node ev fuel path n sc is = ret VNull /\ validate_node n = VOk)
      \/ (c <> C_VOID /\ c <> C_INVALID /\ eval_node ev fuel path n sc is = unmod "sink / import"
          /\ validate_node n = VUnmod "sink / import")
      \/ (c = C_INVALID /\ eval_node ev fuel path n sc is = fail (rt_err T_INVCONS)
          /\ validate_node n = VErr (rt_err T_INVCONS)).
  Proof.
    intros k c Hin ev fuel path n sc is Hname.
    pose proof (provider_map_classified k c Hin) as Hc.
    pose proof (eval_node_by_class ev fuel path n sc is) as He.
    pose proof (validate_node_by_class n) as Hv.
    rewrite Hname in He, Hv.
    destruct (kind_class k) eqn:Hk.
    - left. split; [|exact Hc]. unfold kind_class in Hk.
      destruct (mem k interp_component_kinds) eqn:Hm; [apply mem_In; exact Hm|].
      destruct (mem k void_kinds); [discriminate|]. destruct (mem k unmodelled_kinds); discriminate.
    - right. left. auto.
    - right. right. left. destruct Hc. auto.
    - right. right. right. auto.
  Qed.

  (* a kind that is NOT a key of providerMap gets, in the model, the answer of the component the
     code falls back to *)
  Theorem unknown_kind_is_invalid :
    forall (ev : evalT) (fuel : nat) (path : list nat) (n : node) (sc is : nat),
      ~ In (n_name n) (map fst provider_map) ->
      provider_default = C_INVALID
      /\ eval_node ev fuel path n sc is = fail (rt_err T_INVCONS)
      /\ validate_node n = VErr (rt_err T_INVCONS).
  Proof.
    intros ev fuel path n sc is Hn.
    assert (Hk : kind_class (n_name n) = KInvalid).
    { apply kind_class_invalid_of_not_dispatched. intros Hd. apply Hn.
      apply dispatched_kinds_in_provider_map. exact Hd. }
    pose proof (eval_node_by_class ev fuel path n sc is) as He.
    pose proof (validate_node_by_class n) as Hv.
    rewrite Hk in He, Hv. split; [reflexivity|]. split; assumption.
  Qed.
End B.

(* ------------------------------------------------------------------------------------------ *)
(* built-in functions: InbuildFuncMap against modelled_builtins / unmodelled_builtins          *)

(* resolveFunctionObject / executeFunction treat these three names before any table is
   consulted (rt_identifier.go); they are not keys of InbuildFuncMap.  Interp.v lists them in
   unmodelled_builtins, so the full statement "modelled ++ unmodelled is a permutation of
   InbuildFuncMap's keys" is FALSE of the model (witness: "log"); the true statement adds them. *)
Definition logging_funcs : list string := ["log"; "error"; "debug"].

Lemma builtins_not_just_inbuild_map :
  mem "log" unmodelled_builtins = true /\ mem "log" inbuild_funcs = false.
Proof. split; vm_compute; reflexivity. Qed.

Definition sleb (a b : string) : bool := match String.compare a b with Gt => false | _ => true end.
Fixpoint sinsert (x : string) (l : list string) : list string :=
  match l with
  | [] => [x]
  | y :: r => if sleb x y then x :: l else y :: sinsert x r
  end.
Fixpoint isort (l : list string) : list string :=
  match l with
  | [] => []
  | x :: r => sinsert x (isort r)
  end.

Lemma sinsert_perm x l : Permutation (x :: l) (sinsert x l).
Proof.
  induction l as [|y r IH]; cbn [sinsert]; [apply Permutation_refl|].
  destruct (sleb x y); [apply Permutation_refl|].
  eapply Permutation_trans; [apply perm_swap|]. apply perm_skip. exact IH.
Qed.
Lemma isort_perm l : Permutation l (isort l).
Proof.
  induction l as [|x r IH]; cbn [isort]; [apply Permutation_refl|].
  eapply Permutation_trans; [apply perm_skip; exact IH|]. apply sinsert_perm.
Qed.

(* (d) as sorted lists *)
Lemma builtins_sorted_eq :
  isort (modelled_builtins ++ unmodelled_builtins) = isort (inbuild_funcs ++ logging_funcs).
Proof. vm_compute. reflexivity. Qed.

Theorem builtins_permutation :
  Permutation (modelled_builtins ++ unmodelled_builtins) (inbuild_funcs ++ logging_funcs).
Proof.
  eapply Permutation_trans; [apply isort_perm|]. rewrite builtins_sorted_eq.
  apply Permutation_sym. apply isort_perm.
Qed.

Lemma builtin_names_unique : nodupb (inbuild_funcs ++ logging_funcs) = true.
Proof. vm_compute. reflexivity. Qed.

(* the table as linked is the literal in the source: nothing registers a built-in at init time
   or later *)
Lemma inbuild_linked_is_literal : inbuild_funcs = inbuild_funcs_src /\ inbuild_other_writes = [].
Proof. split; reflexivity. Qed.
Lemma inbuild_types_keys : map fst inbuild_func_types = inbuild_funcs.
Proof. reflexivity. Qed.

(* the Go function objects the b_* functions of the model follow (func_provider.go) *)
Definition expected_builtin_types : list (string * string) :=
  [("range", "*interpreter.rangeFunc"); ("len", "*interpreter.lenFunc"); ("del", "*interpreter.delFunc");
   ("add", "*interpreter.addFunc"); ("concat", "*interpreter.concatFunc"); ("raise", "*interpreter.raise");
   ("type", "*interpreter.typeFunc")].

Lemma expected_builtin_types_keys : map fst expected_builtin_types = modelled_builtins.
Proof. reflexivity. Qed.
Lemma expected_builtin_types_present : forallb (fun e => pair_mem e inbuild_func_types) expected_builtin_types = true.
Proof. vm_compute. reflexivity. Qed.

Theorem modelled_builtin_types :
  forall k t, In (k, t) expected_builtin_types -> In (k, t) inbuild_func_types.
Proof.
  intros k t Hin. pose proof expected_builtin_types_present as Hall. rewrite forallb_forall in Hall.
  apply pair_mem_In. exact (Hall _ Hin).
Qed.

Section C.
  Context {NO : NumOps}.

  Definition fobj_ok (k : string) (result : value) : bool :=
    match resolve_fobj (bs k) result with
    | ROk (Some (FBuiltin a)) => mem k modelled_builtins && bytes_eqb a (bs k)
    | RUnmod _ => mem k unmodelled_builtins
    | _ => false
    end.

  (* resolveFunctionObject of the model on every key of InbuildFuncMap: a closure stored under the
     name wins; otherwise a modelled built-in resolves to itself and an unmodelled one is answered
     RUnmod - never "unknown function" (ROk None) *)
  Theorem resolve_fobj_covers_inbuild :
    forall k, In k inbuild_funcs -> forall result : value,
      match result with
      | VFun id => resolve_fobj (bs k) result = ROk (Some (FClosure id))
      | _ => (In k modelled_builtins /\ resolve_fobj (bs k) result = ROk (Some (FBuiltin (bs k))))
             \/ (In k unmodelled_builtins /\ exists w, resolve_fobj (bs k) result = RUnmod w)
      end.
  Proof.
    intros k Hin result.
    assert (Hall : forall r : value, (forall id, r <> VFun id) -> forallb (fun k => fobj_ok k r) inbuild_funcs = true).
    { intros r Hr. destruct r; try (vm_compute; reflexivity). exfalso. eapply Hr. reflexivity. }
    assert (Hgen : forall r : value, (forall id, r <> VFun id) ->
               (In k modelled_builtins /\ resolve_fobj (bs k) r = ROk (Some (FBuiltin (bs k))))
               \/ (In k unmodelled_builtins /\ exists w, resolve_fobj (bs k) r = RUnmod w)).
    { intros r Hr. specialize (Hall r Hr). rewrite forallb_forall in Hall. specialize (Hall k Hin).
      unfold fobj_ok in Hall.
      destruct (resolve_fobj (bs k) r) as [[[id'|a]|]| | | |w|]; try discriminate.
      - left. apply andb_true_iff in Hall. destruct Hall as [H1 H2]. apply mem_In in H1.
        destruct (bytes_eqb_spec a (bs k)) as [He|]; [|discriminate]. subst a. split; [exact H1|reflexivity].
      - right. split; [apply mem_In; exact Hall | exists w; reflexivity]. }
    destruct result; try (apply Hgen; intros id0 Hc; discriminate).
    unfold inbuild_funcs in Hin. cbn [In] in Hin.
    repeat (destruct Hin as [Hin|Hin]; [subst k; reflexivity|]). contradiction.
  Qed.
End C.

(* every modelled built-in has a branch of its own in exec_function *)
Definition is_unmod_answer {NO : NumOps} {A} (r : res A) : bool :=
  match r with RUnmod _ => true | _ => false end.
Lemma exec_probes_all :
  forallb (fun k => negb (@is_unmod_answer unit_ops _
             (fst (@exec_function unit_ops probe_ev (FBuiltin (bs k)) [] [] 0 (@init_state unit_ops)))))
          modelled_builtins = true.
Proof. vm_compute. reflexivity. Qed.

Theorem modelled_builtins_executed :
  forall k, In k modelled_builtins ->
    exists (NO : NumOps) (ev : evalT) (self : list nat) (args : list value) (is : nat) (st : state),
      forall w, fst (exec_function ev (FBuiltin (bs k)) self args is st) <> RUnmod w.
Proof.
  intros k Hin. pose proof exec_probes_all as Hall. rewrite forallb_forall in Hall. specialize (Hall k Hin).
  exists unit_ops, probe_ev, [], [], 0, (@init_state unit_ops).
  intros w Heq. rewrite Heq in Hall. discriminate.
Qed.

(* ------------------------------------------------------------------------------------------ *)
(* stdlib: every symbol the code can resolve through stdlib is recognised by the model's
   is_stdlib (and answered RUnmod by eval_identifier), every stdlib package likewise *)
Lemma stdlib_symbols_recognised :
  forallb (fun s => is_stdlib (bs s)) (stdlib_consts ++ stdlib_funcs) = true.
Proof. vm_compute. reflexivity. Qed.
Lemma stdlib_packages_recognised :
  forallb (fun p => is_stdlib (bs (p ++ ".x"))) stdlib_packages = true.
Proof. vm_compute. reflexivity. Qed.
(* no built-in name is taken for a stdlib symbol *)
Lemma builtins_not_stdlib :
  forallb (fun s => negb (is_stdlib (bs s))) (inbuild_funcs ++ logging_funcs) = true.
Proof. vm_compute. reflexivity. Qed.

Theorem stdlib_covered :
  forall s, In s (stdlib_consts ++ stdlib_funcs) -> is_stdlib (bs s) = true.
Proof.
  intros s Hin. pose proof stdlib_symbols_recognised as Hall. rewrite forallb_forall in Hall. exact (Hall s Hin).
Qed.
