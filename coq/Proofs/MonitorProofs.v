(* Proofs/MonitorProofs.v — (1) container/heap on arrays-as-lists: up/down/Push/Pop keep the heap
   invariant and the multiset, the minimum sits at index 0, the fuel is sufficient;
   (2) IntHeap.RemoveAll; (3) the root monitor's bookkeeping invariant and the exactness of
   HighestPriority for every operation history. *)
From Coq Require Import List ZArith Bool Arith Lia Permutation.
From Ecal Require Import Model.IntHeap.
Import ListNotations.

Lemma parent_child j : j > 0 -> j = 2 * ((j - 1) / 2) + 1 \/ j = 2 * ((j - 1) / 2) + 2.
Proof. intros. pose proof (Nat.div_mod (j-1) 2). pose proof (Nat.mod_upper_bound (j-1) 2). lia. Qed.
Lemma child_parent p c : c = 2 * p + 1 \/ c = 2 * p + 2 -> (c - 1) / 2 = p.
Proof. intros. pose proof (Nat.div_mod (c-1) 2). pose proof (Nat.mod_upper_bound (c-1) 2). lia. Qed.
Lemma parent_lt j : j > 0 -> (j - 1) / 2 < j.
Proof. intros. pose proof (parent_child j H). lia. Qed.
Lemma parent_0 : (0 - 1) / 2 = 0.
Proof. reflexivity. Qed.

Section HeapProofs.
  Variable A : Type.
  Variable ltb : A -> A -> bool.
  Variable d : A.
  Definition le (x y : A) : Prop := ltb y x = false.
  Hypothesis le_trans : forall x y z, le x y -> le y z -> le x z.
  Hypothesis lt_le : forall x y, ltb x y = true -> le x y.

  Notation get l k := (nth k l d).
  Notation upd := (@upd A).
  Notation swap := (@swap A d).

  Lemma le_refl x : le x x.
  Proof. unfold le. destruct (ltb x x) eqn:E; [|reflexivity]. pose proof (lt_le _ _ E) as H. unfold le in H. congruence. Qed.

  Lemma length_upd l i x : length (upd l i x) = length l.
  Proof. revert i; induction l; intros [|i]; simpl; auto. Qed.

  Lemma nth_upd_eq l i x : i < length l -> get (upd l i x) i = x.
  Proof. revert i; induction l; intros [|i]; simpl; intros; try lia; auto. apply IHl; lia. Qed.

  Lemma nth_upd_neq l i k x : i <> k -> get (upd l i x) k = get l k.
  Proof. revert i k; induction l; intros [|i] [|k]; simpl; intros; try lia; auto. Qed.

  Lemma upd_same l i : upd l i (get l i) = l.
  Proof. revert i; induction l; intros [|i]; simpl; auto. f_equal; apply IHl. Qed.

  Lemma upd_perm l i x : i < length l -> Permutation (get l i :: upd l i x) (x :: l).
  Proof.
    revert i; induction l; intros [|i]; simpl; intros; try lia.
    - apply perm_swap.
    - eapply perm_trans; [apply perm_swap|]. eapply perm_trans; [|apply perm_swap].
      apply perm_skip. apply IHl. lia.
  Qed.

  Lemma length_swap l i j : length (swap l i j) = length l.
  Proof. unfold IntHeap.swap. rewrite !length_upd. reflexivity. Qed.

  Lemma nth_swap l i j k : i < length l -> j < length l ->
    get (swap l i j) k = if Nat.eqb k j then get l i else if Nat.eqb k i then get l j else get l k.
  Proof.
    intros Hi Hj. unfold IntHeap.swap.
    destruct (Nat.eqb_spec k j) as [->|Hkj].
    - apply nth_upd_eq. rewrite length_upd. exact Hj.
    - rewrite nth_upd_neq by lia. destruct (Nat.eqb_spec k i) as [->|Hki].
      + apply nth_upd_eq. exact Hi.
      + apply nth_upd_neq. lia.
  Qed.

  Lemma swap_perm l i j : i < length l -> j < length l -> Permutation (swap l i j) l.
  Proof.
    intros Hi Hj. unfold IntHeap.swap. destruct (Nat.eq_dec i j) as [->|Hij].
    - rewrite upd_same. rewrite upd_same. apply Permutation_refl.
    - apply Permutation_cons_inv with (a := get l j).
      pose proof (upd_perm (upd l i (get l j)) j (get l i)) as H1.
      rewrite length_upd in H1. specialize (H1 Hj). rewrite nth_upd_neq in H1 by exact Hij.
      eapply perm_trans; [exact H1|]. apply (upd_perm l i (get l j) Hi).
  Qed.

  Lemma up_S f l j : up ltb d (S f) l j =
    if Nat.eqb ((j - 1) / 2) j || negb (ltb (get l j) (get l ((j - 1) / 2))) then l
    else up ltb d f (swap l ((j - 1) / 2) j) ((j - 1) / 2).
  Proof. reflexivity. Qed.

  Lemma down_S f l i n : down ltb d (S f) l i n =
    if n <=? 2 * i + 1 then (l, i)
    else let j := if (2 * i + 1 + 1 <? n) && ltb (get l (2 * i + 1 + 1)) (get l (2 * i + 1)) then 2 * i + 1 + 1 else 2 * i + 1 in
         if negb (ltb (get l j) (get l i)) then (l, i) else down ltb d f (swap l i j) j n.
  Proof. reflexivity. Qed.

  (* ---- invariants ---------------------------------------------------------------- *)
  Definition child (p c : nat) : Prop := c = 2 * p + 1 \/ c = 2 * p + 2.

  Definition heap_upto (l : list A) (n : nat) : Prop :=
    forall p c, c < n -> child p c -> le (get l p) (get l c).
  Definition heap_inv (l : list A) : Prop := heap_upto l (length l).

  (* ---- up ------------------------------------------------------------------------ *)
  Definition up_inv (l : list A) (j : nat) : Prop :=
    (forall p c, c < length l -> child p c -> c <> j -> le (get l p) (get l c)) /\
    (forall c, c < length l -> child j c -> j > 0 -> le (get l ((j - 1) / 2)) (get l c)).

  Lemma up_correct fuel : forall l j, j < fuel -> j < length l -> up_inv l j -> heap_inv (up ltb d fuel l j).
  Proof.
    induction fuel; intros l j Hf Hj [He Hg]; [lia|]. rewrite up_S.
    destruct (Nat.eqb_spec ((j - 1) / 2) j) as [E|E]; cbn [orb andb negb fst snd].
    - (* j = 0 *)
      assert (j = 0) by (destruct j; [reflexivity|]; pose proof (parent_lt (S j)); lia). subst j.
      intros p c Hc Hch. apply He; auto. destruct Hch; lia.
    - assert (Hj0 : j > 0) by (destruct j; [rewrite parent_0 in E; lia | lia]).
      pose proof (parent_lt j Hj0) as Hpl. pose proof (parent_child j Hj0) as Hpc.
      set (i := (j - 1) / 2) in *.
      destruct (ltb (get l j) (get l i)) eqn:L; cbn [orb andb negb fst snd].
      + (* swap and continue at i *)
        apply IHfuel; [lia | rewrite length_swap; lia |].
        assert (Hi : i < length l) by lia.
        split.
        * intros p c Hc Hch Hci. rewrite length_swap in Hc.
          rewrite !nth_swap by assumption.
          destruct (Nat.eqb_spec c j) as [->|Hcj].
          -- (* the edge into j: its parent is i *)
             assert (p = i) by (unfold child in Hch; lia). subst p.
             destruct (Nat.eqb_spec i j); [lia|]. rewrite Nat.eqb_refl.
             apply lt_le. exact L.
          -- destruct (Nat.eqb_spec c i); [lia|].
             destruct (Nat.eqb_spec p j) as [->|Hpj].
             ++ (* c is a child of j *) apply Hg; auto.
             ++ destruct (Nat.eqb_spec p i) as [->|Hpi].
                ** (* c is the sibling of j *)
                   eapply le_trans; [apply lt_le; exact L|]. apply He; auto.
                ** apply He; auto.
        * intros c Hc Hch Hi0. rewrite length_swap in Hc.
          pose proof (parent_lt i Hi0) as Hpi.
          rewrite !nth_swap by assumption.
          destruct (Nat.eqb_spec ((i - 1) / 2) j); [lia|].
          destruct (Nat.eqb_spec ((i - 1) / 2) i); [lia|].
          assert (Hedge : le (get l ((i - 1) / 2)) (get l i)).
          { apply He; [lia | unfold child; apply parent_child; lia | lia]. }
          destruct (Nat.eqb_spec c j) as [->|Hcj]; [exact Hedge|].
          destruct (Nat.eqb_spec c i); [unfold child in Hch; lia|].
          eapply le_trans; [exact Hedge|]. apply He; auto.
      + (* stop: the edge into j holds *)
        intros p c Hc Hch. destruct (Nat.eq_dec c j) as [->|Hcj]; [|apply He; auto].
        assert (p = i) by (unfold child in Hch; lia). subst p. exact L.
  Qed.

  Lemma up_perm fuel : forall l j, j < length l -> Permutation (up ltb d fuel l j) l.
  Proof.
    induction fuel; intros l j Hj; [apply Permutation_refl|]. rewrite up_S.
    destruct (Nat.eqb_spec ((j - 1) / 2) j) as [E|E]; cbn [orb andb negb fst snd]; [apply Permutation_refl|].
    destruct (ltb (get l j) (get l ((j - 1) / 2))); cbn [orb andb negb fst snd]; [|apply Permutation_refl].
    assert (Hj0 : j > 0) by (destruct j; [rewrite parent_0 in E; lia | lia]).
    pose proof (parent_lt j Hj0).
    eapply perm_trans; [apply IHfuel; rewrite length_swap; lia|]. apply swap_perm; lia.
  Qed.

  (* fuel j+1 suffices: more fuel changes nothing *)
  Lemma up_fuel fuel : forall l j f2, j < fuel -> fuel <= f2 -> up ltb d f2 l j = up ltb d fuel l j.
  Proof.
    induction fuel; intros l j f2 Hf H2; [lia|]. destruct f2; [lia|]. rewrite !up_S.
    destruct (Nat.eqb_spec ((j - 1) / 2) j) as [E|E]; cbn [orb andb negb fst snd]; [reflexivity|].
    destruct (ltb (get l j) (get l ((j - 1) / 2))); cbn [orb andb negb fst snd]; [|reflexivity].
    assert (Hj0 : j > 0) by (destruct j; [rewrite parent_0 in E; lia | lia]).
    pose proof (parent_lt j Hj0). apply IHfuel; lia.
  Qed.

  Lemma push_heap l x : heap_inv l -> heap_inv (heap_push ltb d l x).
  Proof.
    intros H. unfold heap_push. rewrite app_length; simpl.
    apply up_correct; [lia | rewrite app_length; simpl; lia |].
    replace (length l + 1 - 1) with (length l) by lia.
    split.
    - intros p c Hc Hch Hne. rewrite app_length in Hc; simpl in Hc.
      assert (c < length l) by lia. assert (p < length l) by (unfold child in Hch; lia).
      rewrite !app_nth1 by lia. apply H; auto.
    - intros c Hc Hch. rewrite app_length in Hc; simpl in Hc. unfold child in Hch. lia.
  Qed.

  Lemma push_perm l x : Permutation (heap_push ltb d l x) (x :: l).
  Proof.
    unfold heap_push. eapply perm_trans; [apply up_perm; rewrite app_length; simpl; lia|].
    apply Permutation_sym, Permutation_cons_append.
  Qed.

  (* ---- down ---------------------------------------------------------------------- *)
  Definition down_inv (l : list A) (i n : nat) : Prop :=
    (forall p c, c < n -> child p c -> p <> i -> le (get l p) (get l c)) /\
    (forall c, c < n -> child i c -> i > 0 -> le (get l ((i - 1) / 2)) (get l c)).

  Lemma down_correct fuel : forall l i n, n <= fuel + i -> n <= length l -> down_inv l i n ->
    heap_upto (fst (down ltb d fuel l i n)) n.
  Proof.
    induction fuel; intros l i n Hf Hn [He Hg].
    - cbn [down fst]. intros p c Hc Hch. apply He; auto. unfold child in Hch; lia.
    - rewrite down_S. destruct (Nat.leb_spec n (2 * i + 1)) as [Hl|Hl].
      + cbn [fst]. intros p c Hc Hch. apply He; auto. unfold child in Hch; lia.
      + set (j1 := 2 * i + 1) in *.
        cbv zeta. set (j := if (j1 + 1 <? n) && ltb (get l (j1 + 1)) (get l j1) then j1 + 1 else j1).
        assert (Hjc : child i j /\ j < n).
        { unfold j, child. destruct (Nat.ltb_spec (j1 + 1) n); cbn [orb andb negb fst snd].
          - destruct (ltb (get l (j1 + 1)) (get l j1)); unfold j1; lia.
          - unfold j1; lia. }
        destruct Hjc as [Hjc Hjn].
        (* j is a smallest child *)
        assert (Hmin : forall c, c < n -> child i c -> le (get l j) (get l c)).
        { intros c Hc Hch. unfold j.
          destruct (Nat.ltb_spec (j1 + 1) n) as [H2|H2]; cbn [orb andb negb fst snd].
          - destruct (ltb (get l (j1 + 1)) (get l j1)) eqn:L.
            + assert (c = j1 \/ c = j1 + 1) as [->| ->] by (unfold child, j1 in *; lia).
              * apply lt_le; exact L.
              * apply le_refl.
            + assert (c = j1 \/ c = j1 + 1) as [->| ->] by (unfold child, j1 in *; lia).
              * apply le_refl.
              * exact L.
          - assert (c = j1) by (unfold child, j1 in *; lia). subst c. apply le_refl. }
        destruct (ltb (get l j) (get l i)) eqn:L; cbn [orb andb negb fst snd].
        * assert (Hil : i < length l) by (unfold child in Hjc; lia).
          assert (Hjl : j < length l) by lia.
          assert (Hij : i < j) by (unfold child in Hjc; lia).
          apply IHfuel; [lia | rewrite length_swap; lia |].
          split.
          -- intros p c Hc Hch Hpj. rewrite !nth_swap by assumption.
             destruct (Nat.eqb_spec p j); [lia|].
             destruct (Nat.eqb_spec p i) as [->|Hpi].
             ++ destruct (Nat.eqb_spec c j) as [->|Hcj]; [apply lt_le; exact L|].
                destruct (Nat.eqb_spec c i); [unfold child in Hch; lia|].
                apply Hmin; auto.
             ++ destruct (Nat.eqb_spec c j) as [->|Hcj]; [unfold child in *; lia|].
                destruct (Nat.eqb_spec c i) as [->|Hci].
                ** (* edge from the parent of i into i, which now holds l[j] *)
                   assert (Hi0 : i > 0) by (unfold child in Hch; lia).
                   assert (p = (i - 1) / 2) by (symmetry; apply child_parent; exact Hch). subst p.
                   apply Hg; auto.
                ** apply He; auto.
          -- intros c Hc Hch _. rewrite !nth_swap by assumption.
             assert ((j - 1) / 2 = i) as -> by (apply child_parent; exact Hjc).
             destruct (Nat.eqb_spec i j); [lia|]. rewrite Nat.eqb_refl.
             destruct (Nat.eqb_spec c j); [unfold child in Hch; lia|].
             destruct (Nat.eqb_spec c i); [unfold child in Hch; lia|].
             apply He; auto; lia.
        * (* stop *)
          intros p c Hc Hch. destruct (Nat.eq_dec p i) as [->|Hpi]; [|apply He; auto].
          eapply le_trans; [exact L|]. apply Hmin; auto.
  Qed.

  Lemma down_length fuel : forall l i n, length (fst (down ltb d fuel l i n)) = length l.
  Proof.
    induction fuel; intros; [reflexivity|]. rewrite down_S.
    destruct (n <=? 2 * i + 1); [reflexivity|]. cbv zeta.
    match goal with |- context [negb ?b] => destruct b end; cbn [orb andb negb fst snd]; [|reflexivity].
    rewrite IHfuel. apply length_swap.
  Qed.

  Lemma down_perm fuel : forall l i n, i < n -> n <= length l -> Permutation (fst (down ltb d fuel l i n)) l.
  Proof.
    induction fuel; intros l i n Hi Hn; [apply Permutation_refl|]. rewrite down_S.
    destruct (Nat.leb_spec n (2 * i + 1)) as [Hl|Hl]; [apply Permutation_refl|]. cbv zeta.
    set (j := if (2 * i + 1 + 1 <? n) && ltb (get l (2 * i + 1 + 1)) (get l (2 * i + 1)) then 2 * i + 1 + 1 else 2 * i + 1).
    assert (Hj : j < n /\ i < j).
    { unfold j. destruct (Nat.ltb_spec (2 * i + 1 + 1) n); cbn [orb andb negb fst snd].
      - destruct (ltb _ _); lia.
      - lia. }
    destruct (ltb (get l j) (get l i)); cbn [orb andb negb fst snd]; [|apply Permutation_refl].
    eapply perm_trans; [apply IHfuel; [lia | rewrite length_swap; lia]|]. apply swap_perm; lia.
  Qed.

  (* positions >= n are not touched *)
  Lemma down_above fuel : forall l i n k, i < n -> n <= length l -> n <= k ->
    get (fst (down ltb d fuel l i n)) k = get l k.
  Proof.
    induction fuel; intros l i n k Hi Hn Hk; [reflexivity|]. rewrite down_S.
    destruct (Nat.leb_spec n (2 * i + 1)) as [Hl|Hl]; [reflexivity|]. cbv zeta.
    set (j := if (2 * i + 1 + 1 <? n) && ltb (get l (2 * i + 1 + 1)) (get l (2 * i + 1)) then 2 * i + 1 + 1 else 2 * i + 1).
    assert (Hj : j < n /\ i < j).
    { unfold j. destruct (Nat.ltb_spec (2 * i + 1 + 1) n); cbn [orb andb negb fst snd].
      - destruct (ltb _ _); lia.
      - lia. }
    destruct (ltb (get l j) (get l i)); cbn [orb andb negb fst snd]; [|reflexivity].
    rewrite IHfuel; [| lia | rewrite length_swap; lia | lia].
    rewrite nth_swap by lia.
    destruct (Nat.eqb_spec k j); [lia|]. destruct (Nat.eqb_spec k i); [lia|]. reflexivity.
  Qed.

  (* fuel n - i suffices *)
  Lemma down_fuel fuel : forall l i n f2, n <= fuel + i -> fuel <= f2 ->
    down ltb d f2 l i n = down ltb d fuel l i n.
  Proof.
    induction fuel; intros l i n f2 Hf H2.
    - destruct f2; [reflexivity|]. rewrite down_S. destruct (Nat.leb_spec n (2 * i + 1)); [reflexivity|lia].
    - destruct f2; [lia|]. rewrite !down_S.
      destruct (Nat.leb_spec n (2 * i + 1)) as [Hl|Hl]; [reflexivity|]. cbv zeta.
      set (j := if (2 * i + 1 + 1 <? n) && ltb (get l (2 * i + 1 + 1)) (get l (2 * i + 1)) then 2 * i + 1 + 1 else 2 * i + 1).
      assert (Hj : i < j).
      { unfold j. destruct (Nat.ltb_spec (2 * i + 1 + 1) n); cbn [orb andb negb fst snd].
        - destruct (ltb _ _); lia.
        - lia. }
      destruct (ltb (get l j) (get l i)); cbn [orb andb negb fst snd]; [|reflexivity].
      apply IHfuel; lia.
  Qed.

  (* ---- the minimum is at index 0 ---------------------------------------------------- *)
  Lemma heap_root_min l : heap_inv l -> forall k, k < length l -> le (get l 0) (get l k).
  Proof.
    intros H k. induction k as [k IH] using lt_wf_ind. intros Hk.
    destruct k; [apply le_refl|].
    pose proof (parent_child (S k) ltac:(lia)) as Hpc. pose proof (parent_lt (S k) ltac:(lia)) as Hpl.
    eapply le_trans; [apply IH; [exact Hpl | lia]|]. apply H; [exact Hk | exact Hpc].
  Qed.

  Lemma heap_head_min l x t : l = x :: t -> heap_inv l -> forall y, In y l -> le x y.
  Proof.
    intros -> H y Hy. apply (In_nth _ _ d) in Hy. destruct Hy as [k [Hk <-]].
    apply (heap_root_min _ H k Hk).
  Qed.

  (* ---- Pop ------------------------------------------------------------------------ *)
  Lemma last_nth (l : list A) : l <> [] -> last l d = get l (length l - 1).
  Proof.
    induction l as [|a l IH]; [congruence|]. intros _. destruct l as [|b l]; [reflexivity|].
    change (last (a :: b :: l) d) with (last (b :: l) d). rewrite IH by congruence.
    simpl. rewrite Nat.sub_0_r. reflexivity.
  Qed.

  Lemma nth_removelast (l : list A) k : k < length l - 1 -> get (removelast l) k = get l k.
  Proof.
    revert k; induction l as [|a l IH]; intros k Hk; [simpl in Hk; lia|].
    destruct l as [|b l]; [simpl in Hk; lia|].
    change (removelast (a :: b :: l)) with (a :: removelast (b :: l)).
    destruct k; [reflexivity|]. simpl nth. apply IH. simpl in *. lia.
  Qed.

  Lemma length_removelast (l : list A) : length (removelast l) = length l - 1.
  Proof.
    induction l as [|a l IH]; [reflexivity|]. destruct l as [|b l]; [reflexivity|].
    change (removelast (a :: b :: l)) with (a :: removelast (b :: l)). simpl length in *. lia.
  Qed.

  Lemma pop_spec l : l <> [] -> heap_inv l ->
    exists l', heap_pop ltb d l = Some (get l 0, l') /\ heap_inv l' /\
               Permutation (get l 0 :: l') l /\ length l' = length l - 1.
  Proof.
    intros Hne H. unfold heap_pop. destruct l as [|a t] eqn:El; [congruence|]. rewrite <- El in *.
    set (n := length l - 1).
    assert (Hlen : length l = S n) by (unfold n; rewrite El; simpl; lia).
    set (l1 := swap l 0 n). set (l2 := fst (down ltb d (S n) l1 0 n)).
    assert (Hl1 : length l1 = S n) by (unfold l1; rewrite length_swap; exact Hlen).
    assert (Hl2 : length l2 = S n) by (unfold l2; rewrite down_length; exact Hl1).
    assert (Hn2 : get l2 n = get l 0).
    { destruct (Nat.eq_dec n 0) as [E|E].
      - unfold l2. rewrite E. simpl. unfold l1. rewrite E. unfold IntHeap.swap. rewrite !upd_same. reflexivity.
      - unfold l2. rewrite down_above by lia. unfold l1. rewrite nth_swap by lia.
        rewrite Nat.eqb_refl. reflexivity. }
    exists (removelast l2). rewrite Hn2. split; [reflexivity|]. split; [|split].
    - (* heap *)
      assert (Hup : heap_upto l2 n).
      { unfold l2. apply down_correct; [lia | lia |]. split.
        - intros p c Hc Hch Hp. unfold l1. rewrite !nth_swap by lia.
          destruct (Nat.eqb_spec p n); [unfold child in Hch; lia|].
          destruct (Nat.eqb_spec p 0); [lia|].
          destruct (Nat.eqb_spec c n); [lia|].
          destruct (Nat.eqb_spec c 0); [unfold child in Hch; lia|].
          apply H; [lia | exact Hch].
        - intros; lia. }
      intros p c Hc Hch. rewrite length_removelast, Hl2 in Hc.
      rewrite !nth_removelast by (rewrite Hl2; unfold child in Hch; lia).
      apply Hup; [lia | exact Hch].
    - (* permutation *)
      assert (Hne2 : l2 <> []) by (intros E; rewrite E in Hl2; discriminate).
      pose proof (app_removelast_last d Hne2) as Happ.
      rewrite last_nth in Happ by exact Hne2. rewrite Hl2 in Happ.
      replace (S n - 1) with n in Happ by lia. rewrite Hn2 in Happ.
      eapply perm_trans; [apply Permutation_cons_append|]. rewrite <- Happ.
      destruct (Nat.eq_dec n 0) as [E|E].
      + unfold l2. rewrite E. simpl. unfold l1. rewrite E. apply swap_perm; lia.
      + eapply perm_trans; [unfold l2; apply down_perm; lia|]. unfold l1. apply swap_perm; lia.
    - rewrite length_removelast, Hl2. lia.
  Qed.
End HeapProofs.

(* ================================================================================== *)
(* sortutil.IntHeap                                                                    *)
From Ecal Require Import Common.Outcome Model.Monitor Spec.PrioritySpec.
Local Open Scope Z_scope.

Lemma zle_iff x y : le Z Z.ltb x y <-> x <= y.
Proof. unfold le. rewrite Z.ltb_ge. reflexivity. Qed.
Lemma zle_trans x y z : le Z Z.ltb x y -> le Z Z.ltb y z -> le Z Z.ltb x z.
Proof. rewrite !zle_iff. lia. Qed.
Lemma zlt_le x y : Z.ltb x y = true -> le Z Z.ltb x y.
Proof. rewrite zle_iff, Z.ltb_lt. lia. Qed.

Definition zheap (h : intheap) : Prop := heap_inv Z Z.ltb 0 h.

Lemma zheap_nil : zheap [].
Proof. intros p c Hc. simpl in Hc. lia. Qed.

Lemma ih_push_heap h x : zheap h -> zheap (ih_push h x).
Proof. apply push_heap; [exact zle_trans | exact zlt_le]. Qed.

Lemma ih_push_perm h x : Permutation (ih_push h x) (x :: h).
Proof. apply push_perm. Qed.

Lemma ih_pop_spec h : h <> [] -> zheap h ->
  exists x h', ih_pop h = Some (x, h') /\ zheap h' /\ Permutation (x :: h') h /\ length h' = (length h - 1)%nat.
Proof.
  intros Hne Hh. destruct (pop_spec Z Z.ltb 0 zle_trans zlt_le h Hne Hh) as (h' & H1 & H2 & H3 & H4).
  exists (nth 0 h 0), h'. auto.
Qed.

Lemma zheap_head_min x t : zheap (x :: t) -> forall y, In y (x :: t) -> x <= y.
Proof.
  intros H y Hy. apply zle_iff. eapply heap_head_min; eauto using zle_trans, zlt_le.
Qed.

Lemma filter_perm {A} (f : A -> bool) l l' : Permutation l l' -> Permutation (filter f l) (filter f l').
Proof.
  induction 1; simpl.
  - constructor.
  - destruct (f x); [constructor|]; assumption.
  - destruct (f x), (f y); try apply Permutation_refl. apply perm_swap.
  - eapply perm_trans; eassumption.
Qed.

Definition neqb (r x : Z) : bool := negb (Z.eqb x r).

Lemma remove_all_loop_spec fuel : forall h newh r, (length h <= fuel)%nat -> zheap h -> zheap newh ->
  zheap (remove_all_loop fuel h newh r) /\
  Permutation (remove_all_loop fuel h newh r) (filter (neqb r) h ++ newh).
Proof.
  induction fuel; intros h newh r Hl Hh Hn.
  - destruct h; [|simpl in Hl; lia]. simpl. split; [exact Hn | apply Permutation_refl].
  - cbn [remove_all_loop]. destruct h as [|a t] eqn:E.
    + simpl. split; [exact Hn | apply Permutation_refl].
    + rewrite <- E in *. assert (Hne : h <> []) by (rewrite E; discriminate).
      destruct (ih_pop_spec h Hne Hh) as (x & h' & Hp & Hh' & Hperm & Hlen). rewrite Hp.
      assert (Hl' : (length h' <= fuel)%nat) by lia.
      pose proof (filter_perm (neqb r) _ _ Hperm) as Hf. simpl in Hf. unfold neqb at 1 in Hf.
      destruct (Z.eqb x r); simpl in Hf.
      * destruct (IHfuel h' newh r Hl' Hh' Hn) as [I1 I2]. split; [exact I1|].
        eapply perm_trans; [exact I2|]. apply Permutation_app_tail. exact Hf.
      * destruct (IHfuel h' (ih_push newh x) r Hl' Hh' (ih_push_heap _ _ Hn)) as [I1 I2]. split; [exact I1|].
        eapply perm_trans; [exact I2|].
        eapply perm_trans; [apply Permutation_app_head; apply ih_push_perm|].
        eapply perm_trans; [apply Permutation_sym, Permutation_middle|].
        apply (Permutation_app_tail newh) in Hf. exact Hf.
Qed.

Lemma remove_all_spec h r : zheap h ->
  zheap (ih_remove_all h r) /\ Permutation (ih_remove_all h r) (filter (neqb r) h).
Proof.
  intros Hh. unfold ih_remove_all.
  destruct (remove_all_loop_spec (length h) h [] r (Nat.le_refl _) Hh zheap_nil) as [H1 H2].
  split; [exact H1|]. rewrite app_nil_r in H2. exact H2.
Qed.

Lemma remove_all_in h r x : zheap h -> In x (ih_remove_all h r) <-> In x h /\ x <> r.
Proof.
  intros Hh. destruct (remove_all_spec h r Hh) as [_ Hp]. split.
  - intros Hi. apply (Permutation_in _ Hp) in Hi. apply filter_In in Hi. destruct Hi as [H1 H2].
    split; [exact H1|]. unfold neqb in H2. intros ->. rewrite Z.eqb_refl in H2. discriminate.
  - intros [H1 H2]. apply (Permutation_in _ (Permutation_sym Hp)). apply filter_In. split; [exact H1|].
    unfold neqb. destruct (Z.eqb_spec x r); [contradiction|reflexivity].
Qed.

Lemma remove_all_nodup h r : zheap h -> NoDup h -> NoDup (ih_remove_all h r).
Proof.
  intros Hh Hn. destruct (remove_all_spec h r Hh) as [_ Hp].
  apply (Permutation_NoDup (Permutation_sym Hp)). apply NoDup_filter. exact Hn.
Qed.

(* ================================================================================== *)
(* the root monitor's bookkeeping                                                       *)

Definition is_active (m : mon) : bool := m_activated m && negb (m_finished m).
Definition hit (p : Z) (m : mon) : bool := is_active m && Z.eqb (m_prio m) p.
Definition cnt (p : Z) (l : list mon) : nat := length (filter (hit p) l).
Definition one (b : bool) : nat := if b then 1%nat else 0%nat.

Lemma cnt_app p l m : cnt p (l ++ [m]) = (cnt p l + one (hit p m))%nat.
Proof. unfold cnt. rewrite filter_app, app_length. simpl. destruct (hit p m); reflexivity. Qed.

Lemma cnt_upd p : forall l i m m', nth_error l i = Some m ->
  (cnt p (upd l i m') + one (hit p m) = cnt p l + one (hit p m'))%nat.
Proof.
  unfold cnt. induction l as [|a l IH]; intros [|i] m m' H; simpl in H; try discriminate.
  - injection H as ->. simpl. destruct (hit p m), (hit p m'); simpl; lia.
  - simpl. specialize (IH i m m' H). destruct (hit p a); simpl; lia.
Qed.

Lemma cnt_pos p l : (cnt p l > 0)%nat <-> exists i m, nth_error l i = Some m /\ is_active m = true /\ m_prio m = p.
Proof.
  unfold cnt. split.
  - intros H. destruct (filter (hit p) l) as [|m t] eqn:E; [simpl in H; lia|].
    assert (Hin : In m (filter (hit p) l)) by (rewrite E; left; reflexivity).
    apply filter_In in Hin. destruct Hin as [Hin Hh]. apply In_nth_error in Hin. destruct Hin as [i Hi].
    unfold hit in Hh. apply andb_true_iff in Hh. destruct Hh as [Ha Hp]. apply Z.eqb_eq in Hp.
    exists i, m. auto.
  - intros (i & m & Hi & Ha & Hp). apply nth_error_In in Hi.
    assert (Hin : In m (filter (hit p) l)).
    { apply filter_In. split; [exact Hi|]. unfold hit. rewrite Ha, Hp, Z.eqb_refl. reflexivity. }
    destruct (filter (hit p) l); [contradiction|simpl; lia].
Qed.

Record book_inv (s : rootmon) : Prop := {
  b_heap : zheap (priorities s);
  b_nodup : NoDup (priorities s);
  b_in : forall p, In p (priorities s) <-> incomplete s p <> None;
  b_cnt : forall p, incomplete s p =
            if Nat.eqb (cnt p (mons s)) 0 then None else Some (Z.of_nat (cnt p (mons s)))
}.

Lemma book_inv_new : book_inv new_root.
Proof.
  constructor; simpl.
  - exact zheap_nil.
  - constructor.
  - intros p. split; [intros []|congruence].
  - intros p. unfold cnt, hit, is_active. simpl. reflexivity.
Qed.

Lemma nth_error_upd_len {A} (l : list A) i x : length (upd l i x) = length l.
Proof. revert i; induction l; intros [|i]; simpl; auto. Qed.

(* one step of the repaired monitor keeps the bookkeeping exact *)
Lemma book_inv_step s o s' : book_inv s -> mon_step s o = Ok s' -> book_inv s'.
Proof.
  intros [Hh Hn Hi Hc] Hs. unfold mon_step in Hs. destruct o as [p|i|i|i]; cbn [apply_op] in Hs.
  - (* NewChild *)
    injection Hs as <-. constructor; cbn [priorities incomplete mons]; auto.
    intros q. rewrite cnt_app. unfold hit, is_active. cbn [m_activated m_finished andb one].
    rewrite !Nat.add_0_r. apply Hc.
  - (* Activate *)
    destruct (nth_error (mons s) i) as [m|] eqn:Em; [|discriminate].
    destruct (m_finished m) eqn:Ef; [discriminate|]. destruct (m_activated m) eqn:Ea; [discriminate|].
    injection Hs as <-.
    assert (Hcnt : forall q, cnt q (upd (mons s) i (mkMon (m_prio m) true false)) =
                             (cnt q (mons s) + one (Z.eqb (m_prio m) q))%nat).
    { intros q. pose proof (cnt_upd q _ _ _ (mkMon (m_prio m) true false) Em) as H.
      unfold hit in H. unfold is_active in H. rewrite Ea in H. cbn [m_activated m_finished m_prio andb negb one] in H. lia. }
    unfold descendant_activated. pose proof (Hc (m_prio m)) as Hcp.
    destruct (incomplete s (m_prio m)) as [v|] eqn:Ei.
    + (* priority already handled *)
      constructor; cbn [priorities incomplete mons set_mon]; auto.
      * intros q. rewrite Hi. unfold map_set. destruct (Z.eqb_spec q (m_prio m)) as [->|]; [|reflexivity].
        rewrite Ei. split; congruence.
      * intros q. rewrite Hcnt. unfold map_set. destruct (Z.eqb_spec q (m_prio m)) as [->|Hq].
        -- rewrite Z.eqb_refl. cbn [one].
           destruct (Nat.eqb_spec (cnt (m_prio m) (mons s)) 0); [discriminate|]. injection Hcp as ->.
           destruct (Nat.eqb_spec (cnt (m_prio m) (mons s) + 1) 0); [lia|]. f_equal. lia.
        -- destruct (Z.eqb_spec (m_prio m) q); [congruence|]. cbn [one]. rewrite Nat.add_0_r. apply Hc.
    + (* new priority: pushed on the heap *)
      assert (Hnot : ~ In (m_prio m) (priorities s)) by (rewrite Hi; congruence).
      constructor; cbn [priorities incomplete mons set_mon].
      * apply ih_push_heap; exact Hh.
      * apply (Permutation_NoDup (Permutation_sym (ih_push_perm _ _))). constructor; assumption.
      * intros q. unfold map_set. destruct (Z.eqb_spec q (m_prio m)) as [->|Hq].
        -- split; [congruence|]. intros _. apply (Permutation_in _ (Permutation_sym (ih_push_perm _ _))). left; reflexivity.
        -- rewrite <- Hi. split; intros H.
           ++ apply (Permutation_in _ (ih_push_perm _ _)) in H. destruct H; [congruence|assumption].
           ++ apply (Permutation_in _ (Permutation_sym (ih_push_perm _ _))). right; assumption.
      * intros q. rewrite Hcnt. unfold map_set. destruct (Z.eqb_spec q (m_prio m)) as [->|Hq].
        -- rewrite Z.eqb_refl. cbn [one].
           destruct (Nat.eqb_spec (cnt (m_prio m) (mons s)) 0) as [E0|]; [|discriminate]. rewrite E0. reflexivity.
        -- destruct (Z.eqb_spec (m_prio m) q); [congruence|]. cbn [one]. rewrite Nat.add_0_r. apply Hc.
  - (* Skip: not counted on either side *)
    destruct (nth_error (mons s) i) as [m|] eqn:Em; [|discriminate].
    destruct (m_finished m) eqn:Ef; [discriminate|]. destruct (m_activated m) eqn:Ea; [discriminate|].
    injection Hs as <-. unfold descendant_finished. cbn [m_activated].
    constructor; cbn [priorities incomplete mons set_mon]; auto.
    intros q. pose proof (cnt_upd q _ _ _ (mkMon (m_prio m) false true) Em) as H.
    unfold hit in H. unfold is_active in H. rewrite Ea in H. cbn [m_activated m_finished andb one] in H.
    replace (cnt q (upd (mons s) i (mkMon (m_prio m) false true))) with (cnt q (mons s)) by lia. apply Hc.
  - (* Finish *)
    destruct (nth_error (mons s) i) as [m|] eqn:Em; [|discriminate].
    destruct (m_activated m) eqn:Ea; [|discriminate]. destruct (m_finished m) eqn:Ef; [discriminate|].
    cbn [negb] in Hs. injection Hs as <-. unfold descendant_finished. cbn [m_activated m_prio].
    assert (Hcnt : forall q, (cnt q (upd (mons s) i (mkMon (m_prio m) true true)) + one (Z.eqb (m_prio m) q) =
                             cnt q (mons s))%nat).
    { intros q. pose proof (cnt_upd q _ _ _ (mkMon (m_prio m) true true) Em) as H.
      unfold hit in H. unfold is_active in H. rewrite Ea, Ef in H. cbn [m_activated m_finished m_prio andb negb one] in H. lia. }
    cbn [set_mon incomplete priorities unfinished mons].
    pose proof (Hc (m_prio m)) as Hcp. pose proof (Hcnt (m_prio m)) as Hcm. rewrite Z.eqb_refl in Hcm. cbn [one] in Hcm.
    destruct (Nat.eqb_spec (cnt (m_prio m) (mons s)) 0) as [E0|E0]; [lia|]. rewrite Hcp.
    destruct (Z.eqb_spec (Z.of_nat (cnt (m_prio m) (mons s)) - 1) 0) as [Ez|Ez].
    + (* last one of this priority: removed from the heap *)
      constructor; cbn [priorities incomplete mons].
      * apply remove_all_spec; exact Hh.
      * apply remove_all_nodup; assumption.
      * intros q. rewrite remove_all_in by exact Hh. unfold map_set. destruct (Z.eqb_spec q (m_prio m)) as [->|Hq].
        -- split; [intros [_ H]; congruence | congruence].
        -- rewrite Hi. split; [intros [H _]; exact H | intros H; split; assumption].
      * intros q. unfold map_set. specialize (Hcnt q). destruct (Z.eqb_spec q (m_prio m)) as [->|Hq].
        -- assert (cnt (m_prio m) (upd (mons s) i (mkMon (m_prio m) true true)) = 0)%nat as -> by lia. reflexivity.
        -- destruct (Z.eqb_spec (m_prio m) q); [congruence|]. cbn [one] in Hcnt. rewrite Nat.add_0_r in Hcnt. rewrite Hcnt. apply Hc.
    + constructor; cbn [priorities incomplete mons]; auto.
      * intros q. rewrite Hi. unfold map_set. destruct (Z.eqb_spec q (m_prio m)) as [->|]; [|reflexivity].
        rewrite Hcp. split; congruence.
      * intros q. unfold map_set. specialize (Hcnt q). destruct (Z.eqb_spec q (m_prio m)) as [->|Hq].
        -- destruct (Nat.eqb_spec (cnt (m_prio m) (upd (mons s) i (mkMon (m_prio m) true true))) 0); [lia|]. f_equal. lia.
        -- destruct (Z.eqb_spec (m_prio m) q); [congruence|]. cbn [one] in Hcnt. rewrite Nat.add_0_r in Hcnt. rewrite Hcnt. apply Hc.
Qed.

(* what HighestPriority reports in a state with exact bookkeeping *)
Lemma highest_of_book s : book_inv s ->
  (highest_priority s = -1 /\ forall i m, nth_error (mons s) i = Some m -> is_active m = false) \/
  (exists i m, nth_error (mons s) i = Some m /\ is_active m = true /\ m_prio m = highest_priority s /\
     forall i' m', nth_error (mons s) i' = Some m' -> is_active m' = true -> highest_priority s <= m_prio m').
Proof.
  intros [Hh Hn Hi Hc]. unfold highest_priority. destruct (priorities s) as [|x t] eqn:E.
  - left. split; [reflexivity|]. intros i m Hm. destruct (is_active m) eqn:Ea; [|reflexivity]. exfalso.
    assert (Hp : (cnt (m_prio m) (mons s) > 0)%nat) by (apply cnt_pos; eauto).
    assert (Hin : In (m_prio m) []).
    { apply Hi. rewrite Hc. destruct (Nat.eqb_spec (cnt (m_prio m) (mons s)) 0); [lia|discriminate]. }
    exact Hin.
  - right.
    assert (Hx : (cnt x (mons s) > 0)%nat).
    { assert (Hin : In x (x :: t)) by (left; reflexivity). apply Hi in Hin. rewrite Hc in Hin.
      destruct (Nat.eqb_spec (cnt x (mons s)) 0); [congruence|lia]. }
    apply cnt_pos in Hx. destruct Hx as (i & m & Hm & Ha & Hp). exists i, m. repeat split; auto.
    intros i' m' Hm' Ha'. apply (zheap_head_min x t Hh). apply Hi. rewrite Hc.
    assert ((cnt (m_prio m') (mons s) > 0)%nat) by (apply cnt_pos; eauto).
    destruct (Nat.eqb_spec (cnt (m_prio m') (mons s)) 0); [lia|discriminate].
Qed.

(* ================================================================================== *)
(* histories: the state reached mirrors the history                                    *)

Lemma run_ops_app rem sa : forall a s b,
  run_ops rem sa s (a ++ b) = obind (run_ops rem sa s a) (fun s' => run_ops rem sa s' b).
Proof.
  induction a as [|o a IH]; intros s b; simpl; [reflexivity|].
  destruct (apply_op rem sa s o); simpl; auto.
Qed.

Lemma in_snoc {A} (x o : A) l : In x (l ++ [o]) <-> In x l \/ o = x.
Proof. rewrite in_app_iff. simpl. tauto. Qed.

Lemma nth_error_upd {A} : forall (l : list A) i k x,
  nth_error (upd l i x) k = if Nat.eqb k i then (if Nat.ltb i (length l) then Some x else None) else nth_error l k.
Proof.
  induction l as [|a l IH]; intros [|i] [|k] x; simpl; auto.
  - destruct (Nat.eqb k i); reflexivity.
  - rewrite IH. destruct (Nat.eqb k i); [|reflexivity].
    change (S i <? S (length l))%nat with (i <? length l)%nat. reflexivity.
Qed.

Lemma map_upd_prio : forall (l : list mon) i m m', nth_error l i = Some m -> m_prio m' = m_prio m ->
  map m_prio (upd l i m') = map m_prio l.
Proof.
  induction l as [|a l IH]; intros [|i] m m' H Hp; simpl in *; try discriminate.
  - injection H as ->. rewrite Hp. reflexivity.
  - f_equal. eapply IH; eauto.
Qed.

Lemma created_snoc hist o :
  created (hist ++ [o]) = created hist ++ match o with NewChild p => [p] | _ => [] end.
Proof. unfold created. rewrite flat_map_app. simpl. rewrite app_nil_r. reflexivity. Qed.

Record link (hist : list op) (s : rootmon) : Prop := {
  l_prio : map m_prio (mons s) = created hist;
  l_act : forall i m, nth_error (mons s) i = Some m -> (m_activated m = true <-> In (Activate i) hist);
  l_fin : forall i m, nth_error (mons s) i = Some m ->
            (m_finished m = true <-> In (Finish i) hist \/ In (Skip i) hist);
  l_ex : forall i, In (Activate i) hist \/ In (Skip i) hist \/ In (Finish i) hist -> (i < length (mons s))%nat;
  l_finact : forall i, In (Finish i) hist -> In (Activate i) hist;
  l_skipact : forall i, In (Skip i) hist -> ~ In (Activate i) hist
}.

Lemma link_new : link [] new_root.
Proof.
  constructor; simpl; try tauto.
  - intros [|i] m H; simpl in H; [injection H as <-; simpl; split; [discriminate|tauto] | destruct i; discriminate].
  - intros [|i] m H; simpl in H; [injection H as <-; simpl; split; [discriminate|tauto] | destruct i; discriminate].
Qed.

Lemma mons_desc_act s p : mons (descendant_activated s p) = mons s.
Proof. unfold descendant_activated. destruct (incomplete s p); reflexivity. Qed.
Lemma mons_desc_fin rem s m : mons (descendant_finished rem s m) = mons s.
Proof.
  unfold descendant_finished. destruct (m_activated m); [|reflexivity].
  match goal with |- context [Z.eqb ?a 0] => destruct (Z.eqb a 0) end; reflexivity.
Qed.

Lemma nth_error_lt {A} (l : list A) i m : nth_error l i = Some m -> (i < length l)%nat.
Proof. intros H. apply nth_error_Some. congruence. Qed.

Ltac upd_cases i i0 Hm Hlt :=
  rewrite nth_error_upd in Hm; destruct (Nat.eqb_spec i i0) as [->|];
  [ rewrite (proj2 (Nat.ltb_lt _ _) Hlt) in Hm; injection Hm as <- | ].

Lemma link_step hist s o s' : link hist s -> mon_step s o = Ok s' -> link (hist ++ [o]) s'.
Proof.
  intros [Hp Ha Hf He Hfa Hsa] Hs. unfold mon_step in Hs. destruct o as [p|i0|i0|i0]; cbn [apply_op] in Hs.
  - (* NewChild *)
    injection Hs as <-. constructor; cbn [mons].
    + rewrite map_app, created_snoc, Hp. reflexivity.
    + intros i m Hm. rewrite in_snoc.
      destruct (Nat.lt_ge_cases i (length (mons s))) as [Hl|Hl].
      * rewrite nth_error_app1 in Hm by exact Hl. rewrite (Ha i m Hm). split; [tauto|intros [H|H]; [exact H|discriminate]].
      * rewrite nth_error_app2 in Hm by exact Hl.
        destruct (i - length (mons s))%nat as [|k]; simpl in Hm; [|destruct k; discriminate].
        injection Hm as <-. simpl. split; [discriminate|]. intros [H|H]; [|discriminate].
        assert (i < length (mons s))%nat by (apply He; tauto). lia.
    + intros i m Hm. rewrite !in_snoc.
      destruct (Nat.lt_ge_cases i (length (mons s))) as [Hl|Hl].
      * rewrite nth_error_app1 in Hm by exact Hl. rewrite (Hf i m Hm).
        split; [tauto|]. intros [[H|H]|[H|H]]; try discriminate; tauto.
      * rewrite nth_error_app2 in Hm by exact Hl.
        destruct (i - length (mons s))%nat as [|k]; simpl in Hm; [|destruct k; discriminate].
        injection Hm as <-. simpl. split; [discriminate|].
        intros [[H|H]|[H|H]]; try discriminate;
          (assert (i < length (mons s))%nat by (apply He; tauto); lia).
    + intros i. rewrite !in_snoc, app_length. simpl. intros [[H|H]|[[H|H]|[H|H]]]; try discriminate;
        (assert (i < length (mons s))%nat by (apply He; tauto); lia).
    + intros i. rewrite !in_snoc. intros [H|H]; [left; auto | discriminate].
    + intros i. rewrite !in_snoc. intros [H|H]; [|discriminate]. intros [H2|H2]; [|discriminate]. exact (Hsa i H H2).
  - (* Activate *)
    destruct (nth_error (mons s) i0) as [m0|] eqn:Em; [|discriminate].
    destruct (m_finished m0) eqn:Ef; [discriminate|]. destruct (m_activated m0) eqn:Eac; [discriminate|].
    injection Hs as <-. pose proof (nth_error_lt _ _ _ Em) as Hlt.
    assert (Hnf : ~ (In (Finish i0) hist \/ In (Skip i0) hist)) by (rewrite <- (Hf i0 m0 Em); congruence).
    constructor; cbn [mons set_mon]; try rewrite mons_desc_act.
    + rewrite created_snoc, app_nil_r, <- Hp. eapply map_upd_prio; eauto.
    + intros i m Hm. rewrite in_snoc. upd_cases i i0 Hm Hlt.
      * simpl. tauto.
      * rewrite (Ha i m Hm). split; [tauto|]. intros [H|H]; [exact H|]. injection H as ->. congruence.
    + intros i m Hm. rewrite !in_snoc. upd_cases i i0 Hm Hlt.
      * simpl. split; [discriminate|]. intros [[H|H]|[H|H]]; try discriminate; tauto.
      * rewrite (Hf i m Hm). split; [tauto|]. intros [[H|H]|[H|H]]; try discriminate; tauto.
    + intros i. rewrite !in_snoc, nth_error_upd_len. intros [[H|H]|[[H|H]|[H|H]]]; try discriminate;
        try (apply He; tauto). injection H as <-. exact Hlt.
    + intros i. rewrite !in_snoc. intros [H|H]; [left; auto | discriminate].
    + intros i. rewrite !in_snoc. intros [H|H]; [|discriminate]. intros [H2|H2]; [exact (Hsa i H H2)|].
      injection H2 as ->. tauto.
  - (* Skip *)
    destruct (nth_error (mons s) i0) as [m0|] eqn:Em; [|discriminate].
    destruct (m_finished m0) eqn:Ef; [discriminate|]. destruct (m_activated m0) eqn:Eac; [discriminate|].
    injection Hs as <-. pose proof (nth_error_lt _ _ _ Em) as Hlt.
    assert (Hna : ~ In (Activate i0) hist) by (rewrite <- (Ha i0 m0 Em); congruence).
    constructor; try rewrite mons_desc_fin; cbn [mons set_mon].
    + rewrite created_snoc, app_nil_r, <- Hp. eapply map_upd_prio; eauto.
    + intros i m Hm. rewrite in_snoc. upd_cases i i0 Hm Hlt.
      * simpl. split; [discriminate|]. intros [H|H]; [tauto|discriminate].
      * rewrite (Ha i m Hm). split; [tauto|]. intros [H|H]; [exact H|discriminate].
    + intros i m Hm. rewrite !in_snoc. upd_cases i i0 Hm Hlt.
      * simpl. tauto.
      * rewrite (Hf i m Hm). split; [tauto|]. intros [[H|H]|[H|H]]; try discriminate; try tauto.
        injection H as ->. congruence.
    + intros i. rewrite !in_snoc, nth_error_upd_len. intros [[H|H]|[[H|H]|[H|H]]]; try discriminate;
        try (apply He; tauto). injection H as <-. exact Hlt.
    + intros i. rewrite !in_snoc. intros [H|H]; [left; auto | discriminate].
    + intros i. rewrite !in_snoc. intros [H|H] [H2|H2]; try discriminate.
      * exact (Hsa i H H2).
      * injection H as <-. tauto.
  - (* Finish *)
    destruct (nth_error (mons s) i0) as [m0|] eqn:Em; [|discriminate].
    destruct (m_activated m0) eqn:Eac; [|discriminate]. destruct (m_finished m0) eqn:Ef; [discriminate|].
    cbn [negb] in Hs. injection Hs as <-. pose proof (nth_error_lt _ _ _ Em) as Hlt.
    assert (Hia : In (Activate i0) hist) by (rewrite <- (Ha i0 m0 Em); exact Eac).
    constructor; try rewrite mons_desc_fin; cbn [mons set_mon].
    + rewrite created_snoc, app_nil_r, <- Hp. eapply map_upd_prio; eauto.
    + intros i m Hm. rewrite in_snoc. upd_cases i i0 Hm Hlt.
      * simpl. tauto.
      * rewrite (Ha i m Hm). split; [tauto|]. intros [H|H]; [exact H|discriminate].
    + intros i m Hm. rewrite !in_snoc. upd_cases i i0 Hm Hlt.
      * simpl. tauto.
      * rewrite (Hf i m Hm). split; [tauto|]. intros [[H|H]|[H|H]]; try discriminate; try tauto.
        injection H as ->. congruence.
    + intros i. rewrite !in_snoc, nth_error_upd_len. intros [[H|H]|[[H|H]|[H|H]]]; try discriminate;
        try (apply He; tauto). injection H as <-. exact Hlt.
    + intros i. rewrite !in_snoc. intros [H|H]; [left; auto |]. injection H as <-. left; exact Hia.
    + intros i. rewrite !in_snoc. intros [H|H]; [|discriminate]. intros [H2|H2]; [|discriminate]. exact (Hsa i H H2).
Qed.

Lemma reach_inv : forall hist s, mon_run new_root hist = Ok s -> book_inv s /\ link hist s.
Proof.
  induction hist as [|o hist IH] using rev_ind; intros s H.
  - simpl in H. injection H as <-. split; [exact book_inv_new | exact link_new].
  - unfold mon_run in H. rewrite run_ops_app in H.
    destruct (run_ops ih_remove_all false new_root hist) as [s0| | |] eqn:E; try discriminate.
    simpl in H. destruct (apply_op ih_remove_all false s0 o) as [s1| | |] eqn:E1; try discriminate.
    simpl in H. injection H as <-. destruct (IH s0 E) as [Hb Hl]. split.
    + eapply book_inv_step; eauto.
    + eapply link_step; eauto.
Qed.

Lemma active_link hist s i : link hist s ->
  (active_in hist i <-> exists m, nth_error (mons s) i = Some m /\ is_active m = true).
Proof.
  intros [Hp Ha Hf He Hfa Hsa]. unfold active_in, is_active. split.
  - intros [H1 H2]. assert (Hl : (i < length (mons s))%nat) by (apply He; tauto).
    destruct (nth_error (mons s) i) as [m|] eqn:Em; [|apply nth_error_None in Em; lia].
    exists m. split; [reflexivity|]. rewrite (proj2 (Ha i m Em) H1).
    destruct (m_finished m) eqn:Ef; [|reflexivity]. exfalso.
    apply (Hf i m Em) in Ef. destruct Ef as [Ef|Ef]; [tauto | exact (Hsa i Ef H1)].
  - intros (m & Em & Hact). apply andb_true_iff in Hact. destruct Hact as [H1 H2].
    split; [apply (Ha i m Em); exact H1|]. intros Hfin.
    assert (m_finished m = true) by (apply (Hf i m Em); tauto). rewrite H in H2. discriminate.
Qed.

Lemma prio_link hist s i m : link hist s -> nth_error (mons s) i = Some m -> prio_in hist i (m_prio m).
Proof. intros [Hp _ _ _ _ _] Em. unfold prio_in. rewrite <- Hp. apply map_nth_error. exact Em. Qed.

Theorem highest_priority_exact hist s : mon_run new_root hist = Ok s -> HighestIs hist (highest_priority s).
Proof.
  intros H. destruct (reach_inv hist s H) as [Hb Hl].
  destruct (highest_of_book s Hb) as [[Hv Hnone] | (i & m & Em & Hact & Hpr & Hmin)].
  - left. split; [exact Hv|]. intros i Hai. apply (active_link hist s i Hl) in Hai.
    destruct Hai as (m & Em & Hact). rewrite (Hnone i m Em) in Hact. discriminate.
  - right. exists i. split; [apply (active_link hist s i Hl); eauto|]. split.
    + rewrite <- Hpr. eapply prio_link; eauto.
    + intros i' p' Hai Hpi. apply (active_link hist s i' Hl) in Hai. destruct Hai as (m' & Em' & Hact').
      pose proof (prio_link hist s i' m' Hl Em') as Hq. unfold prio_in in *. rewrite Hpi in Hq. injection Hq as ->.
      eapply Hmin; eauto.
Qed.

(* the protocol is exactly "no assertion of the monitor API fails" *)
Lemma allowed_iff_ok hist s o : link hist s -> (op_allowed hist o <-> exists s', mon_step s o = Ok s').
Proof.
  intros Hl. pose proof Hl as [Hp Ha Hf He Hfa Hsa]. unfold mon_step. destruct o as [p|i|i|i]; cbn [apply_op op_allowed].
  - split; [eauto|tauto].
  - assert (Hlen : length (created hist) = length (mons s)) by (rewrite <- Hp, map_length; reflexivity). rewrite Hlen. split.
    + intros (H1 & H2 & H3). destruct (nth_error (mons s) i) as [m|] eqn:Em; [|apply nth_error_None in Em; lia].
      destruct (m_finished m) eqn:Ef.
      { exfalso. apply (Hf i m Em) in Ef. destruct Ef as [Ef|Ef]; [apply H2, Hfa, Ef | tauto]. }
      destruct (m_activated m) eqn:Eac; [exfalso; apply H2, (Ha i m Em), Eac|]. eauto.
    + intros [s' H]. destruct (nth_error (mons s) i) as [m|] eqn:Em; [|discriminate].
      destruct (m_finished m) eqn:Ef; [discriminate|]. destruct (m_activated m) eqn:Eac; [discriminate|].
      split; [eapply nth_error_lt; eauto|]. split.
      * rewrite <- (Ha i m Em). congruence.
      * intros Hs. assert (m_finished m = true) by (apply (Hf i m Em); tauto). congruence.
  - assert (Hlen : length (created hist) = length (mons s)) by (rewrite <- Hp, map_length; reflexivity). rewrite Hlen. split.
    + intros (H1 & H2 & H3). destruct (nth_error (mons s) i) as [m|] eqn:Em; [|apply nth_error_None in Em; lia].
      destruct (m_finished m) eqn:Ef.
      { exfalso. apply (Hf i m Em) in Ef. destruct Ef as [Ef|Ef]; [apply H2, Hfa, Ef | tauto]. }
      destruct (m_activated m) eqn:Eac; [exfalso; apply H2, (Ha i m Em), Eac|]. eauto.
    + intros [s' H]. destruct (nth_error (mons s) i) as [m|] eqn:Em; [|discriminate].
      destruct (m_finished m) eqn:Ef; [discriminate|]. destruct (m_activated m) eqn:Eac; [discriminate|].
      split; [eapply nth_error_lt; eauto|]. split.
      * rewrite <- (Ha i m Em). congruence.
      * intros Hs. assert (m_finished m = true) by (apply (Hf i m Em); tauto). congruence.
  - split.
    + intros (H1 & H2). assert (Hlt : (i < length (mons s))%nat) by (apply He; tauto).
      destruct (nth_error (mons s) i) as [m|] eqn:Em; [|apply nth_error_None in Em; lia].
      rewrite (proj2 (Ha i m Em) H1). cbn [negb].
      destruct (m_finished m) eqn:Ef; [|eauto]. exfalso.
      apply (Hf i m Em) in Ef. destruct Ef as [Ef|Ef]; [tauto | exact (Hsa i Ef H1)].
    + intros [s' H]. destruct (nth_error (mons s) i) as [m|] eqn:Em; [|discriminate].
      destruct (m_activated m) eqn:Eac; [|discriminate]. destruct (m_finished m) eqn:Ef; [discriminate|].
      split; [apply (Ha i m Em); exact Eac|]. intros Hfin.
      assert (m_finished m = true) by (apply (Hf i m Em); tauto). congruence.
Qed.

Lemma protocol_from_iff : forall rest done s, link done s ->
  (protocol_from done rest <-> exists s', run_ops ih_remove_all false s rest = Ok s').
Proof.
  induction rest as [|o rest IH]; intros done s Hl; cbn [protocol_from run_ops].
  - split; [eauto|tauto].
  - rewrite (allowed_iff_ok done s o Hl). split.
    + intros [[s1 H1] H2]. unfold mon_step in H1. rewrite H1. simpl.
      apply (IH (done ++ [o]) s1); [eapply link_step; eauto | exact H2].
    + intros [s' H]. destruct (apply_op ih_remove_all false s o) as [s1| | |] eqn:E; try discriminate.
      simpl in H. split; [eauto|]. apply (IH (done ++ [o]) s1); [eapply link_step; eauto | eauto].
Qed.

Theorem protocol_exact hist : protocol_ok hist <-> exists s, mon_run new_root hist = Ok s.
Proof. apply (protocol_from_iff hist [] new_root link_new). Qed.
