(* Proofs/PrimsProofs.v — lemmas about Model/Prims.v for C06. *)
From Coq Require Import ZArith String List Bool Lia.
From Ecal Require Import Common.Outcome Model.Prims Spec.NoCrashSpec.
Import ListNotations.
Open Scope string_scope.
Open Scope Z_scope.

(* the error classes the primitives produce *)
Definition classes : list string :=
  [E_NOTNUM; E_NOTBOOL; E_NOTLIST; E_RUNTIME; E_INVCONS; E_INVSTATE; E_PLAIN; E_RAISED].

(* a value, or an error of one of the classes — never a panic, never out of fuel *)
Definition good {A} (r : outcome A) : Prop :=
  match r with
  | Ok _ => True
  | Err e => In e classes
  | Panic _ => False
  | OutOfFuel => False
  end.

Ltac cls := unfold classes; simpl; tauto.

Lemma good_ok {A} (a : A) : good (Ok a). Proof. exact I. Qed.
Lemma good_notnum {A} : good (@Err A E_NOTNUM). Proof. cls. Qed.
Lemma good_notbool {A} : good (@Err A E_NOTBOOL). Proof. cls. Qed.
Lemma good_notlist {A} : good (@Err A E_NOTLIST). Proof. cls. Qed.
Lemma good_runtime {A} : good (@Err A E_RUNTIME). Proof. cls. Qed.
Lemma good_invcons {A} : good (@Err A E_INVCONS). Proof. cls. Qed.
Lemma good_invstate {A} : good (@Err A E_INVSTATE). Proof. cls. Qed.
Lemma good_plain {A} : good (@Err A E_PLAIN). Proof. cls. Qed.
Lemma good_raised {A} : good (@Err A E_RAISED). Proof. cls. Qed.
#[global] Hint Resolve good_ok good_notnum good_notbool good_notlist good_runtime good_invcons
  good_invstate good_plain good_raised : good.

Lemma good_bind {A B} (x : outcome A) (f : A -> outcome B) :
  good x -> (forall a, good (f a)) -> good (obind x f).
Proof. destruct x; simpl; auto. Qed.

Lemma good_survives {A} (r : outcome A) : good r -> survives r.
Proof. destruct r; simpl; auto. Qed.

Lemma good_not_panic {A} (r : outcome A) : good r -> is_panic r = false.
Proof. destruct r; simpl; auto; contradiction. Qed.

(* ---------------------------------------------------------------- operators *)

Lemma in_list_good : forall v l, good (in_list true v l).
Proof.
  intros v l; induction l as [|i l IH]; simpl; auto with good.
  destruct (uncomparable v i); auto with good.
  destruct (scalar_eqb v i); auto with good.
Qed.

Lemma num_op_good : forall a b k, (forall x y, good (k x y)) -> good (num_op a b k).
Proof. intros a b k H; unfold num_op; destruct a; auto with good; destruct b; auto with good. Qed.

Lemma eval_bin_good : forall op a b, good (eval_bin true op a b).
Proof.
  intros op a b; destruct op; simpl; auto with good.
  1-5: apply num_op_good; auto with good.
  - apply num_op_good; intros x y; destruct (trunc y =? 0); auto with good.
  - unfold eq_op; destruct (uncomparable a b); auto with good.
  - unfold eq_op; destruct (uncomparable a b); auto with good.
  - unfold bool_op; destruct a; auto with good; destruct b; auto with good.
  - unfold bool_op; destruct a; auto with good; destruct b; auto with good.
  - destruct b; auto using in_list_good with good.
  - destruct b; auto using in_list_good with good.
Qed.

Lemma eval_un_good : forall op a, good (eval_un op a).
Proof. intros op a; destruct op, a; simpl; auto with good. Qed.

(* ---------------------------------------------------------------- map literal *)

Lemma map_lit_eval_good : forall es, forallb is_kvp es = true -> good (map_lit_eval true es).
Proof.
  induction es as [|e es IH]; simpl; auto with good.
  destruct e; simpl; intros H; try discriminate.
  destruct (hashable k); auto with good.
Qed.

Lemma map_lit_good : forall es, good (map_lit true es).
Proof.
  intros es; unfold map_lit.
  destruct (forallb is_kvp es) eqn:E; cbn [andb negb].
  - apply map_lit_eval_good; assumption.
  - apply good_invcons.
Qed.

(* ---------------------------------------------------------------- container access *)

Lemma list_at_good : forall site l f, good (list_at true site l f).
Proof.
  intros site l f; unfold list_at.
  destruct (f_int f) as [i|]; auto with good.
  destruct ((if i <? 0 then zlen l + i else i) <? zlen l); auto with good.
  destruct (0 <=? (if i <? 0 then zlen l + i else i)); auto with good.
Qed.

Lemma cget_good : forall fs c, good (cget true c fs).
Proof.
  induction fs as [|f rest IH]; intros c; simpl; auto with good.
  assert (Hstep : good (match c with
      | VMap m =>
        Ok (match (match f_int f with Some i => mlookup (VNum (NFin i 0)) m | None => None end) with
            | Some v => v
            | None => match mlookup (VStr (f_text f)) m with Some v => v | None => VNull end
            end)
      | VList l => list_at true S_GET l f
      | _ => Err E_PLAIN end)).
  { destruct c; auto using list_at_good with good. }
  destruct rest as [|g rest']; [exact Hstep|].
  apply good_bind; [exact Hstep | intros v; apply IH].
Qed.

Lemma caccess_good : forall fs c, good (caccess true c fs).
Proof.
  induction fs as [|f rest IH]; intros c; simpl; auto with good.
  assert (Hstep : good (match c with
      | VMap m => match map_field m f with Some v => Ok v | None => Err E_PLAIN end
      | VList l => list_at true S_CACC l f
      | _ => Err E_PLAIN end)).
  { destruct c; auto using list_at_good with good.
    destruct (map_field m f); auto with good. }
  destruct rest as [|g rest']; [exact Hstep|].
  apply good_bind; [exact Hstep | intros v; apply IH].
Qed.

Lemma cset_good : forall c fs, good (cset true c fs).
Proof.
  intros c fs; unfold cset; destruct fs as [|f rest]; auto with good.
  apply good_bind; [apply caccess_good|].
  intros cont; destruct cont; auto with good.
  pose proof (list_at_good S_SET l (last (f :: rest) (mkF "" None))) as H.
  destruct (list_at true S_SET l (last (f :: rest) (mkF "" None))); simpl in *; auto.
Qed.

Lemma get_kind_good : forall c fs, good (get_kind true c fs).
Proof.
  intros c fs; unfold get_kind; pose proof (cget_good fs c) as H.
  destruct (cget true c fs); simpl in *; auto.
Qed.

Lemma assign_good : forall c fs, good (assign true c fs).
Proof.
  intros c fs; unfold assign; destruct fs; auto with good.
  apply good_bind; [apply get_kind_good | intros; apply cset_good].
Qed.

(* ---------------------------------------------------------------- built-ins, sinks *)

Section WithParse.
  Variable parse : string -> option num.

  Lemma b_del_good : forall args, good (b_del parse true args).
  Proof.
    intros args; unfold b_del.
    destruct args as [|a [|b [|c r]]]; auto with good; destruct a; auto with good.
    destruct (assert_num parse b); auto with good.
    destruct ((0 <=? trunc n) && (trunc n <? zlen l)); auto with good.
  Qed.

  Lemma b_add_good : forall args, good (b_add parse true args).
  Proof.
    intros args; unfold b_add.
    destruct args as [|a [|b r]]; auto with good; destruct a; auto with good.
    destruct r as [|ix [|x r']]; auto with good.
    destruct (assert_num parse ix); auto with good.
    destruct ((0 <=? trunc n) && (trunc n <=? zlen l)); auto with good.
  Qed.

  Lemma eval_builtin_good : forall f args, good (eval_builtin parse true f args).
  Proof.
    intros f args; destruct f; cbn [eval_builtin].
    2: apply b_del_good. 2: apply b_add_good. 6: apply good_raised.
    - unfold b_len; destruct args as [|a r]; auto with good; destruct a; auto with good.
    - unfold b_concat; destruct args as [|a [|b r]]; auto with good.
      destruct (forallb is_list (a :: b :: r)); auto with good.
    - unfold b_range; destruct args as [|a r]; auto with good.
      destruct (all_num parse (firstn 3 (a :: r))); auto with good.
    - unfold b_new; destruct args as [|a r]; auto with good; destruct a; auto with good.
      destruct (mlookup (VStr "super") m) as [v|]; auto with good; destruct v; auto with good.
    - unfold b_type; destruct args; auto with good.
    - unfold b_addevent; destruct args as [|a [|b [|c r]]]; auto with good.
      destruct c; auto with good. destruct r as [|d r']; auto with good. destruct d; auto with good.
    - unfold b_addevent; destruct args as [|a [|b [|c r]]]; auto with good.
      destruct c; auto with good. destruct r as [|d r']; auto with good. destruct d; auto with good.
  Qed.

  Lemma sink_decl_good : forall attrs, good (sink_decl attrs).
  Proof.
    intros attrs; unfold sink_decl.
    destruct (forallb (fun p => attr_ok (fst p) (snd p)) attrs); auto with good.
    destruct (fst (rule_lists attrs false true) && snd (rule_lists attrs false true)); auto with good.
  Qed.

  Lemma try_raise_good : forall n, good (try_raise true n).
  Proof. intros n; destruct n; simpl; auto with good. Qed.

  Theorem eval_call_good : forall c, good (eval_call parse true c).
  Proof.
    intros c; destruct c; simpl;
      auto using eval_bin_good, eval_un_good, map_lit_good, get_kind_good, assign_good, cset_good,
        eval_builtin_good, sink_decl_good, try_raise_good.
  Qed.

  (* ---- the listed failures are *errors* (not values) in the repaired code *)

  Lemma mod_zero_is_error : forall x y, trunc y = 0 ->
    eval_call parse true (CBin OMod (VNum x) (VNum y)) = Err E_RUNTIME.
  Proof. intros x y H; simpl. rewrite H. reflexivity. Qed.

  Lemma compare_containers_is_error : forall op a b, (op = OEq \/ op = ONeq) -> uncomparable a b = true ->
    eval_call parse true (CBin op a b) = Err E_RUNTIME.
  Proof. intros op a b [H|H] U; subst; simpl; unfold eq_op; rewrite U; reflexivity. Qed.

  Lemma in_container_is_error : forall a b l, uncomparable a b = true ->
    eval_call parse true (CBin OIn a (VList (b :: l))) = Err E_RUNTIME.
  Proof. intros a b l U; simpl. rewrite U. reflexivity. Qed.

  Lemma hash_container_is_error : forall k v es, hashable k = false ->
    eval_call parse true (CMapLit (EKvp k v :: es)) = Err E_RUNTIME \/
    eval_call parse true (CMapLit (EKvp k v :: es)) = Err E_INVCONS.
  Proof.
    intros k v es H; simpl; unfold map_lit; simpl.
    destruct (forallb is_kvp es); simpl; [left; rewrite H; reflexivity | right; reflexivity].
  Qed.

  Lemma malformed_literal_is_error : forall es, forallb is_kvp es = false ->
    eval_call parse true (CMapLit es) = Err E_INVCONS.
  Proof. intros es H; simpl; unfold map_lit; simpl; rewrite H; reflexivity. Qed.

  Lemma index_out_of_range_is_error : forall l t i,
    (i < - zlen l \/ zlen l <= i) ->
    eval_call parse true (CGet (VList l) [mkF t (Some i)]) = Err E_PLAIN.
  Proof.
    intros l t i H; simpl; unfold get_kind; simpl; unfold list_at; simpl.
    destruct (i <? 0) eqn:N.
    - apply Z.ltb_lt in N.
      destruct (zlen l + i <? zlen l) eqn:B; [|reflexivity].
      destruct (0 <=? zlen l + i) eqn:P; [|reflexivity].
      apply Z.leb_le in P. lia.
    - apply Z.ltb_ge in N.
      destruct (i <? zlen l) eqn:B; [|reflexivity].
      apply Z.ltb_lt in B. lia.
  Qed.

  Lemma del_out_of_range_is_error : forall l ix n, assert_num parse ix = Some n ->
    (trunc n < 0 \/ zlen l <= trunc n) ->
    eval_call parse true (CBuiltin BDel [VList l; ix]) = Err E_RUNTIME.
  Proof.
    intros l ix n A H; simpl. rewrite A.
    destruct ((0 <=? trunc n) && (trunc n <? zlen l)) eqn:B; [|reflexivity].
    apply andb_true_iff in B; destruct B as [B1 B2].
    apply Z.leb_le in B1; apply Z.ltb_lt in B2; lia.
  Qed.

  Lemma add_out_of_range_is_error : forall l v ix n, assert_num parse ix = Some n ->
    (trunc n < 0 \/ zlen l < trunc n) ->
    eval_call parse true (CBuiltin BAdd [VList l; v; ix]) = Err E_RUNTIME.
  Proof.
    intros l v ix n A H; simpl. rewrite A.
    destruct ((0 <=? trunc n) && (trunc n <=? zlen l)) eqn:B; [|reflexivity].
    apply andb_true_iff in B; destruct B as [B1 B2].
    apply Z.leb_le in B1; apply Z.leb_le in B2; lia.
  Qed.

  Lemma sink_attr_wrong_kind_is_error : forall a v rest, attr_ok a v = false ->
    eval_call parse true (CSink ((a, v) :: rest)) = Err E_INVCONS.
  Proof. intros a v rest H; simpl; unfold sink_decl; simpl. rewrite H. reflexivity. Qed.

  Lemma builtin_no_args_is_error : forall f, is_error (eval_call parse true (CBuiltin f [])).
  Proof. intros f; destruct f; simpl; eexists; reflexivity. Qed.
End WithParse.

(* ---------------------------------------------------------------- errors are catchable *)

Lemma catchable_any : forall e, catchable e.
Proof.
  intros e; unfold catchable, except_selects; simpl.
  rewrite String.eqb_refl. auto.
Qed.

Lemma under_try_survives : forall parse c, exists k, under_try KNull (eval_call parse true c) = Ok k.
Proof.
  intros parse c; pose proof (eval_call_good parse c) as H.
  destruct (eval_call parse true c); simpl in *; eauto; contradiction.
Qed.

Lemma invocation_local : forall {A} (pre post : list (outcome A)) (b b' : outcome A) i,
  i <> length pre ->
  nth_error (invocation_reports (pre ++ b :: post)) i = nth_error (invocation_reports (pre ++ b' :: post)) i.
Proof.
  intros A pre post b b' i Hi; unfold invocation_reports.
  rewrite !map_app; simpl.
  destruct (Nat.lt_ge_cases i (length pre)) as [L|G].
  - rewrite !nth_error_app1 by (rewrite map_length; exact L). reflexivity.
  - rewrite !nth_error_app2 by (rewrite map_length; exact G). rewrite map_length.
    destruct (i - length pre)%nat eqn:E; [lia|]. reflexivity.
Qed.

