(* Proofs/PoolProofs.v — lemmas for Props/C09.v *)
From Coq Require Import List ZArith Bool Arith Lia Permutation.
From Ecal Require Import Common.Sched Model.Pool Spec.PoolSpec.
Import ListNotations.
Open Scope nat_scope.

(* ---------------------------------------------------------------- association lists *)

Lemma cnt_update {A} (p : A -> bool) k v v' l :
  lookup k l = Some v -> cnt p (update k v' l) + b2n (p v) = cnt p l + b2n (p v').
Proof.
  induction l as [|[k0 v0] r IH]; simpl; [discriminate|].
  destruct (Nat.eqb k k0) eqn:E.
  - intros [= ->]. simpl. lia.
  - intros H. simpl. specialize (IH H). lia.
Qed.

Lemma cnt_remove {A} (p : A -> bool) k v l :
  lookup k l = Some v -> cnt p (remove_key k l) + b2n (p v) = cnt p l.
Proof.
  induction l as [|[k0 v0] r IH]; simpl; [discriminate|].
  destruct (Nat.eqb k k0) eqn:E.
  - intros [= ->]. lia.
  - intros H. simpl. specialize (IH H). lia.
Qed.

Lemma cnt_lookup {A} (p : A -> bool) k v l : lookup k l = Some v -> b2n (p v) <= cnt p l.
Proof.
  induction l as [|[k0 v0] r IH]; simpl; [discriminate|].
  destruct (Nat.eqb k k0) eqn:E.
  - intros [= ->]. lia.
  - intros H. specialize (IH H). lia.
Qed.

Lemma length_update {A} k (v : A) l : length (update k v l) = length l.
Proof.
  induction l as [|[k0 v0] r IH]; simpl; [reflexivity|].
  destruct (Nat.eqb k k0); simpl; congruence.
Qed.

Lemma length_remove {A} k (v : A) l : lookup k l = Some v -> length (remove_key k l) + 1 = length l.
Proof.
  induction l as [|[k0 v0] r IH]; simpl; [discriminate|].
  destruct (Nat.eqb k k0); simpl; [lia|]. intros H; specialize (IH H); lia.
Qed.

Lemma keys_update {A} k (v : A) l : map fst (update k v l) = map fst l.
Proof.
  induction l as [|[k0 v0] r IH]; simpl; [reflexivity|].
  destruct (Nat.eqb k k0); simpl; congruence.
Qed.

Lemma lookup_none_keys {A} k (l : list (nat * A)) : lookup k l = None -> ~ In k (map fst l).
Proof.
  induction l as [|[k0 v0] r IH]; simpl; [tauto|].
  destruct (Nat.eqb k k0) eqn:E; [discriminate|].
  apply Nat.eqb_neq in E. intros H [H1|H1]; [congruence | exact (IH H H1)].
Qed.

Lemma keys_remove_incl {A} k (l : list (nat * A)) x : In x (map fst (remove_key k l)) -> In x (map fst l).
Proof.
  induction l as [|[k0 v0] r IH]; simpl; [tauto|].
  destruct (Nat.eqb k k0); simpl; tauto.
Qed.

Lemma nodup_remove {A} k (l : list (nat * A)) : NoDup (map fst l) -> NoDup (map fst (remove_key k l)).
Proof.
  induction l as [|[k0 v0] r IH]; simpl; [trivial|].
  intros H; inversion H; subst.
  destruct (Nat.eqb k k0); simpl; [assumption|].
  constructor; [|auto]. intros Hin; apply keys_remove_incl in Hin; contradiction.
Qed.

Lemma in_lookup {A} k (v : A) l : NoDup (map fst l) -> In (k, v) l -> lookup k l = Some v.
Proof.
  induction l as [|[k0 v0] r IH]; simpl; [tauto|].
  intros H; inversion H; subst. intros [E|Hin].
  - inversion E; subst. rewrite Nat.eqb_refl. reflexivity.
  - destruct (Nat.eqb k k0) eqn:E; [|auto].
    apply Nat.eqb_eq in E; subst. exfalso. apply H2. change k0 with (fst (k0, v)). apply in_map; assumption.
Qed.

Lemma lookup_in {A} k (v : A) l : lookup k l = Some v -> In (k, v) l.
Proof.
  induction l as [|[k0 v0] r IH]; simpl; [discriminate|].
  destruct (Nat.eqb k k0) eqn:E; [|auto].
  apply Nat.eqb_eq in E; subst. intros [= ->]. auto.
Qed.

Lemma cnt_pos_in {A} (p : A -> bool) l : cnt p l > 0 -> exists k v, In (k, v) l /\ p v = true.
Proof.
  induction l as [|[k0 v0] r IH]; simpl; [lia|].
  destruct (p v0) eqn:E; simpl.
  - intros _. exists k0, v0. auto.
  - intros H. destruct (IH H) as (k & v & Hin & Hp). exists k, v. auto.
Qed.

Lemma in_cnt_pos {A} (p : A -> bool) l k v : In (k, v) l -> p v = true -> cnt p l > 0.
Proof.
  induction l as [|[k0 v0] r IH]; simpl; [tauto|].
  intros [E|Hin] Hp.
  - inversion E; subst. rewrite Hp. simpl. lia.
  - specialize (IH Hin Hp). lia.
Qed.

Lemma cnt_le_length {A} (p : A -> bool) l : cnt p l <= length l.
Proof. induction l as [|[k0 v0] r IH]; simpl; [lia|]. destruct (p v0); simpl; lia. Qed.

Lemma cnt_disjoint {A} (p q : A -> bool) l :
  (forall v, p v = true -> q v = true -> False) -> cnt p l + cnt q l <= length l.
Proof.
  intros D. induction l as [|[k0 v0] r IH]; simpl; [lia|].
  specialize (D v0). destruct (p v0), (q v0); simpl; try lia; exfalso; auto.
Qed.

Lemma cnt_all {A} (p : A -> bool) l : cnt p l = length l -> forall k v, In (k, v) l -> p v = true.
Proof.
  induction l as [|[k0 v0] r IH]; simpl; [tauto|].
  pose proof (cnt_le_length p r). destruct (p v0) eqn:E; simpl; intros H1 k v Hin; try lia.
  destruct Hin as [Hin|Hin].
  - inversion Hin; subst; assumption.
  - assert (H2 : cnt p r = length r) by lia. exact (IH H2 k v Hin).
Qed.

(* ---------------------------------------------------------------- running tasks *)

Definition rt (p : wpc) : list task := match p with Running t => [t] | _ => [] end.

Lemma running_update w p p' ws :
  lookup w ws = Some p -> Permutation (running (update w p' ws) ++ rt p) (running ws ++ rt p').
Proof.
  unfold running.
  induction ws as [|[k0 v0] r IH]; simpl; [discriminate|].
  destruct (Nat.eqb w k0) eqn:E.
  - intros [= ->]. simpl. fold (rt p). fold (rt p').
    set (R := flat_map (fun x : wid * wpc => match snd x with Running t => [t] | _ => [] end) r).
    rewrite <- !app_assoc.
    apply Permutation_trans with (rt p' ++ rt p ++ R).
    { apply Permutation_app_head. apply Permutation_app_comm. }
    apply Permutation_trans with (rt p ++ rt p' ++ R).
    { rewrite !app_assoc. apply Permutation_app_tail. apply Permutation_app_comm. }
    apply Permutation_app_head. apply Permutation_app_comm.
  - intros H. simpl. fold (rt v0). rewrite <- !app_assoc. apply Permutation_app_head. apply IH; assumption.
Qed.

Lemma running_update_norun w p p' ws :
  lookup w ws = Some p -> rt p = [] -> rt p' = [] -> running (update w p' ws) = running ws.
Proof.
  unfold running.
  induction ws as [|[k0 v0] r IH]; simpl; [discriminate|].
  destruct (Nat.eqb w k0) eqn:E.
  - intros [= ->] H1 H2. simpl. fold (rt p). fold (rt p'). rewrite H1, H2. reflexivity.
  - intros H H1 H2. simpl. f_equal. apply IH; assumption.
Qed.

Lemma running_remove w p ws :
  lookup w ws = Some p -> rt p = [] -> running (remove_key w ws) = running ws.
Proof.
  unfold running.
  induction ws as [|[k0 v0] r IH]; simpl; [discriminate|].
  destruct (Nat.eqb w k0) eqn:E.
  - intros [= ->] H1. fold (rt p). rewrite H1. reflexivity.
  - intros H H1. simpl. f_equal. apply IH; assumption.
Qed.

Lemma running_nil_cnt ws : running ws = [] <-> cnt isRun ws = 0.
Proof.
  unfold running. induction ws as [|[k0 v0] r IH]; simpl; [tauto|].
  destruct v0; simpl; try exact IH. split; [discriminate | lia].
Qed.

Lemma mem_in t q : mem t q = true -> In t q.
Proof.
  induction q as [|x r IH]; simpl; [discriminate|].
  destruct (Nat.eqb t x) eqn:E; [apply Nat.eqb_eq in E; auto | auto].
Qed.

Lemma remove_first_perm t q : mem t q = true -> Permutation q (t :: remove_first t q).
Proof.
  induction q as [|x r IH]; simpl; [discriminate|].
  destruct (Nat.eqb t x) eqn:E.
  - apply Nat.eqb_eq in E; subst. intros _. apply Permutation_refl.
  - intros H. apply Permutation_trans with (x :: t :: remove_first t r).
    + constructor. auto.
    + apply perm_swap.
Qed.

(* ---------------------------------------------------------------- the numeric invariant *)

Definition hb (s : state) : nat := match holder s with Some _ => 1 | None => 0 end.

(* I0  a wake-up token belongs to a worker inside Wait
   LI  newTaskCond.L is held by exactly the threads that are in an L region (at most one)
   I1  a queued task is never left with sleepers only: some worker will look again, or a
       wake-up / Signal / Broadcast is under way, or nobody sleeps
   I2  after workerKill was set and its Broadcast was sent, nobody is past the kill
       re-check on the way to Wait and every sleeper has a wake-up *)
Record NInv (s : state) : Prop := {
  I0 : tokens s <= cnt isW (workers s);
  LI : cnt isDW (workers s) + cnt isKR (workers s) + cnt isLo (workers s)
       + cnt isAL (adders s) + cnt isEL (envs s) = hb s;
  I1 : length (queue s) > 0 ->
       cnt isGood (workers s) > 0 \/ tokens s > 0 \/ cnt isAp (adders s) > 0 \/ cnt isEp (envs s) > 0
       \/ (cnt isDW (workers s) = 0 /\ cnt isW (workers s) = 0);
  I2 : kill s <> 0%Z -> cnt isEp (envs s) = 0 ->
       cnt isKR (workers s) = 0 /\ cnt isDW (workers s) = 0 /\ cnt isW (workers s) <= tokens s
}.

Lemma ninv_init : NInv init.
Proof. constructor; cbn; intros; try lia. Qed.

Ltac wfacts H p' :=
  pose proof (cnt_update isW _ _ p' _ H);
  pose proof (cnt_update isDW _ _ p' _ H);
  pose proof (cnt_update isKR _ _ p' _ H);
  pose proof (cnt_update isLo _ _ p' _ H);
  pose proof (cnt_update isGood _ _ p' _ H);
  pose proof (cnt_lookup isW _ _ _ H);
  pose proof (cnt_lookup isDW _ _ _ H);
  pose proof (cnt_lookup isKR _ _ _ H);
  pose proof (cnt_lookup isLo _ _ _ H);
  pose proof (cnt_lookup isGood _ _ _ H).

Ltac afacts H p' :=
  pose proof (cnt_update isAp _ _ p' _ H);
  pose proof (cnt_update isAL _ _ p' _ H);
  pose proof (cnt_lookup isAp _ _ _ H);
  pose proof (cnt_lookup isAL _ _ _ H).

Ltac efacts H p' :=
  pose proof (cnt_update isEp _ _ p' _ H);
  pose proof (cnt_update isEL _ _ p' _ H);
  pose proof (cnt_lookup isEp _ _ _ H);
  pose proof (cnt_lookup isEL _ _ _ H).

Ltac rfacts_w H :=
  pose proof (cnt_remove isW _ _ _ H);
  pose proof (cnt_remove isDW _ _ _ H);
  pose proof (cnt_remove isKR _ _ _ H);
  pose proof (cnt_remove isLo _ _ _ H);
  pose proof (cnt_remove isGood _ _ _ H).

Ltac brk :=
  repeat match goal with
  | H : context [match ?x with _ => _ end] |- _ =>
      match type of H with
      | _ = Some _ => let E := fresh "E" in destruct x eqn:E; try discriminate H
      end
  end.

Ltac fin := constructor; unfold hb in *; simpl in *; try rewrite app_length in *; simpl in *; lia.

Lemma free_hb s : free s = true -> hb s = 0.
Proof. unfold free, hb. destruct (holder s); [discriminate | reflexivity]. Qed.

Lemma ninv_step s l s' : NInv s -> step s l = Some s' -> NInv s'.
Proof.
  intros [H0 HL H1 H2] Hs.
  assert (Hb : hb s <= 1) by (unfold hb; destruct (holder s); lia).
  destruct l; simpl in Hs; brk; inversion Hs; subst; clear Hs;
    repeat match goal with
    | H : free _ = true |- _ => apply free_hb in H
    | H : Z.eqb _ _ = true |- _ => apply Z.eqb_eq in H
    | H : Z.eqb _ _ = false |- _ => apply Z.eqb_neq in H
    | H : Z.ltb _ _ = true |- _ => apply Z.ltb_lt in H
    | H : Z.ltb _ _ = false |- _ => apply Z.ltb_ge in H
    | H : Nat.eqb _ _ = true |- _ => apply Nat.eqb_eq in H
    | H : Nat.eqb _ _ = false |- _ => apply Nat.eqb_neq in H
    end.
  all: try match goal with H : queue _ = [] |- _ => rewrite H in * end.
  all: constructor; unfold hb, set_w, set_a, set_e in *; simpl in *.
  all: try match goal with
    | H : lookup ?w (workers ?s) = Some _ |- context [update ?w ?p' (workers ?s)] => wfacts H p'
    | H : lookup ?w (workers ?s) = Some _ |- context [remove_key ?w (workers ?s)] => rfacts_w H
    end.
  all: try match goal with
    | H : lookup ?w (adders ?s) = Some _ |- context [update ?w ?p' (adders ?s)] => afacts H p'
    | H : lookup ?w (adders ?s) = Some _ |- context [remove_key ?w (adders ?s)] =>
        pose proof (cnt_remove isAp _ _ _ H); pose proof (cnt_remove isAL _ _ _ H)
    end.
  all: try match goal with
    | H : lookup ?w (envs ?s) = Some _ |- context [update ?w ?p' (envs ?s)] => efacts H p'
    | H : lookup ?w (envs ?s) = Some _ |- context [remove_key ?w (envs ?s)] =>
        pose proof (cnt_remove isEp _ _ _ H); pose proof (cnt_remove isEL _ _ _ H)
    end.
  all: simpl in *; try rewrite app_length in *; simpl in *.
  all: try match goal with H : queue _ = [] |- _ => rewrite H in *; simpl in * end.
  all: try match goal with H : Nat.ltb _ _ = true |- _ => apply Nat.ltb_lt in H end.
  all: try match goal with H : Nat.ltb _ _ = false |- _ => apply Nat.ltb_ge in H end.
  all: try match goal with H : lookup _ (envs _) = Some (EHoldL ?b) |- _ => destruct b; simpl in * end.
  all: lia.
Qed.

(* ---------------------------------------------------------------- thread ids are unique *)

Record KInv (s : state) : Prop := {
  KW : NoDup (map fst (workers s));
  KA : NoDup (map fst (adders s));
  KE : NoDup (map fst (envs s))
}.

Lemma kinv_init : KInv init.
Proof. constructor; simpl; constructor. Qed.

Lemma kinv_step s l s' : KInv s -> step s l = Some s' -> KInv s'.
Proof.
  intros [HW HA HE] Hs.
  destruct l; simpl in Hs; brk; inversion Hs; subst; clear Hs.
  all: constructor; unfold set_w, set_a, set_e; simpl; rewrite ?keys_update; auto using nodup_remove.
  all: constructor; auto using lookup_none_keys.
Qed.

(* ---------------------------------------------------------------- every task accounted for *)

Lemma perm_init : accounted init.
Proof. unfold accounted; simpl. constructor. Qed.

Lemma accounted_step s l s' : accounted s -> step s l = Some s' -> accounted s'.
Proof.
  unfold accounted. intros HP Hs.
  destruct l; simpl in Hs; brk; inversion Hs; subst; clear Hs; unfold set_w, set_a, set_e; simpl;
    try exact HP;
    try (erewrite running_update_norun; [exact HP | eassumption | reflexivity | reflexivity]).
  - (* LPush *)
    rewrite <- app_assoc. simpl.
    apply Permutation_trans with (t :: queue s ++ running (workers s) ++ done s).
    + apply Permutation_sym. apply Permutation_middle.
    + constructor. exact HP.
  - (* LPop Some *)
    match goal with H : mem _ _ = true |- _ => rename H into HM end.
    pose proof (running_update w _ (Running t) _ E) as HR. simpl in HR. rewrite app_nil_r in HR.
    pose proof (remove_first_perm t (queue s) HM) as HQ.
    eapply Permutation_trans; [|exact HP].
    apply Permutation_trans with ((t :: remove_first t (queue s)) ++ running (workers s) ++ done s).
    2:{ apply Permutation_app_tail. apply Permutation_sym. exact HQ. }
    simpl. apply Permutation_trans with (remove_first t (queue s) ++ (running (workers s) ++ [t]) ++ done s).
    { apply Permutation_app_head. apply Permutation_app_tail. exact HR. }
    rewrite <- app_assoc. simpl.
    apply Permutation_sym.
    apply Permutation_trans with (remove_first t (queue s) ++ t :: running (workers s) ++ done s).
    { apply Permutation_middle. }
    apply Permutation_app_head. apply Permutation_middle.
  - (* LPop None, noidle *)
    match goal with H : queue s = [] |- _ => rewrite H end.
    erewrite running_update_norun; [exact HP | eassumption | reflexivity | reflexivity].
  - match goal with H : queue s = [] |- _ => rewrite H end.
    erewrite running_update_norun; [exact HP | eassumption | reflexivity | reflexivity].
  - (* LDone *)
    match goal with H : Nat.eqb _ _ = true |- _ => apply Nat.eqb_eq in H; subst t0 end.
    pose proof (running_update w _ Head _ E) as HR. simpl in HR. rewrite app_nil_r in HR.
    eapply Permutation_trans; [|exact HP].
    apply Permutation_app_head.
    apply Permutation_trans with ((running (update w Head (workers s)) ++ [t]) ++ done s).
    { rewrite <- app_assoc. simpl. apply Permutation_refl. }
    apply Permutation_app_tail. exact HR.
  - (* LExit *)
    erewrite running_remove; [exact HP | eassumption | reflexivity].
Qed.

(* ---------------------------------------------------------------- lifted over all schedules *)

Definition Reach (s : state) : Prop := reachable step init s.

Lemma reach_ninv s : Reach s -> NInv s.
Proof. apply inv_reachable; [exact ninv_init | exact ninv_step]. Qed.

Lemma reach_kinv s : Reach s -> KInv s.
Proof. apply inv_reachable; [exact kinv_init | exact kinv_step]. Qed.

Lemma reach_accounted s : Reach s -> accounted s.
Proof. apply inv_reachable; [exact perm_init | exact accounted_step]. Qed.

Lemma reach_no_duplicates s : Reach s -> no_duplicates s.
Proof.
  intros R ND. pose proof (reach_accounted s R) as HP. unfold accounted in HP.
  eapply Permutation_NoDup; [apply Permutation_sym; exact HP | exact ND].
Qed.

Lemma reach_no_lost_wakeup s : Reach s -> ~ lost_wakeup s.
Proof.
  intros R (Hq & Hb & Hg & Ht & Ha & He).
  destruct (reach_ninv s R) as [H0 HL H1 H2].
  assert (length (queue s) > 0) by (destruct (queue s); [congruence | simpl; lia]).
  specialize (H1 H). lia.
Qed.

(* ---------------------------------------------------------------- something can always move *)

Lemma all_waiting_dec (ws : list (wid * wpc)) :
  (forall k v, In (k, v) ws -> v = Waiting) \/ (exists k v, In (k, v) ws /\ v <> Waiting).
Proof.
  induction ws as [|[k0 v0] r IH]; [left; simpl; tauto|].
  destruct IH as [IH|(k & v & Hin & Hv)].
  - assert (D : v0 = Waiting \/ v0 <> Waiting) by (destruct v0; (left; reflexivity) || (right; discriminate)).
    destruct D as [->|D].
    + left. intros k v [E|Hin]; [inversion E; reflexivity | eauto].
    + right. exists k0, v0. simpl; auto.
  - right. exists k, v. simpl; auto.
Qed.

Lemma all_waiting_cnt (ws : list (wid * wpc)) :
  (forall k v, In (k, v) ws -> v = Waiting) ->
  cnt isW ws = length ws /\ cnt isGood ws = 0 /\ cnt isDW ws = 0 /\ running ws = [].
Proof.
  induction ws as [|[k0 v0] r IH]; simpl; [auto|].
  intros H. assert (v0 = Waiting) by (eapply H; left; reflexivity). subst v0.
  destruct IH as (A & B & C & D); [intros; eapply H; right; eauto|].
  unfold running in *. simpl. rewrite A, B, C, D. auto.
Qed.

Lemma head_lookup {A} k (v : A) r : lookup k ((k, v) :: r) = Some v.
Proof. simpl. rewrite Nat.eqb_refl. reflexivity. Qed.

Lemma worker_step_enabled s w p :
  lookup w (workers s) = Some p -> free s = true -> (p = Waiting -> tokens s > 0) ->
  exists l, internal s l = true /\ step s l <> None.
Proof.
  intros E F T. destruct p.
  - exists (LKillCheck w (kill s)). split; [reflexivity|]. simpl. rewrite E, Z.eqb_refl.
    destruct (Z.ltb 0 (kill s)); discriminate.
  - destruct (queue s) as [|t q] eqn:Q.
    + exists (LPop w None). split; [reflexivity|]. simpl. rewrite E, Q. discriminate.
    + exists (LPop w (Some t)). split; [reflexivity|]. simpl. rewrite E, Q. simpl. rewrite Nat.eqb_refl. discriminate.
  - exists (LIdleReg w). split; [reflexivity|]. simpl. rewrite E. discriminate.
  - exists (LWLock w). split; [reflexivity|]. simpl. rewrite F, E. discriminate.
  - exists (LKillRead w (kill s)). split; [reflexivity|]. simpl. rewrite E, Z.eqb_refl. discriminate.
  - exists (LSizeRead w (length (queue s))). split; [reflexivity|]. simpl. rewrite E, Nat.eqb_refl. discriminate.
  - exists (LWait w). split; [reflexivity|]. simpl. rewrite E. discriminate.
  - exists (LWake w). split; [reflexivity|]. simpl. rewrite E. specialize (T eq_refl).
    destruct (tokens s); [lia | discriminate].
  - exists (LRelock w). split; [reflexivity|]. simpl. rewrite F, E. discriminate.
  - exists (LWUnlock w). split; [reflexivity|]. simpl. rewrite E. discriminate.
  - exists (LIdleDereg w). split; [reflexivity|]. simpl. rewrite E. discriminate.
  - exists (LDone w t). split; [reflexivity|]. simpl. rewrite E, Nat.eqb_refl. discriminate.
  - exists (LExit w). split; [reflexivity|]. simpl. rewrite E. discriminate.
Qed.

(* the owner of newTaskCond.L never blocks: its next region is enabled *)
Lemma holder_step_enabled s :
  KInv s -> NInv s -> free s = false -> exists l, internal s l = true /\ step s l <> None.
Proof.
  intros [KW KA KE] [H0 HL H1 H2] F.
  assert (hb s = 1) by (unfold hb, free in *; destruct (holder s); [reflexivity | discriminate]).
  assert (C : cnt isDW (workers s) > 0 \/ cnt isKR (workers s) > 0 \/ cnt isLo (workers s) > 0
              \/ cnt isAL (adders s) > 0 \/ cnt isEL (envs s) > 0) by lia.
  destruct C as [C|[C|[C|[C|C]]]]; apply cnt_pos_in in C; destruct C as (k & v & Hin & Hp).
  - apply in_lookup in Hin; [|assumption]. destruct v; try discriminate.
    exists (LWait k). split; [reflexivity|]. simpl. rewrite Hin. discriminate.
  - apply in_lookup in Hin; [|assumption]. destruct v; try discriminate.
    exists (LSizeRead k (length (queue s))). split; [reflexivity|]. simpl. rewrite Hin, Nat.eqb_refl. discriminate.
  - apply in_lookup in Hin; [|assumption]. destruct v; try discriminate.
    + exists (LKillRead k (kill s)). split; [reflexivity|]. simpl. rewrite Hin, Z.eqb_refl. discriminate.
    + exists (LWUnlock k). split; [reflexivity|]. simpl. rewrite Hin. discriminate.
  - apply in_lookup in Hin; [|assumption]. destruct v; try discriminate.
    + exists (LSignal k). split; [reflexivity|]. simpl. rewrite Hin. discriminate.
    + exists (LAUnlock k). split; [reflexivity|]. simpl. rewrite Hin. discriminate.
  - apply in_lookup in Hin; [|assumption]. destruct v; try discriminate.
    + exists (LEBcast k). split; [reflexivity|]. simpl. rewrite Hin. discriminate.
    + exists (LEUnlock k). split; [reflexivity|]. simpl. rewrite Hin. discriminate.
Qed.

Lemma some_step_enabled s :
  Reach s -> workers s <> [] -> unfinished s ->
  exists l, internal s l = true /\ step s l <> None.
Proof.
  intros R HW HU.
  pose proof (reach_kinv s R) as K. pose proof (reach_ninv s R) as N.
  destruct (free s) eqn:F; [|apply holder_step_enabled; assumption].
  destruct K as [KW KA KE]. destruct N as [H0 HL H1 H2].
  assert (Hh : hb s = 0) by (apply free_hb; assumption).
  destruct (adders s) as [|[a p] ar] eqn:EA.
  2:{ exists (LALock a). split; [reflexivity|]. simpl. rewrite F, EA. rewrite head_lookup.
      destruct p; [discriminate | simpl in HL; lia | simpl in HL; lia]. }
  destruct (envs s) as [|[e p] er] eqn:EE.
  2:{ exists (LELock e). split; [simpl; rewrite EE, head_lookup; reflexivity|].
      simpl. rewrite F, EE. rewrite head_lookup.
      destruct p; [discriminate | simpl in HL; lia | simpl in HL; lia]. }
  destruct (all_waiting_dec (workers s)) as [AW|(k & v & Hin & Hv)].
  - destruct (tokens s) eqn:T.
    + exfalso. destruct (all_waiting_cnt _ AW) as (A & B & C & D).
      assert (length (workers s) > 0) by (destruct (workers s); [congruence | simpl; lia]).
      simpl in *. destruct HU as [HU|[HU|HU]].
      * assert (length (queue s) > 0) by (destruct (queue s); [congruence | simpl; lia]).
        specialize (H1 H3). lia.
      * congruence.
      * specialize (H2 HU eq_refl). lia.
    + destruct (workers s) as [|[w p] wr] eqn:EW; [congruence|].
      apply (worker_step_enabled s w p); [rewrite EW; apply head_lookup | assumption | lia].
  - apply (worker_step_enabled s k v); [apply in_lookup; assumption | assumption | congruence].
Qed.

(* ---------------------------------------------------------------- WaitAll / JoinAll exits *)

Lemma idle_run_disjoint v : isIdle v = true -> isRun v = true -> False.
Proof. destruct v; simpl; discriminate. Qed.

Lemma waitall_exit_sound s :
  waitall_exit s -> running (workers s) = [] /\ (length (workers s) > 0 -> queue s = []).
Proof.
  intros [H|[H1 H2]].
  - destruct (workers s); [|discriminate]. split; [reflexivity | simpl; lia].
  - split.
    + apply running_nil_cnt. pose proof (cnt_disjoint isIdle isRun (workers s) idle_run_disjoint). unfold wid in *. lia.
    + intros _. destruct (queue s); [reflexivity | discriminate].
Qed.

Lemma joinall_exit_sound s :
  Reach s -> joinall_exit s -> workers s = [] /\ queue s = [] /\ all_added_were_run s.
Proof.
  intros R [H1 H2]. pose proof (reach_accounted s R) as HP. unfold accounted, all_added_were_run in *.
  destruct (workers s); [|discriminate]. destruct (queue s); [|discriminate]. simpl in HP. auto.
Qed.

Lemma waitall_exit_all_done s :
  Reach s -> waitall_exit s -> length (workers s) > 0 -> all_added_were_run s.
Proof.
  intros R W L. destruct (waitall_exit_sound s W) as [A B]. specialize (B L).
  pose proof (reach_accounted s R) as HP. unfold accounted, all_added_were_run in *.
  rewrite A, B in HP. exact HP.
Qed.

(* ---------------------------------------------------------------- the protocol before the repair *)

Definition old_witness : list olabel := [OPop 0; OPush 7; OSignal; OWait 0].

Lemma old_protocol_stuck :
  exists sched s, run ostep (oinit 1) sched = Some s /\ ostuck s = true.
Proof. exists old_witness. eexists. split; vm_compute; reflexivity. Qed.

(* in such a state no worker step and no pending Signal exists: only a new call can help *)
Lemma ostuck_no_progress s l :
  NoDup (map fst (oworkers s)) -> ostuck s = true ->
  match l with OPush _ => True | _ => ostep s l = None end.
Proof.
  unfold ostuck. intros ND H.
  repeat (apply andb_prop in H; destruct H as [H ?]).
  apply Nat.eqb_eq in H0, H1, H2.
  assert (AW : forall k v, lookup k (oworkers s) = Some v -> v = OWaiting).
  { intros k v Hl. apply lookup_in in Hl. pose proof (cnt_all oisW _ H2 k v Hl). destruct v; try discriminate. reflexivity. }
  destruct l; simpl; trivial.
  - destruct (lookup w (oworkers s)) eqn:E; [|reflexivity]. apply AW in E. subst. reflexivity.
  - destruct (lookup w (oworkers s)) eqn:E; [|reflexivity]. apply AW in E. subst. reflexivity.
  - destruct (lookup w (oworkers s)) eqn:E; [|reflexivity]. apply AW in E. subst. rewrite H1. reflexivity.
  - destruct (lookup w (oworkers s)) eqn:E; [|reflexivity]. apply AW in E. subst. reflexivity.
  - rewrite H0. reflexivity.
Qed.

(* ---------------------------------------------------------------- shrinking: what it converges to *)

Definition isLive (p : wpc) := negb (isEx p).
Definition balance (s : state) : Z := (Z.of_nat (cnt isLive (workers s)) - kill s)%Z.

Definition resize_label (l : label) : bool :=
  match l with LSetKill _ _ | LGrow _ | LSpawn _ _ => true | _ => false end.

Lemma cnt_live_ex ws : cnt isLive ws + cnt isEx ws = length ws.
Proof. induction ws as [|[k v] r IH]; simpl; [reflexivity|]. unfold isLive in *. destruct (isEx v); simpl in *; lia. Qed.

Definition isAKT (p : wpc) := match p with AfterKill true => true | _ => false end.
(* no worker is between having read workerKill = -1 (JoinAll) and its Pop *)
Definition nojoin (s : state) : Prop := (0 <= kill s)%Z /\ cnt isAKT (workers s) = 0.

Lemma balance_step s l s' :
  step s l = Some s' -> resize_label l = false -> nojoin s ->
  balance s' = balance s /\ nojoin s'.
Proof.
  intros Hs Hr [Hk Ha]. unfold balance, nojoin.
  destruct l; try discriminate Hr; simpl in Hs; brk; inversion Hs; subst; clear Hs;
    unfold set_w, set_a, set_e; simpl.
  all: repeat match goal with
    | H : Z.eqb _ _ = true |- _ => apply Z.eqb_eq in H
    | H : Z.eqb _ _ = false |- _ => apply Z.eqb_neq in H
    | H : Z.ltb _ _ = true |- _ => apply Z.ltb_lt in H
    | H : Z.ltb _ _ = false |- _ => apply Z.ltb_ge in H
    end.
  all: try match goal with
    | H : lookup ?w (workers ?s) = Some _ |- context [update ?w ?p' (workers ?s)] =>
        pose proof (cnt_update isLive _ _ p' _ H); pose proof (cnt_update isAKT _ _ p' _ H);
        pose proof (cnt_lookup isAKT _ _ _ H)
    | H : lookup ?w (workers ?s) = Some _ |- context [remove_key ?w (workers ?s)] =>
        pose proof (cnt_remove isLive _ _ _ H); pose proof (cnt_remove isAKT _ _ _ H)
    end.
  all: try match goal with |- context [Z.eqb ?k (-1)] =>
         let K := fresh "K" in destruct (Z.eqb k (-1)) eqn:K; [apply Z.eqb_eq in K | apply Z.eqb_neq in K] end.
  all: unfold isLive in *; simpl in *; lia.
Qed.

Fixpoint no_resize (sched : list label) : bool :=
  match sched with [] => true | l :: r => negb (resize_label l) && no_resize r end.

Lemma balance_run sched : forall s s',
  run step s sched = Some s' -> no_resize sched = true -> nojoin s ->
  balance s' = balance s /\ nojoin s'.
Proof.
  induction sched as [|l r IH]; simpl; intros s s' Hr Hn Hk.
  - inversion Hr; subst. auto.
  - destruct (step s l) as [s1|] eqn:E; [|discriminate].
    apply andb_prop in Hn. destruct Hn as [Hn1 Hn2]. apply negb_true_iff in Hn1.
    destruct (balance_step s l s1 E Hn1 Hk) as [B1 K1].
    destruct (IH s1 s' Hr Hn2 K1) as [B2 K2]. split; [congruence | assumption].
Qed.

(* SetWorkerCount(c, _) on a pool of n >= c workers none of which is on its way out:
   workerKill := n - c.  Whatever happens afterwards (no further resize): once the kill
   count is used up and the leaving workers are gone, exactly c workers are left. *)
Lemma shrink_target s0 e n c s sched s' :
  length (workers s0) = n -> cnt isEx (workers s0) = 0 -> cnt isAKT (workers s0) = 0 -> c <= n ->
  step s0 (LSetKill e (Z.of_nat n - Z.of_nat c)%Z) = Some s ->
  run step s sched = Some s' -> no_resize sched = true ->
  kill s' = 0%Z -> cnt isEx (workers s') = 0 ->
  length (workers s') = c.
Proof.
  intros Hn Hx Ha Hc Hs Hr Hnr Hk Hx'.
  simpl in Hs. destruct (lookup e (envs s0)); [discriminate|]. inversion Hs; subst s; clear Hs.
  destruct (balance_run sched _ s' Hr Hnr) as [B _]; [split; simpl; [lia | assumption]|].
  unfold balance in B. simpl in B.
  pose proof (cnt_live_ex (workers s0)). pose proof (cnt_live_ex (workers s')). unfold wid in *. lia.
Qed.
