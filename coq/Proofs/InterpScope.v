(* Proofs/InterpScope.v — C05 (lexical scoping) on the UNIFIED interpreter model Model/Interp.v:
   the scope layer (scope/varsscope.go as modelled by scope_for / lookup_simple / get_value /
   set_simple / set_value / set_local_nil) against a plain specification:

     scope_chain st s      the parent chain s = s0, s1, ..., sk (root) of scope s
     lookup_chain st x c   the binding of x in the FIRST scope of the list c that defines x
     set_var st t x v      the state in which variable x of scope t is v and NOTHING else differs

   Every statement is for ALL states whose scope arena is acyclic ([scopes_acyclic]: the parent of
   a scope has a smaller index; a consequence of the invariant st_ok of Proofs/InterpInv.v), all
   allocated scope indices, all names without a dot, all values, and every implementation NO of
   float64.  Part 1 (this file): lookup, assignment, let, write-then-read with the frame
   conditions.  Part 2 (InterpScope2.v): call frames, containers. *)
From Coq Require Import List String NArith ZArith Bool Arith Lia ZifyNat ZifyN ZifyBool.
From Ecal Require Import Common.Bytes Common.Ast gen.Tokens Spec.ParseSpec Model.Interp Proofs.InterpShape
  Proofs.InterpInv.
Import ListNotations.
Local Open Scope string_scope.
Local Open Scope list_scope.
Local Open Scope nat_scope.

Lemma list_upd_list_upd {A} (l : list A) i a b : list_upd (list_upd l i a) i b = list_upd l i b.
Proof. revert i. induction l as [|y r IH]; intros [|i]; cbn; auto. f_equal. apply IH. Qed.
Lemma list_upd_same {A} (l : list A) i a : nth_error l i = Some a -> list_upd l i a = l.
Proof.
  revert i. induction l as [|y r IH]; intros [|i]; cbn; auto; intros H.
  - injection H as ->. reflexivity.
  - f_equal. apply IH. exact H.
Qed.

Section Sc.
  Context {NO : NumOps}.

  (* ================================================================ vocabulary *)
  (* the variable table / the parent of scope i (nothing for an index outside the arena) *)
  Definition vars_of (st : state) (i : nat) : list (bytes * value) :=
    match nth_error (st_scopes st) i with Some sc => sc_vars sc | None => [] end.
  Definition parent_of (st : state) (i : nat) : option nat :=
    match nth_error (st_scopes st) i with Some sc => sc_parent sc | None => None end.
  (* the binding of name x in scope i itself (no parents) *)
  Definition binding (st : state) (i : nat) (x : bytes) : option value := v_get x (vars_of st i).
  (* what a scope is besides its variables *)
  Definition scope_shape (st : state) (i : nat) : option (list nat * option nat * list nat) :=
    option_map (fun sc => (sc_key sc, sc_parent sc, sc_children sc)) (nth_error (st_scopes st) i).

  (* the parent of a scope has a smaller index (part of st_ok) *)
  Definition scopes_acyclic (st : state) : Prop :=
    forall i p, parent_of st i = Some p -> p < i.

  Lemma st_ok_acyclic st : st_ok st -> scopes_acyclic st.
  Proof.
    intros (O1 & _) i p. unfold parent_of. destruct (nth_error (st_scopes st) i) as [sc|] eqn:E; [|discriminate].
    intros H. destruct (O1 _ _ E) as [Hp _]. rewrite H in Hp. exact Hp.
  Qed.

  (* the parent chain of s: s, parent s, parent (parent s), ..., the root.  Fuel: a chain from s
     has at most s + 1 members in an acyclic arena ([scope_chain_unfold] is the plain recursion). *)
  Fixpoint chain_from (d : nat) (st : state) (s : nat) : list nat :=
    match d with
    | O => []
    | S d' =>
      match nth_error (st_scopes st) s with
      | None => []
      | Some sc => s :: match sc_parent sc with Some p => chain_from d' st p | None => [] end
      end
    end.
  Definition scope_chain (st : state) (s : nat) : list nat := chain_from (S s) st s.

  (* the binding of x in the first scope of c that defines x, with that scope *)
  Fixpoint lookup_chain (st : state) (x : bytes) (c : list nat) : option (nat * value) :=
    match c with
    | [] => None
    | i :: r => match binding st i x with
                | Some v => Some (i, v)
                | None => lookup_chain st x r
                end
    end.

  (* a name without a dot *)
  Definition simple_name (x : bytes) : bool := forallb (fun c => negb (N.eqb c DOT)) x.

  (* scope t with variable x set to v; everything else as in st *)
  Definition with_vars (sc : scope) (vs : list (bytes * value)) : scope :=
    mkScope (sc_key sc) (sc_parent sc) (sc_children sc) vs.
  Definition set_var (st : state) (t : nat) (x : bytes) (v : value) : state :=
    match nth_error (st_scopes st) t with
    | Some sc => mkSt (list_upd (st_scopes st) t (with_vars sc (v_set x v (sc_vars sc))))
                      (st_arrs st) (st_maps st) (st_funs st) (st_is st)
    | None => st
    end.

  (* the scope an assignment to x from scope s writes: the nearest enclosing scope that defines x,
     else s itself *)
  Definition assign_target (st : state) (s : nat) (x : bytes) : nat :=
    match lookup_chain st x (scope_chain st s) with
    | Some (t, _) => t
    | None => s
    end.

  (* ================================================================ the monad and the arena primitives as equations *)
  Lemma bind_ok {A B} (m : M A) (f : A -> M B) st a st1 : m st = (ROk a, st1) -> bind m f st = f a st1.
  Proof. intros H. unfold bind. rewrite H. reflexivity. Qed.
  Lemma bind_err {A B} (m : M A) (f : A -> M B) st e st1 : m st = (RErr e, st1) -> bind m f st = (RErr e, st1).
  Proof. intros H. unfold bind. rewrite H. reflexivity. Qed.
  Lemma attempt_ok {A} (m : M A) st a st1 : m st = (ROk a, st1) -> attempt m st = (ROk (inl a), st1).
  Proof. intros H. unfold attempt. rewrite H. reflexivity. Qed.
  Lemma get_scope_eq st t sc : nth_error (st_scopes st) t = Some sc -> get_scope t st = (ROk sc, st).
  Proof. intros E. unfold get_scope, bind, get_st, of_opt. rewrite E. reflexivity. Qed.
  Lemma set_scope_eq st t sc :
    set_scope t sc st = (ROk tt, mkSt (list_upd (st_scopes st) t sc) (st_arrs st) (st_maps st) (st_funs st) (st_is st)).
  Proof. reflexivity. Qed.
  Lemma alloc_scope_eq st sc :
    alloc_scope sc st = (ROk (length (st_scopes st)),
                         mkSt (st_scopes st ++ [sc]) (st_arrs st) (st_maps st) (st_funs st) (st_is st)).
  Proof. reflexivity. Qed.
  Lemma alloc_is_eq st :
    alloc_is st = (ROk (length (st_is st)),
                   mkSt (st_scopes st) (st_arrs st) (st_maps st) (st_funs st) (st_is st ++ [[]])).
  Proof. reflexivity. Qed.
  Lemma get_map_eq st id m : nth_error (st_maps st) id = Some m -> get_map id st = (ROk m, st).
  Proof. intros E. unfold get_map, bind, get_st, of_opt. rewrite E. reflexivity. Qed.
  Lemma set_map_eq st id m :
    set_map id m st = (ROk tt, mkSt (st_scopes st) (st_arrs st) (list_upd (st_maps st) id m) (st_funs st) (st_is st)).
  Proof. reflexivity. Qed.
  Lemma get_arr_eq st a cells : nth_error (st_arrs st) a = Some cells -> get_arr a st = (ROk cells, st).
  Proof. intros E. unfold get_arr, bind, get_st, of_opt. rewrite E. reflexivity. Qed.
  Lemma set_arr_eq st a cells :
    set_arr a cells st = (ROk tt, mkSt (st_scopes st) (list_upd (st_arrs st) a cells) (st_maps st) (st_funs st) (st_is st)).
  Proof. reflexivity. Qed.
  Lemma get_fun_eq st id c : nth_error (st_funs st) id = Some c -> get_fun id st = (ROk c, st).
  Proof. intros E. unfold get_fun, bind, get_st, of_opt. rewrite E. reflexivity. Qed.

  (* ================================================================ v_get / v_set *)
  Lemma v_get_v_set x v y l :
    v_get y (v_set x v l) = if bytes_eqb x y then Some v else v_get y l.
  Proof.
    induction l as [|[k w] r IH]; cbn [v_set v_get].
    - destruct (bytes_eqb x y); reflexivity.
    - destruct (bytes_eqb_spec k x) as [->|N]; cbn [v_get].
      + destruct (bytes_eqb x y); reflexivity.
      + rewrite IH. destruct (bytes_eqb_spec k y) as [->|N2]; [|reflexivity].
        destruct (bytes_eqb_spec x y) as [->|N3]; [congruence|reflexivity].
  Qed.
  Lemma v_set_v_set x v w l : v_set x w (v_set x v l) = v_set x w l.
  Proof.
    induction l as [|[k u] r IH]; cbn [v_set].
    - rewrite bytes_eqb_refl. reflexivity.
    - destruct (bytes_eqb k x) eqn:E; cbn [v_set]; rewrite E; [reflexivity|]. f_equal. exact IH.
  Qed.

  (* ================================================================ the chain *)
  Lemma chain_from_fuel st : scopes_acyclic st ->
    forall d1 d2 s, s < d1 -> s < d2 -> chain_from d1 st s = chain_from d2 st s.
  Proof.
    intros Hac. induction d1 as [|d1 IH]; intros d2 s H1 H2; [lia|].
    destruct d2 as [|d2]; [lia|]. cbn [chain_from].
    destruct (nth_error (st_scopes st) s) as [sc|] eqn:E; [|reflexivity]. f_equal.
    destruct (sc_parent sc) as [p|] eqn:Ep; [|reflexivity].
    assert (p < s) by (apply Hac; unfold parent_of; rewrite E; exact Ep).
    apply IH; lia.
  Qed.

  Lemma chain_from_S d st s :
    chain_from (S d) st s =
    match nth_error (st_scopes st) s with
    | None => []
    | Some sc => s :: match sc_parent sc with Some p => chain_from d st p | None => [] end
    end.
  Proof. reflexivity. Qed.

  (* the plain recursive definition of the parent chain *)
  Lemma scope_chain_unfold st s : scopes_acyclic st -> s < length (st_scopes st) ->
    scope_chain st s = s :: match parent_of st s with Some p => scope_chain st p | None => [] end.
  Proof.
    intros Hac Hs. unfold scope_chain at 1. rewrite chain_from_S. unfold parent_of.
    destruct (nth_error (st_scopes st) s) as [sc|] eqn:E.
    - f_equal. destruct (sc_parent sc) as [p|] eqn:Ep; [|reflexivity].
      assert (p < s) by (apply Hac; unfold parent_of; rewrite E; exact Ep).
      unfold scope_chain. apply chain_from_fuel; [exact Hac|lia|lia].
    - apply nth_error_None in E. lia.
  Qed.
  Lemma scope_chain_outside st s : length (st_scopes st) <= s -> scope_chain st s = [].
  Proof.
    intros H. unfold scope_chain. cbn [chain_from].
    destruct (nth_error (st_scopes st) s) eqn:E; [|reflexivity].
    assert (s < length (st_scopes st)) by (apply nth_error_Some; congruence). lia.
  Qed.
  (* every member of the chain of s is s or a smaller, allocated index *)
  Lemma chain_from_bound st : scopes_acyclic st ->
    forall d s j, In j (chain_from d st s) -> j <= s /\ j < length (st_scopes st).
  Proof.
    intros Hac. induction d as [|d IH]; intros s j; cbn [chain_from]; [intros []|].
    destruct (nth_error (st_scopes st) s) as [sc|] eqn:E; [|intros []].
    assert (Ls : s < length (st_scopes st)) by (apply nth_error_Some; congruence).
    intros [<-|H]; [lia|].
    destruct (sc_parent sc) as [p|] eqn:Ep; [|destruct H].
    assert (p < s) by (apply Hac; unfold parent_of; rewrite E; exact Ep).
    destruct (IH _ _ H). lia.
  Qed.
  Lemma scope_chain_bound st s j : scopes_acyclic st -> In j (scope_chain st s) ->
    j <= s /\ j < length (st_scopes st).
  Proof. intros Hac. apply chain_from_bound. exact Hac. Qed.
  (* the chain ends in a root: its last member has no parent *)
  Lemma chain_from_last st : scopes_acyclic st ->
    forall d s dflt, s < d -> s < length (st_scopes st) -> parent_of st (last (chain_from d st s) dflt) = None.
  Proof.
    intros Hac. induction d as [|d IH]; intros s dflt Hd Hs; [lia|]. rewrite chain_from_S.
    destruct (nth_error (st_scopes st) s) as [sc|] eqn:E; [|apply nth_error_None in E; lia].
    destruct (sc_parent sc) as [p|] eqn:Ep.
    - assert (Hp : p < s) by (apply Hac; unfold parent_of; rewrite E; exact Ep).
      assert (IHp := IH p dflt ltac:(lia) ltac:(lia)).
      destruct (chain_from d st p) as [|a l] eqn:Ec.
      + destruct d as [|d']; [lia|]. rewrite chain_from_S in Ec.
        destruct (nth_error (st_scopes st) p) eqn:E2; [discriminate|apply nth_error_None in E2; lia].
      + exact IHp.
    - cbn [last]. unfold parent_of. rewrite E. exact Ep.
  Qed.
  Lemma scope_chain_last st s dflt : scopes_acyclic st -> s < length (st_scopes st) ->
    parent_of st (last (scope_chain st s) dflt) = None.
  Proof. intros Hac Hs. apply chain_from_last; [exact Hac|lia|exact Hs]. Qed.

  (* ================================================================ lookup_chain: "the first that defines x" *)
  Lemma lookup_chain_some st x c t v :
    lookup_chain st x c = Some (t, v) <->
    exists pre post, c = pre ++ t :: post /\ Forall (fun j => binding st j x = None) pre /\
                     binding st t x = Some v.
  Proof.
    revert t v. induction c as [|i r IH]; intros t v; cbn [lookup_chain].
    - split; [discriminate|]. intros (pre & post & E & _). destruct pre; discriminate.
    - destruct (binding st i x) as [w|] eqn:B.
      + split.
        * intros H. injection H as <- <-. exists [], r. repeat split; auto.
        * intros (pre & post & E & Hpre & Ht). destruct pre as [|j pre]; cbn in E; injection E as -> ->.
          -- rewrite B in Ht. injection Ht as ->. reflexivity.
          -- inversion Hpre as [|? ? Hj _]; subst. congruence.
      + rewrite IH. split.
        * intros (pre & post & -> & Hpre & Ht). exists (i :: pre), post. repeat split; auto.
        * intros (pre & post & E & Hpre & Ht). destruct pre as [|j pre]; cbn in E; injection E as -> ->.
          -- congruence.
          -- inversion Hpre; subst. exists pre, post. repeat split; auto.
  Qed.
  Lemma lookup_chain_none st x c :
    lookup_chain st x c = None <-> Forall (fun j => binding st j x = None) c.
  Proof.
    induction c as [|i r IH]; cbn [lookup_chain]; [split; auto|].
    destruct (binding st i x) as [w|] eqn:B.
    - split; [discriminate|]. intros H. inversion H; subst. congruence.
    - rewrite IH. split; [intros H; constructor; auto | intros H; inversion H; auto].
  Qed.
  Lemma lookup_chain_in st x c t v : lookup_chain st x c = Some (t, v) -> In t c /\ binding st t x = Some v.
  Proof.
    intros H. apply lookup_chain_some in H. destruct H as (pre & post & -> & _ & B).
    split; [apply in_or_app; right; left; reflexivity | exact B].
  Qed.

  (* ================================================================ 1. lookup *)
  (* getScopeForVariable walks exactly the chain *)
  Lemma scope_for_chain st x : scopes_acyclic st ->
    forall d s, s < d -> s < length (st_scopes st) ->
    scope_for d st s x = ROk (option_map fst (lookup_chain st x (scope_chain st s))).
  Proof.
    intros Hac. induction d as [|d IH]; intros s Hd Hs; [lia|].
    rewrite (scope_chain_unfold st s Hac Hs). cbn [scope_for lookup_chain].
    unfold binding at 1, vars_of at 1, parent_of.
    destruct (nth_error (st_scopes st) s) as [sc|] eqn:E; [|apply nth_error_None in E; lia].
    destruct (v_get x (sc_vars sc)) as [v|]; [reflexivity|].
    destruct (sc_parent sc) as [p|] eqn:Ep; [|reflexivity].
    assert (Hp : p < s) by (apply Hac; unfold parent_of; rewrite E; exact Ep).
    apply IH; lia.
  Qed.
  Lemma scope_for_m_eq st s x : scopes_acyclic st -> s < length (st_scopes st) ->
    scope_for_m s x st = (ROk (option_map fst (lookup_chain st x (scope_chain st s))), st).
  Proof.
    intros Hac Hs. unfold scope_for_m, bind, get_st, lift.
    rewrite (scope_for_chain st x Hac); [reflexivity|lia|exact Hs].
  Qed.

  Definition found_of (o : option (nat * value)) : value * bool :=
    match o with Some (_, v) => (v, true) | None => (VNull, false) end.
  Definition value_of (o : option (nat * value)) : value :=
    match o with Some (_, v) => v | None => VNull end.

  Lemma binding_some_scope st t x v : binding st t x = Some v ->
    exists sc, nth_error (st_scopes st) t = Some sc /\ v_get x (sc_vars sc) = Some v.
  Proof.
    unfold binding, vars_of. destruct (nth_error (st_scopes st) t) as [sc|]; [eauto|discriminate].
  Qed.

  Lemma lookup_simple_eq st s x : scopes_acyclic st -> s < length (st_scopes st) ->
    lookup_simple s x st = (ROk (found_of (lookup_chain st x (scope_chain st s))), st).
  Proof.
    intros Hac Hs. unfold lookup_simple. unfold bind at 1. rewrite (scope_for_m_eq st s x Hac Hs).
    destruct (lookup_chain st x (scope_chain st s)) as [[t v]|] eqn:E; cbn [option_map fst found_of].
    - apply lookup_chain_in in E. destruct E as [_ B].
      destruct (binding_some_scope _ _ _ _ B) as (sc & E1 & E2).
      rewrite (bind_ok _ _ _ _ _ (get_scope_eq _ _ _ E1)). unfold ret. rewrite E2. reflexivity.
    - reflexivity.
  Qed.

  Lemma split_dot_aux_simple s : simple_name s = true -> forall cur, split_dot_aux cur s = [rev cur ++ s].
  Proof.
    induction s as [|c r IH]; intros H cur; cbn [split_dot_aux].
    - rewrite app_nil_r. reflexivity.
    - cbn in H. apply andb_true_iff in H. destruct H as [H1 H2].
      destruct (N.eqb c DOT); [discriminate|]. rewrite (IH H2). cbn [rev]. rewrite <- app_assoc. reflexivity.
  Qed.
  Lemma split_dot_simple x : simple_name x = true -> split_dot x = [x].
  Proof. intros H. unfold split_dot. rewrite (split_dot_aux_simple x H). reflexivity. Qed.

  Lemma get_value_simple_eq st s x : scopes_acyclic st -> s < length (st_scopes st) -> simple_name x = true ->
    get_value s x st = (ROk (value_of (lookup_chain st x (scope_chain st s))), st).
  Proof.
    intros Hac Hs Hx. unfold get_value. rewrite (split_dot_simple x Hx).
    unfold bind. rewrite (lookup_simple_eq st s x Hac Hs).
    destruct (lookup_chain st x (scope_chain st s)) as [[t v]|]; reflexivity.
  Qed.

  (* ================================================================ set_var: what changes and what does not *)
  Lemma set_var_arrs st t x v : st_arrs (set_var st t x v) = st_arrs st.
  Proof. unfold set_var. destruct (nth_error (st_scopes st) t); reflexivity. Qed.
  Lemma set_var_maps st t x v : st_maps (set_var st t x v) = st_maps st.
  Proof. unfold set_var. destruct (nth_error (st_scopes st) t); reflexivity. Qed.
  Lemma set_var_funs st t x v : st_funs (set_var st t x v) = st_funs st.
  Proof. unfold set_var. destruct (nth_error (st_scopes st) t); reflexivity. Qed.
  Lemma set_var_is st t x v : st_is (set_var st t x v) = st_is st.
  Proof. unfold set_var. destruct (nth_error (st_scopes st) t); reflexivity. Qed.
  Lemma set_var_length st t x v : length (st_scopes (set_var st t x v)) = length (st_scopes st).
  Proof. unfold set_var. destruct (nth_error (st_scopes st) t); [cbn; apply length_list_upd|reflexivity]. Qed.

  Lemma set_var_nth_other st t x v j : j <> t ->
    nth_error (st_scopes (set_var st t x v)) j = nth_error (st_scopes st) j.
  Proof.
    intros N. unfold set_var. destruct (nth_error (st_scopes st) t); [cbn; apply nth_list_upd_other; exact N|reflexivity].
  Qed.
  Lemma set_var_nth_same st t x v sc : nth_error (st_scopes st) t = Some sc ->
    nth_error (st_scopes (set_var st t x v)) t = Some (with_vars sc (v_set x v (sc_vars sc))).
  Proof.
    intros E. unfold set_var. rewrite E. cbn. apply nth_list_upd_same. apply nth_error_Some. congruence.
  Qed.

  Lemma set_var_shape st t x v j : scope_shape (set_var st t x v) j = scope_shape st j.
  Proof.
    unfold scope_shape. destruct (Nat.eq_dec j t) as [->|N].
    - destruct (nth_error (st_scopes st) t) as [sc|] eqn:E.
      + rewrite (set_var_nth_same _ _ _ _ _ E). reflexivity.
      + unfold set_var. rewrite E. rewrite E. reflexivity.
    - rewrite set_var_nth_other by exact N. reflexivity.
  Qed.
  Lemma set_var_parent st t x v j : parent_of (set_var st t x v) j = parent_of st j.
  Proof.
    pose proof (set_var_shape st t x v j) as H. unfold scope_shape, parent_of in *.
    destruct (nth_error (st_scopes (set_var st t x v)) j), (nth_error (st_scopes st) j); cbn in H; congruence.
  Qed.
  Lemma set_var_acyclic st t x v : scopes_acyclic st -> scopes_acyclic (set_var st t x v).
  Proof. intros H i p. rewrite set_var_parent. apply H. Qed.

  (* THE frame condition: one equation for every (scope, name) pair *)
  Lemma binding_set_var st t x v j y : t < length (st_scopes st) ->
    binding (set_var st t x v) j y =
    if (Nat.eqb j t && bytes_eqb x y)%bool then Some v else binding st j y.
  Proof.
    intros Ht. unfold binding, vars_of. destruct (Nat.eqb_spec j t) as [->|N].
    - destruct (nth_error (st_scopes st) t) as [sc|] eqn:E; [|apply nth_error_None in E; lia].
      rewrite (set_var_nth_same _ _ _ _ _ E). cbn [with_vars sc_vars andb]. apply v_get_v_set.
    - rewrite set_var_nth_other by exact N. reflexivity.
  Qed.

  Lemma chain_from_set_var st t x v : forall d s, chain_from d (set_var st t x v) s = chain_from d st s.
  Proof.
    induction d as [|d IH]; intros s; cbn [chain_from]; [reflexivity|].
    pose proof (set_var_parent st t x v s) as P. unfold parent_of in P.
    pose proof (set_var_shape st t x v s) as Q. unfold scope_shape in Q.
    destruct (nth_error (st_scopes (set_var st t x v)) s) as [sc1|], (nth_error (st_scopes st) s) as [sc2|];
      cbn in Q; try discriminate; [|reflexivity].
    rewrite P. f_equal. destruct (sc_parent sc2); [apply IH|reflexivity].
  Qed.
  Lemma scope_chain_set_var st t x v s : scope_chain (set_var st t x v) s = scope_chain st s.
  Proof. apply chain_from_set_var. Qed.

  Lemma set_var_set_var st t x v w : set_var (set_var st t x v) t x w = set_var st t x w.
  Proof.
    destruct (nth_error (st_scopes st) t) as [sc|] eqn:E.
    - unfold set_var at 1. rewrite (set_var_nth_same _ _ _ _ _ E).
      unfold set_var. rewrite E. cbn. rewrite list_upd_list_upd. unfold with_vars. cbn.
      rewrite v_set_v_set. reflexivity.
    - unfold set_var. rewrite E. rewrite E. reflexivity.
  Qed.

  (* ================================================================ 2. assignment *)
  Lemma assign_target_alloc st s x : scopes_acyclic st -> s < length (st_scopes st) ->
    assign_target st s x < length (st_scopes st).
  Proof.
    intros Hac Hs. unfold assign_target.
    destruct (lookup_chain st x (scope_chain st s)) as [[t v]|] eqn:E; [|exact Hs].
    apply lookup_chain_in in E. destruct E as [I _]. apply (scope_chain_bound st s t Hac I).
  Qed.

  Lemma set_simple_eq st s x v : scopes_acyclic st -> s < length (st_scopes st) ->
    set_simple s x v st = (ROk tt, set_var st (assign_target st s x) x v).
  Proof.
    intros Hac Hs. unfold set_simple. unfold bind at 1. rewrite (scope_for_m_eq st s x Hac Hs).
    cbv zeta. pose proof (assign_target_alloc st s x Hac Hs) as Ht. unfold assign_target in *.
    set (t := match option_map fst (lookup_chain st x (scope_chain st s)) with Some t => t | None => s end).
    assert (Et : t = match lookup_chain st x (scope_chain st s) with Some (t, _) => t | None => s end).
    { unfold t. destruct (lookup_chain st x (scope_chain st s)) as [[? ?]|]; reflexivity. }
    rewrite <- Et in *. clearbody t.
    destruct (nth_error (st_scopes st) t) as [sc|] eqn:E; [|apply nth_error_None in E; lia].
    rewrite (bind_ok _ _ _ _ _ (get_scope_eq _ _ _ E)). rewrite set_scope_eq.
    unfold set_var. rewrite E. reflexivity.
  Qed.
  Lemma set_value_simple_eq st s x v : scopes_acyclic st -> s < length (st_scopes st) -> simple_name x = true ->
    set_value s x v st = (ROk tt, set_var st (assign_target st s x) x v).
  Proof.
    intros Hac Hs Hx. unfold set_value. rewrite (split_dot_simple x Hx). apply set_simple_eq; assumption.
  Qed.

  (* the target, said without assign_target *)
  Lemma assign_target_spec st s x : scopes_acyclic st -> s < length (st_scopes st) ->
    let t := assign_target st s x in
    (* some enclosing scope defines x: t is the nearest one *)
    ((exists j, In j (scope_chain st s) /\ binding st j x <> None) ->
     exists pre post, scope_chain st s = pre ++ t :: post /\
                      Forall (fun j => binding st j x = None) pre /\ binding st t x <> None) /\
    (* none does: t is the current scope *)
    ((forall j, In j (scope_chain st s) -> binding st j x = None) -> t = s).
  Proof.
    intros Hac Hs t. split.
    - intros (j & Hj & Bj). unfold t, assign_target.
      destruct (lookup_chain st x (scope_chain st s)) as [[t' v]|] eqn:E.
      + apply lookup_chain_some in E. destruct E as (pre & post & E1 & E2 & E3).
        exists pre, post. repeat split; auto. congruence.
      + apply lookup_chain_none in E. rewrite Forall_forall in E. elim Bj. auto.
    - intros H. unfold t, assign_target.
      destruct (lookup_chain st x (scope_chain st s)) as [[t' v]|] eqn:E; [|reflexivity].
      apply lookup_chain_in in E. destruct E as [I B]. rewrite (H _ I) in B. discriminate.
  Qed.

  (* a scope that defines x itself is the target of its own assignments *)
  Lemma assign_target_here st s x : scopes_acyclic st -> s < length (st_scopes st) ->
    binding st s x <> None -> assign_target st s x = s.
  Proof.
    intros Hac Hs B. unfold assign_target. rewrite (scope_chain_unfold st s Hac Hs). cbn [lookup_chain].
    destruct (binding st s x); [reflexivity|congruence].
  Qed.

  (* ================================================================ 3. let *)
  Lemma set_local_nil_eq st s x : scopes_acyclic st -> s < length (st_scopes st) -> simple_name x = true ->
    set_local_nil s x st = (ROk tt, set_var st s x VNull).
  Proof.
    intros Hac Hs Hx. unfold set_local_nil. rewrite (split_dot_simple x Hx). cbv zeta.
    destruct (nth_error (st_scopes st) s) as [sc|] eqn:E; [|apply nth_error_None in E; lia].
    rewrite (bind_ok _ _ _ _ _ (get_scope_eq _ _ _ E)). rewrite (bind_ok _ _ _ _ _ (set_scope_eq _ _ _)).
    change (mkScope (sc_key sc) (sc_parent sc) (sc_children sc) (v_set x VNull (sc_vars sc)))
      with (with_vars sc (v_set x VNull (sc_vars sc))).
    assert (E1 : set_var st s x VNull =
                 mkSt (list_upd (st_scopes st) s (with_vars sc (v_set x VNull (sc_vars sc))))
                      (st_arrs st) (st_maps st) (st_funs st) (st_is st)) by (unfold set_var; rewrite E; reflexivity).
    rewrite <- E1.
    assert (Hac1 := set_var_acyclic st s x VNull Hac).
    assert (Hs1 : s < length (st_scopes (set_var st s x VNull))) by (rewrite set_var_length; exact Hs).
    rewrite (set_value_simple_eq _ s x VNull Hac1 Hs1 Hx).
    rewrite assign_target_here; [|exact Hac1|exact Hs1|].
    - rewrite set_var_set_var. reflexivity.
    - rewrite binding_set_var by exact Hs. rewrite Nat.eqb_refl, bytes_eqb_refl. discriminate.
  Qed.

  (* `let x := v`: SetLocalValue(x, nil), then (after the right side was evaluated) the assignment *)
  Lemma let_then_assign_eq st s x v : scopes_acyclic st -> s < length (st_scopes st) -> simple_name x = true ->
    bind (set_local_nil s x) (fun _ => set_value s x v) st = (ROk tt, set_var st s x v).
  Proof.
    intros Hac Hs Hx. unfold bind. rewrite (set_local_nil_eq st s x Hac Hs Hx).
    assert (Hac1 := set_var_acyclic st s x VNull Hac).
    assert (Hs1 : s < length (st_scopes (set_var st s x VNull))) by (rewrite set_var_length; exact Hs).
    rewrite (set_value_simple_eq _ s x v Hac1 Hs1 Hx).
    rewrite assign_target_here; [|exact Hac1|exact Hs1|].
    - rewrite set_var_set_var. reflexivity.
    - rewrite binding_set_var by exact Hs. rewrite Nat.eqb_refl, bytes_eqb_refl. discriminate.
  Qed.

  (* ================================================================ 4. write, then read *)
  Lemma lookup_chain_other st t x v y c : t < length (st_scopes st) -> x <> y ->
    lookup_chain (set_var st t x v) y c = lookup_chain st y c.
  Proof.
    intros Ht N. induction c as [|i r IH]; cbn [lookup_chain]; [reflexivity|].
    rewrite binding_set_var by exact Ht.
    destruct (bytes_eqb_spec x y) as [->|_]; [congruence|]. rewrite andb_false_r. rewrite IH. reflexivity.
  Qed.

  (* t is visible for x from the chain c: t is on c and no scope before it defines x *)
  Definition first_on (st : state) (x : bytes) (c : list nat) (t : nat) : Prop :=
    exists pre post, c = pre ++ t :: post /\ Forall (fun j => binding st j x = None) pre.

  Lemma lookup_chain_written_visible st t x v c : t < length (st_scopes st) ->
    first_on st x c t -> lookup_chain (set_var st t x v) x c = Some (t, v).
  Proof.
    intros Ht (pre & post & -> & Hpre). induction Hpre as [|i pre Hi Hpre IH]; cbn [app lookup_chain].
    - rewrite binding_set_var by exact Ht. rewrite Nat.eqb_refl, bytes_eqb_refl. reflexivity.
    - rewrite binding_set_var by exact Ht. rewrite bytes_eqb_refl, andb_true_r.
      destruct (Nat.eqb_spec i t) as [->|N]; [reflexivity|]. rewrite Hi. exact IH.
  Qed.
  Lemma lookup_chain_written_hidden st t x v c : t < length (st_scopes st) ->
    ~ first_on st x c t -> lookup_chain (set_var st t x v) x c = lookup_chain st x c.
  Proof.
    intros Ht. induction c as [|i r IH]; intros H; cbn [lookup_chain]; [reflexivity|].
    rewrite binding_set_var by exact Ht. rewrite bytes_eqb_refl, andb_true_r.
    destruct (Nat.eqb_spec i t) as [->|N].
    - elim H. exists [], r. split; [reflexivity|constructor].
    - destruct (binding st i x) eqn:B; [reflexivity|]. apply IH.
      intros (pre & post & -> & Hpre). apply H. exists (i :: pre), post. split; [reflexivity|constructor; auto].
  Qed.

  Lemma assign_target_first_on st s x : scopes_acyclic st -> s < length (st_scopes st) ->
    first_on st x (scope_chain st s) (assign_target st s x).
  Proof.
    intros Hac Hs. unfold assign_target.
    destruct (lookup_chain st x (scope_chain st s)) as [[t v]|] eqn:E.
    - apply lookup_chain_some in E. destruct E as (pre & post & E1 & E2 & _). exists pre, post. auto.
    - rewrite (scope_chain_unfold st s Hac Hs). exists [], (match parent_of st s with Some p => scope_chain st p | None => [] end).
      split; [reflexivity|constructor].
  Qed.

  (* reading x back from the scope that wrote it *)
  Lemma write_then_read_same st s x v : scopes_acyclic st -> s < length (st_scopes st) -> simple_name x = true ->
    bind (set_value s x v) (fun _ => get_value s x) st =
    (ROk v, set_var st (assign_target st s x) x v).
  Proof.
    intros Hac Hs Hx. unfold bind. rewrite (set_value_simple_eq st s x v Hac Hs Hx).
    set (t := assign_target st s x).
    assert (Ht : t < length (st_scopes st)) by (apply assign_target_alloc; assumption).
    assert (Hac1 := set_var_acyclic st t x v Hac).
    assert (Hs1 : s < length (st_scopes (set_var st t x v))) by (rewrite set_var_length; exact Hs).
    rewrite (get_value_simple_eq _ s x Hac1 Hs1 Hx). rewrite scope_chain_set_var.
    rewrite (lookup_chain_written_visible st t x v _ Ht (assign_target_first_on st s x Hac Hs)).
    reflexivity.
  Qed.

  (* reading any simple name y from any scope s2 after variable x of scope t was written *)
  Lemma read_after_write st t x v s2 y :
    scopes_acyclic st -> t < length (st_scopes st) -> s2 < length (st_scopes st) -> simple_name y = true ->
    let st' := set_var st t x v in
    (* another name: as before *)
    (x <> y -> fst (get_value s2 y st') = fst (get_value s2 y st)) /\
    (* the same name, and t is the nearest scope on the chain of s2 that could define x: the new value *)
    (x = y -> first_on st x (scope_chain st s2) t -> fst (get_value s2 y st') = ROk v) /\
    (* the same name, but t is not on the chain of s2 or hidden by a nearer definition: as before *)
    (x = y -> ~ first_on st x (scope_chain st s2) t -> fst (get_value s2 y st') = fst (get_value s2 y st)) /\
    (* reading never changes the state *)
    snd (get_value s2 y st') = st'.
  Proof.
    intros Hac Ht Hs2 Hy st'.
    assert (Hac1 := set_var_acyclic st t x v Hac).
    assert (Hs1 : s2 < length (st_scopes (set_var st t x v))) by (rewrite set_var_length; exact Hs2).
    unfold st'. rewrite (get_value_simple_eq _ s2 y Hac1 Hs1 Hy), (get_value_simple_eq st s2 y Hac Hs2 Hy).
    rewrite scope_chain_set_var. cbn [fst snd]. repeat split.
    - intros N. rewrite lookup_chain_other by assumption. reflexivity.
    - intros <- F. rewrite (lookup_chain_written_visible st t x v _ Ht F). reflexivity.
    - intros <- F. rewrite (lookup_chain_written_hidden st t x v _ Ht F). reflexivity.
  Qed.
End Sc.
