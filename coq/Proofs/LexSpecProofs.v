(* Proofs/LexSpecProofs.v — theorems about the reference semantics Spec/LexSpec.v, for all
   programs, states and fuel: which frames an evaluation can add names to. *)
From Coq Require Import ZArith String Lia.
From Ecal Require Import Common.Bytes Model.Scope Model.Builtins Spec.ScopeSpec Spec.LexSpec Proofs.ScopeProofs.
Open Scope nat_scope.

(* ---- what is preserved about the frames ------------------------------------------------------ *)
Definition same_sig (fr fr' : frame) : Prop :=
  fr_parent fr' = fr_parent fr /\ fr_ghost fr' = fr_ghost fr /\ fr_block fr' = fr_block fr.
Definition same_names (fr fr' : frame) : Prop :=
  forall x, store_has x (fr_vars fr') = store_has x (fr_vars fr).
Definition more_names (fr fr' : frame) : Prop :=
  forall x, store_has x (fr_vars fr) = true -> store_has x (fr_vars fr') = true.

(* every frame that exists keeps its parent and exactly its names; frames are only added *)
Definition pres (fs fs' : list frame) : Prop :=
  length fs <= length fs' /\
  forall G fr, nth_error fs G = Some fr ->
    exists fr', nth_error fs' G = Some fr' /\ same_sig fr fr' /\ same_names fr fr'.

(* the same, except that frame F may gain names *)
Definition ext (F : nat) (fs fs' : list frame) : Prop :=
  length fs <= length fs' /\
  forall G fr, nth_error fs G = Some fr ->
    exists fr', nth_error fs' G = Some fr' /\ same_sig fr fr' /\
                (if G =? F then more_names fr fr' else same_names fr fr').

Lemma same_sig_refl fr : same_sig fr fr. Proof. repeat split. Qed.
Lemma same_sig_trans a b c : same_sig a b -> same_sig b c -> same_sig a c.
Proof. intros (A1 & A2 & A3) (B1 & B2 & B3). repeat split; congruence. Qed.

Lemma pres_refl fs : pres fs fs.
Proof. split; auto. intros G fr H. exists fr. repeat split; auto. Qed.

Lemma pres_trans a b c : pres a b -> pres b c -> pres a c.
Proof.
  intros [L1 H1] [L2 H2]. split; [lia|]. intros G fr Hn.
  destruct (H1 _ _ Hn) as (fr1 & Hn1 & S1 & N1). destruct (H2 _ _ Hn1) as (fr2 & Hn2 & S2 & N2).
  exists fr2. repeat split; auto; try (eapply same_sig_trans; eauto).
  intros x. rewrite N2. apply N1.
Qed.

Lemma ext_refl F fs : ext F fs fs.
Proof.
  split; auto. intros G fr H. exists fr. split; auto. split; [apply same_sig_refl|].
  destruct (G =? F); unfold more_names, same_names; auto.
Qed.

Lemma ext_trans F a b c : ext F a b -> ext F b c -> ext F a c.
Proof.
  intros [L1 H1] [L2 H2]. split; [lia|]. intros G fr Hn.
  destruct (H1 _ _ Hn) as (fr1 & Hn1 & S1 & N1). destruct (H2 _ _ Hn1) as (fr2 & Hn2 & S2 & N2).
  exists fr2. repeat split; auto; try (eapply same_sig_trans; eauto).
  destruct (G =? F).
  - intros x Hx. apply N2, N1, Hx.
  - intros x. rewrite N2. apply N1.
Qed.

Lemma pres_ext F a b : pres a b -> ext F a b.
Proof.
  intros [L H]. split; auto. intros G fr Hn. destruct (H _ _ Hn) as (fr' & Hn' & S & N).
  exists fr'. split; [auto|]. split; [exact S|].
  destruct (G =? F); [intros x Hx; rewrite N; auto | exact N].
Qed.

(* names gained by a frame that did not exist before are no names of an earlier frame *)
Lemma ext_fresh_pres G a b c : pres a b -> ext G b c -> length a <= G -> pres a c.
Proof.
  intros [L1 H1] [L2 H2] HG. split; [lia|]. intros F fr Hn.
  destruct (H1 _ _ Hn) as (fr1 & Hn1 & S1 & N1). destruct (H2 _ _ Hn1) as (fr2 & Hn2 & S2 & N2).
  exists fr2. repeat split; auto; try (eapply same_sig_trans; eauto).
  assert (F < length a) by (eapply nth_error_some_lt; eauto).
  replace (F =? G) with false in N2 by (symmetry; apply Nat.eqb_neq; lia).
  intros x. rewrite N2. apply N1.
Qed.

(* ---- computations --------------------------------------------------------------------------------- *)
Definition sat {A} (R : list frame -> list frame -> Prop) (m : M A) : Prop :=
  forall st st' r, m st = (st', r) -> R (st_frames st) (st_frames st').

Section Sat.
  Variable R : list frame -> list frame -> Prop.
  Hypothesis R_refl : forall fs, R fs fs.
  Hypothesis R_trans : forall a b c, R a b -> R b c -> R a c.

  Lemma sat_ret {A} (a : A) : sat R (ret a).
  Proof. intros st st' r [= <- _]. auto. Qed.
  Lemma sat_stop {A} (x : res A) : sat R (stop x).
  Proof. intros st st' r [= <- _]. auto. Qed.
  Lemma sat_gets {A} (f : state -> A) : sat R (gets f).
  Proof. intros st st' r [= <- _]. auto. Qed.
  Lemma sat_pure {A} (f : state -> res A) : sat R (fun st => (st, f st)).
  Proof. intros st st' r [= <- _]. auto. Qed.

  Lemma sat_bind {A B} (m : M A) (f : A -> M B) :
    sat R m -> (forall a, sat R (f a)) -> sat R (bind m f).
  Proof.
    intros Hm Hf st st' r H. unfold bind in H. destruct (m st) as [st1 r1] eqn:E.
    specialize (Hm _ _ _ E). destruct r1; try (injection H as <- _; auto).
    eapply R_trans; [exact Hm|]. eapply Hf; eauto.
  Qed.

  (* the wrapper that turns `return` into the result of a call *)
  Lemma sat_catch (m : M unit) :
    sat R m ->
    sat R (fun st => let '(st1, r) := m st in
                     match r with
                     | ROk _ => (st1, ROk VNull) | RRet v => (st1, ROk v) | RErr => (st1, RErr)
                     | RUnspec => (st1, RUnspec) | RFuel => (st1, RFuel)
                     end).
  Proof.
    intros Hm st st' r H. destruct (m st) as [st1 r1] eqn:E. specialize (Hm _ _ _ E).
    destruct r1; injection H as <- _; auto.
  Qed.

  Lemma sat_err_unspec {A} (m : M A) : sat R m -> sat R (err_unspec m).
  Proof.
    intros Hm st st' r H. unfold err_unspec in H. destruct (m st) as [st1 r1] eqn:E.
    injection H as <- _. eapply Hm; eauto.
  Qed.

  (* changes of the state that leave the frames alone *)
  Lemma sat_frames_same {A} (m : M A) :
    (forall st st' r, m st = (st', r) -> st_frames st' = st_frames st) -> sat R m.
  Proof. intros H st st' r E. rewrite (H _ _ _ E). auto. Qed.
End Sat.

Lemma sat_weaken {A} F (m : M A) : sat pres m -> sat (ext F) m.
Proof. intros H st st' r E. apply pres_ext. eauto. Qed.

#[local] Hint Resolve pres_refl pres_trans ext_refl ext_trans : lex.

Lemma sat_heap_alloc (R : list frame -> list frame -> Prop) c : (forall fs, R fs fs) -> sat R (m_heap_alloc c).
Proof. intros Rr st st' r [= <- _]. simpl. auto. Qed.
Lemma sat_heap_upd (R : list frame -> list frame -> Prop) a c : (forall fs, R fs fs) -> sat R (m_heap_upd a c).
Proof. intros Rr st st' r [= <- _]. simpl. auto. Qed.
Lemma sat_add_clo (R : list frame -> list frame -> Prop) c : (forall fs, R fs fs) -> sat R (m_add_clo c).
Proof. intros Rr st st' r [= <- _]. simpl. auto. Qed.
Lemma sat_trace (R : list frame -> list frame -> Prop) b : (forall fs, R fs fs) -> sat R (m_trace b).
Proof. intros Rr st st' r [= <- _]. simpl. auto. Qed.
Lemma sat_tick (R : list frame -> list frame -> Prop) : (forall fs, R fs fs) -> sat R m_tick.
Proof.
  intros Rr st st' r. unfold m_tick. destruct (CALL_BUDGET <? S (st_calls st)); intros [= <- _]; simpl; auto.
Qed.
Lemma sat_set_heap (R : list frame -> list frame -> Prop) h : (forall fs, R fs fs) -> sat R (fun st => (set_heap st h, ROk tt)).
Proof. intros Rr st st' r [= <- _]. simpl. auto. Qed.
Lemma sat_lookup (R : list frame -> list frame -> Prop) F x : (forall fs, R fs fs) -> sat R (m_lookup F x).
Proof. intros Rr st st' r [= <- _]. auto. Qed.

Lemma sat_read_var (R : list frame -> list frame -> Prop) F x :
  (forall fs, R fs fs) -> (forall a b c, R a b -> R b c -> R a c) -> sat R (m_read_var F x).
Proof.
  intros Rr Rt. unfold m_read_var. apply sat_bind; eauto. { apply sat_lookup; auto. }
  intros [G|]; [|apply sat_ret; auto].
  apply sat_bind; eauto. { apply sat_gets; auto. } intros v. apply sat_ret; auto.
Qed.

(* ---- frames: allocation, setting a variable ----------------------------------------------------------- *)
Lemma pres_app fs fr : pres fs (fs ++ [fr]).
Proof.
  split; [rewrite app_length; lia|]. intros G fr0 Hn. exists fr0. repeat split; auto.
  rewrite nth_error_app1; auto. eapply nth_error_some_lt; eauto.
Qed.

Lemma sat_alloc_frame p b g : sat pres (m_alloc_frame p b g).
Proof. intros st st' r [= <- _]. simpl. apply pres_app. Qed.

Lemma store_has_set x y v m : store_has y (store_set x v m) = (bytes_eqb x y || store_has y m).
Proof.
  destruct (bytes_eqb_spec x y) as [->|Hn]; simpl.
  - apply store_has_set_eq.
  - apply store_has_set_neq; auto.
Qed.

Lemma ext_set_var fs G fr x v :
  nth_error fs G = Some fr -> ext G fs (list_upd fs G (frame_set fr x v)).
Proof.
  intros Hn. split; [rewrite length_list_upd; lia|]. intros F fr0 Hn0.
  destruct (Nat.eq_dec G F) as [<-|Hne].
  - rewrite nth_error_list_upd_eq by (eapply nth_error_some_lt; eauto).
    eexists; split; [reflexivity|]. rewrite Hn in Hn0. injection Hn0 as <-.
    split; [repeat split|]. rewrite Nat.eqb_refl. intros y Hy. simpl.
    rewrite store_has_set, Hy. apply orb_true_r.
  - rewrite nth_error_list_upd_neq by auto. exists fr0. repeat split; auto.
    replace (F =? G) with false by (symmetry; apply Nat.eqb_neq; lia). intros y; auto.
Qed.

Lemma pres_set_var fs G fr x v :
  nth_error fs G = Some fr -> store_has x (fr_vars fr) = true ->
  pres fs (list_upd fs G (frame_set fr x v)).
Proof.
  intros Hn Hx. split; [rewrite length_list_upd; lia|]. intros F fr0 Hn0.
  destruct (Nat.eq_dec G F) as [<-|Hne].
  - rewrite nth_error_list_upd_eq by (eapply nth_error_some_lt; eauto).
    eexists; split; [reflexivity|]. rewrite Hn in Hn0. injection Hn0 as <-.
    split; [repeat split|]. intros y. simpl. rewrite store_has_set.
    destruct (bytes_eqb_spec x y) as [<-|]; simpl; auto.
  - rewrite nth_error_list_upd_neq by auto. exists fr0. repeat split; auto.
Qed.

Lemma sat_set_var G x v : sat (ext G) (m_set_var G x v).
Proof.
  intros st st' r. unfold m_set_var. destruct (nth_error (st_frames st) G) as [fr|] eqn:Hn.
  - intros [= <- _]. simpl. apply ext_set_var; auto.
  - intros [= <- _]. apply ext_refl.
Qed.

Lemma sat_mark_stale G : sat pres (m_mark_stale G).
Proof.
  intros st st' r. unfold m_mark_stale. destruct (nth_error (st_frames st) G) as [fr|] eqn:Hn.
  - intros [= <- _]. simpl. split; [rewrite length_list_upd; lia|]. intros F fr0 Hn0.
    destruct (Nat.eq_dec G F) as [<-|Hne].
    + rewrite nth_error_list_upd_eq by (eapply nth_error_some_lt; eauto).
      eexists; split; [reflexivity|]. rewrite Hn in Hn0. injection Hn0 as <-.
      repeat split.
    + rewrite nth_error_list_upd_neq by auto. exists fr0. repeat split; auto.
  - intros [= <- _]. apply pres_refl.
Qed.

Lemma lookup_some_has fs x : forall k F G,
  lookup k fs F x = ROk (Some G) ->
  exists fr, nth_error fs G = Some fr /\ store_has x (fr_vars fr) = true.
Proof.
  induction k as [|k IH]; intros F G; simpl; [discriminate|].
  destruct (nth_error fs F) as [fr|] eqn:Hn; [|discriminate].
  destruct (store_has x (fr_vars fr)) eqn:Hh.
  - intros [= <-]. eauto.
  - destruct (mem_name x (fr_ghost fr)); [discriminate|].
    destruct (fr_parent fr); [apply IH | discriminate].
Qed.

(* x := v changes the names of the current frame only *)
Lemma sat_assign_var F x v : sat (ext F) (m_assign_var F x v).
Proof.
  intros st st' r. unfold m_assign_var, bind, m_lookup.
  destruct (lookup (S F) (st_frames st) F x) as [[G|]| | | |] eqn:Hl; try (intros [= <- _]; apply ext_refl).
  - destruct (lookup_some_has _ _ _ _ _ Hl) as (fr & Hn & Hh).
    unfold m_set_var. rewrite Hn. intros [= <- _]. simpl. apply pres_ext. apply pres_set_var; auto.
  - apply sat_set_var.
Qed.

(* a computation that starts by allocating its own frame G, and afterwards only adds names
   to G, leaves the names of all frames that existed before alone *)
Lemma sat_alloc_then {A} p b g (k : nat -> M A) :
  (forall G, sat (ext G) (k G)) -> sat pres (bind (m_alloc_frame p b g) k).
Proof.
  intros Hk st st' r. unfold bind, m_alloc_frame. intros H.
  eapply ext_fresh_pres; [apply pres_app | exact (Hk _ _ _ _ H) | simpl; lia].
Qed.

Lemma sat_enter_then {A} F id (k : nat -> M A) :
  (forall B, sat (ext B) (k B)) -> sat pres (bind (m_enter_block F id) k).
Proof.
  intros Hk st st' r. unfold m_enter_block, bind at 1, bind at 1, gets.
  destruct (find_prev (st_frames st) 0 F id) as [[G fr]|].
  - unfold bind at 1. destruct (m_mark_stale G st) as [st1 r1] eqn:E1.
    pose proof (sat_mark_stale G _ _ _ E1) as P1.
    destruct r1; try (intros [= <- _]; exact P1).
    unfold m_alloc_frame. intros H.
    eapply ext_fresh_pres; [eapply pres_trans; [exact P1 | apply pres_app] | exact (Hk _ _ _ _ H) |].
    destruct P1 as [L _]. exact L.
  - unfold m_alloc_frame. intros H.
    eapply ext_fresh_pres; [apply pres_app | exact (Hk _ _ _ _ H) | simpl; lia].
Qed.

(* ---- the built-ins and the object construction do not touch frames ---------------------------------- *)
Ltac sat_go :=
  repeat first
    [ apply sat_ret; auto with lex
    | apply sat_stop; auto with lex
    | apply sat_gets; auto with lex
    | apply sat_pure; auto with lex
    | apply sat_heap_alloc; auto with lex
    | apply sat_heap_upd; auto with lex
    | apply sat_add_clo; auto with lex
    | apply sat_trace; auto with lex
    | apply sat_tick; auto with lex
    | apply sat_set_heap; auto with lex
    | apply sat_read_var; eauto with lex
    | (apply sat_bind; [eauto with lex .. | | intros])
    | match goal with
      | |- sat _ (match ?x with _ => _ end) => destruct x
      | |- sat _ (if ?x then _ else _) => destruct x
      | |- sat _ (let '(_, _) := ?x in _) => destruct x
      end ].

Lemma sat_b_len args : sat pres (b_len args).
Proof. unfold b_len. sat_go. Qed.
Lemma sat_b_add args : sat pres (b_add args).
Proof. unfold b_add. sat_go. Qed.
Lemma sat_b_del args : sat pres (b_del args).
Proof. unfold b_del. sat_go. Qed.
Lemma sat_b_concat args : sat pres (b_concat args).
Proof. unfold b_concat. sat_go. Qed.

Lemma sat_copy_props obj inits m : sat pres (copy_props obj inits m).
Proof. induction m as [|[k v] m IH]; simpl; sat_go; auto. Qed.

Lemma sat_add_supers : forall fuel obj tmpl, sat pres (add_supers fuel obj tmpl).
Proof.
  induction fuel as [|k IH]; intros obj tmpl; simpl; [sat_go|].
  apply sat_bind; eauto with lex.
  - destruct (map_get K_SUPER tmpl); [|sat_go].
    apply sat_bind; eauto with lex. { sat_go. }
    intros sl. induction (snd sl) as [|s l IHl]; sat_go; auto.
  - intros inits. apply sat_bind; eauto with lex. { sat_go. }
    intros il. apply sat_copy_props.
Qed.

(* ---- the interpreter -------------------------------------------------------------------------------- *)
Definition compound (s : stmt) : bool :=
  match s with
  | SIf _ _ _ _ | SFor _ _ _ _ | SReturn _ | SExpr _ | SMark _ => true
  | _ => false
  end.

Definition inv (n : nat) : Prop :=
  (forall F e, sat pres (eval n F e)) /\
  (forall F es, sat pres (eval_list n F es)) /\
  (forall F kvs, sat pres (eval_entries n F kvs)) /\
  (forall F accs, sat pres (eval_keys n F accs)) /\
  (forall cid args, sat pres (apply n cid args)) /\
  (forall G D ps args, sat (ext G) (bind_params n G D ps args)) /\
  (forall F s, sat (ext F) (exec n F s)) /\
  (forall F s, compound s = true -> sat pres (exec n F s)) /\
  (forall F ss, sat (ext F) (exec_block n F ss)) /\
  (forall L x a i len body, sat (ext L) (for_loop n L x a i len body)).

Ltac use_ih :=
  match goal with
  | H : forall F e, sat pres (eval _ F e) |- sat pres (eval _ _ _) => apply H
  | H : forall F e, sat pres (eval _ F e) |- sat (ext _) (eval _ _ _) => apply sat_weaken, H
  | H : forall F es, sat pres (eval_list _ F es) |- sat pres (eval_list _ _ _) => apply H
  | H : forall F es, sat pres (eval_list _ F es) |- sat (ext _) (eval_list _ _ _) => apply sat_weaken, H
  | H : forall F kvs, sat pres (eval_entries _ F kvs) |- sat pres (eval_entries _ _ _) => apply H
  | H : forall F accs, sat pres (eval_keys _ F accs) |- sat pres (eval_keys _ _ _) => apply H
  | H : forall F accs, sat pres (eval_keys _ F accs) |- sat (ext _) (eval_keys _ _ _) => apply sat_weaken, H
  | H : forall cid args, sat pres (apply _ cid args) |- sat pres (apply _ _ _) => apply H
  | H : forall G D ps args, sat (ext G) (bind_params _ G D ps args) |- sat (ext _) (bind_params _ _ _ _ _) => apply H
  | H : forall F s, sat (ext F) (exec _ F s) |- sat (ext _) (exec _ _ _) => apply H
  | H : forall F ss, sat (ext F) (exec_block _ F ss) |- sat (ext _) (exec_block _ _ _) => apply H
  | H : forall L x a i len body, sat (ext L) (for_loop _ L x a i len body) |- sat (ext _) (for_loop _ _ _ _ _ _ _) => apply H
  end.

Ltac sat_all :=
  repeat first
    [ use_ih
    | apply sat_err_unspec
    | apply sat_b_len | apply sat_b_add | apply sat_b_del | apply sat_b_concat
    | apply sat_add_supers
    | apply sat_weaken, sat_add_supers
    | apply sat_assign_var
    | apply sat_set_var
    | apply sat_ret; auto with lex
    | apply sat_stop; auto with lex
    | apply sat_gets; auto with lex
    | apply sat_pure; auto with lex
    | apply sat_heap_alloc; auto with lex
    | apply sat_heap_upd; auto with lex
    | apply sat_add_clo; auto with lex
    | apply sat_trace; auto with lex
    | apply sat_tick; auto with lex
    | apply sat_set_heap; auto with lex
    | apply sat_read_var; eauto with lex
    | apply sat_catch; eauto with lex
    | (apply sat_bind; [eauto with lex .. | | intros])
    | match goal with
      | |- sat _ (match ?x with _ => _ end) => destruct x
      | |- sat _ (if ?x then _ else _) => destruct x
      | |- sat _ (let '(_, _) := ?x in _) => destruct x
      end ].

Ltac split_inv :=
  unfold inv;
  split; [| split; [| split; [| split; [| split; [| split; [| split; [| split; [| split]]]]]]]].

Lemma inv_all : forall n, inv n.
Proof.
  induction n as [|k IH].
  - split_inv; intros; simpl; apply sat_stop; auto with lex.
  - destruct IH as (Ie & Il & Ien & Ik & Ia & Ib & Ix & Ixc & Ibl & If).
    split_inv.
    + (* eval *) intros F e. destruct e; simpl; sat_all.
    + (* eval_list *) intros F es. destruct es; simpl; sat_all.
    + (* eval_entries *) intros F kvs. destruct kvs as [|[ke ve] kvs]; simpl; sat_all.
    + (* eval_keys *) intros F accs. destruct accs as [|[f|e] accs]; simpl; sat_all.
    + (* apply *) intros cid args. simpl.
      apply sat_bind; eauto with lex. { apply sat_tick; auto with lex. } intros _.
      apply sat_bind; eauto with lex. { apply sat_gets; auto with lex. } intros [cl|]; [|sat_all].
      apply sat_bind; eauto with lex. { apply sat_pure; auto with lex. } intros stale.
      destruct stale; [sat_all|].
      apply sat_alloc_then. intros G. sat_all.
    + (* bind_params *) intros G D ps args. destruct ps as [|[p d] ps]; simpl; sat_all.
    + (* exec: ext F *) intros F s. destruct s; simpl.
      * destruct accs; sat_all.
      * sat_all.
      * sat_all.
      * apply sat_weaken. apply sat_enter_then. intros B. sat_all.
      * apply sat_weaken. apply sat_enter_then. intros L. sat_all.
      * sat_all.
      * sat_all.
      * sat_all.
    + (* exec: compound statements *) intros F s Hc. destruct s; try discriminate; simpl.
      * apply sat_enter_then. intros B. sat_all.
      * apply sat_enter_then. intros L. sat_all.
      * sat_all.
      * sat_all.
      * sat_all.
    + (* exec_block *) intros F ss. destruct ss; simpl; sat_all.
    + (* for_loop *) intros L x a i len body. simpl. sat_all.
Qed.

(* ---- consequences ------------------------------------------------------------------------------------- *)
Definition wf_frames (fs : list frame) : Prop :=
  forall i fr p, nth_error fs i = Some fr -> fr_parent fr = Some p -> p < i.

(* what a name resolves to depends only on parents, names and ghosts of the frames of the chain *)
Lemma lookup_pres fs fs' x : pres fs fs' -> wf_frames fs ->
  forall k F, F < length fs -> lookup k fs' F x = lookup k fs F x.
Proof.
  intros [L H] WF. induction k as [|k IH]; intros F HF; simpl; auto.
  destruct (nth_error fs F) as [fr|] eqn:Hn.
  2:{ apply nth_error_None in Hn. lia. }
  destruct (H _ _ Hn) as (fr' & Hn' & (S1 & S2 & S3) & N). rewrite Hn', N, S2, S1.
  destruct (store_has x (fr_vars fr)); auto. destruct (mem_name x (fr_ghost fr)); auto.
  destruct (fr_parent fr) as [p|] eqn:Hp; auto. apply IH.
  assert (p < F) by (eapply WF; eauto). lia.
Qed.

Lemma lookup_fresh_frame fs D x k :
  lookup (S k) (fs ++ [mkFrame (Some D) [] 0 [] false]) (length fs) x =
  lookup k (fs ++ [mkFrame (Some D) [] 0 [] false]) D x.
Proof.
  simpl. rewrite nth_error_app2 by lia. rewrite Nat.sub_diag. simpl. reflexivity.
Qed.

(* a block statement, a call statement, `return e`, `mark(e)`: whatever happens inside (and
   whatever the result), every name resolves from the current frame — and from every other
   frame that existed before — exactly as before *)
Lemma exec_compound_keeps_lookup n F s st st' r :
  compound s = true -> exec n F s st = (st', r) -> wf_frames (st_frames st) ->
  pres (st_frames st) (st_frames st') /\
  forall k G x, G < length (st_frames st) -> lookup k (st_frames st') G x = lookup k (st_frames st) G x.
Proof.
  intros Hc He WF. destruct (inv_all n) as (_ & _ & _ & _ & _ & _ & _ & Ixc & _).
  pose proof (Ixc F s Hc _ _ _ He) as P. split; auto. intros k G x HG. apply lookup_pres; auto.
Qed.

Lemma eval_keeps_lookup n F e st st' r :
  eval n F e st = (st', r) -> wf_frames (st_frames st) ->
  pres (st_frames st) (st_frames st') /\
  forall k G x, G < length (st_frames st) -> lookup k (st_frames st') G x = lookup k (st_frames st) G x.
Proof.
  intros He WF. destruct (inv_all n) as (Ie & _).
  pose proof (Ie F e _ _ _ He) as P. split; auto. intros k G x HG. apply lookup_pres; auto.
Qed.

Lemma apply_keeps_lookup n cid args st st' r :
  apply n cid args st = (st', r) -> wf_frames (st_frames st) ->
  pres (st_frames st) (st_frames st') /\
  forall k G x, G < length (st_frames st) -> lookup k (st_frames st') G x = lookup k (st_frames st) G x.
Proof.
  intros He WF. destruct (inv_all n) as (_ & _ & _ & _ & Ia & _).
  pose proof (Ia cid args _ _ _ He) as P. split; auto. intros k G x HG. apply lookup_pres; auto.
Qed.

(* any statement: only the current frame can gain names *)
Lemma exec_ext n F s st st' r : exec n F s st = (st', r) -> ext F (st_frames st) (st_frames st').
Proof. intros He. destruct (inv_all n) as (_ & _ & _ & _ & _ & _ & Ix & _). exact (Ix F s _ _ _ He). Qed.

Lemma exec_block_ext n F ss st st' r : exec_block n F ss st = (st', r) -> ext F (st_frames st) (st_frames st').
Proof. intros He. destruct (inv_all n) as (_ & _ & _ & _ & _ & _ & _ & _ & Ib & _). exact (Ib F ss _ _ _ He). Qed.

(* let x := e: afterwards x resolves to the current frame, whatever the enclosing frames hold
   and whatever e does *)
Lemma let_defines_locally n F x e st st' r :
  exec (S n) F (SLet x e) st = (st', r) -> F < length (st_frames st) ->
  lookup (S F) (st_frames st') F x = ROk (Some F).
Proof.
  intros He HF. simpl in He. unfold bind at 1 in He. unfold m_set_var in He.
  destruct (nth_error (st_frames st) F) as [fr|] eqn:Hn.
  2:{ apply nth_error_None in Hn. lia. }
  set (st1 := set_frames st (list_upd (st_frames st) F (frame_set fr x VNull))) in He.
  assert (Hrest : sat (ext F) (v <- eval n F e ;; m_assign_var F x v)).
  { destruct (inv_all n) as (Ie & _). apply sat_bind; eauto with lex.
    - apply sat_weaken, Ie.
    - intros v. apply sat_assign_var. }
  destruct (Hrest _ _ _ He) as [_ H].
  assert (Hn1 : nth_error (st_frames st1) F = Some (frame_set fr x VNull)).
  { simpl. apply nth_error_list_upd_eq; auto. }
  destruct (H _ _ Hn1) as (fr' & Hn' & _ & N). rewrite Nat.eqb_refl in N.
  simpl. rewrite Hn'. rewrite (N x); auto. simpl. apply store_has_set_eq.
Qed.

(* the frame of a call: a name that is not a parameter (nor this / super) resolves through
   the frame the function was DEFINED in — the frame of the caller plays no role *)
Lemma call_frame_resolves_in_definition_scope fs D x k :
  wf_frames fs -> D < length fs ->
  lookup (S k) (fs ++ [mkFrame (Some D) [] 0 [] false]) (length fs) x = lookup k fs D x.
Proof.
  intros WF HD. rewrite lookup_fresh_frame. apply lookup_pres; auto. apply pres_app.
Qed.

(* ---- objects: the properties an object carries --------------------------------------------------------- *)
Definition obj_has (st : state) (obj : nat) (k : key) : bool :=
  match nth_error (st_heap st) obj with
  | Some (LMap o) => map_has k o
  | _ => false
  end.

Lemma bind_ok {A B} (m : M A) (f : A -> M B) st st' b :
  bind m f st = (st', ROk b) -> exists st1 a, m st = (st1, ROk a) /\ f a st1 = (st', ROk b).
Proof.
  unfold bind. destruct (m st) as [st1 r]. destruct r; try discriminate. eauto.
Qed.

Lemma map_has_set k k' v o : map_has k' o = true -> map_has k' (map_set k v o) = true.
Proof.
  intros H. unfold map_has, map_set. destruct (key_eqb_spec k k') as [->|Hn].
  - apply (assoc_has_set_eq _ key_eqb_spec).
  - rewrite (assoc_has_set_neq _ key_eqb_spec); auto.
Qed.

Lemma copy_props_carries obj inits : forall m st st' v,
  copy_props obj inits m st = (st', ROk v) ->
  (forall k, obj_has st obj k = true -> obj_has st' obj k = true) /\
  (forall k, map_has k m = true -> obj_has st' obj k = true).
Proof.
  induction m as [|[k v] m IH]; intros st st' v0 H; simpl in H.
  - injection H as <- _. split; auto. intros k Hk. discriminate.
  - apply bind_ok in H as (st1 & v' & H1 & H).
    assert (Hh1 : st_heap st1 = st_heap st).
    { destruct v; try (injection H1 as <- _; reflexivity).
      apply bind_ok in H1 as (st0 & oc & G1 & H1). injection G1 as <- _.
      destruct oc; [|discriminate]. injection H1 as <- _. reflexivity. }
    apply bind_ok in H as (st1' & om & G2 & H). injection G2 as <- <-.
    apply bind_ok in H as (st2 & u & H2 & H).
    destruct (nth_error (st_heap st1) obj) as [[l|o|]|] eqn:Ho; try discriminate.
    injection H2 as <- _.
    apply bind_ok in H as (st3 & rest & H3 & H). injection H as <- _.
    destruct (IH _ _ _ H3) as (K1 & K2).
    assert (Ho2 : forall k', obj_has (set_heap st1 (list_upd (st_heap st1) obj (LMap (map_set k v' o)))) obj k'
                             = map_has k' (map_set k v' o)).
    { intros k'. unfold obj_has. simpl. rewrite nth_error_list_upd_eq; auto.
      eapply nth_error_some_lt; eauto. }
    split.
    + intros k' Hk'. apply K1. rewrite Ho2. apply map_has_set.
      unfold obj_has in Hk'. rewrite <- Hh1, Ho in Hk'. exact Hk'.
    + intros k' Hk'. unfold map_has, assoc_has in Hk'. simpl in Hk'.
      destruct (key_eqb_spec k k') as [->|Hn].
      * apply K1. rewrite Ho2. unfold map_has, map_set. apply (assoc_has_set_eq _ key_eqb_spec).
      * apply K2. exact Hk'.
Qed.

(* new(template, ...): the object keeps every property it already has (those of the super
   templates, which are copied first by the same function) and carries every property of
   the template itself *)
Lemma add_supers_carries : forall fuel obj tmpl st st' v,
  add_supers fuel obj tmpl st = (st', ROk v) ->
  (forall k, obj_has st obj k = true -> obj_has st' obj k = true) /\
  (forall k, map_has k tmpl = true -> obj_has st' obj k = true).
Proof.
  induction fuel as [|n IH]; intros obj tmpl st st' v H; simpl in H; [discriminate|].
  apply bind_ok in H as (st1 & inits & H1 & H).
  apply bind_ok in H as (st2 & il & H2 & H).
  assert (M1 : forall k, obj_has st obj k = true -> obj_has st1 obj k = true).
  { destruct (map_get K_SUPER tmpl) as [sv|]; [|injection H1 as <- _; auto].
    apply bind_ok in H1 as (st0 & sl & G1 & H1).
    assert (st0 = st) as -> by (destruct (live_list (st_heap st) sv); injection G1; auto).
    clear G1 H2 H. revert st st1 inits H1. induction (snd sl) as [|s l IHl]; intros st st1 inits H1.
    - injection H1 as <- _. auto.
    - apply bind_ok in H1 as (sta & om & Ga & H1). unfold gets in Ga. injection Ga as <- <-.
      destruct (as_map (st_heap st) s) as [sm|]; [|discriminate].
      apply bind_ok in H1 as (stb & i & Gb & H1).
      apply bind_ok in H1 as (stc & r & Gc & H1). injection H1 as <- _.
      destruct (IH _ _ _ _ _ Gb) as (Kb & _). intros k Hk. eapply IHl; eauto. }
  assert (M2 : forall k, obj_has st2 obj k = obj_has st1 obj k).
  { intros k. destruct inits.
    - injection H2 as <- _. reflexivity.
    - apply bind_ok in H2 as (sta & a & Ga & H2). injection H2 as <- _.
      injection Ga as <- _. unfold obj_has. simpl.
      destruct (Nat.lt_ge_cases obj (length (st_heap st1))) as [Hlt|Hge].
      + rewrite nth_error_app1; auto.
      + assert (nth_error (st_heap st1) obj = None) as -> by (apply nth_error_None; lia).
        destruct (nth_error (st_heap st1 ++ [LList (v0 :: inits)]) obj) as [[| |]|] eqn:E; auto.
        destruct (Nat.eq_dec obj (length (st_heap st1))) as [->|Hne].
        * rewrite nth_error_app2, Nat.sub_diag in E by lia. discriminate.
        * assert (nth_error (st_heap st1 ++ [LList (v0 :: inits)]) obj = None).
          { apply nth_error_None. rewrite app_length. simpl. lia. }
          congruence. }
  destruct (copy_props_carries _ _ _ _ _ _ H) as (K1 & K2). split; auto.
  intros k Hk. apply K1. rewrite M2. auto.
Qed.

(* ---- every evaluation of a container literal allocates ------------------------------------------ *)
(* The value of a list / map literal is the address of a cell that is appended to the heap AFTER
   the items were evaluated: it did not exist in the state the items were evaluated to (so no
   variable, container or closure of that state — in particular no result of an earlier
   evaluation of the same literal, at any nesting level — is that container), and the cell
   holds exactly the values of this evaluation of the items. *)
Lemma eval_list_literal_allocates n F es st st' v :
  eval (S n) F (EList es) st = (st', ROk v) ->
  exists st1 vs, eval_list n F es st = (st1, ROk vs) /\
    nth_error (st_heap st1) (length (st_heap st1)) = None /\
    v = VRef (length (st_heap st1)) /\ st_heap st' = st_heap st1 ++ [LList vs] /\
    st_frames st' = st_frames st1.
Proof.
  cbn [eval]. intros H. apply bind_ok in H as (st1 & vs & H1 & H).
  exists st1, vs. unfold m_heap_alloc in H. injection H as <- <-.
  repeat split; auto. apply nth_error_None. lia.
Qed.

Lemma eval_map_literal_allocates n F kvs st st' v :
  eval (S n) F (EMap kvs) st = (st', ROk v) ->
  exists st1 m, eval_entries n F kvs st = (st1, ROk m) /\
    nth_error (st_heap st1) (length (st_heap st1)) = None /\
    v = VRef (length (st_heap st1)) /\ st_heap st' = st_heap st1 ++ [LMap m] /\
    st_frames st' = st_frames st1.
Proof.
  cbn [eval]. intros H. apply bind_ok in H as (st1 & m & H1 & H).
  exists st1, m. unfold m_heap_alloc in H. injection H as <- <-.
  repeat split; auto. apply nth_error_None. lia.
Qed.
