(* Proofs/ParserInv.v — the result invariant of every function of the repaired parser model,
   proved for the functions of Section Body relative to [runf] (run at the next lower nesting
   depth), then for [run] by induction on the fuel. *)
From Coq Require Import List String Bool Arith Lia ZArith.
From Ecal Require Import Common.Bytes Common.Ast gen.Tokens gen.Grammar Spec.ParseSpec Model.Parser
  Proofs.ParserProofs Proofs.ParserShapes.
Import ListNotations.
Local Open Scope string_scope.
Local Open Scope nat_scope.
Local Open Scope list_scope.

(* what run() returns on success: a well-formed tree; a node whose token is `in` is an `in` node *)
Definition rn_ok (n : rnode) : Prop := wf (snd n) /\ (fst n = TokenIN -> n_name (snd n) = "in").

Definition run_post (s : pst) : rnode -> pst -> Prop :=
  fun n s' => List.length (toks s') < List.length (toks s) /\ rn_ok n.

Ltac inl := simpl; repeat (first [left; reflexivity | right]).

Ltac open_step H E :=
  let Hi := fresh "Hi" in let He := fresh "He" in let Hl := fresh "Hl" in let Eo := fresh "Eo" in
  pose proof (step_ext _ _ _ E H) as Eo; destruct H as [Hi [He Hl]].

Lemma rn_ok_rn t e cs : Compat e -> ge_token e = t_id t -> wf (mk_node (ge_name e) t cs) -> rn_ok (rn (t, e) cs).
Proof.
  intros C G W. split; [exact W|]. simpl. intros Hin.
  apply (c_tk e C TokenIN "in"); [inl | congruence].
Qed.

Lemma Forall_map_name (l : list node) nm :
  Forall (fun n => n_name n = nm) l -> Forall (fun k => k = nm) (map n_name l).
Proof. induction 1; simpl; constructor; assumption. Qed.

Lemma okres_err {A} o s (P : A -> pst -> Prop) e s' t g :
  ext o s -> cur s = Some (t, g) -> okres o s P (RErr (err_at e t) s').
Proof. intros E Hc. simpl. eapply err_ok_ext; [exact E|]. eapply err_ok_cur; eauto. Qed.

(* acceptChild of a token whose node kind is fixed by the table *)
Lemma accept_leaf o id nm s :
  In (id, nm) tok_names -> shape_ok nm [] = true -> ext o s -> inv s ->
  okres o s (fun n s' => List.length (toks s') < List.length (toks s) /\ wf n /\ n_name n = nm)
        (acceptChild V id s).
Proof.
  intros Hin Hsh E Hi. destruct (inv_cur s Hi) as [t [e [Hc [Hg C]]]].
  eapply okres_weaken; [apply acceptChild_ok; assumption|].
  intros n s' _ [Hl [t' [e' [Hc' [Hid Hn]]]]]. rewrite Hc in Hc'. inversion Hc'; subst t' e'. clear Hc'.
  assert (Hnm : ge_name e = nm) by (apply (c_tk e C id nm Hin); congruence).
  split; [exact Hl|]. subst n. rewrite Hnm. split; [|reflexivity].
  apply wf_mk; [exact Hsh | constructor].
Qed.

Lemma accept_string o s : ext o s -> inv s ->
  okres o s (fun n s' => List.length (toks s') < List.length (toks s) /\ wf n /\ n_name n = "string")
        (acceptChild V TokenSTRING s).
Proof. apply accept_leaf; [inl | reflexivity]. Qed.

Lemma accept_identifier o s : ext o s -> inv s ->
  okres o s (fun n s' => List.length (toks s') < List.length (toks s) /\ wf n /\ n_name n = "identifier")
        (acceptChild V TokenIDENTIFIER s).
Proof. apply accept_leaf; [inl | reflexivity]. Qed.

(* acceptChild of the current node when the caller keeps the node itself *)
Lemma accept_cur o id nm s t e :
  In (id, nm) tok_names -> ext o s -> inv s -> cur s = Some (t, e) ->
  okres o s (fun _ s' => List.length (toks s') < List.length (toks s) /\ ge_name e = nm /\ Compat e /\ ge_token e = t_id t)
        (acceptChild V id s).
Proof.
  intros Hin E Hi Hc. destruct (inv_cur s Hi) as [t0 [e0 [Hc0 [Hg C]]]].
  rewrite Hc in Hc0. inversion Hc0; subst t0 e0. clear Hc0.
  eapply okres_weaken; [apply acceptChild_ok; assumption|].
  intros n s' _ [Hl [t' [e' [Hc' [Hid Hn]]]]]. rewrite Hc in Hc'. inversion Hc'; subst t' e'. clear Hc'.
  split; [exact Hl|]. split; [|split; assumption].
  apply (c_tk e C id nm Hin); congruence.
Qed.

Section Inv.
Variable runf : nat -> pst -> res rnode.
Variable F : nat.
Hypothesis Hrun : forall o rb s, ext o s -> inv s -> List.length (toks s) < F ->
  okres o s (run_post s) (runf rb s).

(* ---- expression lists --------------------------------------------------------------- *)

Lemma items_ok k : forall ends rb acc o s,
  ext o s -> inv s -> List.length (toks s) < F -> List.length (toks s) < k -> Forall wf acc ->
  okres o s (fun cs _ => Forall wf cs) (items V runf k ends rb acc s).
Proof.
  induction k as [|k IH]; intros ends rb acc o s E Hi HF Hk Hacc; [lia|]. cbn [items].
  destruct (is_not_end_and_not_tokens s ends); [|apply okres_ret; assumption].
  eapply okres_bind; [apply Hrun; assumption|]. intros exp s1 Hs1 [Hl1 [Hw1 _]].
  open_step Hs1 E.
  destruct (inv_cur s1 Hi0) as [t [e [Hc _]]]. unfold with_cur. rewrite Hc.
  destruct (t_id t =? TokenCOMMA).
  - eapply okres_bind; [apply skipToken_ok; assumption|]. intros u s2 Hs2 Hl2. unfold shrinks in Hl2.
    open_step Hs2 Eo.
    apply IH; try assumption; try lia. apply Forall_snoc; assumption.
  - apply IH; try assumption; try lia. apply Forall_snoc; assumption.
Qed.

(* ---- blocks ------------------------------------------------------------------------- *)

Lemma stmts_new_ok k : forall n acc o s,
  ext o s -> inv s -> List.length (toks s) < F -> List.length (toks s) < k -> Forall wf acc ->
  okres o s (fun cs _ => Forall wf cs) (stmts_new V runf k n acc s).
Proof.
  induction k as [|k IH]; intros n acc o s E Hi HF Hk Hacc; [lia|]. cbn [stmts_new].
  destruct (has_more s (Some n)); [|apply okres_ret; assumption].
  destruct (inv_cur s Hi) as [t [e [Hc _]]]. unfold with_cur. rewrite Hc.
  destruct (t_id t =? TokenSEMICOLON).
  - eapply okres_bind; [apply skipToken_ok; assumption|]. intros u s1 Hs1 Hl1. unfold shrinks in Hl1.
    open_step Hs1 E.
    eapply okres_bind; [apply Hrun; try assumption; lia|]. intros n' s2 Hs2 [Hl2 [Hw2 _]].
    open_step Hs2 Eo.
    apply IH; try assumption; try lia. apply Forall_snoc; assumption.
  - destruct (t_id t =? TokenRBRACE); [apply okres_ret; assumption|].
    eapply okres_bind; [apply Hrun; assumption|]. intros n' s2 Hs2 [Hl2 [Hw2 _]].
    open_step Hs2 E.
    apply IH; try assumption; try lia. apply Forall_snoc; assumption.
Qed.

Definition block_post (s : pst) : node -> pst -> Prop :=
  fun n s' => wf n /\ n_name n = "statements" /\ List.length (toks s') < List.length (toks s).

Lemma pis_ok o s : ext o s -> inv s -> List.length (toks s) < F -> okres o s (block_post s) (pis V runf s).
Proof.
  intros E Hi HF. unfold pis.
  eapply okres_bind; [apply skipToken_ok; assumption|]. intros u s1 Hs1 Hl1. unfold shrinks in Hl1.
  open_step Hs1 E.
  eapply okres_bind with (P := fun cs _ => Forall wf cs).
  { destruct (inv_cur s1 Hi0) as [t [e [Hc _]]]. rewrite Hc.
    destruct (t_id t =? TokenRBRACE); [apply okres_ret; [assumption|constructor]|].
    change (v_propagate V) with true. cbv iota.
    eapply okres_bind; [apply Hrun; try assumption; lia|]. intros n s2 Hs2 [Hl2 [Hw2 _]].
    open_step Hs2 Eo.
    destruct (inv_cur s2 Hi1) as [t2 [e2 [Hc2 _]]]. rewrite Hc2.
    destruct (t_id t2 =? TokenEOF); [apply okres_ret; [assumption|constructor]|].
    apply stmts_new_ok; try assumption; try lia.
    - unfold fuel_of. lia.
    - constructor; [assumption|constructor]. }
  intros cs s2 Hs2 Hcs. open_step Hs2 Eo.
  eapply okres_bind; [apply skipToken_ok; assumption|]. intros u2 s3 Hs3 Hl3. unfold shrinks in Hl3.
  open_step Hs3 Eo0.
  apply okres_ret; [assumption|]. split; [apply wf_statements; assumption|]. split; [reflexivity|lia].
Qed.

(* ---- simple null denotations -------------------------------------------------------- *)

Definition nd_post : rnode -> pst -> Prop := fun n _ => rn_ok n.

Lemma ndTerm_ok t e o s : Compat e -> ge_token e = t_id t -> ge_null e = "ndTerm" -> t_id t <> TokenEOF ->
  inv s -> okres o s nd_post (ndTerm (t, e) s).
Proof.
  intros C G Hn Hne Hi. unfold ndTerm. apply okres_ret; [assumption|].
  apply rn_ok_rn; try assumption. apply wf_mk; [|constructor].
  destruct (c_term e C Hn) as [H|H]; [congruence|]. apply shape_leaf; exact H.
Qed.

Lemma ndInner_ok c o s : ext o s -> inv s -> List.length (toks s) < F -> okres o s nd_post (ndInner V runf c s).
Proof.
  intros E Hi HF. unfold ndInner.
  eapply okres_bind; [apply Hrun; assumption|]. intros exp s1 Hs1 [Hl1 Hok]. open_step Hs1 E.
  eapply okres_bind; [apply skipToken_ok; assumption|]. intros u s2 Hs2 _. open_step Hs2 Eo.
  apply okres_ret; assumption.
Qed.

Lemma ndPrefix_ok t e o s : Compat e -> ge_token e = t_id t -> ge_null e = "ndPrefix" ->
  ext o s -> inv s -> List.length (toks s) < F -> okres o s nd_post (ndPrefix runf (t, e) s).
Proof.
  intros C G Hn E Hi HF. unfold ndPrefix.
  eapply okres_bind; [apply Hrun; assumption|]. intros v s1 Hs1 [Hl1 [Hw _]]. open_step Hs1 E.
  apply okres_ret; [assumption|]. apply rn_ok_rn; try assumption.
  apply wf_mk; [apply shape_prefix; apply (c_prefix e C Hn) | constructor; [assumption|constructor]].
Qed.

Lemma ndImport_ok t e o s : Compat e -> ge_token e = t_id t -> ge_null e = "ndImport" ->
  ext o s -> inv s -> okres o s nd_post (ndImport V (t, e) s).
Proof.
  intros C G Hn E Hi. unfold ndImport.
  eapply okres_bind; [apply accept_string; assumption|]. intros p s1 Hs1 [_ [Hwp Hnp]]. open_step Hs1 E.
  eapply okres_bind; [apply skipToken_ok; assumption|]. intros u s2 Hs2 _. open_step Hs2 Eo.
  eapply okres_bind; [apply accept_identifier; assumption|]. intros i s3 Hs3 [_ [Hwi Hni]]. open_step Hs3 Eo0.
  apply okres_ret; [assumption|]. apply rn_ok_rn; try assumption.
  rewrite (c_nd e C "ndImport" "import") by (try inl; assumption).
  apply wf_mk; [simpl; rewrite Hnp, Hni; apply shape_import | repeat constructor; assumption].
Qed.

Lemma ndSkink_ok t e o s : Compat e -> ge_token e = t_id t -> ge_null e = "ndSkink" ->
  ext o s -> inv s -> List.length (toks s) < F -> okres o s nd_post (ndSkink V runf (t, e) s).
Proof.
  intros C G Hn E Hi HF. unfold ndSkink.
  eapply okres_bind; [apply accept_identifier; assumption|]. intros nm s1 Hs1 [Hl1 [Hwn Hnn]]. open_step Hs1 E.
  eapply okres_bind; [apply items_ok; try assumption; try lia; [unfold fuel_of; lia|constructor]|].
  intros attrs s2 Hs2 Hattrs. open_step Hs2 Eo.
  eapply okres_bind; [apply pis_ok; try assumption; lia|]. intros body s3 Hs3 [Hwb [Hnb _]]. open_step Hs3 Eo0.
  apply okres_ret; [assumption|]. apply rn_ok_rn; try assumption.
  rewrite (c_nd e C "ndSkink" "sink") by (try inl; assumption).
  apply wf_mk.
  - simpl. rewrite map_app. simpl. rewrite Hnn, Hnb. apply shape_sink.
  - constructor; [assumption|]. apply Forall_snoc; assumption.
Qed.

Lemma ndFunc_ok t e o s : Compat e -> ge_token e = t_id t -> ge_null e = "ndFunc" ->
  ext o s -> inv s -> List.length (toks s) < F -> okres o s nd_post (ndFunc V runf (t, e) s).
Proof.
  intros C G Hn E Hi HF. unfold ndFunc.
  destruct (inv_cur s Hi) as [t0 [e0 [Hc0 _]]]. unfold with_cur. rewrite Hc0.
  eapply okres_bind with (P := fun nm _ => Forall wf nm /\ (map n_name nm = [] \/ map n_name nm = ["identifier"])).
  { destruct (t_id t0 =? TokenIDENTIFIER).
    - eapply okres_bind; [apply accept_identifier; assumption|]. intros nm s1 Hs1 [_ [Hwn Hnn]]. open_step Hs1 E.
      apply okres_ret; [assumption|]. split; [repeat constructor; assumption|]. right. simpl. rewrite Hnn. reflexivity.
    - apply okres_ret; [assumption|]. split; [constructor|left; reflexivity]. }
  intros nm s1 Hs1 [Hwn Hnn]. open_step Hs1 E.
  eapply okres_bind; [apply skipToken_ok; assumption|]. intros u s2 Hs2 _. open_step Hs2 Eo.
  eapply okres_bind; [apply items_ok; try assumption; try lia; [unfold fuel_of; lia|constructor]|].
  intros ps s3 Hs3 Hps. open_step Hs3 Eo0.
  eapply okres_bind; [apply skipToken_ok; assumption|]. intros u2 s4 Hs4 _. open_step Hs4 Eo1.
  eapply okres_bind; [apply pis_ok; try assumption; lia|]. intros body s5 Hs5 [Hwb [Hnb _]]. open_step Hs5 Eo2.
  apply okres_ret; [assumption|]. apply rn_ok_rn; try assumption.
  rewrite (c_nd e C "ndFunc" "function") by (try inl; assumption).
  apply wf_mk.
  - rewrite map_app. simpl. rewrite Hnb.
    destruct Hnn as [Hnn|Hnn]; rewrite Hnn; [apply shape_function2 | apply shape_function3].
  - apply Forall_app_intro; [assumption|]. constructor; [apply wf_params; assumption|].
    constructor; [assumption|constructor].
Qed.

Lemma ndReturn_ok t e o s : Compat e -> ge_token e = t_id t -> ge_null e = "ndReturn" ->
  ext o s -> inv s -> List.length (toks s) < F -> okres o s nd_post (ndReturn runf (t, e) s).
Proof.
  intros C G Hn E Hi HF. unfold ndReturn.
  destruct (inv_cur s Hi) as [t0 [e0 [Hc0 _]]]. unfold with_cur. rewrite Hc0.
  assert (Hname : ge_name e = "return") by (apply (c_nd e C "ndReturn" "return"); [inl | assumption]).
  destruct (t_line (fst (t, e)) =? t_line t0).
  - eapply okres_bind; [apply Hrun; assumption|]. intros v s1 Hs1 [_ [Hw _]]. open_step Hs1 E.
    apply okres_ret; [assumption|]. apply rn_ok_rn; try assumption. rewrite Hname.
    apply wf_mk; [apply shape_return1 | constructor; [assumption|constructor]].
  - apply okres_ret; [assumption|]. apply rn_ok_rn; try assumption. rewrite Hname.
    apply wf_mk; [apply shape_return0 | constructor].
Qed.

(* ---- identifiers -------------------------------------------------------------------- *)

Lemma parse_more_ok k : forall line o s,
  ext o s -> inv s -> List.length (toks s) < F -> List.length (toks s) < k ->
  okres o s (fun cs _ => Forall wf cs /\ ident_kids (map n_name cs) = true) (parse_more V runf k line s).
Proof.
  induction k as [|k IH]; intros line o s E Hi HF Hk; [lia|]. cbn [parse_more].
  destruct (inv_cur s Hi) as [t [e [Hc _]]]. unfold with_cur. rewrite Hc.
  destruct (t_id t =? TokenDOT).
  { eapply okres_bind; [apply skipToken_ok; assumption|]. intros u s1 Hs1 Hl1. unfold shrinks in Hl1. open_step Hs1 E.
    destruct (inv_cur s1 Hi0) as [t1 [e1 [Hc1 _]]]. rewrite Hc1.
    eapply okres_bind; [eapply accept_cur with (nm := "identifier"); try eassumption; inl|].
    intros a s2 Hs2 [Hl2 [Hnm [C1 G1]]]. open_step Hs2 Eo.
    eapply okres_bind; [apply IH; try assumption; lia|]. intros sub s3 Hs3 [Hws Hks]. open_step Hs3 Eo0.
    apply okres_ret; [assumption|]. split.
    - constructor; [|constructor]. simpl. rewrite Hnm. apply wf_mk; [apply shape_identifier; exact Hks | exact Hws].
    - simpl. rewrite Hnm. reflexivity. }
  destruct (t_id t =? TokenLPAREN).
  { eapply okres_bind; [apply skipToken_ok; assumption|]. intros u s1 Hs1 Hl1. unfold shrinks in Hl1. open_step Hs1 E.
    eapply okres_bind; [apply items_ok; try assumption; try lia; [unfold fuel_of; lia|constructor]|].
    intros args s2 Hs2 Hargs. open_step Hs2 Eo.
    eapply okres_bind; [apply skipToken_ok; assumption|]. intros u2 s3 Hs3 _. open_step Hs3 Eo0.
    eapply okres_bind; [apply IH; try assumption; lia|]. intros rest s4 Hs4 [Hwr Hkr]. open_step Hs4 Eo1.
    apply okres_ret; [assumption|]. split.
    - constructor; [apply wf_funccall; assumption | assumption].
    - simpl. apply ident_kids_access; [reflexivity | exact Hkr]. }
  destruct ((t_id t =? TokenLBRACK) && (t_line t =? line)).
  { change (v_propagate V) with true. cbv iota.
    eapply okres_bind; [apply skipToken_ok; assumption|]. intros u s1 Hs1 Hl1. unfold shrinks in Hl1. open_step Hs1 E.
    eapply okres_bind; [apply Hrun; try assumption; lia|]. intros exp s2 Hs2 [_ [Hwe _]]. open_step Hs2 Eo.
    eapply okres_bind; [apply skipToken_ok; assumption|]. intros u2 s3 Hs3 _. open_step Hs3 Eo0.
    eapply okres_bind; [apply IH; try assumption; lia|]. intros rest s4 Hs4 [Hwr Hkr]. open_step Hs4 Eo1.
    apply okres_ret; [assumption|]. split.
    - constructor; [apply wf_compaccess; assumption | assumption].
    - simpl. apply ident_kids_access; [reflexivity | exact Hkr]. }
  apply okres_ret; [assumption|]. split; [constructor|reflexivity].
Qed.

Lemma ndIdentifier_ok t e o s : Compat e -> ge_token e = t_id t -> ge_null e = "ndIdentifier" ->
  ext o s -> inv s -> List.length (toks s) < F -> okres o s nd_post (ndIdentifier V runf (t, e) s).
Proof.
  intros C G Hn E Hi HF. unfold ndIdentifier.
  eapply okres_bind; [apply parse_more_ok; try assumption; unfold fuel_of; lia|].
  intros cs s1 Hs1 [Hw Hk]. open_step Hs1 E.
  apply okres_ret; [assumption|]. apply rn_ok_rn; try assumption.
  rewrite (c_nd e C "ndIdentifier" "identifier") by (try inl; assumption).
  apply wf_mk; [apply shape_identifier; exact Hk | exact Hw].
Qed.

Lemma nd_collection_ok kind endtok t e o s :
  Compat e -> ge_token e = t_id t -> (ge_null e = "ndList" \/ ge_null e = "ndMap") ->
  mem (cname kind) seq_kinds = true ->
  ext o s -> inv s -> List.length (toks s) < F -> okres o s nd_post (nd_collection V runf kind endtok (t, e) s).
Proof.
  intros C G Hn Hk E Hi HF. unfold nd_collection.
  eapply okres_bind; [apply items_ok; try assumption; try lia; [unfold fuel_of; lia|constructor]|].
  intros cs s1 Hs1 Hcs. open_step Hs1 E.
  eapply okres_bind; [apply skipToken_ok; assumption|]. intros u s2 Hs2 _. open_step Hs2 Eo.
  apply okres_ret; [assumption|]. split; simpl.
  - apply wf_collection; assumption.
  - intros Hin. exfalso. apply (c_coll e C Hn). congruence.
Qed.

(* ---- if / for ----------------------------------------------------------------------- *)

Lemma with_guard_brace_ok o s : ext o s -> inv s -> List.length (toks s) < F ->
  okres o s (run_post s) (with_guard_brace runf s).
Proof.
  intros E Hi HF. unfold with_guard_brace.
  pose proof (Hrun o 0 (set_sw s true) E Hi HF) as H.
  destruct (runf 0 (set_sw s true)) as [a s1|e s1|x|]; simpl in *; try tauto; try exact H.
Qed.

Definition pair_post : list node -> pst -> Prop :=
  fun l _ => Forall wf l /\ map n_name l = ["guard"; "statements"].

Lemma guard_and_statements_ok o s : ext o s -> inv s -> List.length (toks s) < F ->
  okres o s pair_post (guard_and_statements V runf s).
Proof.
  intros E Hi HF. unfold guard_and_statements.
  eapply okres_bind; [apply with_guard_brace_ok; assumption|]. intros exp s1 Hs1 [Hl1 [Hw _]]. open_step Hs1 E.
  eapply okres_bind; [apply pis_ok; try assumption; lia|]. intros body s2 Hs2 [Hwb [Hnb _]]. open_step Hs2 Eo.
  apply okres_ret; [assumption|]. split.
  - constructor; [apply wf_guard; assumption|]. constructor; [assumption|constructor].
  - simpl. rewrite Hnb. reflexivity.
Qed.

Definition pairs_ok (l : list node) : Prop :=
  Forall wf l /\ guard_pairs (map n_name l) = true /\ l <> [].

Lemma pairs_ok_app acc gs : pairs_ok acc -> Forall wf gs -> map n_name gs = ["guard"; "statements"] -> pairs_ok (acc ++ gs).
Proof.
  intros [H1 [H2 H3]] Hw Hn. split; [apply Forall_app_intro; assumption|]. split.
  - rewrite map_app, guard_pairs_app by assumption. rewrite Hn. reflexivity.
  - destruct acc; [congruence|discriminate].
Qed.

Lemma elifs_ok k : forall acc o s,
  ext o s -> inv s -> List.length (toks s) < F -> List.length (toks s) < k -> pairs_ok acc ->
  okres o s (fun l _ => pairs_ok l) (elifs V runf k acc s).
Proof.
  induction k as [|k IH]; intros acc o s E Hi HF Hk Hacc; [lia|]. cbn [elifs].
  destruct (is_not_end_and_token s TokenELIF); [|apply okres_ret; assumption].
  eapply okres_bind; [apply skipToken_ok; assumption|]. intros u s1 Hs1 Hl1. unfold shrinks in Hl1. open_step Hs1 E.
  eapply okres_bind; [apply guard_and_statements_ok; try assumption; lia|]. intros gs s2 Hs2 [Hwg Hng]. open_step Hs2 Eo.
  apply IH; try assumption; try lia. apply pairs_ok_app; assumption.
Qed.

Lemma ndGuard_ok t e o s : Compat e -> ge_token e = t_id t -> ge_null e = "ndGuard" ->
  ext o s -> inv s -> List.length (toks s) < F -> okres o s nd_post (ndGuard V runf (t, e) s).
Proof.
  intros C G Hn E Hi HF. unfold ndGuard.
  assert (Hname : ge_name e = "if") by (apply (c_nd e C "ndGuard" "if"); [inl | assumption]).
  assert (Hfin : forall cs, pairs_ok cs -> rn_ok (rn (t, e) cs)).
  { intros cs [H1 [H2 H3]]. apply rn_ok_rn; try assumption. rewrite Hname.
    apply wf_mk; [|assumption]. apply shape_if; [|assumption]. destruct cs; [congruence|discriminate]. }
  eapply okres_bind; [apply guard_and_statements_ok; assumption|]. intros gs s1 Hs1 [Hwg Hng]. open_step Hs1 E.
  eapply okres_bind; [apply elifs_ok with (acc := gs); try assumption; try lia; [unfold fuel_of; lia|]|].
  { split; [assumption|]. split; [rewrite Hng; reflexivity|]. destruct gs; [discriminate|congruence]. }
  intros cs s2 Hs2 Hcs. open_step Hs2 Eo.
  destruct (inv_cur s2 Hi1) as [t2 [e2 [Hc2 _]]]. unfold with_cur. rewrite Hc2.
  destruct (t_id t2 =? TokenELSE); [|apply okres_ret; [assumption | apply Hfin; assumption]].
  eapply okres_bind; [apply skipToken_ok; assumption|]. intros u s3 Hs3 _. open_step Hs3 Eo0.
  eapply okres_bind; [apply pis_ok; try assumption; lia|]. intros body s4 Hs4 [Hwb [Hnb _]]. open_step Hs4 Eo1.
  apply okres_ret; [assumption|]. apply Hfin. apply pairs_ok_app; [assumption| |].
  - constructor; [apply wf_guard; apply wf_true_leaf|]. constructor; [assumption|constructor].
  - simpl. rewrite Hnb. reflexivity.
Qed.

Lemma ndLoop_ok t e o s : Compat e -> ge_token e = t_id t -> ge_null e = "ndLoop" ->
  ext o s -> inv s -> List.length (toks s) < F -> okres o s nd_post (ndLoop V runf (t, e) s).
Proof.
  intros C G Hn E Hi HF. unfold ndLoop.
  assert (Hname : ge_name e = "loop") by (apply (c_nd e C "ndLoop" "loop"); [inl | assumption]).
  eapply okres_bind; [apply with_guard_brace_ok; assumption|]. intros exp s1 Hs1 [Hl1 [Hw Hin]]. open_step Hs1 E.
  eapply okres_bind; [apply pis_ok; try assumption; lia|]. intros body s2 Hs2 [Hwb [Hnb _]]. open_step Hs2 Eo.
  apply okres_ret; [assumption|]. apply rn_ok_rn; try assumption. rewrite Hname.
  destruct (fst exp =? TokenIN) eqn:Ein.
  - apply Nat.eqb_eq in Ein. apply wf_mk.
    + simpl. rewrite (Hin Ein), Hnb. apply shape_loop_in.
    + constructor; [assumption|]. constructor; [assumption|constructor].
  - apply wf_mk.
    + simpl. rewrite Hnb. apply shape_loop_guard.
    + constructor; [apply wf_guard; assumption|]. constructor; [assumption|constructor].
Qed.

(* ---- try ---------------------------------------------------------------------------- *)

Definition strings_ok (l : list node) : Prop := Forall wf l /\ Forall (fun n => n_name n = "string") l.

Lemma except_names_ok k : forall acc o s,
  ext o s -> inv s -> List.length (toks s) < k -> strings_ok acc ->
  okres o s (fun l _ => strings_ok l) (except_names V k acc s).
Proof.
  induction k as [|k IH]; intros acc o s E Hi Hk [Ha1 Ha2]; [lia|]. cbn [except_names].
  destruct (is_not_end_and_not_tokens s [TokenAS; TokenIDENTIFIER; TokenLBRACE]); [|apply okres_ret; [assumption|split; assumption]].
  eapply okres_bind; [apply accept_string; assumption|]. intros str s1 Hs1 [Hl1 [Hws Hns]]. open_step Hs1 E.
  assert (Hacc : strings_ok (acc ++ [str])) by (split; apply Forall_snoc; assumption).
  destruct (inv_cur s1 Hi0) as [t [e [Hc _]]]. unfold with_cur. rewrite Hc.
  destruct (t_id t =? TokenCOMMA).
  - eapply okres_bind; [apply skipToken_ok; assumption|]. intros u s2 Hs2 Hl2. unfold shrinks in Hl2. open_step Hs2 Eo.
    apply IH; try assumption; lia.
  - apply IH; try assumption; lia.
Qed.

Definition excepts_post (l : list node) : Prop := Forall wf l /\ Forall (fun n => n_name n = "except") l.

Lemma excepts_ok k : forall acc o s,
  ext o s -> inv s -> List.length (toks s) < F -> List.length (toks s) < k -> excepts_post acc ->
  okres o s (fun l _ => excepts_post l) (excepts V runf k acc s).
Proof.
  induction k as [|k IH]; intros acc o s E Hi HF Hk [Ha1 Ha2]; [lia|]. cbn [excepts].
  destruct (is_not_end_and_token s TokenEXCEPT); [|apply okres_ret; [assumption|split; assumption]].
  destruct (inv_cur s Hi) as [t [e [Hc _]]]. rewrite Hc.
  eapply okres_bind; [eapply accept_cur with (nm := "except"); try eassumption; inl|].
  intros a s1 Hs1 [Hl1 [Hnm [C1 G1]]]. open_step Hs1 E.
  eapply okres_bind; [apply except_names_ok; try assumption; [unfold fuel_of; lia | split; constructor]|].
  intros names s2 Hs2 [Hn1 Hn2]. open_step Hs2 Eo.
  eapply okres_bind with (P := fun b s3 => Forall wf b /\
      (map n_name b = [] \/ map n_name b = ["as"] \/ map n_name b = ["identifier"])).
  { destruct (inv_cur s2 Hi1) as [t2 [e2 [Hc2 _]]]. unfold with_cur. rewrite Hc2.
    destruct (t_id t2 =? TokenAS).
    - eapply okres_bind; [eapply accept_cur with (nm := "as"); try eassumption; inl|].
      intros a2 s3 Hs3 [_ [Hnm2 [C2 G2]]]. open_step Hs3 Eo0.
      eapply okres_bind; [apply accept_identifier; assumption|]. intros v s4 Hs4 [_ [Hwv Hnv]]. open_step Hs4 Eo1.
      apply okres_ret; [assumption|]. split.
      + constructor; [|constructor]. simpl. rewrite Hnm2.
        apply wf_mk; [simpl; rewrite Hnv; apply shape_as | constructor; [assumption|constructor]].
      + right. left. simpl. rewrite Hnm2. reflexivity.
    - destruct (t_id t2 =? TokenIDENTIFIER).
      + eapply okres_bind; [apply accept_identifier; assumption|]. intros v s3 Hs3 [_ [Hwv Hnv]]. open_step Hs3 Eo0.
        apply okres_ret; [assumption|]. split; [constructor; [assumption|constructor]|].
        right. right. simpl. rewrite Hnv. reflexivity.
      + apply okres_ret; [assumption|]. split; [constructor|left; reflexivity]. }
  intros bnd s3 Hs3 [Hwb Hnb]. open_step Hs3 Eo0.
  eapply okres_bind; [apply pis_ok; try assumption; lia|]. intros body s4 Hs4 [Hwbody [Hnbody _]]. open_step Hs4 Eo1.
  apply IH; try assumption; try lia.
  split; apply Forall_snoc; try assumption; simpl.
  - rewrite Hnm. apply wf_mk.
    + rewrite !map_app. simpl. rewrite Hnbody. apply shape_except; [apply Forall_map_name; assumption|].
      destruct Hnb as [Hnb|[Hnb|Hnb]]; rewrite Hnb; inl.
    + apply Forall_app_intro; [assumption|]. apply Forall_snoc; assumption.
Qed.

Lemma optional_block_ok id nm o s :
  In (id, nm) tok_names -> shape_ok nm ["statements"] = true ->
  ext o s -> inv s -> List.length (toks s) < F ->
  okres o s (fun l _ => Forall wf l /\ (map n_name l = [] \/ map n_name l = [nm])) (optional_block V runf id s).
Proof.
  intros Hin Hsh E Hi HF. unfold optional_block.
  destruct (inv_cur s Hi) as [t [e [Hc _]]]. rewrite Hc.
  destruct (t_id t =? id); [|apply okres_ret; [assumption|split; [constructor|left; reflexivity]]].
  eapply okres_bind; [eapply accept_cur with (nm := nm); eassumption|].
  intros a s1 Hs1 [Hl1 [Hnm [C1 G1]]]. open_step Hs1 E.
  eapply okres_bind; [apply pis_ok; try assumption; lia|]. intros body s2 Hs2 [Hwb [Hnb _]]. open_step Hs2 Eo.
  apply okres_ret; [assumption|]. split.
  - constructor; [|constructor]. simpl. rewrite Hnm.
    apply wf_mk; [simpl; rewrite Hnb; exact Hsh | constructor; [assumption|constructor]].
  - right. simpl. rewrite Hnm. reflexivity.
Qed.

Lemma ndTry_ok t e o s : Compat e -> ge_token e = t_id t -> ge_null e = "ndTry" ->
  ext o s -> inv s -> List.length (toks s) < F -> okres o s nd_post (ndTry V runf (t, e) s).
Proof.
  intros C G Hn E Hi HF. unfold ndTry.
  assert (Hname : ge_name e = "try") by (apply (c_nd e C "ndTry" "try"); [inl | assumption]).
  eapply okres_bind; [apply pis_ok; assumption|]. intros body s1 Hs1 [Hwb [Hnb Hl1]]. open_step Hs1 E.
  eapply okres_bind; [apply excepts_ok; try assumption; try lia; [unfold fuel_of; lia | split; constructor]|].
  intros exs s2 Hs2 [He1 He2]. open_step Hs2 Eo.
  eapply okres_bind; [apply optional_block_ok with (nm := "otherwise"); try assumption; try lia; [inl | apply shape_otherwise]|].
  intros ow s3 Hs3 [Hwo Hno]. open_step Hs3 Eo0.
  eapply okres_bind; [apply optional_block_ok with (nm := "finally"); try assumption; try lia; [inl | apply shape_finally]|].
  intros fin s4 Hs4 [Hwf Hnf]. open_step Hs4 Eo1.
  apply okres_ret; [assumption|]. apply rn_ok_rn; try assumption. rewrite Hname.
  apply wf_mk.
  - simpl. rewrite Hnb, !map_app. apply shape_try; [apply Forall_map_name; assumption|].
    destruct Hno as [Hno|Hno]; destruct Hnf as [Hnf|Hnf]; rewrite Hno, Hnf; inl.
  - constructor; [assumption|]. apply Forall_app_intro; [assumption|]. apply Forall_app_intro; assumption.
Qed.

Lemma ndMutex_ok t e o s : Compat e -> ge_token e = t_id t -> ge_null e = "ndMutex" ->
  ext o s -> inv s -> List.length (toks s) < F -> okres o s nd_post (ndMutex V runf (t, e) s).
Proof.
  intros C G Hn E Hi HF. unfold ndMutex.
  eapply okres_bind; [apply accept_identifier; assumption|]. intros nm s1 Hs1 [Hl1 [Hwn Hnn]]. open_step Hs1 E.
  eapply okres_bind; [apply pis_ok; try assumption; lia|]. intros body s2 Hs2 [Hwb [Hnb _]]. open_step Hs2 Eo.
  apply okres_ret; [assumption|]. apply rn_ok_rn; try assumption.
  rewrite (c_nd e C "ndMutex" "mutex") by (try inl; assumption).
  apply wf_mk; [simpl; rewrite Hnn, Hnb; apply shape_mutex | repeat constructor; assumption].
Qed.

(* ---- dispatch, infix loop, run ------------------------------------------------------ *)

Lemma null_den_ok t e o s : Compat e -> ge_token e = t_id t -> ge_null e <> "" -> t_id t <> TokenEOF ->
  ext o s -> inv s -> List.length (toks s) < F -> okres o s nd_post (null_den V runf (t, e) s).
Proof.
  intros C G Hne Heof E Hi HF.
  pose proof (c_null e C) as Hin. unfold nd_known in Hin. simpl in Hin.
  unfold null_den. cbn [snd].
  destruct Hin as [H|[H|[H|[H|[H|[H|[H|[H|[H|[H|[H|[H|[H|[H|[H|[]]]]]]]]]]]]]]]];
    symmetry in H; try congruence; rewrite H; cbv beta iota delta [String.eqb Ascii.eqb Bool.eqb].
  - apply ndTerm_ok; assumption.
  - apply ndInner_ok; assumption.
  - apply ndPrefix_ok; assumption.
  - apply ndIdentifier_ok; assumption.
  - apply nd_collection_ok; try assumption; [left; assumption | reflexivity].
  - apply nd_collection_ok; try assumption; [right; assumption | reflexivity].
  - apply ndImport_ok; assumption.
  - apply ndSkink_ok; assumption.
  - apply ndFunc_ok; assumption.
  - apply ndReturn_ok; assumption.
  - apply ndGuard_ok; assumption.
  - apply ndLoop_ok; assumption.
  - apply ndTry_ok; assumption.
  - apply ndMutex_ok; assumption.
Qed.

Lemma ld_loop_ok k : forall rb left o s,
  ext o s -> inv s -> List.length (toks s) < F -> List.length (toks s) < k -> rn_ok left ->
  okres o s nd_post (ld_loop V runf k rb left s).
Proof.
  induction k as [|k IH]; intros rb left o s E Hi HF Hk Hleft; [lia|]. cbn [ld_loop].
  destruct (inv_cur s Hi) as [t [e [Hc [G C]]]]. unfold with_cur. rewrite Hc.
  destruct (rb <? ge_binding e); [|apply okres_ret; assumption].
  destruct (c_left e C) as [Hl|Hl]; rewrite Hl.
  - cbv beta iota delta [String.eqb].
    destruct (n_line (snd left) <? t_line t); [apply okres_ret; assumption|].
    eapply okres_err; eassumption.
  - cbv beta iota delta [String.eqb Ascii.eqb Bool.eqb].
    eapply okres_bind; [apply advance_ok; [assumption | apply Hi]|]. intros u s1 Hs1 Hl1. unfold shrinks in Hl1. open_step Hs1 E.
    eapply okres_bind with (P := nd_post).
    { unfold left_den. cbn [snd]. rewrite Hl. cbv beta iota delta [String.eqb Ascii.eqb Bool.eqb].
      unfold ldInfix.
      eapply okres_bind; [apply Hrun; try assumption; lia|]. intros right s2 Hs2 [_ [Hwr _]]. open_step Hs2 Eo.
      apply okres_ret; [assumption|]. apply rn_ok_rn; try assumption.
      apply wf_mk; [apply shape_infix; apply (c_infix e C Hl)|].
      constructor; [apply Hleft|]. constructor; [assumption|constructor]. }
    intros nleft s2 Hs2 Hnl. open_step Hs2 Eo.
    apply IH; try assumption; lia.
Qed.

Lemma run_body_ok rb o s : ext o s -> inv s -> List.length (toks s) < S F ->
  okres o s (run_post s) (run_body V runf rb s).
Proof.
  intros E Hi HF. unfold run_body.
  destruct (inv_cur s Hi) as [t [e [Hc [G C]]]].
  eapply okres_bind; [apply advance_ok; [assumption | apply Hi]|]. intros u s1 Hs1 Hl1. unfold shrinks in Hl1.
  open_step Hs1 E. rewrite Hc.
  destruct (String.eqb (ge_null e) "") eqn:Hnull.
  { simpl. eapply err_ok_ext; [exact E|]. eapply err_ok_cur; eauto. }
  apply String.eqb_neq in Hnull.
  assert (Heof : t_id t <> TokenEOF).
  { intros Heof. destruct Hi as [_ Hel]. unfold alltoks, curtok in Hel. rewrite Hc in Hel.
    specialize (Hel [] t (toks s) eq_refl Heof). rewrite Hel in Hl1. simpl in Hl1. lia. }
  eapply okres_bind; [apply null_den_ok; try assumption; lia|]. intros left s2 Hs2 Hleft. open_step Hs2 Eo.
  eapply okres_weaken; [apply ld_loop_ok; try assumption; try lia; unfold fuel_of; lia|].
  intros n s3 Hs3 Hn. destruct Hs3 as [_ [_ Hl3]]. split; [lia | exact Hn].
Qed.

End Inv.

(* ---- run, by induction on the nesting fuel -------------------------------------------- *)

Theorem run_ok fuel : forall o rb s, ext o s -> inv s -> List.length (toks s) < fuel ->
  okres o s (run_post s) (run V fuel rb s).
Proof.
  induction fuel as [|f IH]; intros o rb s E Hi Hf; [lia|]. cbn [run].
  apply run_body_ok with (F := f); assumption.
Qed.
