(* Proofs/PathCleanProofs.v — lemmas about the path model (Model/PathClean.v) and the
   import locator decision (Model/ImportLoc.v) against Spec/ImportSpec.v. *)
From Ecal Require Import Common.Bytes Model.PathClean Model.ImportLoc Spec.ImportSpec.
From Coq Require Import Lia.

Implicit Types (s e x y t p root path top : bytes) (l m names elems acc bs ts la lb ln : list bytes)
               (rt : bool) (k j : nat).

(* ------------------------------------------------------------------ small facts *)

Lemma beqb_true (a b : bytes) : bytes_eqb a b = true -> a = b.
Proof. destruct (bytes_eqb_spec a b); congruence. Qed.

Lemma beqb_false (a b : bytes) : bytes_eqb a b = false -> a <> b.
Proof. destruct (bytes_eqb_spec a b); congruence. Qed.

Lemma beqb_neq (a b : bytes) : a <> b -> bytes_eqb a b = false.
Proof. destruct (bytes_eqb_spec a b); congruence. Qed.

Lemma repeat_snoc {A} (x : A) k : repeat x k ++ [x] = x :: repeat x k.
Proof. induction k; simpl; congruence. Qed.

Lemma rev_repeat' {A} (x : A) k : rev (repeat x k) = repeat x k.
Proof. induction k; simpl; auto. rewrite IHk. apply repeat_snoc. Qed.

Lemma repeat_plus {A} (x : A) j k : repeat x j ++ repeat x k = repeat x (j + k).
Proof. induction j; simpl; congruence. Qed.

(* an element as Clean leaves it in its output: not empty, no separator, not "." *)
Definition good (e : bytes) : Prop := e <> [] /\ ~ In SLASH e /\ e <> DOT.

Lemma plain_good e : plain_name e -> good e.
Proof. intros (A & B & C & D). repeat split; assumption. Qed.

Lemma dotdot_good : good DOTDOT.
Proof.
  repeat split; try discriminate. unfold DOTDOT, SLASH. simpl.
  intros [H|[H|[]]]; discriminate.
Qed.

Lemma plain_tests e : plain_name e -> is_empty e = false /\ is_dot e = false /\ is_dotdot e = false.
Proof.
  intros (A & B & C & D). unfold is_empty, is_dot, is_dotdot.
  repeat split; apply beqb_neq; assumption.
Qed.

(* ------------------------------------------------------------------ split / join *)

Lemma split_nonempty s : split s <> [].
Proof.
  induction s as [|c s IH]; simpl; [discriminate|].
  destruct (c =? SLASH); [discriminate|]. destruct (split s); discriminate.
Qed.

Lemma split_app_slash (a b : bytes) : split (a ++ SLASH :: b) = split a ++ split b.
Proof.
  induction a as [|c a IH]; simpl.
  - reflexivity.
  - destruct (c =? SLASH); [rewrite IH; reflexivity|].
    rewrite IH. destruct (split a) as [|h t] eqn:E.
    + exfalso. eapply split_nonempty; eauto.
    + reflexivity.
Qed.

Lemma split_noslash x : ~ In SLASH x -> split x = [x].
Proof.
  induction x as [|c x IH]; simpl; intros H; [reflexivity|].
  destruct (N.eqb_spec c SLASH) as [->|Hn]; [exfalso; apply H; left; reflexivity|].
  rewrite IH; [reflexivity|]. intros Hin; apply H; right; exact Hin.
Qed.

Lemma split_elems_noslash s : Forall (fun e => ~ In SLASH e) (split s).
Proof.
  induction s as [|c s IH]; simpl.
  - constructor; [intros []|constructor].
  - destruct (N.eqb_spec c SLASH) as [->|Hn].
    + constructor; [intros []|exact IH].
    + destruct (split s) as [|h t]; [constructor; [|constructor]|].
      * intros [H|[]]. congruence.
      * inversion IH; subst. constructor; [|assumption].
        intros [H|H]; [congruence|auto].
Qed.

Lemma join_cons x y l : join_slash (x :: y :: l) = x ++ SLASH :: join_slash (y :: l).
Proof. reflexivity. Qed.

Lemma join_single x : join_slash [x] = x.
Proof. reflexivity. Qed.

Lemma join_cases x l : join_slash (x :: l) = x \/ exists t, join_slash (x :: l) = x ++ SLASH :: t.
Proof. destruct l; [left; reflexivity | right; eexists; reflexivity]. Qed.

Lemma split_join l : Forall (fun e => ~ In SLASH e) l -> l <> [] -> split (join_slash l) = l.
Proof.
  induction l as [|x l IH]; intros H Hne; [congruence|].
  inversion H; subst. destruct l as [|y l].
  - rewrite join_single. apply split_noslash; assumption.
  - rewrite join_cons, split_app_slash, (split_noslash x) by assumption.
    simpl app. f_equal. apply IH; [assumption|discriminate].
Qed.

Lemma join_app l1 l2 : l1 <> [] -> l2 <> [] ->
  join_slash (l1 ++ l2) = join_slash l1 ++ SLASH :: join_slash l2.
Proof.
  induction l1 as [|x l1 IH]; intros H1 H2; [congruence|].
  destruct l1 as [|y l1].
  - destruct l2; [congruence|]. reflexivity.
  - change ((x :: y :: l1) ++ l2) with (x :: y :: (l1 ++ l2)).
    rewrite !join_cons. change (y :: l1 ++ l2) with ((y :: l1) ++ l2).
    rewrite IH by (assumption || discriminate). rewrite <- app_assoc. reflexivity.
Qed.

(* ------------------------------------------------------------------ the Clean loop *)

Lemma norm_app rt acc l1 l2 : norm rt acc (l1 ++ l2) = norm rt (norm rt acc l1) l2.
Proof.
  revert acc; induction l1 as [|e l1 IH]; intros acc; simpl; [reflexivity|].
  destruct (is_empty e); [apply IH|]. destruct (is_dot e); [apply IH|].
  destruct (is_dotdot e); [|apply IH].
  destruct acc as [|top acc']; [destruct rt; apply IH|].
  destruct (is_dotdot top); [destruct rt; apply IH|apply IH].
Qed.

Lemma norm_plain rt acc l : Forall plain_name l -> norm rt acc l = rev l ++ acc.
Proof.
  revert acc; induction l as [|e l IH]; intros acc H; simpl; [reflexivity|].
  inversion H; subst. destruct (plain_tests e) as (A & B & C); [assumption|].
  rewrite A, B, C, IH by assumption. rewrite <- app_assoc. reflexivity.
Qed.

Lemma norm_skip rt acc : norm rt acc [[]] = acc.
Proof. reflexivity. Qed.

Lemma norm_dd_step j rest :
  norm false (repeat DOTDOT j) (DOTDOT :: rest) = norm false (repeat DOTDOT (S j)) rest.
Proof. destruct j; reflexivity. Qed.

Lemma norm_ups j k : norm false (repeat DOTDOT j) (repeat DOTDOT k) = repeat DOTDOT (k + j).
Proof.
  revert j; induction k as [|k IH]; intros j; [reflexivity|].
  change (repeat DOTDOT (S k)) with (DOTDOT :: repeat DOTDOT k).
  rewrite norm_dd_step, IH. f_equal. lia.
Qed.

(* the shape of a cleaned element list: leading ".." (none when rooted), then ordinary names *)
Definition cform (rt : bool) (l : list bytes) : Prop :=
  exists k names, l = repeat DOTDOT k ++ names /\ Forall plain_name names /\ (rt = true -> k = 0%nat).

(* the same on the reversed working stack of the loop *)
Inductive stk : bool -> list bytes -> Prop :=
| stk_ups k : stk false (repeat DOTDOT k)
| stk_nil : stk true []
| stk_push rt x acc : plain_name x -> stk rt acc -> stk rt (x :: acc).

Lemma stk_cform rt acc : stk rt acc -> cform rt (rev acc).
Proof.
  induction 1 as [k| |rt x acc Hx _ IH].
  - exists k, []. rewrite rev_repeat', app_nil_r. repeat split; [constructor|discriminate].
  - exists 0%nat, []. repeat split; constructor.
  - destruct IH as (k & names & E & F & G). exists k, (names ++ [x]). simpl. rewrite E.
    rewrite <- app_assoc. repeat split; [|assumption].
    apply Forall_app; split; [assumption|constructor; [assumption|constructor]].
Qed.

Lemma stk_cons_inv rt top acc :
  stk rt (top :: acc) ->
  (rt = false /\ top = DOTDOT /\ exists k, acc = repeat DOTDOT k) \/ (plain_name top /\ stk rt acc).
Proof.
  intros H. remember (top :: acc) as l eqn:E. destruct H as [k| |rt x acc0 Hx Hacc].
  - destruct k as [|k]; [discriminate|]. simpl in E. injection E as <- <-.
    left. repeat split. exists k. reflexivity.
  - discriminate.
  - injection E as <- <-. right. split; assumption.
Qed.

Lemma norm_stk rt acc elems :
  Forall (fun e => ~ In SLASH e) elems -> stk rt acc -> stk rt (norm rt acc elems).
Proof.
  revert acc; induction elems as [|e elems IH]; intros acc Hns Hst; simpl; [assumption|].
  inversion Hns as [|? ? He Hrest]; subst.
  destruct (is_empty e) eqn:E1; [apply IH; assumption|].
  destruct (is_dot e) eqn:E2; [apply IH; assumption|].
  destruct (is_dotdot e) eqn:E3.
  - apply beqb_true in E3. subst e.
    destruct acc as [|top acc'].
    + destruct rt; [apply IH; assumption|]. apply IH; [assumption|]. apply (stk_ups 1).
    + destruct (stk_cons_inv _ _ _ Hst) as [(-> & -> & k & ->)|(Hx & Hacc)].
      * change (is_dotdot DOTDOT) with true. cbv iota.
        apply IH; [assumption|]. apply (stk_ups (S (S k))).
      * destruct Hx as (A & B & C & D). unfold is_dotdot at 1. rewrite (beqb_neq _ _ D).
        apply IH; assumption.
  - apply IH; [assumption|]. apply stk_push; [|assumption].
    repeat split; [apply beqb_false in E1| |apply beqb_false in E2|apply beqb_false in E3]; assumption.
Qed.

Lemma stk_init rt : stk rt [].
Proof. destruct rt; [apply stk_nil | apply (stk_ups 0)]. Qed.

Lemma clean_elems_cform s : cform (rooted s) (clean_elems s).
Proof.
  unfold clean_elems. apply stk_cform, norm_stk; [apply split_elems_noslash | apply stk_init].
Qed.

Lemma clean_unfold s : clean s = render (rooted s) (clean_elems s).
Proof. destruct s; reflexivity. Qed.

Lemma cform_good rt l : cform rt l -> Forall good l.
Proof.
  intros (k & names & -> & F & _). apply Forall_app; split.
  - apply Forall_forall. intros x Hx. apply repeat_spec in Hx. subst. apply dotdot_good.
  - eapply Forall_impl; [|exact F]. apply plain_good.
Qed.

Lemma cform_app rt l m : cform rt l -> Forall plain_name m -> cform rt (l ++ m).
Proof.
  intros (k & names & -> & F & G) Hm. exists k, (names ++ m). rewrite <- app_assoc.
  repeat split; [|assumption]. apply Forall_app; split; assumption.
Qed.

Lemma cform_plain rt l : Forall plain_name l -> cform rt l.
Proof. intros H. exists 0%nat, l. repeat split; assumption. Qed.

(* behind an element that is not "..", only ordinary names follow *)
Lemma cform_tail rt l1 x l2 : cform rt (l1 ++ x :: l2) -> x <> DOTDOT -> Forall plain_name (x :: l2).
Proof.
  intros (k & names & E & F & _) Hx. revert l1 E.
  induction k as [|k IH]; intros l1 E; simpl in E.
  - subst names. apply Forall_app in F. tauto.
  - destruct l1 as [|a l1]; simpl in E.
    + injection E as E _. congruence.
    + injection E as _ E. eapply IH; eauto.
Qed.

(* ------------------------------------------------------------------ rendering *)

Lemma good_head_not_slash x t : good x -> rooted (x ++ t) = false.
Proof.
  intros (A & B & _). destruct x as [|c x]; [congruence|]. simpl.
  apply N.eqb_neq. intros ->. apply B. left; reflexivity.
Qed.

Lemma join_nonempty x l : x <> [] -> join_slash (x :: l) <> [].
Proof.
  intros H. destruct (join_cases x l) as [->|[t ->]]; [assumption|].
  destruct x; [congruence|discriminate].
Qed.

Lemma rooted_join x l : good x -> rooted (join_slash (x :: l)) = false.
Proof.
  intros H. destruct (join_cases x l) as [->|[t ->]].
  - rewrite <- (app_nil_r x). apply good_head_not_slash; assumption.
  - apply good_head_not_slash; assumption.
Qed.

Lemma rooted_render rt l : cform rt l -> rooted (render rt l) = rt.
Proof.
  intros H. apply cform_good in H. unfold render. destruct rt; [reflexivity|].
  destruct l as [|x l]; [reflexivity|]. inversion H; subst. apply rooted_join; assumption.
Qed.

Lemma filter_nonempty l : Forall good l -> filter (fun e => negb (is_empty e)) l = l.
Proof.
  induction 1 as [|x l Hx _ IH]; simpl; [reflexivity|].
  destruct Hx as (A & _). unfold is_empty at 1. rewrite (beqb_neq _ _ A). simpl. f_equal. exact IH.
Qed.

Lemma good_noslash l : Forall good l -> Forall (fun e => ~ In SLASH e) l.
Proof. apply Forall_impl. intros a (_ & B & _); exact B. Qed.

Lemma comps_render rt l : cform rt l -> (rt = true \/ l <> []) -> comps (render rt l) = l.
Proof.
  intros H Hc. apply cform_good in H. unfold comps, render. destruct rt.
  - change (split (SLASH :: join_slash l)) with ([] :: split (join_slash l)).
    cbn [filter]. change (negb (is_empty [])) with false. cbv iota.
    destruct l as [|x l]; [reflexivity|].
    rewrite split_join; [apply filter_nonempty; assumption | apply good_noslash; assumption | discriminate].
  - destruct Hc as [Hc|Hc]; [discriminate|]. destruct l as [|x l]; [congruence|].
    rewrite split_join; [apply filter_nonempty; assumption | apply good_noslash; assumption | discriminate].
Qed.

Lemma singleton_app {A} (x : list A) (c : A) (t : list A) (d : A) : x <> [] -> x ++ c :: t <> [d].
Proof. destruct x as [|a [|b x]]; simpl; congruence. Qed.

(* a rendered non-empty element list is neither "." nor "/" *)
Lemma render_cons_not_special rt x l :
  cform rt (x :: l) -> render rt (x :: l) <> DOT /\ render rt (x :: l) <> [SLASH].
Proof.
  intros H. apply cform_good in H. inversion H as [|? ? (A & B & C) _]; subst.
  unfold render. destruct rt.
  - split; [discriminate|]. intros E. injection E as E. eapply join_nonempty; eauto.
  - destruct (join_cases x l) as [->|[t ->]].
    + split; [assumption|]. intros ->. apply B. left; reflexivity.
    + split; apply singleton_app; assumption.
Qed.

Lemma render_dot rt l : cform rt l -> render rt l = DOT -> rt = false /\ l = [].
Proof.
  intros H E. destruct l as [|x l].
  - destruct rt; [discriminate|auto].
  - exfalso. destruct (render_cons_not_special rt x l H) as [A _]. apply A. exact E.
Qed.

(* the elements Clean finds in a string that is already in cleaned form *)
Lemma clean_elems_render rt l : cform rt l -> clean_elems (render rt l) = l.
Proof.
  intros H. pose proof (cform_good _ _ H) as Hg.
  unfold clean_elems. rewrite (rooted_render _ _ H).
  destruct H as (k & names & -> & F & G).
  destruct rt.
  - rewrite (G eq_refl) in *. simpl app in *. unfold render.
    change (split (SLASH :: join_slash names)) with ([] :: split (join_slash names)).
    change (norm true [] ([] :: split (join_slash names))) with (norm true [] (split (join_slash names))).
    destruct names as [|x names]; [reflexivity|].
    rewrite split_join by (discriminate || (apply good_noslash; assumption)).
    rewrite norm_plain by assumption. rewrite app_nil_r. apply rev_involutive.
  - unfold render. destruct (repeat DOTDOT k ++ names) as [|x l] eqn:E; [reflexivity|].
    rewrite split_join by (discriminate || (apply good_noslash; assumption)).
    rewrite <- E, norm_app. change [] with (repeat DOTDOT 0) at 1.
    rewrite norm_ups, norm_plain by assumption.
    rewrite rev_app_distr, rev_involutive, rev_repeat'. f_equal. f_equal. lia.
Qed.

(* Clean is the identity on a string in cleaned form *)
Lemma clean_render rt l : cform rt l -> clean (render rt l) = render rt l.
Proof.
  intros H. rewrite clean_unfold, (rooted_render _ _ H), (clean_elems_render _ _ H). reflexivity.
Qed.

Lemma clean_idem s : clean (clean s) = clean s.
Proof. rewrite (clean_unfold s). apply clean_render, clean_elems_cform. Qed.

(* ------------------------------------------------------------------ Spec side *)

Lemma child_render rt l (n : bytes) : cform rt l -> plain_name n -> child (render rt l) n = render rt (l ++ [n]).
Proof.
  intros H Hn. unfold child. destruct l as [|x l].
  - destruct rt; reflexivity.
  - destruct (render_cons_not_special rt x l H) as (A & B).
    rewrite (beqb_neq _ _ A), (beqb_neq _ _ B). unfold render. destruct rt.
    + rewrite join_app by discriminate. reflexivity.
    + change ((x :: l) ++ [n]) with (x :: (l ++ [n])). cbv iota.
      change (x :: l ++ [n]) with ((x :: l) ++ [n]). rewrite join_app by discriminate. reflexivity.
Qed.

Lemma descend_render rt l names :
  cform rt l -> Forall plain_name names -> descend (render rt l) names = render rt (l ++ names).
Proof.
  intros H F. revert l H. induction F as [|n names Hn _ IH]; intros l H; simpl.
  - rewrite app_nil_r. reflexivity.
  - rewrite child_render by assumption. rewrite IH.
    + rewrite <- app_assoc. reflexivity.
    + apply cform_app; [assumption|constructor; [assumption|constructor]].
Qed.

(* ------------------------------------------------------------------ Rel pieces *)

Lemma strip_common_split la lb bs ts :
  strip_common la lb = (bs, ts) -> exists c, la = c ++ bs /\ lb = c ++ ts.
Proof.
  revert lb; induction la as [|x la IH]; intros lb H; simpl in H.
  - injection H as <- <-. exists []. auto.
  - destruct lb as [|y lb]; [injection H as <- <-; exists []; auto|].
    destruct (bytes_eqb_spec x y) as [->|Hn].
    + destruct (IH _ H) as (c & -> & ->). exists (y :: c). auto.
    + injection H as <- <-. exists []. auto.
Qed.

Lemma strip_common_app la ln : strip_common la (la ++ ln) = ([], ln).
Proof.
  induction la as [|x la IH]; simpl; [destruct ln; reflexivity|].
  rewrite bytes_eqb_refl. exact IH.
Qed.

Definition accepted (r : bytes) : bool := negb (prefixb UPSLASH r) && negb (bytes_eqb r DOTDOT).

Lemma ups_rejected k t :
  accepted (ups (S k)) = false /\ accepted (ups (S k) ++ SLASH :: t) = false.
Proof. destruct k; split; reflexivity. Qed.

Lemma join_dotdot_rejected l : accepted (join_slash (DOTDOT :: l)) = false.
Proof. destruct l; reflexivity. Qed.

Lemma join_plain_accepted x l : plain_name x -> accepted (join_slash (x :: l)) = true.
Proof.
  intros (A & B & C & D). unfold accepted. apply andb_true_iff; split; apply negb_true_iff.
  all: unfold SLASH in *.
  - destruct (prefixb UPSLASH (join_slash (x :: l))) eqn:E; [|reflexivity]. exfalso.
    apply prefixb_spec in E as [r E]. unfold UPSLASH in E. cbn [app] in E.
    destruct (join_cases x l) as [J|[t J]]; rewrite J in E; unfold SLASH in E.
    + apply B. rewrite E. right; right; left; reflexivity.
    + destruct x as [|c1 [|c2 [|c3 x]]]; simpl in E; try congruence.
      * injection E as E1 E2 E3. apply D. unfold DOTDOT. congruence.
      * injection E as E1 E2 E3. apply B. right; right; left. exact E3.
  - apply beqb_neq. destruct (join_cases x l) as [J|[t J]]; rewrite J; [assumption|]. unfold SLASH.
    destruct x as [|c1 [|c2 [|c3 x]]]; unfold DOTDOT; simpl; try congruence.
Qed.

(* what Rel sees of its (cleaned) base path *)
Lemma base_facts rt l (b := render rt l) :
  cform rt l ->
  let b' := if bytes_eqb b DOT then [] else b in
  rooted b' = rt /\ comps b' = l.
Proof.
  intros H. simpl. destruct (bytes_eqb_spec b DOT) as [E|E].
  - destruct (render_dot _ _ H E) as [-> ->]. split; reflexivity.
  - split; [apply rooted_render; assumption|]. apply comps_render; [assumption|].
    destruct rt; [left; reflexivity|right]. intros ->. apply E. reflexivity.
Qed.

(* ------------------------------------------------------------------ the theorems *)

Ltac reject U :=
  match type of U with
  | ?a = false => match goal with H : accepted _ = true |- _ => assert (a = true) by exact H; congruence end
  end.

Theorem resolve_confined : confined resolve.
Proof.
  intros root path p. unfold resolve, is_subpath.
  set (j := join2 root path).
  destruct (rel root (clean j)) as [rl|] eqn:Hrel; [|discriminate].
  fold (accepted rl). destruct (accepted rl) eqn:Hacc; [|discriminate].
  intros [= <-].
  unfold rel in Hrel. rewrite clean_idem in Hrel.
  pose proof (clean_elems_cform root) as Hb. pose proof (clean_elems_cform j) as Ht.
  rewrite (clean_unfold root), (clean_unfold j) in Hrel.
  unfold inside. rewrite (clean_unfold root), (clean_unfold j).
  set (rb := rooted root) in *. set (sb := clean_elems root) in *.
  set (rt := rooted j) in *. set (st := clean_elems j) in *.
  destruct (bytes_eqb_spec (render rt st) (render rb sb)) as [E|E].
  { exists []. split; [constructor|]. exact E. }
  destruct (base_facts rb sb Hb) as (R1 & C1). cbv zeta in R1, C1.
  rewrite R1, C1, (rooted_render _ _ Ht) in Hrel.
  destruct (Bool.eqb rb rt) eqn:Er; [|discriminate]. apply Bool.eqb_prop in Er.
  simpl negb in Hrel. cbv iota in Hrel.
  destruct st as [|t0 st'] eqn:Est.
  - (* the target is "." or "/" *)
    destruct rt.
    + (* "/" : no elements *)
      rewrite comps_render in Hrel by (assumption || (left; reflexivity)).
      destruct sb as [|x sb'].
      * exfalso. apply E. rewrite Er. reflexivity.
      * simpl strip_common in Hrel. cbv beta iota in Hrel. destruct (is_dotdot x); [discriminate|].
        injection Hrel as <-. destruct (ups_rejected (length sb') []) as [U _]. reject U.
    + (* "." : Rel walks over the one element "." *)
      change (comps (render false [])) with [DOT] in Hrel.
      destruct sb as [|x sb'].
      * exfalso. apply E. rewrite Er. reflexivity.
      * pose proof (cform_good _ _ Hb) as Hg. inversion Hg as [|? ? (_ & _ & Hx) _]; subst.
        simpl strip_common in Hrel. rewrite (beqb_neq _ _ Hx) in Hrel. cbv beta iota in Hrel.
        destruct (is_dotdot x); [discriminate|]. injection Hrel as <-.
        destruct (ups_rejected (length sb') (join_slash [DOT])) as [_ U]. reject U.
  - assert (Hne : t0 :: st' <> []) by discriminate.
    rewrite <- Est in *. clear Est.
    rewrite comps_render in Hrel by (assumption || (right; assumption)).
    destruct (strip_common sb st) as [bs ts] eqn:Hs.
    destruct (strip_common_split _ _ _ _ Hs) as (c & Eb & Et).
    destruct bs as [|x bs']; cbv beta iota in Hrel.
    + rewrite app_nil_r in Eb. subst c. exists ts. injection Hrel as <-.
      assert (Hts : Forall plain_name ts).
      { destruct ts as [|y ts']; [constructor|].
        apply (cform_tail rt sb y ts'); [rewrite <- Et; assumption|].
        intros ->. rewrite join_dotdot_rejected in Hacc. discriminate. }
      split; [assumption|]. rewrite descend_render by assumption. rewrite Er, Et. reflexivity.
    + exfalso. destruct (is_dotdot x); [discriminate|].
      destruct ts as [|y ts']; injection Hrel as <-.
      * destruct (ups_rejected (length bs') []) as [U _]. reject U.
      * destruct (ups_rejected (length bs') (join_slash (y :: ts'))) as [_ U]. reject U.
Qed.

(* the cleaned join of a root with a path made of ordinary names *)
Lemma clean_join_plain root names :
  Forall plain_name names ->
  clean (join2 root (join_slash names)) = render (rooted root) (clean_elems root ++ names).
Proof.
  intros F. unfold join2. destruct root as [|c root].
  - change (rooted []) with false. change (clean_elems []) with (@nil bytes). simpl app.
    destruct names as [|x names].
    + reflexivity.
    + pose proof (cform_plain false _ F) as H.
      assert (J : join_slash (x :: names) = render false (x :: names)) by reflexivity.
      destruct (join_slash (x :: names)) as [|d s] eqn:E.
      * exfalso. inversion F as [|? ? (A & _) _]; subst. eapply join_nonempty; eauto.
      * rewrite J. rewrite !clean_render by assumption. reflexivity.
  - rewrite clean_idem. set (r := c :: root).
    rewrite clean_unfold.
    assert (Hr : rooted (r ++ SLASH :: join_slash names) = rooted r) by reflexivity.
    rewrite Hr. f_equal. unfold clean_elems. rewrite Hr, split_app_slash, norm_app.
    assert (Hn : forall acc, norm (rooted r) acc (split (join_slash names)) = rev names ++ acc).
    { intros acc. destruct names as [|x names]; [reflexivity|].
      rewrite split_join; [apply norm_plain; assumption| |discriminate].
      apply good_noslash. eapply Forall_impl; [|exact F]. apply plain_good. }
    rewrite Hn, rev_app_distr, rev_involutive. reflexivity.
Qed.

Theorem resolve_complete root names :
  Forall plain_name names ->
  resolve root (join_slash names) = Some (descend (clean root) names).
Proof.
  intros F. unfold resolve, is_subpath.
  rewrite (clean_join_plain root names F).
  pose proof (clean_elems_cform root) as Hb.
  pose proof (cform_app _ _ _ Hb F) as Ht.
  rewrite (clean_unfold root). rewrite descend_render by assumption.
  set (rb := rooted root) in *. set (sb := clean_elems root) in *.
  unfold rel. rewrite (clean_render _ _ Ht), (clean_unfold root). fold rb sb.
  destruct (bytes_eqb_spec (render rb (sb ++ names)) (render rb sb)) as [E|E]; [reflexivity|].
  destruct (base_facts rb sb Hb) as (R1 & C1). cbv zeta in R1, C1.
  rewrite R1, C1, (rooted_render _ _ Ht), Bool.eqb_reflx. cbn [negb].
  rewrite comps_render; [|assumption|].
  - rewrite strip_common_app. fold (accepted (join_slash names)).
    destruct names as [|x names].
    + exfalso. apply E. rewrite app_nil_r. reflexivity.
    + inversion F; subst. rewrite join_plain_accepted by assumption. reflexivity.
  - destruct rb; [left; reflexivity|right]. intros Z. apply E. rewrite Z.
    apply app_eq_nil in Z. destruct Z as [-> _]. reflexivity.
Qed.

(* ------------------------------------------------------------------ facts about Clean's result *)

(* every element of a cleaned path is non-empty, free of separators and not "." ;
   ".." occurs only as a leading run of a non-rooted path *)
Theorem clean_shape s :
  exists k names,
    clean s = render (rooted s) (repeat DOTDOT k ++ names) /\
    Forall plain_name names /\ (rooted s = true -> k = 0%nat).
Proof.
  destruct (clean_elems_cform s) as (k & names & E & F & G).
  exists k, names. rewrite clean_unfold, E. auto.
Qed.

(* an opened path has no "..", "." or empty element behind the root's own elements *)
Theorem inside_elements root p :
  inside root p ->
  exists names, Forall plain_name names /\
    p = render (rooted root) (clean_elems root ++ names).
Proof.
  intros (names & F & ->). exists names. split; [assumption|].
  rewrite clean_unfold. apply descend_render; [apply clean_elems_cform|assumption].
Qed.

Lemma resolve_clean root path p : resolve root path = Some p -> clean p = p.
Proof.
  unfold resolve.
  destruct (is_subpath root (clean (join2 root path))) as [[|]|]; try discriminate.
  intros [= <-]. apply clean_idem.
Qed.

(* ------------------------------------------------------------------ positions *)

(* the position held by the working stack of the Clean loop *)
Definition pos_of acc : position :=
  (length (filter is_dotdot acc), filter (fun e => negb (is_dotdot e)) acc).

Lemma pos_of_ups k : pos_of (repeat DOTDOT k) = (k, []).
Proof.
  induction k as [|k IH]; [reflexivity|]. unfold pos_of in *. cbn [repeat filter].
  change (is_dotdot DOTDOT) with true. cbn [negb length]. injection IH as E1 E2.
  rewrite E1, E2. reflexivity.
Qed.

Lemma pos_of_push x acc :
  plain_name x -> pos_of (x :: acc) = (fst (pos_of acc), x :: snd (pos_of acc)).
Proof.
  intros Hx. destruct (plain_tests x Hx) as (_ & _ & C). unfold pos_of. cbn [filter].
  rewrite C. reflexivity.
Qed.

Lemma fold_step_norm rt elems :
  Forall (fun e => ~ In SLASH e) elems ->
  forall acc, stk rt acc -> fold_left (step rt) elems (pos_of acc) = pos_of (norm rt acc elems).
Proof.
  induction 1 as [|e elems He _ IH]; intros acc Hst; [reflexivity|].
  cbn [fold_left norm]. unfold is_empty, is_dot.
  assert (Hstep : step rt (pos_of acc) e =
                  pos_of (norm rt acc [e])).
  { cbn [norm]. unfold is_empty, is_dot. unfold step. destruct (pos_of acc) as [u d] eqn:Ep.
    destruct (bytes_eqb e []) eqn:E1; [symmetry; exact Ep|].
    destruct (bytes_eqb e DOT) eqn:E2; [symmetry; exact Ep|].
    fold (is_dotdot e). destruct (is_dotdot e) eqn:E3.
    - apply beqb_true in E3. subst e. destruct acc as [|top acc'].
      + unfold pos_of in Ep. simpl in Ep. injection Ep as <- <-.
        destruct rt; reflexivity.
      + destruct (stk_cons_inv _ _ _ Hst) as [(-> & -> & k & ->)|(Hx & Hacc)].
        * change (DOTDOT :: repeat DOTDOT k) with (repeat DOTDOT (S k)) in *.
          rewrite pos_of_ups in Ep. injection Ep as <- <-.
          change (is_dotdot DOTDOT) with true. cbv iota.
          change (DOTDOT :: repeat DOTDOT (S k)) with (repeat DOTDOT (S (S k))).
          rewrite pos_of_ups. reflexivity.
        * rewrite (pos_of_push _ _ Hx) in Ep. injection Ep as <- <-.
          destruct (plain_tests top Hx) as (_ & _ & C). rewrite C.
          unfold pos_of; reflexivity.
    - assert (Hp : plain_name e).
      { repeat split; [apply beqb_false in E1| |apply beqb_false in E2|apply beqb_false in E3]; assumption. }
      rewrite (pos_of_push _ _ Hp), Ep. reflexivity. }
  rewrite Hstep.
  change (norm rt acc (e :: elems)) with (norm rt acc ([e] ++ elems)).
  fold (is_empty e) (is_dot e).
  change (if is_empty e then norm rt acc elems
          else if is_dot e then norm rt acc elems
          else if is_dotdot e
               then match acc with
                    | [] => if rt then norm rt acc elems else norm rt (e :: acc) elems
                    | top :: acc' =>
                        if is_dotdot top
                        then if rt then norm rt acc elems else norm rt (e :: acc) elems
                        else norm rt acc' elems
                    end
               else norm rt (e :: acc) elems) with (norm rt acc ([e] ++ elems)).
  rewrite norm_app. apply IH. apply norm_stk; [constructor; [assumption|constructor]|assumption].
Qed.

Lemma position_of_elems s : position_of s = pos_of (rev (clean_elems s)).
Proof.
  unfold position_of, clean_elems. rewrite rev_involutive.
  change (0%nat, @nil bytes) with (pos_of []).
  apply fold_step_norm; [apply split_elems_noslash|apply stk_init].
Qed.

Lemma filter_plain_dd l : Forall plain_name l -> filter is_dotdot l = [].
Proof.
  induction 1 as [|x l Hx _ IH]; [reflexivity|]. cbn [filter].
  destruct (plain_tests x Hx) as (_ & _ & C). rewrite C. exact IH.
Qed.

Lemma filter_plain_keep l : Forall plain_name l -> filter (fun e => negb (is_dotdot e)) l = l.
Proof.
  induction 1 as [|x l Hx _ IH]; [reflexivity|]. cbn [filter].
  destruct (plain_tests x Hx) as (_ & _ & C). rewrite C. cbn [negb]. rewrite IH. reflexivity.
Qed.

Lemma pos_of_app_plain l acc :
  Forall plain_name l -> pos_of (l ++ acc) = (fst (pos_of acc), l ++ snd (pos_of acc)).
Proof.
  intros F. unfold pos_of. rewrite !filter_app, (filter_plain_dd _ F), (filter_plain_keep _ F).
  reflexivity.
Qed.

Theorem inside_below root p : inside root p -> below root p.
Proof.
  intros Hin. destruct (inside_elements _ _ Hin) as (names & F & ->).
  pose proof (clean_elems_cform root) as Hb. pose proof (cform_app _ _ _ Hb F) as Ht.
  split; [apply rooted_render; assumption|].
  exists names. split; [assumption|].
  rewrite (position_of_elems root), position_of_elems, (clean_elems_render _ _ Ht).
  rewrite rev_app_distr. apply pos_of_app_plain. apply Forall_rev. assumption.
Qed.
