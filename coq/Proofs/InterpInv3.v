(* Proofs/InterpInv3.v — the invariant through the built-in functions (func_provider.go) of
   Model/Interp.v and make_errobj (rules and invariant: Proofs/InterpInv.v). *)
From Coq Require Import List String NArith ZArith Bool Arith Lia.
From Ecal Require Import Common.Bytes Common.Ast gen.Tokens Spec.ParseSpec Model.Interp Proofs.InterpShape
  Proofs.InterpInv Proofs.InterpInv2.
Import ListNotations.
Local Open Scope string_scope. Local Open Scope list_scope. Local Open Scope nat_scope.

Ltac lens :=
  repeat (rewrite app_length || rewrite firstn_length || rewrite skipn_length || rewrite repeat_length);
  cbn [length]; lia.

Section I3. Context {NO : NumOps}.

  Lemma vals_ok_cons st v l : vals_ok st (v :: l) -> val_ok st v /\ vals_ok st l.
  Proof. intros H. inversion H; subst. split; assumption. Qed.
  Lemma Qcr_rt st v ty : val_ok st v -> Qcr (v, Some (rt_err ty)) st.
  Proof. intros H. split; [exact H | exact I]. Qed.
  Lemma Qcr_runtime st v : val_ok st v -> Qcr (v, e_runtime) st.
  Proof. intros H. split; [exact H | exact I]. Qed.
  Lemma Qcr_none st v : val_ok st v -> Qcr (v, None) st.
  Proof. intros H. split; [exact H | exact I]. Qed.

  Ltac dflt := apply T_ret; apply Qcr_runtime; exact I.

  Lemma T_assert_num st v : T st (assert_num v) Qtrue.
  Proof.
    destruct v; cbn [assert_num]; try (apply T_ret; exact I).
    - unfold of_opt_u. destruct (n_parse_str s); [apply T_ret; exact I | apply T_unmod].
    - apply T_unmod.
  Qed.

  Lemma T_b_range st self i args : is_ok st i -> T st (b_range self i args) Qcr.
  Proof.
    intros Hi. unfold b_range. destruct args as [|a0 rest]; [dflt|].
    apply Tb_get_is; [exact Hi|]. intros m.
    destruct (is_get self m) as [r|]; cbv beta zeta.
    - tbind (apply T_set_is; exact Hi) as ? HQ. apply T_ret. apply Qcr_rt. exact I.
    - assert (F : forall st fr to step, is_ok st i ->
                  T st (bind (set_is i (is_put self (mkR fr to step fr) m))
                             (fun _ => ret (VNum fr, Some (rt_err T_ISITER)))) Qcr).
      { intros st0 fr to step H0. tbind (apply T_set_is; exact H0) as ? HQ.
        apply T_ret. apply Qcr_rt. exact I. }
      destruct rest as [|a1 rest2].
      + tbind (apply T_assert_num) as o HQ. destruct o as [to|]; [apply F; exact Hi | dflt].
      + tbind (apply T_assert_num) as o0 HQ0. destruct o0 as [fr|]; [|dflt].
        tbind (apply T_assert_num) as o1 HQ1. destruct o1 as [to|]; [|dflt].
        destruct rest2 as [|a2 rest3]; [apply F; exact Hi|].
        tbind (apply T_assert_num) as o2 HQ2. destruct o2 as [step|]; [apply F; exact Hi | dflt].
  Qed.

  Lemma T_b_len st args : vals_ok st args -> T st (b_len args) Qcr.
  Proof.
    intros H. unfold b_len. destruct args as [|v rest]; [dflt|].
    apply vals_ok_cons in H. destruct H as [Hv Hr].
    destruct v as [| | | |a len|id| |]; try (apply T_ret; apply Qcr_none; exact I); try dflt.
    eapply Tb_get_map; [exact Hv|]. intros m E Hm. apply T_ret. apply Qcr_none. exact I.
  Qed.

  Lemma T_b_del st args : vals_ok st args -> T st (b_del args) Qcr.
  Proof.
    intros H. unfold b_del. destruct args as [|v rest]; [dflt|].
    apply vals_ok_cons in H. destruct H as [Hv Hr].
    destruct v; try dflt.
    - (* list *)
      destruct rest as [|ix rest]; [dflt|]. destruct rest as [|y rest]; [|dflt].
      tbind (apply T_assert_num) as o HQ. destruct o as [x|]; [|dflt]. cbv zeta.
      destruct ((0 <=? n_trunc x)%Z && (n_trunc x <? Z.of_nat len)%Z) eqn:Eb; [|dflt].
      apply andb_true_iff in Eb. destruct Eb as [Eb1 Eb2].
      apply Z.leb_le in Eb1. apply Z.ltb_lt in Eb2.
      eapply Tb_get_arr; [exact Hv|]. intros cells E L V.
      destruct (length cells <? len) eqn:E1; [apply Nat.ltb_lt in E1; lia|].
      apply Tb_lift. unfold go_slice_bound.
      destruct ((0 <=? n_trunc x)%Z && (n_trunc x <=? Z.of_nat (length cells))%Z) eqn:Eg1; [|exact I].
      apply Tb_lift.
      destruct ((0 <=? n_trunc x + 1)%Z && (n_trunc x + 1 <=? Z.of_nat len)%Z) eqn:Eg2; [|exact I].
      tbind (eapply T_set_arr; [exact E| |]) as ? HQ2.
      + lens.
      + apply Forall_app; split; [apply Forall_firstn; exact V|].
        apply Forall_app; split; [apply Forall_skipn, Forall_firstn; exact V | apply Forall_skipn; exact V].
      + apply T_ret. apply Qcr_none. eexists. split; [exact HQ2|]. lens.
    - (* map *)
      destruct rest as [|k rest]; [dflt|]. destruct rest as [|y rest]; [|dflt].
      tbind (apply T_sprint_m) as s HQ.
      eapply Tb_get_map; [exact Hv|]. intros m E Hm. cbv zeta.
      tbind (apply T_set_map; [exact Hv | apply m_del_ok; exact Hm]) as ? HQ2.
      apply T_ret. apply Qcr_none. exact Hv.
  Qed.

  Lemma T_b_add st args : vals_ok st args -> T st (b_add args) Qcr.
  Proof.
    intros H. unfold b_add. destruct args as [|v0 rest]; [dflt|].
    apply vals_ok_cons in H. destruct H as [Hv Hr].
    destruct v0; try dflt.
    destruct rest as [|v rest]; [dflt|].
    apply vals_ok_cons in Hr. destruct Hr as [Hv2 Hr].
    assert (App : T st (bind (slice_append arr len [v]) (fun r => ret (VList (fst r) (snd r), None))) Qcr).
    { tbind (apply T_slice_append; [exact Hv | constructor; [exact Hv2 | constructor]]) as r HQ.
      destruct HQ as [HQ1 HQ2]. apply T_ret. apply Qcr_none. exact HQ1. }
    destruct rest as [|ix rest]; [exact App|]. destruct rest as [|y rest]; [|exact App]. clear App.
    tbind (apply T_assert_num) as o HQ. destruct o as [x|]; [|dflt]. cbv zeta.
    destruct ((0 <=? n_trunc x)%Z && (n_trunc x <=? Z.of_nat len)%Z) eqn:Eb; [|dflt].
    apply andb_true_iff in Eb. destruct Eb as [Eb1 Eb2].
    apply Z.leb_le in Eb1. apply Z.leb_le in Eb2.
    tbind (apply T_slice_append; [exact Hv | constructor; [exact I | constructor]]) as r HQ1.
    destruct HQ1 as [Ha Hl]. cbn [length] in Hl.
    eapply Tb_get_arr; [exact Ha|]. intros cells E L V.
    apply Tb_lift. unfold go_slice_bound.
    destruct ((0 <=? n_trunc x + 1)%Z && (n_trunc x + 1 <=? Z.of_nat (S len))%Z) eqn:Eg; [|exact I].
    tbind (eapply T_set_arr; [exact E| |]) as ? HQ2.
    - lens.
    - apply Forall_app; split; [apply Forall_firstn; exact V|].
      apply Forall_app; split; [constructor; [exact Hv2 | constructor]|].
      apply Forall_app; split; [apply Forall_skipn, Forall_firstn; exact V | apply Forall_skipn; exact V].
    - apply T_ret. apply Qcr_none. eexists. split; [exact HQ2|]. lens.
  Qed.

  Lemma T_concat_go args : forall st a len, arr_ok st a len -> vals_ok st args -> T st (concat_go a len args) Qcr.
  Proof.
    induction args as [|v r IH]; intros st a len Ha Hvs; cbn [concat_go].
    - apply T_ret. apply Qcr_none. exact Ha.
    - apply vals_ok_cons in Hvs. destruct Hvs as [Hv Hr].
      destruct v as [| | | |b blen| | |]; try dflt.
      eapply Tb_get_arr; [exact Hv|]. intros cells E L V.
      destruct (length cells <? blen) eqn:E1; [apply Nat.ltb_lt in E1; lia|].
      tbind (apply T_slice_append; [exact Ha | apply Forall_firstn; exact V]) as p HQ.
      destruct HQ as [HQ1 _]. apply IH; [exact HQ1 | exact Hr].
  Qed.

  Lemma T_b_concat st args : vals_ok st args -> T st (b_concat args) Qcr.
  Proof.
    intros H. unfold b_concat. destruct args as [|x [|y r]]; try dflt.
    tbind (apply T_alloc_arr; constructor) as a HQ.
    apply T_concat_go; [|exact H]. eexists. split; [exact HQ|]. cbn [length]. lia.
  Qed.

  Lemma T_b_raise st args : vals_ok st args -> T st (b_raise args) Qcr.
  Proof.
    intros H. unfold b_raise. destruct args as [|a0 rest].
    { apply T_ret. split; exact I. }
    apply vals_ok_cons in H. destruct H as [Ha0 Hr].
    tbind (apply T_sprint_m) as ty HQ.
    destruct rest as [|a1 rest2].
    { apply T_ret. split; exact I. }
    apply vals_ok_cons in Hr. destruct Hr as [Ha1 Hr2].
    assert (K : forall detail st1, vals_ok st1 rest2 ->
                T st1 (ret (VNull, Some (ERaised ty detail (match rest2 with d :: _ => d | [] => VNull end)))) Qcr).
    { intros detail st1 Hr. apply T_ret. split; [exact I|]. cbn [snd oerr_ok err_ok].
      destruct rest2 as [|d rest3]; [exact I|]. apply vals_ok_cons in Hr. apply Hr. }
    destruct a1; [apply Tb_ret; apply K; exact Hr2 | ..];
      (tbind (apply T_sprint_m) as detail HQ2; apply K; exact Hr2).
  Qed.

  Lemma T_b_type st args : T st (b_type args) Qcr.
  Proof.
    unfold b_type. destruct args as [|v r]; [dflt|]. apply T_ret. apply Qcr_none. exact I.
  Qed.

  Lemma T_make_errobj st e : err_ok st e -> T st (make_errobj e) Qval.
  Proof.
    intros He. unfold make_errobj. cbv beta zeta.
    tbind (apply T_alloc_map; destruct e; cbn [err_ok] in He; cbn [app];
           repeat constructor; cbn [fst snd]; try exact I; exact He) as id HQ.
    apply T_ret. exact HQ.
  Qed.
End I3.

Print Assumptions T_b_add.
Print Assumptions T_b_del.
Print Assumptions T_concat_go.
Print Assumptions T_make_errobj.
