(* Proofs/InterpExpr.v — C03 on the unified interpreter model: the operator components of
   Model/Interp.v (operands2 num_op num_val bool_val bool_op str_op cmp_op gen_op in_op notin_op
   mod_op and their dispatch in eval_node) compute the operator semantics of Spec/InterpExprSpec.v,
   for every implementation NO of the float64 operations, every evaluator of the operands, every
   tree, state and fuel. *)
From Coq Require Import List String NArith ZArith Bool Arith Lia.
From Ecal Require Import Common.Bytes Common.Ast gen.Tokens Model.Interp
  Spec.ExprGrammarSpec Spec.InterpExprSpec.
Import ListNotations.
Local Open Scope nat_scope.

Section P.
  Context {NO : NumOps}.

  (* ---------------------------------------------------------------- outcome combinators *)
  Lemma binary_outcome_ext (e1 e2 : M value) op op' :
    (forall st a b, op st a b = op' st a b) ->
    forall st, binary_outcome e1 e2 op st = binary_outcome e1 e2 op' st.
  Proof.
    intros Hop st. unfold binary_outcome.
    destruct (e1 st) as [r1 st1]. destruct r1 as [v1|e|s| |w|w]; try reflexivity.
    destruct (e2 st1) as [r2 st2]. destruct r2 as [v2|e|s| |w|w]; try reflexivity.
    rewrite Hop. reflexivity.
  Qed.

  (* the monadic reading: the combinator is the bind chain of the model *)
  Lemma binary_outcome_bind (e1 e2 : M value) op st :
    binary_outcome e1 e2 op st =
    bind e1 (fun v1 => bind e2 (fun v2 => fun s => (op s v1 v2, s))) st.
  Proof.
    reflexivity.
  Qed.

  (* ---------------------------------------------------------------- pure helper facts *)
  Definition num2 (pop : num -> num -> res value) (a b : value) : res value :=
    match a with
    | VNum x => match b with VNum y => pop x y | _ => RErr (rt_err T_NOTNUM) end
    | _ => RErr (rt_err T_NOTNUM)
    end.
  Definition bool2 (pop : bool -> bool -> bool) (a b : value) : res value :=
    match a with
    | VBool x => match b with VBool y => ROk (VBool (pop x y)) | _ => RErr (rt_err T_NOTBOOL) end
    | _ => RErr (rt_err T_NOTBOOL)
    end.

  Lemma eq_spec_unfold a b :
    eq_spec a b = if uncomparable a b then RErr (rt_err T_RUNTIME) else go_iface_eq a b.
  Proof. destruct a, b; reflexivity. Qed.

  Lemma sprint_m_run v st :
    sprint_m v st = (match sprint 8 st v with Some s => ROk s | None => RUnmod W_SPRINT end, st).
  Proof.
    unfold sprint_m, bind, get_st, of_opt_u, ret, unmod, lift, W_SPRINT.
    destruct (sprint 8 st v); reflexivity.
  Qed.

  Lemma get_arr_run a st :
    get_arr a st = (match nth_error (st_arrs st) a with
                    | Some c => ROk c
                    | None => RInvalid "dangling array reference"
                    end, st).
  Proof.
    unfold get_arr, bind, get_st, of_opt, ret, invalid, lift.
    destruct (nth_error (st_arrs st) a); reflexivity.
  Qed.

  (* ---------------------------------------------------------------- the helpers of rt_general.go *)
  Section Ev.
    Variable ev : evalT.
    Variables (path : list nat) (c1 c2 : node) (sc is : nat).
    Let e1 : M value := ev (0 :: path) c1 sc is.
    Let e2 : M value := ev (1 :: path) c2 sc is.

    Lemma operands2_run st :
      operands2 ev path [c1; c2] sc is st =
      match e1 st with
      | (ROk v1, st1) =>
        match e2 st1 with
        | (ROk v2, st2) => (ROk (v1, v2), st2)
        | (RErr e, st2) => (RErr e, st2)
        | (RPanic s, st2) => (RPanic s, st2)
        | (RFuel, st2) => (RFuel, st2)
        | (RUnmod w, st2) => (RUnmod w, st2)
        | (RInvalid w, st2) => (RInvalid w, st2)
        end
      | (RErr e, st1) => (RErr e, st1)
      | (RPanic s, st1) => (RPanic s, st1)
      | (RFuel, st1) => (RFuel, st1)
      | (RUnmod w, st1) => (RUnmod w, st1)
      | (RInvalid w, st1) => (RInvalid w, st1)
      end.
    Proof.
      unfold operands2, bind, ret, e1, e2.
      destruct (ev (0 :: path) c1 sc is st) as [r1 st1]. destruct r1 as [v1|e|s| |w|w]; try reflexivity.
      all: try (destruct (ev (1 :: path) c2 sc is st1) as [r2 st2]; destruct r2 as [v2|e|s| |w|w]; reflexivity).
    Qed.

    (* a helper that continues the operand pair with a state-preserving pure function *)
    Lemma after_operands2 (k : value * value -> M value) (op : state -> value -> value -> res value) :
      (forall v1 v2 st, k (v1, v2) st = (op st v1 v2, st)) ->
      forall st, bind (operands2 ev path [c1; c2] sc is) k st = binary_outcome e1 e2 op st.
    Proof.
      intros Hk st. unfold bind at 1. rewrite operands2_run. unfold binary_outcome.
      destruct (e1 st) as [r1 st1]. destruct r1 as [v1|e|s| |w|w]; try reflexivity.
      destruct (e2 st1) as [r2 st2]. destruct r2 as [v2|e|s| |w|w]; try reflexivity.
      apply Hk.
    Qed.

    Lemma num_op_outcome (op : num -> num -> M value) (pop : num -> num -> res value) :
      (forall x y st, op x y st = (pop x y, st)) ->
      forall st, num_op ev path [c1; c2] sc is op st = binary_outcome e1 e2 (fun _ => num2 pop) st.
    Proof.
      intros Hop st. unfold num_op. apply after_operands2.
      intros v1 v2 s. cbn [fst snd]. unfold num2.
      destruct v1; try reflexivity. destruct v2; try reflexivity. apply Hop.
    Qed.

    Lemma bool_op_outcome (pop : bool -> bool -> bool) st :
      bool_op ev path [c1; c2] sc is pop st = binary_outcome e1 e2 (fun _ => bool2 pop) st.
    Proof.
      unfold bool_op. apply after_operands2.
      intros v1 v2 s. cbn [fst snd]. unfold bool2.
      destruct v1; try reflexivity. destruct v2; reflexivity.
    Qed.

    Lemma str_op_outcome (f : bytes -> bytes -> bool) st :
      str_op ev path [c1; c2] sc is f st = binary_outcome e1 e2 (text2 f) st.
    Proof.
      unfold str_op. apply after_operands2.
      intros v1 v2 s. cbn [fst snd]. unfold bind. rewrite sprint_m_run. unfold text2.
      destruct (sprint 8 s v1) as [s1|]; [|reflexivity].
      rewrite sprint_m_run. destruct (sprint 8 s v2) as [s2|]; reflexivity.
    Qed.

    Lemma gen_op_outcome (neg : bool) st :
      gen_op ev path [c1; c2] sc is neg st =
      binary_outcome e1 e2 (fun _ a b => rmap (fun r => VBool (xorb neg r)) (eq_spec a b)) st.
    Proof.
      unfold gen_op. apply after_operands2.
      intros v1 v2 s. cbn [fst snd]. rewrite eq_spec_unfold.
      destruct (uncomparable v1 v2); [reflexivity|].
      unfold bind, lift, ret. destruct (go_iface_eq v1 v2); reflexivity.
    Qed.

    Lemma in_loop_run v : forall l st,
      in_loop v l st = (rmap (fun b => VBool b) (mem_spec v l), st).
    Proof.
      induction l as [|i r IH]; intros st; [reflexivity|].
      cbn [in_loop mem_spec]. rewrite eq_spec_unfold.
      destruct (uncomparable v i); [reflexivity|].
      unfold bind, lift. destruct (go_iface_eq v i) as [b|e|s| |w|w]; try reflexivity.
      destruct b; [reflexivity|]. apply IH.
    Qed.

    Lemma in_op_outcome st :
      in_op ev path [c1; c2] sc is st = binary_outcome e1 e2 (in_spec false) st.
    Proof.
      unfold in_op. apply after_operands2.
      intros v1 v2 s. cbn [fst snd]. unfold in_spec, items_of.
      destruct v2; try reflexivity.
      unfold bind. rewrite get_arr_run.
      destruct (nth_error (st_arrs s) arr) as [cells|]; [|reflexivity].
      destruct (length cells <? len); [reflexivity|].
      rewrite in_loop_run. destruct (mem_spec v1 (firstn len cells)) as [b|e|s0| |w|w]; try reflexivity.
      destruct b; reflexivity.
    Qed.

    Lemma in_spec_neg st a b :
      match in_spec false st a b with
      | ROk v => exists r, v = VBool r /\ in_spec true st a b = ROk (VBool (negb r))
      | other => in_spec true st a b = other
      end.
    Proof.
      unfold in_spec. destruct (items_of st b) as [items|e|s| |w|w]; try reflexivity.
      destruct (mem_spec a items) as [r|e|s| |w|w]; try reflexivity.
      cbn [rmap]. exists r. destruct r; split; reflexivity.
    Qed.

    Lemma notin_op_outcome st :
      notin_op ev path [c1; c2] sc is st = binary_outcome e1 e2 (in_spec true) st.
    Proof.
      unfold notin_op. unfold bind at 1. rewrite in_op_outcome. unfold binary_outcome.
      destruct (e1 st) as [r1 st1]. destruct r1 as [v1|e|s| |w|w]; try reflexivity.
      destruct (e2 st1) as [r2 st2]. destruct r2 as [v2|e|s| |w|w]; try reflexivity.
      pose proof (in_spec_neg st2 v1 v2) as H.
      destruct (in_spec false st2 v1 v2) as [v|e|s| |w|w]; try (rewrite H; reflexivity).
      destruct H as (r & -> & ->). reflexivity.
    Qed.

    Lemma mod_op_outcome st :
      mod_op ev path [c1; c2] sc is st = binary_outcome e1 e2 (fun _ => num2 (arith OModInt)) st.
    Proof.
      unfold mod_op. apply num_op_outcome.
      intros x y s. unfold arith.
      destruct (n_trunc y =? 0)%Z eqn:E; [reflexivity|].
      unfold bind, lift, go_mod. rewrite E. reflexivity.
    Qed.

    (* numOp, and on ANY error of it strOp, which evaluates both operands again *)
    Lemma cmp_op_outcome (o : binop) st :
      cmp_op ev path [c1; c2] sc is (num_cmp o) (str_cmp o) st = comparison_outcome o e1 e2 st.
    Proof.
      unfold cmp_op. unfold bind at 1. unfold attempt.
      rewrite (num_op_outcome (fun x y => ret (VBool (num_cmp o x y)))
                              (fun x y => ROk (VBool (num_cmp o x y)))) by reflexivity.
      unfold comparison_outcome, cmp_text. unfold binary_outcome at 1.
      destruct (e1 st) as [r1 st1]. destruct r1 as [v1|e|s| |w|w]; try reflexivity.
      - destruct (e2 st1) as [r2 st2]. destruct r2 as [v2|e|s| |w|w]; try reflexivity.
        + destruct v1; try apply str_op_outcome.
          destruct v2; try apply str_op_outcome. reflexivity.
        + apply str_op_outcome.
      - apply str_op_outcome.
    Qed.

    Lemma num_val_outcome (f : num -> num) st :
      num_val ev path [c1] sc is f st =
      unary_outcome e1 (fun a => match a with VNum x => ROk (VNum (f x)) | _ => RErr (rt_err T_NOTNUM) end) st.
    Proof.
      unfold num_val, bind, unary_outcome, e1.
      destruct (ev (0 :: path) c1 sc is st) as [r1 st1]. destruct r1 as [v1|e|s| |w|w]; try reflexivity.
      destruct v1; reflexivity.
    Qed.

    Lemma bool_val_outcome st :
      bool_val ev path [c1] sc is st = unary_outcome e1 (op_pre PNot) st.
    Proof.
      unfold bool_val, bind, unary_outcome, e1.
      destruct (ev (0 :: path) c1 sc is st) as [r1 st1]. destruct r1 as [v1|e|s| |w|w]; try reflexivity.
      destruct v1; reflexivity.
    Qed.
  End Ev.

  (* ---------------------------------------------------------------- op_bin against the helpers *)
  Lemma op_bin_arith o : is_arith o = true -> forall st a b, op_bin o st a b = num2 (arith o) a b.
  Proof. intros H st a b. destruct o; try discriminate; destruct a; try reflexivity; destruct b; reflexivity. Qed.

  Lemma op_bin_and st a b : op_bin OAnd st a b = bool2 andb a b.
  Proof. destruct a; try reflexivity; destruct b; reflexivity. Qed.
  Lemma op_bin_or st a b : op_bin OOr st a b = bool2 orb a b.
  Proof. destruct a; try reflexivity; destruct b; reflexivity. Qed.

  Lemma rmap_xorb_false (r : res bool) : rmap (fun x => VBool (xorb false x)) r = rmap (fun x => VBool x) r.
  Proof. destruct r as [x|e|s| |w|w]; try reflexivity. all: try (destruct x; reflexivity). Qed.
  Lemma rmap_xorb_true (r : res bool) : rmap (fun x => VBool (xorb true x)) r = rmap (fun x => VBool (negb x)) r.
  Proof. destruct r as [x|e|s| |w|w]; try reflexivity. all: try (destruct x; reflexivity). Qed.

  (* ---------------------------------------------------------------- dispatch: eval (S fuel) *)
  Section Node.
    Variables (fuel : nat) (path : list nat) (v : bytes) (idf esc : bool) (ln : nat) (c1 c2 : node) (sc is : nat).
    Let e1 : M value := eval fuel (0 :: path) c1 sc is.
    Let e2 : M value := eval fuel (1 :: path) c2 sc is.

    (* THEOREM 1a: every binary operator but the comparisons *)
    Theorem eval_binary_once (o : binop) : once_bin o = true ->
      forall st, eval (S fuel) path (Node (bin_name o) v idf esc ln [c1; c2]) sc is st
                 = binary_outcome e1 e2 (op_bin o) st.
    Proof.
      intros Ho st. destruct o; try discriminate Ho.
      - (* times *)
        change (eval (S fuel) path (Node (bin_name OTimes) v idf esc ln [c1; c2]) sc is st)
          with (num_op (eval fuel) path [c1; c2] sc is (fun x y => ret (VNum (n_mul x y))) st).
        rewrite (num_op_outcome _ _ _ _ _ _ _ (arith OTimes)) by reflexivity.
        apply binary_outcome_ext. intros; symmetry; apply op_bin_arith; reflexivity.
      - (* div *)
        change (eval (S fuel) path (Node (bin_name ODiv) v idf esc ln [c1; c2]) sc is st)
          with (num_op (eval fuel) path [c1; c2] sc is (fun x y => ret (VNum (n_div x y))) st).
        rewrite (num_op_outcome _ _ _ _ _ _ _ (arith ODiv)) by reflexivity.
        apply binary_outcome_ext. intros; symmetry; apply op_bin_arith; reflexivity.
      - (* divint *)
        change (eval (S fuel) path (Node (bin_name ODivInt) v idf esc ln [c1; c2]) sc is st)
          with (num_op (eval fuel) path [c1; c2] sc is (fun x y => ret (VNum (n_divint x y))) st).
        rewrite (num_op_outcome _ _ _ _ _ _ _ (arith ODivInt)) by reflexivity.
        apply binary_outcome_ext. intros; symmetry; apply op_bin_arith; reflexivity.
      - (* modint *)
        change (eval (S fuel) path (Node (bin_name OModInt) v idf esc ln [c1; c2]) sc is st)
          with (mod_op (eval fuel) path [c1; c2] sc is st).
        rewrite mod_op_outcome.
        apply binary_outcome_ext. intros; symmetry; apply op_bin_arith; reflexivity.
      - (* plus *)
        change (eval (S fuel) path (Node (bin_name OPlus) v idf esc ln [c1; c2]) sc is st)
          with (num_op (eval fuel) path [c1; c2] sc is (fun x y => ret (VNum (n_add x y))) st).
        rewrite (num_op_outcome _ _ _ _ _ _ _ (arith OPlus)) by reflexivity.
        apply binary_outcome_ext. intros; symmetry; apply op_bin_arith; reflexivity.
      - (* minus *)
        change (eval (S fuel) path (Node (bin_name OMinus) v idf esc ln [c1; c2]) sc is st)
          with (num_op (eval fuel) path [c1; c2] sc is (fun x y => ret (VNum (n_sub x y))) st).
        rewrite (num_op_outcome _ _ _ _ _ _ _ (arith OMinus)) by reflexivity.
        apply binary_outcome_ext. intros; symmetry; apply op_bin_arith; reflexivity.
      - (* != *)
        change (eval (S fuel) path (Node (bin_name ONeq) v idf esc ln [c1; c2]) sc is st)
          with (gen_op (eval fuel) path [c1; c2] sc is true st).
        rewrite gen_op_outcome.
        apply binary_outcome_ext. intros; apply rmap_xorb_true.
      - (* == *)
        change (eval (S fuel) path (Node (bin_name OEq) v idf esc ln [c1; c2]) sc is st)
          with (gen_op (eval fuel) path [c1; c2] sc is false st).
        rewrite gen_op_outcome.
        apply binary_outcome_ext. intros; apply rmap_xorb_false.
      - (* in *)
        change (eval (S fuel) path (Node (bin_name OIn) v idf esc ln [c1; c2]) sc is st)
          with (in_op (eval fuel) path [c1; c2] sc is st).
        apply in_op_outcome.
      - (* hasprefix *)
        change (eval (S fuel) path (Node (bin_name OHasPrefix) v idf esc ln [c1; c2]) sc is st)
          with (str_op (eval fuel) path [c1; c2] sc is (fun a b => prefixb b a) st).
        apply str_op_outcome.
      - (* hassuffix *)
        change (eval (S fuel) path (Node (bin_name OHasSuffix) v idf esc ln [c1; c2]) sc is st)
          with (str_op (eval fuel) path [c1; c2] sc is (fun a b => suffixb b a) st).
        apply str_op_outcome.
      - (* notin *)
        change (eval (S fuel) path (Node (bin_name ONotIn) v idf esc ln [c1; c2]) sc is st)
          with (notin_op (eval fuel) path [c1; c2] sc is st).
        apply notin_op_outcome.
      - (* and *)
        change (eval (S fuel) path (Node (bin_name OAnd) v idf esc ln [c1; c2]) sc is st)
          with (bool_op (eval fuel) path [c1; c2] sc is andb st).
        rewrite bool_op_outcome.
        apply binary_outcome_ext. intros; symmetry; apply op_bin_and.
      - (* or *)
        change (eval (S fuel) path (Node (bin_name OOr) v idf esc ln [c1; c2]) sc is st)
          with (bool_op (eval fuel) path [c1; c2] sc is orb st).
        rewrite bool_op_outcome.
        apply binary_outcome_ext. intros; symmetry; apply op_bin_or.
    Qed.

    (* THEOREM 1b: the comparisons *)
    Theorem eval_comparison (o : binop) : is_cmp o = true ->
      forall st, eval (S fuel) path (Node (bin_name o) v idf esc ln [c1; c2]) sc is st
                 = comparison_outcome o e1 e2 st.
    Proof.
      intros Ho st. destruct o; try discriminate Ho.
      - change (eval (S fuel) path (Node (bin_name OGeq) v idf esc ln [c1; c2]) sc is st)
          with (cmp_op (eval fuel) path [c1; c2] sc is (num_cmp OGeq) (str_cmp OGeq) st).
        apply cmp_op_outcome.
      - change (eval (S fuel) path (Node (bin_name OLeq) v idf esc ln [c1; c2]) sc is st)
          with (cmp_op (eval fuel) path [c1; c2] sc is (num_cmp OLeq) (str_cmp OLeq) st).
        apply cmp_op_outcome.
      - change (eval (S fuel) path (Node (bin_name OGt) v idf esc ln [c1; c2]) sc is st)
          with (cmp_op (eval fuel) path [c1; c2] sc is (num_cmp OGt) (str_cmp OGt) st).
        apply cmp_op_outcome.
      - change (eval (S fuel) path (Node (bin_name OLt) v idf esc ln [c1; c2]) sc is st)
          with (cmp_op (eval fuel) path [c1; c2] sc is (num_cmp OLt) (str_cmp OLt) st).
        apply cmp_op_outcome.
    Qed.

    (* THEOREM 2: prefix operators *)
    Theorem eval_prefix (o : preop) :
      forall st, eval (S fuel) path (Node (pre_name o) v idf esc ln [c1]) sc is st
                 = unary_outcome e1 (op_pre o) st.
    Proof.
      intros st. destruct o.
      - change (eval (S fuel) path (Node (pre_name PNeg) v idf esc ln [c1]) sc is st)
          with (num_val (eval fuel) path [c1] sc is n_opp st).
        apply num_val_outcome.
      - change (eval (S fuel) path (Node (pre_name PPos) v idf esc ln [c1]) sc is st)
          with (num_val (eval fuel) path [c1] sc is (fun x => x) st).
        apply num_val_outcome.
      - change (eval (S fuel) path (Node (pre_name PNot) v idf esc ln [c1]) sc is st)
          with (bool_val (eval fuel) path [c1] sc is st).
        apply bool_val_outcome.
    Qed.
  End Node.
End P.
