(* Proofs/ControlProofs.v — lemmas for C04: the code's "signals as error values" encoding
   (Model/Control.v, variant [repaired]) computes exactly the completion semantics of
   Spec/ControlSpec.v. *)
From Coq Require Import Lia.
From Ecal Require Import Model.ControlSyntax Model.Control Spec.ControlSpec.

(* ---------------------------------------------------------------- decoding *)

(* how an (res, err) pair of the code is read as a completion record *)
Definition decode_err (e : option errval) : compl :=
  match e with
  | None => Normal
  | Some (RetVal v) => Returned v
  | Some (RtErr TEndOfIteration) => Broke
  | Some (RtErr TContinueIteration) => Continued
  | Some (RaisedErr t) => Raised (EUser t)
  | Some (RtErr TUnknownConstruct) => Raised EUnknownConstruct
  | Some (RtErr TIsIterator) => Raised (EOther 4)
  | Some (RtErr TReturn) => Raised (EOther 5)
  end.

Definition decode (r : gores) : result :=
  match r with
  | None => None
  | Some (t, e) => Some (t, decode_err e)
  end.

Lemma decode_mpre : forall t r, decode (mpre t r) = spre t (decode r).
Proof. intros t [[t' e]|]; reflexivity. Qed.

Lemma mclear_mpre : forall x t r, mclear x (mpre t r) = mpre t (mclear x r).
Proof. intros x t [[t' e]|]; reflexivity. Qed.

Lemma spre_spre : forall t1 t2 r, spre t1 (spre t2 r) = spre (t1 ++ t2) r.
Proof. intros t1 t2 [[t c]|]; simpl; [rewrite app_assoc|]; reflexivity. Qed.

Lemma spre_nil : forall r, spre [] r = r.
Proof. intros [[t c]|]; reflexivity. Qed.

Lemma decode_nonsignal : forall e, is_flow_signal e = false -> decode_err (Some e) = Raised (objtype e).
Proof. intros [[]|t|v]; simpl; intros H; try reflexivity; discriminate. Qed.

Lemma ety_eqb_sym : forall a b, ety_eqb a b = ety_eqb b a.
Proof. intros [n| |c] [m| |d]; simpl; try reflexivity; apply Nat.eqb_sym. Qed.

Lemma ety_eqb_eq : forall a b, ety_eqb a b = true <-> a = b.
Proof.
  intros [n| |c] [m| |d]; simpl; split; intros H; try discriminate; try reflexivity.
  - apply Nat.eqb_eq in H; congruence.
  - injection H as ->; apply Nat.eqb_refl.
  - apply Nat.eqb_eq in H; congruence.
  - injection H as ->; apply Nat.eqb_refl.
Qed.

(* ---------------------------------------------------------------- map keys *)

Lemma key_eqb_eq : forall a b, key_eqb a b = true <-> a = b.
Proof.
  induction a as [|x a IH]; intros [|y b]; simpl; split; intros H; try discriminate; try reflexivity.
  - apply andb_true_iff in H as [H1 H2]. apply N.eqb_eq in H1. apply IH in H2. congruence.
  - injection H as -> ->. rewrite N.eqb_refl. apply IH. reflexivity.
Qed.

Lemma key_ltb_irrefl : forall a, key_ltb a a = false.
Proof. induction a as [|x a IH]; simpl; [reflexivity|]. rewrite N.ltb_irrefl, N.eqb_refl. exact IH. Qed.

Lemma key_ltb_trans : forall a b c, key_ltb a b = true -> key_ltb b c = true -> key_ltb a c = true.
Proof.
  induction a as [|x a IH]; intros [|y b] [|z c]; simpl; intros H1 H2; try discriminate; try reflexivity.
  destruct (N.ltb_spec x y), (N.ltb_spec y z), (N.ltb_spec x z); try reflexivity; try lia;
    destruct (N.eqb_spec x y), (N.eqb_spec y z), (N.eqb_spec x z); try discriminate; try lia.
  eapply IH; eassumption.
Qed.

Lemma key_ltb_asym : forall a b, key_ltb a b = true -> key_ltb b a = false.
Proof.
  intros a b H. destruct (key_ltb b a) eqn:E; [|reflexivity].
  pose proof (key_ltb_trans _ _ _ H E) as T. rewrite key_ltb_irrefl in T. discriminate.
Qed.

(* trichotomy *)
Lemma key_ltb_total : forall a b, key_ltb a b = false -> key_eqb a b = false -> key_ltb b a = true.
Proof.
  induction a as [|x a IH]; intros [|y b]; simpl; intros H1 H2; try discriminate; try reflexivity.
  destruct (N.ltb_spec x y); [discriminate|].
  destruct (N.eqb_spec x y) as [->|Hne].
  - rewrite N.ltb_irrefl, N.eqb_refl. simpl in H2. apply IH; assumption.
  - destruct (N.ltb_spec y x); [reflexivity|lia].
Qed.

Definition klt (a b : key) : Prop := key_ltb a b = true.

Lemma insert_key_In : forall k x l, In x (insert_key k l) <-> x = k \/ In x l.
Proof.
  induction l as [|y l IH]; simpl.
  - intuition.
  - destruct (key_ltb k y); [simpl; intuition|].
    destruct (key_eqb k y) eqn:E.
    + apply key_eqb_eq in E; subst. simpl; intuition.
    + simpl. rewrite IH. intuition.
Qed.

Lemma insert_key_sorted : forall k l, StronglySorted klt l -> StronglySorted klt (insert_key k l).
Proof.
  induction l as [|y l IH]; simpl; intros S.
  - constructor; constructor.
  - inversion S as [|? ? S' F]; subst.
    destruct (key_ltb k y) eqn:L.
    + constructor; [assumption|]. constructor; [exact L|].
      eapply Forall_impl; [|exact F]. intros z Hz. eapply key_ltb_trans; eassumption.
    + destruct (key_eqb k y) eqn:E; [assumption|].
      constructor; [apply IH; assumption|].
      apply Forall_forall. intros z Hz. apply insert_key_In in Hz as [->|Hz].
      * apply key_ltb_total; assumption.
      * rewrite Forall_forall in F. apply F. assumption.
Qed.

Lemma sorted_keys_order : forall ks, key_order ks (sorted_keys ks).
Proof.
  induction ks as [|k ks [IHs IHi]]; simpl; split.
  - constructor.
  - intuition.
  - apply insert_key_sorted. exact IHs.
  - intros x. rewrite insert_key_In. rewrite IHi. simpl. intuition.
Qed.

(* a strictly sorted list is determined by its elements *)
Lemma sorted_unique : forall l1 l2,
    StronglySorted klt l1 -> StronglySorted klt l2 -> (forall k, In k l1 <-> In k l2) -> l1 = l2.
Proof.
  induction l1 as [|x l1 IH]; intros [|y l2] S1 S2 H.
  - reflexivity.
  - exfalso. apply (proj2 (H y)). left; reflexivity.
  - exfalso. apply (proj1 (H x)). left; reflexivity.
  - inversion S1 as [|? ? S1' F1]; inversion S2 as [|? ? S2' F2]; subst.
    rewrite Forall_forall in F1, F2.
    assert (x = y) as ->.
    { destruct (proj1 (H x) (or_introl eq_refl)) as [->|Hx]; [reflexivity|].
      destruct (proj2 (H y) (or_introl eq_refl)) as [->|Hy]; [reflexivity|].
      pose proof (F2 _ Hx) as A. pose proof (F1 _ Hy) as B. unfold klt in *.
      rewrite (key_ltb_asym _ _ A) in B. discriminate. }
    f_equal. apply IH; try assumption.
    intros k; split; intros Hk.
    + destruct (proj1 (H k) (or_intror Hk)) as [->|]; [|assumption].
      pose proof (F1 _ Hk) as A. unfold klt in A. rewrite key_ltb_irrefl in A. discriminate.
    + destruct (proj2 (H k) (or_intror Hk)) as [->|]; [|assumption].
      pose proof (F2 _ Hk) as A. unfold klt in A. rewrite key_ltb_irrefl in A. discriminate.
Qed.

Lemma key_order_unique : forall ks l1 l2, key_order ks l1 -> key_order ks l2 -> l1 = l2.
Proof.
  intros ks l1 l2 [S1 I1] [S2 I2]. apply sorted_unique; try assumption.
  intros k. rewrite I1, I2. reflexivity.
Qed.

Lemma key_mem_In : forall k l, key_mem k l = true <-> In k l.
Proof.
  induction l as [|x l IH]; simpl; [split; [discriminate|tauto]|].
  rewrite orb_true_iff, IH, key_eqb_eq. intuition.
Qed.

Lemma map_keyset_In : forall ks k, In k (map_keyset ks) <-> In k ks.
Proof.
  induction ks as [|x ks IH]; simpl; intros k; [tauto|].
  destruct (key_mem x ks) eqn:M.
  - rewrite IH. apply key_mem_In in M. intuition; subst; assumption.
  - simpl. rewrite IH. tauto.
Qed.

Lemma map_keyset_nodup : forall ks, NoDup (map_keyset ks).
Proof.
  induction ks as [|x ks IH]; simpl; [constructor|].
  destruct (key_mem x ks) eqn:M; [assumption|].
  constructor; [|assumption]. rewrite map_keyset_In. intros Hin.
  apply key_mem_In in Hin. congruence.
Qed.

Lemma sort_insert_In : forall k x l, In x (sort_insert k l) <-> x = k \/ In x l.
Proof.
  induction l as [|y l IH]; simpl; [intuition|].
  destruct (key_ltb k y); simpl; [intuition|]. rewrite IH. intuition.
Qed.

Lemma sort_insert_sorted : forall k l, ~ In k l -> StronglySorted klt l -> StronglySorted klt (sort_insert k l).
Proof.
  induction l as [|y l IH]; simpl; intros N S.
  - constructor; constructor.
  - inversion S as [|? ? S' F]; subst.
    destruct (key_ltb k y) eqn:L.
    + constructor; [assumption|]. constructor; [exact L|].
      eapply Forall_impl; [|exact F]. intros z Hz. eapply key_ltb_trans; eassumption.
    + constructor; [apply IH; tauto|].
      apply Forall_forall. intros z Hz. apply sort_insert_In in Hz as [->|Hz].
      * apply key_ltb_total; [assumption|]. destruct (key_eqb k y) eqn:E; [|reflexivity].
        apply key_eqb_eq in E. subst. tauto.
      * rewrite Forall_forall in F. apply F. assumption.
Qed.

Lemma sort_nodup_order : forall l, NoDup l ->
    StronglySorted klt (fold_right sort_insert [] l) /\ forall k, In k (fold_right sort_insert [] l) <-> In k l.
Proof.
  induction l as [|x l IH]; simpl; intros N.
  - split; [constructor|tauto].
  - inversion N as [|? ? Nx N']; subst. destruct (IH N') as [S I]. split.
    + apply sort_insert_sorted; [rewrite I; assumption|assumption].
    + intros k. rewrite sort_insert_In, I. intuition.
Qed.

(* the code's key order (key set of the literal, sorted) is THE string order of the keys *)
Lemma go_sorted_keys_order : forall ks, key_order ks (go_sorted_keys ks).
Proof.
  intros ks. destruct (sort_nodup_order _ (map_keyset_nodup ks)) as [S I]. split; [exact S|].
  intros k. unfold go_sorted_keys. rewrite I. apply map_keyset_In.
Qed.

Lemma go_sorted_keys_spec : forall ks, go_sorted_keys ks = sorted_keys ks.
Proof. intros ks. eapply key_order_unique; [apply go_sorted_keys_order|apply sorted_keys_order]. Qed.

(* ---------------------------------------------------------------- combinators *)

Section Faithful.
  Variable mex : stmt -> gores.
  Variable sex : stmt -> result.
  Hypothesis EX : forall s, decode (mex s) = sex s.

  Lemma block_faithful : forall b, decode (mblock mex b) = sblock sex b.
  Proof.
    induction b as [|s b IH]; simpl; [reflexivity|].
    rewrite <- EX. destruct (mex s) as [[t [e|]]|]; simpl.
    - destruct e as [[]|n|v]; reflexivity.
    - rewrite decode_mpre, IH. reflexivity.
    - reflexivity.
  Qed.

  Lemma if_pairs_skipped : forall e brs, mif_pairs repaired mex (Some e) brs = Some ([], Some e).
  Proof. intros e. induction brs as [|[g b] brs IH]; [reflexivity|]. cbn [mif_pairs]. exact IH. Qed.

  Lemma if_pairs_faithful : forall brs els,
      decode (mif_pairs repaired mex None (brs ++ match els with Some b => [(GBool true, b)] | None => [] end))
      = sif sex brs els.
  Proof.
    induction brs as [|[g b] brs IH]; intros els.
    - destruct els; cbn [app mif_pairs sif]; [|reflexivity].
      cbn [mguard mpre]. rewrite decode_mpre, spre_nil. apply block_faithful.
    - cbn [app mif_pairs sif]. simpl v_if_guard_error_overwritten.
      destruct g as [[|]|n [| |k]]; cbn [mguard sguard].
      + rewrite decode_mpre. f_equal. apply block_faithful.
      + rewrite decode_mpre. f_equal. apply IH.
      + rewrite decode_mpre. f_equal. apply block_faithful.
      + rewrite decode_mpre. f_equal. apply IH.
      + rewrite if_pairs_skipped. destruct k; reflexivity.
  Qed.

  Lemma if_faithful : forall brs els, decode (mif repaired mex brs els) = sif sex brs els.
  Proof. intros; apply if_pairs_faithful. Qed.

  Lemma cond_faithful : forall n fail body,
      decode (mcond repaired mex n fail body) = scond (sblock sex body) fail n.
  Proof.
    intros n fail body. unfold mcond. simpl v_cond_loop_keeps_break. cbv iota.
    rewrite <- block_faithful.
    induction n as [|n IH]; cbn [mcond_loop scond].
    - destruct fail as [[m [t|]]|]; reflexivity.
    - destruct (mblock mex body) as [[t [e|]]|]; simpl; [|rewrite mclear_mpre, decode_mpre, IH; reflexivity|reflexivity].
      destruct e as [[]|k|v]; simpl; try reflexivity.
      rewrite mclear_mpre, decode_mpre, IH; reflexivity.
  Qed.

  Lemma src_faithful : forall n k, decode (msrc n k) = Some ([EvMark n], Raised (ety_of k)).
  Proof. intros n [t|]; reflexivity. Qed.

  Section Iter.
    Context {A : Type}.
    Variable run_m : A -> gores.
    Variable run_s : A -> result.
    Hypothesis RUN : forall v, decode (run_m v) = run_s v.

    Lemma list_loop_faithful : forall (d : A) xs n, length xs < n ->
        decode (mhandle_iterator (list_next d) run_m n xs) = sforeach run_s xs.
    Proof.
      intros d. unfold mhandle_iterator.
      induction xs as [|x xs IH]; intros n Hn; (destruct n as [|n]; [simpl in Hn; lia|]); simpl.
      - reflexivity.
      - rewrite <- RUN. destruct (run_m x) as [[t [e|]]|]; simpl.
        + destruct e as [[]|k|v]; simpl; try reflexivity.
          rewrite mclear_mpre, decode_mpre, IH; [reflexivity|simpl in Hn; lia].
        + rewrite mclear_mpre, decode_mpre, IH; [reflexivity|simpl in Hn; lia].
        + reflexivity.
    Qed.
  End Iter.

  Lemma range_ended_spec : forall from to cur,
      range_ended repaired from to cur = negb (in_range from to cur).
  Proof.
    intros from to cur. unfold range_ended, in_range. simpl v_range_eq_empty. cbv iota.
    destruct (Z.ltb_spec from to), (Z.ltb_spec to from), (Z.ltb_spec to cur), (Z.ltb_spec cur to),
      (Z.leb_spec cur to), (Z.leb_spec to cur), (Z.eqb_spec from to), (Z.eqb_spec cur from), (Z.eqb_spec cur to);
      simpl; try reflexivity; lia.
  Qed.

  Lemma range_faithful : forall (run_m : Z -> gores) (run_s : Z -> result),
      (forall v, decode (run_m v) = run_s v) ->
      forall from to step n cur,
        decode (mhandle_iterator (range_call repaired from to step) run_m n (Some cur))
        = srange n run_s from to step cur.
  Proof.
    intros run_m run_s RUN from to step. unfold mhandle_iterator.
    induction n as [|n IH]; intros cur; [reflexivity|].
    cbn [miter srange range_call]. rewrite range_ended_spec.
    destruct (in_range from to cur); cbn [negb clear_type].
    - rewrite <- RUN. destruct (run_m cur) as [[t [e|]]|]; simpl.
      + destruct e as [[]|k|v]; simpl; try reflexivity.
        rewrite mclear_mpre, decode_mpre, IH; reflexivity.
      + rewrite mclear_mpre, decode_mpre, IH; reflexivity.
      + reflexivity.
    - reflexivity.
  Qed.

  Lemma mrange_faithful : forall (run_m : Z -> gores) (run_s : Z -> result),
      (forall v, decode (run_m v) = run_s v) ->
      forall from to step n,
        decode (mrange repaired n run_m from to step) = srange n run_s from to step from.
  Proof. intros. unfold mrange. cbn [range_call]. apply range_faithful. assumption. Qed.

  (* ---- try *)

  Definition bound_of (b : binder) : bool := match b with BNone => false | _ => true end.

  Lemma except_strings : forall e tys rest hast ret ev,
      except_by_kind e (map CString tys ++ rest) hast ret ev
      = except_by_kind e rest (hast || negb (match tys with [] => true | _ => false end))
                       (ret || existsb (ety_eqb (objtype e)) tys) ev.
  Proof.
    intros e. induction tys as [|t tys IH]; intros rest hast ret ev; simpl.
    - rewrite !orb_false_r. reflexivity.
    - rewrite IH. rewrite (ety_eqb_sym t). f_equal.
      + destruct hast, tys; reflexivity.
      + destruct ret; simpl; [reflexivity|]. reflexivity.
  Qed.

  Lemma eval_except_spec : forall e tys b h,
      eval_except repaired e (tys, b, h)
      = if clause_matches (objtype e) (tys, b, h) then (true, Some (bound_of b, h)) else (false, None).
  Proof.
    intros e tys b h. unfold eval_except. simpl v_except_by_count. cbv iota.
    unfold except_children. rewrite except_strings. simpl.
    destruct tys as [|t tys]; simpl.
    - destruct b; reflexivity.
    - destruct (ety_eqb (objtype e) t || existsb (ety_eqb (objtype e)) tys); destruct b; reflexivity.
  Qed.

  Lemma prologue_spec : forall b e, prologue b (bound_of b) e = caught_ev b (objtype e).
  Proof. intros [] e; reflexivity. Qed.

  Lemma clauses_faithful : forall t e cs,
      decode (mclauses repaired mex t e cs)
      = match find_clause (objtype e) cs with
        | None => Some (t, decode_err (Some e))
        | Some (_, b, h) => spre (t ++ caught_ev b (objtype e)) (sblock sex h)
        end.
  Proof.
    intros t e. induction cs as [|[[tys b] h] cs IH]; [reflexivity|].
    cbn [mclauses find_clause]. rewrite eval_except_spec.
    destruct (clause_matches (objtype e) (tys, b, h)).
    - cbn [fst snd]. rewrite decode_mpre, block_faithful, prologue_spec. reflexivity.
    - apply IH.
  Qed.

  Lemma try_core_faithful : forall body cs oth,
      decode (mtry_core repaired mex body cs oth) = stry_core sex body cs oth.
  Proof.
    intros body cs oth. unfold mtry_core, stry_core. rewrite <- block_faithful.
    simpl v_signals_to_except. cbn [negb andb].
    destruct (mblock mex body) as [[t [e|]]|]; cbn [decode].
    - destruct (is_flow_signal e) eqn:F.
      + destruct e as [[]|k|v]; try discriminate; reflexivity.
      + rewrite clauses_faithful, (decode_nonsignal _ F). reflexivity.
    - cbn [decode_err]. destruct oth; [rewrite decode_mpre, block_faithful|]; reflexivity.
    - reflexivity.
  Qed.

  Lemma finally_faithful : forall r fin,
      decode (mfinally repaired mex r fin) = sfinally sex (decode r) fin.
  Proof.
    intros r [fb|]; [|reflexivity]. unfold mfinally, sfinally. simpl v_finally_result_dropped. cbv iota.
    destruct r as [[t e]|]; [|reflexivity]. simpl decode at 2. cbv iota beta.
    rewrite <- block_faithful.
    destruct (mblock mex fb) as [[tf [ef|]]|]; simpl; try reflexivity.
    destruct ef as [[]|k|v]; reflexivity.
  Qed.

  Lemma call_faithful : forall body, decode (mcall mex body) = scall sex body.
  Proof.
    intros body. unfold mcall, scall. rewrite <- block_faithful.
    destruct (mblock mex body) as [[t [e|]]|]; simpl; try reflexivity.
    destruct e as [[]|k|v]; reflexivity.
  Qed.
End Faithful.

(* ---------------------------------------------------------------- the refinement *)

Theorem signals_as_errors_faithful :
  forall fuel s, decode (mexec repaired fuel s) = sexec fuel s.
Proof.
  induction fuel as [|f IH]; intros s; [reflexivity|].
  destruct s; cbn [mexec sexec]; try reflexivity.
  - apply if_faithful; assumption.
  - apply cond_faithful; assumption.
  - apply src_faithful.
  - apply mrange_faithful. intros v. rewrite decode_mpre, (block_faithful _ _ IH). reflexivity.
  - apply list_loop_faithful; [|lia]. intros v. rewrite decode_mpre, (block_faithful _ _ IH). reflexivity.
  - cbv zeta. rewrite go_sorted_keys_spec. apply list_loop_faithful; [|apply Nat.lt_succ_diag_r].
    intros v. rewrite decode_mpre, (block_faithful _ _ IH). reflexivity.
  - rewrite (finally_faithful _ _ IH), (try_core_faithful _ _ IH). reflexivity.
  - apply call_faithful; assumption.
Qed.

Theorem program_faithful :
  forall fuel p, decode (mprog repaired fuel p) = sprog fuel p.
Proof. intros. apply block_faithful. apply signals_as_errors_faithful. Qed.

(* ---------------------------------------------------------------- corollaries *)

Lemma decode_normal_inv : forall r t, decode r = Some (t, Normal) -> r = Some (t, None).
Proof.
  intros [[t' [e|]]|] t H; simpl in H; try discriminate.
  - destruct e as [[]|k|v]; discriminate.
  - injection H as ->. reflexivity.
Qed.

Notation MB f := (mblock (mexec repaired f)).

(* finally: the result of a try with a finally block is the result of the same try without
   it, followed by exactly one run of the finally block — whatever the way out [e1] was *)
Theorem finally_exactly_once : forall f body cs oth fb t e,
    mexec repaired (S f) (Try body cs oth (Some fb)) = Some (t, e) <->
    exists t1 e1 tf ef,
      mexec repaired (S f) (Try body cs oth None) = Some (t1, e1) /\
      MB f fb = Some (tf, ef) /\
      t = t1 ++ tf /\ e = match ef with None => e1 | Some _ => ef end.
Proof.
  intros f body cs oth fb t e. cbn [mexec mfinally]. simpl v_finally_result_dropped. cbv iota.
  destruct (mtry_core repaired (mexec repaired f) body cs oth) as [[t1 e1]|].
  - destruct (MB f fb) as [[tf ef]|].
    + split.
      * intros H. exists t1, e1, tf, ef. destruct ef; injection H as <- <-; auto.
      * intros (t1' & e1' & tf' & ef' & H1 & H2 & -> & ->).
        injection H1 as <- <-. injection H2 as <- <-. destruct ef; reflexivity.
    + split; [discriminate|]. intros (? & ? & ? & ? & _ & H & _). discriminate.
  - split; [discriminate|]. intros (? & ? & ? & ? & H & _). discriminate.
Qed.

Lemma mclauses_skip : forall mex t e cs1 cs2,
    (forall c, In c cs1 -> clause_matches (objtype e) c = false) ->
    mclauses repaired mex t e (cs1 ++ cs2) = mclauses repaired mex t e cs2.
Proof.
  intros mex t e. induction cs1 as [|[[tys b] h] cs1 IH]; intros cs2 H; [reflexivity|].
  cbn [app mclauses]. rewrite eval_except_spec, (H _ (or_introl eq_refl)).
  apply IH. intros c Hc. apply H. right. assumption.
Qed.

(* the FIRST clause that lists the error's type (or lists no type) handles it; its handler's
   outcome is the outcome of the try; `as e` / `e` binds the error object *)
Theorem first_matching_clause : forall f body cs1 tys b h cs2 oth t e,
    MB f body = Some (t, Some e) -> is_flow_signal e = false ->
    (forall c, In c cs1 -> clause_matches (objtype e) c = false) ->
    clause_matches (objtype e) (tys, b, h) = true ->
    mexec repaired (S f) (Try body (cs1 ++ (tys, b, h) :: cs2) oth None)
    = mpre (t ++ caught_ev b (objtype e)) (MB f h).
Proof.
  intros f body cs1 tys b h cs2 oth t e HB HF H1 H2.
  cbn [mexec mfinally]. unfold mtry_core. rewrite HB. simpl v_signals_to_except. rewrite HF.
  cbn [negb andb]. rewrite mclauses_skip by assumption.
  cbn [mclauses]. rewrite eval_except_spec, H2. cbn [fst snd]. rewrite prologue_spec. reflexivity.
Qed.

(* `otherwise` runs exactly when the try block raised nothing (and signalled nothing) *)
Theorem otherwise_iff_no_error : forall f body cs ob fin,
    (forall t, MB f body = Some (t, None) ->
       mexec repaired (S f) (Try body cs (Some ob) fin)
       = mfinally repaired (mexec repaired f) (mpre t (MB f ob)) fin) /\
    (forall t e, MB f body = Some (t, Some e) ->
       mexec repaired (S f) (Try body cs (Some ob) fin) = mexec repaired (S f) (Try body cs None fin)).
Proof.
  intros f body cs ob fin. split.
  - intros t H. cbn [mexec]. unfold mtry_core. rewrite H. reflexivity.
  - intros t e H. cbn [mexec]. unfold mtry_core. rewrite H. reflexivity.
Qed.

(* an error no clause handles leaves the try as the very same error value *)
Theorem unhandled_propagates_unchanged : forall f body cs oth t e,
    MB f body = Some (t, Some e) -> is_flow_signal e = false ->
    (forall c, In c cs -> clause_matches (objtype e) c = false) ->
    mexec repaired (S f) (Try body cs oth None) = Some (t, Some e) /\
    (forall fb tf, MB f fb = Some (tf, None) ->
       mexec repaired (S f) (Try body cs oth (Some fb)) = Some (t ++ tf, Some e)).
Proof.
  intros f body cs oth t e HB HF H.
  assert (C : mtry_core repaired (mexec repaired f) body cs oth = Some (t, Some e)).
  { unfold mtry_core. rewrite HB. simpl v_signals_to_except. rewrite HF. cbn [negb andb].
    rewrite <- (app_nil_r cs), mclauses_skip by assumption. reflexivity. }
  split.
  - cbn [mexec mfinally]. exact C.
  - intros fb tf HF'. cbn [mexec mfinally]. rewrite C, HF'. reflexivity.
Qed.

(* return / break / continue inside a try are not offered to any except clause *)
Theorem signals_pass_except_clauses : forall f body cs oth t e,
    MB f body = Some (t, Some e) -> is_flow_signal e = true ->
    mexec repaired (S f) (Try body cs oth None) = Some (t, Some e).
Proof.
  intros f body cs oth t e HB HF. cbn [mexec mfinally]. unfold mtry_core.
  rewrite HB. simpl v_signals_to_except. rewrite HF. reflexivity.
Qed.

(* loops *)
Definition is_loop (s : stmt) : bool :=
  match s with
  | LoopCond _ _ _ | LoopSrc _ _ _ | LoopRange _ _ _ _ | LoopList _ _ | LoopMap _ _ => true
  | _ => false
  end.

Lemma scond_absorbs : forall run fail n t c,
    scond run fail n = Some (t, c) -> c <> Broke /\ c <> Continued.
Proof.
  induction n as [|n IH]; cbn [scond]; intros t c H.
  - destruct fail as [[m k]|]; injection H as <- <-; split; discriminate.
  - destruct run as [[t1 c1]|]; [|discriminate].
    destruct c1; try (injection H as <- <-; split; discriminate);
      (destruct (scond _ fail n) as [[t2 c2]|] eqn:E; [|discriminate]);
      simpl in H; injection H as <- <-; eapply IH; reflexivity.
Qed.

Lemma sforeach_absorbs : forall A (run : A -> result) xs t c,
    sforeach run xs = Some (t, c) -> c <> Broke /\ c <> Continued.
Proof.
  induction xs as [|x xs IH]; simpl; intros t c H.
  - injection H as <- <-. split; discriminate.
  - destruct (run x) as [[t1 c1]|]; [|discriminate].
    destruct c1; try (injection H as <- <-; split; discriminate);
      (destruct (sforeach run xs) as [[t2 c2]|]; [|discriminate]);
      simpl in H; injection H as <- <-; eapply IH; reflexivity.
Qed.

Lemma srange_absorbs : forall run from to step n cur t c,
    srange n run from to step cur = Some (t, c) -> c <> Broke /\ c <> Continued.
Proof.
  induction n as [|n IH]; simpl; intros cur t c H; [discriminate|].
  destruct (in_range from to cur); [|injection H as <- <-; split; discriminate].
  destruct (run cur) as [[t1 c1]|]; [|discriminate].
  destruct c1; try (injection H as <- <-; split; discriminate);
    (destruct (srange n run from to step (cur + step)) as [[t2 c2]|] eqn:E; [|discriminate]);
    simpl in H; injection H as <- <-; eapply IH; exact E.
Qed.

(* break / continue act on the innermost loop: no loop statement ever passes one of these
   signals on to whatever encloses it *)
Theorem loop_absorbs_break_continue : forall fuel s t e,
    is_loop s = true -> mexec repaired fuel s = Some (t, e) ->
    e <> Some (RtErr TEndOfIteration) /\ e <> Some (RtErr TContinueIteration).
Proof.
  intros fuel s t e L H.
  pose proof (signals_as_errors_faithful fuel s) as F. rewrite H in F. simpl in F. symmetry in F.
  assert (A : decode_err e <> Broke /\ decode_err e <> Continued).
  { destruct fuel as [|f]; [discriminate|]. destruct s; try discriminate; cbn [sexec] in F.
    - eapply scond_absorbs; exact F.
    - injection F as <- <-. split; discriminate.
    - eapply srange_absorbs; exact F.
    - eapply sforeach_absorbs; exact F.
    - eapply sforeach_absorbs; exact F. }
  destruct A as [A1 A2]. split; intros ->; [apply A1|apply A2]; reflexivity.
Qed.

(* ... `break` ends the loop it is written in, normally; `continue` goes on with the next round *)
Theorem break_ends_loop : forall f body t,
    MB f body = Some (t, Some (RtErr TEndOfIteration)) ->
    (forall n fail, mexec repaired (S f) (LoopCond (S n) fail body) = Some (t, None)) /\
    (forall x xs, mexec repaired (S f) (LoopList (x :: xs) body) = Some (EvIter x :: t, None)).
Proof.
  intros f body t H. split.
  - intros n fail. cbn [mexec]. unfold mcond. simpl v_cond_loop_keeps_break. cbn [mcond_loop]. rewrite H. reflexivity.
  - intros x xs. cbn [mexec]. unfold mhandle_iterator. cbn [miter list_next clear_type]. rewrite H. reflexivity.
Qed.

Theorem continue_next_round : forall f body t,
    MB f body = Some (t, Some (RtErr TContinueIteration)) ->
    (forall n fail, mexec repaired (S f) (LoopCond (S n) fail body)
                    = mpre t (mexec repaired (S f) (LoopCond n fail body))) /\
    (forall x xs, mexec repaired (S f) (LoopList (x :: xs) body)
                  = mpre (EvIter x :: t) (mexec repaired (S f) (LoopList xs body))).
Proof.
  intros f body t H. split.
  - intros n fail. cbn [mexec]. unfold mcond. simpl v_cond_loop_keeps_break. cbn [mcond_loop]. rewrite H.
    cbn [clear_type]. rewrite mclear_mpre. reflexivity.
  - intros x xs. cbn [mexec]. unfold mhandle_iterator. cbn [length miter list_next clear_type]. rewrite H.
    cbn [mpre clear_type]. rewrite mclear_mpre.
    destruct (mclear TEndOfIteration _) as [[t' e']|]; reflexivity.
Qed.

(* a guard that raises completes the if statement with that error at once: only the guard's
   own evaluation is logged — no later guard is evaluated, no branch and no else runs;
   a guard that is false hands over to the remaining clauses *)
Theorem failing_guard_ends_if : forall f n k b brs els,
    mexec repaired (S f) (If ((GEval n (GFail k), b) :: brs) els)
    = Some ([EvMark n], Some (errval_of k)).
Proof.
  intros f n k b brs els. cbn [mexec]. unfold mif. cbn [app mif_pairs mguard].
  simpl v_if_guard_error_overwritten. rewrite if_pairs_skipped. reflexivity.
Qed.

Theorem false_guard_next_clause : forall f g t b brs els,
    mguard g = (t, false, None) ->
    mexec repaired (S f) (If ((g, b) :: brs) els) = mpre t (mexec repaired (S f) (If brs els)).
Proof.
  intros f g t b brs els H. cbn [mexec]. unfold mif. cbn [app mif_pairs]. rewrite H. reflexivity.
Qed.

(* return leaves the innermost function: the call completes normally with the value, and no
   call ever passes a return signal on to an enclosing function *)
Theorem return_leaves_innermost_function : forall f body,
    (forall t v, MB f body = Some (t, Some (RetVal v)) ->
       mexec repaired (S f) (FuncCall body) = Some (t ++ [EvRet (Some v)], None)) /\
    (forall t e, mexec repaired (S f) (FuncCall body) = Some (t, e) -> forall v, e <> Some (RetVal v)).
Proof.
  intros f body. split.
  - intros t v H. cbn [mexec]. unfold mcall. rewrite H. reflexivity.
  - intros t e H v. cbn [mexec] in H. unfold mcall in H.
    destruct (MB f body) as [[t1 [e1|]]|]; try discriminate.
    + destruct e1 as [r|k|w]; injection H as <- <-; discriminate.
    + injection H as <- <-. discriminate.
Qed.

(* ---------------------------------------------------------------- range *)

Definition iter_run (v : Z) : result := Some ([EvIter v], Normal).

Definition range_list (from step : Z) (k : nat) : list Z :=
  map (fun j => (from + Z.of_nat j * step)%Z) (seq 0 k).

Lemma range_list_S : forall from step k,
    range_list from step (S k) = from :: range_list (from + step) step k.
Proof.
  intros from step k. unfold range_list. cbn [seq map]. f_equal; [lia|].
  rewrite <- seq_shift, map_map. apply map_ext. intros j. lia.
Qed.

Open Scope Z_scope.

Lemma in_range_up : forall from to cur, from <= to -> from <= cur -> in_range from to cur = (cur <=? to).
Proof.
  intros from to cur H1 H2. unfold in_range.
  destruct (Z.ltb_spec from to), (Z.ltb_spec to from), (Z.leb_spec cur to), (Z.eqb_spec cur to); try reflexivity; lia.
Qed.

Lemma in_range_down : forall from to cur, to <= from -> cur <= from -> in_range from to cur = (to <=? cur).
Proof.
  intros from to cur H1 H2. unfold in_range.
  destruct (Z.ltb_spec from to), (Z.ltb_spec to from), (Z.leb_spec to cur), (Z.eqb_spec cur to); try reflexivity; lia.
Qed.

Lemma srange_up : forall from to step, 0 < step -> from <= to ->
    forall m cur, from <= cur <= to -> (Z.to_nat (to - cur) <= m)%nat ->
    exists k, (1 <= k)%nat /\ cur + (Z.of_nat k - 1) * step <= to < cur + Z.of_nat k * step /\
      forall n, (k < n)%nat ->
        srange n iter_run from to step cur = Some (map EvIter (range_list cur step k), Normal).
Proof.
  intros from to step Hs Hft. induction m as [|m IH]; intros cur Hc Hm.
  - exists 1%nat. split; [lia|]. split; [lia|]. intros n Hn. destruct n as [|[|n]]; try lia.
    cbn [srange iter_run]. rewrite !in_range_up by lia.
    destruct (Z.leb_spec cur to); [|lia]. destruct (Z.leb_spec (cur + step) to); [lia|].
    unfold range_list. simpl. repeat f_equal. lia.
  - destruct (Z_le_gt_dec (cur + step) to) as [Hle|Hgt].
    + destruct (IH (cur + step)) as (k & Hk1 & Hk2 & Hk3); [lia|lia|].
      exists (S k). split; [lia|]. split; [lia|]. intros n Hn. destruct n as [|n]; [lia|].
      cbn [srange iter_run]. rewrite in_range_up by lia. destruct (Z.leb_spec cur to); [|lia].
      rewrite Hk3 by lia. rewrite range_list_S. reflexivity.
    + exists 1%nat. split; [lia|]. split; [lia|]. intros n Hn. destruct n as [|[|n]]; try lia.
      cbn [srange iter_run]. rewrite !in_range_up by lia.
      destruct (Z.leb_spec cur to); [|lia]. destruct (Z.leb_spec (cur + step) to); [lia|].
      unfold range_list. simpl. repeat f_equal. lia.
Qed.

Lemma srange_down : forall from to step, step < 0 -> to <= from ->
    forall m cur, to <= cur <= from -> (Z.to_nat (cur - to) <= m)%nat ->
    exists k, (1 <= k)%nat /\ cur + Z.of_nat k * step < to <= cur + (Z.of_nat k - 1) * step /\
      forall n, (k < n)%nat ->
        srange n iter_run from to step cur = Some (map EvIter (range_list cur step k), Normal).
Proof.
  intros from to step Hs Hft. induction m as [|m IH]; intros cur Hc Hm.
  - exists 1%nat. split; [lia|]. split; [lia|]. intros n Hn. destruct n as [|[|n]]; try lia.
    cbn [srange iter_run]. rewrite !in_range_down by lia.
    destruct (Z.leb_spec to cur); [|lia]. destruct (Z.leb_spec to (cur + step)); [lia|].
    unfold range_list. simpl. repeat f_equal. lia.
  - destruct (Z_le_gt_dec to (cur + step)) as [Hle|Hgt].
    + destruct (IH (cur + step)) as (k & Hk1 & Hk2 & Hk3); [lia|lia|].
      exists (S k). split; [lia|]. split; [lia|]. intros n Hn. destruct n as [|n]; [lia|].
      cbn [srange iter_run]. rewrite in_range_down by lia. destruct (Z.leb_spec to cur); [|lia].
      rewrite Hk3 by lia. rewrite range_list_S. reflexivity.
    + exists 1%nat. split; [lia|]. split; [lia|]. intros n Hn. destruct n as [|[|n]]; try lia.
      cbn [srange iter_run]. rewrite !in_range_down by lia.
      destruct (Z.leb_spec to cur); [|lia]. destruct (Z.leb_spec to (cur + step)); [lia|].
      unfold range_list. simpl. repeat f_equal. lia.
Qed.

Lemma srange_diverges : forall from to step (P : Z -> Prop),
    (forall v, P v -> in_range from to v = true /\ P (v + step)) ->
    forall n cur, P cur -> srange n iter_run from to step cur = None.
Proof.
  intros from to step P HP. induction n as [|n IH]; intros cur Hc; [reflexivity|].
  cbn [srange iter_run]. destruct (HP _ Hc) as [-> Hn]. rewrite (IH _ Hn). reflexivity.
Qed.

Close Scope Z_scope.

Lemma mexec_range_empty_body : forall f from to step,
    decode (mexec repaired (S f) (LoopRange from to step [])) = srange f iter_run from to step from.
Proof.
  intros. rewrite signals_as_errors_faithful. cbn [sexec sblock spre app]. reflexivity.
Qed.

(* range(from, to, step) delivers from, from+step, ..., the last value being the last one that
   does not pass `to` (so `to` itself is included when it is hit), for a positive step
   upwards and for a negative step downwards; a step that does not lead from start towards
   end (0, or the wrong sign) never ends *)
Theorem range_inclusive_signed_step : forall from to step,
    ((0 < step /\ from <= to)%Z ->
       exists k, (1 <= k)%nat /\
         (from + (Z.of_nat k - 1) * step <= to < from + Z.of_nat k * step)%Z /\
         forall f, (k < f)%nat ->
           mexec repaired (S f) (LoopRange from to step [])
           = Some (map EvIter (range_list from step k), None)) /\
    ((step < 0 /\ to <= from)%Z ->
       exists k, (1 <= k)%nat /\
         (from + Z.of_nat k * step < to <= from + (Z.of_nat k - 1) * step)%Z /\
         forall f, (k < f)%nat ->
           mexec repaired (S f) (LoopRange from to step [])
           = Some (map EvIter (range_list from step k), None)) /\
    ((step = 0 \/ (from < to /\ step < 0) \/ (to < from /\ 0 < step))%Z ->
       forall fuel, mexec repaired fuel (LoopRange from to step []) = None).
Proof.
  intros from to step. split; [|split].
  - intros [Hs Hft].
    destruct (srange_up from to step Hs Hft (Z.to_nat (to - from)) from) as (k & K1 & K2 & K3); [lia|lia|].
    exists k. split; [exact K1|]. split; [exact K2|]. intros f Hf.
    apply decode_normal_inv. rewrite mexec_range_empty_body. apply K3. exact Hf.
  - intros [Hs Hft].
    destruct (srange_down from to step Hs Hft (Z.to_nat (from - to)) from) as (k & K1 & K2 & K3); [lia|lia|].
    exists k. split; [exact K1|]. split; [exact K2|]. intros f Hf.
    apply decode_normal_inv. rewrite mexec_range_empty_body. apply K3. exact Hf.
  - intros H [|f]; [reflexivity|].
    assert (D : srange f iter_run from to step from = None).
    { destruct H as [->|[[H1 H2]|[H1 H2]]].
      - apply (srange_diverges from to 0%Z (fun v => v = from)); [|reflexivity].
        intros v ->. split; [|lia]. unfold in_range.
        destruct (Z.ltb_spec from to), (Z.ltb_spec to from), (Z.leb_spec from to), (Z.leb_spec to from), (Z.eqb_spec from to);
          try reflexivity; lia.
      - apply (srange_diverges from to step (fun v => (v <= from)%Z)); [|lia].
        intros v Hv. split; [|lia]. unfold in_range.
        destruct (Z.ltb_spec from to); [|lia]. destruct (Z.leb_spec v to); [reflexivity|lia].
      - apply (srange_diverges from to step (fun v => (from <= v)%Z)); [|lia].
        intros v Hv. split; [|lia]. unfold in_range.
        destruct (Z.ltb_spec from to); [lia|]. destruct (Z.ltb_spec to from); [|lia].
        destruct (Z.leb_spec to v); [reflexivity|lia]. }
    pose proof (mexec_range_empty_body f from to step) as E. rewrite D in E.
    destruct (mexec repaired (S f) (LoopRange from to step [])) as [[t e]|]; [discriminate|reflexivity].
Qed.

(* map loops deliver the keys in string order, each once *)
Theorem map_keys_string_order : forall ks, key_order ks (go_sorted_keys ks).
Proof. exact go_sorted_keys_order. Qed.
