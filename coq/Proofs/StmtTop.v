(* Proofs/StmtTop.v — C08, statement level, part 4: ParseWithRuntime (Model/Parser.v [parse])
   on the laid-out tokens of a printed program, round trip and idempotence. *)
From Coq Require Import List String NArith Bool Arith Lia ZArith.
From Ecal Require Import Common.Bytes Common.Ast gen.Tokens gen.Grammar Spec.ParseSpec
     Model.Printer Proofs.PrinterProofs Model.StmtPrinter Spec.StmtFormatSpec Model.Parser
     Proofs.StmtState Proofs.StmtExpr Proofs.StmtProofs Proofs.StmtKey Proofs.StmtNoEof.
Import ListNotations.
Local Open Scope string_scope.
Local Open Scope nat_scope.
Local Open Scope list_scope.

Lemma ps_all s : PS s. Proof. apply stmt_key. Qed.

Definition eoft (le : nat) (epos : Z) : tok := Parser.T TokenEOF [] 0 le epos.

Lemma eof_sep' ln e : t_id e = TokenEOF -> sepT ln e.
Proof. intros H. unfold sepT. rewrite H. repeat split; try discriminate; try (vm_compute; reflexivity). right. vm_compute. reflexivity. Qed.

Lemma eof_sep ln le epos : sepT ln (eoft le epos).
Proof. apply eof_sep'. reflexivity. Qed.

Lemma known_eof : known TokenEOF = true. Proof. vm_compute. reflexivity. Qed.

(* ---------------------------------------------------------------------------------- *)
(* the top-level statement loop *)

Lemma lay_top_cons ln s r K :
  lay ln (pp_lines (BCons s r)) ++ K = lay ln (pp_stmt s) ++ lay (S (ln + nls (pp_stmt s))) (pp_more r) ++ K.
Proof. cbn [pp_lines]. rewrite lay_app. cbn [lay]. rewrite <- app_assoc. reflexivity. Qed.

Lemma lay_top_more ln s r K :
  lay ln (pp_more (BCons s r)) ++ K =
  lay ln (sep_of (pp_stmt s)) ++ lay ln (pp_stmt s) ++ lay (S (ln + nls (pp_stmt s))) (pp_more r) ++ K.
Proof.
  cbn [pp_more]. rewrite lay_app0 by apply nls_sep. rewrite lay_app. cbn [lay]. rewrite <- !app_assoc. reflexivity.
Qed.

Lemma top_head r ln2 e : wfB r -> t_id e = TokenEOF ->
  exists tc2 k2, lay ln2 (pp_more r) ++ [e] = tc2 :: k2 /\
    (r = BNil -> tc2 = e /\ k2 = []) /\
    (r <> BNil -> (forall ln, ln < ln2 -> sepT ln tc2 /\ ln < t_line tc2) /\ (t_id tc2 =? TokenEOF) = false).
Proof.
  intros W He. destruct r as [|s r].
  - cbn [pp_more lay app]. do 2 eexists. split; [reflexivity|]. split; [auto | congruence].
  - cbn [wfB] in W. destruct W as (Ws & Wr).
    destruct (stmt_head s Ws) as (id & v & a & rr & E & H).
    rewrite lay_top_more, lay_sep. destruct (continues (pp_stmt s)) eqn:C.
    + cbn [app]. do 2 eexists. split; [reflexivity|]. split; [discriminate|]. intros _. split; [|reflexivity].
      intros ln Hl. split; [apply semi_sep; exact Hl | exact Hl].
    + rewrite E in *. cbn [lay app]. do 2 eexists. split; [reflexivity|]. split; [discriminate|].
      rewrite continues_head in C. intros _. split.
      * intros ln Hl. split; [apply hstart_sep; assumption | exact Hl].
      * cbn [tk t_id]. apply (hstart_not id TokenEOF H). unfold closers; simpl; tauto.
Qed.

Lemma last_ret_cons s r : r <> BNil -> last_is_return0 (BCons s r) = last_is_return0 r.
Proof. destruct r; [congruence|]. intros _. destruct s; reflexivity. Qed.

Lemma top_lines r : wfB r -> last_is_return0 r = false ->
  forall fuel kf n acc ln e,
    t_id e = TokenEOF -> n_line (snd n) < ln ->
    List.length (lay ln (pp_more r)) + 1 < fuel ->
    List.length (lay ln (pp_more r)) + 1 <= kf ->
    exists trs,
      top_new V fuel kf n acc (pos false (lay ln (pp_more r) ++ [e])) = ROk (acc ++ trs) (st (Some (cn false e)) [] false)
      /\ map strip trs = embed_block r.
Proof.
  induction r as [|s r IH]; intros W Hlast fuel kf n acc ln e He Hn Hfuel Hkf; destruct n as [ni nd]; cbn [snd] in Hn.
  - exists []. cbn [pp_more lay app pos]. rewrite app_nil_r. split; [|reflexivity].
    destruct kf as [|kf]; [cbn [pp_more lay List.length] in Hkf; lia|].
    cbn [top_new]. unfold has_more. rewrite cur_st. cbn [cn fst]. rewrite He. reflexivity.
  - cbn [wfB] in W. destruct W as (Ws & Wr).
    pose proof (len_of _ _ (lay_top_more ln s r [])) as Hl0. rewrite !app_nil_r, !app_length in Hl0.
    rewrite Hl0 in Hfuel, Hkf. clear Hl0.
    rewrite lay_top_more. set (ln2 := S (ln + nls (pp_stmt s))) in *.
    destruct (top_head r ln2 e Wr He) as (tc2 & k2 & E2 & Hnil & Hcons). rewrite E2.
    assert (Hlen2 : List.length (lay ln2 (pp_more r)) + 1 = S (List.length k2)).
    { pose proof (len_of _ _ E2) as H. rewrite app_length in H. cbn [List.length] in H. exact H. }
    destruct (cur_stmt s ln (tc2 :: k2) false Ws) as (id & v & a & Hst & _ & Hcur).
    pose proof (lay_stmt_pos s ln Ws) as Hpos.
    destruct kf as [|kf]; [lia|]. destruct fuel as [|fuel]; [lia|].
    apply Nat.ltb_lt in Hn.
    assert (Hstep : top_new V (S fuel) (S kf) (ni, nd) acc
                      (pos false (lay ln (sep_of (pp_stmt s)) ++ lay ln (pp_stmt s) ++ tc2 :: k2)) =
                    (do n', s2 <- run V (S fuel) 0 (pos false (lay ln (pp_stmt s) ++ tc2 :: k2));
                     top_new V (S fuel) kf n' (acc ++ [snd n']) s2)).
    { rewrite lay_sep. destruct (continues (pp_stmt s)).
      - cbn [app]. cbn [top_new]. unfold has_more. rewrite cur_pos_cons. cbn [cn fst semit tk t_id Nat.eqb TokenSEMICOLON TokenEOF].
        unfold with_cur. rewrite cur_pos_cons. cbn [cn fst semit tk t_id Nat.eqb TokenSEMICOLON]. rewrite pos_cons.
        rewrite skipToken_pos by (try reflexivity; apply headk_stmt; exact Ws). reflexivity.
      - cbn [app]. cbn [top_new]. unfold has_more. rewrite Hcur. cbn [cn fst tk t_id t_line].
        rewrite (hstart_not id TokenEOF Hst) by (unfold closers; simpl; tauto).
        rewrite (hstart_not id TokenSEMICOLON Hst) by (unfold closers; simpl; tauto).
        rewrite Hn. unfold with_cur. rewrite Hcur. cbn [cn fst tk t_id].
        rewrite (hstart_not id TokenSEMICOLON Hst) by (unfold closers; simpl; tauto). reflexivity. }
    rewrite Hstep.
    assert (Hsep : sepT ln tc2 /\ (s = SReturn0 -> ln < t_line tc2)).
    { destruct r as [|s' r'].
      - destruct (Hnil eq_refl) as [-> _]. split; [apply eof_sep'; exact He|].
        intros ->. cbn in Hlast. discriminate.
      - destruct Hcons as (Hc1 & _); [discriminate|]. destruct (Hc1 ln ltac:(unfold ln2; lia)) as [H1 H2]. split; [exact H1 | intros _; exact H2]. }
    destruct Hsep as [Hs2 Hr0].
    destruct (ps_all s Ws fuel ln tc2 k2 Hs2 Hr0 ltac:(lia)) as (i & tr & Erun & Hstrip & Hline).
    rewrite Erun. cbn [rbind snd].
    change (st (Some (cn false tc2)) k2 false) with (pos false (tc2 :: k2)). rewrite <- E2.
    assert (Hlast' : last_is_return0 r = false).
    { destruct r as [|s' r']; [reflexivity|]. rewrite last_ret_cons in Hlast by discriminate. exact Hlast. }
    destruct (IH Wr Hlast' (S fuel) kf (i, tr) (acc ++ [tr]) ln2 e He) as (trs & Eloop & Hmap).
    + cbn [snd]. rewrite Hline. unfold ln2. lia.
    + lia.
    + lia.
    + rewrite Eloop. exists (tr :: trs). split; [rewrite <- app_assoc; reflexivity|].
      cbn [map embed_block]. rewrite Hstrip, Hmap. reflexivity.
Qed.

(* ---------------------------------------------------------------------------------- *)
(* ParseWithRuntime on the printed program *)

Lemma no_eof_lay ln l : no_eof_token l = true -> forall t, In t (lay ln l) -> t_id t <> TokenEOF.
Proof.
  revert ln. induction l as [|[id v a|] l IH]; intros ln H t Hin; cbn [lay] in Hin.
  - destruct Hin.
  - rewrite ne_cons in H. apply andb_true_iff in H. destruct H as [H1 H2].
    destruct Hin as [<-|Hin]; [cbn [tk t_id]; apply Nat.eqb_neq; apply negb_true_iff; exact H1 | apply (IH ln H2 t Hin)].
  - rewrite ne_cons in H. cbn [noeofb andb] in H. apply (IH (S ln) H t Hin).
Qed.

Theorem prog_roundtrip b : wfP b ->
  forall l0 le epos,
  exists t', parsed (parse (source_tokens l0 le epos (pp_prog b))) = Some t' /\ strip t' = embed_prog b.
Proof.
  intros (Hne & W & Hlast) l0 le epos. pose proof (no_eof_prog b W) as Hno.
  unfold source_tokens, parse, parse_with. fold (eoft le epos).
  rewrite (la_init_st (lay l0 (pp_prog b)) (eoft le epos) eq_refl (no_eof_lay l0 _ Hno)).
  set (all := lay l0 (pp_prog b) ++ [eoft le epos]).
  change (mkSt (firstn 3 all) (skipn 3 all) None false) with (st None all false).
  destruct b as [|s r]; [congruence|]. cbn [wfB] in W. destruct W as (Ws & Wr).
  assert (Hhead : headk all).
  { unfold all. destruct r; cbn [pp_prog]; [|rewrite lay_top_cons]; apply headk_stmt; exact Ws. }
  rewrite advance_pos by exact Hhead.
  unfold parse_fuel. replace (List.length all + 5) with (S (List.length all + 4)) by lia.
  destruct r as [|s2 r].
  - (* one statement *)
    unfold all in *. cbn [pp_prog] in *.
    assert (Hr0 : s = SReturn0 -> l0 < t_line (eoft le epos)) by (intros ->; cbn in Hlast; discriminate).
    destruct (ps_all s Ws (List.length (lay l0 (pp_stmt s) ++ [eoft le epos]) + 4) l0 (eoft le epos) [] (eof_sep l0 le epos) Hr0
                ltac:(rewrite app_length; cbn [List.length]; lia)) as (i & tr & Erun & Hstrip & Hline).
    rewrite Erun. unfold has_more. rewrite cur_st. cbn [cn fst eoft t_id Nat.eqb TokenEOF negb finish].
    exists tr. split; [reflexivity | exact Hstrip].
  - (* several statements *)
    set (rr := BCons s2 r) in *. assert (Hrr : rr <> BNil) by discriminate.
    change (pp_prog (BCons s rr)) with (pp_lines (BCons s rr)) in *. unfold all in *. clear all.
    rewrite lay_top_cons. set (ln2 := S (l0 + nls (pp_stmt s))) in *.
    destruct (top_head rr ln2 (eoft le epos) Wr eq_refl) as (tc2 & k2 & E2 & _ & Hcons). rewrite E2.
    destruct (Hcons Hrr) as (Hc1 & Hc2). destruct (Hc1 l0 ltac:(unfold ln2; lia)) as [Hs2 Hl2].
    assert (Hlen2 : List.length (lay ln2 (pp_more rr)) + 1 = S (List.length k2)).
    { pose proof (len_of _ _ E2) as H. rewrite app_length in H. cbn [List.length] in H. exact H. }
    rewrite app_length. cbn [List.length].
    set (F := List.length (lay l0 (pp_stmt s)) + S (List.length k2) + 4) in *.
    destruct (ps_all s Ws F l0 tc2 k2 Hs2 (fun _ => Hl2) ltac:(unfold F; lia)) as (i & tr & Erun & Hstrip & Hline).
    rewrite Erun.
    assert (Hmore : has_more (st (Some (cn false tc2)) k2 false) (@Some rnode (i, tr)) = true).
    { unfold has_more. rewrite cur_st. cbn [cn fst]. rewrite Hc2. destruct (t_id tc2 =? TokenSEMICOLON); [reflexivity|].
      rewrite Hline. apply Nat.ltb_lt. exact Hl2. }
    rewrite Hmore. change (v_propagate V) with true. cbv iota. cbn [snd].
    rewrite fuel_of_st.
    change (st (Some (cn false tc2)) k2 false) with (pos false (tc2 :: k2)). rewrite <- E2.
    assert (Hlast' : last_is_return0 rr = false) by (rewrite last_ret_cons in Hlast by exact Hrr; exact Hlast).
    destruct (top_lines rr Wr Hlast' (S F) (S (List.length k2)) (i, tr) [tr] ln2 (eoft le epos) eq_refl) as (trs & Eloop & Hmap).
    + cbn [snd]. rewrite Hline. unfold ln2. lia.
    + unfold F. lia.
    + lia.
    + rewrite Eloop. cbn [rbind]. rewrite cur_st. cbn [cn fst eoft t_id Nat.eqb TokenEOF negb finish].
      eexists. split; [reflexivity|]. rewrite strip_constructed. cbn [app map embed_prog embed_block].
      rewrite Hstrip, Hmap. reflexivity.
Qed.
