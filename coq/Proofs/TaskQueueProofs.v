(* Proofs/TaskQueueProofs.v — the task queue refines "take the lowest priority number, oldest
   first" for every sequence of pushes, pops, cascade choices and clean-ups; the rule sequence
   of one event. *)
From Coq Require Import List ZArith Bool Arith Lia Permutation Sorting.Sorted.
From Ecal Require Import Common.Sched Model.IntHeap Model.TaskQueue Spec.PrioritySpec Proofs.MonitorProofs.
Import ListNotations.
Local Open Scope Z_scope.

(* ---- the item order --------------------------------------------------------------- *)
Lemma item_le_iff a b : le pqitem item_ltb a b <->
  (pi_prio a < pi_prio b \/ (pi_prio a = pi_prio b /\ pi_order a <= pi_order b)).
Proof.
  unfold le, item_ltb. destruct (Z.eqb_spec (pi_prio b) (pi_prio a)); cbn [negb].
  - rewrite Z.ltb_ge. lia.
  - rewrite Z.ltb_ge. lia.
Qed.
Lemma item_le_trans x y z : le pqitem item_ltb x y -> le pqitem item_ltb y z -> le pqitem item_ltb x z.
Proof. rewrite !item_le_iff. lia. Qed.
Lemma item_lt_le x y : item_ltb x y = true -> le pqitem item_ltb x y.
Proof.
  rewrite item_le_iff. unfold item_ltb. destruct (Z.eqb_spec (pi_prio x) (pi_prio y)); cbn [negb];
    rewrite Z.ltb_lt; lia.
Qed.

Definition iheap (h : list pqitem) : Prop := heap_inv pqitem item_ltb ditem h.

(* ---- pick / Takes ------------------------------------------------------------------ *)
Lemma pick_none l : pick l = None -> l = [].
Proof. destruct l as [|x t]; [reflexivity|]. simpl. destruct (pick t) as [[y t']|]; [destruct (fst y <? fst x)|]; discriminate. Qed.

Lemma pick_takes : forall l x r, pick l = Some (x, r) -> Takes l x r.
Proof.
  induction l as [|x0 t IH]; intros x r H; simpl in H; [discriminate|].
  destruct (pick t) as [[y t']|] eqn:E.
  - destruct (IH y t' eq_refl) as (a & b & Ht & Ht' & Ha & Hb).
    destruct (Z.ltb_spec (fst y) (fst x0)); injection H as <- <-.
    + exists (x0 :: a), b. subst. repeat split; auto. intros z [<-|Hz]; auto.
    + exists [], t. repeat split; auto; [intros z []|]. intros z Hz. subst t.
      apply in_app_iff in Hz. destruct Hz as [Hz|[<-|Hz]]; [specialize (Ha z Hz); lia | lia | specialize (Hb z Hz); lia].
  - apply pick_none in E. subst t. injection H as <- <-. exists [], []. repeat split; auto; intros z [].
Qed.

Lemma pick_in l y t : pick l = Some (y, t) -> In y l.
Proof. intros H. apply pick_takes in H. destruct H as (a & b & -> & _). apply in_app_iff. right; left; reflexivity. Qed.

Lemma takes_pick : forall a x b, (forall y, In y a -> fst x < fst y) -> (forall y, In y b -> fst x <= fst y) ->
  pick (a ++ x :: b) = Some (x, a ++ b).
Proof.
  induction a as [|a0 a IH]; intros x b Ha Hb.
  - simpl. destruct (pick b) as [[y t']|] eqn:E.
    + pose proof (Hb y (pick_in _ _ _ E)). destruct (Z.ltb_spec (fst y) (fst x)); [lia|reflexivity].
    + apply pick_none in E. subst. reflexivity.
  - change ((a0 :: a) ++ x :: b) with (a0 :: (a ++ x :: b)). cbn [pick].
    rewrite IH; [| intros y Hy; apply Ha; right; exact Hy | exact Hb].
    pose proof (Ha a0 (or_introl eq_refl)). destruct (Z.ltb_spec (fst x) (fst a0)); [reflexivity|lia].
Qed.

Lemma takes_iff_pick l x r : Takes l x r <-> pick l = Some (x, r).
Proof.
  split; [|apply pick_takes]. intros (a & b & -> & -> & Ha & Hb). apply takes_pick; assumption.
Qed.

(* ---- one PriorityQueue against its arrival-ordered content ------------------------- *)
Definition proj (it : pqitem) : qitem := (pi_prio it, pi_val it).
Definition ord_lt (a b : pqitem) : Prop := pi_order a < pi_order b.

Definition Rq (q : pq) (L : list qitem) : Prop :=
  exists its, Permutation its (pq_heap q) /\ StronglySorted ord_lt its /\
              (forall it, In it its -> pi_order it < pq_counter q) /\
              map proj its = L /\ iheap (pq_heap q).

Lemma iheap_nil : iheap [].
Proof. intros p c Hc. simpl in Hc. lia. Qed.

Lemma Rq_new : Rq new_pq [].
Proof. exists []. simpl. repeat split; auto; try constructor; [intros it [] | exact iheap_nil]. Qed.

Lemma ss_snoc {A} (R : A -> A -> Prop) l x : StronglySorted R l -> (forall y, In y l -> R y x) -> StronglySorted R (l ++ [x]).
Proof.
  induction 1 as [|a l Hs IH Hf]; intros H; simpl; [repeat constructor|].
  constructor; [apply IH; intros; apply H; right; assumption|].
  apply Forall_app. split; [exact Hf|]. constructor; [apply H; left; reflexivity | constructor].
Qed.

Lemma ss_split {A} (R : A -> A -> Prop) : forall a m b, StronglySorted R (a ++ m :: b) ->
  StronglySorted R (a ++ b) /\ (forall y, In y a -> R y m) /\ (forall y, In y b -> R m y).
Proof.
  induction a as [|a0 a IH]; intros m b H; simpl in *.
  - apply StronglySorted_inv in H. destruct H as [H1 H2]. split; [exact H1|]. split; [intros y []|].
    intros y Hy. rewrite Forall_forall in H2. auto.
  - apply StronglySorted_inv in H. destruct H as [H1 H2]. destruct (IH m b H1) as (I1 & I2 & I3).
    rewrite Forall_forall in H2. split; [|split].
    + constructor; [exact I1|]. rewrite Forall_forall. intros y Hy. apply H2.
      apply in_app_iff in Hy. apply in_app_iff. destruct Hy; [left|right; right]; assumption.
    + intros y [<-|Hy]; [apply H2, in_app_iff; right; left; reflexivity | auto].
    + exact I3.
Qed.

Lemma Rq_push q L v prio : Rq q L -> Rq (pq_push q v prio) (L ++ [(clamp prio, v)]).
Proof.
  intros (its & Hp & Hs & Ho & Hm & Hh). unfold pq_push. fold (clamp prio).
  set (it := mkItem (clamp prio) (pq_counter q) v).
  exists (its ++ [it]). cbn [pq_heap pq_counter]. repeat split.
  - eapply perm_trans; [|apply Permutation_sym, push_perm].
    eapply perm_trans; [apply Permutation_sym, Permutation_cons_append|]. apply perm_skip. exact Hp.
  - apply ss_snoc; [exact Hs|]. intros y Hy. unfold ord_lt. simpl. apply Ho. exact Hy.
  - intros y Hy. apply in_app_iff in Hy. destruct Hy as [Hy|[<-|[]]]; [specialize (Ho y Hy); lia | simpl; lia].
  - rewrite map_app, Hm. reflexivity.
  - apply push_heap; [exact item_le_trans | exact item_lt_le | exact Hh].
Qed.

Lemma Rq_empty q L : Rq q L -> pq_size q = 0%nat -> L = [].
Proof.
  intros (its & Hp & _ & _ & Hm & _) Hs. unfold pq_size in Hs. apply length_zero_iff_nil in Hs.
  rewrite Hs in Hp. apply Permutation_sym, Permutation_nil in Hp. subst. reflexivity.
Qed.

Lemma Rq_pop q L : Rq q L ->
  (L = [] /\ pq_pop q = None) \/
  (exists x r q', pq_pop q = Some (snd x, q') /\ Takes L x r /\ Rq q' r).
Proof.
  intros (its & Hp & Hs & Ho & Hm & Hh). unfold pq_pop. destruct (pq_heap q) as [|h0 ht] eqn:Eh.
  - left. apply Permutation_sym, Permutation_nil in Hp. subst. split; reflexivity.
  - right. rewrite <- Eh in *.
    assert (Hne : pq_heap q <> []) by (rewrite Eh; discriminate).
    destruct (pop_spec pqitem item_ltb ditem item_le_trans item_lt_le _ Hne Hh) as (h' & H1 & H2 & H3 & H4).
    rewrite H1. set (m := nth 0 (pq_heap q) ditem) in *.
    assert (Hmh : m = h0) by (unfold m; rewrite Eh; reflexivity).
    assert (Hmin : forall y, In y (pq_heap q) -> le pqitem item_ltb m y).
    { intros y Hy. rewrite Hmh. eapply heap_head_min; eauto using item_le_trans, item_lt_le. }
    assert (Hin : In m its).
    { apply (Permutation_in _ (Permutation_sym Hp)). rewrite Eh, Hmh. left; reflexivity. }
    apply in_split in Hin. destruct Hin as (a & b & Hab).
    rewrite Hab in Hs. destruct (ss_split ord_lt a m b Hs) as (Hs' & Ha & Hb).
    exists (proj m), (map proj (a ++ b)), (mkPQ h' (pq_counter q)). split; [reflexivity|]. split; [|].
    + exists (map proj a), (map proj b). split; [rewrite <- Hm, Hab, map_app; reflexivity|].
      split; [apply map_app|]. split.
      * intros y' Hy'. apply in_map_iff in Hy'. destruct Hy' as (y & <- & Hy).
        assert (Hyh : In y (pq_heap q)) by (apply (Permutation_in _ Hp); rewrite Hab; apply in_app_iff; left; exact Hy).
        pose proof (proj1 (item_le_iff _ _) (Hmin y Hyh)). pose proof (Ha y Hy) as Hlt. unfold ord_lt in Hlt. simpl. lia.
      * intros y' Hy'. apply in_map_iff in Hy'. destruct Hy' as (y & <- & Hy).
        assert (Hyh : In y (pq_heap q)) by (apply (Permutation_in _ Hp); rewrite Hab; apply in_app_iff; right; right; exact Hy).
        pose proof (proj1 (item_le_iff _ _) (Hmin y Hyh)). simpl. lia.
    + exists (a ++ b). cbn [pq_heap pq_counter]. repeat split; auto.
      * apply Permutation_cons_inv with (a := m). eapply perm_trans; [apply Permutation_middle|].
        rewrite <- Hab. eapply perm_trans; [exact Hp|]. apply Permutation_sym. exact H3.
      * intros y Hy. apply Ho. rewrite Hab. apply in_app_iff in Hy. apply in_app_iff.
        destruct Hy; [left|right; right]; assumption.
Qed.

(* ---- the map of queues --------------------------------------------------------------- *)
Lemma lookup_remove s k k' : lookup (remove s k) k' = if Nat.eqb k' k then None else lookup s k'.
Proof.
  induction s as [|[k0 q] t IH]; simpl; [destruct (Nat.eqb k' k); reflexivity|].
  destruct (Nat.eqb_spec k0 k) as [->|Hk0]; simpl.
  - rewrite IH. destruct (Nat.eqb_spec k' k); reflexivity.
  - rewrite IH. destruct (Nat.eqb_spec k' k0) as [->|]; [|reflexivity].
    destruct (Nat.eqb_spec k0 k); [contradiction|reflexivity].
Qed.

Lemma lookup_set s k q k' : lookup (set s k q) k' = if Nat.eqb k' k then Some q else lookup s k'.
Proof. unfold set. simpl. rewrite lookup_remove. destruct (Nat.eqb k' k); reflexivity. Qed.

Lemma lookup_clean cl : forall s k, lookup (clean s cl) k = if existsb (Nat.eqb k) cl then None else lookup s k.
Proof.
  induction cl as [|c cl IH]; intros s k; simpl; [reflexivity|].
  unfold clean in *. simpl. rewrite IH, lookup_remove.
  destruct (Nat.eqb k c); simpl; [destruct (existsb (Nat.eqb k) cl); reflexivity | reflexivity].
Qed.

Definition R (s : tqstate) (S : squeues) : Prop :=
  forall k, match lookup s k with None => S k = [] | Some q => Rq q (S k) end.

Lemma R_init : R [] (fun _ => []).
Proof. intros k. reflexivity. Qed.

Lemma all_empty_lookup s k q : all_empty s = true -> lookup s k = Some q -> pq_size q = 0%nat.
Proof.
  induction s as [|[k0 q0] t IH]; simpl; [discriminate|]. intros H. apply andb_true_iff in H. destruct H as [H1 H2].
  destruct (Nat.eqb k k0); [intros [= <-]; apply Nat.eqb_eq; exact H1 | apply IH; exact H2].
Qed.

Lemma R_clean s S cl : R s S -> forallb (is_empty_queue s) cl = true -> R (clean s cl) S.
Proof.
  intros HR Hcl k. rewrite lookup_clean. destruct (existsb (Nat.eqb k) cl) eqn:E; [|apply HR].
  apply existsb_exists in E. destruct E as (c & Hc & Hkc). apply Nat.eqb_eq in Hkc. subst c.
  rewrite forallb_forall in Hcl. specialize (Hcl k Hc). unfold is_empty_queue in Hcl.
  specialize (HR k). destruct (lookup s k) as [q|]; [|discriminate].
  apply Nat.eqb_eq in Hcl. eapply Rq_empty; eauto.
Qed.

Lemma R_push s S root prio task : R s S ->
  R (tq_push s root prio task) (sq_set S root (S root ++ [(clamp prio, task)])).
Proof.
  intros HR k. unfold tq_push, sq_set. rewrite lookup_set. destruct (Nat.eqb_spec k root) as [->|]; [|apply HR].
  specialize (HR root). destruct (lookup s root) as [q|].
  - apply Rq_push. exact HR.
  - rewrite HR. apply (Rq_push new_pq [] task prio Rq_new).
Qed.

Lemma step_refines s S l s' : R s S -> tq_step s l = Some s' -> exists S', spec_step S l S' /\ R s' S'.
Proof.
  intros HR H. destruct l as [root prio task | cleaned root task | cleaned]; cbn [tq_step] in H.
  - injection H as <-. eexists. split; [constructor|]. apply R_push. exact HR.
  - unfold tq_pop in H. destruct (forallb (is_empty_queue s) cleaned) eqn:Ecl; [|discriminate].
    pose proof (HR root) as Hroot. destruct (lookup s root) as [q|] eqn:El; [|discriminate].
    destruct (Rq_pop q _ Hroot) as [[_ Hn]|(x & r & q' & Hpop & Htk & Hq')]; rewrite ?Hn in H; [discriminate|].
    rewrite Hpop in H. destruct (Nat.eqb_spec (snd x) task) as [Et|]; [|discriminate]. injection H as <-.
    exists (sq_set S root r). split; [econstructor; eauto|].
    intros k. unfold sq_set. rewrite lookup_set. destruct (Nat.eqb_spec k root) as [->|]; [exact Hq'|].
    apply (R_clean s S cleaned HR Ecl k).
  - unfold tq_pop_nil in H. destruct (forallb (is_empty_queue s) cleaned) eqn:Ecl; [|discriminate].
    destruct (all_empty s) eqn:Ea; [|discriminate]. simpl in H. injection H as <-.
    exists S. split; [|apply R_clean; assumption]. constructor. intros k. specialize (HR k).
    destruct (lookup s k) as [q|] eqn:El; [|exact HR]. eapply Rq_empty; eauto. eapply all_empty_lookup; eauto.
Qed.

Theorem tq_refines : forall trace s S s', R s S -> run tq_step s trace = Some s' ->
  exists S', spec_run S trace S' /\ R s' S'.
Proof.
  induction trace as [|l t IH]; intros s S s' HR H; simpl in H.
  - injection H as <-. exists S. split; [constructor | exact HR].
  - destruct (tq_step s l) as [s1|] eqn:E; [|discriminate].
    destruct (step_refines s S l s1 HR E) as (S1 & Hst & HR1).
    destruct (IH s1 S1 s' HR1 H) as (S2 & Hrun & HR2). exists S2. split; [econstructor; eauto | exact HR2].
Qed.

(* a pop can only answer nil when nothing is queued, and always answers when something is *)
Lemma pop_progress s S root : R s S -> S root <> [] ->
  exists task s', tq_pop s [] root = Some (task, s').
Proof.
  intros HR Hne. unfold tq_pop. simpl. specialize (HR root). destruct (lookup s root) as [q|]; [|contradiction].
  destruct (Rq_pop q _ HR) as [[Hn _]|(x & r & q' & Hpop & _ & _)]; [contradiction|]. rewrite Hpop. eauto.
Qed.

(* ---- the rule sequence -------------------------------------------------------------- *)
Lemma exec_false : forall rs errs, exec_rules false rs errs = (rs, errs ++ map r_id (filter r_fails rs)).
Proof.
  induction rs as [|r t IH]; intros errs; simpl; [rewrite app_nil_r; reflexivity|].
  rewrite IH. destruct (r_fails r); simpl; [rewrite <- app_assoc|]; reflexivity.
Qed.

Lemma exec_true : forall rs,
  ((forall r, In r rs -> r_fails r = false) /\ exec_rules true rs [] = (rs, [])) \/
  (exists a r b, rs = a ++ r :: b /\ (forall x, In x a -> r_fails x = false) /\ r_fails r = true /\
                 exec_rules true rs [] = (a ++ [r], [r_id r])).
Proof.
  induction rs as [|r t IH]; [left; split; [intros r []|reflexivity]|].
  cbn [exec_rules]. destruct (r_fails r) eqn:Ef.
  - right. exists [], r, t. simpl. repeat split; auto. intros x [].
  - cbn [app length Nat.ltb Nat.leb andb]. destruct IH as [[Hall He]|(a & r0 & b & -> & Ha & Hr & He)]; rewrite He.
    + left. split; [|reflexivity]. intros x [<-|Hx]; auto.
    + right. exists (r :: a), r0, b. repeat split; auto. intros x [<-|Hx]; auto.
Qed.

Theorem process_event_spec (srt : list rule -> list rule) :
  (forall l, Permutation (srt l) l /\ StronglySorted prio_le (srt l)) ->
  forall flag triggered,
    RuleSequence flag triggered (fst (process_event srt flag triggered)) (snd (process_event srt flag triggered)).
Proof.
  intros Hsrt flag triggered. destruct (Hsrt triggered) as [Hp Hs]. exists (srt triggered).
  split; [exact Hp|]. split; [exact Hs|]. unfold process_event. destruct flag.
  - destruct (exec_true (srt triggered)) as [[Hall He]|(a & r & b & Hsplit & Ha & Hr & He)]; rewrite He; simpl.
    + left. auto.
    + right. exists a, r, b. auto.
  - rewrite exec_false. simpl. auto.
Qed.

(* the insertion sort with an arbitrary tie-break meets the contract assumed of sort.Sort *)
Lemma rule_leb_true tie a b : rule_leb tie a b = true -> prio_le a b.
Proof. unfold rule_leb, prio_le. destruct (Z.eqb_spec (r_prio a) (r_prio b)); [lia|]. rewrite Z.ltb_lt. lia. Qed.
Lemma rule_leb_false tie a b : rule_leb tie a b = false -> prio_le b a.
Proof. unfold rule_leb, prio_le. destruct (Z.eqb_spec (r_prio a) (r_prio b)); [lia|]. rewrite Z.ltb_ge. lia. Qed.

Lemma insert_perm tie r l : Permutation (insert_rule tie r l) (r :: l).
Proof.
  induction l as [|x t IH]; simpl; [apply Permutation_refl|]. destruct (rule_leb tie r x); [apply Permutation_refl|].
  eapply perm_trans; [apply perm_skip; exact IH|]. apply perm_swap.
Qed.

Lemma insert_sorted tie r l : StronglySorted prio_le l -> StronglySorted prio_le (insert_rule tie r l).
Proof.
  induction 1 as [|x t Hs IH Hf]; simpl; [repeat constructor|].
  destruct (rule_leb tie r x) eqn:E.
  - constructor; [constructor; assumption|]. apply rule_leb_true in E. constructor; [exact E|].
    rewrite Forall_forall in *. intros y Hy. specialize (Hf y Hy). unfold prio_le in *. lia.
  - constructor; [exact IH|]. apply rule_leb_false in E. rewrite Forall_forall in *. intros y Hy.
    apply (Permutation_in _ (insert_perm tie r t)) in Hy. destruct Hy as [<-|Hy]; auto.
Qed.

Lemma ins_sort_contract tie l : Permutation (ins_sort tie l) l /\ StronglySorted prio_le (ins_sort tie l).
Proof.
  induction l as [|r t [IH1 IH2]]; simpl; [split; constructor|]. split.
  - eapply perm_trans; [apply insert_perm|]. apply perm_skip. exact IH1.
  - apply insert_sorted. exact IH2.
Qed.

(* events added by executed actions are queued for the cascade *)
Lemma R_push_all : forall adds s S root, R s S ->
  exists S', R (push_all s root adds) S' /\ S' root = S root ++ map (fun a => (clamp (fst a), snd a)) adds /\
             (forall k, k <> root -> S' k = S k).
Proof.
  induction adds as [|a adds IH]; intros s S root HR; simpl.
  - exists S. rewrite app_nil_r. auto.
  - destruct (IH _ _ root (R_push s S root (fst a) (snd a) HR)) as (S' & H1 & H2 & H3). exists S'. split; [exact H1|]. split.
    + rewrite H2. unfold sq_set. rewrite Nat.eqb_refl, <- app_assoc. reflexivity.
    + intros k Hk. rewrite H3 by exact Hk. unfold sq_set. destruct (Nat.eqb_spec k root); [contradiction|reflexivity].
Qed.

(* every single pop of every run *)
Lemma pop_after_trace trace cleaned root task s :
  run tq_step [] (trace ++ [TPop cleaned root task]) = Some s ->
  exists S a x b, spec_run (fun _ => []) trace S /\ S root = a ++ x :: b /\ snd x = task /\
                  (forall y, In y a -> fst x < fst y) /\ (forall y, In y b -> fst x <= fst y).
Proof.
  rewrite run_app. destruct (run tq_step [] trace) as [s1|] eqn:E; [|discriminate]. intros H.
  destruct (tq_refines trace [] (fun _ => []) s1 R_init E) as (S & Hrun & HR).
  cbn [run] in H. destruct (tq_step s1 (TPop cleaned root task)) as [s2|] eqn:E2; [|discriminate].
  destruct (step_refines s1 S _ s2 HR E2) as (S' & Hst & _). inversion Hst; subst.
  match goal with H : Takes _ _ _ |- _ => destruct H as (a & b & Hl & _ & Ha & Hb) end.
  exists S, a, x, b. auto.
Qed.

Lemma ss_prefix {A} (R : A -> A -> Prop) : forall a b, StronglySorted R (a ++ b) -> StronglySorted R a.
Proof.
  induction a as [|x a IH]; intros b H; [constructor|]. simpl in H. apply StronglySorted_inv in H. destruct H as [H1 H2].
  constructor; [eapply IH; eauto|]. apply Forall_app in H2. tauto.
Qed.

Lemma rules_ascending (srt : list rule -> list rule) :
  (forall l, Permutation (srt l) l /\ StronglySorted prio_le (srt l)) ->
  forall flag triggered,
    let executed := fst (process_event srt flag triggered) in
    StronglySorted prio_le executed /\
    (exists rest, Permutation (executed ++ rest) triggered /\ StronglySorted prio_le (executed ++ rest)) /\
    (flag = false -> Permutation executed triggered).
Proof.
  intros Hsrt flag triggered executed.
  destruct (process_event_spec srt Hsrt flag triggered) as (order & Hp & Hs & Hc). fold executed in Hc.
  destruct flag.
  - destruct Hc as [(_ & He & _)|(a & r & b & Ho & _ & _ & He & _)].
    + rewrite He. split; [exact Hs|]. split; [exists []; rewrite app_nil_r; auto | discriminate].
    + rewrite He. assert (Ho' : order = (a ++ [r]) ++ b) by (rewrite <- app_assoc; exact Ho).
      split; [rewrite Ho' in Hs; eapply ss_prefix; eauto|]. split; [|discriminate].
      exists b. rewrite <- Ho'. auto.
  - destruct Hc as [He _]. rewrite He. split; [exact Hs|]. split; [exists []; rewrite app_nil_r; auto | auto].
Qed.

Lemma failing_rule_events_queued s S root executed r a :
  R s S -> In r executed -> In a (r_adds r) ->
  exists S', R (push_all s root (adds_of executed)) S' /\ In (clamp (fst a), snd a) (S' root).
Proof.
  intros HR Hr Ha. destruct (R_push_all (adds_of executed) s S root HR) as (S' & H1 & H2 & _).
  exists S'. split; [exact H1|]. rewrite H2. apply in_app_iff. right.
  apply in_map_iff. exists a. split; [reflexivity|]. unfold adds_of. apply in_flat_map. eauto.
Qed.
