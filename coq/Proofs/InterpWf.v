(* Proofs/InterpWf.v — the parser's well-formedness predicate (Spec/ParseSpec.wf) implies the
   tree predicate the interpreter model needs (Proofs/InterpShape.interp_shape); on such trees
   Validate never reaches an [invalid] site, and a VOk answer gives [tok]. *)
From Coq Require Import List String NArith Bool Arith Lia.
From Ecal Require Import Common.Bytes Common.Ast gen.Tokens Spec.ParseSpec Model.Interp Proofs.InterpShape.
Import ListNotations.
Local Open Scope string_scope.
Local Open Scope list_scope.
Local Open Scope nat_scope.

(* ---------------------------------------------------------------- helpers on kinds lists *)

Lemma mem_In : forall x l, mem x l = true -> In x l.
Proof.
  intros x l H. unfold mem in H. apply existsb_exists in H.
  destruct H as [y [Hy He]]. apply String.eqb_eq in He. subst y. exact Hy.
Qed.

Lemma list_eqb_len : forall cs l, list_eqb (map n_name cs) l = true -> length cs = length l.
Proof.
  intros cs l H. unfold list_eqb in H. apply andb_prop in H. destruct H as [H _].
  apply Nat.eqb_eq in H. rewrite map_length in H. exact H.
Qed.

Lemma guard_pairs_if_ok_aux : forall cs,
  (guard_pairs (map n_name cs) = true -> if_ok cs = true) /\
  (forall c, guard_pairs (map n_name (c :: cs)) = true -> if_ok (c :: cs) = true).
Proof.
  induction cs as [|d r [IH1 IH2]].
  - split; [reflexivity|]. intros c H. cbn in H. discriminate H.
  - split; [apply IH2|].
    intros c H. cbn [map guard_pairs] in H. cbn [if_ok].
    apply andb_prop in H. destruct H as [H1 H3].
    apply andb_prop in H1. destruct H1 as [H1 H2].
    apply andb_true_intro. split; [exact H1 | apply IH1; exact H3].
Qed.

Lemma guard_pairs_if_ok : forall cs, guard_pairs (map n_name cs) = true -> if_ok cs = true.
Proof. intros cs. apply (proj1 (guard_pairs_if_ok_aux cs)). Qed.

Lemma ident_kids_ident_ok : forall cs, ident_kids (map n_name cs) = true -> ident_ok cs = true.
Proof.
  induction cs as [|c r IH]; [reflexivity|].
  intro H. unfold ident_kids in H. cbn [map drop_accesses] in H.
  destruct (mem (n_name c) ["funccall"; "compaccess"]) eqn:M.
  - cbn [ident_ok].
    assert (Hr : ident_ok r = true) by (apply IH; unfold ident_kids; exact H).
    rewrite Hr.
    apply mem_In in M. cbn [In] in M.
    destruct M as [M|[M|M]]; [ | | contradiction]; rewrite <- M; reflexivity.
  - destruct r as [|d r'].
    + cbn [ident_ok].
      destruct (String.eqb (n_name c) NodeCOMPACCESS);
        destruct (String.eqb (n_name c) NodeIDENTIFIER); reflexivity.
    + cbn [map] in H. discriminate H.
Qed.

Lemma func_kids_func_ok : forall cs,
  list_eqb (map n_name cs) ["params"; "statements"] = true \/
  list_eqb (map n_name cs) ["identifier"; "params"; "statements"] = true ->
  func_ok cs = true.
Proof.
  intros cs [H|H].
  - pose proof (list_eqb_len _ _ H) as L. cbn [length] in L.
    destruct cs as [|a [|b [|c r]]]; try discriminate L.
    unfold list_eqb in H. cbn [map length combine forallb fst snd] in H.
    apply andb_prop in H. destruct H as [_ H].
    apply andb_prop in H. destruct H as [H _].
    apply String.eqb_eq in H. unfold func_ok. rewrite H. reflexivity.
  - pose proof (list_eqb_len _ _ H) as L. cbn [length] in L.
    destruct cs as [|a [|b [|c [|d r]]]]; try discriminate L.
    unfold func_ok. destruct (String.eqb (n_name a) NodeIDENTIFIER); reflexivity.
Qed.

(* ---------------------------------------------------------------- 1. shape_ok -> ishape *)

Ltac nm H :=
  match type of H with
  | mem _ _ = true =>
    apply mem_In in H;
    cbn [In leaf_kinds unary_kinds sign_kinds binary_kinds seq_kinds] in H;
    repeat (destruct H as [H|H]); try contradiction
  | _ => apply String.eqb_eq in H
  end.

Ltac fin0 := cbv -[length Nat.eqb Nat.leb if_ok ident_ok func_ok].

Ltac fin Hx :=
  fin0;
  first [ reflexivity
        | exact Hx
        | apply Nat.eqb_eq in Hx; rewrite Hx; reflexivity
        | apply list_eqb_len in Hx; cbn [length] in Hx; rewrite Hx; reflexivity ].

Lemma shape_ishape : forall name cs, shape_ok name (map n_name cs) = true -> ishape name cs = true.
Proof.
  intros name cs H. unfold shape_ok, shapes in H. cbn [existsb] in H.
  rewrite map_length in H.
  repeat (match type of H with
          | (_ || _) = true => apply orb_prop in H; destruct H as [H|H]
          end); [ .. | discriminate H].
  - (* leaf *) apply andb_prop in H. destruct H as [Hn Hx]. nm Hn; subst name; fin Hx.
  - (* unary *) apply andb_prop in H. destruct H as [Hn Hx]. nm Hn; subst name; fin Hx.
  - (* sign *) apply andb_prop in H. destruct H as [Hn Hx]. nm Hn; subst name; fin Hx.
  - (* binary *) apply andb_prop in H. destruct H as [Hn Hx]. nm Hn; subst name; fin Hx.
  - (* seq *) nm H; subst name; fin0; reflexivity.
  - (* identifier *) apply andb_prop in H. destruct H as [Hn Hx]. nm Hn; subst name.
    fin0. apply ident_kids_ident_ok. exact Hx.
  - (* compaccess *) apply andb_prop in H. destruct H as [Hn Hx]. nm Hn; subst name; fin Hx.
  - (* guard *) apply andb_prop in H. destruct H as [Hn Hx]. nm Hn; subst name; fin Hx.
  - (* import *) apply andb_prop in H. destruct H as [Hn Hx]. nm Hn; subst name; fin0; reflexivity.
  - (* sink *) apply andb_prop in H. destruct H as [Hn Hx]. nm Hn; subst name; fin0; reflexivity.
  - (* function *) apply andb_prop in H. destruct H as [Hn Hx]. nm Hn; subst name.
    fin0. apply func_kids_func_ok. apply orb_prop in Hx. exact Hx.
  - (* return *) apply andb_prop in H. destruct H as [Hn Hx]. nm Hn; subst name; fin0; reflexivity.
  - (* if *) apply andb_prop in H. destruct H as [Hn Hx].
    apply andb_prop in Hn. destruct Hn as [Hn _]. nm Hn; subst name.
    fin0. apply guard_pairs_if_ok. exact Hx.
  - (* loop *) apply andb_prop in H. destruct H as [Hn Hx]. nm Hn; subst name.
    apply orb_prop in Hx. destruct Hx as [Hx|Hx]; fin Hx.
  - (* try *) apply andb_prop in H. destruct H as [Hn Hx]. nm Hn; subst name.
    destruct cs as [|c r]; [cbn [map] in Hx; discriminate Hx|].
    fin0. reflexivity.
  - (* except *) apply andb_prop in H. destruct H as [Hn Hx]. nm Hn; subst name; fin0; reflexivity.
  - (* as *) apply andb_prop in H. destruct H as [Hn Hx]. nm Hn; subst name; fin Hx.
  - (* otherwise *) apply andb_prop in H. destruct H as [Hn Hx]. nm Hn; subst name; fin Hx.
  - (* finally *) apply andb_prop in H. destruct H as [Hn Hx]. nm Hn; subst name; fin Hx.
  - (* mutex *) apply andb_prop in H. destruct H as [Hn Hx]. nm Hn; subst name; fin Hx.
Qed.

(* ---------------------------------------------------------------- 2. wf -> interp_shape *)

Theorem wf_interp_shape : forall t, wf t -> interp_shape t = true.
Proof.
  unfold wf. induction t as [name v i a l cs IH] using node_ind'.
  intro H. cbn [wfb] in H. apply andb_prop in H. destruct H as [H1 H2].
  cbn [interp_shape]. apply andb_true_intro. split.
  - apply shape_ishape. exact H1.
  - apply forallb_forall. intros x Hx. rewrite Forall_forall in IH.
    apply IH; [exact Hx|]. rewrite forallb_forall in H2. apply H2. exact Hx.
Qed.

(* ---------------------------------------------------------------- Validate *)

Section W.
  Context {NO : NumOps}.

  Ltac vfin :=
    repeat (cbv iota;
            match goal with
            | |- VOk <> _ => discriminate
            | |- VErr _ <> _ => discriminate
            | |- VUnmod _ <> _ => discriminate
            | |- (if ?b then _ else _) <> _ => destruct b
            | |- (match ?x with _ => _ end) <> _ => destruct x
            end).

  Lemma interp_shape_node : forall name v i a l cs,
    interp_shape (Node name v i a l cs) = ishape name cs && forallb interp_shape cs.
  Proof. reflexivity. Qed.

  Theorem validate_node_not_invalid :
    forall n, interp_shape n = true -> forall w, validate_node n <> VInvalid w.
  Proof.
    intros [name v i a l cs] H w. rewrite interp_shape_node in H.
    apply andb_prop in H. destruct H as [Hs Hc].
    unfold validate_node. cbv beta zeta. cbn [n_name n_children n_val].
    destruct (String.eqb name NodeNUMBER) eqn:E1; [vfin|].
    destruct (String.eqb name NodeMAP) eqn:E2; [vfin|].
    destruct (String.eqb name NodeLOOP) eqn:E3.
    { apply String.eqb_eq in E3. subst name.
      destruct cs as [|h r]; [vm_compute in Hs; discriminate Hs|].
      destruct h as [hn hv hi ha hl hcs].
      destruct (is_name (Node hn hv hi ha hl hcs) NodeIN) eqn:Eh; [|vfin].
      unfold is_name in Eh. cbn [n_name] in Eh. apply String.eqb_eq in Eh. subst hn.
      cbn [forallb] in Hc. rewrite interp_shape_node in Hc.
      apply andb_prop in Hc. destruct Hc as [Hh Hr].
      apply andb_prop in Hh. destruct Hh as [Hh1 Hh2].
      cbn [n_children].
      destruct hcs as [|x r0]; [vm_compute in Hh1; discriminate Hh1|].
      vfin. }
    destruct (String.eqb name NodeASSIGN) eqn:E4.
    { apply String.eqb_eq in E4. subst name.
      destruct cs as [|h r]; [vm_compute in Hs; discriminate Hs|].
      destruct h as [hn hv hi ha hl hcs].
      destruct (is_name (Node hn hv hi ha hl hcs) NodeLET) eqn:Eh; [|vfin].
      unfold is_name in Eh. cbn [n_name] in Eh. apply String.eqb_eq in Eh. subst hn.
      cbn [forallb] in Hc. rewrite interp_shape_node in Hc.
      apply andb_prop in Hc. destruct Hc as [Hh Hr].
      apply andb_prop in Hh. destruct Hh as [Hh1 Hh2].
      cbn [n_children].
      destruct hcs as [|x r0]; [vm_compute in Hh1; discriminate Hh1|].
      vfin. }
    destruct (String.eqb name NodeLET) eqn:E5.
    { apply String.eqb_eq in E5. subst name.
      destruct cs as [|h r]; [vm_compute in Hs; discriminate Hs|].
      vfin. }
    vfin.
  Qed.

  (* the children loop of validate *)
  Definition vgo (l : list node) : vres :=
    (fix go (l : list node) : vres :=
       match l with
       | [] => VOk
       | c :: r => match validate c with VOk => go r | x => x end
       end) l.

  Lemma validate_eq : forall name v i a l cs,
    validate (Node name v i a l cs) =
    match vgo cs with VOk => validate_node (Node name v i a l cs) | x => x end.
  Proof. reflexivity. Qed.

  Lemma vgo_nil : vgo [] = VOk.
  Proof. reflexivity. Qed.

  Lemma vgo_cons : forall c r, vgo (c :: r) = match validate c with VOk => vgo r | x => x end.
  Proof. reflexivity. Qed.

  Lemma vgo_not_invalid : forall cs,
    Forall (fun t => interp_shape t = true -> forall w, validate t <> VInvalid w) cs ->
    forallb interp_shape cs = true -> forall w, vgo cs <> VInvalid w.
  Proof.
    intros cs F. induction F as [|c r Hc Hr IH]; intros Hs w.
    - rewrite vgo_nil. discriminate.
    - rewrite vgo_cons. cbn [forallb] in Hs. apply andb_prop in Hs. destruct Hs as [H1 H2].
      specialize (Hc H1). destruct (validate c) as [|e|u|w0] eqn:E.
      + apply IH. exact H2.
      + discriminate.
      + discriminate.
      + exfalso. apply (Hc w0). reflexivity.
  Qed.

  Theorem validate_not_invalid :
    forall t, interp_shape t = true -> forall w, validate t <> VInvalid w.
  Proof.
    induction t as [name v i a l cs IH] using node_ind'. intros Hs w.
    rewrite validate_eq.
    assert (G : forall w', vgo cs <> VInvalid w').
    { apply vgo_not_invalid; [exact IH|].
      rewrite interp_shape_node in Hs. apply andb_prop in Hs. destruct Hs as [_ Hs]. exact Hs. }
    destruct (vgo cs) as [|e|u|w0] eqn:E.
    - apply validate_node_not_invalid. exact Hs.
    - discriminate.
    - discriminate.
    - exfalso. apply (G w0). reflexivity.
  Qed.

  Lemma vgo_tok : forall cs,
    Forall (fun t => interp_shape t = true -> validate t = VOk -> tok t = true) cs ->
    forallb interp_shape cs = true -> vgo cs = VOk -> forallb tok cs = true.
  Proof.
    intros cs F. induction F as [|c r Hc Hr IH]; intros Hs Hv.
    - reflexivity.
    - rewrite vgo_cons in Hv. cbn [forallb] in Hs. apply andb_prop in Hs. destruct Hs as [H1 H2].
      destruct (validate c) as [|e|u|w0] eqn:E; try discriminate Hv.
      cbn [forallb]. apply andb_true_intro. split.
      + apply Hc; [exact H1|reflexivity].
      + apply IH; [exact H2|exact Hv].
  Qed.

  Theorem tok_of_shape_validate :
    forall t, interp_shape t = true -> validate t = VOk -> tok t = true.
  Proof.
    induction t as [name v i a l cs IH] using node_ind'. intros Hs Hv.
    rewrite validate_eq in Hv. rewrite interp_shape_node in Hs.
    apply andb_prop in Hs. destruct Hs as [Hs1 Hs2].
    destruct (vgo cs) as [|e|u|w0] eqn:E; try discriminate Hv.
    cbn [tok]. rewrite Hs1. unfold vnode_ok. rewrite Hv. cbn [andb].
    apply vgo_tok; [exact IH|exact Hs2|exact E].
  Qed.

  Corollary wf_validate_tok : forall t, wf t -> validate t = VOk -> tok t = true.
  Proof.
    intros t H Hv. apply tok_of_shape_validate; [apply wf_interp_shape; exact H|exact Hv].
  Qed.

  Corollary wf_validate_not_invalid : forall t, wf t -> forall w, validate t <> VInvalid w.
  Proof.
    intros t H w. apply validate_not_invalid. apply wf_interp_shape. exact H.
  Qed.
End W.

Print Assumptions wf_interp_shape.
Print Assumptions wf_validate_tok.
Print Assumptions wf_validate_not_invalid.
