(* Proofs/PrattProofs.v — the Pratt loop of Model/Pratt.v inverts every sufficiently
   parenthesised writing of every expression tree (DESIGN.md Appendix A.1):
     1. facts about parser.astNodeMap, COMPUTED from gen/Grammar.v (re-checked whenever the
        table in parser.go changes): denotation kinds, node names, and that the binding
        powers realise the documented levels of Spec/ExprGrammarSpec.v;
     2. a relational big-step presentation Run/Loop of the success paths of run/loop;
     3. the key lemma by structural induction on the writing;
     4. adequacy: Run implies that the fuelled function returns the same result for every
        fuel >= 2 * (number of tokens consumed). *)
From Coq Require Import List String NArith Bool Arith Lia.
From Ecal Require Import Common.Bytes Common.Ast gen.Tokens gen.Grammar Model.Pratt Spec.ExprGrammarSpec.
Import ListNotations.
Local Open Scope nat_scope.
Local Open Scope string_scope.
Local Open Scope list_scope.

(* ------------------------------------------------------------------ 1. table facts *)
Arguments lookup_ge : simpl never.
Arguments grammar_table : simpl never.

Definition all_binops : list binop :=
  [OTimes; ODiv; ODivInt; OModInt; OPlus; OMinus; OGeq; OLeq; ONeq; OEq; OGt; OLt;
   OLike; OIn; OHasPrefix; OHasSuffix; ONotIn; OAnd; OOr; OAssign].
Definition all_preops : list preop := [PNeg; PPos; PNot].
Definition all_atoms : list atomk := [ANum; AStr; ATrue; AFalse; ANull; AIdent].

Lemma all_binops_complete o : In o all_binops.
Proof. destruct o; simpl; tauto. Qed.
Lemma all_preops_complete o : In o all_preops.
Proof. destruct o; simpl; tauto. Qed.
Lemma all_atoms_complete k : In k all_atoms.
Proof. destruct k; simpl; tauto. Qed.

(* table lookups depend on the token id only *)
Definition bp_id (id : nat) : nat := match lookup_ge grammar_table id with Some g => ge_binding g | None => 0 end.
Definition nullk_id (id : nat) : string := match lookup_ge grammar_table id with Some g => ge_null g | None => "" end.
Definition leftk_id (id : nat) : string := match lookup_ge grammar_table id with Some g => ge_left g | None => "" end.
Definition nname_id (id : nat) : string := match lookup_ge grammar_table id with Some g => ge_name g | None => "" end.
Definition known_id (id : nat) : bool := match lookup_ge grammar_table id with Some _ => true | None => false end.

Lemma bp_tok id i : bp (tok_of id i) = bp_id id. Proof. reflexivity. Qed.
Lemma nullk_tok id i : nullk (tok_of id i) = nullk_id id. Proof. reflexivity. Qed.
Lemma leftk_tok id i : leftk (tok_of id i) = leftk_id id. Proof. reflexivity. Qed.
Lemma mk_tok id i cs : mk (tok_of id i) cs = leaf_of (nname_id id) i cs. Proof. reflexivity. Qed.

(* a token id that can stand inside / after an expression without being an access suffix,
   a comment or an error token *)
Definition plain_id (id : nat) : bool :=
  known_id id && negb (Nat.eqb id TokenDOT) && negb (Nat.eqb id TokenLPAREN)
  && negb (Nat.eqb id TokenLBRACK) && negb (Nat.eqb id TokenError)
  && negb (Nat.eqb id TokenPRECOMMENT) && negb (Nat.eqb id TokenPOSTCOMMENT).

(* shapes of a writing: what the key lemma needs to know about its outermost construct *)
Inductive shape := ShAtom | ShPre (o : preop) | ShBin (o : binop).
Definition shape_of (p : pexpr) : shape :=
  match p with
  | PAtom _ _ | PParen _ _ _ => ShAtom
  | PPre o _ _ => ShPre o
  | PBin o _ _ _ => ShBin o
  end.
Definition slev (s : shape) : nat :=
  match s with ShAtom => atom_level | ShPre o => plevel o | ShBin o => level o end.
Lemma slev_shape p : slev (shape_of p) = plev p. Proof. destruct p; reflexivity. Qed.

(* the right binding with which the LAST sub-expression of a writing is parsed
   (None: the writing ends with an atom or a closing parenthesis) *)
Definition thr (s : shape) : option nat :=
  match s with
  | ShAtom => None
  | ShPre o => Some (bp_id (pre_id o) + 20)
  | ShBin o => Some (bp_id (bin_id o))
  end.
(* the binding power the context must stay below for the outermost operator to be taken *)
Definition ctxb (s : shape) : option nat :=
  match s with ShBin o => Some (bp_id (bin_id o)) | _ => None end.

Definition le_opt (n : nat) (o : option nat) : bool := match o with Some m => Nat.leb n m | None => true end.
Definition lt_opt (n : nat) (o : option nat) : bool := match o with Some m => Nat.ltb n m | None => true end.

Definition all_shapes : list shape :=
  ShAtom :: map ShPre all_preops ++ map ShBin all_binops.
Lemma all_shapes_complete s : In s all_shapes.
Proof. destruct s as [|[]|[]]; simpl; tauto. Qed.

(* --- the facts, as closed boolean computations over the generated table --- *)

(* kinds and names of the tokens of the fragment *)
Definition kind_bin (o : binop) : bool :=
  String.eqb (leftk_id (bin_id o)) "ldInfix" && (String.eqb (nname_id (bin_id o)) (bin_name o)
  && (plain_id (bin_id o) && Nat.ltb 0 (bp_id (bin_id o)))).
Definition kind_pre (o : preop) : bool :=
  String.eqb (nullk_id (pre_id o)) "ndPrefix" && (String.eqb (nname_id (pre_id o)) (pre_name o)
  && plain_id (pre_id o)).
Definition kind_atom (k : atomk) : bool :=
  String.eqb (nullk_id (atom_id k)) (match k with AIdent => "ndIdentifier" | _ => "ndTerm" end)
  && (String.eqb (nname_id (atom_id k)) (atom_name k) && plain_id (atom_id k)).
Definition kind_paren : bool :=
  String.eqb (nullk_id TokenLPAREN) "ndInner" && (known_id TokenLPAREN
  && (plain_id TokenRPAREN && (Nat.eqb (bp_id TokenRPAREN) 0
  && (plain_id TokenEOF && Nat.eqb (bp_id TokenEOF) 0)))).

(* a left operand of level >= the operator's: the operator stops the operand's last
   sub-parse and the operand's own operator is at least as tight *)
Definition fL (s : shape) (o : binop) : bool :=
  implb (Nat.leb (level o) (slev s))
        (le_opt (bp_id (bin_id o)) (thr s) && le_opt (bp_id (bin_id o)) (ctxb s)).
(* a right operand of level > the operator's *)
Definition fR (s : shape) (o : binop) : bool :=
  implb (Nat.ltb (level o) (slev s))
        (le_opt (bp_id (bin_id o)) (thr s) && lt_opt (bp_id (bin_id o)) (ctxb s)).
(* the operand of a prefix operator (parsed with binding+20) of level >= the operator's *)
Definition fP (s : shape) (o : preop) : bool :=
  implb (Nat.leb (plevel o) (slev s))
        (le_opt (bp_id (pre_id o) + 20) (thr s) && lt_opt (bp_id (pre_id o) + 20) (ctxb s)).
Definition factL : bool := forallb (fun s => forallb (fL s) all_binops) all_shapes.
Definition factR : bool := forallb (fun s => forallb (fR s) all_binops) all_shapes.
Definition factP : bool := forallb (fun s => forallb (fP s) all_preops) all_shapes.

Lemma kind_bin_true : forallb kind_bin all_binops = true. Proof. vm_compute. reflexivity. Qed.
Lemma kind_pre_true : forallb kind_pre all_preops = true. Proof. vm_compute. reflexivity. Qed.
Lemma kind_atom_true : forallb kind_atom all_atoms = true. Proof. vm_compute. reflexivity. Qed.
Lemma kind_paren_true : kind_paren = true. Proof. vm_compute. reflexivity. Qed.
Lemma factL_true : factL = true. Proof. vm_compute. reflexivity. Qed.
Lemma factR_true : factR = true. Proof. vm_compute. reflexivity. Qed.
Lemma factP_true : factP = true. Proof. vm_compute. reflexivity. Qed.

(* Prop forms *)
Lemma bin_facts o :
  leftk_id (bin_id o) = "ldInfix" /\ nname_id (bin_id o) = bin_name o /\
  plain_id (bin_id o) = true /\ 0 < bp_id (bin_id o).
Proof.
  pose proof kind_bin_true as H. rewrite forallb_forall in H.
  specialize (H o (all_binops_complete o)). unfold kind_bin in H.
  apply andb_true_iff in H as [H1 H]. apply andb_true_iff in H as [H2 H].
  apply andb_true_iff in H as [H3 H4].
  apply String.eqb_eq in H1, H2. apply Nat.ltb_lt in H4. auto.
Qed.
Lemma pre_facts o :
  nullk_id (pre_id o) = "ndPrefix" /\ nname_id (pre_id o) = pre_name o /\ plain_id (pre_id o) = true.
Proof.
  pose proof kind_pre_true as H. rewrite forallb_forall in H.
  specialize (H o (all_preops_complete o)). unfold kind_pre in H.
  apply andb_true_iff in H as [H1 H]. apply andb_true_iff in H as [H2 H3].
  apply String.eqb_eq in H1, H2. auto.
Qed.
Lemma atom_facts k :
  nullk_id (atom_id k) = (match k with AIdent => "ndIdentifier" | _ => "ndTerm" end) /\
  nname_id (atom_id k) = atom_name k /\ plain_id (atom_id k) = true.
Proof.
  pose proof kind_atom_true as H. rewrite forallb_forall in H.
  specialize (H k (all_atoms_complete k)). unfold kind_atom in H.
  apply andb_true_iff in H as [H1 H]. apply andb_true_iff in H as [H2 H3].
  apply String.eqb_eq in H1, H2. auto.
Qed.
Lemma paren_facts :
  nullk_id TokenLPAREN = "ndInner" /\ known_id TokenLPAREN = true /\
  plain_id TokenRPAREN = true /\ bp_id TokenRPAREN = 0 /\
  plain_id TokenEOF = true /\ bp_id TokenEOF = 0.
Proof.
  pose proof kind_paren_true as H. unfold kind_paren in H.
  apply andb_true_iff in H as [H1 H]. apply andb_true_iff in H as [H2 H].
  apply andb_true_iff in H as [H3 H]. apply andb_true_iff in H as [H4 H].
  apply andb_true_iff in H as [H5 H6].
  apply String.eqb_eq in H1. apply Nat.eqb_eq in H4, H6. auto 10.
Qed.

Lemma use_fact2 {A} (f : shape -> A -> bool) (la : list A) s a :
  forallb (fun s => forallb (f s) la) all_shapes = true -> In a la -> f s a = true.
Proof.
  intros H Ha. rewrite forallb_forall in H. specialize (H s (all_shapes_complete s)).
  rewrite forallb_forall in H. exact (H a Ha).
Qed.

Lemma le_opt_spec n o : le_opt n o = true <-> (forall m, o = Some m -> n <= m).
Proof.
  destruct o; simpl.
  - rewrite Nat.leb_le. split; [intros H m [= <-]; exact H | intros H; apply H; reflexivity].
  - split; [intros _ m; discriminate | reflexivity].
Qed.
Lemma lt_opt_spec n o : lt_opt n o = true <-> (forall m, o = Some m -> n < m).
Proof.
  destruct o; simpl.
  - rewrite Nat.ltb_lt. split; [intros H m [= <-]; exact H | intros H; apply H; reflexivity].
  - split; [intros _ m; discriminate | reflexivity].
Qed.

Lemma fact_left s o : level o <= slev s ->
  le_opt (bp_id (bin_id o)) (thr s) = true /\ le_opt (bp_id (bin_id o)) (ctxb s) = true.
Proof.
  intros Hl. pose proof (use_fact2 fL _ s o factL_true (all_binops_complete o)) as H. unfold fL in H.
  apply Nat.leb_le in Hl. rewrite Hl in H. simpl in H. apply andb_true_iff in H. exact H.
Qed.
Lemma fact_right s o : level o < slev s ->
  le_opt (bp_id (bin_id o)) (thr s) = true /\ lt_opt (bp_id (bin_id o)) (ctxb s) = true.
Proof.
  intros Hl. pose proof (use_fact2 fR _ s o factR_true (all_binops_complete o)) as H. unfold fR in H.
  apply Nat.ltb_lt in Hl. rewrite Hl in H. simpl in H. apply andb_true_iff in H. exact H.
Qed.
Lemma fact_pre s o : plevel o <= slev s ->
  le_opt (bp_id (pre_id o) + 20) (thr s) = true /\ lt_opt (bp_id (pre_id o) + 20) (ctxb s) = true.
Proof.
  intros Hl. pose proof (use_fact2 fP _ s o factP_true (all_preops_complete o)) as H. unfold fP in H.
  apply Nat.leb_le in Hl. rewrite Hl in H. simpl in H. apply andb_true_iff in H. exact H.
Qed.

(* ------------------------------------------------------------------ 2. the relation *)

(* p.next() succeeds on this rest *)
Definition valid_next (rest : list token) : Prop := advance rest = POk rest.

Inductive Run : nat -> list token -> node -> list token -> Prop :=
| RunTerm rb n rest e ts' :
    nullk n = "ndTerm" -> valid_next rest ->
    Loop rb (mk n []) rest e ts' -> Run rb (n :: rest) e ts'
| RunIdent rb n rest e ts' :
    nullk n = "ndIdentifier" -> valid_next rest -> starts_access n rest = false ->
    Loop rb (mk n []) rest e ts' -> Run rb (n :: rest) e ts'
| RunPrefix rb n rest v ts1 e ts' :
    nullk n = "ndPrefix" -> valid_next rest ->
    Run (bp n + 20) rest v ts1 -> Loop rb (mk n [v]) ts1 e ts' -> Run rb (n :: rest) e ts'
| RunInner rb n rest x rp ts1 e ts' :
    nullk n = "ndInner" -> valid_next rest ->
    Run 0 rest x (rp :: ts1) -> t_id rp = TokenRPAREN -> valid_next ts1 ->
    Loop rb x ts1 e ts' -> Run rb (n :: rest) e ts'
with Loop : nat -> node -> list token -> node -> list token -> Prop :=
| LoopStop rb left n rest :
    bp n <= rb -> Loop rb left (n :: rest) left (n :: rest)
| LoopNewline rb left n rest :
    rb < bp n -> leftk n = "" -> n_line left < t_line n -> Loop rb left (n :: rest) left (n :: rest)
| LoopInfix rb left n rest r ts1 e ts' :
    rb < bp n -> leftk n = "ldInfix" -> valid_next rest ->
    Run (bp n) rest r ts1 -> Loop rb (mk n [left; r]) ts1 e ts' -> Loop rb left (n :: rest) e ts'.

Scheme Run_mind := Induction for Run Sort Prop
with Loop_mind := Induction for Loop Sort Prop.
Combined Scheme RunLoop_ind from Run_mind, Loop_mind.

(* ------------------------------------------------------------------ 3. key lemma *)

(* the context after a writing: a next token exists, p.next() accepts it, it is not an access
   suffix, and it does not bind tighter than [th] *)
Definition stop (th : option nat) (ts : list token) : Prop :=
  exists t rest, ts = t :: rest /\ plain_id (t_id t) = true /\ le_opt (bp t) th = true.

Lemma plain_valid t rest : plain_id (t_id t) = true -> valid_next (t :: rest).
Proof.
  unfold plain_id, valid_next, advance, is_comment, entry, known_id. intros H.
  repeat (apply andb_true_iff in H; destruct H as [H ?]).
  apply negb_true_iff in H0, H1, H2. rewrite H0, H1, H2. simpl.
  destruct (lookup_ge grammar_table (t_id t)); [reflexivity | discriminate].
Qed.
Lemma plain_no_access n t rest : plain_id (t_id t) = true -> starts_access n (t :: rest) = false.
Proof.
  unfold plain_id, starts_access. intros H.
  repeat (apply andb_true_iff in H; destruct H as [H ?]).
  apply negb_true_iff in H3, H4, H5. rewrite H3, H4, H5. reflexivity.
Qed.

Lemma stop_valid th ts : stop th ts -> valid_next ts.
Proof. intros (t & rest & -> & Hp & _). apply plain_valid; exact Hp. Qed.
Lemma stop_no_access th n ts : stop th ts -> starts_access n ts = false.
Proof. intros (t & rest & -> & Hp & _). apply plain_no_access; exact Hp. Qed.
Lemma stop_loop th rb left ts : stop th ts -> (forall m, th = Some m -> m <= rb) -> th <> None ->
  Loop rb left ts left ts.
Proof.
  intros (t & rest & -> & _ & Hle) Hm Hn. destruct th as [m|]; [|congruence].
  apply LoopStop. simpl in Hle. apply Nat.leb_le in Hle. specialize (Hm m eq_refl). lia.
Qed.
Lemma stop_weaken th th' ts : stop th ts ->
  (forall n, le_opt n th = true -> le_opt n th' = true) -> stop th' ts.
Proof. intros (t & rest & -> & Hp & Hle) H. exists t, rest. auto. Qed.

Lemma toks_nonempty p : exists t rest, toks p = t :: rest /\ plain_id (t_id t) = true \/
                                        toks p = t :: rest /\ t_id t = TokenLPAREN.
Proof.
  induction p as [k i|l r q IH|o i q IH|o i a IHa b IHb]; simpl.
  - exists (tok_of (atom_id k) i), []. left. split; [reflexivity|]. apply atom_facts.
  - exists (tok_of TokenLPAREN l), (toks q ++ [tok_of TokenRPAREN r]). right. auto.
  - exists (tok_of (pre_id o) i), (toks q). left. split; [reflexivity|]. apply pre_facts.
  - destruct IHa as (t & rest & [[-> H]|[-> H]]); exists t, (rest ++ tok_of (bin_id o) i :: toks b); simpl; auto.
Qed.
Lemma toks_valid p ts : valid_next (toks p ++ ts).
Proof.
  destruct (toks_nonempty p) as (t & rest & [[-> H]|[-> H]]); simpl.
  - apply plain_valid; exact H.
  - unfold valid_next, advance, is_comment, entry. rewrite H.
    destruct paren_facts as (_ & Hk & _). unfold known_id in Hk. simpl.
    destruct (lookup_ge grammar_table TokenLPAREN); [reflexivity|discriminate].
Qed.

Lemma key : forall p, wfp p = true ->
  forall rb ts e' ts',
    lt_opt rb (ctxb (shape_of p)) = true -> stop (thr (shape_of p)) ts ->
    Loop rb (node_of (erase p)) ts e' ts' -> Run rb (toks p ++ ts) e' ts'.
Proof.
  induction p as [k i|l r q IH|o i q IH|o i a IHa b IHb]; simpl; intros Hwf rb ts e' ts' Hctx Hstop Hloop.
  - (* atom *)
    destruct (atom_facts k) as (Hk & Hn & _).
    assert (Hmk : mk (tok_of (atom_id k) i) [] = leaf_of (atom_name k) i []) by (rewrite mk_tok, Hn; reflexivity).
    destruct k; [apply RunTerm | apply RunTerm | apply RunTerm | apply RunTerm | apply RunTerm | apply RunIdent];
      try (rewrite nullk_tok; exact Hk); try (eapply stop_valid; eassumption);
      try (eapply stop_no_access; eassumption); rewrite Hmk; exact Hloop.
  - (* parentheses *)
    destruct paren_facts as (Hk & _ & Hrp & Hrb & _).
    rewrite <- app_assoc. simpl.
    eapply RunInner with (rp := tok_of TokenRPAREN r).
    + rewrite nullk_tok; exact Hk.
    + apply toks_valid.
    + apply IH; [exact Hwf | | |].
      * apply lt_opt_spec. intros m Hm. destruct (shape_of q) as [| |ob]; try discriminate.
        simpl in Hm. injection Hm as <-. apply bin_facts.
      * exists (tok_of TokenRPAREN r), ts. split; [reflexivity|]. split; [exact Hrp|].
        rewrite bp_tok, Hrb. destruct (thr (shape_of q)); reflexivity.
      * apply LoopStop. rewrite bp_tok, Hrb. lia.
    + reflexivity.
    + eapply stop_valid; eassumption.
    + exact Hloop.
  - (* prefix operator *)
    apply andb_true_iff in Hwf as [Hwf Hlev]. apply Nat.leb_le in Hlev. rewrite <- slev_shape in Hlev.
    destruct (pre_facts o) as (Hk & Hn & _).
    destruct (fact_pre _ _ Hlev) as [Hthr Hcx].
    eapply RunPrefix with (v := node_of (erase q)) (ts1 := ts).
    + rewrite nullk_tok; exact Hk.
    + apply toks_valid.
    + rewrite bp_tok. apply IH; [exact Hwf | exact Hcx | |].
      * eapply stop_weaken; [exact Hstop|]. intros n Hle. simpl in Hle. apply Nat.leb_le in Hle.
        apply le_opt_spec. intros m Hm. rewrite le_opt_spec in Hthr. specialize (Hthr m Hm). lia.
      * eapply stop_loop; [exact Hstop | | discriminate]. intros m [= <-]. lia.
    + rewrite mk_tok, Hn. exact Hloop.
  - (* binary operator *)
    repeat (apply andb_true_iff in Hwf; destruct Hwf as [Hwf ?]).
    rename H into Hlb, H0 into Hla, H1 into Hwb.
    apply Nat.leb_le in Hla. apply Nat.ltb_lt in Hlb. rewrite <- slev_shape in Hla, Hlb.
    destruct (bin_facts o) as (Hk & Hn & Hpl & _).
    destruct (fact_left _ _ Hla) as [HLthr HLcx]. destruct (fact_right _ _ Hlb) as [HRthr HRcx].
    apply Nat.ltb_lt in Hctx.
    rewrite <- app_assoc. simpl.
    apply IHa; [exact Hwf | | |].
    + apply lt_opt_spec. intros m Hm. rewrite le_opt_spec in HLcx. specialize (HLcx m Hm). lia.
    + exists (tok_of (bin_id o) i), (toks b ++ ts). split; [reflexivity|]. split; [exact Hpl|].
      rewrite bp_tok. exact HLthr.
    + eapply LoopInfix with (r := node_of (erase b)) (ts1 := ts).
      * rewrite bp_tok. exact Hctx.
      * rewrite leftk_tok; exact Hk.
      * apply toks_valid.
      * rewrite bp_tok. apply IHb; [exact Hwb | exact HRcx | |].
        -- eapply stop_weaken; [exact Hstop|]. intros n Hle. simpl in Hle. apply Nat.leb_le in Hle.
           apply le_opt_spec. intros m Hm. rewrite le_opt_spec in HRthr. specialize (HRthr m Hm). lia.
        -- eapply stop_loop; [exact Hstop | | discriminate]. intros m [= <-]. lia.
      * rewrite mk_tok, Hn. exact Hloop.
Qed.

(* ------------------------------------------------------------------ 4. adequacy *)

Lemma eqb_neq_false (a b : string) : a <> b -> String.eqb a b = false.
Proof. intros H. destruct (String.eqb_spec a b); congruence. Qed.

Lemma adequacy :
  (forall rb ts e ts', Run rb ts e ts' ->
     exists k, length ts = k + length ts' /\ 1 <= k /\
               forall f, 2 * k <= f -> run f rb ts = POk (e, ts')) /\
  (forall rb left ts e ts', Loop rb left ts e ts' ->
     exists k, length ts = k + length ts' /\
               forall f, 2 * k + 1 <= f -> loop f rb left ts = POk (e, ts')).
Proof.
  apply RunLoop_ind.
  - (* RunTerm *)
    intros rb n rest e ts' Hk Hv _ (k & Hlen & IH).
    exists (S k). simpl. split; [lia|]. split; [lia|]. intros f Hf.
    destruct f as [|f]; [lia|]. simpl. rewrite Hv, Hk. simpl. apply IH. lia.
  - (* RunIdent *)
    intros rb n rest e ts' Hk Hv Ha _ (k & Hlen & IH).
    exists (S k). simpl. split; [lia|]. split; [lia|]. intros f Hf.
    destruct f as [|f]; [lia|]. simpl. rewrite Hv, Hk, Ha. simpl. apply IH. lia.
  - (* RunPrefix *)
    intros rb n rest v ts1 e ts' Hk Hv _ (k1 & Hl1 & Hk1 & IH1) _ (k2 & Hl2 & IH2).
    exists (S (k1 + k2)). simpl. split; [lia|]. split; [lia|]. intros f Hf.
    destruct f as [|f]; [lia|]. simpl. rewrite Hv, Hk. simpl.
    rewrite IH1 by lia. apply IH2. lia.
  - (* RunInner *)
    intros rb n rest x rp ts1 e ts' Hk Hv _ (k1 & Hl1 & Hk1 & IH1) Hrp Hv1 _ (k2 & Hl2 & IH2).
    exists (S (S (k1 + k2))). simpl in *. split; [lia|]. split; [lia|]. intros f Hf.
    destruct f as [|f]; [lia|]. simpl. rewrite Hv, Hk. simpl.
    rewrite IH1 by lia. simpl. rewrite Hrp, Nat.eqb_refl, Hv1. apply IH2. lia.
  - (* LoopStop *)
    intros rb left n rest Hle. exists 0. split; [reflexivity|]. intros f Hf.
    destruct f as [|f]; [lia|]. simpl.
    destruct (Nat.ltb_spec rb (bp n)); [lia | reflexivity].
  - (* LoopNewline *)
    intros rb left n rest Hlt Hk Hline. exists 0. split; [reflexivity|]. intros f Hf.
    destruct f as [|f]; [lia|]. simpl.
    destruct (Nat.ltb_spec rb (bp n)); [|lia]. rewrite Hk. simpl.
    destruct (Nat.ltb_spec (n_line left) (t_line n)); [reflexivity | lia].
  - (* LoopInfix *)
    intros rb left n rest r ts1 e ts' Hlt Hk Hv _ (k1 & Hl1 & Hk1 & IH1) _ (k2 & Hl2 & IH2).
    exists (S (k1 + k2)). simpl. split; [lia|]. intros f Hf.
    destruct f as [|f]; [lia|]. simpl.
    destruct (Nat.ltb_spec rb (bp n)); [|lia]. rewrite Hk. simpl. rewrite Hv.
    rewrite IH1 by lia. apply IH2. lia.
Qed.

(* ------------------------------------------------------------------ main theorem *)

Definition is_eof (t : token) : Prop := t_id t = TokenEOF.

Lemma length_toks_pos p : 1 <= length (toks p).
Proof. destruct (toks_nonempty p) as (t & rest & [[-> _]|[-> _]]); simpl; lia. Qed.

Theorem pratt_inverts_writing :
  forall (p : pexpr) (eof : token), wfp p = true -> is_eof eof ->
    parse_expr (toks p ++ [eof]) = POk (node_of (erase p)).
Proof.
  intros p eof Hwf Heof. unfold parse_expr.
  destruct paren_facts as (_ & _ & _ & _ & Hpe & Hbe).
  assert (Hstop : forall th, stop th [eof]).
  { intros th. exists eof, []. split; [reflexivity|]. unfold is_eof in Heof. rewrite Heof.
    split; [exact Hpe|]. unfold bp, entry. rewrite Heof. fold (bp_id TokenEOF). rewrite Hbe.
    destruct th; reflexivity. }
  assert (HR : Run 0 (toks p ++ [eof]) (node_of (erase p)) [eof]).
  { apply key; [exact Hwf | | apply Hstop |].
    - apply lt_opt_spec. intros m Hm. destruct (shape_of p) as [| |ob]; try discriminate.
      simpl in Hm. injection Hm as <-. apply bin_facts.
    - apply LoopStop. unfold bp, entry. unfold is_eof in Heof. rewrite Heof.
      fold (bp_id TokenEOF). rewrite Hbe. lia. }
  rewrite (toks_valid p [eof]).
  destruct adequacy as [Had _]. destruct (Had _ _ _ _ HR) as (k & Hlen & _ & Hrun).
  rewrite Hrun.
  - unfold is_eof in Heof. rewrite Heof, Nat.eqb_refl. reflexivity.
  - unfold parse_fuel. rewrite Hlen. apply Nat.mul_le_mono_l. apply Nat.le_add_r.
Qed.

(* the minimal writing is a sufficient writing of the same tree *)
Lemma plev_unparse par e : plev (unparse par e) = elev e.
Proof. destruct e; reflexivity. Qed.
Lemma unparse_ok par e : wfp (unparse par e) = true /\ erase (unparse par e) = e.
Proof.
  induction e as [k i|o i a [IHw IHe]|o i a [IHwa IHea] b [IHwb IHeb]]; simpl.
  - auto.
  - split.
    + unfold wrap. destruct (Nat.ltb_spec (elev a) (plevel o)); simpl; rewrite IHw; simpl.
      * destruct o; reflexivity.
      * rewrite plev_unparse. apply Nat.leb_le. lia.
    + unfold wrap. destruct (Nat.ltb (elev a) (plevel o)); simpl; rewrite IHe; reflexivity.
  - split.
    + unfold wrap.
      destruct (Nat.ltb_spec (elev a) (level o)), (Nat.leb_spec (elev b) (level o)); simpl;
        rewrite IHwa, IHwb; simpl; rewrite ?plev_unparse;
        repeat (apply andb_true_iff; split); try reflexivity;
        try (apply Nat.leb_le); try (apply Nat.ltb_lt); try lia;
        try apply Nat.ltb_lt; unfold atom_level in *; try lia; destruct o; simpl in *; lia.
    + unfold wrap. destruct (Nat.ltb (elev a) (level o)), (Nat.leb (elev b) (level o)); simpl;
        rewrite IHea, IHeb; reflexivity.
Qed.

Theorem pratt_inverts_unparse :
  forall (par : tinfo) (e : expr) (eof : token), is_eof eof ->
    parse_expr (toks (unparse par e) ++ [eof]) = POk (node_of e).
Proof.
  intros par e eof Heof. destruct (unparse_ok par e) as [Hw He].
  rewrite (pratt_inverts_writing _ _ Hw Heof), He. reflexivity.
Qed.

(* ------------------------------------------------------------------ corollaries *)

Definition a3 (k : atomk) (i : tinfo) := PAtom k i.

(* a o1 b o2 c with o2 not tighter than o1: ((a o1 b) o2 c) — left associativity for equal
   levels, "tighter binds first" for level o1 > level o2 *)
Lemma chain_left o1 o2 i1 i2 ka kb kc ia ib ic eof :
  level o2 <= level o1 -> is_eof eof ->
  parse_expr ([tok_of (atom_id ka) ia; tok_of (bin_id o1) i1; tok_of (atom_id kb) ib;
               tok_of (bin_id o2) i2; tok_of (atom_id kc) ic; eof])
  = POk (leaf_of (bin_name o2) i2
           [leaf_of (bin_name o1) i1 [leaf_of (atom_name ka) ia []; leaf_of (atom_name kb) ib []];
            leaf_of (atom_name kc) ic []]).
Proof.
  intros Hl Heof.
  apply (pratt_inverts_writing (PBin o2 i2 (PBin o1 i1 (PAtom ka ia) (PAtom kb ib)) (PAtom kc ic)) eof); [|exact Heof].
  simpl. apply Nat.leb_le in Hl. rewrite Hl.
  assert (H1 : Nat.leb (level o1) atom_level = true) by (destruct o1; reflexivity).
  assert (H2 : Nat.ltb (level o1) atom_level = true) by (destruct o1; reflexivity).
  assert (H3 : Nat.ltb (level o2) atom_level = true) by (destruct o2; reflexivity).
  rewrite H1, H2, H3. reflexivity.
Qed.

(* a o1 b o2 c with o2 tighter than o1: (a o1 (b o2 c)) *)
Lemma chain_right o1 o2 i1 i2 ka kb kc ia ib ic eof :
  level o1 < level o2 -> is_eof eof ->
  parse_expr ([tok_of (atom_id ka) ia; tok_of (bin_id o1) i1; tok_of (atom_id kb) ib;
               tok_of (bin_id o2) i2; tok_of (atom_id kc) ic; eof])
  = POk (leaf_of (bin_name o1) i1
           [leaf_of (atom_name ka) ia [];
            leaf_of (bin_name o2) i2 [leaf_of (atom_name kb) ib []; leaf_of (atom_name kc) ic []]]).
Proof.
  intros Hl Heof.
  apply (pratt_inverts_writing (PBin o1 i1 (PAtom ka ia) (PBin o2 i2 (PAtom kb ib) (PAtom kc ic))) eof); [|exact Heof].
  simpl. apply Nat.ltb_lt in Hl. rewrite Hl.
  assert (H1 : Nat.leb (level o1) atom_level = true) by (destruct o1; reflexivity).
  assert (H2 : Nat.leb (level o2) atom_level = true) by (destruct o2; reflexivity).
  assert (H3 : Nat.ltb (level o2) atom_level = true) by (destruct o2; reflexivity).
  rewrite H1, H2, H3. reflexivity.
Qed.

(* prefix minus/plus bind tightest: -a o b = ((-a) o b), a o -b = (a o (-b)) *)
Lemma prefix_tightest (s : preop) o is io ka kb ia ib eof :
  s <> PNot -> is_eof eof ->
  parse_expr ([tok_of (pre_id s) is; tok_of (atom_id ka) ia; tok_of (bin_id o) io;
               tok_of (atom_id kb) ib; eof])
  = POk (leaf_of (bin_name o) io
           [leaf_of (pre_name s) is [leaf_of (atom_name ka) ia []]; leaf_of (atom_name kb) ib []]).
Proof.
  intros Hs Heof.
  apply (pratt_inverts_writing (PBin o io (PPre s is (PAtom ka ia)) (PAtom kb ib)) eof); [|exact Heof].
  destruct s; [| |congruence]; destruct o; reflexivity.
Qed.

(* `not` applies to the following comparison: not a cmp b and c = ((not (a cmp b)) and c) *)
Lemma not_applies_to_comparison cmp inot icmp iand ka kb kc ia ib ic eof :
  level cmp = 4 -> is_eof eof ->
  parse_expr ([tok_of TokenNOT inot; tok_of (atom_id ka) ia; tok_of (bin_id cmp) icmp;
               tok_of (atom_id kb) ib; tok_of TokenAND iand; tok_of (atom_id kc) ic; eof])
  = POk (leaf_of NodeAND iand
           [leaf_of NodeNOT inot
              [leaf_of (bin_name cmp) icmp [leaf_of (atom_name ka) ia []; leaf_of (atom_name kb) ib []]];
            leaf_of (atom_name kc) ic []]).
Proof.
  intros Hl Heof.
  apply (pratt_inverts_writing
           (PBin OAnd iand (PPre PNot inot (PBin cmp icmp (PAtom ka ia) (PAtom kb ib))) (PAtom kc ic)) eof);
    [|exact Heof].
  simpl. rewrite Hl. reflexivity.
Qed.

(* the documented levels are realised by the binding powers of the table *)
Definition levels_ok : bool :=
  forallb (fun o1 => forallb (fun o2 =>
    implb (Nat.ltb (level o1) (level o2)) (Nat.ltb (bp_id (bin_id o1)) (bp_id (bin_id o2))) &&
    implb (Nat.eqb (level o1) (level o2)) (Nat.eqb (bp_id (bin_id o1)) (bp_id (bin_id o2)))) all_binops) all_binops.
Lemma levels_ok_true : levels_ok = true. Proof. vm_compute. reflexivity. Qed.
Lemma levels_realised o1 o2 :
  (level o1 < level o2 -> bp_id (bin_id o1) < bp_id (bin_id o2)) /\
  (level o1 = level o2 -> bp_id (bin_id o1) = bp_id (bin_id o2)).
Proof.
  pose proof levels_ok_true as H. unfold levels_ok in H. rewrite forallb_forall in H.
  specialize (H o1 (all_binops_complete o1)). rewrite forallb_forall in H.
  specialize (H o2 (all_binops_complete o2)). apply andb_true_iff in H as [H1 H2]. split; intros Hl.
  - apply Nat.ltb_lt in Hl. rewrite Hl in H1. apply Nat.ltb_lt. exact H1.
  - apply Nat.eqb_eq in Hl. rewrite Hl in H2. apply Nat.eqb_eq. exact H2.
Qed.
