(* Proofs/CascadeProgress.v — an unsettled cascade always has an enabled step of its own. *)
From Coq Require Import Lia ZifyBool.
From Ecal Require Import Model.Cascade Spec.CascadeSpec Proofs.CascadeProofs Proofs.CascadeInv
  Proofs.CascadeInv2 Proofs.CascadeInv3 Proofs.CascadeMain.

(* the child recorded as busy exists and belongs to the same cascade *)
Definition BusyInv (s : state) : Prop :=
  forall m M cur c, mons s m = Some M -> m_phase M = PRun cur (Some c) ->
    exists C, mons s c = Some C /\ m_root C = m_root M.

Lemma busy_Step s l s' : BusyInv s -> Step s l s' -> BusyInv s'.
Proof.
  intros B HS.
  cases HS; splitcb; intros m1 M1 cur1 c1 Hm1 Hp1; lk; try discriminate; try congruence.
  all: try (destruct (B _ _ _ _ Hm1 Hp1) as (C & Ca & Cb); lk; try congruence; eauto; fail).
  all: try (eexists; split; [reflexivity|]; simpl; congruence).
  all: try (destruct (B _ _ _ _ Hm1 Hp1) as (C & Ca & Cb); dedup; eexists; split; [reflexivity|]; simpl; congruence).
Qed.

Lemma busy_reach s : reach s -> BusyInv s.
Proof.
  apply (inv_reachable _ _ step BusyInv init).
  - intros m M cur c H. discriminate H.
  - intros s0 l s' B H. apply step_Step in H as [_ HS]. eapply busy_Step; eauto.
Qed.

Ltac run_step :=
  unfold step;
  repeat match goal with
         | A : ?x = _ |- context[match ?x with _ => _ end] => rewrite A
         | A : ?x = _ |- context[if ?x then _ else _] => rewrite A
         end; simpl.

Lemma inflight_enabled s : Inv s -> forall c C, mons s c = Some C -> m_inflight C = true ->
  exists l s', step s l = Some s' /\ of_root s l (m_root C).
Proof.
  intros I c C Hc Hin. pose proof (i_panic s I) as P. pose proof (i_mon s I c C Hc) as OK.
  destruct (i_root s I c C Hc) as [R HR]. unfold mon_ok in OK.
  destruct (m_phase C) eqn:Ph;
    try (exfalso; repeat match goal with A : _ /\ _ |- _ => destruct A end; congruence).
  - (* PCreated *)
    destruct (m_parent C) as [p|] eqn:Par.
    + exists (LActivate c). eexists. split; [run_step; reflexivity | exists C; auto].
    + pose proof (i_self s I c C Hc Par) as Self. rewrite Self in HR.
      destruct (i_rootmon s I c R HR) as (M0 & Hm0 & _ & _ & Hsk & Hapc). rewrite Hc in Hm0. injection Hm0 as <-.
      destruct OK as (_ & _ & _ & Sk).
      destruct (r_apc R) eqn:A.
      * destruct (r_wait R) eqn:W.
        -- exists (LObsWaiter c). eexists. split; [run_step; reflexivity | exists C; auto].
        -- exists (LObsHandler c). eexists. split; [unfold step; rewrite P; cbv beta iota; rewrite HR; cbv beta iota; unfold pre_go; rewrite A, W; reflexivity | exists C; auto].
      * exists (LObsHandler c). eexists. split; [unfold step; rewrite P; cbv beta iota; rewrite HR; cbv beta iota; unfold pre_go; rewrite A; reflexivity | exists C; auto].
      * specialize (Hapc Sk). exists (LActivate c). eexists. split; [|exists C; auto].
        unfold step. rewrite P; cbv beta iota; rewrite Hc; cbv beta iota; rewrite Ph; cbv beta iota; rewrite Par; cbv beta iota; rewrite Self; cbv beta iota; rewrite HR; cbv beta iota; rewrite A; cbv beta iota; rewrite Hapc; cbv beta iota. reflexivity.
      * destruct Hapc as (_ & _ & _ & N & _). congruence.
      * destruct Hapc as (_ & N & _). congruence.
  - (* PActivated *)
    exists (LPush c). eexists. split; [unfold step; rewrite P; cbv beta iota; rewrite Hc; cbv beta iota; rewrite Ph; cbv beta iota; reflexivity | exists C; auto].
  - (* PFinZero *)
    exists (LPost c). eexists. split; [unfold step; rewrite P; cbv beta iota; rewrite Hc; cbv beta iota; rewrite Ph; cbv beta iota; rewrite HR; cbv beta iota; reflexivity | exists C; auto].
  - (* PPosting *)
    destruct OK as (_ & Ne & Hh & _). destruct cbs as [|k rest]; [congruence|].
    destruct k, half; try (exfalso; apply Hh; reflexivity).
    + exists (LCbRemove c). eexists. split; [unfold step; rewrite P; cbv beta iota; rewrite Hc; cbv beta iota; rewrite Ph; cbv beta iota; reflexivity | exists C; auto].
    + exists (LWaiterDone c). destruct (Z.leb (r_wg R) 0) eqn:L; eexists;
        (split; [unfold step; rewrite P; cbv beta iota; rewrite Hc; cbv beta iota; rewrite Ph; cbv beta iota; rewrite HR; cbv beta iota; rewrite L; cbv beta iota; reflexivity | exists C; auto]).
    + exists (LCbRemove c). eexists. split; [unfold step; rewrite P; cbv beta iota; rewrite Hc; cbv beta iota; rewrite Ph; cbv beta iota; reflexivity | exists C; auto].
    + exists (LHandler c). eexists. split; [unfold step; rewrite P; cbv beta iota; rewrite Hc; cbv beta iota; rewrite Ph; cbv beta iota; rewrite HR; cbv beta iota; reflexivity | exists C; auto].
    + exists (LTqCheck c). destruct (queues s (m_root C)) as [[|x q]|] eqn:Q; eexists;
        (split; [unfold step; rewrite P; cbv beta iota; rewrite Hc; cbv beta iota; rewrite Ph; cbv beta iota; rewrite Q; cbv beta iota; reflexivity | exists C; auto]).
Qed.


Ltac rw H := rewrite H; cbv beta iota.

Lemma child_wait s : Inv s -> BusyInv s -> forall m M cur busy, mons s m = Some M -> m_phase M = PRun cur busy ->
  child_back s busy = false -> exists l s', step s l = Some s' /\ of_root s l (m_root M).
Proof.
  intros I B m M cur busy Hm Ph Hb. unfold child_back in Hb.
  destruct busy as [c|]; [|discriminate]. destruct (B m M cur c Hm Ph) as (C & Hc & Hroot).
  rewrite Hc in Hb. destruct (m_inflight C) eqn:Inf; [|discriminate].
  rewrite <- Hroot. eapply inflight_enabled; eauto.
Qed.

(* every monitor that is not done has an enabled step (its own or, while it waits for a
   child's AddEvent call, the child's) *)
Lemma mon_enabled s : Inv s -> BusyInv s -> forall m M, mons s m = Some M -> m_phase M <> PDone ->
  exists l s', step s l = Some s' /\ of_root s l (m_root M).
Proof.
  intros I B m M Hm Nd. pose proof (i_panic s I) as P. pose proof (i_mon s I m M Hm) as OK.
  destruct (i_root s I m M Hm) as [R HR]. unfold mon_ok in OK.
  destruct (m_inflight M) eqn:Inf; [eapply inflight_enabled; eauto|].
  destruct (m_phase M) eqn:Ph; try congruence;
    try (exfalso; repeat match goal with A : _ /\ _ |- _ => destruct A end; congruence).
  - (* PQueued *)
    destruct (i_q2 s I m M Hm Ph) as (q & Hq & Hin). apply in_mem_nat in Hin.
    exists (LPop m). eexists. split; [unfold step; rw P; rw Hm; rw Ph; rw Hq; rw Hin; reflexivity | exists M; auto].
  - (* PRun *)
    destruct (child_back s busy) eqn:CB; [|eapply child_wait; eauto].
    destruct cur as [rule|].
    + exists (LActEnd m rule false). eexists. split; [unfold step; rw P; rw Hm; rw Ph; rewrite Nat.eqb_refl, CB; reflexivity | exists M; auto].
    + exists (LProcEnd m). eexists. split; [unfold step; rw P; rw Hm; rw Ph; rw CB; reflexivity | exists M; auto].
  - (* PProcDone *)
    destruct (failed_of M) as [|x fl] eqn:F.
    + exists (LFinish m). unfold step, dec. rw P. rw Hm. rw Ph. rw F. rw HR.
      destruct (Z.eqb (r_unf R - 1) 0); eexists; (split; [reflexivity | exists M; auto]).
    + exists (LErrAttach m). eexists. split; [unfold step; rw P; rw Hm; rw Ph; rw F; rw HR; reflexivity | exists M; auto].
  - (* PErrSet *)
    exists (LFinish m). unfold step, dec. rw P. rw Hm. rw Ph. rw HR.
    destruct (Z.eqb (r_unf R - 1) 0); eexists; (split; [reflexivity | exists M; auto]).
  - (* PFinZero *)
    exists (LPost m). eexists. split; [unfold step; rw P; rw Hm; rw Ph; rw HR; reflexivity | exists M; auto].
  - (* PPosting *)
    destruct OK as (_ & Ne & Hh & _). destruct cbs as [|k rest]; [congruence|].
    destruct k, half; try (exfalso; apply Hh; reflexivity).
    + exists (LCbRemove m). eexists. split; [unfold step; rw P; rw Hm; rw Ph; reflexivity | exists M; auto].
    + exists (LWaiterDone m). destruct (Z.leb (r_wg R) 0) eqn:L; eexists;
        (split; [unfold step; rw P; rw Hm; rw Ph; rw HR; rw L; reflexivity | exists M; auto]).
    + exists (LCbRemove m). eexists. split; [unfold step; rw P; rw Hm; rw Ph; reflexivity | exists M; auto].
    + exists (LHandler m). eexists. split; [unfold step; rw P; rw Hm; rw Ph; rw HR; reflexivity | exists M; auto].
    + exists (LTqCheck m). destruct (queues s (m_root M)) as [[|x q]|] eqn:Q; eexists;
        (split; [unfold step; rw P; rw Hm; rw Ph; rw Q; reflexivity | exists M; auto]).
Qed.

Lemma forallb_false {A} (f : A -> bool) l : forallb f l = false -> exists x, In x l /\ f x = false.
Proof.
  induction l as [|a l IH]; simpl; [discriminate|]. destruct (f a) eqn:E; simpl.
  - intros H. destruct (IH H) as (x & Hx & Fx). exists x. auto.
  - intros _. exists a. auto.
Qed.

Lemma thm_progress s : reach s -> spec_progress s.
Proof.
  intros Hr r R HR Hs. pose proof (reach_inv s Hr) as I. pose proof (busy_reach s Hr) as B.
  pose proof (i_panic s I) as P.
  destruct (forallb (doneb s) (mons_of s r)) eqn:F.
  - (* all monitors of r are done: the adding goroutine has a step *)
    assert (Hd : forall m M, mons s m = Some M -> m_root M = r -> m_phase M = PDone).
    { intros m M Hm Hroot. rewrite forallb_forall in F.
      assert (Hin : In m (mons_of s r)).
      { unfold mons_of. apply filter_In. split; [eapply in_ids; eauto|]. rewrite Hm. apply Nat.eqb_eq. exact Hroot. }
      specialize (F m Hin). unfold doneb in F. rewrite Hm in F. destruct (m_phase M); try discriminate. reflexivity. }
    destruct (i_rootmon s I r R HR) as (M0 & Hm0 & Hroot0 & Hpar0 & Hsk & Hapc).
    pose proof (Hd r M0 Hm0 Hroot0) as Ph0.
    pose proof (i_mon s I r M0 Hm0) as OK. unfold mon_ok in OK. rewrite Ph0 in OK. destruct OK as [_ Inf].
    unfold settledb in Hs. rewrite HR, F in Hs.
    destruct (r_apc R) eqn:A; try discriminate; try (destruct Hapc; congruence).
    + (* AGo *)
      exists (LAdderNext r). unfold step. rw P. rw HR. rw Hm0. rw A. rw Inf.
      destruct (m_skipped M0); eexists; (split; [reflexivity | exists M0; auto]).
    + (* AWaiting *)
      destruct Hapc as (Hw & Ht & _ & _ & Sk).
      assert (Z3 : wsum (w_pend CbWaiter r) s = 0).
      { apply wsum_none. intros m M Hm. unfold w_pend. destruct (Nat.eqb_spec (m_root M) r); [|reflexivity].
        rewrite (Hd m M Hm e). reflexivity. }
      assert (Z1 : count_unf s r = 0).
      { apply wsum_none. intros m M Hm. unfold w_unf. destruct (Nat.eqb_spec (m_root M) r); [|reflexivity].
        rewrite (Hd m M Hm e). reflexivity. }
      assert (Z2 : wsum (w_fz r) s = 0).
      { apply wsum_none. intros m M Hm. unfold w_fz. destruct (Nat.eqb_spec (m_root M) r); [|reflexivity].
        rewrite (Hd m M Hm e). reflexivity. }
      pose proof (i_count s I r R HR) as C. pose proof (i_cross s I r R HR) as X. pose proof (i_post s I r R HR) as Po.
      rewrite Z1 in C. rewrite C in X. simpl in X. rewrite Z2 in Po.
      assert (P1 : r_posted R = 1) by lia.
      destruct (i_waiter s I r R M0 HR Hm0) as [_ EQ]. specialize (EQ Sk).
      rewrite Z3, P1 in EQ. simpl in EQ. unfold regW in EQ. rewrite A, Hw in EQ.
      pose proof (i_wg s I r R HR) as G. rewrite Hw in G.
      assert (Rel : r_released R = true) by (destruct (r_released R); [reflexivity | simpl in EQ; lia]).
      rewrite Rel in G. simpl in G.
      exists (LWaitReturn r). eexists. split; [unfold step; rw P; rw HR; rw A; rewrite G; reflexivity | exists M0; auto].
  - (* some monitor of r is not done *)
    destruct (forallb_false _ _ F) as (m & Hin & Fm).
    unfold mons_of in Hin. apply filter_In in Hin. destruct Hin as [_ Hm].
    destruct (mons s m) as [M|] eqn:HM; [|discriminate]. apply Nat.eqb_eq in Hm.
    rewrite <- Hm. eapply mon_enabled; eauto.
    unfold doneb in Fm. rewrite HM in Fm. intros E. rewrite E in Fm. discriminate.
Qed.

(* ---------------------------------------------------------------- a quiet cascade stays quiet *)
Lemma quiet_Step s l s' r R : Inv s -> roots s r = Some R -> quiet s r -> Step s l s' ->
  quiet s' r /\ (forall m M M', mons s m = Some M -> m_root M = r -> mons s' m = Some M' -> m_stamps M' = m_stamps M).
Proof.
  intros I HR Q HS. split.
  - cases HS; splitcb; intros m1 M1 Hm1 Hroot1; lk; eauto; try congruence;
      try (match goal with A : mons s ?m = Some ?M, B : m_phase ?M = _ |- _ =>
             let U := fresh in pose proof (Q m M A) as U; rewrite B in U; simpl in U;
             first [ specialize (U eq_refl) | specialize (U ltac:(congruence)) ]; discriminate end).
  - cases HS; splitcb; intros m1 M1 M1' Hm1 Hroot1 Hm1'; lk; try congruence;
      try (match goal with A : mons s ?m = Some ?M, B : m_phase ?M = _ |- _ =>
             let U := fresh in pose proof (Q m M A) as U; rewrite B in U; simpl in U;
             first [ specialize (U eq_refl) | specialize (U ltac:(congruence)) ]; discriminate end).
Qed.

Lemma thm_quiet_final s r R l s' : reach s -> roots s r = Some R -> quiet s r -> step s l = Some s' ->
  quiet s' r /\ (forall m M M', mons s m = Some M -> m_root M = r -> mons s' m = Some M' -> m_stamps M' = m_stamps M).
Proof.
  intros Hr HR Q H. apply step_Step in H as [_ HS]. eapply quiet_Step; eauto using reach_inv.
Qed.
