(* Proofs/MutexProofs.v — lemmas for C12 (Model/Mutex.v against Spec/MutexSpec.v). *)
From Coq Require Import Lia.
From Ecal Require Import Common.Sched Model.Mutex Spec.MutexSpec.

(* ------------------------------------------------------------------ lists *)

Lemma nth_set_nth {A} (l : list A) i j x y :
  nth_error l i = Some y ->
  nth_error (set_nth i x l) j = if Nat.eqb j i then Some x else nth_error l j.
Proof.
  revert i j; induction l as [|a l IH]; intros [|i] [|j]; simpl; try discriminate; auto.
Qed.

Lemma map_set_nth {A B} (f : A -> B) (l : list A) i x y :
  nth_error l i = Some y -> f x = f y -> map f (set_nth i x l) = map f l.
Proof.
  revert i; induction l as [|a l IH]; intros [|i]; simpl; try discriminate.
  - intros [= ->] ->; reflexivity.
  - intros H1 H2. f_equal. apply IH; assumption.
Qed.

Lemma length_set_nth {A} (l : list A) i x : length (set_nth i x l) = length l.
Proof. revert i; induction l as [|a l IH]; intros [|i]; simpl; auto. Qed.

Lemma nodup_map_nth {A B} (f : A -> B) (l : list A) i j a b :
  NoDup (map f l) -> nth_error l i = Some a -> nth_error l j = Some b -> f a = f b -> i = j.
Proof.
  intros Hn Hi Hj Hf.
  rewrite NoDup_nth_error in Hn. apply Hn.
  - rewrite map_length. apply nth_error_Some. congruence.
  - rewrite !nth_error_map, Hi, Hj. simpl. congruence.
Qed.

Lemma forall_map_nth {A B} (f : A -> B) (P : B -> Prop) (l : list A) i a :
  Forall P (map f l) -> nth_error l i = Some a -> P (f a).
Proof.
  intros HF Hi. rewrite Forall_forall in HF. apply HF.
  apply in_map. eapply nth_error_In; eauto.
Qed.

Lemma upd_same {A} (f : N -> A) n v : upd f n v n = v.
Proof. unfold upd. rewrite N.eqb_refl. reflexivity. Qed.

Lemma upd_other {A} (f : N -> A) n m v : m <> n -> upd f n v m = f m.
Proof. unfold upd. intros H. destruct (N.eqb_spec m n); congruence. Qed.

(* ------------------------------------------------------------------ the invariant *)

Definition holds (t : thread) (n : N) : Prop :=
  In (n, true) (stack t) \/ pc t = PLocked n \/ pc t = PUnlock n.

Fixpoint wf_stack (st : list (N * bool)) : Prop :=
  match st with
  | [] => True
  | (n, b) :: r => (if b then ~ In n (names r) else In n (names r)) /\ wf_stack r
  end.

Lemma wf_locked st n : wf_stack st -> In n (names st) -> In (n, true) st.
Proof.
  induction st as [|[m b] r IH]; simpl; [tauto|].
  intros [Hb Hw] [->|Hin].
  - destruct b; [left; reflexivity | right; apply IH; assumption].
  - right; apply IH; assumption.
Qed.

Lemma in_names st n b : In (n, b) st -> In n (names st).
Proof. intros H. apply (in_map fst) in H. exact H. Qed.

Record tinv (s : shared) (t : thread) : Prop := mkTinv {
  ti_wf : wf_stack (stack t);
  ti_own : forall n, In n (names (stack t)) -> own s n = Some (tid t);
  ti_rev : forall n, own s n = Some (tid t) -> In n (names (stack t));
  ti_holds : forall n, holds t n -> mtx s n = Some (Some (tid t));
  ti_want : forall n, pc t = PWant n \/ pc t = PLocked n ->
            ~ In n (names (stack t)) /\ mtx s n <> None /\ hd_error (ops t) = Some (OEnter n);
  ti_unl : forall n, pc t = PUnlock n -> ~ In n (names (stack t)) /\ own s n = Some 0%N;
  ti_wr : forall v, pc t = PWrite v -> hd_error (ops t) = Some OInc
}.

Record Inv (s : state) : Prop := mkInv {
  inv_fatal : fatal (sh s) = false;
  inv_nodup : NoDup (map tid (thr s));
  inv_nz : Forall (fun x => x <> 0%N) (map tid (thr s));
  inv_thr : forall i t, nth_error (thr s) i = Some t -> tinv (sh s) t;
  inv_holder : forall n h, mtx (sh s) n = Some (Some h) ->
               exists j t, nth_error (thr s) j = Some t /\ tid t = h /\ holds t n
}.

(* a thread that is not the one stepping keeps its invariant when the tables change in
   ways that do not concern it *)
Lemma tinv_frame s s1 t' :
  tinv s t' ->
  (forall n, own s n = Some (tid t') -> own s1 n = Some (tid t')) ->
  (forall n, own s1 n = Some (tid t') -> own s n = Some (tid t')) ->
  (forall n, mtx s n = Some (Some (tid t')) -> mtx s1 n = Some (Some (tid t'))) ->
  (forall n, mtx s n <> None -> mtx s1 n <> None) ->
  (forall n, pc t' = PUnlock n -> own s n = Some 0%N -> own s1 n = Some 0%N) ->
  tinv s1 t'.
Proof.
  intros [Hwf Hown Hrev Hh Hw Hu Hwr] F1 F2 F3 F4 F5. constructor; auto.
  - intros n Hp. destruct (Hw n Hp) as (A & B & C). auto.
  - intros n Hp. destruct (Hu n Hp) as (A & B). auto.
Qed.

Lemma inv_step_general s i t s1 t1 :
  Inv s -> nth_error (thr s) i = Some t -> tid t1 = tid t ->
  fatal s1 = false ->
  tinv s1 t1 ->
  (forall t', tid t' <> tid t -> tid t' <> 0%N -> tinv (sh s) t' -> tinv s1 t') ->
  (forall n, holds t n -> mtx s1 n = Some (Some (tid t)) -> holds t1 n) ->
  (forall n h, mtx s1 n = Some (Some h) ->
     mtx (sh s) n = Some (Some h) \/ (h = tid t /\ holds t1 n)) ->
  Inv (mkState s1 (set_nth i t1 (thr s))).
Proof.
  intros [Hf Hnd Hnz Hthr Hhold] Hi Htid Hf1 Ht1 Hoth Hkeep Hnew.
  assert (Hmap : map tid (set_nth i t1 (thr s)) = map tid (thr s))
    by (eapply map_set_nth; eauto).
  constructor; simpl; try rewrite Hmap; auto.
  - intros j t' Hj. rewrite (nth_set_nth _ _ _ _ _ Hi) in Hj.
    destruct (Nat.eqb_spec j i) as [->|Hne].
    + injection Hj as <-. exact Ht1.
    + apply Hoth.
      * intros E. apply Hne. eapply nodup_map_nth; eauto.
      * eapply (forall_map_nth tid); eauto.
      * eapply Hthr; eauto.
  - intros n h Hm. destruct (Hnew n h Hm) as [Hold | [-> Hh]].
    + destruct (Hhold n h Hold) as (j & t' & Hj & Ht' & Hh).
      destruct (Nat.eq_dec j i) as [->|Hne].
      * rewrite Hi in Hj. injection Hj as <-. exists i, t1. split; [|split].
        -- rewrite (nth_set_nth _ _ _ _ _ Hi), Nat.eqb_refl. reflexivity.
        -- congruence.
        -- apply Hkeep; [exact Hh | congruence].
      * exists j, t'. split; [|split]; auto.
        rewrite (nth_set_nth _ _ _ _ _ Hi).
        destruct (Nat.eqb_spec j i); [contradiction | exact Hj].
    + exists i, t1. split; [|split]; auto.
      rewrite (nth_set_nth _ _ _ _ _ Hi), Nat.eqb_refl. reflexivity.
Qed.

(* ------------------------------------------------------------------ lookup-or-create *)

Lemma loc_keep m n k x : m k = Some x -> lookup_or_create m n k = Some x.
Proof.
  unfold lookup_or_create. destruct (m n) eqn:E; auto.
  intros H. unfold upd. destruct (N.eqb_spec k n); [subst; congruence | exact H].
Qed.

Lemma loc_locked m n k h : lookup_or_create m n k = Some (Some h) -> m k = Some (Some h).
Proof.
  unfold lookup_or_create. destruct (m n) eqn:E; auto.
  unfold upd. destruct (N.eqb_spec k n); [discriminate | auto].
Qed.

Lemma loc_exists m n : lookup_or_create m n n <> None.
Proof.
  unfold lookup_or_create. destruct (m n) eqn:E; [congruence|].
  rewrite upd_same. discriminate.
Qed.

Lemma loc_mono m n k : m k <> None -> lookup_or_create m n k <> None.
Proof.
  destruct (m k) eqn:E; [|congruence]. intros _. rewrite (loc_keep _ _ _ _ E). discriminate.
Qed.

Lemma loc_free m n k : m k = Some None -> lookup_or_create m n k = Some None.
Proof. apply loc_keep. Qed.

(* ------------------------------------------------------------------ preservation *)

Ltac upd_case m n := unfold upd in *; destruct (N.eqb_spec m n); subst.
Ltac tinv_start := constructor; unfold holds; simpl.
Ltac nopc := let Hp := fresh in (intros ? [Hp|Hp]; discriminate) || (intros ? Hp; discriminate).

Lemma inv_tstep s i t s1 t1 e :
  Inv s -> nth_error (thr s) i = Some t -> tstep (sh s) t = Some (s1, t1, e) ->
  Inv (mkState s1 (set_nth i t1 (thr s))).
Proof.
  intros HI Hi Hs.
  pose proof (inv_thr _ HI _ _ Hi) as Ht.
  pose proof (forall_map_nth tid _ _ _ _ (inv_nz _ HI) Hi) as Hnz. simpl in Hnz.
  pose proof (inv_fatal _ HI) as Hfat.
  destruct Ht as [Hwf Hown Hrev Hh Hw Hu Hwr]. unfold holds in Hh.
  unfold tstep in Hs.
  destruct (pc t) eqn:Hpc.
  - (* PIdle *)
    destruct (ops t) as [|[n|k|] rest] eqn:Hops; [discriminate | | |].
    + (* OEnter n : LOOKUP *)
      assert (Hcases :
        (own (sh s) n = Some (tid t) /\
         Some (s1, t1, e) = Some (mkShared (lookup_or_create (mtx (sh s)) n) (own (sh s)) (ctr (sh s)) (fatal (sh s)),
                   mkThread (tid t) PIdle ((n, false) :: stack t) rest, Some (EvEnter (tid t) n))) \/
        (own (sh s) n <> Some (tid t) /\
         Some (s1, t1, e) = Some (mkShared (lookup_or_create (mtx (sh s)) n) (own (sh s)) (ctr (sh s)) (fatal (sh s)),
                   mkThread (tid t) (PWant n) (stack t) (ops t), None))).
      { destruct (own (sh s) n) as [o|] eqn:Ho.
        - destruct (N.eqb_spec o (tid t)) as [->|Hne].
          + left; split; [reflexivity | symmetry; exact Hs].
          + right; split; [congruence | rewrite Hops; symmetry; exact Hs].
        - right; split; [discriminate | rewrite Hops; symmetry; exact Hs]. }
      clear Hs. destruct Hcases as [[Ho Hs] | [Ho Hs]]; injection Hs as -> -> ->.
      * (* re-entry *)
        pose proof (Hrev n Ho) as Hin.
        apply (inv_step_general s i t); [exact HI | exact Hi | reflexivity | exact Hfat | simpl | simpl | simpl | simpl].
        -- tinv_start.
           ++ split; assumption.
           ++ intros m [<-|Hi']; [exact Ho | apply Hown; auto].
           ++ intros m Hm. right. apply Hrev; auto.
           ++ intros m [[Heq|Hin']|[Hp|Hp]]; try discriminate.
              apply loc_keep, Hh. left; auto.
           ++ nopc.
           ++ nopc.
           ++ nopc.
        -- intros t' Hne Hnz' Ht'. apply (tinv_frame _ _ _ Ht'); simpl; auto.
           ++ intros m. apply loc_keep.
           ++ intros m. apply loc_mono.
        -- unfold holds; simpl. intros m [Hin'|[Hp|Hp]] _; [left; right; auto | congruence | congruence].
        -- intros m h Hm. left. apply loc_locked in Hm. exact Hm.
      * (* owner differs: will lock *)
        apply (inv_step_general s i t); [exact HI | exact Hi | reflexivity | exact Hfat | simpl | simpl | simpl | simpl].
        -- tinv_start.
           ++ exact Hwf.
           ++ exact Hown.
           ++ exact Hrev.
           ++ intros m [Hin'|[Hp|Hp]]; try discriminate.
              apply loc_keep, Hh. left; auto.
           ++ intros m [Hp|Hp]; try discriminate. injection Hp as <-.
              split; [|split].
              ** intros Hin. apply Ho. apply Hown. exact Hin.
              ** apply loc_exists.
              ** rewrite Hops. reflexivity.
           ++ nopc.
           ++ nopc.
        -- intros t' Hne Hnz' Ht'. apply (tinv_frame _ _ _ Ht'); simpl; auto.
           ++ intros m. apply loc_keep.
           ++ intros m. apply loc_mono.
        -- unfold holds; simpl. intros m [Hin'|[Hp|Hp]] _; [left; auto | congruence | congruence].
        -- intros m h Hm. left. apply loc_locked in Hm. exact Hm.
    + (* OLeave k *)
      destruct (stack t) as [|[n [|]] st] eqn:Hst; injection Hs as <- <- <-.
      * (* no enclosing block *)
        apply (inv_step_general s i t); [exact HI | exact Hi | reflexivity | exact Hfat | simpl | simpl | simpl | simpl].
        -- tinv_start.
           ++ exact I.
           ++ intros m [].
           ++ exact Hrev.
           ++ intros m [[]|[Hp|Hp]]; discriminate.
           ++ nopc.
           ++ nopc.
           ++ nopc.
        -- intros t' Hne Hnz' Ht'. destruct (sh s); exact Ht'.
        -- unfold holds; simpl; rewrite Hst; simpl. intros m [Hin'|[Hp|Hp]] _; [destruct Hin' | congruence | congruence].
        -- intros m h Hm. left; exact Hm.
      * (* CLEAROWNER *)
        simpl in Hwf. destruct Hwf as [Hnin Hwf].
        assert (Hmt : mtx (sh s) n = Some (Some (tid t))) by (apply Hh; left; left; reflexivity).
        assert (Hon : own (sh s) n = Some (tid t)) by (apply Hown; left; reflexivity).
        apply (inv_step_general s i t); [exact HI | exact Hi | reflexivity | exact Hfat | simpl | simpl | simpl | simpl].
        -- tinv_start.
           ++ exact Hwf.
           ++ intros m Hin. upd_case m n; [contradiction | apply Hown; right; exact Hin].
           ++ intros m Hm. upd_case m n; [congruence|].
              apply Hrev in Hm. destruct Hm as [E|Hin]; [simpl in E; congruence | exact Hin].
           ++ intros m [Hin|[Hp|Hp]]; try discriminate.
              ** apply Hh. left; right; exact Hin.
              ** injection Hp as <-. exact Hmt.
           ++ nopc.
           ++ intros m Hp. injection Hp as <-. split; [exact Hnin | apply upd_same].
           ++ nopc.
        -- intros t' Hne Hnz' Ht'. apply (tinv_frame _ _ _ Ht'); simpl; auto.
           ++ intros m Hm. upd_case m n; [congruence | exact Hm].
           ++ intros m Hm. upd_case m n; [congruence | exact Hm].
           ++ intros m Hp Ho. upd_case m n; auto.
        -- unfold holds; simpl; rewrite Hst; simpl. intros m [[Heq|Hin]|[Hp|Hp]] _; try congruence.
           ++ injection Heq as <-. right; right; reflexivity.
           ++ left; exact Hin.
        -- intros m h Hm. left; exact Hm.
      * (* leaving a re-entered block *)
        simpl in Hwf. destruct Hwf as [Hnin Hwf].
        apply (inv_step_general s i t); [exact HI | exact Hi | reflexivity | exact Hfat | simpl | simpl | simpl | simpl].
        -- tinv_start.
           ++ exact Hwf.
           ++ intros m Hin. apply Hown. right; exact Hin.
           ++ intros m Hm. apply Hrev in Hm. destruct Hm as [E|Hin]; [simpl in E; subst; exact Hnin | exact Hin].
           ++ intros m [Hin|[Hp|Hp]]; try discriminate. apply Hh. left; right; exact Hin.
           ++ nopc.
           ++ nopc.
           ++ nopc.
        -- intros t' Hne Hnz' Ht'. destruct (sh s); exact Ht'.
        -- unfold holds; simpl; rewrite Hst; simpl. intros m [[Heq|Hin]|[Hp|Hp]] _; try congruence. left; exact Hin.
        -- intros m h Hm. left; exact Hm.
    + (* OInc : read *)
      injection Hs as <- <- <-.
      apply (inv_step_general s i t); [exact HI | exact Hi | reflexivity | exact Hfat | simpl | simpl | simpl | simpl].
      * tinv_start.
        -- exact Hwf.
        -- exact Hown.
        -- exact Hrev.
        -- intros m [Hin|[Hp|Hp]]; try discriminate. apply Hh. left; exact Hin.
        -- nopc.
        -- nopc.
        -- intros v _. reflexivity.
      * intros t' Hne Hnz' Ht'. destruct (sh s); exact Ht'.
      * unfold holds; simpl. intros m [Hin|[Hp|Hp]] _; [left; exact Hin | congruence | congruence].
      * intros m h Hm. left; exact Hm.
  - (* PWant n : LOCK *)
    destruct (Hw n (or_introl eq_refl)) as (Hnin & Hex & Hhd).
    destruct (mtx (sh s) n) as [[h|]|] eqn:Hm; try discriminate.
    injection Hs as <- <- <-.
    apply (inv_step_general s i t); [exact HI | exact Hi | reflexivity | exact Hfat | simpl | simpl | simpl | simpl].
    + tinv_start.
      * exact Hwf.
      * exact Hown.
      * exact Hrev.
      * intros m [Hin|[Hp|Hp]]; try discriminate.
        -- upd_case m n; [exfalso; apply Hnin; eapply in_names; eauto | apply Hh; left; exact Hin].
        -- injection Hp as <-. apply upd_same.
      * intros m [Hp|Hp]; try discriminate. injection Hp as <-.
        split; [|split]; auto. rewrite upd_same. discriminate.
      * nopc.
      * nopc.
    + intros t' Hne Hnz' Ht'. apply (tinv_frame _ _ _ Ht'); simpl; auto.
      * intros m Hm'. upd_case m n; [congruence | exact Hm'].
      * intros m Hm'. upd_case m n; [discriminate | exact Hm'].
    + unfold holds; simpl. intros m [Hin|[Hp|Hp]] _; [left; exact Hin | congruence | congruence].
    + intros m h' Hm'. upd_case m n.
      * injection Hm' as <-. right; split; auto. right; left; reflexivity.
      * left; exact Hm'.
  - (* PLocked n : SETOWNER *)
    destruct (Hw n (or_intror eq_refl)) as (Hnin & Hex & Hhd).
    assert (Hmt : mtx (sh s) n = Some (Some (tid t))) by (apply Hh; right; left; reflexivity).
    injection Hs as <- <- <-.
    apply (inv_step_general s i t); [exact HI | exact Hi | reflexivity | exact Hfat | simpl | simpl | simpl | simpl].
    + tinv_start.
      * split; assumption.
      * intros m [<-|Hin]; [apply upd_same|]. upd_case m n; [reflexivity | apply Hown; exact Hin].
      * intros m Hm. upd_case m n; [left; reflexivity | right; apply Hrev; exact Hm].
      * intros m [[Heq|Hin]|[Hp|Hp]]; try discriminate.
        -- injection Heq as <-. exact Hmt.
        -- apply Hh. left; exact Hin.
      * nopc.
      * nopc.
      * nopc.
    + intros t' Hne Hnz' Ht'. apply (tinv_frame _ _ _ Ht'); simpl; auto.
      * intros m Hm. upd_case m n; [|exact Hm]. exfalso. apply Hne.
        assert (Hx : mtx (sh s) n = Some (Some (tid t'))).
        { apply (ti_holds _ _ Ht'). left. apply wf_locked; [apply (ti_wf _ _ Ht') | apply (ti_rev _ _ Ht'); exact Hm]. }
        congruence.
      * intros m Hm. upd_case m n; [congruence | exact Hm].
      * intros m Hp Ho. upd_case m n; [|exact Ho]. exfalso. apply Hne.
        assert (Hx : mtx (sh s) n = Some (Some (tid t'))).
        { apply (ti_holds _ _ Ht'). right; right; exact Hp. }
        congruence.
    + unfold holds; simpl. intros m [Hin|[Hp|Hp]] _; try congruence.
      * left; right; exact Hin.
      * rewrite Hpc in Hp. injection Hp as <-. left; left; reflexivity.
    + intros m h Hm. left; exact Hm.
  - (* PUnlock n : UNLOCK *)
    destruct (Hu n eq_refl) as (Hnin & Ho).
    assert (Hmt : mtx (sh s) n = Some (Some (tid t))) by (apply Hh; right; right; reflexivity).
    rewrite Hmt in Hs. injection Hs as <- <- <-.
    apply (inv_step_general s i t); [exact HI | exact Hi | reflexivity | exact Hfat | simpl | simpl | simpl | simpl].
    + tinv_start.
      * exact Hwf.
      * exact Hown.
      * exact Hrev.
      * intros m [Hin|[Hp|Hp]]; try discriminate.
        upd_case m n; [exfalso; apply Hnin; eapply in_names; eauto | apply Hh; left; exact Hin].
      * nopc.
      * nopc.
      * nopc.
    + intros t' Hne Hnz' Ht'. apply (tinv_frame _ _ _ Ht'); simpl; auto.
      * intros m Hm'. upd_case m n; [congruence | exact Hm'].
      * intros m Hm'. upd_case m n; [discriminate | exact Hm'].
    + unfold holds; simpl. intros m Hhm Hm1. upd_case m n; [discriminate|].
      destruct Hhm as [Hin|[Hp|Hp]]; [left; exact Hin | congruence | congruence].
    + intros m h Hm'. upd_case m n; [discriminate | left; exact Hm'].
  - (* PWrite v *)
    injection Hs as <- <- <-.
    apply (inv_step_general s i t); [exact HI | exact Hi | reflexivity | exact Hfat | simpl | simpl | simpl | simpl].
    + tinv_start.
      * exact Hwf.
      * exact Hown.
      * exact Hrev.
      * intros m [Hin|[Hp|Hp]]; try discriminate. apply Hh. left; exact Hin.
      * nopc.
      * nopc.
      * nopc.
    + intros t' Hne Hnz' Ht'. apply (tinv_frame _ _ _ Ht'); simpl; auto.
    + unfold holds; simpl. intros m [Hin|[Hp|Hp]] _; [left; exact Hin | congruence | congruence].
    + intros m h Hm. left; exact Hm.
Qed.

(* ------------------------------------------------------------------ reachable states *)

(* thread ids: pairwise distinct and non-zero (NewThreadID counts from 1; 0 is what the
   owner table holds for "free") *)
Definition good_ids (specs : list (N * list op)) : Prop :=
  NoDup (map fst specs) /\ Forall (fun x => x <> 0%N) (map fst specs).

Lemma init_tids specs : map tid (thr (init specs)) = map fst specs.
Proof. unfold init; simpl. rewrite map_map. apply map_ext. reflexivity. Qed.

Lemma inv_init specs : good_ids specs -> Inv (init specs).
Proof.
  intros [Hnd Hnz]. constructor.
  - reflexivity.
  - rewrite init_tids. exact Hnd.
  - rewrite init_tids. exact Hnz.
  - intros i t Hi. unfold init in Hi; simpl in Hi. rewrite nth_error_map in Hi.
    destruct (nth_error specs i) as [p|]; [|discriminate]. injection Hi as <-.
    constructor; unfold holds; simpl.
    + exact I.
    + intros n [].
    + intros n Hn; discriminate.
    + intros n [[]|[H|H]]; discriminate.
    + intros n [H|H]; discriminate.
    + intros n H; discriminate.
    + intros v H; discriminate.
  - intros n h H. discriminate.
Qed.

Lemma step_inv s i s' :
  step s i = Some s' ->
  exists t s1 t1 e, fatal (sh s) = false /\ nth_error (thr s) i = Some t /\
                    tstep (sh s) t = Some (s1, t1, e) /\
                    s' = mkState s1 (set_nth i t1 (thr s)).
Proof.
  unfold step, step_ev. destruct (fatal (sh s)); [discriminate|].
  destruct (nth_error (thr s) i) as [t|]; [|discriminate].
  destruct (tstep (sh s) t) as [[[s1 t1] e]|] eqn:E; [|discriminate].
  simpl. intros [= <-]. exists t, s1, t1, e. auto.
Qed.

Lemma step_ev_step s i s' e : step_ev s i = Some (s', e) -> step s i = Some s'.
Proof. unfold step. intros ->. reflexivity. Qed.

Lemma inv_step s i s' : Inv s -> step s i = Some s' -> Inv s'.
Proof.
  intros HI Hs. destruct (step_inv _ _ _ Hs) as (t & s1 & t1 & e & _ & Hi & Ht & ->).
  eapply inv_tstep; eauto.
Qed.

Lemma inv_reach specs s : good_ids specs -> reachable step (init specs) s -> Inv s.
Proof.
  intros Hg Hr. eapply (inv_reachable _ _ step Inv); eauto.
  - apply inv_init; assumption.
  - intros; eapply inv_step; eauto.
Qed.

(* ------------------------------------------------------------------ mutual exclusion *)

Lemma excl_inv s : Inv s ->
  forall i j ti tj n, nth_error (thr s) i = Some ti -> nth_error (thr s) j = Some tj ->
                      inside ti n -> inside tj n -> i = j.
Proof.
  intros HI i j ti tj n Hi Hj Ii Ij.
  pose proof (ti_own _ _ (inv_thr _ HI _ _ Hi) n Ii) as Oi.
  pose proof (ti_own _ _ (inv_thr _ HI _ _ Hj) n Ij) as Oj.
  eapply nodup_map_nth; [apply (inv_nodup _ HI) | eauto | eauto | congruence].
Qed.

(* the holder of a name's Go mutex is the only thread that can be inside the name *)
Lemma inside_holds s i t n : Inv s -> nth_error (thr s) i = Some t -> inside t n ->
  mtx (sh s) n = Some (Some (tid t)) /\ own (sh s) n = Some (tid t).
Proof.
  intros HI Hi Hin. pose proof (inv_thr _ HI _ _ Hi) as Ht. split.
  - apply (ti_holds _ _ Ht). left. apply wf_locked; [apply (ti_wf _ _ Ht) | exact Hin].
  - apply (ti_own _ _ Ht). exact Hin.
Qed.

(* ------------------------------------------------------------------ when is a thread blocked *)

Definition blocked_on (s : shared) (t : thread) : Prop :=
  exists n h, pc t = PWant n /\ mtx s n = Some (Some h).

Lemma tstep_none_iff s t : tinv s t ->
  (tstep s t = None <-> finished t \/ blocked_on s t).
Proof.
  intros Ht. unfold tstep, finished, blocked_on. split.
  - destruct (pc t) eqn:Hpc.
    + destruct (ops t) as [|[n|k|] rest] eqn:Hops.
      * intros _. left; auto.
      * destruct (own s n) as [o|]; [destruct (N.eqb o (tid t))|]; discriminate.
      * destruct (stack t) as [|[n [|]] st]; discriminate.
      * discriminate.
    + destruct (ti_want _ _ Ht n (or_introl Hpc)) as (_ & Hex & _).
      destruct (mtx s n) as [[h|]|] eqn:Hm; try discriminate; [|congruence].
      intros _. right. exists n, h. auto.
    + discriminate.
    + destruct (mtx s n) as [[h|]|]; discriminate.
    + discriminate.
  - intros [[Hp Ho] | (n & h & Hp & Hm)].
    + rewrite Hp, Ho. reflexivity.
    + rewrite Hp, Hm. reflexivity.
Qed.

Lemma step_none_iff s i t : Inv s -> nth_error (thr s) i = Some t ->
  (step s i = None <-> finished t \/ blocked_on (sh s) t).
Proof.
  intros HI Hi. rewrite <- (tstep_none_iff _ _ (inv_thr _ HI _ _ Hi)).
  unfold step, step_ev. rewrite (inv_fatal _ HI), Hi.
  destruct (tstep (sh s) t) as [[[s1 t1] e]|]; simpl; split; congruence.
Qed.

(* a thread never waits for a mutex it holds itself *)
Lemma blocked_other s i t n h : Inv s -> nth_error (thr s) i = Some t ->
  pc t = PWant n -> mtx (sh s) n = Some (Some h) -> h <> tid t.
Proof.
  intros HI Hi Hp Hm E. subst h.
  destruct (inv_holder _ HI _ _ Hm) as (j & t' & Hj & Ht' & Hh).
  assert (j = i) by (eapply nodup_map_nth; [apply (inv_nodup _ HI) | eauto | eauto | exact Ht']).
  subst j. rewrite Hi in Hj. injection Hj as <-.
  destruct (ti_want _ _ (inv_thr _ HI _ _ Hi) n (or_introl Hp)) as (Hnin & _).
  destruct Hh as [Hin|[Hq|Hq]]; try congruence.
  apply Hnin. eapply in_names; eauto.
Qed.

Definition wants (t : thread) (n : N) : Prop :=
  pc t = PWant n \/ (pc t = PIdle /\ hd_error (ops t) = Some (OEnter n)).

Lemma wants_enabled s i t n : Inv s -> nth_error (thr s) i = Some t -> wants t n ->
  (forall h, mtx (sh s) n = Some (Some h) -> h = tid t) ->
  exists s', step s i = Some s'.
Proof.
  intros HI Hi Hw Hfree.
  destruct (step s i) as [s'|] eqn:E; [eauto|]. exfalso.
  apply (step_none_iff _ _ _ HI Hi) in E. destruct E as [[Hp Ho] | (m & h & Hp & Hm)].
  - destruct Hw as [Hw | [_ Hw]]; [congruence | rewrite Ho in Hw; discriminate].
  - destruct Hw as [Hw | [Hw _]]; [|congruence].
    assert (m = n) by congruence. subst m.
    apply (blocked_other _ _ _ _ _ HI Hi Hp Hm). apply Hfree. exact Hm.
Qed.

Lemma loc_id m n x : m n = Some x -> lookup_or_create m n = m.
Proof. unfold lookup_or_create. intros ->. reflexivity. Qed.

Lemma reentry_step s i t n rest : Inv s -> nth_error (thr s) i = Some t ->
  pc t = PIdle -> ops t = OEnter n :: rest -> inside t n ->
  step_ev s i = Some (mkState (sh s) (set_nth i (mkThread (tid t) PIdle ((n, false) :: stack t) rest) (thr s)),
                      Some (EvEnter (tid t) n)).
Proof.
  intros HI Hi Hp Ho Hin.
  destruct (inside_holds _ _ _ _ HI Hi Hin) as [Hm Hown].
  unfold step_ev. rewrite (inv_fatal _ HI), Hi. unfold tstep. rewrite Hp, Ho, Hown, N.eqb_refl.
  rewrite (loc_id _ _ _ Hm). destruct (sh s); reflexivity.
Qed.

(* ------------------------------------------------------------------ release *)

Lemma clearowner_step s i t n k st rest : Inv s -> nth_error (thr s) i = Some t ->
  pc t = PIdle -> ops t = OLeave k :: rest -> stack t = (n, true) :: st ->
  exists s1, step_ev s i = Some (s1, Some (EvLeave (tid t) n)) /\
             own (sh s1) n = Some 0%N /\
             nth_error (thr s1) i = Some (mkThread (tid t) (PUnlock n) st rest) /\
             ~ In n (names st).
Proof.
  intros HI Hi Hp Ho Hst.
  unfold step_ev. rewrite (inv_fatal _ HI), Hi. unfold tstep. rewrite Hp, Ho, Hst.
  eexists; split; [reflexivity|]. simpl. split; [apply upd_same|]. split.
  - rewrite (nth_set_nth _ _ _ _ _ Hi), Nat.eqb_refl. reflexivity.
  - pose proof (ti_wf _ _ (inv_thr _ HI _ _ Hi)) as Hwf. rewrite Hst in Hwf. apply Hwf.
Qed.

Lemma unlock_step s i t n : Inv s -> nth_error (thr s) i = Some t -> pc t = PUnlock n ->
  exists s1, step_ev s i = Some (s1, None) /\
             own (sh s1) n = Some 0%N /\ mtx (sh s1) n = Some None /\ fatal (sh s1) = false /\
             (forall m, m <> n -> mtx (sh s1) m = mtx (sh s) m) /\
             thr s1 = set_nth i (mkThread (tid t) PIdle (stack t) (ops t)) (thr s) /\
             ~ inside t n.
Proof.
  intros HI Hi Hp. pose proof (inv_thr _ HI _ _ Hi) as Ht.
  destruct (ti_unl _ _ Ht n Hp) as [Hnin Hown].
  assert (Hm : mtx (sh s) n = Some (Some (tid t))) by (apply (ti_holds _ _ Ht); right; right; exact Hp).
  unfold step_ev. rewrite (inv_fatal _ HI), Hi. unfold tstep. rewrite Hp, Hm.
  eexists; split; [reflexivity|]. simpl. repeat split; auto.
  - apply upd_same.
  - apply (inv_fatal _ HI).
  - intros m Hne. apply upd_other; exact Hne.
Qed.

(* after the release a thread waiting for the name gets in *)
Lemma later_entrant s i t n j tj : Inv s -> nth_error (thr s) i = Some t -> pc t = PUnlock n ->
  nth_error (thr s) j = Some tj -> pc tj = PWant n ->
  exists s1 s2, step s i = Some s1 /\ step s1 j = Some s2 /\
                nth_error (thr s2) j = Some (mkThread (tid tj) (PLocked n) (stack tj) (ops tj)).
Proof.
  intros HI Hi Hp Hj Hpj.
  destruct (unlock_step _ _ _ _ HI Hi Hp) as (s1 & Hs1 & Ho & Hm & Hf & _ & Hthr & _).
  assert (Hne : j <> i) by (intros ->; congruence).
  exists s1. eexists. split; [eapply step_ev_step; eauto|].
  assert (Hj1 : nth_error (thr s1) j = Some tj).
  { rewrite Hthr, (nth_set_nth _ _ _ _ _ Hi). destruct (Nat.eqb_spec j i); [contradiction | exact Hj]. }
  unfold step, step_ev. rewrite Hf, Hj1. unfold tstep. rewrite Hpj, Hm. simpl. split; [reflexivity|].
  simpl. rewrite (nth_set_nth _ _ _ _ _ Hj1), Nat.eqb_refl. reflexivity.
Qed.

(* ------------------------------------------------------------------ occupancy traces *)

Definition to_occ (e : event) : occ_event :=
  match e with EvEnter t n => OccEnter t n | EvLeave t n => OccLeave t n end.

Lemma depth_cons_eq n b st : depth n ((n, b) :: st) = S (depth n st).
Proof. unfold depth; simpl. rewrite N.eqb_refl. reflexivity. Qed.

Lemma depth_cons_ne n m b st : m <> n -> depth n ((m, b) :: st) = depth n st.
Proof. unfold depth; simpl. intros H. destruct (N.eqb_spec m n); [contradiction | reflexivity]. Qed.

Lemma depth_pos_in n st : (0 < depth n st)%nat -> In n (names st).
Proof.
  induction st as [|[m b] r IH]; simpl; [unfold depth; simpl; lia|].
  destruct (N.eq_dec m n) as [->|Hne]; [left; reflexivity|].
  rewrite depth_cons_ne by assumption. intros H. right. apply IH. exact H.
Qed.

Lemma in_depth_pos n st : In n (names st) -> (0 < depth n st)%nat.
Proof.
  induction st as [|[m b] r IH]; simpl; [tauto|].
  destruct (N.eq_dec m n) as [->|Hne].
  - intros _. rewrite depth_cons_eq. lia.
  - rewrite depth_cons_ne by assumption. intros [E|H]; [contradiction | apply IH; exact H].
Qed.

(* the occupancy automaton's state that belongs to a system state *)
Definition R (s : state) (o : occ) : Prop :=
  (forall n i t, nth_error (thr s) i = Some t -> (0 < depth n (stack t))%nat ->
                 o n = (tid t, depth n (stack t))) /\
  (forall n, (0 < snd (o n))%nat ->
             exists i t, nth_error (thr s) i = Some t /\ (0 < depth n (stack t))%nat).

Lemma R_init specs : R (init specs) occ_empty.
Proof.
  split.
  - intros n i t Hi. unfold init in Hi; simpl in Hi. rewrite nth_error_map in Hi.
    destruct (nth_error specs i); [|discriminate]. injection Hi as <-. unfold depth; simpl. lia.
  - intros n. unfold occ_empty; simpl. lia.
Qed.

Lemma tstep_shape s t s1 t1 e : tstep s t = Some (s1, t1, e) ->
  tid t1 = tid t /\
  match e with
  | None => stack t1 = stack t
  | Some (EvEnter a n) => a = tid t /\ exists b, stack t1 = (n, b) :: stack t /\
                          (if b then pc t = PLocked n else own s n = Some (tid t))
  | Some (EvLeave a n) => a = tid t /\ exists b, stack t = (n, b) :: stack t1
  end.
Proof.
  unfold tstep. destruct (pc t) eqn:Hpc.
  - destruct (ops t) as [|[n|k|] rest].
    + discriminate.
    + destruct (own s n) as [o|] eqn:Ho; [destruct (N.eqb_spec o (tid t))|];
        intros [= <- <- <-]; simpl; auto.
      split; auto. split; auto. exists false. split; congruence.
    + destruct (stack t) as [|[n [|]] st]; intros [= <- <- <-]; simpl; eauto.
    + intros [= <- <- <-]; simpl; auto.
  - destruct (mtx s n) as [[h|]|]; try discriminate. intros [= <- <- <-]; simpl; auto.
  - intros [= <- <- <-]; simpl. split; auto. split; auto. exists true. auto.
  - destruct (mtx s n) as [[h|]|]; intros [= <- <- <-]; simpl; auto.
  - intros [= <- <- <-]; simpl; auto.
Qed.

Lemma step_ev_inv s i s' e :
  step_ev s i = Some (s', e) ->
  exists t s1 t1, nth_error (thr s) i = Some t /\ tstep (sh s) t = Some (s1, t1, e) /\
                  s' = mkState s1 (set_nth i t1 (thr s)).
Proof.
  unfold step_ev. destruct (fatal (sh s)); [discriminate|].
  destruct (nth_error (thr s) i) as [t|]; [|discriminate].
  destruct (tstep (sh s) t) as [[[s1 t1] e1]|] eqn:E; [|discriminate].
  intros [= <- <-]. exists t, s1, t1. auto.
Qed.

Lemma sim_step s i s' e o : Inv s -> R s o -> step_ev s i = Some (s', e) ->
  match e with
  | None => R s' o
  | Some ev => exists o', occ_step o (to_occ ev) = Some o' /\ R s' o'
  end.
Proof.
  intros HI [R1 R2] Hs.
  destruct (step_ev_inv _ _ _ _ Hs) as (t & s1 & t1 & Hi & Ht & ->).
  destruct (tstep_shape _ _ _ _ _ Ht) as [Htid Hsh].
  assert (Hnth : forall j, nth_error (set_nth i t1 (thr s)) j = if Nat.eqb j i then Some t1 else nth_error (thr s) j)
    by (intros j; apply (nth_set_nth _ _ _ _ _ Hi)).
  destruct e as [[a n | a n]|].
  - (* enter *)
    destruct Hsh as [-> (b & Hst & Hb)]. simpl.
    assert (Z : forall j t', j <> i -> nth_error (thr s) j = Some t' -> depth n (stack t') = 0%nat).
    { intros j t' Hne Hj. destruct (depth n (stack t')) eqn:Hd; [reflexivity|]. exfalso. apply Hne.
      assert (Hin : inside t' n) by (apply depth_pos_in; lia).
      destruct (inside_holds _ _ _ _ HI Hj Hin) as [Hm Ho].
      eapply nodup_map_nth; [apply (inv_nodup _ HI) | eauto | eauto |].
      destruct b.
      - assert (Hx : mtx (sh s) n = Some (Some (tid t)))
          by (apply (ti_holds _ _ (inv_thr _ HI _ _ Hi)); right; left; exact Hb).
        congruence.
      - congruence. }
    assert (Hacc : occ_step o (OccEnter (tid t) n) = Some (occ_upd o n (tid t, S (depth n (stack t))))).
    { unfold occ_step. destruct (o n) as [h d] eqn:Hon. destruct d as [|d].
      - destruct (depth n (stack t)) eqn:Hd; [reflexivity|].
        rewrite (R1 n i t Hi) in Hon by lia. injection Hon as _ Hx. lia.
      - destruct (R2 n) as (j & t' & Hj & Hd); [rewrite Hon; simpl; lia|].
        destruct (Nat.eq_dec j i) as [->|Hne].
        + rewrite Hi in Hj. injection Hj as <-.
          rewrite (R1 n i t Hi Hd) in Hon. injection Hon as <- <-.
          rewrite N.eqb_refl. reflexivity.
        + rewrite (Z j t' Hne Hj) in Hd. lia. }
    eexists; split; [exact Hacc|]. split.
    + intros m j t' Hj Hd. simpl in Hj. rewrite Hnth in Hj. unfold occ_upd.
      destruct (Nat.eqb_spec j i) as [->|Hne].
      * injection Hj as <-. rewrite Htid, Hst in *. destruct (N.eqb_spec m n) as [E|Hmn]; [subst m|].
        -- rewrite depth_cons_eq. reflexivity.
        -- rewrite depth_cons_ne in * by congruence. apply (R1 m i t Hi Hd).
      * destruct (N.eqb_spec m n) as [E|Hmn]; [subst m|].
        -- rewrite (Z j t' Hne Hj) in Hd. lia.
        -- apply (R1 m j t' Hj Hd).
    + intros m Hd. simpl. unfold occ_upd in Hd. destruct (N.eqb_spec m n) as [E|Hmn]; [subst m|].
      * exists i, t1. rewrite Hnth, Nat.eqb_refl. split; auto. rewrite Hst, depth_cons_eq. lia.
      * destruct (R2 m Hd) as (j & t' & Hj & Hd').
        destruct (Nat.eq_dec j i) as [->|Hne].
        -- rewrite Hi in Hj. injection Hj as <-. exists i, t1. rewrite Hnth, Nat.eqb_refl. split; auto.
           rewrite Hst, depth_cons_ne by congruence. exact Hd'.
        -- exists j, t'. rewrite Hnth. destruct (Nat.eqb_spec j i); [contradiction | auto].
  - (* leave *)
    destruct Hsh as [-> (b & Hst)]. simpl.
    assert (Hd : depth n (stack t) = S (depth n (stack t1))) by (rewrite Hst; apply depth_cons_eq).
    assert (Hon : o n = (tid t, S (depth n (stack t1)))) by (rewrite <- Hd; apply (R1 n i t Hi); lia).
    exists (occ_upd o n (tid t, depth n (stack t1))). split.
    { unfold occ_step. rewrite Hon, N.eqb_refl. reflexivity. }
    split.
    + intros m j t' Hj Hd'. simpl in Hj. rewrite Hnth in Hj. unfold occ_upd.
      destruct (Nat.eqb_spec j i) as [->|Hne].
      * injection Hj as <-. rewrite Htid. destruct (N.eqb_spec m n) as [E|Hmn]; [subst m|]; [reflexivity|].
        assert (depth m (stack t) = depth m (stack t1)) by (rewrite Hst; apply depth_cons_ne; congruence).
        rewrite <- H in *. apply (R1 m i t Hi Hd').
      * destruct (N.eqb_spec m n) as [E|Hmn]; [subst m|].
        -- exfalso. apply Hne. apply (excl_inv _ HI j i t' t n Hj Hi).
           ++ apply depth_pos_in; exact Hd'.
           ++ apply depth_pos_in; lia.
        -- apply (R1 m j t' Hj Hd').
    + intros m Hd'. simpl. unfold occ_upd in Hd'. destruct (N.eqb_spec m n) as [E|Hmn]; [subst m|].
      * exists i, t1. rewrite Hnth, Nat.eqb_refl. split; auto.
      * destruct (R2 m Hd') as (j & t' & Hj & Hd'').
        destruct (Nat.eq_dec j i) as [->|Hne].
        -- rewrite Hi in Hj. injection Hj as <-. exists i, t1. rewrite Hnth, Nat.eqb_refl. split; auto.
           rewrite Hst, depth_cons_ne in Hd'' by congruence. exact Hd''.
        -- exists j, t'. rewrite Hnth. destruct (Nat.eqb_spec j i); [contradiction | auto].
  - (* silent *)
    split.
    + intros m j t' Hj Hd. simpl in Hj. rewrite Hnth in Hj.
      destruct (Nat.eqb_spec j i) as [->|Hne].
      * injection Hj as <-. rewrite Htid, Hsh in *. apply (R1 m i t Hi Hd).
      * apply (R1 m j t' Hj Hd).
    + intros m Hd. destruct (R2 m Hd) as (j & t' & Hj & Hd'). simpl.
      destruct (Nat.eq_dec j i) as [->|Hne].
      * rewrite Hi in Hj. injection Hj as <-. exists i, t1. rewrite Hnth, Nat.eqb_refl. split; auto.
        rewrite Hsh. exact Hd'.
      * exists j, t'. rewrite Hnth. destruct (Nat.eqb_spec j i); [contradiction | auto].
Qed.

Lemma sim_run sched : forall s s' o, Inv s -> R s o -> run step s sched = Some s' ->
  exists o', occ_run o (map to_occ (trace_of s sched)) = Some o' /\ R s' o'.
Proof.
  induction sched as [|i r IH]; intros s s' o HI HR Hrun; simpl in *.
  - injection Hrun as <-. exists o. auto.
  - unfold step in Hrun. destruct (step_ev s i) as [[s1 e]|] eqn:E; [|discriminate]. simpl in Hrun.
    assert (HI1 : Inv s1) by (eapply inv_step; eauto; eapply step_ev_step; eauto).
    pose proof (sim_step _ _ _ _ _ HI HR E) as Hsim.
    destruct e as [ev|].
    + destruct Hsim as (o1 & Ho1 & HR1). simpl. rewrite Ho1. eapply IH; eauto.
    + eapply IH; eauto.
Qed.

(* ------------------------------------------------------------------ no lost update *)

(* every increment of the program happens inside a block named n0
   (st = names of the blocks entered so far) *)
Fixpoint guarded (n0 : N) (st : list N) (l : list op) : Prop :=
  match l with
  | [] => True
  | OEnter n :: r => guarded n0 (n :: st) r
  | OLeave _ :: r => guarded n0 (tl st) r
  | OInc :: r => In n0 st /\ guarded n0 st r
  end.

Lemma guarded_tstep n0 s t s1 t1 e : tinv s t ->
  guarded n0 (names (stack t)) (ops t) -> tstep s t = Some (s1, t1, e) ->
  guarded n0 (names (stack t1)) (ops t1).
Proof.
  intros Ht G. unfold tstep. destruct (pc t) eqn:Hpc.
  - destruct (ops t) as [|[n|k|] rest] eqn:Hops.
    + discriminate.
    + destruct (own s n) as [o|]; [destruct (N.eqb o (tid t))|]; intros [= <- <- <-]; simpl; auto.
    + destruct (stack t) as [|[n [|]] st]; intros [= <- <- <-]; simpl in *; exact G.
    + intros [= <- <- <-]; simpl. exact G.
  - destruct (mtx s n) as [[h|]|]; try discriminate. intros [= <- <- <-]; simpl; exact G.
  - destruct (ti_want _ _ Ht n (or_intror Hpc)) as (_ & _ & Hhd).
    intros [= <- <- <-]; simpl. destruct (ops t) as [|o r]; [discriminate|].
    injection Hhd as ->. exact G.
  - destruct (mtx s n) as [[h|]|]; intros [= <- <- <-]; simpl; exact G.
  - pose proof (ti_wr _ _ Ht v Hpc) as Hhd.
    intros [= <- <- <-]; simpl. destruct (ops t) as [|o r]; [discriminate|].
    injection Hhd as ->. apply G.
Qed.

Definition pending (s : state) : nat := list_sum (map (fun t => count_inc (ops t)) (thr s)).
Definition total_incs (specs : list (N * list op)) : nat :=
  list_sum (map (fun p => count_inc (snd p)) specs).

Lemma sum_set_nth {A} (f : A -> nat) l i x y : nth_error l i = Some y ->
  (list_sum (map f (set_nth i x l)) + f y = list_sum (map f l) + f x)%nat.
Proof.
  revert i; induction l as [|a l IH]; intros [|i]; simpl; try discriminate.
  - intros [= ->]. lia.
  - intros H. specialize (IH i H). lia.
Qed.

(* what a step does to the counter and to the number of increments still to do *)
Lemma tstep_count s t s1 t1 e : tinv s t -> tstep s t = Some (s1, t1, e) ->
  (exists v, pc t = PWrite v /\ ctr s1 = (v + 1)%N /\ S (count_inc (ops t1)) = count_inc (ops t) /\ pc t1 = PIdle) \/
  (ctr s1 = ctr s /\ count_inc (ops t1) = count_inc (ops t) /\
   (forall v, pc t1 = PWrite v -> v = ctr s /\ hd_error (ops t) = Some OInc /\ pc t = PIdle) /\
   (forall v, pc t = PWrite v -> False)).
Proof.
  intros Ht. unfold tstep. destruct (pc t) eqn:Hpc.
  - destruct (ops t) as [|[n|k|] rest] eqn:Hops.
    + discriminate.
    + destruct (own s n) as [o|]; [destruct (N.eqb o (tid t))|]; intros [= <- <- <-]; right; simpl;
        repeat split; auto; try discriminate.
    + destruct (stack t) as [|[n [|]] st]; intros [= <- <- <-]; right; simpl;
        repeat split; auto; discriminate.
    + intros [= <- <- <-]; right; simpl. repeat split; auto; try discriminate. congruence.
  - destruct (mtx s n) as [[h|]|]; try discriminate. intros [= <- <- <-]; right; simpl.
    repeat split; auto; discriminate.
  - destruct (ti_want _ _ Ht n (or_intror Hpc)) as (_ & _ & Hhd).
    intros [= <- <- <-]; right; simpl. destruct (ops t) as [|o r]; [discriminate|].
    injection Hhd as ->. repeat split; auto; discriminate.
  - destruct (mtx s n) as [[h|]|]; intros [= <- <- <-]; right; simpl; repeat split; auto; discriminate.
  - pose proof (ti_wr _ _ Ht v Hpc) as Hhd.
    intros [= <- <- <-]; left; simpl. destruct (ops t) as [|o r]; [discriminate|].
    injection Hhd as ->. exists v. auto.
Qed.

Record CInv (n0 : N) (total : nat) (s : state) : Prop := mkCInv {
  ci_guard : forall i t, nth_error (thr s) i = Some t -> guarded n0 (names (stack t)) (ops t);
  ci_write : forall i t v, nth_error (thr s) i = Some t -> pc t = PWrite v -> v = ctr (sh s);
  ci_sum : (ctr (sh s) + N.of_nat (pending s) = N.of_nat total)%N
}.

Lemma cinv_step n0 total s i s' : Inv s -> CInv n0 total s -> step s i = Some s' -> CInv n0 total s'.
Proof.
  intros HI [CG CW CS] Hs.
  destruct (step_inv _ _ _ Hs) as (t & s1 & t1 & e & _ & Hi & Ht & ->).
  pose proof (inv_thr _ HI _ _ Hi) as Hti.
  assert (Hnth : forall j, nth_error (set_nth i t1 (thr s)) j = if Nat.eqb j i then Some t1 else nth_error (thr s) j)
    by (intros j; apply (nth_set_nth _ _ _ _ _ Hi)).
  pose proof (sum_set_nth (fun t => count_inc (ops t)) _ i t1 t Hi) as Hsum. simpl in Hsum.
  assert (Hinside : forall j t' v, nth_error (thr s) j = Some t' -> pc t' = PWrite v -> inside t' n0).
  { intros j t' v Hj Hp. pose proof (CG _ _ Hj) as G.
    pose proof (ti_wr _ _ (inv_thr _ HI _ _ Hj) v Hp) as Hhd.
    destruct (ops t') as [|o r]; [discriminate|]. injection Hhd as ->. apply G. }
  constructor; simpl.
  - intros j t' Hj. rewrite Hnth in Hj. destruct (Nat.eqb_spec j i) as [->|Hne].
    + injection Hj as <-. eapply guarded_tstep; eauto.
    + eapply CG; eauto.
  - destruct (tstep_count _ _ _ _ _ Hti Ht) as [(v & Hp & Hc & _ & Hp1) | (Hc & _ & Hw & _)].
    + (* t writes: nobody else is between read and write *)
      intros j t' v' Hj Hp'. rewrite Hnth in Hj. destruct (Nat.eqb_spec j i) as [->|Hne].
      * injection Hj as <-. congruence.
      * exfalso. apply Hne. eapply (excl_inv _ HI); eauto.
    + intros j t' v' Hj Hp'. rewrite Hnth in Hj. rewrite Hc. destruct (Nat.eqb_spec j i) as [->|Hne].
      * injection Hj as <-. apply Hw. exact Hp'.
      * eapply CW; eauto.
  - unfold pending in *. simpl.
    destruct (tstep_count _ _ _ _ _ Hti Ht) as [(v & Hp & Hc & Hn & _) | (Hc & Hn & _)].
    + rewrite Hc. rewrite (CW _ _ _ Hi Hp). lia.
    + rewrite Hc. lia.
Qed.

Lemma cinv_init n0 specs :
  (forall p, In p specs -> guarded n0 [] (snd p)) -> CInv n0 (total_incs specs) (init specs).
Proof.
  intros HG. constructor.
  - intros i t Hi. unfold init in Hi; simpl in Hi. rewrite nth_error_map in Hi.
    destruct (nth_error specs i) as [p|] eqn:E; [|discriminate]. injection Hi as <-. simpl.
    apply HG. eapply nth_error_In; eauto.
  - intros i t v Hi. unfold init in Hi; simpl in Hi. rewrite nth_error_map in Hi.
    destruct (nth_error specs i) as [p|]; [|discriminate]. injection Hi as <-. discriminate.
  - unfold pending, total_incs, init; simpl. rewrite map_map. simpl. lia.
Qed.

Lemma cinv_reach n0 specs sched : forall s,
  good_ids specs -> (forall p, In p specs -> guarded n0 [] (snd p)) ->
  run step (init specs) sched = Some s -> Inv s /\ CInv n0 (total_incs specs) s.
Proof.
  intros s Hg HG Hr.
  apply (inv_run _ _ step (fun s => Inv s /\ CInv n0 (total_incs specs) s)) with (sched := sched) (s := init specs); auto.
  - intros s0 l s0' [HI HC] Hs. split; [eapply inv_step; eauto | eapply cinv_step; eauto].
  - split; [apply inv_init; auto | apply cinv_init; auto].
Qed.

Lemma pending_finished s : (forall i t, nth_error (thr s) i = Some t -> finished t) -> pending s = 0%nat.
Proof.
  unfold pending. intros H. induction (thr s) as [|a l IH]; simpl; [reflexivity|].
  rewrite IH.
  - destruct (H 0%nat a eq_refl) as [_ Ho]. rewrite Ho. reflexivity.
  - intros i t Hi. apply (H (S i) t). exact Hi.
Qed.

(* ------------------------------------------------------------------ no deadlock *)

(* Blocks of different names are nested in one global order (an inner block never has a
   smaller name than a block around it; equal = re-entry) and every entered block is left
   (st = names entered so far).  Two threads that nest two names in opposite orders can
   deadlock with any mutex; the property text does not promise otherwise. *)
Fixpoint ordered (st : list N) (l : list op) : Prop :=
  match l with
  | [] => st = []
  | OEnter n :: r => (forall m, In m st -> (m <= n)%N) /\ ordered (n :: st) r
  | OLeave _ :: r => st <> [] /\ ordered (tl st) r
  | OInc :: r => ordered st r
  end.

Lemma ordered_tstep s t s1 t1 e : tinv s t ->
  ordered (names (stack t)) (ops t) -> tstep s t = Some (s1, t1, e) ->
  ordered (names (stack t1)) (ops t1).
Proof.
  intros Ht G. unfold tstep. destruct (pc t) eqn:Hpc.
  - destruct (ops t) as [|[n|k|] rest] eqn:Hops.
    + discriminate.
    + destruct (own s n) as [o|]; [destruct (N.eqb o (tid t))|]; intros [= <- <- <-]; simpl; auto.
      apply G.
    + destruct (stack t) as [|[n [|]] st]; intros [= <- <- <-]; simpl in *; apply G.
    + intros [= <- <- <-]; simpl. exact G.
  - destruct (mtx s n) as [[h|]|]; try discriminate. intros [= <- <- <-]; simpl; exact G.
  - destruct (ti_want _ _ Ht n (or_intror Hpc)) as (_ & _ & Hhd).
    intros [= <- <- <-]; simpl. destruct (ops t) as [|o r]; [discriminate|].
    injection Hhd as ->. apply G.
  - destruct (mtx s n) as [[h|]|]; intros [= <- <- <-]; simpl; exact G.
  - pose proof (ti_wr _ _ Ht v Hpc) as Hhd.
    intros [= <- <- <-]; simpl. destruct (ops t) as [|o r]; [discriminate|].
    injection Hhd as ->. apply G.
Qed.

Definition OInv (s : state) : Prop :=
  forall i t, nth_error (thr s) i = Some t -> ordered (names (stack t)) (ops t).

Lemma oinv_step s i s' : Inv s -> OInv s -> step s i = Some s' -> OInv s'.
Proof.
  intros HI HO Hs.
  destruct (step_inv _ _ _ Hs) as (t & s1 & t1 & e & _ & Hi & Ht & ->).
  intros j t' Hj. simpl in Hj. rewrite (nth_set_nth _ _ _ _ _ Hi) in Hj.
  destruct (Nat.eqb_spec j i) as [->|Hne].
  - injection Hj as <-. eapply ordered_tstep; eauto. eapply inv_thr; eauto.
  - eapply HO; eauto.
Qed.

Lemma oinv_init specs : (forall p, In p specs -> ordered [] (snd p)) -> OInv (init specs).
Proof.
  intros HG i t Hi. unfold init in Hi; simpl in Hi. rewrite nth_error_map in Hi.
  destruct (nth_error specs i) as [p|] eqn:E; [|discriminate]. injection Hi as <-. simpl.
  apply HG. eapply nth_error_In; eauto.
Qed.

Definition want_name (t : thread) : N := match pc t with PWant n => n | _ => 0%N end.
Definition bound (l : list thread) : N := fold_right N.max 0%N (map want_name l).

Lemma bound_ge l i t n : nth_error l i = Some t -> pc t = PWant n -> (n <= bound l)%N.
Proof.
  revert i; induction l as [|a l IH]; intros [|i]; simpl; try discriminate.
  - intros [= ->] Hp. unfold bound; simpl. unfold want_name at 1. rewrite Hp. lia.
  - intros Hi Hp. specialize (IH i Hi Hp). unfold bound in *; simpl. lia.
Qed.

Lemma chain_enabled s : Inv s -> OInv s ->
  forall d i t n h, nth_error (thr s) i = Some t -> pc t = PWant n ->
    mtx (sh s) n = Some (Some h) -> (N.to_nat (bound (thr s) - n) <= d)%nat ->
    exists j s', step s j = Some s'.
Proof.
  intros HI HO. induction d as [|d IH]; intros i t n h Hi Hp Hm Hd.
  all: destruct (inv_holder _ HI _ _ Hm) as (j & tj & Hj & Htj & Hh).
  all: destruct (step s j) as [s'|] eqn:Ej; [exists j, s'; exact Ej|].
  all: apply (step_none_iff _ _ _ HI Hj) in Ej.
  all: pose proof (HO _ _ Hj) as Hord.
  all: pose proof (inv_thr _ HI _ _ Hj) as Htinv.
  all: assert (Hin : In (n, true) (stack tj))
        by (destruct Ej as [[Hq _] | (m & h' & Hq & _)]; destruct Hh as [Hin|[Hq'|Hq']]; congruence).
  all: destruct Ej as [[Hq Ho] | (m & h' & Hq & Hm')];
        [rewrite Ho in Hord; simpl in Hord; apply in_names in Hin; rewrite Hord in Hin; destruct Hin|].
  all: destruct (ti_want _ _ Htinv m (or_introl Hq)) as (Hnin & _ & Hhd).
  all: assert (Hlt : (n < m)%N).
  1,3: destruct (ops tj) as [|o r]; [discriminate|]; injection Hhd as ->;
       destruct Hord as [Hle _]; apply in_names in Hin;
       pose proof (Hle n Hin); assert (n <> m) by (intros ->; contradiction); lia.
  all: pose proof (bound_ge _ _ _ _ Hj Hq) as Hb.
  - lia.
  - apply (IH j tj m h' Hj Hq Hm'). lia.
Qed.

Lemma no_deadlock_inv s : Inv s -> OInv s ->
  (exists i t, nth_error (thr s) i = Some t /\ ~ finished t) ->
  exists j s', step s j = Some s'.
Proof.
  intros HI HO (i & t & Hi & Hnf).
  destruct (step s i) as [s'|] eqn:E; [exists i, s'; exact E|].
  apply (step_none_iff _ _ _ HI Hi) in E. destruct E as [Hf | (n & h & Hp & Hm)]; [contradiction|].
  eapply chain_enabled; eauto.
Qed.

(* ------------------------------------------------------------------ programs as trees *)

Section BlkInd.
  Variable P : blk -> Prop.
  Hypothesis HInc : P BInc.
  Hypothesis HMutex : forall n body k, Forall P body -> P (BMutex n body k).
  Fixpoint blk_ind' (b : blk) : P b :=
    match b with
    | BInc => HInc
    | BMutex n body k =>
        HMutex n body k
          ((fix go (l : list blk) : Forall P l :=
              match l with
              | [] => Forall_nil P
              | x :: r => Forall_cons x (blk_ind' x) (go r)
              end) body)
    end.
End BlkInd.

(* every increment sits inside a block named n0 (ins: already inside one) *)
Inductive tguard (n0 : N) : bool -> blk -> Prop :=
| TG_inc : tguard n0 true BInc
| TG_mutex ins n body k :
    Forall (tguard n0 (ins || N.eqb n n0)) body -> tguard n0 ins (BMutex n body k).

(* inner blocks never carry a smaller name than the blocks around them *)
Inductive tord : N -> blk -> Prop :=
| TO_inc lo : tord lo BInc
| TO_mutex lo n body k : (lo <= n)%N -> Forall (tord n) body -> tord lo (BMutex n body k).

Lemma flatten_mutex_app n body k rest :
  flatten (BMutex n body k) ++ rest = OEnter n :: (flat_map flatten body ++ OLeave k :: rest).
Proof. simpl. rewrite <- app_assoc. reflexivity. Qed.

Lemma flatten_guarded_gen n0 b : forall ins st rest,
  tguard n0 ins b -> (ins = true -> In n0 st) -> guarded n0 st rest ->
  guarded n0 st (flatten b ++ rest).
Proof.
  induction b as [|n body k IH] using blk_ind'; intros ins st rest HT Hins HG.
  - inversion HT; subst. simpl. split; auto.
  - inversion HT as [|ins' n' body' k' HF]; subst. rewrite flatten_mutex_app. simpl.
    assert (Hins' : (ins || N.eqb n n0)%bool = true -> In n0 (n :: st)).
    { intros H. apply orb_true_iff in H. destruct H as [H|H].
      - right; auto.
      - left. apply N.eqb_eq; exact H. }
    assert (HG' : guarded n0 (n :: st) (OLeave k :: rest)) by exact HG.
    clear HT. revert HF Hins' HG'. generalize (OLeave k :: rest) as rest'.
    generalize (n :: st) as st'. generalize (ins || N.eqb n n0)%bool as ins'.
    induction IH as [|x r Hx _ IHr]; intros ins' st' rest' HF Hins' HG'; simpl; [exact HG'|].
    inversion HF; subst. rewrite <- app_assoc. apply (Hx ins'); auto. apply (IHr ins'); auto.
Qed.

Lemma flatten_list_guarded n0 l :
  Forall (tguard n0 false) l -> guarded n0 [] (flatten_list l).
Proof.
  intros HF. unfold flatten_list. rewrite <- (app_nil_r (flat_map flatten l)).
  assert (HG : guarded n0 [] []) by exact I. revert HG. generalize (@nil op) as rest.
  induction HF as [|x r Hx _ IH]; intros rest HG; simpl; [exact HG|].
  rewrite <- app_assoc. eapply flatten_guarded_gen; eauto. discriminate.
Qed.

Lemma flatten_ordered_gen b : forall lo st rest,
  tord lo b -> (forall m, In m st -> (m <= lo)%N) -> ordered st rest ->
  ordered st (flatten b ++ rest).
Proof.
  induction b as [|n body k IH] using blk_ind'; intros lo st rest HT Hst HG.
  - simpl. exact HG.
  - inversion HT as [|lo' n' body' k' Hle HF]; subst. rewrite flatten_mutex_app. simpl. split.
    { intros m Hm. specialize (Hst m Hm). lia. }
    assert (Hst' : forall m, In m (n :: st) -> (m <= n)%N).
    { intros m [<-|Hm]; [lia | specialize (Hst m Hm); lia]. }
    assert (HG' : ordered (n :: st) (OLeave k :: rest)) by (split; [discriminate | exact HG]).
    clear HT Hst. revert HF Hst' HG'. generalize (OLeave k :: rest) as rest'.
    generalize (n :: st) as st'.
    induction IH as [|x r Hx _ IHr]; intros st' rest' HF Hst' HG'; simpl; [exact HG'|].
    inversion HF; subst. rewrite <- app_assoc. apply (Hx n); auto.
Qed.

Lemma flatten_list_ordered l : Forall (tord 0%N) l -> ordered [] (flatten_list l).
Proof.
  intros HF. unfold flatten_list. rewrite <- (app_nil_r (flat_map flatten l)).
  assert (HG : ordered [] []) by reflexivity. revert HG. generalize (@nil op) as rest.
  induction HF as [|x r Hx _ IH]; intros rest HG; simpl; [exact HG|].
  rewrite <- app_assoc. eapply flatten_ordered_gen; eauto. intros m [].
Qed.

(* ------------------------------------------------------------------ statements for Props/C12.v *)

Lemma mutual_exclusion specs s : good_ids specs -> reachable step (init specs) s ->
  Exclusive (fun i n => exists t, nth_error (thr s) i = Some t /\ inside t n).
Proof.
  intros Hg Hr i j n (ti & Hi & Ii) (tj & Hj & Ij).
  eapply (excl_inv _ (inv_reach _ _ Hg Hr)); eauto.
Qed.

Lemma trace_refines specs sched s : good_ids specs -> run step (init specs) sched = Some s ->
  occ_ok (map to_occ (trace_of (init specs) sched)) = true.
Proof.
  intros Hg Hr. unfold occ_ok.
  destruct (sim_run sched _ _ _ (inv_init _ Hg) (R_init specs) Hr) as (o' & -> & _). reflexivity.
Qed.

Lemma blocked_iff specs s i t : good_ids specs -> reachable step (init specs) s ->
  nth_error (thr s) i = Some t ->
  (step s i = None <->
   finished t \/ exists n h, pc t = PWant n /\ mtx (sh s) n = Some (Some h) /\ h <> tid t).
Proof.
  intros Hg Hr Hi. pose proof (inv_reach _ _ Hg Hr) as HI.
  rewrite (step_none_iff _ _ _ HI Hi). unfold blocked_on. split.
  - intros [Hf | (n & h & Hp & Hm)]; [left; exact Hf | right].
    exists n, h. repeat split; auto. eapply blocked_other; eauto.
  - intros [Hf | (n & h & Hp & Hm & _)]; [left; exact Hf | right; eauto].
Qed.

Lemma released specs s i t n : good_ids specs -> reachable step (init specs) s ->
  nth_error (thr s) i = Some t ->
  (forall k st rest, pc t = PIdle -> ops t = OLeave k :: rest -> stack t = (n, true) :: st ->
     exists s1, step_ev s i = Some (s1, Some (EvLeave (tid t) n)) /\
                own (sh s1) n = Some 0%N /\
                nth_error (thr s1) i = Some (mkThread (tid t) (PUnlock n) st rest) /\
                ~ In n (names st)) /\
  (pc t = PUnlock n ->
     own (sh s) n = Some 0%N /\
     exists s1, step_ev s i = Some (s1, None) /\
                own (sh s1) n = Some 0%N /\ mtx (sh s1) n = Some None /\ fatal (sh s1) = false /\
                (forall m, m <> n -> mtx (sh s1) m = mtx (sh s) m) /\
                thr s1 = set_nth i (mkThread (tid t) PIdle (stack t) (ops t)) (thr s) /\
                ~ inside t n).
Proof.
  intros Hg Hr Hi. pose proof (inv_reach _ _ Hg Hr) as HI. split.
  - intros k st rest Hp Ho Hst. eapply clearowner_step; eauto.
  - intros Hp. split.
    + apply (ti_unl _ _ (inv_thr _ HI _ _ Hi) n Hp).
    + eapply unlock_step; eauto.
Qed.

Lemma oinv_reach specs s : good_ids specs -> (forall p, In p specs -> ordered [] (snd p)) ->
  reachable step (init specs) s -> Inv s /\ OInv s.
Proof.
  intros Hg HO Hr.
  apply (inv_reachable _ _ step (fun s => Inv s /\ OInv s) (init specs)); auto.
  - split; [apply inv_init; auto | apply oinv_init; auto].
  - intros s0 l s0' [HI HC] Hs. split; [eapply inv_step; eauto | eapply oinv_step; eauto].
Qed.

Lemma no_deadlock specs s : good_ids specs -> (forall p, In p specs -> ordered [] (snd p)) ->
  reachable step (init specs) s ->
  (exists i t, nth_error (thr s) i = Some t /\ ~ finished t) ->
  exists j s', step s j = Some s'.
Proof.
  intros Hg HO Hr Hu. destruct (oinv_reach _ _ Hg HO Hr) as [HI HOI].
  apply no_deadlock_inv; auto.
Qed.

Definition tree_specs (ts : list (N * list blk)) : list (N * list op) :=
  map (fun p => (fst p, flatten_list (snd p))) ts.

Lemma tree_specs_ids ts : map fst (tree_specs ts) = map fst ts.
Proof. unfold tree_specs. rewrite map_map. reflexivity. Qed.

Lemma no_deadlock_trees ts s :
  NoDup (map fst ts) -> Forall (fun x => x <> 0%N) (map fst ts) ->
  (forall p, In p ts -> Forall (tord 0%N) (snd p)) ->
  reachable step (init (tree_specs ts)) s ->
  (exists i t, nth_error (thr s) i = Some t /\ ~ finished t) ->
  exists j s', step s j = Some s'.
Proof.
  intros Hnd Hnz HT. apply no_deadlock.
  - split; rewrite tree_specs_ids; assumption.
  - intros p Hp. unfold tree_specs in Hp. apply in_map_iff in Hp. destruct Hp as (q & <- & Hq).
    simpl. apply flatten_list_ordered. apply HT. exact Hq.
Qed.

Lemma no_lost_update specs n0 sched s : good_ids specs ->
  (forall p, In p specs -> guarded n0 [] (snd p)) ->
  run step (init specs) sched = Some s ->
  (ctr (sh s) + N.of_nat (pending s) = N.of_nat (total_incs specs))%N /\
  ((forall i t, nth_error (thr s) i = Some t -> finished t) ->
   ctr (sh s) = N.of_nat (total_incs specs)).
Proof.
  intros Hg HG Hr. destruct (cinv_reach n0 specs sched s Hg HG Hr) as [HI HC].
  pose proof (ci_sum _ _ _ HC) as Hs. split; [exact Hs|].
  intros Hf. rewrite (pending_finished _ Hf) in Hs. simpl in Hs. lia.
Qed.

Lemma no_lost_update_trees ts n0 sched s :
  NoDup (map fst ts) -> Forall (fun x => x <> 0%N) (map fst ts) ->
  (forall p, In p ts -> Forall (tguard n0 false) (snd p)) ->
  run step (init (tree_specs ts)) sched = Some s ->
  (forall i t, nth_error (thr s) i = Some t -> finished t) ->
  ctr (sh s) = N.of_nat (total_incs (tree_specs ts)).
Proof.
  intros Hnd Hnz HT Hr Hf.
  refine (proj2 (no_lost_update (tree_specs ts) n0 sched s _ _ Hr) Hf).
  - split; rewrite tree_specs_ids; assumption.
  - intros p Hp. unfold tree_specs in Hp. apply in_map_iff in Hp. destruct Hp as (q & <- & Hq).
    simpl. apply flatten_list_guarded. apply HT. exact Hq.
Qed.

Lemma no_fatal specs s : good_ids specs -> reachable step (init specs) s -> fatal (sh s) = false.
Proof. intros Hg Hr. apply (inv_fatal _ (inv_reach _ _ Hg Hr)). Qed.

(* leaving a re-entered block changes no table and leaves the thread inside the name *)
Lemma inner_exit_step specs s i t n k st rest : good_ids specs -> reachable step (init specs) s ->
  nth_error (thr s) i = Some t ->
  pc t = PIdle -> ops t = OLeave k :: rest -> stack t = (n, false) :: st ->
  step_ev s i = Some (mkState (sh s) (set_nth i (mkThread (tid t) PIdle st rest) (thr s)),
                      Some (EvLeave (tid t) n)) /\
  In n (names st) /\ mtx (sh s) n = Some (Some (tid t)) /\ own (sh s) n = Some (tid t).
Proof.
  intros Hg Hr Hi Hp Ho Hst. pose proof (inv_reach _ _ Hg Hr) as HI. split; [|split].
  - unfold step_ev. rewrite (inv_fatal _ HI), Hi. unfold tstep. rewrite Hp, Ho, Hst. reflexivity.
  - pose proof (ti_wf _ _ (inv_thr _ HI _ _ Hi)) as Hwf. rewrite Hst in Hwf. apply Hwf.
  - apply (inside_holds _ _ _ _ HI Hi). unfold inside. rewrite Hst. left; reflexivity.
Qed.
