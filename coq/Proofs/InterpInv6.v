(* Proofs/InterpInv6.v — the invariant through one level of evaluation, part 3: identifiers
   (access strings, calls, closures, built-ins), assignment, let, function declarations. *)
From Coq Require Import List String NArith ZArith Bool Arith Lia.
From Ecal Require Import Common.Bytes Common.Ast gen.Tokens Spec.ParseSpec Model.Interp Proofs.InterpShape
  Proofs.InterpInv Proofs.InterpInv2 Proofs.InterpInv3 Proofs.InterpInv4.
Import ListNotations.
Local Open Scope string_scope.
Local Open Scope list_scope.
Local Open Scope nat_scope.

Section I6.
  Context {NO : NumOps}.

  (* the children an access expression is resolved on: a suffix of a validated identifier's children *)
  Definition kids_ok (l : list node) : Prop := ident_ok l = true /\ toks l.
  Definition sj_ok (sj : subj) : Prop := kids_ok (sj_kids sj).
  Lemma kids_ok_tl c r : kids_ok (c :: r) -> kids_ok r.
  Proof.
    intros [H1 H2]. cbn [ident_ok] in H1. apply andb_prop in H1. destruct H1 as [_ H1].
    inversion H2; subst. split; assumption.
  Qed.
  Lemma kids_ok_hd c r : kids_ok (c :: r) -> tok c = true.
  Proof. intros [_ H2]. inversion H2; subst. assumption. Qed.
  Lemma ident_sj_ok p n : tok n = true -> n_name n = NodeIDENTIFIER -> sj_ok (subj_of p n).
  Proof. intros H Hn. split; cbn; [apply tok_ident | apply tok_kids]; assumption. Qed.

  Definition Qb (sc is : nat) : subj * bytes * bstat -> state -> Prop :=
    fun r st' => sj_ok (fst (fst r)) /\ match snd r with BErr e => err_ok st' e | _ => True end.

  Lemma acc_of_ok st e : err_ok st e -> val_ok st (acc_of e).
  Proof. destruct e; cbn; auto. Qed.
  Lemma with_acc_ok st e v : err_ok st e -> val_ok st v -> err_ok st (with_acc e v).
  Proof. destruct e; cbn; auto. Qed.
  Lemma nth_ok st (l : list value) i : vals_ok st l -> val_ok st (nth i l VNull).
  Proof.
    intros H. revert i. induction H as [|x r Hx Hr IH]; intros [|i]; cbn [nth]; auto; exact I.
  Qed.
  Lemma find_funccall_in kids : forall i j fc, find_funccall i kids = Some (j, fc) -> In fc kids.
  Proof.
    induction kids as [|c r IH]; intros i j fc; cbn [find_funccall]; [discriminate|].
    destruct (is_name c NodeFUNCCALL).
    - intros H. injection H as _ <-. left. reflexivity.
    - intros H. right. eapply IH; eauto.
  Qed.
  Lemma after_last_ok kids : forall i best o l,
    kids_ok kids -> (forall o' l', best = Some (o', l') -> kids_ok l') ->
    after_last i kids best = Some (o, l) -> kids_ok l.
  Proof.
    induction kids as [|c r IH]; intros i best o l Hk Hb; cbn [after_last].
    - intros H. eapply Hb; eauto.
    - apply IH; [eapply kids_ok_tl; eauto|].
      intros o' l'. destruct (is_name c NodeFUNCCALL); [|apply Hb].
      intros H. injection H as _ <-. eapply kids_ok_tl; eauto.
  Qed.
  Lemma resolve_fobj_cases a r :
    match resolve_fobj a r with
    | ROk (Some (FClosure id)) => r = VFun id
    | ROk _ | RUnmod _ => True
    | _ => False
    end.
  Proof.
    unfold resolve_fobj. destruct (name_in a ["log"; "error"; "debug"]); [exact I|].
    destruct r; try reflexivity;
      destruct (name_in a modelled_builtins); try exact I;
      destruct (name_in a unmodelled_builtins); exact I.
  Qed.
  Lemma func_ok_nth kids :
    func_ok kids = true ->
    exists params body,
      nth_error kids (match kids with h :: _ => if is_name h NodeIDENTIFIER then 1 else 0 | [] => 0 end) = Some params /\
      nth_error kids (S (match kids with h :: _ => if is_name h NodeIDENTIFIER then 1 else 0 | [] => 0 end)) = Some body.
  Proof.
    unfold func_ok, is_name. destruct kids as [|h r]; [discriminate|].
    destruct (String.eqb (n_name h) NodeIDENTIFIER); intros H; apply Nat.leb_le in H;
      destruct r as [|k2 [|k3 r]]; cbn in H; try lia; cbn; eauto.
  Qed.

  Section WithEv.
    Variable ev : evalT.
    Hypothesis Hev : forall p n s i st,
      tok n = true -> sc_ok st s -> is_ok st i -> T st (ev p n s i) Qval.

    (* ---- buildAccessString *)
    Lemma T_build_kids brec sc is
          (Hb : forall sj acc st, sj_ok sj -> sc_ok st sc -> is_ok st is -> T st (brec sj acc) (Qb sc is)) kids :
      forall st cur idx acc,
        sj_ok cur -> kids_ok kids -> sc_ok st sc -> is_ok st is ->
        T st (build_kids ev brec cur idx kids acc sc is) (Qb sc is).
    Proof.
      induction kids as [|c rest IH]; intros st cur idx acc Hcur Hk Hs Hi; cbn [build_kids].
      - apply T_ret. split; [exact Hcur | exact I].
      - pose proof (kids_ok_hd _ _ Hk) as Hc. pose proof (kids_ok_tl _ _ Hk) as Hr.
        destruct (is_name c NodeCOMPACCESS) eqn:Eca.
        + destruct (tok_some_k c NodeCOMPACCESS Hc Eca) as (e & r0 & Ec & He & _); try reflexivity.
          rewrite Ec.
          tbind (apply T_attempt; apply Hev; assumption) as r Hr0.
          destruct r as [v|err].
          * tbind (apply T_sprint_m) as s0 ?. cbv zeta.
            destruct (next_is_funccall rest); [apply T_ret; split; [exact Hcur|exact I]|].
            apply IH; assumption.
          * destruct (next_is_funccall rest).
            { tbind (apply T_sprint_m) as s0 ?. apply T_ret. split; [exact Hcur|exact I]. }
            destruct (is_rt err T_INVCONS); [apply T_unmod|].
            apply T_ret. split; [exact Hcur|exact Hr0].
        + destruct (is_name c NodeIDENTIFIER) eqn:Eid.
          * cbv zeta. destruct Hk as [Hio _]. cbn [ident_ok] in Hio. unfold is_name in Eca, Eid.
            rewrite Eca, Eid in Hio. destruct rest as [|? ?]; [|discriminate Hio].
            assert (Hsub : sj_ok (subj_of (idx :: sj_path cur) c)).
            { apply ident_sj_ok; [exact Hc|]. apply String.eqb_eq. exact Eid. }
            destruct (n_children c) as [|f0 ?] eqn:Ekc; [apply Hb; assumption|].
            destruct (is_name f0 NodeFUNCCALL); [|apply Hb; assumption].
            apply T_ret. split; [exact Hsub|exact I].
          * apply IH; assumption.
    Qed.
    Lemma T_build d : forall sc is st sj acc,
      sj_ok sj -> sc_ok st sc -> is_ok st is -> T st (build ev d sc is sj acc) (Qb sc is).
    Proof.
      induction d as [|d IH]; intros sc is st sj acc Hsj Hs Hi; cbn [build]; [apply T_fuel|].
      apply T_build_kids; try assumption. intros. apply IH; assumption.
    Qed.

    (* ---- calls *)
    Lemma T_eval_args p args : forall st idx sc,
      toks args -> sc_ok st sc -> T st (eval_args ev p idx args sc) (fun vs st' => vals_ok st' vs).
    Proof.
      induction args as [|a r IH]; intros st idx sc Hc Hs; cbn [eval_args]; [apply T_ret; constructor|].
      inversion Hc as [|? ? H1 Hc']; subst.
      tbind (apply T_alloc_is) as i Hi.
      tbind (apply Hev; assumption) as v Hv.
      tbind (apply IH; assumption) as vs Hvs.
      apply T_ret. constructor; assumption.
    Qed.

    Lemma T_bind_params pp ps : forall st idx args fvs dvs is,
      toks ps -> vals_ok st args -> sc_ok st fvs -> sc_ok st dvs -> is_ok st is ->
      T st (bind_params ev pp idx ps args fvs dvs is) Qtrue.
    Proof.
      induction ps as [|x r IH]; intros st idx args fvs dvs is Hc Ha Hf Hd Hi; cbn [bind_params];
        [apply T_ret; exact I|].
      inversion Hc as [|? ? H1 Hc']; subst.
      eapply T_bind with (Q := Qtrue).
      - destruct (is_name x NodeIDENTIFIER).
        { tbind (apply T_attempt; apply T_set_value; [assumption | apply nth_ok; assumption]) as ? ?.
          apply T_ret. exact I. }
        destruct (is_name x NodePRESET) eqn:Ep; [|apply T_ret; exact I].
        destruct (tok_two_k x NodePRESET H1 Ep) as (c0 & c1 & Ec & Hc0 & Hc1); [reflexivity|].
        rewrite Ec.
        eapply T_bind with (Q := Qval).
        + destruct (idx <? length args); [apply T_ret; apply nth_ok; assumption | apply Hev; assumption].
        + intros v st' Hok' L Hv. adv L.
          tbind (apply T_attempt; apply T_set_value; assumption) as ? ?. apply T_ret. exact I.
      - intros ? st' Hok' L _. adv L. apply IH; assumption.
    Qed.

    Lemma T_run_closure st f args is :
      clo_ok st f -> vals_ok st args -> is_ok st is -> T st (run_closure ev f args is) Qcr.
    Proof.
      intros Hclo Ha Hi. unfold run_closure. cbv zeta.
      destruct Hclo as [Hcs [Htok Hname]].
      destruct (func_ok_nth _ (tok_func _ Htok Hname)) as (params & body & E1 & E2).
      rewrite E1, E2.
      pose proof (toks_nth _ _ _ (tok_kids _ Htok) E1) as Hp.
      pose proof (toks_nth _ _ _ (tok_kids _ Htok) E2) as Hbody.
      eapply T_bind; [apply T_new_root|]. intros fvs st1 Hok1 L1 [Hf Heq].
      assert (Hlt : cl_scope f < fvs) by (unfold sc_ok in Hcs; lia).
      adv L1.
      tbind (apply T_attempt; apply T_bind_params; try assumption; apply tok_kids; exact Hp) as r Hr.
      destruct r as [?|e]; [|apply T_ret; split; [exact I|exact Hr]].
      tbind (apply T_set_parent; assumption) as ? ?.
      tbind (apply T_alloc_is) as is' His'.
      tbind (apply T_attempt; apply Hev; assumption) as b Hb.
      destruct b as [v|e]; [apply T_ret; split; [exact Hb|exact I]|].
      destruct e; apply T_ret; split; cbn; auto; exact I.
    Qed.

    Lemma T_exec_function st f self args is :
      match f with FClosure id => val_ok st (VFun id) | FBuiltin _ => True end ->
      vals_ok st args -> is_ok st is -> T st (exec_function ev f self args is) Qcr.
    Proof.
      intros Hf Ha Hi. unfold exec_function. destruct f as [id|name].
      - eapply Tb_get_fun; [exact Hf|]. intros c Ec Hc.
        tbind (apply T_run_closure; assumption) as r Hr. destruct Hr as [Hr1 Hr2].
        apply T_ret. split; [exact Hr1|]. cbn [snd].
        destruct (snd r) as [e|]; [destruct e|]; try exact Hr2; exact I.
      - destruct (bytes_eqb name (bs "range")); [apply T_b_range; assumption|].
        destruct (bytes_eqb name (bs "len")); [apply T_b_len; assumption|].
        destruct (bytes_eqb name (bs "del")); [apply T_b_del; assumption|].
        destruct (bytes_eqb name (bs "add")); [apply T_b_add; assumption|].
        destruct (bytes_eqb name (bs "concat")); [apply T_b_concat; assumption|].
        destruct (bytes_eqb name (bs "raise")); [apply T_b_raise; assumption|].
        destruct (bytes_eqb name (bs "type")); [apply T_b_type|].
        apply T_unmod.
    Qed.

    Lemma T_resolve_function st astring self nd result sc is :
      sj_ok nd -> val_ok st result -> sc_ok st sc -> is_ok st is ->
      T st (resolve_function ev astring self nd result sc is) Qcr.
    Proof.
      intros Hnd Hr Hs Hi. unfold resolve_function.
      destruct (find_funccall (sj_off nd) (sj_kids nd)) as [[fidx fc]|] eqn:Ef;
        [|apply T_ret; split; [exact Hr|exact I]].
      assert (Hfc : tok fc = true).
      { destruct Hnd as [_ Hk]. unfold toks in Hk. rewrite Forall_forall in Hk. apply Hk.
        eapply find_funccall_in; eauto. }
      apply Tb_lift. pose proof (resolve_fobj_cases astring result) as G.
      destruct (resolve_fobj astring result) as [o| | | | |]; try contradiction; try exact I.
      destruct o as [f|]; [|apply T_ret; split; [exact Hr|exact I]].
      tbind (apply T_attempt; apply T_eval_args; [apply tok_kids; exact Hfc | assumption]) as r Hr0.
      destruct r as [args|e]; [|apply T_ret; split; [exact Hr|exact Hr0]].
      apply T_exec_function; try assumption.
      destruct f; [|exact I]. subst result. exact Hr.
    Qed.

    Lemma T_resolve d : forall st self sj sc is,
      sj_ok sj -> sc_ok st sc -> is_ok st is -> T st (resolve ev d self sj sc is) Qcr.
    Proof.
      induction d as [|d IH]; intros st self sj sc is Hsj Hs Hi; cbn [resolve]; [apply T_fuel|].
      destruct (sj_kids sj) as [|k0 ks] eqn:Ek.
      - tbind (apply T_get_value; assumption) as v Hv. apply T_ret. split; [exact Hv|exact I].
      - tbind (apply T_build; assumption) as b Hb. destruct Hb as [Hb1 Hb2]. cbv zeta.
        destruct (is_stdlib (snd (fst b))); [apply T_unmod|].
        destruct (snd b) eqn:Eb.
        + tbind (apply T_attempt; apply T_get_value; assumption) as r Hr.
          destruct r as [result|e]; [|apply T_ret; split; [exact I|exact Hr]].
          apply T_resolve_function; assumption.
        + tbind (apply T_attempt; apply T_get_value; assumption) as r Hr.
          destruct r as [result|e]; [|apply T_ret; split; [exact I|exact Hr]].
          tbind (apply T_resolve_function; assumption) as cr Hcr.
          destruct (after_last (sj_off (fst (fst b))) (sj_kids (fst (fst b))) None)
            as [[off' [|k kids']]|] eqn:Eal; try (apply T_ret; exact Hcr).
          assert (Hnew : kids_ok (k :: kids')).
          { eapply after_last_ok; [exact Hb1 | | exact Eal]. intros; discriminate. }
          tbind (apply T_new_root) as nsc Hn. destruct Hn as [Hn _]. cbv zeta.
          destruct Hcr as [Hcr1 Hcr2].
          tbind (apply T_attempt; apply T_set_value; assumption) as ? ?.
          apply IH; assumption.
        + apply T_ret. split; [exact I|exact Hb2].
    Qed.

    Lemma T_eval_identifier st f p n sc is :
      tok n = true -> n_name n = NodeIDENTIFIER -> sc_ok st sc -> is_ok st is ->
      T st (eval_identifier ev f p n sc is) Qval.
    Proof.
      intros Ht Hn Hs Hi. unfold eval_identifier.
      tbind (apply T_resolve; [apply ident_sj_ok|..]; assumption) as cr Hcr. destruct Hcr as [H1 H2].
      destruct (snd cr); [apply T_fail; apply with_acc_ok; assumption | apply T_ret; exact H1].
    Qed.
    Lemma T_ident_set st f p n sc is v :
      tok n = true -> n_name n = NodeIDENTIFIER -> val_ok st v -> sc_ok st sc -> is_ok st is ->
      T st (ident_set ev f p n sc is v) Qtrue.
    Proof.
      intros Ht Hn Hv Hs Hi. unfold ident_set.
      destruct (n_children n) eqn:Ek; [apply T_set_value; assumption|].
      tbind (apply T_build; [apply ident_sj_ok|..]; assumption) as b Hb. destruct Hb as [Hb1 Hb2].
      destruct (snd b); [apply T_set_value; assumption | apply T_fail; exact I | apply T_fail; exact Hb2].
    Qed.
  End WithEv.
End I6.
