(* Proofs/ParserProofs.v — lemmas about Model/Parser.v (repaired variant):
   the result invariant of every parser function, proved once by induction on the nesting
   fuel: a call either returns an error positioned at an input token (or the zero position),
   or a well-formed node and a state whose current node is not nil and whose remaining input
   is a suffix of the input at the start; never a panic; never out of fuel when the fuel
   exceeds the number of remaining tokens. *)
From Coq Require Import List String Bool Arith Lia ZArith.
From Ecal Require Import Common.Bytes Common.Ast gen.Tokens gen.Grammar Spec.ParseSpec Model.Parser.
Import ListNotations.
Local Open Scope string_scope.
Local Open Scope nat_scope.
Local Open Scope list_scope.

Notation V := repaired.

(* ------------------------------------------------------------------------------------ *)
(* the table: what the proofs need from parser.astNodeMap, checked by computation on the
   generated table *)

Definition nd_known : list string :=
  [""; "ndTerm"; "ndInner"; "ndPrefix"; "ndIdentifier"; "ndList"; "ndMap"; "ndImport"; "ndSkink";
   "ndFunc"; "ndReturn"; "ndGuard"; "ndLoop"; "ndTry"; "ndMutex"].

(* null denotation -> kind of the node it returns *)
Definition nd_names : list (string * string) :=
  [("ndIdentifier", "identifier"); ("ndImport", "import"); ("ndSkink", "sink"); ("ndFunc", "function");
   ("ndReturn", "return"); ("ndGuard", "if"); ("ndLoop", "loop"); ("ndTry", "try"); ("ndMutex", "mutex")].

(* token -> kind of the node made from it *)
Definition tok_names : list (nat * string) :=
  [(TokenIDENTIFIER, "identifier"); (TokenSTRING, "string"); (TokenAS, "as"); (TokenEXCEPT, "except");
   (TokenOTHERWISE, "otherwise"); (TokenFINALLY, "finally"); (TokenIN, "in")].

Definition compat (e : grammar_entry) : bool :=
  mem (ge_null e) nd_known &&
  mem (ge_left e) [""; "ldInfix"] &&
  implb (String.eqb (ge_null e) "ndTerm") ((ge_token e =? TokenEOF) || mem (ge_name e) leaf_kinds) &&
  implb (String.eqb (ge_null e) "ndPrefix") (mem (ge_name e) unary_kinds || mem (ge_name e) sign_kinds) &&
  implb (String.eqb (ge_left e) "ldInfix") (mem (ge_name e) binary_kinds || mem (ge_name e) sign_kinds) &&
  forallb (fun p => implb (String.eqb (ge_null e) (fst p)) (String.eqb (ge_name e) (snd p))) nd_names &&
  forallb (fun p => implb (ge_token e =? fst p) (String.eqb (ge_name e) (snd p))) tok_names &&
  implb (mem (ge_null e) ["ndList"; "ndMap"]) (negb (ge_token e =? TokenIN)).

Lemma table_compat : forallb compat grammar_table = true.
Proof. vm_compute. reflexivity. Qed.

Lemma guard_brace_compat : compat (guard_brace_entry V) = true.
Proof. vm_compute. reflexivity. Qed.

Lemma cname_statements : cname TokenSTATEMENTS = "statements". Proof. reflexivity. Qed.
Lemma cname_funccall : cname TokenFUNCCALL = "funccall". Proof. reflexivity. Qed.
Lemma cname_compaccess : cname TokenCOMPACCESS = "compaccess". Proof. reflexivity. Qed.
Lemma cname_list : cname TokenLIST = "list". Proof. reflexivity. Qed.
Lemma cname_map : cname TokenMAP = "map". Proof. reflexivity. Qed.
Lemma cname_params : cname TokenPARAMS = "params". Proof. reflexivity. Qed.
Lemma cname_guard : cname TokenGUARD = "guard". Proof. reflexivity. Qed.
Lemma cname_true : cname TokenTRUE = "true". Proof. reflexivity. Qed.

Lemma mem_In x l : mem x l = true <-> In x l.
Proof.
  unfold mem. rewrite existsb_exists. split.
  - intros [y [Hy He]]. apply String.eqb_eq in He. subst. exact Hy.
  - intros H. exists x. split; [exact H | apply String.eqb_refl].
Qed.

Record Compat (e : grammar_entry) : Prop := {
  c_null : In (ge_null e) nd_known;
  c_left : ge_left e = "" \/ ge_left e = "ldInfix";
  c_term : ge_null e = "ndTerm" -> ge_token e = TokenEOF \/ mem (ge_name e) leaf_kinds = true;
  c_prefix : ge_null e = "ndPrefix" -> mem (ge_name e) unary_kinds = true \/ mem (ge_name e) sign_kinds = true;
  c_infix : ge_left e = "ldInfix" -> mem (ge_name e) binary_kinds = true \/ mem (ge_name e) sign_kinds = true;
  c_nd : forall nd nm, In (nd, nm) nd_names -> ge_null e = nd -> ge_name e = nm;
  c_tk : forall id nm, In (id, nm) tok_names -> ge_token e = id -> ge_name e = nm;
  c_coll : ge_null e = "ndList" \/ ge_null e = "ndMap" -> ge_token e <> TokenIN
}.

Lemma compat_spec e : compat e = true -> Compat e.
Proof.
  unfold compat. rewrite !andb_true_iff.
  intros [[[[[[[H1 H2] H3] H4] H5] H6] H7] H8].
  constructor.
  - apply mem_In; exact H1.
  - apply mem_In in H2. simpl in H2. destruct H2 as [H2|[H2|[]]]; auto.
  - intros Hx. rewrite Hx in H3. simpl in H3. apply orb_true_iff in H3.
    destruct H3 as [H3|H3]; [left; apply Nat.eqb_eq; exact H3 | right; exact H3].
  - intros Hx. rewrite Hx in H4. simpl in H4. apply orb_true_iff in H4. exact H4.
  - intros Hx. rewrite Hx in H5. simpl in H5. apply orb_true_iff in H5. exact H5.
  - intros nd nm Hin Hx. rewrite forallb_forall in H6. specialize (H6 _ Hin). simpl in H6.
    rewrite Hx, String.eqb_refl in H6. simpl in H6. apply String.eqb_eq; exact H6.
  - intros id nm Hin Hx. rewrite forallb_forall in H7. specialize (H7 _ Hin). simpl in H7.
    rewrite Hx, Nat.eqb_refl in H7. simpl in H7. apply String.eqb_eq; exact H7.
  - intros Hx Ht. rewrite Ht in H8. simpl in H8.
    destruct Hx as [Hx|Hx]; rewrite Hx in H8; simpl in H8; discriminate.
Qed.

Lemma lookup_entry_ok id e : lookup_entry id = Some e -> ge_token e = id /\ compat e = true.
Proof.
  unfold lookup_entry. intros H. apply find_some in H. destruct H as [Hin He].
  apply Nat.eqb_eq in He. split; [exact He|].
  pose proof table_compat as T. rewrite forallb_forall in T. apply T; exact Hin.
Qed.

(* ------------------------------------------------------------------------------------ *)
(* states *)

Definition pos_of (t : tok) : nat * Z := (t_line t, t_pos t).

Definition curtok (s : pst) : list tok := match cur s with Some (t, _) => [t] | None => [] end.

(* the current node's token and everything after it *)
Definition alltoks (s : pst) : list tok := curtok s ++ toks s.

(* s' is reached from s by consuming tokens only *)
Definition ext (s s' : pst) : Prop := exists pre, alltoks s = pre ++ alltoks s'.

(* the lexer's guarantee: an EOF token is the last token *)
Definition eof_last (l : list tok) : Prop :=
  forall pre t post, l = pre ++ t :: post -> t_id t = TokenEOF -> post = [].

Definition cnode_ok (c : cnode) : Prop := ge_token (snd c) = t_id (fst c) /\ compat (snd c) = true.

Definition good (s : pst) : Prop := exists c, cur s = Some c /\ cnode_ok c.

Definition inv (s : pst) : Prop := good s /\ eof_last (alltoks s).

Definition err_ok (e : perr) (s : pst) : Prop :=
  In (e_line e, e_pos e) ((0, 0%Z) :: map pos_of (alltoks s)).

Definition step (s s' : pst) : Prop :=
  inv s' /\ ext s s' /\ List.length (toks s') <= List.length (toks s).

Lemma ext_refl s : ext s s.
Proof. exists []. reflexivity. Qed.

Lemma ext_trans a b c : ext a b -> ext b c -> ext a c.
Proof. intros [p Hp] [q Hq]. exists (p ++ q). rewrite Hp, Hq, app_assoc. reflexivity. Qed.

Lemma eof_last_suffix pre l : eof_last (pre ++ l) -> eof_last l.
Proof.
  intros H p t post E Ht. apply (H (pre ++ p) t post); [|exact Ht].
  rewrite E, app_assoc. reflexivity.
Qed.

Lemma eof_last_ext s s' : ext s s' -> eof_last (alltoks s) -> eof_last (alltoks s').
Proof. intros [p Hp] H. rewrite Hp in H. eapply eof_last_suffix; exact H. Qed.

Lemma err_ok_ext e s s' : ext s s' -> err_ok e s' -> err_ok e s.
Proof.
  intros [p Hp] H. unfold err_ok in *. destruct H as [H|H]; [left; exact H|right].
  rewrite Hp, map_app. apply in_or_app. right. exact H.
Qed.

Lemma step_refl s : inv s -> step s s.
Proof. intros H. split; [exact H|]. split; [apply ext_refl | lia]. Qed.

Lemma step_trans a b c : step a b -> step b c -> step a c.
Proof.
  intros [_ [E1 L1]] [I2 [E2 L2]]. split; [exact I2|]. split; [eapply ext_trans; eauto | lia].
Qed.

(* ------------------------------------------------------------------------------------ *)
(* the result invariant *)

(* [o] is the state at the very start (errors are positioned at a token of the whole input),
   [s] the state at the call *)
Definition okres {A} (o s : pst) (P : A -> pst -> Prop) (r : res A) : Prop :=
  match r with
  | ROk a s' => step s s' /\ P a s'
  | RErr e _ => err_ok e o
  | RPanic _ => False
  | RFuel => False
  end.

Lemma okres_bind {A B} o s (r : res A) (f : A -> pst -> res B) (P : A -> pst -> Prop) (Q : B -> pst -> Prop) :
  okres o s P r ->
  (forall a s', step s s' -> P a s' -> okres o s' Q (f a s')) ->
  okres o s Q (rbind r f).
Proof.
  destruct r as [a s'|e s'|x|]; simpl; try tauto.
  intros [Hs Hp] H. specialize (H a s' Hs Hp).
  destruct (f a s') as [b s''|e s''|x|]; simpl in *; try tauto.
  destruct H as [Hs' Hq]. split; [eapply step_trans; eauto | exact Hq].
Qed.

Lemma okres_weaken {A} o s (P Q : A -> pst -> Prop) r :
  okres o s P r -> (forall a s', step s s' -> P a s' -> Q a s') -> okres o s Q r.
Proof. destruct r; simpl; try tauto. intros [H1 H2] H. split; auto. Qed.

Lemma okres_ret {A} o s (a : A) (P : A -> pst -> Prop) : inv s -> P a s -> okres o s P (ROk a s).
Proof. intros H1 H2. simpl. split; [apply step_refl; exact H1 | exact H2]. Qed.

Lemma okres_lift {A} o s (P : A -> pst -> Prop) r : ext o s -> okres s s P r -> okres o s P r.
Proof. intros E. destruct r; simpl; try tauto. intros H. eapply err_ok_ext; eauto. Qed.

Lemma err_ok_cur e s t g : cur s = Some (t, g) -> e_line e = t_line t -> e_pos e = t_pos t -> err_ok e s.
Proof.
  intros Hc Hl Hp. unfold err_ok, alltoks, curtok. rewrite Hc. simpl. right. left.
  unfold pos_of. rewrite Hl, Hp. reflexivity.
Qed.

Lemma step_ext o s s' : ext o s -> step s s' -> ext o s'.
Proof. intros E [_ [E' _]]. eapply ext_trans; eauto. Qed.

(* ------------------------------------------------------------------------------------ *)
(* LABuffer.Next and next() *)

Lemma la_next_some s t s' : la_next s = (Some t, s') ->
  toks s = t :: toks s' /\ cur s' = cur s /\ sw s' = sw s.
Proof.
  unfold la_next, toks. destruct (buf s) as [|b r] eqn:Hb; intros H; inversion H; subst; clear H.
  cbn [buf chan cur sw]. split; [|split; reflexivity].
  destruct (chan s); simpl; rewrite <- ?app_assoc; simpl; rewrite ?app_nil_r; reflexivity.
Qed.

Lemma la_next_none s s' : la_next s = (None, s') ->
  toks s' = toks s /\ cur s' = cur s /\ sw s' = sw s.
Proof.
  unfold la_next, toks. destruct (buf s) as [|b r] eqn:Hb; intros H; inversion H; subst; clear H.
  cbn [buf chan cur sw]. split; [|split; reflexivity]. destruct (chan s); reflexivity.
Qed.

Lemma next_token_spec k : forall s, List.length (toks s) < k ->
  match next_token k s with
  | ROk (Some t) s' => (exists cm, toks s = cm ++ t :: toks s') /\ cur s' = cur s /\ sw s' = sw s
  | ROk None s' => cur s' = cur s /\ sw s' = sw s
  | _ => False
  end.
Proof.
  induction k as [|k IH]; intros s Hk; [lia|]. simpl.
  destruct (la_next s) as [[t|] s'] eqn:Hn.
  - apply la_next_some in Hn. destruct Hn as [Ht [Hc Hw]].
    destruct (is_comment t).
    + assert (Hk' : List.length (toks s') < k) by (rewrite Ht in Hk; simpl in Hk; lia).
      specialize (IH s' Hk').
      destruct (next_token k s') as [[t'|] s''|e s''|x|]; try tauto.
      * destruct IH as [[cm Hcm] [Hc' Hw']]. split; [|split; congruence].
        exists (t :: cm). rewrite Ht, Hcm. reflexivity.
      * destruct IH as [Hc' Hw']. split; congruence.
    + split; [exists []; exact Ht | split; assumption].
  - apply la_next_none in Hn. destruct Hn as [_ [Hc Hw]]. split; assumption.
Qed.

(* p.node, err = p.next(): works from any state (p.node may be nil before) *)
Lemma advance_spec s : eof_last (alltoks s) ->
  match advance V s with
  | ROk _ s' => inv s' /\ ext s s' /\ List.length (toks s') < List.length (toks s)
  | RErr e _ => err_ok e s
  | _ => False
  end.
Proof.
  intros Hel. unfold advance, next.
  pose proof (next_token_spec (S (List.length (toks s))) s (Nat.lt_succ_diag_r _)) as H.
  destruct (next_token (S (List.length (toks s))) s) as [[t|] s1|e s1|x|]; simpl; try tauto.
  - destruct H as [[cm Hcm] [Hc Hw]].
    assert (Hin : In t (alltoks s)).
    { unfold alltoks. apply in_or_app. right. rewrite Hcm. apply in_or_app. right. left. reflexivity. }
    assert (Hpos : forall k, err_ok (err_at k t) s).
    { intros k. unfold err_ok. right. apply in_map_iff. exists t. split; [reflexivity | exact Hin]. }
    destruct (t_id t =? TokenError); [apply Hpos|].
    assert (Hext : forall c, alltoks s = (curtok s ++ cm) ++ alltoks (set_cur s1 (Some (t, c)))).
    { intros c. unfold alltoks at 1. rewrite Hcm. unfold alltoks, curtok. simpl.
      rewrite <- !app_assoc. reflexivity. }
    assert (Hlen : List.length (toks s1) < List.length (toks s)).
    { rewrite Hcm, app_length. simpl. lia. }
    unfold entry_for. destruct (sw s1 && (t_id t =? TokenLBRACE)) eqn:Hsw.
    + simpl. split; [|split].
      * split.
        -- exists (t, guard_brace_entry V). split; [reflexivity|]. split; [|apply guard_brace_compat].
           simpl. apply andb_true_iff in Hsw. destruct Hsw as [_ Hsw]. apply Nat.eqb_eq in Hsw. congruence.
        -- rewrite (Hext (guard_brace_entry V)) in Hel. eapply eof_last_suffix; exact Hel.
      * exists (curtok s ++ cm). apply Hext.
      * exact Hlen.
    + destruct (lookup_entry (t_id t)) as [e|] eqn:Hl; simpl; [|apply Hpos].
      apply lookup_entry_ok in Hl. destruct Hl as [Hl1 Hl2].
      split; [|split].
      * split.
        -- exists (t, e). split; [reflexivity|]. split; assumption.
        -- rewrite (Hext e) in Hel. eapply eof_last_suffix; exact Hel.
      * exists (curtok s ++ cm). apply Hext.
      * exact Hlen.
  - unfold err_ok. left. reflexivity.
Qed.

Definition shrinks (s : pst) : unit -> pst -> Prop :=
  fun _ s' => List.length (toks s') < List.length (toks s).

Lemma advance_ok o s : ext o s -> eof_last (alltoks s) -> okres o s (shrinks s) (advance V s).
Proof.
  intros E H. apply okres_lift; [exact E|]. pose proof (advance_spec s H) as A.
  destruct (advance V s) as [u s'|e s'|x|]; simpl; try tauto.
  destruct A as [H1 [H2 H3]]. split; [|exact H3]. split; [exact H1|]. split; [exact H2|lia].
Qed.

Lemma inv_cur s : inv s -> exists t e, cur s = Some (t, e) /\ ge_token e = t_id t /\ Compat e.
Proof.
  intros [[[t e] [Hc [H1 H2]]] _]. exists t, e. split; [exact Hc|]. split; [exact H1|].
  apply compat_spec; exact H2.
Qed.

Lemma skipToken_ok o id s : ext o s -> inv s -> okres o s (shrinks s) (skipToken V id s).
Proof.
  intros E Hi. destruct (inv_cur s Hi) as [t [e [Hc _]]].
  unfold skipToken, with_cur. rewrite Hc.
  destruct (t_id t =? id).
  - apply advance_ok; [exact E | apply Hi].
  - apply okres_lift; [exact E|].
    destruct (t_id t =? TokenEOF); simpl; eapply err_ok_cur; eauto.
Qed.

(* acceptChild: the accepted child is the current node as a leaf, and its token has the id *)
Lemma acceptChild_ok o id s : ext o s -> inv s ->
  okres o s (fun n s' => List.length (toks s') < List.length (toks s) /\
                         exists t e, cur s = Some (t, e) /\ t_id t = id /\ n = mk_node (ge_name e) t [])
        (acceptChild V id s).
Proof.
  intros E Hi. destruct (inv_cur s Hi) as [t [e [Hc _]]].
  unfold acceptChild. rewrite Hc.
  eapply okres_bind; [apply advance_ok; [exact E | apply Hi]|].
  intros u s1 Hs Hl. unfold shrinks in Hl.
  destruct (t_id t =? id) eqn:Eq.
  - apply okres_ret; [apply Hs|]. split; [lia|]. exists t, e. apply Nat.eqb_eq in Eq. auto.
  - simpl. eapply err_ok_ext; [exact E|]. eapply err_ok_cur; eauto.
Qed.
