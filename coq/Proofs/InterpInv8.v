(* Proofs/InterpInv8.v — the invariant through eval_node, eval and run: on a validated tree of
   the parser's shape ([tok]) and an ok state the interpreter model never answers RInvalid,
   and it keeps the state ok. *)
From Coq Require Import List String NArith ZArith Bool Arith Lia.
From Ecal Require Import Common.Bytes Common.Ast gen.Tokens Spec.ParseSpec Model.Interp Proofs.InterpShape
  Proofs.InterpWf Proofs.InterpInv Proofs.InterpInv2 Proofs.InterpInv3 Proofs.InterpInv4 Proofs.InterpInv5
  Proofs.InterpInv6 Proofs.InterpInv7.
Import ListNotations.
Local Open Scope string_scope.
Local Open Scope list_scope.
Local Open Scope nat_scope.

Section I8.
  Context {NO : NumOps}.

  Lemma validate_node_number v i a l cs :
    validate_node (Node NodeNUMBER v i a l cs) =
    match n_parse_lit v with Some _ => VOk | None => VErr EPlain end.
  Proof. reflexivity. Qed.
  Lemma validate_node_map v i a l cs :
    validate_node (Node NodeMAP v i a l cs) =
    if forallb (fun k => is_name k NodeKVP && Nat.eqb (length (n_children k)) 2) cs then VOk
    else VErr (rt_err T_INVCONS).
  Proof. reflexivity. Qed.

  Lemma tok_number n : tok n = true -> n_name n = NodeNUMBER -> exists x, n_parse_lit (n_val n) = Some x.
  Proof.
    intros Ht Hn. pose proof (tok_vnode _ Ht) as Hv. destruct n as [name v i a l cs].
    cbn in Hn. subst name. rewrite validate_node_number in Hv. cbn [n_val].
    destruct (n_parse_lit v); [eauto | discriminate].
  Qed.
  Lemma tok_map n : tok n = true -> n_name n = NodeMAP ->
    forallb (fun k => is_name k NodeKVP && Nat.eqb (length (n_children k)) 2) (n_children n) = true.
  Proof.
    intros Ht Hn. pose proof (tok_vnode _ Ht) as Hv. destruct n as [name v i a l cs].
    cbn in Hn. subst name. rewrite validate_node_map in Hv. cbn [n_children].
    destruct (forallb _ cs); [reflexivity | discriminate].
  Qed.
  Lemma tok_two_len n : tok n = true -> mem (n_name n) two_kinds = true ->
    toks (n_children n) /\ length (n_children n) = 2.
  Proof.
    intros Ht Hm. split; [apply tok_kids; exact Ht|].
    destruct (tok_two n Ht Hm) as (c1 & c2 & -> & _). reflexivity.
  Qed.
  Lemma tok_sign n : tok n = true -> mem (n_name n) ["plus"; "minus"] = true ->
    mem (n_name n) two_kinds = false -> length (n_children n) = 1 \/ length (n_children n) = 2.
  Proof.
    intros Ht Hm Hm2. apply tok_inv in Ht. destruct Ht as (Hs & _). eapply ishape_sign; eauto.
  Qed.
  Lemma tok_not n : tok n = true -> n_name n = NodeNOT -> length (n_children n) = 1.
  Proof.
    intros Ht Hn. apply tok_inv in Ht. destruct Ht as (Hs & _). rewrite Hn in Hs.
    change (ishape NodeNOT (n_children n)) with (length (n_children n) =? 1) in Hs.
    apply Nat.eqb_eq. exact Hs.
  Qed.
  Lemma tok_some_len n : tok n = true -> mem (n_name n) some_kinds = true ->
    mem (n_name n) two_kinds = false -> mem (n_name n) ["plus"; "minus"] = false ->
    String.eqb (n_name n) "not" = false -> 1 <= length (n_children n).
  Proof.
    intros Ht H1 H2 H3 H4. destruct (tok_some n Ht H1 H2 H3 H4) as (c & r & -> & _). cbn. lia.
  Qed.

  Section WithEv.
    Variable ev : evalT.
    Hypothesis Hev : forall p n s i st,
      tok n = true -> sc_ok st s -> is_ok st i -> T st (ev p n s i) Qval.

    Ltac kind tac :=
      match goal with
      | |- T _ (if String.eqb (n_name ?n) ?K then _ else _) _ =>
        let E := fresh "E" in
        destruct (String.eqb (n_name n) K) eqn:E; [apply String.eqb_eq in E; tac | clear E]
      end.
    Ltac two := apply tok_two_len; [assumption | match goal with E : n_name _ = _ |- _ => rewrite E; reflexivity end].

    Lemma T_eval_node st f p n s i :
      tok n = true -> sc_ok st s -> is_ok st i -> T st (eval_node ev f p n s i) Qval.
    Proof.
      intros Ht Hs Hi. unfold eval_node. cbv beta zeta.
      pose proof (tok_kids _ Ht) as Hk.
      kind ltac:(destruct (tok_number n Ht E) as [x ->]; apply T_ret; exact I).
      kind ltac:(apply T_lift; unfold eval_string; destruct (n_allow_esc n); [|exact I];
                 destruct (find_sub _ (n_val n)) as [[? post]|]; [|exact I];
                 destruct (find_sub _ post); exact I).
      kind ltac:(apply T_ret; exact I).
      kind ltac:(apply T_ret; exact I).
      kind ltac:(apply T_ret; exact I).
      kind ltac:(apply (T_eval_identifier ev Hev); assumption).
      kind ltac:(apply (T_eval_list ev Hev); assumption).
      kind ltac:(apply (T_eval_map ev Hev); try assumption; apply tok_map; assumption).
      kind ltac:(destruct (tok_sign n Ht) as [Hl|Hl]; try (rewrite E; reflexivity);
                 destruct (n_children n) as [|c1 [|c2 [|? ?]]]; try discriminate Hl;
                 [apply (T_num_val ev Hev); assumption
                 |apply (T_num_op ev Hev); try assumption; intros; apply T_ret; exact I]).
      kind ltac:(destruct (tok_sign n Ht) as [Hl|Hl]; try (rewrite E; reflexivity);
                 destruct (n_children n) as [|c1 [|c2 [|? ?]]]; try discriminate Hl;
                 [apply (T_num_val ev Hev); assumption
                 |apply (T_num_op ev Hev); try assumption; intros; apply T_ret; exact I]).
      kind ltac:(apply (T_num_op ev Hev); try assumption; try (intros; apply T_ret; exact I); two).
      kind ltac:(apply (T_num_op ev Hev); try assumption; try (intros; apply T_ret; exact I); two).
      kind ltac:(apply (T_num_op ev Hev); try assumption; try (intros; apply T_ret; exact I); two).
      kind ltac:(apply (T_mod_op ev Hev); try assumption; two).
      kind ltac:(apply (T_cmp_op ev Hev); try assumption; two).
      kind ltac:(apply (T_cmp_op ev Hev); try assumption; two).
      kind ltac:(apply (T_cmp_op ev Hev); try assumption; two).
      kind ltac:(apply (T_cmp_op ev Hev); try assumption; two).
      kind ltac:(apply (T_gen_op ev Hev); try assumption; two).
      kind ltac:(apply (T_gen_op ev Hev); try assumption; two).
      kind ltac:(apply (T_bool_op ev Hev); try assumption; two).
      kind ltac:(apply (T_bool_op ev Hev); try assumption; two).
      kind ltac:(apply (T_bool_val ev Hev); try assumption; apply tok_not; assumption).
      kind ltac:(apply (T_in_op ev Hev); try assumption; two).
      kind ltac:(apply (T_notin_op ev Hev); try assumption; two).
      kind ltac:(apply (T_str_op ev Hev); try assumption; two).
      kind ltac:(apply (T_str_op ev Hev); try assumption; two).
      kind ltac:(eapply T_bind; [apply (T_operands2 ev Hev); try assumption; two | intros; apply T_unmod]).
      kind ltac:(apply (T_eval_assign ev Hev); assumption).
      kind ltac:(apply (T_eval_let ev Hev); assumption).
      kind ltac:(apply (T_eval_statements ev Hev); try assumption; exact I).
      kind ltac:(apply (T_eval_if ev Hev); try assumption; apply tok_if; assumption).
      kind ltac:(apply (T_eval_guard ev Hev); try assumption;
                 apply tok_some_len; try assumption; rewrite E; reflexivity).
      kind ltac:(apply (T_eval_loop ev Hev); assumption).
      kind ltac:(apply T_fail; exact I).
      kind ltac:(apply T_fail; exact I).
      kind ltac:(apply (T_eval_return ev Hev); assumption).
      kind ltac:(apply (T_eval_try ev Hev); assumption).
      kind ltac:(apply T_eval_func; assumption).
      kind ltac:(apply (T_eval_mutex ev Hev); try assumption; two).
      destruct (existsb _ void_kinds); [apply T_ret; exact I|].
      destruct (existsb _ unmodelled_kinds); [apply T_unmod | apply T_fail; exact I].
    Qed.
  End WithEv.

  Theorem T_eval : forall fuel p n s i st,
    tok n = true -> sc_ok st s -> is_ok st i -> T st (eval fuel p n s i) Qval.
  Proof.
    induction fuel as [|f IH]; intros p n s i st Ht Hs Hi; cbn [eval]; [apply T_fuel|].
    apply T_eval_node; assumption.
  Qed.

  Lemma init_state_ok : st_ok init_state.
  Proof.
    unfold st_ok, init_state. cbn. split; [|split; [|split]].
    - intros i sc H. destruct i as [|[|i]]; cbn in H; try discriminate. injection H as <-.
      split; [exact I | constructor].
    - intros a cells H. destruct a; discriminate.
    - intros id m H. destruct id; discriminate.
    - intros id c H. destruct id; discriminate.
  Qed.

  (* Stage 3 in plain words: from an ok state, on a validated tree of the parser's shape, in an
     allocated scope: never RInvalid, the state stays ok and only grows, the value is ok *)
  Theorem eval_inv : forall fuel p n s i st,
    tok n = true -> st_ok st -> sc_ok st s -> is_ok st i ->
    st_ok (snd (eval fuel p n s i st)) /\ st_le st (snd (eval fuel p n s i st)) /\
    (forall w, fst (eval fuel p n s i st) <> RInvalid w) /\
    (forall v, fst (eval fuel p n s i st) = ROk v -> val_ok (snd (eval fuel p n s i st)) v).
  Proof.
    intros fuel p n s i st Ht Hok Hs Hi. destruct (T_eval fuel p n s i st Ht Hs Hi Hok) as (H1 & H2 & H3).
    split; [exact H1|split; [exact H2|split]].
    - intros w E. rewrite E in H3. exact H3.
    - intros v E. rewrite E in H3. exact H3.
  Qed.

  (* the decidable hypothesis the interpreter really needs: weaker than wf *)
  Theorem run_never_invalid_shape : forall fuel t,
    interp_shape t = true -> forall w, fst (run fuel t) <> RInvalid w.
  Proof.
    intros fuel t Hsh w. unfold run. destruct (validate t) eqn:Ev; cbn [fst]; try discriminate.
    - apply (T_run init_state (eval fuel [] t 0 0) Qval); [|exact init_state_ok].
      apply T_eval; [apply tok_of_shape_validate; assumption | |]; unfold sc_ok, is_ok; cbn; lia.
    - exfalso. eapply validate_not_invalid; eauto.
  Qed.
  Theorem run_never_invalid : forall fuel t, wf t -> forall w, fst (run fuel t) <> RInvalid w.
  Proof. intros fuel t Hwf. apply run_never_invalid_shape. apply wf_interp_shape. exact Hwf. Qed.

  Theorem run_state_ok : forall fuel t, wf t -> st_ok (snd (run fuel t)).
  Proof.
    intros fuel t Hwf. unfold run. destruct (validate t) eqn:Ev; cbn [snd]; try exact init_state_ok.
    apply eval_inv; [apply wf_validate_tok; assumption | exact init_state_ok | |];
      unfold sc_ok, is_ok; cbn; lia.
  Qed.
End I8.
Print Assumptions run_never_invalid.
Print Assumptions eval_inv.
