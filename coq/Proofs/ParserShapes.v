(* Proofs/ParserShapes.v — how well-formed nodes are assembled: one lemma per node kind the
   parser model builds (Spec/ParseSpec.v [wfb] / [shape_ok]). *)
From Coq Require Import List String Bool Arith Lia.
From Ecal Require Import Common.Bytes Common.Ast gen.Tokens gen.Grammar Spec.ParseSpec Model.Parser.
Import ListNotations.
Local Open Scope string_scope.
Local Open Scope nat_scope.
Local Open Scope list_scope.

Lemma shape_nth name kids k : nth k (shapes name kids) false = true -> shape_ok name kids = true.
Proof.
  intros H. unfold shape_ok. apply existsb_exists. exists (nth k (shapes name kids) false).
  split; [|exact H].
  destruct (lt_dec k (List.length (shapes name kids))) as [L|L].
  - apply nth_In; exact L.
  - rewrite nth_overflow in H by lia. discriminate.
Qed.

Lemma wfb_node name v i a l cs :
  shape_ok name (map n_name cs) = true -> Forall wf cs -> wfb (Node name v i a l cs) = true.
Proof.
  intros H1 H2. simpl. rewrite H1. simpl. apply forallb_forall. rewrite Forall_forall in H2. exact H2.
Qed.

Lemma wf_mk name t cs : shape_ok name (map n_name cs) = true -> Forall wf cs -> wf (mk_node name t cs).
Proof. intros. unfold wf, mk_node. apply wfb_node; assumption. Qed.

Lemma wf_constructed id cs :
  shape_ok (cname id) (map n_name cs) = true -> Forall wf cs -> wf (constructed id cs).
Proof. intros. unfold wf, constructed. apply wfb_node; assumption. Qed.

Lemma n_name_mk name t cs : n_name (mk_node name t cs) = name.
Proof. reflexivity. Qed.

Lemma n_name_constructed id cs : n_name (constructed id cs) = cname id.
Proof. reflexivity. Qed.

Lemma n_line_mk name t cs : n_line (mk_node name t cs) = t_line t.
Proof. reflexivity. Qed.

(* ---- kinds taken from the table ---------------------------------------------------- *)

Lemma shape_leaf name : mem name leaf_kinds = true -> shape_ok name [] = true.
Proof. intros H. apply (shape_nth _ _ 0). cbn [nth shapes]. rewrite H. reflexivity. Qed.

Lemma shape_prefix name k :
  mem name unary_kinds = true \/ mem name sign_kinds = true -> shape_ok name [k] = true.
Proof.
  intros [H|H].
  - apply (shape_nth _ _ 1). cbn [nth shapes]. rewrite H. reflexivity.
  - apply (shape_nth _ _ 2). cbn [nth shapes]. rewrite H. reflexivity.
Qed.

Lemma shape_infix name k1 k2 :
  mem name binary_kinds = true \/ mem name sign_kinds = true -> shape_ok name [k1; k2] = true.
Proof.
  intros [H|H].
  - apply (shape_nth _ _ 3). cbn [nth shapes]. rewrite H. reflexivity.
  - apply (shape_nth _ _ 2). cbn [nth shapes]. rewrite H. reflexivity.
Qed.

(* ---- sequences --------------------------------------------------------------------- *)

Lemma shape_seq name ks : mem name seq_kinds = true -> shape_ok name ks = true.
Proof. intros H. apply (shape_nth _ _ 4). cbn [nth shapes]. exact H. Qed.

Lemma wf_seq id cs : mem (cname id) seq_kinds = true -> Forall wf cs -> wf (constructed id cs).
Proof. intros H1 H2. apply wf_constructed; [apply shape_seq; exact H1 | exact H2]. Qed.

Lemma wf_statements cs : Forall wf cs -> wf (constructed TokenSTATEMENTS cs).
Proof. apply wf_seq. reflexivity. Qed.
Lemma wf_funccall cs : Forall wf cs -> wf (constructed TokenFUNCCALL cs).
Proof. apply wf_seq. reflexivity. Qed.
Lemma wf_params cs : Forall wf cs -> wf (constructed TokenPARAMS cs).
Proof. apply wf_seq. reflexivity. Qed.

Lemma wf_collection kind t cs :
  mem (cname kind) seq_kinds = true -> Forall wf cs -> wf (mk_node (cname kind) t cs).
Proof. intros H1 H2. apply wf_mk; [apply shape_seq; exact H1 | exact H2]. Qed.

Lemma wf_compaccess x : wf x -> wf (constructed TokenCOMPACCESS [x]).
Proof.
  intros H. apply wf_constructed; [|constructor; [exact H|constructor]].
  apply (shape_nth _ _ 6). reflexivity.
Qed.

Lemma wf_guard x : wf x -> wf (constructed TokenGUARD [x]).
Proof.
  intros H. apply wf_constructed; [|constructor; [exact H|constructor]].
  apply (shape_nth _ _ 7). reflexivity.
Qed.

Lemma wf_true_leaf : wf (constructed TokenTRUE []).
Proof. reflexivity. Qed.

(* ---- identifiers ------------------------------------------------------------------- *)

Lemma shape_identifier ks : ident_kids ks = true -> shape_ok "identifier" ks = true.
Proof. intros H. apply (shape_nth _ _ 5). cbn [nth shapes]. rewrite H. reflexivity. Qed.

Lemma ident_kids_access k r :
  mem k ["funccall"; "compaccess"] = true -> ident_kids r = true -> ident_kids (k :: r) = true.
Proof. intros H1 H2. unfold ident_kids in *. cbn [drop_accesses]. rewrite H1. exact H2. Qed.

(* ---- fixed shapes ------------------------------------------------------------------ *)

Lemma shape_import : shape_ok "import" ["string"; "identifier"] = true.
Proof. reflexivity. Qed.
Lemma shape_function2 : shape_ok "function" ["params"; "statements"] = true.
Proof. reflexivity. Qed.
Lemma shape_function3 : shape_ok "function" ["identifier"; "params"; "statements"] = true.
Proof. reflexivity. Qed.
Lemma shape_return0 : shape_ok "return" [] = true.
Proof. reflexivity. Qed.
Lemma shape_return1 k : shape_ok "return" [k] = true.
Proof. apply (shape_nth _ _ 11). reflexivity. Qed.
Lemma shape_loop_guard : shape_ok "loop" ["guard"; "statements"] = true.
Proof. reflexivity. Qed.
Lemma shape_loop_in : shape_ok "loop" ["in"; "statements"] = true.
Proof. reflexivity. Qed.
Lemma shape_as : shape_ok "as" ["identifier"] = true.
Proof. reflexivity. Qed.
Lemma shape_otherwise : shape_ok "otherwise" ["statements"] = true.
Proof. reflexivity. Qed.
Lemma shape_finally : shape_ok "finally" ["statements"] = true.
Proof. reflexivity. Qed.
Lemma shape_mutex : shape_ok "mutex" ["identifier"; "statements"] = true.
Proof. reflexivity. Qed.

(* ---- sink -------------------------------------------------------------------------- *)

Lemma shape_sink ks : shape_ok "sink" ("identifier" :: ks ++ ["statements"]) = true.
Proof.
  apply (shape_nth _ _ 9). cbn [nth shapes]. unfold sink_kids.
  rewrite rev_app_distr. reflexivity.
Qed.

(* ---- if ---------------------------------------------------------------------------- *)

Lemma guard_pairs_app : forall a b, guard_pairs a = true -> guard_pairs (a ++ b) = guard_pairs b.
Proof.
  fix IH 1. intros a b. destruct a as [|g [|s r]]; simpl; intros H.
  - reflexivity.
  - discriminate.
  - apply andb_true_iff in H. destruct H as [H1 H2]. rewrite H1. simpl. apply IH. exact H2.
Qed.

Lemma shape_if ks : ks <> [] -> guard_pairs ks = true -> shape_ok "if" ks = true.
Proof.
  intros Hne H. apply (shape_nth _ _ 12). cbn [nth shapes]. rewrite H.
  destruct ks; [congruence|]. reflexivity.
Qed.

(* ---- try / except ------------------------------------------------------------------ *)

Lemma drop_kind_all kind l r :
  Forall (fun k => k = kind) l -> drop_kind kind (l ++ r) = drop_kind kind r.
Proof.
  induction 1 as [|x l Hx _ IH]; [reflexivity|]. simpl. subst x. rewrite String.eqb_refl. exact IH.
Qed.

Lemma shape_try exs tail :
  Forall (fun k => k = "except") exs ->
  In tail [[]; ["otherwise"]; ["finally"]; ["otherwise"; "finally"]] ->
  shape_ok "try" ("statements" :: exs ++ tail) = true.
Proof.
  intros H1 H2. apply (shape_nth _ _ 14). cbn [nth shapes]. unfold try_tail.
  rewrite (drop_kind_all _ _ _ H1).
  simpl in H2. destruct H2 as [<-|[<-|[<-|[<-|[]]]]]; reflexivity.
Qed.

Lemma shape_except strs tail :
  Forall (fun k => k = "string") strs ->
  In tail [["statements"]; ["as"; "statements"]; ["identifier"; "statements"]] ->
  shape_ok "except" (strs ++ tail) = true.
Proof.
  intros H1 H2. apply (shape_nth _ _ 15). cbn [nth shapes]. unfold except_kids.
  rewrite (drop_kind_all _ _ _ H1).
  simpl in H2. destruct H2 as [<-|[<-|[<-|[]]]]; reflexivity.
Qed.

Lemma Forall_app_intro {A} (P : A -> Prop) l1 l2 : Forall P l1 -> Forall P l2 -> Forall P (l1 ++ l2).
Proof. intros. apply Forall_app. split; assumption. Qed.

Lemma Forall_snoc {A} (P : A -> Prop) l x : Forall P l -> P x -> Forall P (l ++ [x]).
Proof. intros. apply Forall_app_intro; [assumption | constructor; [assumption | constructor]]. Qed.
