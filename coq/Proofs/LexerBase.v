(* Proofs/LexerBase.v — ground work for the lexer proofs: line/column arithmetic of the
   Spec, newline faithfulness of the UTF-8 decoder, the contract of next/backup/slice. *)
From Coq Require Import ZArith Lia ZifyBool ZifyN ZifyNat.
From Ecal Require Import Common.Bytes Common.Outcome Model.Lexer Spec.PositionSpec.
Open Scope nat_scope.

(* ------------------------------------------------------------------ lists *)
Lemma skipn_cons_nth (s : bytes) k : k < length s -> skipn k s = nth k s 0%N :: skipn (S k) s.
Proof.
  revert k; induction s as [|b s IH]; intros k H; simpl in H; [lia|].
  destruct k; [reflexivity|]. simpl. apply IH. lia.
Qed.

Lemma nth_skipn (s : bytes) k i : nth i (skipn k s) 0%N = nth (k + i) s 0%N.
Proof.
  revert k; induction s as [|b s IH]; intros k.
  - rewrite skipn_nil. destruct i, k; reflexivity.
  - destruct k; [reflexivity|]. simpl. apply IH.
Qed.

Lemma skipn_nonempty (s : bytes) k : k < length s -> skipn k s <> [].
Proof. intros H E. rewrite (skipn_cons_nth s k H) in E. discriminate. Qed.

(* ------------------------------------------------------------------ Spec arithmetic *)
Definition no_nl (input : bytes) (a b : nat) : Prop :=
  forall i, a <= i < b -> nth i input 0%N <> NL.

Lemma no_nl_same input a b :
  a <= b -> no_nl input a b -> nl_count input b = nl_count input a /\ nl_last input b = nl_last input a.
Proof.
  induction b as [|b IH]; intros Hab Hn.
  - assert (a = 0) by lia. subst. auto.
  - destruct (Nat.eq_dec a (S b)) as [->|Hne]; [auto|].
    assert (Hb : nth b input 0%N <> NL) by (apply Hn; lia).
    apply N.eqb_neq in Hb. simpl. rewrite Hb. apply IH; [lia|].
    intros i Hi. apply Hn. lia.
Qed.

Lemma no_nl_empty input a : no_nl input a a.
Proof. intros i Hi. lia. Qed.

Lemma no_nl_app input a b c : no_nl input a b -> no_nl input b c -> no_nl input a c.
Proof. intros H1 H2 i Hi. destruct (Nat.lt_ge_cases i b); [apply H1 | apply H2]; lia. Qed.

Lemma no_nl_sub input a b a' b' : no_nl input a b -> a <= a' -> b' <= b -> no_nl input a' b'.
Proof. intros H Ha Hb i Hi. apply H. lia. Qed.

Lemma nl_step_nl input p : nth p input 0%N = NL ->
  nl_count input (S p) = S (nl_count input p) /\ nl_last input (S p) = S p.
Proof. intros H. simpl. rewrite H. auto. Qed.

Lemma walk_spec input : forall n k, k + n <= length input ->
  walk (skipn k input) n (1 + Z.of_nat (nl_count input k))%Z
       (1 + Z.of_nat k - Z.of_nat (nl_last input k))%Z = linecol input (k + n).
Proof.
  induction n as [|n IH]; intros k H.
  - rewrite Nat.add_0_r. destruct (skipn k input); reflexivity.
  - rewrite (skipn_cons_nth input k) by lia. cbn [walk].
    replace (k + S n) with (S k + n) by lia.
    destruct (N.eqb_spec (nth k input 0%N) NL) as [E|E].
    + rewrite <- IH by lia. destruct (nl_step_nl input k E) as [-> ->]. f_equal; lia.
    + rewrite <- IH by lia. simpl nl_count. simpl nl_last.
      apply N.eqb_neq in E. rewrite E. f_equal; lia.
Qed.

Lemma linecol_walk_eq input off : off <= length input -> linecol_walk input off = linecol input off.
Proof. intros H. apply (walk_spec input off 0). simpl. exact H. Qed.

Lemma nl_last_le input p : nl_last input p <= p.
Proof. induction p; simpl; [lia|]. destruct (_ =? _)%N; lia. Qed.

(* ------------------------------------------------------------------ UTF-8 decoder *)
Definition dec_ok (s : bytes) (r : rune) (w : nat) : Prop :=
  1 <= w <= length s /\ (0 <= r)%Z
  /\ (r = 10%Z -> w = 1)
  /\ (r <> 10%Z -> forall i, i < w -> nth i s 0%N <> NL)
  /\ ((r < 128)%Z -> w = 1 /\ nth 0 s 0%N = Z.to_N r).

Lemma decode_ok s : s <> [] -> dec_ok s (fst (decode_rune s)) (snd (decode_rune s)).
Proof.
  destruct s as [|b0 t]; [congruence|]. intros _. unfold decode_rune, cont, dec_ok, RuneError, NL.
  destruct (b0 <? 128)%N eqn:H1.
  { cbn [fst snd length nth]. repeat split; try lia. intros Hr i Hi. destruct i; [cbn [nth]; lia|lia]. }
  destruct ((194 <=? b0) && (b0 <=? 223))%N eqn:H2.
  { destruct t as [|b1 t]; [|destruct ((128 <=? b1) && (b1 <=? 191))%N eqn:H3];
    cbn [fst snd length nth]; (repeat split; try lia); intros Hr i Hi;
    do 2 (destruct i as [|i]; [cbn [nth]; lia|]); lia. }
  destruct ((224 <=? b0) && (b0 <=? 239))%N eqn:H3.
  { destruct t as [|b1 [|b2 t]];
    [| |destruct (b0 =? 224)%N eqn:H4; destruct (b0 =? 237)%N eqn:H5;
        match goal with |- context [if ?c then _ else _] => destruct c eqn:H6 end];
    cbn [fst snd length nth]; (repeat split; try lia); intros Hr i Hi;
    do 3 (destruct i as [|i]; [cbn [nth]; lia|]); lia. }
  destruct ((240 <=? b0) && (b0 <=? 244))%N eqn:H4.
  { destruct t as [|b1 [|b2 [|b3 t]]];
    [| | |destruct (b0 =? 240)%N eqn:H5; destruct (b0 =? 244)%N eqn:H6;
          match goal with |- context [if ?c then _ else _] => destruct c eqn:H7 end];
    cbn [fst snd length nth]; (repeat split; try lia); intros Hr i Hi;
    do 4 (destruct i as [|i]; [cbn [nth]; lia|]); lia. }
  cbn [fst snd length nth]. (repeat split; try lia). intros Hr i Hi.
  destruct i; [cbn [nth]; lia|lia].
Qed.

(* ------------------------------------------------------------------ next / backup / slice *)
Definition frame (l l' : lexer) : Prop :=
  l_line l' = l_line l /\ l_lastnl l' = l_lastnl l /\ l_skipped l' = l_skipped l
  /\ l_start l' = l_start l /\ l_out l' = l_out l.

Lemma frame_refl l : frame l l.
Proof. repeat split. Qed.

Lemma frame_trans a b c : frame a b -> frame b c -> frame a c.
Proof. unfold frame. intuition congruence. Qed.

Section Base.
  Variable input : bytes.
  Notation len := (length input).

  (* reading at offset p gave rune r of width w *)
  Definition adv_ok (p : nat) (r : rune) (w : nat) : Prop :=
    p < len /\ 1 <= w /\ p + w <= len /\ (0 <= r)%Z
    /\ (r = 10%Z -> w = 1 /\ nth p input 0%N = NL)
    /\ (r <> 10%Z -> no_nl input p (p + w))
    /\ ((r < 128)%Z -> w = 1 /\ nth p input 0%N = Z.to_N r)
    /\ peek_at input p 1 = r.

  (* (r, l) is what l.next(0) returned when called at offset p *)
  Definition Hd (p : nat) (r : rune) (l : lexer) : Prop :=
    (len <= p /\ r = RuneEOF /\ l_pos l = p) \/ (adv_ok p r (l_width l) /\ l_pos l = p + l_width l).

  Lemma decode_adv p : p < len ->
    adv_ok p (fst (decode_rune (skipn p input))) (snd (decode_rune (skipn p input))).
  Proof.
    intros Hp. pose proof (decode_ok _ (skipn_nonempty input p Hp)) as D.
    destruct (decode_rune (skipn p input)) as [r w] eqn:E. cbn [fst snd] in *.
    destruct D as (Hw & Hr & H10 & Hn & Ha). rewrite skipn_length in Hw.
    unfold adv_ok. split; [lia|]. split; [lia|]. split; [lia|]. split; [lia|].
    split; [|split; [|split]].
    - intros ->. destruct Ha as [Hw1 Ha]; [lia|]. rewrite nth_skipn, Nat.add_0_r in Ha. split; [lia|exact Ha].
    - intros Hne i Hi. specialize (Hn Hne (i - p)). rewrite nth_skipn in Hn.
      replace (p + (i - p)) with i in Hn by lia. apply Hn. lia.
    - intros Hlt. destruct (Ha Hlt) as [Hw1 H0]. rewrite nth_skipn, Nat.add_0_r in H0. split; [lia|exact H0].
    - unfold peek_at, ilen. destruct (Nat.leb_spec len p); [lia|]. cbn [Nat.sub]. rewrite Nat.add_0_r, E. reflexivity.
  Qed.

  Lemma next0_Hd l :
    Hd (l_pos l) (fst (next0 input l)) (snd (next0 input l)) /\ frame l (snd (next0 input l)).
  Proof.
    unfold next0, ilen. destruct (Nat.leb_spec len (l_pos l)) as [H|H].
    - cbn [fst snd]. split; [left; auto | apply frame_refl].
    - pose proof (decode_adv _ H) as D. destruct (decode_rune (skipn (l_pos l) input)) as [r w].
      cbn [fst snd] in *. split; [right; split; [exact D | reflexivity] | repeat split].
  Qed.

  Lemma Hd_pos_le p r l : p <= len -> Hd p r l -> l_pos l <= len /\ p <= l_pos l.
  Proof. intros Hp [(?&?&?)|((?&?&?&?)&?)]; lia. Qed.

  Lemma Hd_eof p r l : Hd p r l -> r = RuneEOF -> len <= p /\ l_pos l = p.
  Proof. unfold RuneEOF. intros [(?&?&?)|((?&?&?&?&?)&?)] E; [auto | lia]. Qed.

  Lemma Hd_adv p r l : Hd p r l -> r <> RuneEOF -> adv_ok p r (l_width l) /\ l_pos l = p + l_width l.
  Proof. intros [(?&?&?)|?] E; [congruence | auto]. Qed.

  Lemma backup_Hd p r l : Hd p r l -> r <> RuneEOF -> backup l 0 = Ok (set_pos l p).
  Proof.
    intros H E. destruct (Hd_adv _ _ _ H E) as ((?&?&?&?)&Hp). unfold backup. cbn [Nat.eqb].
    destruct (Nat.ltb_spec (l_pos l) (l_width l)); [lia|]. do 2 f_equal. lia.
  Qed.

  Lemma backup_n l n : 0 < n -> n <= l_pos l -> backup l n = Ok (set_pos l (l_pos l - n)).
  Proof.
    intros H0 H. unfold backup. destruct (Nat.eqb_spec n 0); [lia|].
    destruct (Nat.ltb_spec (l_pos l) n); [lia|]. reflexivity.
  Qed.

  Lemma peek_at_2 p : p + 1 < len -> peek_at input p 2 = peek_at input (p + 1) 1.
  Proof.
    intros H. unfold peek_at, ilen. destruct (Nat.leb_spec len p); [lia|].
    destruct (Nat.leb_spec len (p + 1)); [lia|]. cbn [Nat.sub]. rewrite Nat.add_0_r. reflexivity.
  Qed.

  Lemma peek_at_2_short p : p < len -> len <= p + 1 -> peek_at input p 2 = RuneError.
  Proof.
    intros H H'. unfold peek_at, ilen. destruct (Nat.leb_spec len p); [lia|]. cbn [Nat.sub].
    rewrite skipn_all2 by lia. reflexivity.
  Qed.

  Lemma peek_at_eof p : len <= p -> forall k, peek_at input p k = RuneEOF.
  Proof. intros H k. unfold peek_at, ilen. destruct (Nat.leb_spec len p); [reflexivity|lia]. Qed.

  Lemma slice_ok a b : (0 <= a <= b)%Z -> (b <= Z.of_nat len)%Z ->
    slice input a b = Ok (text_at input (Z.to_nat a) (Z.to_nat (b - a))).
  Proof.
    intros H1 H2. unfold slice, ilen, text_at.
    destruct ((0 <=? a)%Z && (a <=? b)%Z && (b <=? Z.of_nat len)%Z) eqn:E; [reflexivity|lia].
  Qed.

  Lemma text_at_length off n : off + n <= len -> length (text_at input off n) = n.
  Proof. intros H. unfold text_at. rewrite firstn_length, skipn_length. lia. Qed.

  Lemma text_at_idem off n : text_at input off (length (text_at input off n)) = text_at input off n.
  Proof.
    unfold text_at. rewrite firstn_length. destruct (Nat.le_ge_cases n (length (skipn off input))).
    - rewrite Nat.min_l by lia. reflexivity.
    - rewrite Nat.min_r by lia. rewrite !firstn_all2 by lia. reflexivity.
  Qed.
End Base.
