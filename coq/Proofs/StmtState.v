(* Proofs/StmtState.v — C08, statement level: the parser model Model/Parser.v (repaired
   variant) on CANONICAL states.  A state of the parser is determined by the current node,
   the tokens not yet handed to the parser and the guard flag; [st o ts b] is the state whose
   look-ahead ring holds the first three of [ts].  On such states LABuffer.Next, next(),
   skipToken and acceptChild are plain equations. *)
From Coq Require Import List String Bool Arith Lia ZArith.
From Ecal Require Import Common.Bytes Common.Ast gen.Tokens gen.Grammar Spec.ParseSpec Model.Parser.
Import ListNotations.
Local Open Scope string_scope.
Local Open Scope nat_scope.
Local Open Scope list_scope.

Notation V := repaired.

Definition st (o : option cnode) (ts : list tok) (b : bool) : pst :=
  mkSt (firstn 3 ts) (skipn 3 ts) o b.

Lemma toks_st o ts b : toks (st o ts b) = ts.
Proof. unfold toks, st. cbn [buf chan]. apply firstn_skipn. Qed.

Lemma cur_st o ts b : cur (st o ts b) = o. Proof. reflexivity. Qed.
Lemma sw_st o ts b : sw (st o ts b) = b. Proof. reflexivity. Qed.
Lemma set_sw_st o ts b b' : set_sw (st o ts b) b' = st o ts b'. Proof. reflexivity. Qed.
Lemma set_cur_st o ts b o' : set_cur (st o ts b) o' = st o' ts b. Proof. reflexivity. Qed.
Lemma fuel_of_st o ts b : fuel_of (st o ts b) = S (List.length ts).
Proof. unfold fuel_of. rewrite toks_st. reflexivity. Qed.

Lemma la_next_st o t ts b : la_next (st o (t :: ts) b) = (Some t, st o ts b).
Proof.
  unfold la_next, st. cbn [buf chan cur sw].
  destruct ts as [|t1 [|t2 [|t3 r]]]; reflexivity.
Qed.

(* the entry next() finds for a token id while the guard flag is [b] *)
Definition ent (b : bool) (id : nat) : option grammar_entry :=
  if b && (id =? TokenLBRACE) then Some (guard_brace_entry V) else lookup_entry id.

Definition dummy_entry : grammar_entry := mkGE 0 "" 0 "" "".
Definition entd (b : bool) (id : nat) : grammar_entry :=
  match ent b id with Some e => e | None => dummy_entry end.

(* the current node next() makes of a token *)
Definition cn (b : bool) (t : tok) : cnode := (t, entd b (t_id t)).

(* token ids next() turns into a node: not a comment, not the error token, in the table *)
Definition known (id : nat) : bool :=
  negb (id =? TokenPRECOMMENT) && negb (id =? TokenPOSTCOMMENT) && negb (id =? TokenError) &&
  match lookup_entry id with Some _ => true | None => false end.

Lemma known_ent b id : known id = true -> ent b id = Some (entd b id).
Proof.
  unfold known, entd, ent. intros H. destruct (b && (id =? TokenLBRACE)); [reflexivity|].
  destruct (lookup_entry id); [reflexivity|]. rewrite andb_false_r in H. discriminate.
Qed.

Lemma entd_false id : entd false id = match lookup_entry id with Some e => e | None => dummy_entry end.
Proof. reflexivity. Qed.

Lemma entd_irrel b id : id <> TokenLBRACE -> entd b id = entd false id.
Proof.
  intros H. unfold entd, ent. destruct b; [|reflexivity].
  destruct (Nat.eqb_spec id TokenLBRACE); [contradiction|reflexivity].
Qed.

Lemma cn_irrel b t : t_id t <> TokenLBRACE -> cn b t = cn false t.
Proof. intros H. unfold cn. rewrite entd_irrel by exact H. reflexivity. Qed.

Lemma advance_st o t ts b : known (t_id t) = true ->
  advance V (st o (t :: ts) b) = ROk tt (st (Some (cn b t)) ts b).
Proof.
  intros K. unfold advance, next. rewrite toks_st. cbn [List.length next_token].
  rewrite la_next_st.
  pose proof K as K'. unfold known in K'. rewrite !andb_true_iff, !negb_true_iff in K'.
  destruct K' as [[[K1 K2] K3] _].
  unfold is_comment. rewrite K1, K2. cbn [orb rbind]. rewrite K3.
  unfold entry_for. rewrite sw_st. fold (ent b (t_id t)). rewrite (known_ent b _ K).
  reflexivity.
Qed.

Lemma skipToken_st c id t ts b : t_id (fst c) = id -> known (t_id t) = true ->
  skipToken V id (st (Some c) (t :: ts) b) = ROk tt (st (Some (cn b t)) ts b).
Proof.
  intros Hid K. destruct c as [tc ec]. unfold skipToken, with_cur. cbn [cur st fst] in *.
  rewrite Hid, Nat.eqb_refl. apply advance_st; exact K.
Qed.

Lemma acceptChild_st c id t ts b : t_id (fst c) = id -> known (t_id t) = true ->
  acceptChild V id (st (Some c) (t :: ts) b) = ROk (snd (rn c [])) (st (Some (cn b t)) ts b).
Proof.
  intros Hid K. destruct c as [tc ec]. unfold acceptChild. cbn [cur st fst] in *.
  fold (st (Some (tc, ec)) (t :: ts) b). rewrite advance_st by exact K. cbn [rbind].
  rewrite Hid, Nat.eqb_refl. reflexivity.
Qed.

(* NewLABuffer on a token list that ends with its only EOF token *)
Lemma la_init_st l e :
  t_id e = TokenEOF -> (forall t, In t l -> t_id t <> TokenEOF) ->
  la_init (l ++ [e]) = (firstn 3 (l ++ [e]), skipn 3 (l ++ [e])).
Proof.
  intros He Hl.
  assert (Hne : forall t, In t l -> (t_id t =? TokenEOF) = false).
  { intros t Ht. apply Nat.eqb_neq. apply Hl; exact Ht. }
  assert (Hee : (t_id e =? TokenEOF) = true) by (apply Nat.eqb_eq; exact He).
  destruct l as [|a [|b [|c r]]]; cbn [app la_init la_fill List.length Nat.ltb Nat.leb andb negb firstn skipn].
  - rewrite Hee. reflexivity.
  - rewrite (Hne a) by (left; reflexivity). cbn. rewrite Hee. reflexivity.
  - rewrite (Hne a) by (left; reflexivity). cbn.
    rewrite (Hne b) by (right; left; reflexivity). cbn. reflexivity.
  - rewrite (Hne a) by (left; reflexivity). cbn.
    rewrite (Hne b) by (right; left; reflexivity). cbn. reflexivity.
Qed.
