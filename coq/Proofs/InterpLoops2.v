(* Proofs/InterpLoops2.v — C04 on the unified interpreter model, the iteration protocol, part 2:
   the statements of Props/C04_interp_loops.v about [eval] itself, the iterator-function protocol
   (range), the built-in range, and where the loop variable is bound. *)
From Coq Require Import List String NArith ZArith Bool Arith Lia Permutation Sorted.
From Ecal Require Import Common.Bytes Common.Ast gen.Tokens Model.Interp Proofs.InterpProofs
  Proofs.InterpControl Proofs.InterpControl2 Proofs.InterpScope Proofs.InterpScope3 Proofs.InterpLoops.
Import ListNotations.
Local Open Scope string_scope.
Local Open Scope list_scope.
Local Open Scope nat_scope.

Section L.
  Context {NO : NumOps}.

  (* ================================================================ vocabulary: iterator functions *)
  (* the rounds of a loop over an ITERATOR FUNCTION (the iterator expression it answered the first
     evaluation with the signal "Function is an iterator"): every round evaluates the expression
     it AGAIN, in the loop's scope c with the loop's instance state is;
       the iterator signal carrying v, or a plain value v -> a round with v;
       the signal "End of iteration was reached" -> the loop ends normally;
       the continue signal -> the next round without evaluating the body;
       any other error leaves the loop *)
  Fixpoint iterator_rounds (ev : evalT) (k : nat) (ipath : list nat) (it : node) (path : list nat)
           (body : node) (vars : list bytes) (c is : nat) : M value :=
    match k with
    | O => lift RFuel
    | S k' =>
      let next := iterator_rounds ev k' ipath it path body vars c is in
      bind (attempt (ev ipath it c is)) (fun r =>
        match r with
        | inl v => one_round ev path body vars c is v next
        | inr e => if is_rt e T_ISITER then one_round ev path body vars c is (acc_of e) next
                   else after_round (inr e) next
        end)
    end.

  (* rangeFunc with the state r: end of the range reached by the value cur *)
  Definition range_stop (r : rstate) : bool :=
    let fr := r_from r in let to := r_to r in let cur := r_cur r in
    (n_ltb fr to && n_ltb to cur) || (n_ltb to fr && n_ltb cur to) || (n_eqb fr to && negb (n_eqb cur fr)).
  Definition range_advance (r : rstate) : rstate :=
    mkR (r_from r) (r_to r) (r_step r) (n_add (r_cur r) (r_step r)).
  Definition with_is (st : state) (is : nat) (m : list (list nat * rstate)) : state :=
    mkSt (st_scopes st) (st_arrs st) (st_maps st) (st_funs st) (list_upd (st_is st) is m).

  (* what eval_identifier makes of the (value, error) pair of a call *)
  Definition call_result (r : res callres * state) : res value * state :=
    match r with
    | (ROk (v, None), s) => (ROk v, s)
    | (ROk (v, Some e), s) => (RErr (with_acc e v), s)
    | (RErr e, s) => (RErr e, s)
    | (RPanic x, s) => (RPanic x, s)
    | (RFuel, s) => (RFuel, s)
    | (RUnmod w, s) => (RUnmod w, s)
    | (RInvalid w, s) => (RInvalid w, s)
    end.

  (* the call  range(args)  as the parser builds it *)
  Definition range_call iv ia il fv fi fa fl (args : list node) : node :=
    Node NodeIDENTIFIER (bs "range") iv ia il [Node NodeFUNCCALL fv fi fa fl args].

  Section WithEv.
    Variable ev : evalT.

    Lemma iter_loop_range path it body vars c is :
      forall k index st,
        iter_loop ev k ItRange index path it body vars c is st =
        iterator_rounds ev k (1 :: 0 :: path) it path body vars c is st.
    Proof.
      induction k as [|k IH]; intros index st; [reflexivity|].
      rewrite iter_loop_S. cbn [iter_next iterator_rounds]. rewrite bind_assoc. apply bind_ext.
      intros r s. destruct r as [v|e].
      - rewrite bind_ret_eq. apply one_round_ext. intros s1. apply IH.
      - destruct (is_rt e T_ISITER) eqn:E; rewrite bind_ret_eq.
        + apply one_round_ext. intros s1. apply IH.
        + cbn [after_round]. destruct (is_rt e T_CONT); [apply IH|reflexivity].
    Qed.

    Lemma eval_loop_iterator f p hv hi ha hl v it body more sc is0 st c st0 is st1 e st2 :
      new_child sc p st = (ROk c, st0) ->
      alloc_is st0 = (ROk is, st1) ->
      ev (1 :: 0 :: p) it c is st1 = (RErr e, st2) ->
      is_rt e T_ISITER = true -> is_name it NodeIDENTIFIER = true ->
      eval_loop ev f p (Node NodeIN hv hi ha hl [v; it] :: body :: more) sc is0 st =
      iterator_rounds ev f (1 :: 0 :: p) it p body (loop_vars v) c is st2.
    Proof.
      intros Hc Hi He Hs Hn. rewrite (eval_loop_in _ _ _ _ _ _ _ _ _ _ _ _ _ _ _ _ _ _ Hc Hi).
      rewrite (bind_ok_eq _ _ _ _ _ (attempt_err_eq _ _ _ _ He)). rewrite Hs, Hn.
      apply iter_loop_range.
    Qed.

    (* ---- one round of iterator_rounds *)
    Lemma iterator_rounds_value k ip it path body vars c is st e st1 :
      ev ip it c is st = (RErr e, st1) -> is_rt e T_ISITER = true ->
      iterator_rounds ev (S k) ip it path body vars c is st =
      one_round ev path body vars c is (acc_of e) (iterator_rounds ev k ip it path body vars c is) st1.
    Proof.
      intros He Hs. cbn [iterator_rounds]. rewrite (bind_ok_eq _ _ _ _ _ (attempt_err_eq _ _ _ _ He)).
      rewrite Hs. reflexivity.
    Qed.
    Lemma iterator_rounds_end k ip it path body vars c is st e st1 :
      ev ip it c is st = (RErr e, st1) -> is_rt e T_EOI = true ->
      iterator_rounds ev (S k) ip it path body vars c is st = (ROk VNull, st1).
    Proof.
      intros He Hs. cbn [iterator_rounds]. rewrite (bind_ok_eq _ _ _ _ _ (attempt_err_eq _ _ _ _ He)).
      assert (H1 : is_rt e T_ISITER = false).
      { destruct e as [|t a|t d x|v]; cbn [is_rt] in *; try reflexivity.
        destruct (bytes_eqb_spec t T_EOI) as [->|]; [reflexivity|discriminate]. }
      rewrite H1. cbn [after_round]. rewrite (is_rt_eoi_not_cont _ Hs), Hs. reflexivity.
    Qed.

    (* ================================================================ the call range(args) *)
    Lemma bind_lift_ok {A B} (a : A) (f : A -> M B) st : bind (lift (ROk a)) f st = f a st.
    Proof. reflexivity. Qed.

    Lemma resolve_fobj_range w : (forall id, w <> VFun id) ->
      resolve_fobj (bs "range") w = ROk (Some (FBuiltin (bs "range"))).
    Proof. intros H. destruct w; try reflexivity. elim (H id). reflexivity. Qed.

    Lemma resolve_range_call d p fv fi fa fl args c is st :
      let sj := mkSubj (bs "range") p 0 [Node NodeFUNCCALL fv fi fa fl args] in
      resolve ev (S (S d)) p sj c is st =
      bind (attempt (get_value c (bs "range"))) (fun r =>
        match r with
        | inr e => ret (VNull, Some e)
        | inl result => resolve_function ev (bs "range") p sj result c is
        end) st.
    Proof. reflexivity. Qed.

    Lemma eval_identifier_range_call d p iv ia il fv fi fa fl args c is st w st1 vals st2 :
      get_value c (bs "range") st = (ROk w, st1) -> (forall id, w <> VFun id) ->
      eval_args ev (0 :: p) 0 args c st1 = (ROk vals, st2) ->
      eval_identifier ev (S (S d)) p (range_call iv ia il fv fi fa fl args) c is st =
      call_result (b_range p is vals st2).
    Proof.
      intros Hg Hw Ha. unfold eval_identifier, range_call.
      change (subj_of p (Node NodeIDENTIFIER (bs "range") iv ia il [Node NodeFUNCCALL fv fi fa fl args]))
        with (mkSubj (bs "range") p 0 [Node NodeFUNCCALL fv fi fa fl args]).
      unfold bind at 1. rewrite resolve_range_call.
      rewrite (bind_ok_eq _ _ _ _ _ (attempt_ok_eq _ _ _ _ Hg)).
      unfold resolve_function. cbn [sj_off sj_kids find_funccall].
      change (is_name (Node NodeFUNCCALL fv fi fa fl args) NodeFUNCCALL) with true. cbv iota.
      rewrite (resolve_fobj_range _ Hw). rewrite bind_lift_ok.
      cbn [n_children sj_path].
      rewrite (bind_ok_eq _ _ _ _ _ (attempt_ok_eq _ _ _ _ Ha)).
      change (exec_function ev (FBuiltin (bs "range")) p vals is st2) with (b_range p is vals st2).
      unfold call_result. destruct (b_range p is vals st2) as [r s]. destruct r as [[v [e|]]| | | | |]; reflexivity.
    Qed.
  End WithEv.

  (* ================================================================ rangeFunc *)
  (* the first call at a call site (no state yet): the state {from, to, step, cur = from} is
     stored, the answer is the iterator signal carrying from (no element is consumed) *)
  Lemma b_range_first self is st m fr to step rest :
    nth_error (st_is st) is = Some m -> is_get self m = None ->
    b_range self is (VNum fr :: VNum to :: VNum step :: rest) st =
    (ROk (VNum fr, Some (rt_err T_ISITER)), with_is st is (is_put self (mkR fr to step fr) m)).
  Proof.
    intros Hm Hg. unfold b_range. unfold get_is, get_st, bind at 1, bind at 1, of_opt. rewrite Hm.
    cbn [ret]. rewrite Hg. reflexivity.
  Qed.
  Lemma b_range_first2 self is st m fr to :
    nth_error (st_is st) is = Some m -> is_get self m = None ->
    b_range self is [VNum fr; VNum to] st =
    (ROk (VNum fr, Some (rt_err T_ISITER)), with_is st is (is_put self (mkR fr to (n_of_Z 1) fr) m)).
  Proof.
    intros Hm Hg. unfold b_range. unfold get_is, get_st, bind at 1, bind at 1, of_opt. rewrite Hm.
    cbn [ret]. rewrite Hg. reflexivity.
  Qed.
  Lemma b_range_first1 self is st m to :
    nth_error (st_is st) is = Some m -> is_get self m = None ->
    b_range self is [VNum to] st =
    (ROk (VNum num0, Some (rt_err T_ISITER)), with_is st is (is_put self (mkR num0 to (n_of_Z 1) num0) m)).
  Proof.
    intros Hm Hg. unfold b_range. unfold get_is, get_st, bind at 1, bind at 1, of_opt. rewrite Hm.
    cbn [ret]. rewrite Hg. reflexivity.
  Qed.

  (* every later call at the same call site: the answer carries cur, the state advances by step
     whatever the arguments are now; the signal is "end of iteration" iff cur has passed to
     (the end is INCLUSIVE; the direction is that of from -> to, NOT the sign of step) *)
  Lemma b_range_next self is st m r a0 rest :
    nth_error (st_is st) is = Some m -> is_get self m = Some r ->
    b_range self is (a0 :: rest) st =
    (ROk (VNum (r_cur r), Some (rt_err (if range_stop r then T_EOI else T_ISITER))),
     with_is st is (is_put self (range_advance r) m)).
  Proof.
    intros Hm Hg. unfold b_range. unfold get_is, get_st, bind at 1, bind at 1, of_opt. rewrite Hm.
    cbn [ret]. rewrite Hg. reflexivity.
  Qed.

  Lemma is_get_is_put self r : forall m, is_get self (is_put self r m) = Some r.
  Proof.
    assert (R : forall k, path_eqb k k = true).
    { induction k as [|x k IH]; [reflexivity|]. cbn [path_eqb]. rewrite Nat.eqb_refl, IH. reflexivity. }
    induction m as [|[k' r'] t IH]; cbn [is_put is_get].
    - rewrite R. reflexivity.
    - destruct (path_eqb k' self) eqn:E; cbn [is_get]; rewrite E; [reflexivity|exact IH].
  Qed.

  (* ================================================================ the loop variable *)
  (* one loop variable x (a name without a dot): binding it is the assignment x := v from the
     loop's scope c: it writes variable x of the nearest enclosing scope that defines x, else of
     c itself - and nothing else *)
  Lemma loop_variable_binding st c x v :
    scopes_acyclic st -> c < length (st_scopes st) -> simple_name x = true ->
    let t := assign_target st c x in
    let st' := set_var st t x v in
    assign_vars [x] v c st = (ROk tt, st') /\
    t < length (st_scopes st) /\
    ((forall j, In j (scope_chain st c) -> binding st j x = None) -> t = c) /\
    ((exists j, In j (scope_chain st c) /\ binding st j x <> None) ->
     In t (scope_chain st c) /\ binding st t x <> None) /\
    get_value c x st' = (ROk v, st') /\
    (forall s2 y, s2 < length (st_scopes st) -> simple_name y = true -> x <> y ->
                  get_value s2 y st' = (fst (get_value s2 y st), st')) /\
    (forall s2 y, s2 < length (st_scopes st) -> simple_name y = true -> ~ In t (scope_chain st s2) ->
                  get_value s2 y st' = (fst (get_value s2 y st), st')) /\
    st_arrs st' = st_arrs st /\ st_maps st' = st_maps st /\ st_funs st' = st_funs st /\ st_is st' = st_is st.
  Proof.
    intros Hac Hc Hx t st'.
    destruct (assign_nearest_or_define_here st c x v Hac Hc Hx) as (A1 & A2 & A3 & A4).
    fold t in A1, A2, A3, A4. fold st' in A1.
    split. { rewrite assign_vars_one. rewrite A1. reflexivity. }
    split; [exact A2|]. split; [exact A4|].
    split. { intros H. destruct (A3 H) as (pre & post & E & _ & B). split; [|exact B].
             rewrite E. apply in_or_app. right. left. reflexivity. }
    split. { pose proof (write_then_read_same st c x v Hac Hc Hx) as W. unfold bind in W.
             rewrite A1 in W. exact W. }
    split. { intros s2 y Hs2 Hy N. destruct (read_after_write st t x v s2 y Hac A2 Hs2 Hy) as (R1 & _ & _ & R4).
             fold st' in R1, R4. rewrite (surjective_pairing (get_value s2 y st')). rewrite R4, (R1 N). reflexivity. }
    split. { intros s2 y Hs2 Hy N. apply write_invisible_outside; assumption. }
    unfold st'. repeat split; [apply set_var_arrs|apply set_var_maps|apply set_var_funs|apply set_var_is].
  Qed.

  (* ================================================================ the statements about eval *)
  Lemma eval_in_loop_eq f p tv ti ta tl hv hi ha hl v it body more sc is :
    eval (S f) p (in_loop_of tv ti ta tl hv hi ha hl v it body more) sc is =
    eval_loop (eval f) f p (Node NodeIN hv hi ha hl [v; it] :: body :: more) sc is.
  Proof. reflexivity. Qed.

  Theorem list_loop_once_per_element :
    forall fuel path tv ti ta tl hv hi ha hl v it body more sc is0 st c st0 is st1 a len st2,
      new_child sc path st = (ROk c, st0) ->
      alloc_is st0 = (ROk is, st1) ->
      eval fuel (1 :: 0 :: path) it c is st1 = (ROk (VList a len), st2) ->
      eval (S fuel) path (in_loop_of tv ti ta tl hv hi ha hl v it body more) sc is0 st =
      in_rounds (eval fuel) fuel (map (list_elem a len) (seq 0 len)) path body (loop_vars v) c is st2 /\
      (len < fuel ->
       eval (S fuel) path (in_loop_of tv ti ta tl hv hi ha hl v it body more) sc is0 st =
       in_rounds_all (eval fuel) (map (list_elem a len) (seq 0 len)) path body (loop_vars v) c is st2).
  Proof.
    intros until st2. intros Hc Hi He. rewrite eval_in_loop_eq.
    rewrite (eval_loop_list _ _ _ _ _ _ _ _ _ _ _ _ _ _ _ _ _ _ _ _ _ Hc Hi He). split; [reflexivity|].
    intros Hf. apply in_rounds_enough_fuel. rewrite map_length, seq_length. exact Hf.
  Qed.

  Theorem map_loop_keys_in_string_order :
    forall fuel path tv ti ta tl hv hi ha hl v it body more sc is0 st c st0 is st1 id st2 m ks sorted,
      new_child sc path st = (ROk c, st0) ->
      alloc_is st0 = (ROk is, st1) ->
      eval fuel (1 :: 0 :: path) it c is st1 = (ROk (VMap id), st2) ->
      nth_error (st_maps st2) id = Some m ->
      printed_keys st2 m = Some ks ->
      sort_keys ks = Some sorted ->
      let keys := map snd sorted in
      eval (S fuel) path (in_loop_of tv ti ta tl hv hi ha hl v it body more) sc is0 st =
      in_rounds (eval fuel) fuel (map (map_entry id) keys) path body (loop_vars v) c is st2 /\
      (length m < fuel ->
       eval (S fuel) path (in_loop_of tv ti ta tl hv hi ha hl v it body more) sc is0 st =
       in_rounds_all (eval fuel) (map (map_entry id) keys) path body (loop_vars v) c is st2) /\
      Permutation (map fst m) keys /\
      Forall2 (fun k s => sprint 8 st2 k = Some s) keys (map fst sorted) /\
      StronglySorted bytes_lt (map fst sorted).
  Proof.
    intros until sorted. intros Hc Hi He Hm Hk Hs keys. rewrite eval_in_loop_eq.
    rewrite (eval_loop_map _ _ _ _ _ _ _ _ _ _ _ _ _ _ _ _ _ _ _ _ _ _ _ Hc Hi He Hm Hk Hs).
    destruct (map_loop_key_order _ _ _ _ Hk Hs) as (P1 & P2 & P3).
    split; [reflexivity|]. split.
    { intros Hf. apply in_rounds_enough_fuel. unfold keys. rewrite !map_length.
      rewrite <- (map_length snd), <- (Permutation_length P1), map_length. exact Hf. }
    split; [exact P1|]. split; [|exact P3].
    unfold keys. clear - P2. induction P2 as [|x r Hx _ IH]; cbn [map]; constructor; assumption.
  Qed.

  (* the map loop is outside the model (RUnmod) exactly when a key has no modelled printed form or
     two keys print alike (the Go order of those two is that of the map enumeration) *)
  Theorem map_loop_order_defined :
    forall st m ks, printed_keys st m = Some ks ->
      (NoDup (map fst ks) <-> exists sorted, sort_keys ks = Some sorted).
  Proof.
    intros st m ks _. split; [apply sort_keys_total|]. intros [sorted E]. eapply sort_keys_some_nodup. exact E.
  Qed.

  Theorem sorted_keys_unique :
    forall ks sorted other,
      sort_keys ks = Some sorted ->
      Permutation ks other -> StronglySorted key_lt other -> other = sorted.
  Proof.
    intros ks sorted other E Hp Hs. apply sorted_perm_unique; [exact Hs|eapply sort_keys_sorted; exact E|].
    eapply Permutation_trans; [apply Permutation_sym; exact Hp|]. apply sort_keys_perm. exact E.
  Qed.

  Theorem single_value_loop_one_round :
    forall fuel path tv ti ta tl hv hi ha hl v it body more sc is0 st c st0 is st1 w st2,
      new_child sc path st = (ROk c, st0) ->
      alloc_is st0 = (ROk is, st1) ->
      eval fuel (1 :: 0 :: path) it c is st1 = (ROk w, st2) ->
      (forall a len, w <> VList a len) -> (forall id, w <> VMap id) ->
      eval (S fuel) path (in_loop_of tv ti ta tl hv hi ha hl v it body more) sc is0 st =
      in_rounds (eval fuel) fuel [ret w] path body (loop_vars v) c is st2.
  Proof.
    intros until st2. intros Hc Hi He Hl Hm. rewrite eval_in_loop_eq.
    eapply eval_loop_one; eassumption.
  Qed.

  Theorem iterator_error_no_round :
    forall fuel path tv ti ta tl hv hi ha hl v it body more sc is0 st c st0 is st1 e st2,
      new_child sc path st = (ROk c, st0) ->
      alloc_is st0 = (ROk is, st1) ->
      eval fuel (1 :: 0 :: path) it c is st1 = (RErr e, st2) ->
      is_rt e T_ISITER = false ->
      eval (S fuel) path (in_loop_of tv ti ta tl hv hi ha hl v it body more) sc is0 st =
      if is_rt e T_EOI then (ROk VNull, st2) else (RErr e, st2).
  Proof.
    intros until st2. intros Hc Hi He Hn. rewrite eval_in_loop_eq. eapply eval_loop_iter_error; eassumption.
  Qed.

  Theorem iterator_function_loop :
    forall fuel path tv ti ta tl hv hi ha hl v it body more sc is0 st c st0 is st1 e st2,
      new_child sc path st = (ROk c, st0) ->
      alloc_is st0 = (ROk is, st1) ->
      eval fuel (1 :: 0 :: path) it c is st1 = (RErr e, st2) ->
      is_rt e T_ISITER = true -> is_name it NodeIDENTIFIER = true ->
      eval (S fuel) path (in_loop_of tv ti ta tl hv hi ha hl v it body more) sc is0 st =
      iterator_rounds (eval fuel) fuel (1 :: 0 :: path) it path body (loop_vars v) c is st2.
  Proof.
    intros until st2. intros Hc Hi He Hs Hn. rewrite eval_in_loop_eq. eapply eval_loop_iterator; eassumption.
  Qed.

  Theorem range_call_is_rangeFunc :
    forall d p iv ia il fv fi fa fl args c is st w st1 vals st2,
      get_value c (bs "range") st = (ROk w, st1) -> (forall id, w <> VFun id) ->
      eval_args (eval (S (S d))) (0 :: p) 0 args c st1 = (ROk vals, st2) ->
      eval (S (S (S d))) p (range_call iv ia il fv fi fa fl args) c is st =
      call_result (b_range p is vals st2).
  Proof.
    intros until st2. intros Hg Hw Ha.
    change (eval (S (S (S d))) p (range_call iv ia il fv fi fa fl args) c is)
      with (eval_identifier (eval (S (S d))) (S (S d)) p (range_call iv ia il fv fi fa fl args) c is).
    eapply eval_identifier_range_call; eassumption.
  Qed.

  (* the rounds of a loop whose iterator expression is the call range(...) with an existing state:
     what one evaluation of the call yields *)
  Theorem range_call_next :
    forall d p iv ia il fv fi fa fl args c is st w st1 a0 rest st2 m r,
      get_value c (bs "range") st = (ROk w, st1) -> (forall id, w <> VFun id) ->
      eval_args (eval (S (S d))) (0 :: p) 0 args c st1 = (ROk (a0 :: rest), st2) ->
      nth_error (st_is st2) is = Some m -> is_get p m = Some r ->
      eval (S (S (S d))) p (range_call iv ia il fv fi fa fl args) c is st =
      (RErr (ERt (if range_stop r then T_EOI else T_ISITER) (VNum (r_cur r))),
       with_is st2 is (is_put p (range_advance r) m)).
  Proof.
    intros until r. intros Hg Hw Ha Hm Hr.
    rewrite (range_call_is_rangeFunc _ _ _ _ _ _ _ _ _ _ _ _ _ _ _ _ _ Hg Hw Ha).
    rewrite (b_range_next _ _ _ _ _ _ _ Hm Hr). reflexivity.
  Qed.
End L.
