(* Proofs/ProcessorProofs.v — lemmas about Model/RuleScope.v and Model/Processor.v:
   A. the scope tree answers with the flag of the longest defined prefix
   B. insertion sort   C. ProcessEvent = Spec.fires   D. the triggering cache *)
From Ecal Require Import Model.Processor Proofs.RuleIndexProofs.
From Coq Require Import Lia Sorted.

Local Open Scope N_scope.

(* ================================================================ A. scope *)
Lemma path_eqb_eq a b : path_eqb a b = true <-> a = b.
Proof.
  revert b; induction a as [|x a IH]; intros [|y b]; simpl; try (split; congruence).
  rewrite andb_true_iff, IH, N.eqb_eq. split; [intros [-> ->]; reflexivity | intros [= -> ->]; auto].
Qed.

Lemma path_eqb_refl a : path_eqb a a = true.
Proof. apply path_eqb_eq; reflexivity. Qed.

(* the flag stored at the node reached by q (None: no such node, or no flag there) *)
Fixpoint flag_at (t : stree) (q : path) : option bool :=
  match q with
  | [] => s_flag t
  | s :: q' => match assoc s (s_children t) with Some c => flag_at c q' | None => None end
  end.

Lemma flag_at_empty q : flag_at empty_scope q = None.
Proof. destruct q; reflexivity. Qed.

Lemma assoc_cupd t s c ch : assoc t (cupd s c ch) = if s =? t then Some c else assoc t ch.
Proof.
  induction ch as [|[s0 c0] rest IH]; simpl.
  - reflexivity.
  - destruct (N.eqb_spec s0 s) as [->|Hn]; simpl.
    + destruct (N.eqb_spec s t); reflexivity.
    + rewrite IH. destruct (N.eqb_spec s t) as [->|]; [|reflexivity].
      destruct (N.eqb_spec s0 t); [contradiction | reflexivity].
Qed.

Lemma flag_at_add p b : forall t q,
  flag_at (scope_add p b t) q = if path_eqb p q then Some b else flag_at t q.
Proof.
  induction p as [|s p IH]; intros t q.
  - destruct q; reflexivity.
  - destruct q as [|s2 q]; [reflexivity|]. simpl. rewrite assoc_cupd.
    destruct (N.eqb_spec s s2) as [<-|Hn]; simpl; [|reflexivity].
    rewrite IH. destruct (path_eqb p q); [reflexivity|].
    destruct (assoc s (s_children t)); [reflexivity | apply flag_at_empty].
Qed.

Lemma flag_at_fold defs : forall t q,
  flag_at (fold_left (fun t d => scope_add (fst d) (snd d) t) defs t) q =
  match scope_def defs q with Some b => Some b | None => flag_at t q end.
Proof.
  induction defs as [|[p b] defs IH]; intros t q; simpl; [reflexivity|].
  rewrite IH, flag_at_add. destruct (scope_def defs q); [reflexivity|].
  destruct (path_eqb p q); reflexivity.
Qed.

Lemma flag_at_build defs q : flag_at (build_scope defs) q = scope_def defs q.
Proof.
  unfold build_scope. rewrite flag_at_fold, flag_at_empty. destruct (scope_def defs q); reflexivity.
Qed.

Lemma last_defined_ext F G l : forall a, (forall q, F q = G q) -> last_defined F l a = last_defined G l a.
Proof. induction l as [|q l IH]; intros a E; simpl; [reflexivity|]. rewrite E. apply IH; exact E. Qed.

Lemma last_defined_map F (f : path -> path) l : forall a,
  last_defined F (map f l) a = last_defined (fun q => F (f q)) l a.
Proof. induction l as [|q l IH]; intros a; simpl; [reflexivity | apply IH]. Qed.

Lemma last_defined_none l : forall a, last_defined (fun _ => None) l a = a.
Proof. induction l as [|q l IH]; intros a; simpl; [reflexivity | apply IH]. Qed.

Lemma walk_spec p : forall t acc,
  walk p t (match s_flag t with Some a => a | None => acc end) =
  last_defined (flag_at t) (prefixes p) acc.
Proof.
  induction p as [|s p IH]; intros t acc; simpl; [reflexivity|].
  rewrite last_defined_map.
  destruct (assoc s (s_children t)) as [c|] eqn:E.
  - rewrite IH. apply last_defined_ext. intros q. simpl. rewrite E. reflexivity.
  - rewrite (last_defined_ext _ (fun _ => None)) by (intros q; simpl; rewrite E; reflexivity).
    rewrite last_defined_none. reflexivity.
Qed.

Theorem is_allowed_spec defs p : is_allowed (build_scope defs) p = scope_allowed defs p.
Proof.
  unfold is_allowed, scope_allowed. rewrite walk_spec.
  apply last_defined_ext. apply flag_at_build.
Qed.

(* the Spec definition read directly: longest defined prefix, default deny *)
Definition is_prefix (q p : path) : Prop := exists rest, p = q ++ rest.

Lemma last_defined_all_none p : forall F acc,
  (forall q, is_prefix q p -> F q = None) -> last_defined F (prefixes p) acc = acc.
Proof.
  induction p as [|s p IH]; intros F acc H; simpl.
  - rewrite (H []) by (exists []; reflexivity). reflexivity.
  - rewrite (H []) by (exists (s :: p); reflexivity). rewrite last_defined_map. apply IH.
    intros q [rest ->]. apply H. exists rest; reflexivity.
Qed.

Lemma last_defined_longest p : forall F acc q b,
  is_prefix q p -> F q = Some b ->
  (forall q', is_prefix q' p -> (length q < length q')%nat -> F q' = None) ->
  last_defined F (prefixes p) acc = b.
Proof.
  induction p as [|s p IH]; intros F acc q b [rest E] Fq L; simpl.
  - destruct q; [|discriminate E]. rewrite Fq. reflexivity.
  - rewrite last_defined_map. destruct q as [|s' q].
    + rewrite Fq. apply last_defined_all_none. intros q' [rest' ->]. apply L.
      * exists rest'; reflexivity.
      * simpl; lia.
    + simpl in E. injection E as <- ->. apply (IH _ _ q b).
      * exists rest; reflexivity.
      * exact Fq.
      * intros q' [rest' E'] Hl. apply L; [exists rest'; simpl; rewrite E'; reflexivity | simpl; lia].
Qed.

Theorem scope_most_specific_prefix defs p :
  ((forall q, is_prefix q p -> scope_def defs q = None) -> is_allowed (build_scope defs) p = false) /\
  (forall q b, is_prefix q p -> scope_def defs q = Some b ->
     (forall q', is_prefix q' p -> (length q < length q')%nat -> scope_def defs q' = None) ->
     is_allowed (build_scope defs) p = b).
Proof.
  rewrite is_allowed_spec. unfold scope_allowed. split.
  - apply last_defined_all_none.
  - intros q b. apply last_defined_longest.
Qed.

(* ================================================================ B. sort *)
Definition prio_le (a b : rule) : Prop := (r_prio a <= r_prio b)%Z.

Lemma insert_rule_in r l x : In x (insert_rule r l) <-> x = r \/ In x l.
Proof.
  induction l as [|y l IH]; simpl; [intuition|].
  destruct (r_prio r <=? r_prio y)%Z; simpl; [intuition | rewrite IH; intuition].
Qed.

Lemma sort_rules_in l x : In x (sort_rules l) <-> In x l.
Proof. induction l as [|y l IH]; simpl; [tauto|]. rewrite insert_rule_in, IH. intuition. Qed.

Lemma insert_rule_nodup r l : ~ In r l -> NoDup l -> NoDup (insert_rule r l).
Proof.
  induction l as [|y l IH]; simpl; intros NI ND; [constructor; [tauto | constructor]|].
  destruct (r_prio r <=? r_prio y)%Z; [constructor; assumption|].
  inversion ND; subst. constructor.
  - rewrite insert_rule_in. intuition.
  - apply IH; tauto.
Qed.

Lemma sort_rules_nodup l : NoDup l -> NoDup (sort_rules l).
Proof.
  induction l as [|y l IH]; simpl; intros ND; [constructor|]. inversion ND; subst.
  apply insert_rule_nodup; [rewrite sort_rules_in; assumption | auto].
Qed.

Lemma insert_rule_sorted r l : Sorted prio_le l -> Sorted prio_le (insert_rule r l).
Proof.
  induction l as [|y l IH]; simpl; intros S; [repeat constructor|].
  destruct (Z.leb_spec (r_prio r) (r_prio y)).
  - constructor; [exact S | constructor; exact H].
  - inversion S; subst. constructor; [apply IH; assumption|].
    destruct l as [|z l]; simpl.
    + constructor. unfold prio_le; lia.
    + destruct (r_prio r <=? r_prio z)%Z; constructor; [unfold prio_le; lia|].
      inversion H3; assumption.
Qed.

Lemma sort_rules_sorted l : Sorted prio_le (sort_rules l).
Proof. induction l; simpl; [constructor | apply insert_rule_sorted; assumption]. Qed.

(* ================================================================ C. ProcessEvent *)
Section Proc.
  Variable rx : N -> value -> bool.

  Lemma in_scope_spec defs r : is_allowed_all (build_scope defs) (r_scopes r) = in_scope defs r.
  Proof.
    unfold is_allowed_all, in_scope. induction (r_scopes r) as [|p l IH]; simpl; [reflexivity|].
    rewrite is_allowed_spec, IH. reflexivity.
  Qed.

  Lemma fires_sub_matches defs rules ev r :
    In r (fires rx defs rules ev) -> In r (spec_matches rx rules ev).
  Proof.
    unfold fires, spec_matches, candidate. rewrite !filter_In, !andb_true_iff. tauto.
  Qed.

  Theorem process_event_fires rules rt defs ev :
    wf_rules rules -> no_self_suppress rules -> build rules = Ok rt ->
    let ex := process_event rx rt (build_scope defs) ev in
    NoDup ex /\ (forall r, In r ex <-> In r (fires rx defs rules ev)) /\ Sorted prio_le ex.
  Proof.
    intros WF NS B.
    destruct (index_match_exact rx rules rt WF B ev) as (ND & M & _).
    unfold process_event. cbv zeta.
    set (cands := match_ev rx rt ev) in *.
    set (trig := filter (fun r => is_allowed_all (build_scope defs) (r_scopes r)) cands).
    assert (TR : forall r, In r trig <-> In r rules /\ candidate rx defs ev r = true).
    { intros r. unfold trig. rewrite filter_In, M, in_scope_spec.
      unfold spec_matches, candidate. rewrite filter_In, andb_true_iff. tauto. }
    assert (SUP : forall r, In r rules ->
              memN (r_name r) (flat_map r_suppress trig) = suppressed rx defs rules ev r).
    { intros r Ir. apply Bool.eq_iff_eq_true. rewrite memN_in, in_flat_map.
      unfold suppressed. rewrite existsb_exists. split.
      - intros (r' & I' & S). apply TR in I'. destruct I' as [I' C].
        exists r'. split; [exact I'|]. rewrite C. apply memN_in in S. rewrite S.
        rewrite !andb_true_r. apply negb_true_iff, N.eqb_neq. intros E.
        destruct WF as [NDn _].
        assert (r' = r) by (apply (NoDup_map_inj r_name rules); assumption). subst r'.
        rewrite (NS _ Ir) in S. discriminate.
      - intros (r' & I' & H). rewrite !andb_true_iff in H. destruct H as [[_ C] S].
        exists r'. split; [apply TR; auto | apply memN_in; exact S]. }
    split; [|split].
    - apply sort_rules_nodup, NoDup_filter, NoDup_filter. exact ND.
    - intros r. rewrite sort_rules_in, filter_In, TR. unfold fires. rewrite filter_In, andb_true_iff.
      split.
      + intros [[I C] S]. rewrite (SUP _ I) in S. tauto.
      + intros [I [C S]]. rewrite (SUP _ I). tauto.
    - apply sort_rules_sorted.
  Qed.

  (* ============================================================== D. cache *)
  Definition cache_ok (p : proc) : Prop :=
    forall k b, cache_get k (p_cache p) = Some b -> b = trig_at k (rt_index (p_root p)).

  Lemma add_event_spec p ev :
    cache_ok p ->
    p_root (fst (add_event p ev)) = p_root p /\ cache_ok (fst (add_event p ev)) /\
    snd (add_event p ev) = if is_triggering (p_root p) ev then Queued else Skipped.
  Proof.
    intros OK. unfold add_event, proc_is_triggering.
    destruct (cache_get (e_kind ev) (p_cache p)) as [b|] eqn:E; simpl.
    - split; [reflexivity|]. split; [exact OK|]. rewrite (OK _ _ E). reflexivity.
    - split; [reflexivity|]. split; [|reflexivity].
      intros k b. simpl. destruct (path_eqb (e_kind ev) k) eqn:EK.
      + apply path_eqb_eq in EK. subst k. intros [= <-]. reflexivity.
      + apply OK.
  Qed.

  Lemma after_history_spec h : forall p,
    cache_ok p -> p_root (after_history p h) = p_root p /\ cache_ok (after_history p h).
  Proof.
    induction h as [|ev h IH]; intros p OK; simpl; [auto|].
    destruct (add_event_spec p ev OK) as (R & OK' & _).
    destruct (IH _ OK') as [R' OK'']. split; [congruence | exact OK''].
  Qed.

  Lemma start_ok rt : cache_ok (start rt).
  Proof. intros k b H; discriminate H. Qed.

  Theorem fires_exact rules rt defs h ev :
    wf_rules rules -> no_self_suppress rules -> build rules = Ok rt ->
    let res := run_event rx (after_history (start rt) h) (build_scope defs) ev in
    let ex := snd res in
    NoDup ex /\ (forall r, In r ex <-> In r (fires rx defs rules ev)) /\ Sorted prio_le ex /\
    (fires rx defs rules ev <> [] -> snd (fst res) = Queued /\
                                     snd (add_event (after_history (start rt) h) ev) = Queued).
  Proof.
    intros WF NS B.
    destruct (after_history_spec h (start rt) (start_ok rt)) as [R OK]. simpl in R.
    set (p := after_history (start rt) h) in *.
    destruct (add_event_spec p ev OK) as (R' & _ & A).
    cbv zeta. unfold run_event.
    destruct (add_event p ev) as [p' a] eqn:E. simpl in R', A. simpl.
    rewrite R in A.
    assert (TR : fires rx defs rules ev <> [] -> is_triggering rt ev = true).
    { intros NE. apply (triggering_overapproximates rx rules rt WF B).
      destruct (fires rx defs rules ev) as [|r l] eqn:EF; [contradiction NE; reflexivity|].
      assert (I : In r (spec_matches rx rules ev))
        by (apply (fires_sub_matches defs); rewrite EF; left; reflexivity).
      intros Z. rewrite Z in I. exact I. }
    destruct (is_triggering rt ev) eqn:T; subst a.
    - rewrite R', R.
      destruct (process_event_fires rules rt defs ev WF NS B) as (X1 & X2 & X3).
      split; [exact X1|]. split; [exact X2|]. split; [exact X3|]. auto.
    - split; [constructor|]. split.
      + intros r. split; [contradiction|]. intros I.
        assert (NE : fires rx defs rules ev <> []) by (intros Z; rewrite Z in I; exact I).
        specialize (TR NE). discriminate TR.
      + split; [constructor|]. intros NE. specialize (TR NE). discriminate TR.
  Qed.
  Theorem fires_exact_history rules rt defs h ev :
    wf_rules rules -> no_self_suppress rules -> build rules = Ok rt ->
    let p := after_history (start rt) h in
    let executed := snd (run_event rx p (build_scope defs) ev) in
    NoDup executed /\
    (forall r, In r executed <-> In r (fires rx defs rules ev)) /\
    Sorted prio_le executed /\
    (fires rx defs rules ev <> [] -> snd (add_event p ev) = Queued).
  Proof.
    intros WF NS B.
    destruct (fires_exact rules rt defs h ev WF NS B) as (A1 & A2 & A3 & A4).
    cbv zeta. split; [exact A1|]. split; [exact A2|]. split; [exact A3|].
    intros NE. exact (proj2 (A4 NE)).
  Qed.
End Proc.
