(* Proofs/InterpInv5.v — the invariant through one level of evaluation, part 2: loops
   (guard loops, iterator loops over ranges / lists / maps / single values) and try / except /
   otherwise / finally (rules and invariant: Proofs/InterpInv.v; part 1: Proofs/InterpInv4.v). *)
From Coq Require Import List String NArith ZArith Bool Arith Lia.
From Ecal Require Import Common.Bytes Common.Ast gen.Tokens Spec.ParseSpec Model.Interp Proofs.InterpShape
  Proofs.InterpInv Proofs.InterpInv2 Proofs.InterpInv3 Proofs.InterpInv4.
Import ListNotations.
Local Open Scope string_scope. Local Open Scope list_scope. Local Open Scope nat_scope.

Section I5.
  Context {NO : NumOps}.

  (* ---------------------------------------------------------------- pure facts *)
  Lemma acc_of_ok st e : err_ok st e -> val_ok st (acc_of e).
  Proof. destruct e; cbn [acc_of err_ok]; intros H; try exact I. exact H. Qed.

  Lemma tok_last cs d : toks cs -> tok d = true -> tok (last cs d) = true.
  Proof.
    intros H Hd. induction H as [|c r Hc Hr IH]; cbn [last]; [exact Hd|].
    destruct r; [exact Hc | exact IH].
  Qed.

  Lemma go_assert_ok_string_cases c :
    match go_assert_ok (eval_string c) with RErr _ | RInvalid _ => False | _ => True end.
  Proof.
    unfold go_assert_ok, eval_string. destruct (n_allow_esc c); [|exact I].
    destruct (find_sub _ (n_val c)) as [[? post]|]; [|exact I].
    destruct (find_sub _ post); exact I.
  Qed.

  (* the sorted keys of a map are keys of the map *)
  Lemma ins_key_Forall (P : bytes * value -> Prop) k : forall l l',
    P k -> Forall P l -> ins_key k l = Some l' -> Forall P l'.
  Proof.
    induction l as [|x r IH]; intros l' Hk Hl E; cbn [ins_key] in E.
    - injection E as <-. constructor; [exact Hk | constructor].
    - inversion Hl as [|? ? Hx Hr]; subst.
      destruct (bytes_ltb (fst k) (fst x)).
      + injection E as <-. constructor; assumption.
      + destruct (bytes_ltb (fst x) (fst k)); [|discriminate].
        destruct (ins_key k r) as [r'|] eqn:Er; [|discriminate].
        injection E as <-. constructor; [exact Hx|]. apply IH; auto.
  Qed.
  Lemma sort_keys_Forall (P : bytes * value -> Prop) : forall l l',
    Forall P l -> sort_keys l = Some l' -> Forall P l'.
  Proof.
    induction l as [|k r IH]; intros l' Hl E; cbn [sort_keys] in E.
    - injection E as <-. constructor.
    - inversion Hl as [|? ? Hk Hr]; subst.
      destruct (sort_keys r) as [r'|] eqn:Er; [|discriminate].
      eapply ins_key_Forall; [exact Hk | | exact E]. apply IH; auto.
  Qed.
  Lemma printed_keys_Forall st (g : value -> option bytes) : forall m ks,
    map_ok st m ->
    all_some (map (fun kv : value * value =>
                     match g (fst kv) with Some s => Some (s, fst kv) | None => None end) m) = Some ks ->
    Forall (fun p : bytes * value => val_ok st (snd p)) ks.
  Proof.
    induction m as [|kv r IH]; intros ks Hm E; cbn [map all_some] in E.
    - injection E as <-. constructor.
    - inversion Hm as [|? ? [Hk _] Hr]; subst.
      destruct (g (fst kv)) as [s|]; [|discriminate].
      destruct (all_some _) as [x|] eqn:Ex; [|discriminate].
      injection E as <-. constructor; [exact Hk|]. apply IH; auto.
  Qed.
  Lemma sorted_keys_ok st (g : value -> option bytes) m ks sorted :
    map_ok st m ->
    all_some (map (fun kv : value * value =>
                     match g (fst kv) with Some s => Some (s, fst kv) | None => None end) m) = Some ks ->
    sort_keys ks = Some sorted -> vals_ok st (map snd sorted).
  Proof.
    intros Hm E1 E2. unfold vals_ok. apply Forall_map.
    eapply sort_keys_Forall; [|exact E2]. eapply printed_keys_Forall; eauto.
  Qed.

  (* ---------------------------------------------------------------- iterator modes *)
  Definition mode_ok (st : state) (mode : itmode) : Prop :=
    match mode with
    | ItRange => True
    | ItList a len => arr_ok st a len
    | ItMap id keys => val_ok st (VMap id) /\ vals_ok st keys
    | ItOne v => val_ok st v
    end.
  Lemma mode_ok_le st st' : st_le st st' -> forall m, mode_ok st m -> mode_ok st' m.
  Proof.
    intros L m. destruct m; cbn [mode_ok]; auto.
    - apply arr_ok_le; exact L.
    - intros [H1 H2]. split; [eapply val_ok_le | eapply vals_ok_le]; eauto.
    - apply val_ok_le; exact L.
  Qed.
  Definition Qnext : value + error -> state -> Prop :=
    fun r st' => match r with inl v => val_ok st' v | inr e => err_ok st' e end.
  Definition Qexc : bool * option error -> state -> Prop := fun h st' => oerr_ok st' (snd h).

  (* after a step: carry the facts over, mode_ok included *)
  Ltac mstep L :=
    match type of L with
    | st_le ?s ?s' =>
      repeat match goal with
      | H : mode_ok s _ |- _ => apply (mode_ok_le _ _ L) in H
      end
    end; adv L; clear L.

  (* ---------------------------------------------------------------- assigning loop variables *)
  Lemma T_set_each vars : forall st k cells len s,
    len <= length cells -> vals_ok st cells -> sc_ok st s ->
    T st (set_each vars k cells len s) Qtrue.
  Proof.
    induction vars as [|x r IH]; intros st k cells len s L V Hs; cbn [set_each].
    - apply T_ret. exact I.
    - apply Tb_lift. pose proof (go_index_ok st cells len (Z.of_nat k) L V) as G.
      destruct (go_index cells len (Z.of_nat k)) as [v| | | | |]; unfold rpostI, Qval in G;
        try exact G; try exact I.
      tbind (apply T_set_value; assumption) as u Hu. apply IH; assumption.
  Qed.
  Lemma T_assign_multi st vars v s :
    val_ok st v -> sc_ok st s ->
    T st (match v with
          | VList a len =>
            if Nat.eqb (length vars) len then bind (get_arr a) (fun cells => set_each vars 0 cells len s)
            else fail EPlain
          | _ => fail EPlain
          end) Qtrue.
  Proof.
    intros Hv Hs. destruct v; try (apply T_fail; exact I).
    destruct (Nat.eqb (length vars) len); [|apply T_fail; exact I].
    eapply Tb_get_arr; [exact Hv|]. intros cells E L V. apply T_set_each; assumption.
  Qed.
  Lemma T_assign_vars st vars v s : val_ok st v -> sc_ok st s -> T st (assign_vars vars v s) Qtrue.
  Proof.
    intros Hv Hs. unfold assign_vars.
    tbind (apply T_attempt with (Q := Qtrue); destruct vars as [|x [|y r]];
           [apply T_assign_multi | apply T_set_value | apply T_assign_multi]; assumption) as r Hr.
    destruct r; [apply T_ret; exact I | apply T_fail; exact I].
  Qed.

  Section WithEv.
    Variable ev : evalT.
    Hypothesis Hev : forall p n s i st,
      tok n = true -> sc_ok st s -> is_ok st i -> T st (ev p n s i) Qval.

    (* ---------------------------------------------------------------- loops *)
    Lemma T_guard_loop k : forall st p g body s i,
      tok g = true -> tok body = true -> sc_ok st s -> is_ok st i ->
      T st (guard_loop ev k p g body s i) Qtrue.
    Proof.
      induction k as [|k IH]; intros st p g body s i Hg Hb Hs Hi; cbn [guard_loop].
      - apply T_fuel.
      - tbind (apply Hev; assumption) as gv Hgv.
        apply Tb_lift. pose proof (go_assert_bool_cases S_ASSERT_BOOL gv) as G.
        destruct (go_assert_bool S_ASSERT_BOOL gv) as [bb| | | | |]; try contradiction; try exact I.
        destruct bb; [|apply T_ret; exact I].
        tbind (apply T_attempt; apply Hev; assumption) as r Hr.
        destruct r as [v|e]; [apply IH; assumption|].
        destruct (is_rt e T_CONT); [apply IH; assumption | apply T_fail; exact Hr].
    Qed.

    Lemma T_iter_next st mode index ip it s i :
      mode_ok st mode -> tok it = true -> sc_ok st s -> is_ok st i ->
      T st (iter_next ev mode index ip it s i) Qnext.
    Proof.
      intros Hm Hit Hs Hi. unfold iter_next. destruct mode as [|a len|id keys|v]; cbn [mode_ok] in Hm.
      - tbind (apply T_attempt; apply Hev; assumption) as r Hr.
        destruct r as [v|e]; [apply T_ret; exact Hr|].
        destruct (is_rt e T_ISITER); apply T_ret; [apply acc_of_ok; exact Hr | exact Hr].
      - destruct (index <? len); [|apply T_ret; exact I].
        eapply Tb_get_arr; [exact Hm|]. intros cells E L V.
        apply Tb_lift. pose proof (go_index_ok st cells len (Z.of_nat index) L V) as G.
        destruct (go_index cells len (Z.of_nat index)) as [v| | | | |]; unfold rpostI, Qval in G;
          try exact G; try exact I.
        apply T_ret. exact G.
      - destruct Hm as [Hid Hkeys].
        destruct (nth_error keys index) as [k|] eqn:Ek; [|apply T_ret; exact I].
        eapply Tb_get_map; [exact Hid|]. intros m Em Hmm.
        tbind (apply T_alloc_arr; constructor; [exact (Forall_nth _ _ _ _ Hkeys Ek)|];
               constructor; [|constructor];
               destruct (m_get k m) as [w|] eqn:Ew; [exact (m_get_ok _ _ _ _ Hmm Ew) | exact I]) as a HQ.
        apply T_ret. unfold Qnext. cbn [val_ok]. eexists. split; [exact HQ | cbn [length]; lia].
      - destruct (Nat.eqb index 0); apply T_ret; [exact Hm | exact I].
    Qed.

    Lemma T_iter_loop k : forall st mode index p it body vars s i,
      mode_ok st mode -> tok it = true -> tok body = true -> sc_ok st s -> is_ok st i ->
      T st (iter_loop ev k mode index p it body vars s i) Qval.
    Proof.
      induction k as [|k IH]; intros st mode index p it body vars s i Hm Hit Hb Hs Hi;
        cbn [iter_loop]; cbv zeta.
      - apply T_fuel.
      - eapply T_bind; [apply T_iter_next; assumption|].
        intros nx st1 Hok1 L1 HQ. unfold Qnext in HQ. mstep L1.
        destruct nx as [v|e].
        + eapply T_bind; [apply T_assign_vars; assumption|].
          intros u st2 Hok2 L2 _. mstep L2.
          eapply T_bind; [apply T_attempt; apply Hev; assumption|].
          intros r st3 Hok3 L3 Hr. mstep L3.
          destruct r as [w|e]; [apply IH; assumption|].
          destruct (is_rt e T_CONT); [apply IH; assumption|].
          destruct (is_rt e T_EOI); [apply T_ret; exact I | apply T_fail; exact Hr].
        + destruct (is_rt e T_CONT); [apply IH; assumption|].
          destruct (is_rt e T_EOI); [apply T_ret; exact I | apply T_fail; exact HQ].
    Qed.

    Lemma T_eval_loop st f p n s i0 :
      tok n = true -> n_name n = NodeLOOP -> sc_ok st s -> is_ok st i0 ->
      T st (eval_loop ev f p (n_children n) s i0) Qval.
    Proof.
      intros Hn Hname Hs Hi0.
      destruct (tok_loop n Hn Hname) as (h & body & rest & E & Hh & Hb). rewrite E.
      unfold eval_loop.
      tbind (apply T_new_child; assumption) as c Hc.
      tbind (apply T_alloc_is) as i Hi.
      destruct (is_name h NodeGUARD).
      { tbind (apply T_attempt; apply T_guard_loop; assumption) as r Hr.
        destruct r as [u|e]; [apply T_ret; exact I|].
        destruct (is_rt e T_EOI); [apply T_ret; exact I | apply T_fail; exact Hr]. }
      destruct (is_name h NodeIN) eqn:Ein; [|apply T_ret; exact I].
      destruct (tok_two_k h NodeIN Hh Ein eq_refl) as (v & it & Ek & Hv & Hit). rewrite Ek. cbv zeta.
      tbind (apply T_attempt; apply Hev; assumption) as r Hr.
      destruct r as [w|e].
      - destruct w; try (apply T_iter_loop; try assumption; exact Hr).
        (* a map: its keys in the order of their printed form *)
        eapply Tb_get_map; [exact Hr|]. intros m Em Hm. apply Tb_get_st.
        destruct (all_some _) as [ks|] eqn:Eks; [|apply T_unmod].
        destruct (sort_keys ks) as [sorted|] eqn:Esort; [|apply T_unmod].
        apply T_iter_loop; try assumption. split; [exact Hr|].
        exact (sorted_keys_ok _ (sprint 8 _) _ _ _ Hm Eks Esort).
      - destruct (is_rt e T_ISITER).
        + destruct (is_name it NodeIDENTIFIER); [|apply T_unmod].
          apply T_iter_loop; try assumption. exact I.
        + destruct (is_rt e T_EOI); [apply T_ret; exact I | apply T_fail; exact Hr].
    Qed.

    (* ---------------------------------------------------------------- try *)
    Lemma T_except_kids ep kids : forall st idx s i eo ty hit ht evar ne,
      toks kids -> val_ok st eo -> oerr_ok st ne -> sc_ok st s -> is_ok st i ->
      T st (except_kids ev ep idx kids s i eo ty hit ht evar ne) Qexc.
    Proof.
      induction kids as [|c r IH]; intros st idx s i eo ty hit ht evar ne Hk Heo Hne Hs Hi;
        cbn [except_kids].
      - apply T_ret. exact Hne.
      - inversion Hk as [|? ? Hc Hk']; subst.
        destruct (is_name c NodeSTRING).
        { destruct hit; [apply IH; assumption|].
          apply Tb_lift. pose proof (go_assert_ok_string_cases c) as G.
          destruct (go_assert_ok (eval_string c)) as [sv| | | | |]; try contradiction; try exact I.
          cbv zeta. apply IH; assumption. }
        destruct (is_name c NodeAS) eqn:Eas.
        { destruct (tok_some_k c NodeAS Hc Eas eq_refl eq_refl eq_refl eq_refl) as (x & r' & Ex & _ & _).
          rewrite Ex. apply IH; assumption. }
        destruct (is_name c NodeIDENTIFIER); [apply IH; assumption|].
        destruct (is_name c NodeSTATEMENTS); [|apply IH; assumption].
        cbv zeta. destruct (if ht then hit else true); [|apply IH; assumption].
        tbind (apply T_new_child; assumption) as evs Hevs.
        eapply T_bind with (Q := Qtrue).
        { destruct evar as [|b0 evar']; [apply T_ret; exact I|].
          tbind (apply T_attempt with (Q := Qtrue); apply T_set_value; assumption) as u Hu.
          apply T_ret. exact I. }
        intros u st2 Hok2 L2 _. adv L2. clear L2.
        tbind (apply T_attempt; apply Hev; assumption) as b Hb.
        apply IH; try assumption. destruct b; [exact I | exact Hb].
    Qed.

    Lemma T_try_excepts p kids : forall st idx s i e eo,
      toks kids -> err_ok st e -> val_ok st eo -> sc_ok st s -> is_ok st i ->
      T st (try_excepts ev p idx kids s i e eo) Qval.
    Proof.
      induction kids as [|c r IH]; intros st idx s i e eo Hk He Heo Hs Hi; cbn [try_excepts].
      - apply T_fail. exact He.
      - inversion Hk as [|? ? Hc Hk']; subst.
        destruct (is_name c NodeEXCEPT); [|apply IH; assumption].
        tbind (apply T_except_kids; try assumption; [apply tok_kids; exact Hc | exact I]) as h Hh.
        unfold Qexc in Hh.
        destruct (fst h); [|apply IH; assumption].
        destruct (snd h) as [ne|]; [apply T_fail; exact Hh | apply T_ret; exact I].
    Qed.

    Lemma T_try_otherwise p kids : forall st idx s i,
      toks kids -> sc_ok st s -> is_ok st i -> T st (try_otherwise ev p idx kids s i) Qtrue.
    Proof.
      induction kids as [|c r IH]; intros st idx s i Hk Hs Hi; cbn [try_otherwise].
      - apply T_ret. exact I.
      - inversion Hk as [|? ? Hc Hk']; subst.
        destruct (is_name c NodeOTHERWISE) eqn:Eo; [|apply IH; assumption].
        destruct (tok_some_k c NodeOTHERWISE Hc Eo eq_refl eq_refl eq_refl eq_refl) as (b & r' & Eb & Hb & _).
        rewrite Eb.
        tbind (apply T_new_child; assumption) as ovs Ho.
        tbind (apply Hev; assumption) as v Hv. apply T_ret. exact I.
    Qed.

    Lemma T_try_main st p body rest s i :
      tok body = true -> toks rest -> sc_ok st s -> is_ok st i ->
      T st (try_main ev p body rest s i) Qval.
    Proof.
      intros Hb Hrest Hs Hi. unfold try_main.
      tbind (apply T_new_child; assumption) as tvs Ht.
      tbind (apply T_attempt; apply Hev; assumption) as r Hr.
      destruct r as [v|e].
      - tbind (apply T_try_otherwise; assumption) as u Hu. apply T_ret. exact Hr.
      - destruct (is_flow e); [apply T_fail; exact Hr|].
        tbind (apply T_make_errobj; exact Hr) as eo Heo.
        apply T_try_excepts; assumption.
    Qed.

    Lemma T_eval_try st p n s i :
      tok n = true -> n_name n = NodeTRY -> sc_ok st s -> is_ok st i ->
      T st (eval_try ev p (n_children n) s i) Qval.
    Proof.
      intros Hn Hname Hs Hi.
      assert (Hsome : exists c r, n_children n = c :: r /\ tok c = true /\ toks r)
        by (apply tok_some; [exact Hn | rewrite Hname; reflexivity ..]).
      destruct Hsome as (body & rest & E & Hb & Hrest).
      rewrite E. unfold eval_try. cbv zeta.
      assert (Hfin : tok (last (body :: rest) body) = true)
        by (apply tok_last; [constructor; assumption | exact Hb]).
      destruct (is_name (last (body :: rest) body) NodeFINALLY) eqn:Ef; [|apply T_try_main; assumption].
      destruct (tok_some_k _ NodeFINALLY Hfin Ef eq_refl eq_refl eq_refl eq_refl) as (fb & r' & Efb & Hfb & _).
      rewrite Efb.
      tbind (apply T_new_child; assumption) as fvs Hf.
      tbind (apply T_attempt; apply T_try_main; assumption) as r Hr.
      destruct r as [v|e];
        (tbind (apply T_attempt; apply Hev; assumption) as fr Hfr;
         destruct fr as [w|fe]; [|apply T_fail; exact Hfr]);
        [apply T_ret | apply T_fail]; exact Hr.
    Qed.
  End WithEv.
End I5.

Print Assumptions T_eval_loop.
Print Assumptions T_eval_try.
