(* Proofs/InterpProofs.v — the interpreter model never yields a Panic outcome.

   [np m]: the computation m, started in ANY state, does not end in [RPanic].  It composes
   through bind without any invariant on the state, because every partial Go operation of the
   model (go_index, go_slice_bound, go_assert_bool, go_iface_eq, go_map_key, go_mod,
   go_assert_ok) is dominated by the check the Go code makes before it; the lemmas below show,
   site by site, that the check suffices.  The only fact about sub-evaluations that a caller
   relies on is [Qn]: a node of kind "guard" evaluates to a boolean (guardres.(bool) in
   ifRuntime / loopRuntime); it is part of the induction (on the fuel). *)
From Coq Require Import List String NArith ZArith Bool Arith Lia.
From Ecal Require Import Common.Bytes Common.Ast gen.Tokens Model.Interp.
Import ListNotations.
Local Open Scope string_scope.
Local Open Scope list_scope.
Local Open Scope nat_scope.

Section P.
  Context {NO : NumOps}.

  Definition post {A} (m : M A) (Q : A -> Prop) : Prop :=
    forall st, match fst (m st) with
               | ROk a => Q a
               | RPanic _ => False
               | _ => True
               end.
  Definition np {A} (m : M A) : Prop := post m (fun _ => True).

  Definition rnp {A} (r : res A) : Prop := match r with RPanic _ => False | _ => True end.
  Definition rpost {A} (r : res A) (Q : A -> Prop) : Prop :=
    match r with ROk a => Q a | RPanic _ => False | _ => True end.

  Lemma post_weaken {A} (m : M A) (Q R : A -> Prop) :
    post m Q -> (forall a, Q a -> R a) -> post m R.
  Proof.
    intros H HQ st. specialize (H st). destruct (fst (m st)); auto.
  Qed.
  Lemma post_np {A} (m : M A) Q : post m Q -> np m.
  Proof. intros H. eapply post_weaken; eauto. Qed.

  Lemma post_ret {A} (a : A) (Q : A -> Prop) : Q a -> post (ret a) Q.
  Proof. intros H st. exact H. Qed.
  Lemma np_ret {A} (a : A) : np (ret a).
  Proof. apply post_ret. exact I. Qed.
  Lemma post_lift {A} (r : res A) Q : rpost r Q -> post (lift r) Q.
  Proof. intros H st. exact H. Qed.
  Lemma np_lift {A} (r : res A) : rnp r -> np (lift r).
  Proof. intros H st. cbn. destruct r; auto. Qed.
  Lemma post_fail {A} e (Q : A -> Prop) : post (fail e) Q.
  Proof. intros st. exact I. Qed.
  Lemma post_unmod {A} w (Q : A -> Prop) : post (unmod w) Q.
  Proof. intros st. exact I. Qed.
  Lemma post_invalid {A} w (Q : A -> Prop) : post (invalid w) Q.
  Proof. intros st. exact I. Qed.
  Lemma post_fuel {A} (Q : A -> Prop) : post (lift RFuel) Q.
  Proof. intros st. exact I. Qed.

  Lemma post_bind {A B} (m : M A) (f : A -> M B) (Q : A -> Prop) (R : B -> Prop) :
    post m Q -> (forall a, Q a -> post (f a) R) -> post (bind m f) R.
  Proof.
    intros Hm Hf st. unfold bind. specialize (Hm st).
    destruct (m st) as [r st']. cbn in *. destruct r; cbn; auto.
    apply (Hf a Hm st').
  Qed.
  Lemma np_bind {A B} (m : M A) (f : A -> M B) :
    np m -> (forall a, np (f a)) -> np (bind m f).
  Proof. intros Hm Hf. eapply post_bind; [exact Hm | intros a _; apply Hf]. Qed.
  Lemma post_bind_np {A B} (m : M A) (f : A -> M B) (R : B -> Prop) :
    np m -> (forall a, post (f a) R) -> post (bind m f) R.
  Proof. intros Hm Hf. eapply post_bind; [exact Hm | intros a _; apply Hf]. Qed.

  Lemma post_attempt {A} (m : M A) (Q : A -> Prop) :
    post m Q -> post (attempt m) (fun r => match r with inl a => Q a | inr _ => True end).
  Proof.
    intros H st. unfold attempt. specialize (H st).
    destruct (m st) as [r st']. cbn in *. destruct r; cbn; auto.
  Qed.
  Lemma np_attempt {A} (m : M A) : np m -> np (attempt m).
  Proof. intros H. eapply post_np. apply post_attempt. exact H. Qed.

  Lemma np_get_st : np get_st.
  Proof. intros st. exact I. Qed.
  Lemma np_put_st s : np (put_st s).
  Proof. intros st. exact I. Qed.
  Lemma np_of_opt {A} w (o : option A) : np (of_opt w o).
  Proof. destruct o; [apply np_ret | apply post_invalid]. Qed.
  Lemma np_of_opt_u {A} w (o : option A) : np (of_opt_u w o).
  Proof. destruct o; [apply np_ret | apply post_unmod]. Qed.

  (* ---- the proof tactic: structural steps only; the partial operations are closed by hand *)
  Ltac np_hyp :=
    match goal with
    | H : forall p n s i, np (?e p n s i) |- np (?e _ _ _ _) => apply H
    | H : np ?m |- np ?m => exact H
    | H : forall a, np (?f a) |- np (?f _) => apply H
    | H : forall a b, np (?f a b) |- np (?f _ _) => apply H
    end.

  Ltac np1 :=
    first
      [ np_hyp
      | apply np_ret | apply post_fail | apply post_unmod | apply post_invalid | apply post_fuel
      | apply np_get_st | apply np_put_st | apply np_of_opt | apply np_of_opt_u
      | solve [auto with npdb nocore]
      | apply np_attempt
      | apply np_bind; [| intro]
      | match goal with |- np (match ?x with _ => _ end) => is_var x; destruct x end
      | match goal with |- np (match ?x with _ => _ end) => destruct x eqn:? end
      | match goal with |- np (if ?b then _ else _) => destruct b eqn:? end
      | match goal with |- np (let _ := _ in _) => cbv zeta end
      | match goal with |- np (fun st => _) => fail 1 end ].
  Ltac np := repeat np1.
  (* case analysis on the variables a definition matches on; what np cannot close is left *)
  Ltac np_cases :=
    repeat match goal with |- np (match ?x with _ => _ end) => is_var x; destruct x end;
    try solve [np].

  (* ---- arenas *)
  Lemma np_get_arr a : np (get_arr a).        Proof. unfold get_arr. np. Qed.
  Lemma np_set_arr a c : np (set_arr a c).    Proof. unfold set_arr. np. Qed.
  Lemma np_alloc_arr c : np (alloc_arr c).    Proof. unfold alloc_arr. np. Qed.
  Lemma np_get_map a : np (get_map a).        Proof. unfold get_map. np. Qed.
  Lemma np_set_map a c : np (set_map a c).    Proof. unfold set_map. np. Qed.
  Lemma np_alloc_map c : np (alloc_map c).    Proof. unfold alloc_map. np. Qed.
  Lemma np_get_fun a : np (get_fun a).        Proof. unfold get_fun. np. Qed.
  Lemma np_alloc_fun c : np (alloc_fun c).    Proof. unfold alloc_fun. np. Qed.
  Lemma np_get_scope a : np (get_scope a).    Proof. unfold get_scope. np. Qed.
  Lemma np_set_scope a c : np (set_scope a c). Proof. unfold set_scope. np. Qed.
  Lemma np_alloc_scope c : np (alloc_scope c). Proof. unfold alloc_scope. np. Qed.
  Lemma np_get_is a : np (get_is a).          Proof. unfold get_is. np. Qed.
  Lemma np_set_is a c : np (set_is a c).      Proof. unfold set_is. np. Qed.
  Lemma np_alloc_is : np alloc_is.            Proof. unfold alloc_is. np. Qed.
  Hint Resolve np_get_arr np_set_arr np_alloc_arr np_get_map np_set_map np_alloc_map np_get_fun
       np_alloc_fun np_get_scope np_set_scope np_alloc_scope np_get_is np_set_is np_alloc_is : npdb.

  (* ---- the partial operations under their guards *)
  Lemma go_index_guarded cells len i :
    (0 <=? i)%Z && (i <? Z.of_nat len)%Z = true -> rnp (go_index cells len i).
  Proof.
    intros H. unfold go_index. rewrite H. destruct (nth_error cells (Z.to_nat i)); exact I.
  Qed.
  Lemma go_slice_bound_guarded len i :
    (0 <= i)%Z -> (i <= Z.of_nat len)%Z -> rnp (go_slice_bound len i).
  Proof.
    intros H1 H2. unfold go_slice_bound.
    replace ((0 <=? i)%Z && (i <=? Z.of_nat len)%Z) with true; [exact I|].
    symmetry. apply andb_true_intro. split; apply Z.leb_le; assumption.
  Qed.
  Lemma go_iface_eq_guarded a b : uncomparable a b = false -> rnp (go_iface_eq a b).
  Proof. destruct a, b; cbn; intros H; try exact I; discriminate. Qed.
  Lemma go_map_key_guarded k : hashable k = true -> rnp (go_map_key k).
  Proof. destruct k; cbn; intros H; try exact I; discriminate. Qed.
  Lemma go_mod_guarded a b : (b =? 0)%Z = false -> rnp (go_mod a b).
  Proof. intros H. unfold go_mod. rewrite H. exact I. Qed.
  Lemma go_assert_bool_ok site b : rpost (go_assert_bool site (VBool b)) (fun _ => True).
  Proof. exact I. Qed.
  Lemma eval_string_no_error n : match eval_string n with RErr _ => False | RPanic _ => False | _ => True end.
  Proof.
    unfold eval_string. destruct (n_allow_esc n); [|exact I].
    destruct (find_sub _ (n_val n)) as [[? post]|]; [|exact I].
    destruct (find_sub _ post); exact I.
  Qed.
  Lemma go_assert_ok_string n : rnp (go_assert_ok (eval_string n)).
  Proof.
    pose proof (eval_string_no_error n) as H. unfold go_assert_ok.
    destruct (eval_string n); auto.
  Qed.

  (* ---- slices, text *)
  Lemma np_slice_append a len vs : np (slice_append a len vs).
  Proof. unfold slice_append. np. Qed.
  Lemma np_sprint_m v : np (sprint_m v).
  Proof. unfold sprint_m. np. Qed.
  Hint Resolve np_slice_append np_sprint_m : npdb.

  (* ---- scope/varsscope.go *)
  Lemma np_scope_for_m s name : np (scope_for_m s name).
  Proof.
    unfold scope_for_m. apply np_bind; [np|]. intros st. apply np_lift.
    generalize (S (length (st_scopes st))). intros d. revert s.
    induction d as [|d IH]; intros s; cbn; [exact I|].
    destruct (nth_error (st_scopes st) s); [|exact I].
    destruct (v_get name (sc_vars s0)); [exact I|].
    destruct (sc_parent s0); [apply IH | exact I].
  Qed.
  Hint Resolve np_scope_for_m : npdb.
  Lemma np_lookup_simple s name : np (lookup_simple s name).
  Proof. unfold lookup_simple. np. Qed.
  Hint Resolve np_lookup_simple : npdb.

  Lemma list_index_range len f i :
    list_index len f = Some i -> (0 <=? i)%Z && (i <? Z.of_nat len)%Z = true.
  Proof.
    unfold list_index. destruct (atoi f); [|discriminate].
    match goal with |- (if ?c then _ else _) = _ -> _ => destruct c eqn:E end; [|discriminate].
    intros H. injection H as <-. exact E.
  Qed.

  Lemma np_list_step a len f :
    np (match list_index len f with
        | None => fail EPlain
        | Some i => bind (get_arr a) (fun cells => lift (go_index cells len i))
        end).
  Proof.
    destruct (list_index len f) eqn:E; [|np].
    apply np_bind; [np|]. intros cells. apply np_lift. apply go_index_guarded.
    eapply list_index_range; eauto.
  Qed.

  Lemma np_access_get fields : forall c, np (access_get fields c).
  Proof.
    induction fields as [|f rest IH]; intros c; cbn [access_get]; [np|].
    apply np_bind.
    - destruct c; try solve [np]. apply np_list_step.
    - intros r. destruct rest; [np | apply IH].
  Qed.
  Lemma np_access_container fields : forall c, np (access_container fields c).
  Proof.
    induction fields as [|f rest IH]; intros c; cbn [access_container]; [np|].
    apply np_bind.
    - destruct c; try solve [np]. apply np_list_step.
    - intros r. apply IH.
  Qed.
  Hint Resolve np_access_get np_access_container : npdb.

  Lemma np_get_value s v : np (get_value s v).
  Proof. unfold get_value. np. Qed.
  Lemma np_set_simple s n v : np (set_simple s n v).
  Proof. unfold set_simple. np. Qed.
  Hint Resolve np_get_value np_set_simple : npdb.
  Lemma np_set_value s n v : np (set_value s n v).
  Proof.
    unfold set_value.
    destruct (split_dot n) as [|c0 [|f1 fields]]; [np | np |].
    apply np_bind; [np|]. intros r.
    destruct (negb (snd r)); [np|].
    apply np_bind; [np|]. intros cont.
    destruct cont; try solve [np].
    destruct (list_index len (last (f1 :: fields) [])) eqn:E; [|np].
    apply np_bind; [np|]. intros cells.
    apply np_bind; [|intros; np].
    apply np_lift. apply go_index_guarded. eapply list_index_range; eauto.
  Qed.
  Hint Resolve np_set_value : npdb.
  Lemma np_set_local_nil s n : np (set_local_nil s n).
  Proof. unfold set_local_nil. np. Qed.
  Lemma np_new_child s k : np (new_child s k).
  Proof. unfold new_child. np. Qed.
  Lemma np_new_root : np new_root.
  Proof. unfold new_root. np. Qed.
  Lemma np_set_parent s p : np (set_parent s p).
  Proof. unfold set_parent. np. Qed.
  Hint Resolve np_set_local_nil np_new_child np_new_root np_set_parent : npdb.

  (* ---- built-in functions *)
  Lemma np_assert_num v : np (assert_num v).
  Proof. unfold assert_num. np. Qed.
  Hint Resolve np_assert_num : npdb.
  Lemma np_b_range self is args : np (b_range self is args).
  Proof. unfold b_range. np. Qed.
  Lemma np_b_len args : np (b_len args).
  Proof. unfold b_len. np. Qed.

  Lemma np_b_del args : np (b_del args).
  Proof.
    unfold b_del. np_cases.
    apply np_bind; [np|]. intros o. destruct o as [x|]; [|np].
    destruct ((0 <=? n_trunc x)%Z && (n_trunc x <? Z.of_nat len)%Z) eqn:E; [|np].
    apply andb_prop in E. destruct E as [E1 E2].
    apply Z.leb_le in E1. apply Z.ltb_lt in E2.
    apply np_bind; [np|]. intros cells.
    destruct (length cells <? len) eqn:E3; [np|].
    apply Nat.ltb_ge in E3.
    apply np_bind; [apply np_lift; apply go_slice_bound_guarded; lia|]. intros _.
    apply np_bind; [apply np_lift; apply go_slice_bound_guarded; lia|]. intros _.
    np.
  Qed.

  Lemma np_b_add args : np (b_add args).
  Proof.
    unfold b_add. np_cases.
    apply np_bind; [np|]. intros o. destruct o as [x|]; [|np].
    destruct ((0 <=? n_trunc x)%Z && (n_trunc x <=? Z.of_nat len)%Z) eqn:E; [|np].
    apply andb_prop in E. destruct E as [E1 E2].
    apply Z.leb_le in E1. apply Z.leb_le in E2.
    apply np_bind; [np|]. intros r.
    apply np_bind; [np|]. intros cells.
    apply np_bind; [apply np_lift; apply go_slice_bound_guarded; lia|]. intros _.
    np.
  Qed.

  Lemma np_concat_go args : forall a len, np (concat_go a len args).
  Proof.
    induction args as [|x r IH]; intros a len; cbn [concat_go]; [np|].
    destruct x; np.
  Qed.
  Hint Resolve np_concat_go : npdb.
  Lemma np_b_concat args : np (b_concat args).
  Proof. unfold b_concat. np. Qed.
  Lemma np_b_raise args : np (b_raise args).
  Proof. unfold b_raise. np. Qed.
  Lemma np_b_type args : np (b_type args).
  Proof. unfold b_type. np. Qed.
  Hint Resolve np_b_range np_b_len np_b_del np_b_add np_b_concat np_b_raise np_b_type : npdb.

  Lemma np_make_errobj e : np (make_errobj e).
  Proof. unfold make_errobj. np. Qed.
  Hint Resolve np_make_errobj : npdb.

  (* ---------------------------------------------------------------- one level of evaluation *)
  Definition is_bool (v : value) : Prop := exists b, v = VBool b.
  (* what callers rely on about the value of a node: a guard yields a boolean *)
  Definition Qn (n : node) (v : value) : Prop := is_name n NodeGUARD = true -> is_bool v.

  Section WithEv.
    Variable ev : evalT.
    Hypothesis Hev : forall p n s i, post (ev p n s i) (Qn n).

    Lemma Hnp : forall p n s i, np (ev p n s i).
    Proof. intros. eapply post_np. apply Hev. Qed.
    Hint Resolve Hnp : npdb.

    Lemma ev_guard_bool p g s i : is_name g NodeGUARD = true -> post (ev p g s i) is_bool.
    Proof. intros H. eapply post_weaken; [apply Hev|]. intros a Ha. exact (Ha H). Qed.

    (* guardres.(bool) after the evaluation of a guard node *)
    Lemma np_guarded_assert {B} p g s i site (k : bool -> M B) :
      is_name g NodeGUARD = true -> (forall b, np (k b)) ->
      np (bind (ev p g s i) (fun gv => bind (lift (go_assert_bool site gv)) k)).
    Proof.
      intros Hg Hk. eapply post_bind; [apply ev_guard_bool; exact Hg|].
      intros a [b ->]. cbn. apply np_bind; [apply np_lift; exact I | exact Hk].
    Qed.

    (* ---- operators *)
    Lemma np_operands2 p cs s i : np (operands2 ev p cs s i).
    Proof. unfold operands2. np. Qed.
    Hint Resolve np_operands2 : npdb.
    Lemma np_num_op p cs s i op : (forall x y, np (op x y)) -> np (num_op ev p cs s i op).
    Proof. intros H. unfold num_op. np. Qed.
    Lemma np_num_val p cs s i op : np (num_val ev p cs s i op).
    Proof. unfold num_val. np. Qed.
    Lemma np_bool_val p cs s i : np (bool_val ev p cs s i).
    Proof. unfold bool_val. np. Qed.
    Lemma np_bool_op p cs s i op : np (bool_op ev p cs s i op).
    Proof. unfold bool_op. np. Qed.
    Lemma np_str_op p cs s i op : np (str_op ev p cs s i op).
    Proof. unfold str_op. np. Qed.
    Hint Resolve np_num_val np_bool_val np_bool_op np_str_op : npdb.
    Lemma np_cmp_op p cs s i f g : np (cmp_op ev p cs s i f g).
    Proof. unfold cmp_op. apply np_bind; [apply np_attempt; apply np_num_op; intros; np|]. intros r. np. Qed.
    Lemma np_gen_op p cs s i neg : np (gen_op ev p cs s i neg).
    Proof.
      unfold gen_op. apply np_bind; [np|]. intros pr.
      destruct (uncomparable (fst pr) (snd pr)) eqn:E; [np|].
      apply np_bind; [apply np_lift; apply go_iface_eq_guarded; exact E | intros; np].
    Qed.
    Lemma post_in_loop v l : post (in_loop v l) is_bool.
    Proof.
      induction l as [|x r IH]; cbn [in_loop]; [apply post_ret; eexists; reflexivity|].
      destruct (uncomparable v x) eqn:E; [apply post_fail|].
      eapply post_bind_np; [apply np_lift; apply go_iface_eq_guarded; exact E|].
      intros b. destruct b; [apply post_ret; eexists; reflexivity | exact IH].
    Qed.
    Lemma post_in_op p cs s i : post (in_op ev p cs s i) is_bool.
    Proof.
      unfold in_op. eapply post_bind_np; [np|]. intros pr.
      destruct (snd pr); try apply post_fail.
      eapply post_bind_np; [np|]. intros cells.
      destruct (length cells <? len); [apply post_invalid | apply post_in_loop].
    Qed.
    Lemma np_in_op p cs s i : np (in_op ev p cs s i).
    Proof. eapply post_np. apply post_in_op. Qed.
    Hint Resolve np_in_op : npdb.
    Lemma np_notin_op p cs s i : np (notin_op ev p cs s i).
    Proof.
      unfold notin_op. eapply post_bind; [apply post_in_op|].
      intros a [b ->]. cbn. apply np_bind; [apply np_lift; exact I | intros; np].
    Qed.
    Lemma np_mod_op p cs s i : np (mod_op ev p cs s i).
    Proof.
      unfold mod_op. apply np_num_op. intros x y. cbv zeta.
      destruct (n_trunc y =? 0)%Z eqn:E; [np|].
      apply np_bind; [apply np_lift; apply go_mod_guarded; exact E | intros; np].
    Qed.
    Hint Resolve np_cmp_op np_gen_op np_notin_op np_mod_op : npdb.

    (* ---- literals *)
    Lemma np_eval_items p items : forall idx s i a len, np (eval_items ev p idx items s i a len).
    Proof. induction items as [|x r IH]; intros; cbn [eval_items]; np. Qed.
    Hint Resolve np_eval_items : npdb.
    Lemma np_eval_list p cs s i : np (eval_list ev p cs s i).
    Proof. unfold eval_list. np. Qed.
    Lemma np_eval_kvps p kvps : forall idx s i id, np (eval_kvps ev p idx kvps s i id).
    Proof.
      induction kvps as [|x r IH]; intros; cbn [eval_kvps]; [np|].
      destruct (n_children x) as [|k [|v [|? ?]]]; try solve [np].
      destruct (is_name x NodeKVP); [|np].
      apply np_bind; [np|]. intros key. apply np_bind; [np|]. intros val.
      destruct (hashable key) eqn:E; [|np].
      apply np_bind; [apply np_lift; apply go_map_key_guarded; exact E|]. intros _. np.
    Qed.
    Hint Resolve np_eval_kvps : npdb.
    Lemma np_eval_map p cs s i : np (eval_map ev p cs s i).
    Proof. unfold eval_map. np. Qed.
    Hint Resolve np_eval_list np_eval_map : npdb.

    (* ---- identifiers *)
    Lemma np_build_kids brec (Hb : forall sj acc, np (brec sj acc)) kids :
      forall cur idx acc s i, np (build_kids ev brec cur idx kids acc s i).
    Proof. induction kids as [|c r IH]; intros; cbn [build_kids]; np. Qed.
    Lemma np_build d : forall s i sj acc, np (build ev d s i sj acc).
    Proof.
      induction d as [|d IH]; intros; cbn [build]; [np|].
      apply np_build_kids. intros. apply IH.
    Qed.
    Hint Resolve np_build : npdb.
    Lemma np_eval_args p args : forall idx s, np (eval_args ev p idx args s).
    Proof. induction args as [|a r IH]; intros; cbn [eval_args]; np. Qed.
    Hint Resolve np_eval_args : npdb.
    Lemma np_bind_params pp ps : forall idx args fvs dvs i, np (bind_params ev pp idx ps args fvs dvs i).
    Proof. induction ps as [|x r IH]; intros; cbn [bind_params]; np. Qed.
    Hint Resolve np_bind_params : npdb.
    Lemma np_run_closure f args i : np (run_closure ev f args i).
    Proof. unfold run_closure. np. Qed.
    Hint Resolve np_run_closure : npdb.
    Lemma np_exec_function f self args i : np (exec_function ev f self args i).
    Proof. unfold exec_function. np. Qed.
    Hint Resolve np_exec_function : npdb.
    Lemma np_resolve_fobj a r : rnp (resolve_fobj a r).
    Proof.
      unfold resolve_fobj. destruct (name_in a _); [exact I|].
      destruct r; try exact I; destruct (name_in a modelled_builtins); try exact I;
        destruct (name_in a unmodelled_builtins); exact I.
    Qed.
    Lemma np_resolve_function a self nd r s i : np (resolve_function ev a self nd r s i).
    Proof.
      unfold resolve_function. destruct (find_funccall _ _) as [[fidx fc]|]; [|np].
      apply np_bind; [apply np_lift; apply np_resolve_fobj|]. intros o. np.
    Qed.
    Hint Resolve np_resolve_function : npdb.
    Lemma np_resolve d : forall self sj s i, np (resolve ev d self sj s i).
    Proof. induction d as [|d IH]; intros; cbn [resolve]; np. Qed.
    Hint Resolve np_resolve : npdb.
    Lemma np_eval_identifier f p n s i : np (eval_identifier ev f p n s i).
    Proof. unfold eval_identifier. np. Qed.
    Lemma np_ident_set f p n s i v : np (ident_set ev f p n s i v).
    Proof. unfold ident_set. np. Qed.
    Hint Resolve np_eval_identifier np_ident_set : npdb.

    (* ---- assignment *)
    Lemma np_left_side p l : np (left_side p l).
    Proof. unfold left_side. np. Qed.
    Hint Resolve np_left_side : npdb.
    Lemma np_assign_each f ls : forall k cells len s i,
      k + length ls <= len -> np (assign_each ev f ls k cells len s i).
    Proof.
      induction ls as [|[p x] r IH]; intros k cells len s i Hk; cbn [assign_each]; [np|].
      cbn [length] in Hk.
      apply np_bind; [apply np_lift; apply go_index_guarded|].
      { apply andb_true_intro; split; [apply Z.leb_le | apply Z.ltb_lt]; lia. }
      intros v. apply np_bind; [np|]. intros r0. destruct r0; [|np].
      apply IH. lia.
    Qed.
    Lemma np_eval_assign f p cs s i : np (eval_assign ev f p cs s i).
    Proof.
      unfold eval_assign. destruct cs as [|l [|r [|? ?]]]; try solve [np].
      apply np_bind; [np|]. intros _. apply np_bind; [np|]. intros v.
      apply np_bind; [np|]. intros ls.
      assert (Hmulti : np (match v with
                           | VList a len =>
                             if Nat.eqb (length ls) len
                             then bind (get_arr a) (fun cells =>
                                    bind (assign_each ev f ls 0 cells len s i) (fun _ => ret VNull))
                             else fail (rt_err T_INVSTATE)
                           | _ => fail (rt_err T_INVSTATE)
                           end)).
      { destruct v; try solve [np]. destruct (Nat.eqb (length ls) len) eqn:E; [|np].
        apply Nat.eqb_eq in E. apply np_bind; [np|]. intros cells.
        apply np_bind; [apply np_assign_each; lia | intros; np]. }
      destruct ls as [|[p0 x] [|? ?]]; try exact Hmulti. np.
    Qed.
    Lemma np_let_declare l : forall s, np (let_declare l s).
    Proof. induction l as [|x r IH]; intros; cbn [let_declare]; np. Qed.
    Hint Resolve np_let_declare : npdb.
    Lemma np_eval_let p cs s i : np (eval_let ev p cs s i).
    Proof. unfold eval_let. np. Qed.
    Hint Resolve np_eval_assign np_eval_let : npdb.

    (* ---- statements, if, guard *)
    Lemma np_eval_statements p cs : forall idx s i last, np (eval_statements ev p idx cs s i last).
    Proof. induction cs as [|c r IH]; intros; cbn [eval_statements]; np. Qed.
    Lemma np_if_pairs p : forall n cs, length cs <= n -> forall idx s i, np (if_pairs ev p idx cs s i).
    Proof.
      induction n as [|n IH]; intros cs Hl idx s i.
      - destruct cs; [cbn; np | cbn in Hl; lia].
      - destruct cs as [|g [|b r]]; cbn [if_pairs]; try solve [np].
        destruct (is_name g NodeGUARD) eqn:Eg; [|np].
        apply np_guarded_assert; [exact Eg|]. intros bb. destruct bb; [np|].
        apply IH. cbn in Hl. lia.
    Qed.
    Lemma np_eval_if p cs s i : np (eval_if ev p cs s i).
    Proof. unfold eval_if. apply np_bind; [np|]. intros c. eapply np_if_pairs. apply le_n. Qed.
    Lemma post_eval_guard p cs s i : post (eval_guard ev p cs s i) is_bool.
    Proof.
      unfold eval_guard. destruct cs as [|c r]; [apply post_invalid|].
      eapply post_bind_np; [np|]. intros v.
      eapply post_bind_np; [apply np_lift; destruct v; exact I|]. intros b.
      apply post_ret. eexists; reflexivity.
    Qed.
    Hint Resolve np_eval_statements np_eval_if : npdb.

    (* ---- loops *)
    Lemma np_guard_loop k : forall p g body s i,
      is_name g NodeGUARD = true -> np (guard_loop ev k p g body s i).
    Proof.
      induction k as [|k IH]; intros p g body s i Hg; cbn [guard_loop]; [np|].
      apply np_guarded_assert; [exact Hg|]. intros b. destruct b; [|np].
      apply np_bind; [np|]. intros r. destruct r; [apply IH; exact Hg|].
      destruct (is_rt e T_CONT); [apply IH; exact Hg | np].
    Qed.
    Lemma np_set_each vars : forall k cells len s,
      k + length vars <= len -> np (set_each vars k cells len s).
    Proof.
      induction vars as [|x r IH]; intros k cells len s Hk; cbn [set_each]; [np|].
      cbn [length] in Hk.
      apply np_bind; [apply np_lift; apply go_index_guarded|].
      { apply andb_true_intro; split; [apply Z.leb_le | apply Z.ltb_lt]; lia. }
      intros v. apply np_bind; [np|]. intros _. apply IH. lia.
    Qed.
    Lemma np_assign_vars vars v s : np (assign_vars vars v s).
    Proof.
      unfold assign_vars. apply np_bind; [|intros; np]. apply np_attempt.
      assert (Hmulti : np (match v with
                           | VList a len =>
                             if Nat.eqb (length vars) len
                             then bind (get_arr a) (fun cells => set_each vars 0 cells len s)
                             else fail EPlain
                           | _ => fail EPlain
                           end)).
      { destruct v; try solve [np]. destruct (Nat.eqb (length vars) len) eqn:E; [|np].
        apply Nat.eqb_eq in E. apply np_bind; [np|]. intros cells. apply np_set_each. lia. }
      destruct vars as [|x [|? ?]]; try exact Hmulti. np.
    Qed.
    Hint Resolve np_assign_vars : npdb.
    Lemma np_iter_next mode index ip it s i : np (iter_next ev mode index ip it s i).
    Proof.
      unfold iter_next. destruct mode; try solve [np].
      destruct (index <? len) eqn:E; [|np]. apply Nat.ltb_lt in E.
      apply np_bind; [np|]. intros cells.
      apply np_bind; [apply np_lift; apply go_index_guarded | intros; np].
      apply andb_true_intro; split; [apply Z.leb_le | apply Z.ltb_lt]; lia.
    Qed.
    Hint Resolve np_iter_next : npdb.
    Lemma np_iter_loop k : forall mode index p it body vars s i,
      np (iter_loop ev k mode index p it body vars s i).
    Proof. induction k as [|k IH]; intros; cbn [iter_loop]; np. Qed.
    Hint Resolve np_iter_loop : npdb.
    Lemma np_eval_loop f p cs s i0 : np (eval_loop ev f p cs s i0).
    Proof.
      unfold eval_loop. apply np_bind; [np|]. intros c. apply np_bind; [np|]. intros i.
      destruct cs as [|h [|body r]]; try solve [np].
      destruct (is_name h NodeGUARD) eqn:Eg.
      - apply np_bind; [apply np_attempt; apply np_guard_loop; exact Eg | intros; np].
      - np.
    Qed.
    Hint Resolve np_eval_loop : npdb.

    (* ---- try *)
    Lemma np_except_kids ep kids : forall idx s i eo ty hit ht evar ne,
      np (except_kids ev ep idx kids s i eo ty hit ht evar ne).
    Proof.
      induction kids as [|c r IH]; intros; cbn [except_kids]; [np|].
      destruct (is_name c NodeSTRING).
      - destruct hit; [apply IH|].
        apply np_bind; [apply np_lift; apply go_assert_ok_string | intros; apply IH].
      - np.
    Qed.
    Hint Resolve np_except_kids : npdb.
    Lemma np_try_excepts p kids : forall idx s i e eo, np (try_excepts ev p idx kids s i e eo).
    Proof. induction kids as [|c r IH]; intros; cbn [try_excepts]; np. Qed.
    Lemma np_try_otherwise p kids : forall idx s i, np (try_otherwise ev p idx kids s i).
    Proof. induction kids as [|c r IH]; intros; cbn [try_otherwise]; np. Qed.
    Hint Resolve np_try_excepts np_try_otherwise : npdb.
    Lemma np_try_main p body rest s i : np (try_main ev p body rest s i).
    Proof. unfold try_main. np. Qed.
    Hint Resolve np_try_main : npdb.
    Lemma np_eval_try p cs s i : np (eval_try ev p cs s i).
    Proof. unfold eval_try. np. Qed.

    (* ---- functions, mutex *)
    Lemma np_eval_func p n s : np (eval_func p n s).
    Proof. unfold eval_func. np. Qed.
    Lemma np_eval_return p cs s i : np (eval_return ev p cs s i).
    Proof. unfold eval_return. np. Qed.
    Lemma np_eval_mutex p cs s i : np (eval_mutex ev p cs s i).
    Proof. unfold eval_mutex. np. Qed.
    Hint Resolve np_eval_try np_eval_func np_eval_return np_eval_mutex : npdb.

    (* ---- one node *)
    Lemma np_eval_string_lift n : np (lift (eval_string n)).
    Proof.
      apply np_lift. pose proof (eval_string_no_error n) as H.
      destruct (eval_string n); cbn in *; auto.
    Qed.
    Hint Resolve np_eval_string_lift : npdb.

    Lemma post_notguard n (m : M value) : np m -> is_name n NodeGUARD = false -> post m (Qn n).
    Proof. intros H E. eapply post_weaken; [exact H|]. intros a _ Hg. congruence. Qed.

    Ltac np2 := repeat first [np1 | apply np_num_op; intros].

    Lemma eval_node_post f p n s i : post (eval_node ev f p n s i) (Qn n).
    Proof.
      unfold eval_node. cbv zeta.
      repeat match goal with
      | |- post (if String.eqb (n_name n) ?K then _ else _) _ =>
        let E := fresh "E" in
        destruct (String.eqb (n_name n) K) eqn:E;
        [ first
            [ (* the guard itself *)
              eapply post_weaken; [apply post_eval_guard | intros a Ha _; exact Ha]
            | apply post_notguard;
              [ solve [np2]
              | unfold is_name;
                first [ assumption
                      | apply String.eqb_eq in E; rewrite E; reflexivity ] ] ]
        | ]
      end.
      apply post_notguard; [np2 | unfold is_name; assumption].
    Qed.
  End WithEv.

  Theorem eval_post : forall fuel p n s i, post (eval fuel p n s i) (Qn n).
  Proof.
    induction fuel as [|f IH]; intros; cbn [eval]; [apply post_fuel|].
    apply eval_node_post. exact IH.
  Qed.

  Theorem eval_no_panic : forall fuel p n s i st site, fst (eval fuel p n s i st) <> RPanic site.
  Proof.
    intros fuel p n s i st site H. pose proof (eval_post fuel p n s i st) as P.
    rewrite H in P. exact P.
  Qed.

  Theorem run_no_panic : forall fuel t site, fst (run fuel t) <> RPanic site.
  Proof.
    intros fuel t site. unfold run. destruct (validate t); cbn; try discriminate.
    apply eval_no_panic.
  Qed.

  (* ---------------------------------------------------------------- errors are catchable *)
  (* [ne m]: m never ends in an error value (bookkeeping operations of the runtime) *)
  Definition ne {A} (m : M A) : Prop := forall st e, fst (m st) <> RErr e.
  Lemma ne_ret {A} (a : A) : ne (ret a).
  Proof. intros st e. discriminate. Qed.
  Lemma ne_invalid {A} w : ne (@invalid _ A w).
  Proof. intros st e. discriminate. Qed.
  Lemma ne_get_st : ne get_st.
  Proof. intros st e. discriminate. Qed.
  Lemma ne_put_st s : ne (put_st s).
  Proof. intros st e. discriminate. Qed.
  Lemma ne_of_opt {A} w (o : option A) : ne (of_opt w o).
  Proof. destruct o; [apply ne_ret | apply ne_invalid]. Qed.
  Lemma ne_bind {A B} (m : M A) (f : A -> M B) : ne m -> (forall a, ne (f a)) -> ne (bind m f).
  Proof.
    intros Hm Hf st e. unfold bind. specialize (Hm st).
    destruct (m st) as [r st1]. destruct r as [a|e1|?| |?|?]; cbn in *; try discriminate.
    - apply Hf.
    - intros H. apply (Hm e1). reflexivity.
  Qed.
  Lemma ne_attempt {A} (m : M A) : ne (attempt m).
  Proof. intros st e. unfold attempt. destruct (m st) as [r st1]. destruct r; discriminate. Qed.
  Ltac ne :=
    repeat first [ apply ne_ret | apply ne_invalid | apply ne_get_st | apply ne_put_st | apply ne_of_opt
                 | apply ne_attempt | apply ne_bind; [|intro]
                 | match goal with |- ne (match ?x with _ => _ end) => destruct x end ].
  Lemma ne_new_child s k : ne (new_child s k).
  Proof. unfold new_child, get_scope, alloc_scope, set_scope. ne. Qed.
  Lemma ne_make_errobj e : ne (make_errobj e).
  Proof. unfold make_errobj, alloc_map. ne. Qed.

  Lemma bind_err_inv {A B} (m : M A) (f : A -> M B) st e st' :
    bind m f st = (RErr e, st') ->
    m st = (RErr e, st') \/ exists a st1, m st = (ROk a, st1) /\ f a st1 = (RErr e, st').
  Proof.
    unfold bind. destruct (m st) as [r st1]. destruct r; intros H; try discriminate.
    - right. eauto.
    - left. injection H as -> ->. reflexivity.
  Qed.
  Lemma bind_ok_inv {A B} (m : M A) (f : A -> M B) st b st' :
    bind m f st = (ROk b, st') ->
    exists a st1, m st = (ROk a, st1) /\ f a st1 = (ROk b, st').
  Proof.
    unfold bind. destruct (m st) as [r st1]. destruct r; intros H; try discriminate. eauto.
  Qed.
  Lemma bind_ne_inv {A B} (m : M A) (f : A -> M B) st e st' :
    ne m -> bind m f st = (RErr e, st') ->
    exists a st1, m st = (ROk a, st1) /\ f a st1 = (RErr e, st').
  Proof.
    intros Hne H. apply bind_err_inv in H. destruct H as [H|H]; [|exact H].
    exfalso. apply (Hne st e). rewrite H. reflexivity.
  Qed.

  (* try { body } except { handler }: an error of the try statement is a flow signal of the body
     (return / break / continue, which are not failures) or an error of the HANDLER *)
  Lemma try_main_bare_except (ev : evalT) p body xv xi xa xl sv si sa sl hs sc is st e st' :
    let handler := Node NodeSTATEMENTS sv si sa sl hs in
    let exc := Node NodeEXCEPT xv xi xa xl [handler] in
    try_main ev p body [exc] sc is st = (RErr e, st') ->
    is_flow e = true \/
    exists evs st1 st2, ev (0 :: 1 :: p) handler evs is st1 = (RErr e, st2).
  Proof.
    intros handler exc H. unfold try_main in H.
    apply bind_ne_inv in H; [|apply ne_new_child]. destruct H as (tvs & st1 & _ & H).
    apply bind_ne_inv in H; [|apply ne_attempt]. destruct H as (r & st2 & _ & H).
    destruct r as [v|e0].
    - (* the body succeeded: there is no otherwise clause *)
      cbn in H. discriminate.
    - destruct (is_flow e0) eqn:Ef.
      + left. cbn in H. injection H as <- _. exact Ef.
      + right.
        apply bind_ne_inv in H; [|apply ne_make_errobj]. destruct H as (eo & st3 & _ & H).
        change (try_excepts ev p 1 [exc] sc is e0 eo) with
          (bind (except_kids ev (1 :: p) 0 [handler] sc is eo (err_type_text e0) false false [] None)
                (fun h => if fst h then match snd h with None => ret VNull | Some ne0 => fail ne0 end
                          else fail e0)) in H.
        change (except_kids ev (1 :: p) 0 [handler] sc is eo (err_type_text e0) false false [] None) with
          (bind (new_child sc (1 :: p)) (fun evs =>
             bind (ret tt) (fun _ =>
               bind (attempt (ev (0 :: 1 :: p) handler evs is)) (fun b =>
                 ret (true, match b with inl _ => None | inr e1 => Some e1 end))))) in H.
        apply bind_err_inv in H. destruct H as [H|(h & st4 & H1 & H)].
        * exfalso. revert H. apply (fun X => X).
          intros H. apply bind_ne_inv in H; [|apply ne_new_child]. destruct H as (evs & st5 & _ & H).
          cbn in H. unfold bind, attempt in H.
          destruct (ev (0 :: 1 :: p) handler evs is st5) as [r5 st6]; destruct r5; discriminate.
        * apply bind_ok_inv in H1. destruct H1 as (evs & st5 & _ & H1).
          exists evs, st5.
          cbn in H1. unfold bind, attempt in H1.
          destruct (ev (0 :: 1 :: p) handler evs is st5) as [r5 st6] eqn:E5.
          destruct r5; try discriminate; injection H1 as <- <-; cbn in H; try discriminate.
          injection H as <- _. eauto.
  Qed.

  Definition try_node tv ti ta tl (kids : list node) : node := Node NodeTRY tv ti ta tl kids.

  Lemma eval_try_node f p tv ti ta tl body xv xi xa xl hkids sc is :
    eval (S f) p (try_node tv ti ta tl [body; Node NodeEXCEPT xv xi xa xl hkids]) sc is =
    try_main (eval f) p body [Node NodeEXCEPT xv xi xa xl hkids] sc is.
  Proof. reflexivity. Qed.

  Theorem try_contains_every_failure :
    forall fuel p tv ti ta tl body xv xi xa xl sv si sa sl hs sc is st e st',
      let handler := Node NodeSTATEMENTS sv si sa sl hs in
      eval fuel p (try_node tv ti ta tl [body; Node NodeEXCEPT xv xi xa xl [handler]]) sc is st = (RErr e, st') ->
      is_flow e = true \/
      exists f evs st1 st2, fuel = S f /\ eval f (0 :: 1 :: p) handler evs is st1 = (RErr e, st2).
  Proof.
    intros fuel p tv ti ta tl body xv xi xa xl sv si sa sl hs sc is st e st' handler H.
    destruct fuel as [|f]; [discriminate|].
    rewrite eval_try_node in H. apply try_main_bare_except in H.
    destruct H as [H|(evs & st1 & st2 & H)]; [left; exact H | right; eauto 8].
  Qed.

  (* try { body } except { }: whatever the body is, no failure leaves the statement *)
  Theorem errors_catchable :
    forall fuel p tv ti ta tl body xv xi xa xl sv si sa sl sc is st e st',
      eval fuel p (try_node tv ti ta tl [body; Node NodeEXCEPT xv xi xa xl [Node NodeSTATEMENTS sv si sa sl []]])
           sc is st = (RErr e, st') ->
      is_flow e = true.
  Proof.
    intros until st'. intros H. apply try_contains_every_failure in H.
    destruct H as [H|(f & evs & st1 & st2 & -> & H)]; [exact H|].
    exfalso. destruct f; discriminate.
  Qed.
End P.
