(* Proofs/CascadeInv2.v — invariant preservation, second part. *)
From Coq Require Import Lia ZifyBool.
From Ecal Require Import Model.Cascade Spec.CascadeSpec Proofs.CascadeProofs Proofs.CascadeInv.

Lemma pres_waiter s l s' : Inv s -> Step s l s' -> forall r R M, roots s' r = Some R -> mons s' r = Some M ->
  b2n (r_released R) + wsum (w_pend CbWaiter r) s' + (if Nat.eqb (r_posted R) 0 then count_cb CbWaiter (obs s' r) else 0) <= regW R /\
  (m_skipped M = false ->
   b2n (r_released R) + wsum (w_pend CbWaiter r) s' + (if Nat.eqb (r_posted R) 0 then count_cb CbWaiter (obs s' r) else 0) = regW R).
Proof.
  intros I HS. pose proof (i_waiter s I) as IH. pose proof (i_wg s I) as IG.
  cases HS; splitcb; intros r0 RR MM Hr0 Hm0;
    wsums I; wnorm; lk; dedup; facts I;
    repeat match goal with A : roots s ?r = Some ?R |- _ => pose proof (IG _ _ A); revert A end; intros;
    repeat match goal with A : roots s ?r = Some ?R, B : mons s ?r = Some ?M |- _ => pose proof (IH _ _ _ A B); revert A end; intros;
    repeat match goal with A : obs _ _ = _ |- _ => rewrite A in *; revert A end; intros;
    unfold w_pend, regW in *; lk; phases; rewrite ?count_cb_app; simpl in *;
    unfold pre_go in *;
    repeat match goal with A : r_apc _ = _ |- _ => rewrite A in *; revert A end; intros;
    repeat match goal with A : _ /\ _ |- _ => destruct A end;
    repeat match goal with A : r_posted _ = _ |- _ => rewrite A in *; revert A end; intros; simpl in *;
    repeat match goal with A : forall M, mons ?s ?r = Some M -> m_skipped M = false, B : mons ?s ?r = Some ?M |- _ => specialize (A _ B) end;
    (split; [|intros Hsk]);
    repeat match goal with A : m_skipped ?M = false, B : m_skipped ?M = false -> _ |- _ => specialize (B A) end;
    repeat match goal with A : m_skipped ?M = true, B : m_skipped ?M = false -> _ |- _ => clear B end;
    try discriminate; try congruence;
    try lia; unfold b2n in *;
    repeat match goal with A : r_wait _ = _ |- _ => rewrite A in *; revert A end; intros;
    repeat match goal with A : r_released _ = _ |- _ => rewrite A in *; revert A end; intros; simpl in *;
    try lia.
  all: try (exfalso; match goal with A : roots _ ?r = Some ?R, B : mons _ ?r = None |- _ => let X := fresh in destruct (i_rootmon _ I r R A) as (? & X & _); rewrite B in X; discriminate X end).
  all: clear IH IG; unfold pre_go in *.
  all: try match goal with A : context[r_apc ?R] |- _ => destruct (r_apc R) eqn:? end; simpl in *; try discriminate.
  all: repeat match goal with
              | A : context[if r_released ?R then _ else _] |- _ => destruct (r_released R) eqn:?
              | |- context[if r_released ?R then _ else _] => destruct (r_released R) eqn:?
              | A : context[if r_wait ?R then _ else _] |- _ => destruct (r_wait R) eqn:?
              | |- context[if r_wait ?R then _ else _] => destruct (r_wait R) eqn:?
              | A : context[negb (r_wait ?R)] |- _ => destruct (r_wait R) eqn:?
              end; simpl in *; try discriminate; try lia.
Qed.

