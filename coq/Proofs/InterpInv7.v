(* Proofs/InterpInv7.v — the invariant through one level of evaluation, part 4: assignment,
   let, function declarations (what Validate checked is what the evaluation relies on). *)
From Coq Require Import List String NArith ZArith Bool Arith Lia.
From Ecal Require Import Common.Bytes Common.Ast gen.Tokens Spec.ParseSpec Model.Interp Proofs.InterpShape
  Proofs.InterpInv Proofs.InterpInv2 Proofs.InterpInv3 Proofs.InterpInv4 Proofs.InterpInv6.
Import ListNotations.
Local Open Scope string_scope.
Local Open Scope list_scope.
Local Open Scope nat_scope.

Section I7.
  Context {NO : NumOps}.

  Lemma validate_node_assign v i a l0 cs :
    validate_node (Node NodeASSIGN v i a l0 cs) =
    match cs with
    | l :: _ =>
      let tgt := if is_name l NodeLET then match n_children l with x :: _ => Some x | [] => None end
                 else Some l in
      match tgt with
      | None => VInvalid "let without a variable"
      | Some x =>
        if is_name x NodeIDENTIFIER then VOk
        else if is_name x NodeLIST then
          if all_idents (n_children x) then VOk else VErr (rt_err T_VARACC)
        else VErr (rt_err T_VARACC)
      end
    | [] => VInvalid "assignment without children"
    end.
  Proof. reflexivity. Qed.
  Lemma validate_node_let v i a l0 cs :
    validate_node (Node NodeLET v i a l0 cs) =
    match cs with
    | x :: _ =>
      if is_name x NodeIDENTIFIER then VOk
      else if is_name x NodeLIST then
        if all_idents (n_children x) then VOk else VErr (rt_err T_INVCONS)
      else VErr (rt_err T_INVCONS)
    | [] => VInvalid "let without a variable"
    end.
  Proof. reflexivity. Qed.

  (* an assignment target: a validated identifier node *)
  Definition tgt_ok (px : list nat * node) : Prop := tok (snd px) = true /\ n_name (snd px) = NodeIDENTIFIER.

  Lemma with_paths_ok p l : forall i,
    toks l -> forallb (fun c => is_name c NodeIDENTIFIER) l = true -> Forall tgt_ok (with_paths p i l).
  Proof.
    induction l as [|x r IH]; intros i Hc Hf; cbn [with_paths]; [constructor|].
    inversion Hc; subst. cbn [forallb] in Hf. apply andb_prop in Hf. destruct Hf as [Hx Hf].
    constructor; [split; [assumption | apply is_name_eq; exact Hx] | apply IH; assumption].
  Qed.

  Lemma target_ok p x e1 e2 :
    tok x = true ->
    (if is_name x NodeIDENTIFIER then VOk
     else if is_name x NodeLIST then if all_idents (n_children x) then VOk else VErr e1
     else VErr e2) = VOk ->
    exists ls,
      (if is_name x NodeIDENTIFIER then ret [(p, x)]
       else if is_name x NodeLIST then
         if forallb (fun c => is_name c NodeIDENTIFIER) (n_children x) then ret (with_paths p 0 (n_children x))
         else invalid "left side rejected by Validate"
       else invalid "left side rejected by Validate") = ret ls /\ Forall tgt_ok ls.
  Proof.
    intros Hx. destruct (is_name x NodeIDENTIFIER) eqn:Ei.
    - intros _. eexists. split; [reflexivity|]. constructor; [|constructor].
      split; [exact Hx | apply is_name_eq; exact Ei].
    - destruct (is_name x NodeLIST); [|discriminate]. unfold all_idents.
      destruct (forallb (fun c => is_name c NodeIDENTIFIER) (n_children x)) eqn:Ef; [|discriminate].
      intros _. eexists. split; [reflexivity|]. apply with_paths_ok; [apply tok_kids; exact Hx | exact Ef].
  Qed.

  Lemma left_side_ok path n l r :
    tok n = true -> n_name n = NodeASSIGN -> n_children n = [l; r] -> tok l = true ->
    exists ls, left_side path l = ret ls /\ Forall tgt_ok ls.
  Proof.
    intros Ht Hn Hc Hl. pose proof (tok_vnode _ Ht) as Hv.
    destruct n as [name v i a l0 cs]. cbn in Hn, Hc. subst name cs.
    rewrite validate_node_assign in Hv. cbv zeta in Hv. unfold left_side. cbv zeta.
    destruct (is_name l NodeLET) eqn:El.
    - destruct (tok_some_k l NodeLET Hl El) as (x & r0 & Ex & Hx & _); try reflexivity.
      rewrite Ex in *. eapply target_ok; eauto.
    - eapply target_ok; eauto.
  Qed.

  Section WithEv.
    Variable ev : evalT.
    Hypothesis Hev : forall p n s i st,
      tok n = true -> sc_ok st s -> is_ok st i -> T st (ev p n s i) Qval.

    Lemma T_assign_each f ls : forall st i cells len sc is,
      Forall tgt_ok ls -> len <= length cells -> vals_ok st cells -> sc_ok st sc -> is_ok st is ->
      T st (assign_each ev f ls i cells len sc is) Qtrue.
    Proof.
      induction ls as [|[p x] r IH]; intros st i cells len sc is Hls Hl Hc Hs Hi; cbn [assign_each];
        [apply T_ret; exact I|].
      inversion Hls as [|? ? [Hx1 Hx2] Hls']; subst. cbn [snd] in Hx1, Hx2.
      apply Tb_lift. pose proof (go_index_ok st cells len (Z.of_nat i) Hl Hc) as G.
      destruct (go_index cells len (Z.of_nat i)) as [v| | | | |]; cbn in G; auto.
      unfold Qval in G.
      tbind (apply T_attempt; apply (T_ident_set ev Hev); assumption) as s0 Hs0.
      destruct s0; [apply IH; assumption | apply T_fail; exact I].
    Qed.

    Lemma T_assign_multi st f ls v sc is :
      Forall tgt_ok ls -> val_ok st v -> sc_ok st sc -> is_ok st is ->
      T st (match v with
            | VList a len =>
              if Nat.eqb (length ls) len then
                bind (get_arr a) (fun cells =>
                  bind (assign_each ev f ls 0 cells len sc is) (fun _ => ret VNull))
              else fail (rt_err T_INVSTATE)
            | _ => fail (rt_err T_INVSTATE)
            end) Qval.
    Proof.
      intros Hls Hv Hs Hi. destruct v; try (apply T_fail; exact I).
      destruct (Nat.eqb (length ls) len); [|apply T_fail; exact I].
      eapply Tb_get_arr; [exact Hv|]. intros cells E L V.
      tbind (apply T_assign_each; assumption) as ? ?. apply T_ret. exact I.
    Qed.

    Lemma T_eval_assign st f p n sc is :
      tok n = true -> n_name n = NodeASSIGN -> sc_ok st sc -> is_ok st is ->
      T st (eval_assign ev f p (n_children n) sc is) Qval.
    Proof.
      intros Ht Hn Hs Hi.
      destruct (tok_two n Ht) as (l & r & Ec & Hl & Hr); [rewrite Hn; reflexivity|].
      destruct (left_side_ok p n l r Ht Hn Ec Hl) as (ls & Els & Hls).
      rewrite Ec. unfold eval_assign.
      tbind (apply Hev; assumption) as ? ?.
      tbind (apply Hev; assumption) as v Hv.
      rewrite Els. apply Tb_ret.
      destruct ls as [|[p0 x] [|q ls']]; try (apply T_assign_multi; assumption).
      inversion Hls as [|? ? [Hx1 Hx2] _]; subst. cbn [snd] in Hx1, Hx2.
      tbind (apply (T_ident_set ev Hev); assumption) as ? ?. apply T_ret. exact I.
    Qed.

    Lemma T_let_declare l : forall st sc, sc_ok st sc -> T st (let_declare l sc) Qtrue.
    Proof.
      induction l as [|x r IH]; intros st sc Hs; cbn [let_declare]; [apply T_ret; exact I|].
      destruct (n_children x); [|apply T_fail; exact I].
      tbind (apply T_attempt; apply T_set_local_nil; assumption) as ? ?. apply IH; assumption.
    Qed.

    Lemma T_eval_let st p n sc is :
      tok n = true -> n_name n = NodeLET -> sc_ok st sc -> is_ok st is ->
      T st (eval_let ev p (n_children n) sc is) Qval.
    Proof.
      intros Ht Hn Hs Hi. pose proof (tok_vnode _ Ht) as Hv.
      destruct (tok_some n Ht) as (c & r & Ec & Hc & _); try (rewrite Hn; reflexivity).
      destruct n as [name v i a l0 cs]. cbn in Hn, Ec. subst name cs.
      rewrite validate_node_let in Hv. cbn [n_children]. unfold eval_let.
      eapply T_bind with (Q := Qtrue).
      - destruct (is_name c NodeIDENTIFIER); [apply T_let_declare; assumption|].
        destruct (is_name c NodeLIST); [|discriminate]. unfold all_idents in Hv.
        destruct (forallb (fun x => is_name x NodeIDENTIFIER) (n_children c)); [|discriminate].
        apply T_let_declare; assumption.
      - intros ? st' Hok' L _. adv L. apply Hev; assumption.
    Qed.

    Lemma T_eval_func st p n sc :
      tok n = true -> n_name n = NodeFUNC -> sc_ok st sc -> T st (eval_func p n sc) Qval.
    Proof.
      intros Ht Hn Hs. unfold eval_func. pose proof (tok_func _ Ht Hn) as Hf.
      destruct (n_children n) as [|h r] eqn:Ec; [discriminate Hf|]. cbv zeta.
      tbind (apply T_alloc_fun; split; [exact Hs | split; assumption]) as id Hid.
      match type of Hid with _ < length (st_funs ?s) => change (val_ok s (VFun id)) in Hid end.
      eapply T_bind with (Q := Qtrue).
      - destruct (if is_name h NodeIDENTIFIER then n_val h else []); [apply T_ret; exact I|].
        tbind (apply T_attempt; apply T_set_value; assumption) as ? ?. apply T_ret. exact I.
      - intros ? st' Hok' L _. adv L. apply T_ret. exact Hid.
    Qed.
  End WithEv.
End I7.
