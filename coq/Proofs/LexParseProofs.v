(* Proofs/LexParseProofs.v — the seam between the lexer model (C18) and the parser model (C07):
   for EVERY byte string the token list the lexer sends, seen through [to_ptok], satisfies the
   hypothesis of the parser theorems ([eof_last] = Props/C07.v's [lexer_shaped]), so the
   parser theorems hold of [parse_source input] for every input.

   The exact relation between the two shapes.  C18 proves [well_ended ts]:
        ts = body ++ tail,  body: neither EOF nor error tokens,
        tail = [EOF] | [error] | [error; EOF]
   (after an error the state function returns nil, run() still calls skipWhiteSpace once,
   which sends EOF when only white space is left, and closes the channel).  C07 asks
   [eof_last]: an EOF token has nothing after it; it does not restrict error tokens at all
   (Parser.v's [next] turns the first error token it reaches into ErrLexicalError; the
   deferred drain receives whatever the lexer still sends).  So well_ended is strictly
   stronger: [stream_shape] below keeps the whole of it for the adapted list, [stream_eof_last]
   is the consequence the parser proofs consume.  After an error token the lexer sends at
   most ONE more token and that is EOF; the parser's drain receives it ([received = |ts|]). *)
From Coq Require Import List Bool Arith ZArith Lia.
From Ecal Require Import Common.Bytes Common.Outcome Spec.ParseSpec Spec.PositionSpec.
From Ecal Require Import Model.Lexer Proofs.LexerBase Proofs.LexerProofs Proofs.LexParseLines.
From Ecal Require Model.Parser Proofs.ParserProofs Proofs.ParserTop.
From Ecal Require Import Model.LexParse.
Import ListNotations.
Local Open Scope nat_scope.

(* ------------------------------------------------------------------ the adapter, field by field *)
Lemma to_ptok_id t : Parser.t_id (to_ptok t) = t_id t.
Proof. reflexivity. Qed.

Lemma to_ptok_col t : Parser.t_pos (to_ptok t) = t_col t.
Proof. reflexivity. Qed.

Lemma to_ptok_line t : Parser.t_line (to_ptok t) = Z.to_nat (t_line t).
Proof. reflexivity. Qed.

Lemma to_ptok_val t : t_id t <> TokenError -> t_id t <> TokenPRECOMMENT -> t_id t <> TokenPOSTCOMMENT ->
  Parser.t_val (to_ptok t) = t_val t.
Proof.
  intros H1 H2 H3. unfold to_ptok, val_dropped. cbn [Parser.t_val].
  apply Nat.eqb_neq in H1, H2, H3. rewrite H1, H2, H3. reflexivity.
Qed.

Lemma to_ptok_flags t :
  Nat.odd (Parser.t_flags (to_ptok t)) = t_ident t /\ Nat.leb 2 (Parser.t_flags (to_ptok t)) = t_esc t.
Proof. unfold to_ptok, flags_of. cbn [Parser.t_flags]. destruct (t_ident t), (t_esc t); split; reflexivity. Qed.

Lemma source_tokens_length ts : length (source_tokens ts) = length ts.
Proof. apply map_length. Qed.

(* ------------------------------------------------------------------ the shape of the stream *)

(* C18's shape, on the lexer's own list: an EOF token is the last one *)
Lemma well_ended_eof_last ts : well_ended ts ->
  forall pre t post, ts = pre ++ t :: post -> t_id t = TokenEOF -> post = [].
Proof.
  intros (body & tail & -> & Hb & Ht).
  induction body as [|b body IH]; intros pre t post E Hid.
  - cbn [app] in E.
    destruct Ht as [(x & -> & _)|(e & x & -> & He & _)].
    + destruct pre as [|p pre]; cbn [app] in E.
      * injection E as _ <-. reflexivity.
      * injection E as _ E. destruct pre; discriminate.
    + destruct pre as [|p pre]; cbn [app] in E.
      * injection E as <- _. unfold is_error in He. rewrite He in Hid. discriminate.
      * injection E as _ E. destruct pre as [|q pre]; cbn [app] in E.
        -- injection E as _ <-. reflexivity.
        -- injection E as _ E. destruct pre; discriminate.
  - inversion Hb as [|? ? Hn Hb']; subst.
    destruct pre as [|p pre]; cbn [app] in E.
    + injection E as <- _. destruct Hn as [Hn _]. contradiction.
    + injection E as _ E. eapply IH; eauto.
Qed.

(* the same shape, for the list the parser reads *)
Definition p_normal (t : Parser.tok) : Prop :=
  Parser.t_id t <> TokenEOF /\ Parser.t_id t <> TokenError.

Definition stream_shape (all : list Parser.tok) : Prop :=
  exists body tail, all = body ++ tail /\ Forall p_normal body
    /\ ((exists t, tail = [t] /\ (Parser.t_id t = TokenEOF \/ Parser.t_id t = TokenError))
        \/ (exists e t, tail = [e; t] /\ Parser.t_id e = TokenError /\ Parser.t_id t = TokenEOF)).

Lemma well_ended_stream_shape ts : well_ended ts -> stream_shape (source_tokens ts).
Proof.
  intros (body & tail & -> & Hb & Ht). exists (map to_ptok body), (map to_ptok tail).
  split; [apply map_app|]. split.
  - apply Forall_forall. intros x Hx. apply in_map_iff in Hx. destruct Hx as (y & <- & Hy).
    rewrite Forall_forall in Hb. exact (Hb y Hy).
  - destruct Ht as [(x & -> & H)|(e & x & -> & He & Hx)].
    + left. exists (to_ptok x). split; [reflexivity | exact H].
    + right. exists (to_ptok e), (to_ptok x). repeat split; assumption.
Qed.

Lemma well_ended_ptok_eof_last ts : well_ended ts -> ParserProofs.eof_last (source_tokens ts).
Proof.
  intros H pre t post E Hid. unfold source_tokens in E.
  apply map_eq_app in E. destruct E as (pre' & rest & -> & <- & E).
  apply map_eq_cons in E. destruct E as (t' & post' & -> & <- & <-).
  rewrite (well_ended_eof_last _ H pre' t' post' eq_refl Hid). reflexivity.
Qed.

(* ------------------------------------------------------------------ every input *)

Theorem stream_eof_last (input : bytes) ts : lex input = Ok ts -> ParserProofs.eof_last (source_tokens ts).
Proof.
  intros H. apply well_ended_ptok_eof_last.
  exact (lex_with_well_ended _ uni_is_control _ true uni_classifiers_ok input ts H).
Qed.

Theorem stream_has_shape (input : bytes) ts : lex input = Ok ts -> stream_shape (source_tokens ts).
Proof.
  intros H. apply well_ended_stream_shape.
  exact (lex_with_well_ended _ uni_is_control _ true uni_classifiers_ok input ts H).
Qed.

(* the composition: the lexer returns a list, and the parser's result on it is good *)
Theorem parse_source_ok (input : bytes) :
  exists ts, lex input = Ok ts
    /\ parse_source input = Ok (Parser.parse (source_tokens ts))
    /\ ParserTop.good_result (source_tokens ts) (Parser.parse (source_tokens ts)).
Proof.
  destruct (lex_with_total _ uni_is_control _ true uni_classifiers_ok input) as [ts H].
  exists ts. change (lex_with uni_is_space uni_is_control uni_is_number true input) with (lex input) in H.
  split; [exact H|]. split; [unfold parse_source; rewrite H; reflexivity|].
  apply ParserTop.parse_ok. exact (stream_eof_last input ts H).
Qed.

(* ------------------------------------------------------------------ lines *)

(* [Z.to_nat] in the adapter loses nothing: the line of EVERY token the lexer sends (the EOF
   token included) is >= 1 *)
Theorem stream_lines_kept (input : bytes) ts : lex input = Ok ts ->
  forall t, In t ts -> Z.of_nat (Parser.t_line (to_ptok t)) = t_line t.
Proof.
  intros H t Hin. pose proof (lex_with_lines_positive _ uni_is_control _ true input ts H) as HP.
  rewrite Forall_forall in HP. specialize (HP t Hin). unfold lpos in HP.
  rewrite to_ptok_line. lia.
Qed.

(* the lines the parser's same-line decisions compare (hasMoreStatements, ndReturn, the "["
   of an index access, ld_loop's line test) are the true lines of the tokens' offsets *)
Theorem stream_lines_true (input : bytes) ts : lex input = Ok ts ->
  forall t, In t ts -> t_id t <> TokenEOF ->
    Parser.t_line (to_ptok t) = 1 + nl_count input (t_pos t) /\ t_pos t <= length input.
Proof.
  intros H t Hin Hne.
  destruct (lex_with_lines _ uni_is_control _ true uni_classifiers_ok input ts H t Hin Hne) as [A B].
  split; [|exact B]. rewrite to_ptok_line, A. lia.
Qed.

(* a position of the adapted list is the (line, column) of a lexer token *)
Lemma positions_source ts p : In p (ParserTop.positions (source_tokens ts)) ->
  exists t, In t ts /\ p = (Z.to_nat (t_line t), t_col t).
Proof.
  unfold ParserTop.positions, source_tokens. rewrite map_map. intros Hin.
  apply in_map_iff in Hin. destruct Hin as (t & <- & Hin). exists t. split; [exact Hin | reflexivity].
Qed.
