(* Proofs/InterpControl4.v — C04 on the unified interpreter model: the number instance, tree
   constructors and programs of the non-vacuity examples of Props/C04_interp.v.  No theorems. *)
From Coq Require Import List String NArith ZArith Bool Arith.
From Ecal Require Import Common.Bytes Common.Ast gen.Tokens Model.Interp.
Import ListNotations.
Local Open Scope string_scope.
Local Open Scope list_scope.
Local Open Scope nat_scope.

(* an instance of the number interface on Z (enough for integer programs; as in Props/C06_interp.v) *)
Fixpoint z_digits (acc : Z) (s : bytes) : option Z :=
  match s with
  | [] => Some acc
  | c :: r => if (N.leb 48 c && N.leb c 57)%N then z_digits (acc * 10 + Z.of_N (c - 48)%N)%Z r else None
  end.
Definition z_ops : NumOps :=
  Build_NumOps Z (fun s => match s with [] => None | _ => z_digits 0%Z s end) (fun _ => None)
               Z.add Z.sub Z.mul Z.quot Z.div Z.opp (fun z => z) (fun z => z)
               Z.ltb Z.leb Z.eqb (fun _ => None).
Definition nd (k : string) (kids : list node) : node := Node k [] false false 0 kids.
Definition ident (s : string) (kids : list node) : node := Node NodeIDENTIFIER (bs s) true false 0 kids.
Definition num (s : string) : node := Node NodeNUMBER (bs s) false false 0 [].
Definition str (s : string) : node := Node NodeSTRING (bs s) false true 0 [].
Definition var (x : string) : node := ident x [].
Definition assign (x : string) (e : node) : node := nd NodeASSIGN [var x; e].
Definition plus (a b : node) : node := nd NodePLUS [a; b].
Definition inc (x n : string) : node := assign x (plus (var x) (num n)).
Definition block (l : list node) : node := nd NodeSTATEMENTS l.
Definition call (f : string) (args : list node) : node := ident f [nd NodeFUNCCALL args].
Definition guard (e : node) : node := nd NodeGUARD [e].


(* x := 0
   for true { try { x := x + 1; break } except { x := x + 10 } otherwise { x := x + 100 }
              finally { x := x + 1000 } }
   x                                                            -> 1001 *)
Definition P1 := block [assign "x" (num "0");
  nd NodeLOOP [guard (nd NodeTRUE []); block [
    nd NodeTRY [block [inc "x" "1"; nd NodeBREAK []];
      nd NodeEXCEPT [block [inc "x" "10"]];
      nd NodeOTHERWISE [block [inc "x" "100"]];
      nd NodeFINALLY [block [inc "x" "1000"]]]]];
  var "x"].

(* x := 0
   try { raise("B"); x := x + 5 } except "A" { x := x + 1 } except "B", "C" as e { x := x + 10 }
   except { x := x + 100 } otherwise { x := x + 1000 } finally { x := x + 10000 }
   x                                                            -> 10010 *)
Definition P2 := block [assign "x" (num "0");
    nd NodeTRY [block [call "raise" [str "B"]; inc "x" "5"];
      nd NodeEXCEPT [str "A"; block [inc "x" "1"]];
      nd NodeEXCEPT [str "B"; str "C"; nd NodeAS [var "e"]; block [inc "x" "10"]];
      nd NodeEXCEPT [block [inc "x" "100"]];
      nd NodeOTHERWISE [block [inc "x" "1000"]];
      nd NodeFINALLY [block [inc "x" "10000"]]];
  var "x"].

(* x := 0; if false { x := x + 1 } elif true { x := x + 2 } else { x := x + 3 }; x      -> 2 *)
Definition P3 := block [assign "x" (num "0");
   nd NodeIF [guard (nd NodeFALSE []); block [inc "x" "1"]; guard (nd NodeTRUE []); block [inc "x" "2"];
              guard (nd NodeTRUE []); block [inc "x" "3"]];
   var "x"].

(* x := 0; y := 0; for x < 3 { x := x + 1; if x == 2 { continue }; y := y + x }; y      -> 4 *)
Definition P4 := block [assign "x" (num "0"); assign "y" (num "0");
  nd NodeLOOP [guard (nd NodeLT [var "x"; num "3"]); block [
     inc "x" "1";
     nd NodeIF [guard (nd NodeEQ [var "x"; num "2"]); block [nd NodeCONTINUE []]];
     assign "y" (plus (var "y") (var "x"))]];
  var "y"].

(* func f() { for true { try { return 7 } except { return 8 } finally { } }; return 9 }; f()   -> 7 *)
Definition P5 := block [
  nd NodeFUNC [var "f"; nd NodePARAMS []; block [
     nd NodeLOOP [guard (nd NodeTRUE []); block [
        nd NodeTRY [block [nd NodeRETURN [num "7"]]; nd NodeEXCEPT [block [nd NodeRETURN [num "8"]]];
                    nd NodeFINALLY [block []]]]];
     nd NodeRETURN [num "9"]]];
  call "f" []].

(* ---- the pieces the examples instantiate the theorems with *)
(* the global scope after  x := 0 *)
Definition st_x : state (NO := z_ops) := snd (@eval z_ops 20 [0] (assign "x" (num "0")) 0 0 init_state).

(* try { x := x + 1; break } except { x := x + 10 } otherwise { x := x + 100 } [finally { x := x + 1000 }] *)
Definition T1_body : node := block [inc "x" "1"; nd NodeBREAK []].
Definition T1_clauses : list node := [nd NodeEXCEPT [block [inc "x" "10"]]; nd NodeOTHERWISE [block [inc "x" "100"]]].
Definition T1_fb : node := block [inc "x" "1000"].

(* try { raise("B"); x := x + 5 } except "A" { x := x + 1 } except "B", "C" as e { x := x + 10 } except { x := x + 100 }
   otherwise { x := x + 1000 } *)
Definition T2_body : node := block [call "raise" [str "B"]; inc "x" "5"].
Definition T2_pre : list node := [nd NodeEXCEPT [str "A"; block [inc "x" "1"]]].
Definition T2_names : list node := [str "B"; str "C"].
Definition T2_binder : list node := [nd NodeAS [var "e"]].
Definition T2_block : node := block [inc "x" "10"].
Definition T2_post : list node := [nd NodeEXCEPT [block [inc "x" "100"]]; nd NodeOTHERWISE [block [inc "x" "1000"]]].
(* the same with clauses that do not list "B" only *)
Definition T2_nomatch : list node :=
  [nd NodeEXCEPT [str "A"; block [inc "x" "1"]]; nd NodeEXCEPT [str "C"; str "D"; var "e"; block [inc "x" "10"]];
   nd NodeOTHERWISE [block [inc "x" "1000"]]].

(* try { x := x + 1 } except { x := x + 10 } otherwise { x := x + 100 } *)
Definition T3_body : node := block [inc "x" "1"].
Definition T3_pre : list node := [nd NodeEXCEPT [block [inc "x" "10"]]].
Definition T3_ob : node := block [inc "x" "100"].

(* for x < 3 { x := x + 1; if x == 2 { continue }; if x == 3 { break } } *)
Definition L_guard : node := guard (nd NodeLT [var "x"; num "3"]).
Definition L_body : node :=
  block [inc "x" "1"; nd NodeIF [guard (nd NodeEQ [var "x"; num "2"]); block [nd NodeCONTINUE []]];
         nd NodeIF [guard (nd NodeEQ [var "x"; num "3"]); block [nd NodeBREAK []]]].

(* if false { x := x + 1 } elif true { x := x + 2 } else { x := x + 3 } *)
Definition I_pre : list node := [guard (nd NodeFALSE []); block [inc "x" "1"]].
Definition I_g : node := guard (nd NodeTRUE []).
Definition I_s : node := block [inc "x" "2"].
Definition I_r : list node := [guard (nd NodeTRUE []); block [inc "x" "3"]].
(* if x.y.z { } : the guard fails *)
Definition I_bad : node := guard (nd NodePLUS [var "x"; nd NodeNULL []]).

(* func f() { for true { try { return 7 } except { return 8 } finally { } }; return 9 } *)
Definition F_decl : node :=
  nd NodeFUNC [var "f"; nd NodePARAMS []; block [
     nd NodeLOOP [guard (nd NodeTRUE []); block [
        nd NodeTRY [block [nd NodeRETURN [num "7"]]; nd NodeEXCEPT [block [nd NodeRETURN [num "8"]]];
                    nd NodeFINALLY [block []]]]];
     nd NodeRETURN [num "9"]]].
Definition st_f : state (NO := z_ops) := snd (@eval z_ops 20 [0] F_decl 0 0 init_state).

(* ---- witnesses of the existential statements are given as projections of computations *)
Definition okv {NO : NumOps} {A} (d : A) (r : res A) : A := match r with ROk a => a | _ => d end.
Definition erv {NO : NumOps} {A} (r : res A) : error := match r with RErr e => e | _ => EPlain end.
